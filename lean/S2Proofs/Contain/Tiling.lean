/-
  S2Proofs.Contain.Tiling — generic lemmas (any geometry `Geo P`, relative to a set `S` of points) behind the
  tiling / partition statements of property C04 (`Properties/C04_Tiling.lean`):

    §1  families of loops with a common reference point: the XOR of the containment answers is the XOR of the
        origin bits XOR the crossing parity with ALL edges of the family; if the directed edges of the family
        cancel in pairs (a,b) / (b,a) (`EdgesCancel`) the crossing parity vanishes (`family_parity`);
    §1b the same when the paired edges are reverses of each other only up to `==` (`EdgesCancelEq`,
        `eovc_congr_cd_on`, `family_parity_eq`);
    §2  XOR and counting (`xorAll` = "odd number of `true`");
    §3  rotation of the vertex list of a closed chain permutes its edges;
    §4  simple (valid) loops `SimpleLoop`; the `orderedCCW` complement law `occw_compl`; the crossing parity of
        an edge of a simple loop with the loop itself = `angleContainsVertex` at its two endpoints
        (`crossParity_own_edge`);
    §5  containment "seen from vertex 1" (`vertexContains`), `mkLoop_contains_eq_vertexContains`, one step along
        the loop (GIVEN the cocycle for the triple (vertex 1, vertex 2, p)), rotation (`vertexContains_rotate`)
        and reversal (`vertexContains_reverse`) of the vertex list;
    §6  a triangle is a potential (`crossParity_triangle`); a quadrilateral against its subdivision
        (`crossParity_quad_subdivided`).
-/
import S2Proofs.Contain.CocycleShared
import Mathlib.Data.List.Rotate
namespace S2Proofs.Contain
open S2 S2.Contain

variable {P : Type}

/-! ### §1 families of loops -/

/-- all directed edges of a family of loops -/
def familyEdges (loops : List (LoopM P)) : List (P × P) :=
  loops.flatMap fun L => loopEdges L.vertices.toList

/-- the directed edges can be arranged in pairs `(a,b)`, `(b,a)`: "every edge appears once forward and once
    reversed" (bit-identical shared vertices) -/
def EdgesCancel (es : List (P × P)) : Prop := ∃ F : List (P × P), es.Perm (F ++ F.map Prod.swap)

section family
variable {G : Geo P} {S : P → Prop}

/-- XOR of the answers of a family = XOR of the origin bits XOR crossing parity with all edges of the family -/
theorem xorAll_bruteContains (G : Geo P) (o p : P) (loops : List (LoopM P)) :
    xorAll (loops.map fun L => bruteContains G o L p) =
      (xorAll (loops.map fun L => L.originInside) != crossParity G o p (familyEdges loops)) := by
  unfold bruteContains
  rw [xorAll_map_bne]
  congr 1
  unfold crossParity familyEdges
  rw [xorAll_flatMap]

theorem edgesIn_of_perm {es es' : List (P × P)} (h : es.Perm es') (hes : EdgesIn S es) : EdgesIn S es' :=
  fun e he => hes e (h.mem_iff.2 he)

/-- a cancelling edge set is crossed an even number of times by every segment -/
theorem crossParity_cancel (hE : EqLawsOn G S) (hS : SwapOn G S) {a b : P} (ha : S a) (hb : S b)
    {es : List (P × P)} (hes : EdgesIn S es) (hc : EdgesCancel es) : crossParity G a b es = false := by
  obtain ⟨F, hF⟩ := hc
  have hF' : EdgesIn S F := fun e he => edgesIn_of_perm hF hes e (List.mem_append_left _ he)
  rw [crossParity_perm G a b hF, crossParity_append, crossParity_swap_on hE hS ha hb hF']
  simp

theorem edgesIn_familyEdges {loops : List (LoopM P)} (h : ∀ L ∈ loops, LoopIn S L) :
    EdgesIn S (familyEdges loops) := by
  intro e he
  obtain ⟨L, hL, hm⟩ := List.mem_flatMap.1 he
  exact edgesIn_loopEdges (h L hL) e hm

/-- **Family parity**: loops with a common reference point whose directed edges cancel — the XOR of the
    containment answers is the same at EVERY point (boundary points and vertices included): the XOR of the
    origin bits. -/
theorem family_parity (hE : EqLawsOn G S) (hS : SwapOn G S) {o p : P} (ho : S o) (hp : S p)
    {loops : List (LoopM P)} (hL : ∀ L ∈ loops, LoopIn S L) (hc : EdgesCancel (familyEdges loops)) :
    xorAll (loops.map fun L => bruteContains G o L p) = xorAll (loops.map fun L => L.originInside) := by
  rw [xorAll_bruteContains, crossParity_cancel hE hS ho hp (edgesIn_familyEdges hL) hc]
  simp

end family

/-! ### §1b cancellation up to `==` (±0 twins among the shared vertices) -/

/-- the directed edges can be split into two lists `F`, `F'` of equal length such that `F'[i]` is the reverse of
    `F[i]` up to Go `==` (cell vertices on a face boundary are computed once per face and may differ in the
    sign of a zero coordinate) -/
def EdgesCancelEq (G : Geo P) (es : List (P × P)) : Prop :=
  ∃ F F' : List (P × P), es.Perm (F ++ F') ∧ F.length = F'.length ∧
    ∀ x ∈ F.zip F', G.eq x.1.1 x.2.2 = true ∧ G.eq x.1.2 x.2.1 = true

section cancelEq
variable {G : Geo P} {S : P → Prop}

/-- `EdgeOrVertexCrossing(a,b,c,d)` does not distinguish `==` twins of the endpoints of the edge `c d` -/
theorem eovc_congr_cd_on (h : ChiroOn G S) {a b c d c' d' : P} (ha : S a) (hb : S b) (hc : S c) (hd : S d)
    (hc' : S c') (hd' : S d') (hra : S (G.refDir a)) (hrb : S (G.refDir b))
    (ec : G.eq c c' = true) (ed : G.eq d d' = true) :
    edgeOrVertexCrossing G a b c d = edgeOrVertexCrossing G a b c' d' := by
  have o1 := occw_congr_b h hra hd hd' hb ha ed
  have o2 := occw_congr_b h hrb hc hc' ha hb ec
  have o3 := occw_congr_b h hra hc hc' hb ha ec
  have o4 := occw_congr_b h hrb hd hd' ha hb ed
  have q1 : G.eq c d = G.eq c' d' := by
    rw [eq_congr_right h.eqv hc hd hd' ed, eq_congr_left h.eqv hd' hc hc' ec]
  have r1 : G.rs c d b = G.rs c' d' b := by
    rw [h.congr1 hc hc' hd hb ec, h.congr2 hc' hd hd' hb ed]
  have r2 : G.rs c d a = G.rs c' d' a := by
    rw [h.congr1 hc hc' hd ha ec, h.congr2 hc' hd hd' ha ed]
  unfold edgeOrVertexCrossing crossingSign vertexCrossing
  rw [o1, o2, o3, o4, q1, r1, r2, eq_congr_right h.eqv ha hc hc' ec, eq_congr_right h.eqv ha hd hd' ed,
    eq_congr_right h.eqv hb hc hc' ec, eq_congr_right h.eqv hb hd hd' ed,
    h.congr a b c c' ha hb hc hc' ec, h.congr a b d d' ha hb hd hd' ed]

theorem crossParity_cancelEq (h : ChiroOn G S) {a b : P} (ha : S a) (hb : S b) (hra : S (G.refDir a))
    (hrb : S (G.refDir b)) {es : List (P × P)} (hes : EdgesIn S es) (hc : EdgesCancelEq G es) :
    crossParity G a b es = false := by
  obtain ⟨F, F', hperm, hlen, hz⟩ := hc
  have hFF : EdgesIn S (F ++ F') := edgesIn_of_perm hperm hes
  rw [crossParity_perm G a b hperm, crossParity_append]
  have key : ∀ (F F' : List (P × P)), EdgesIn S F → EdgesIn S F' → F.length = F'.length →
      (∀ x ∈ F.zip F', G.eq x.1.1 x.2.2 = true ∧ G.eq x.1.2 x.2.1 = true) →
      crossParity G a b F' = crossParity G a b F := by
    intro F
    induction F with
    | nil => intro F' _ _ hl _; cases F' with
      | nil => rfl
      | cons _ _ => simp at hl
    | cons e F ih =>
      intro F' h1 h2 hl hz
      cases F' with
      | nil => simp at hl
      | cons e' F' =>
        have hh := hz (e, e') (by simp)
        have ih' := ih F' (fun x hx => h1 x (List.mem_cons_of_mem _ hx))
          (fun x hx => h2 x (List.mem_cons_of_mem _ hx)) (by simpa using hl)
          (fun x hx => hz x (by simp only [List.zip_cons_cons, List.mem_cons]; exact Or.inr hx))
        have se := h1 e (by simp)
        have se' := h2 e' (by simp)
        unfold crossParity at ih' ⊢
        simp only [List.map_cons, xorAll_cons, ih']
        congr 1
        rw [eovc_rev_on h.eqv h.swap ha hb se.1 se.2]
        exact eovc_congr_cd_on h ha hb se'.1 se'.2 se.2 se.1 hra hrb
          (h.eqv.symm _ _ se.2 se'.1 hh.2) (h.eqv.symm _ _ se.1 se'.2 hh.1)
  rw [key F F' (fun x hx => hFF x (List.mem_append_left _ hx)) (fun x hx => hFF x (List.mem_append_right _ hx))
    hlen hz]
  simp

/-- **Family parity, shared vertices up to `==`**. -/
theorem family_parity_eq (h : ChiroOn G S) {o p : P} (ho : S o) (hp : S p) (hro : S (G.refDir o))
    (hrp : S (G.refDir p)) {loops : List (LoopM P)} (hL : ∀ L ∈ loops, LoopIn S L)
    (hc : EdgesCancelEq G (familyEdges loops)) :
    xorAll (loops.map fun L => bruteContains G o L p) = xorAll (loops.map fun L => L.originInside) := by
  rw [xorAll_bruteContains, crossParity_cancelEq h ho hp hro hrp (edgesIn_familyEdges hL) hc]
  simp

end cancelEq

/-! ### §2 XOR and counting -/

theorem xorAll_eq_count_odd (l : List Bool) : xorAll l = decide ((l.filter id).length % 2 = 1) := by
  induction l with
  | nil => simp
  | cons x xs ih =>
    rw [xorAll_cons, ih]
    cases x
    · simp
    · simp only [List.filter_cons, id_eq, ↓reduceIte, List.length_cons]
      by_cases h : (List.filter id xs).length % 2 = 1
      · have : ((List.filter id xs).length + 1) % 2 ≠ 1 := by omega
        simp [h, this]
      · have : ((List.filter id xs).length + 1) % 2 = 1 := by omega
        simp [h, this]

theorem xorAll_map_eq_count_odd {α : Type} (f : α → Bool) (l : List α) :
    xorAll (l.map f) = decide ((l.filter f).length % 2 = 1) := by
  rw [xorAll_eq_count_odd, List.filter_map, List.length_map]
  rfl

/-! ### §3 closed chains: rotation of the vertex list -/

theorem pathEdges_mem {l : List P} {e : P × P} (he : e ∈ pathEdges l) : e.1 ∈ l ∧ e.2 ∈ l := by
  induction l with
  | nil => simp [pathEdges] at he
  | cons a l ih =>
    cases l with
    | nil => simp [pathEdges] at he
    | cons b l =>
      simp only [pathEdges, List.mem_cons] at he
      rcases he with rfl | he
      · simp
      · have := ih he
        exact ⟨List.mem_cons_of_mem _ this.1, List.mem_cons_of_mem _ this.2⟩

/-- rotating the vertex list by one position permutes the edges -/
theorem loopEdges_rot1_perm (x : P) (l : List P) : (loopEdges (l ++ [x])).Perm (loopEdges (x :: l)) := by
  cases l with
  | nil => simp [loopEdges]
  | cons y l =>
    have e0 : (y :: l) ++ [x] = y :: (l ++ [x]) := rfl
    rw [e0, loopEdges_cons, loopEdges_cons]
    have e : y :: (l ++ [x]) ++ [y] = (y :: l) ++ [x] ++ [y] := by simp
    rw [e, pathEdges_snoc_snoc]
    simp only [List.cons_append, pathEdges]
    exact List.perm_append_singleton _ _

/-! ### §4 simple loops -/

/-- what `Loop.Validate` / `findSelfIntersection` establish of a loop, for the geometry `G`: at least three
    vertices, pairwise not `==`, and two edges without a common endpoint do not cross.  (Invariant under
    rotation and reversal of the vertex list.) -/
structure SimpleLoop (G : Geo P) (vs : List P) : Prop where
  len : 3 ≤ vs.length
  nodup : vs.Nodup
  distinct : ∀ a ∈ vs, ∀ b ∈ vs, a ≠ b → G.eq a b = false
  nocross : ∀ e ∈ loopEdges vs, ∀ f ∈ loopEdges vs,
    G.eq e.1 f.1 = false → G.eq e.1 f.2 = false → G.eq e.2 f.1 = false → G.eq e.2 f.2 = false →
    edgeOrVertexCrossing G e.1 e.2 f.1 f.2 = false

instance [DecidableEq P] (G : Geo P) (vs : List P) : Decidable (SimpleLoop G vs) :=
  decidable_of_iff (3 ≤ vs.length ∧ vs.Nodup ∧ (∀ a ∈ vs, ∀ b ∈ vs, a ≠ b → G.eq a b = false) ∧
    (∀ e ∈ loopEdges vs, ∀ f ∈ loopEdges vs,
      G.eq e.1 f.1 = false → G.eq e.1 f.2 = false → G.eq e.2 f.1 = false → G.eq e.2 f.2 = false →
      edgeOrVertexCrossing G e.1 e.2 f.1 f.2 = false))
    ⟨fun ⟨a, b, c, d⟩ => ⟨a, b, c, d⟩, fun ⟨a, b, c, d⟩ => ⟨a, b, c, d⟩⟩

theorem SimpleLoop.rot1 {G : Geo P} {x : P} {l : List P} (h : SimpleLoop G (x :: l)) :
    SimpleLoop G (l ++ [x]) where
  len := by have := h.len; simpa using this
  nodup := by
    have := h.nodup
    exact (List.perm_append_singleton x l).nodup_iff.2 this
  distinct a ha b hb := h.distinct a (by simpa [or_comm] using ha) b (by simpa [or_comm] using hb)
  nocross e he f hf :=
    h.nocross e ((loopEdges_rot1_perm x l).mem_iff.1 he) f ((loopEdges_rot1_perm x l).mem_iff.1 hf)

theorem SimpleLoop.rotate {G : Geo P} {vs : List P} (h : SimpleLoop G vs) (k : Nat) :
    SimpleLoop G (vs.rotate k) := by
  induction k generalizing vs with
  | zero => simpa using h
  | succ k ih =>
    cases vs with
    | nil => simpa using h
    | cons x l => rw [List.rotate_cons_succ]; exact ih h.rot1

/-- `AngleContainsVertex` in terms of `orderedCCW` -/
theorem angleContainsVertex_eq (G : Geo P) (a b c : P) :
    angleContainsVertex G a b c = !orderedCCW G (G.refDir b) c a b := rfl

section simple
variable {G : Geo P} {S : P → Prop}

/-- **`orderedCCW` complement law**: around `X`, starting from the reference direction, exactly one of
    "Y before Z", "Z before Y" holds, for three pairwise non-`==` points. -/
theorem occw_compl (h : ChiroOn G S) {X Y Z : P} (hX : S X) (hY : S Y) (hZ : S Z) (hr : S (G.refDir X))
    (hXY : G.eq X Y = false) (hYZ : G.eq Y Z = false) (hXZ : G.eq X Z = false) :
    orderedCCW G (G.refDir X) Z Y X = !orderedCCW G (G.refDir X) Y Z X := by
  have hZY : G.eq Z Y = false := by rw [eq_comm_on h.eqv hZ hY]; exact hYZ
  rw [occw_corner h hX hZ hY hr hXZ hZY hXY, occw_corner h hX hY hZ hr hXY hYZ hXZ,
    cornerC_symm h hX hY hZ hXY hYZ hXZ, h.swap23 hX hY hZ]
  have := bne_flip _ (h.unit X Y Z hX hY hZ hXY hYZ hXZ)
  revert this
  generalize (G.rs X Y Z == 1) = x
  generalize (-(G.rs X Y Z) == 1) = y
  generalize cornerC G X Y Z = q
  cases x <;> cases y <;> cases q <;> simp

/-- reversing an angle complements `AngleContainsVertex` -/
theorem angleContainsVertex_rev (h : ChiroOn G S) {a b c : P} (ha : S a) (hb : S b) (hc : S c)
    (hr : S (G.refDir b)) (hba : G.eq b a = false) (hac : G.eq a c = false) (hbc : G.eq b c = false) :
    angleContainsVertex G c b a = !angleContainsVertex G a b c := by
  rw [angleContainsVertex_eq, angleContainsVertex_eq, occw_compl h hb ha hc hr hba hac hbc]
  simp

/-- **The crossing parity of an edge of a simple loop with the loop itself**: the edge `a b` (previous vertex
    `z`, next vertex `c`) counts itself once, its two neighbours by the vertex rule, and nothing else:
    the parity is `AngleContainsVertex(z,a,b) XOR AngleContainsVertex(a,b,c)`. -/
theorem crossParity_own_edge (h : ChiroOn G S) {z a b c : P} {rest tl : List P}
    (hs : SimpleLoop G (z :: a :: b :: rest)) (hc : rest ++ [z] = c :: tl)
    (hin : ∀ v ∈ z :: a :: b :: rest, S v) (hra : S (G.refDir a)) :
    crossParity G a b (loopEdges (z :: a :: b :: rest)) =
      (angleContainsVertex G z a b != angleContainsVertex G a b c) := by
  have hE : loopEdges (z :: a :: b :: rest) = (z, a) :: (a, b) :: (b, c) :: pathEdges (c :: tl) := by
    rw [loopEdges_cons]
    show pathEdges (z :: a :: b :: (rest ++ [z])) = _
    rw [hc]; simp [pathEdges]
  have hnd := hs.nodup
  simp only [List.nodup_cons, List.mem_cons, not_or] at hnd
  obtain ⟨⟨hza, hzb, hzr⟩, ⟨hab, har⟩, ⟨hbr, _⟩⟩ := hnd
  have mz : z ∈ z :: a :: b :: rest := by simp
  have ma : a ∈ z :: a :: b :: rest := by simp
  have mb : b ∈ z :: a :: b :: rest := by simp
  -- members of `rest ++ [z]` are vertices different from `a` and `b`
  have tail : ∀ x ∈ c :: tl, x ∈ z :: a :: b :: rest ∧ x ≠ a ∧ x ≠ b := by
    intro x hx
    rw [← hc] at hx
    simp only [List.mem_append, List.mem_singleton] at hx
    rcases hx with hx | rfl
    · exact ⟨by simp [hx], fun e => har (e ▸ hx), fun e => hbr (e ▸ hx)⟩
    · exact ⟨mz, hza, hzb⟩
  have hSz := hin z mz
  have hSa := hin a ma
  have hSb := hin b mb
  obtain ⟨mc, hca, hcb⟩ := tail c (by simp)
  have hSc := hin c mc
  have eab : G.eq a b = false := hs.distinct a ma b mb hab
  have eza : G.eq z a = false := hs.distinct z mz a ma hza
  have eaz : G.eq a z = false := hs.distinct a ma z mz (Ne.symm hza)
  have eba : G.eq b a = false := hs.distinct b mb a ma (Ne.symm hab)
  have ebz : G.eq b z = false := hs.distinct b mb z mz (Ne.symm hzb)
  have ezb : G.eq z b = false := hs.distinct z mz b mb hzb
  have ebc : G.eq b c = false := hs.distinct b mb c mc (Ne.symm hcb)
  have eac : G.eq a c = false := hs.distinct a ma c mc (Ne.symm hca)
  have eaa : G.eq a a = true := h.eqv.refl a hSa
  have ebb : G.eq b b = true := h.eqv.refl b hSb
  -- the far edges do not count
  have far : ∀ e ∈ pathEdges (c :: tl), edgeOrVertexCrossing G a b e.1 e.2 = false := by
    intro e he
    have hm := pathEdges_mem he
    obtain ⟨m1, n1a, n1b⟩ := tail e.1 hm.1
    obtain ⟨m2, n2a, n2b⟩ := tail e.2 hm.2
    refine hs.nocross (a, b) (by rw [hE]; simp) e (by rw [hE]; simp [he])
      (hs.distinct a ma _ m1 (Ne.symm n1a)) (hs.distinct a ma _ m2 (Ne.symm n2a))
      (hs.distinct b mb _ m1 (Ne.symm n1b)) (hs.distinct b mb _ m2 (Ne.symm n2b))
  have hfar : xorAll ((pathEdges (c :: tl)).map fun e => edgeOrVertexCrossing G a b e.1 e.2) = false :=
    xorAll_map_false _ _ far
  unfold crossParity
  rw [hE]
  simp only [List.map_cons, xorAll_cons, hfar]
  rw [eovc_shared_ad eab eza eaz eba eaa ebz, eovc_shared_ac_bd eab eab eaa ebb,
    eovc_shared_bc eab ebc eab ebc eac ebb,
    angleContainsVertex_eq, angleContainsVertex_eq, occw_compl h hSa hSb hSz hra eab ebz eaz]
  generalize orderedCCW G (G.refDir a) b z a = x
  generalize orderedCCW G (G.refDir b) c a b = y
  cases x <;> cases y <;> rfl

end simple

/-! ### §5 containment seen from a vertex; rotation and reversal of the vertex list -/

/-- containment as the constructor fixes it, seen from vertex 1: `AngleContainsVertex(v0,v1,v2)` XOR the
    crossing parity of `v1 → p` — no reference point involved -/
def vertexContains (G : Geo P) (vs : List P) (p : P) : Bool :=
  match vs with
  | v0 :: v1 :: v2 :: _ => angleContainsVertex G v0 v1 v2 != crossParity G v1 p (loopEdges vs)
  | _ => false

/-- the cocycle statement of `Properties/C04.lean` (repeated here to keep this file below it) -/
def Cocycle3 (G : Geo P) (A B C : P) (es : List (P × P)) : Prop :=
  (crossParity G A B es != crossParity G B C es) = crossParity G A C es

/-- **`LoopFromPoints` + `bruteForceContainsPoint` without the reference point**: GIVEN the cocycle for
    (origin, vertex 1, p), the answer of the loop built by `mkLoop` is `vertexContains`. -/
theorem mkLoop_contains_eq_vertexContains (G : Geo P) (o p v0 v1 v2 : P) (rest : List P)
    (h01 : G.eq v0 v1 = false) (h21 : G.eq v2 v1 = false)
    (hc : Cocycle3 G o v1 p (loopEdges (v0 :: v1 :: v2 :: rest))) :
    bruteContains G o (mkLoop G o (v0 :: v1 :: v2 :: rest).toArray) p =
      vertexContains G (v0 :: v1 :: v2 :: rest) p := by
  unfold mkLoop initOriginInside
  have hs : ¬ ((v0 :: v1 :: v2 :: rest).toArray.size < 3) := by simp
  simp only [hs, ↓reduceIte, h01, h21, Bool.not_false, Bool.true_and]
  unfold bruteContains vertexContains Cocycle3 at *
  simp only [Bool.false_bne]
  rw [← hc]
  generalize angleContainsVertex G v0 v1 v2 = x
  generalize crossParity G o v1 _ = y
  generalize crossParity G v1 p _ = w
  cases x <;> cases y <;> cases w <;> rfl

section walk
variable {G : Geo P} {S : P → Prop}

/-- **One step along a simple loop**: rotating the vertex list by one position does not change the
    containment function — GIVEN the cocycle for (vertex 1, vertex 2, p). -/
theorem vertexContains_rot1 (h : ChiroOn G S) {z a b : P} {rest : List P}
    (hs : SimpleLoop G (z :: a :: b :: rest)) (hin : ∀ v ∈ z :: a :: b :: rest, S v)
    (hra : S (G.refDir a)) (p : P)
    (hc : Cocycle3 G a b p (loopEdges (z :: a :: b :: rest))) :
    vertexContains G (a :: b :: rest ++ [z]) p = vertexContains G (z :: a :: b :: rest) p := by
  obtain ⟨c, tl, hct⟩ : ∃ c tl, rest ++ [z] = c :: tl := by
    cases rest with
    | nil => exact ⟨z, [], rfl⟩
    | cons c r => exact ⟨c, r ++ [z], rfl⟩
  have own := crossParity_own_edge h hs hct hin hra
  have e0 : a :: b :: rest ++ [z] = a :: b :: c :: tl := by
    show a :: b :: (rest ++ [z]) = _
    rw [hct]
  have eP : crossParity G b p (loopEdges (a :: b :: c :: tl)) =
      crossParity G b p (loopEdges (z :: a :: b :: rest)) := by
    rw [← e0]
    exact crossParity_perm G b p (loopEdges_rot1_perm z (a :: b :: rest))
  rw [e0]
  unfold vertexContains Cocycle3 at *
  simp only
  rw [eP, ← hc, own]
  generalize angleContainsVertex G z a b = x
  generalize angleContainsVertex G a b c = y
  generalize crossParity G b p _ = w
  cases x <;> cases y <;> cases w <;> rfl

theorem loopEdges_rotate_perm (vs : List P) (k : Nat) : (loopEdges (vs.rotate k)).Perm (loopEdges vs) := by
  induction k generalizing vs with
  | zero => simp
  | succ k ih =>
    cases vs with
    | nil => simp
    | cons x l =>
      rw [List.rotate_cons_succ]
      exact (ih (l ++ [x])).trans (loopEdges_rot1_perm x l)

theorem Cocycle3.perm {A B C : P} {es es' : List (P × P)} (hp : es.Perm es') (h : Cocycle3 G A B C es) :
    Cocycle3 G A B C es' := by
  unfold Cocycle3 at *
  rw [← crossParity_perm G A B hp, ← crossParity_perm G B C hp, ← crossParity_perm G A C hp]
  exact h

/-- what the walk along a loop needs, for the query point `p`: the loop is simple, its vertices and their
    reference directions are in `S`, and the cocycle holds for every pair of different vertices and `p` -/
structure WalkHyp (G : Geo P) (S : P → Prop) (vs : List P) (p : P) : Prop where
  simple : SimpleLoop G vs
  inS : ∀ v ∈ vs, S v ∧ S (G.refDir v)
  hp : S p
  cocycle : ∀ a ∈ vs, ∀ b ∈ vs, a ≠ b → Cocycle3 G a b p (loopEdges vs)

theorem WalkHyp.rot1 {x : P} {l : List P} {p : P} (h : WalkHyp G S (x :: l) p) : WalkHyp G S (l ++ [x]) p where
  simple := h.simple.rot1
  inS v hv := h.inS v (by simpa [or_comm] using hv)
  hp := h.hp
  cocycle a ha b hb hab :=
    (h.cocycle a (by simpa [or_comm] using ha) b (by simpa [or_comm] using hb) hab).perm
      (loopEdges_rot1_perm x l).symm

/-- **Rotation invariance**: for a simple loop the containment function does not depend on which vertex the
    vertex list starts with (the constructor's choice of "vertex 1" is immaterial). -/
theorem vertexContains_rotate (h : ChiroOn G S) {vs : List P} {p : P} (hw : WalkHyp G S vs p) (k : Nat) :
    vertexContains G (vs.rotate k) p = vertexContains G vs p := by
  induction k generalizing vs with
  | zero => simp
  | succ k ih =>
    match vs, hw with
    | [], hw => simp
    | [_], hw => have := hw.simple.len; simp at this
    | [_, _], hw => have := hw.simple.len; simp at this
    | z :: a :: b :: rest, hw =>
      rw [List.rotate_cons_succ, ih hw.rot1]
      have hnd := hw.simple.nodup
      simp only [List.nodup_cons, List.mem_cons, not_or] at hnd
      exact vertexContains_rot1 h hw.simple (fun v hv => (hw.inS v hv).1) (hw.inS a (by simp)).2 p
        (hw.cocycle a (by simp) b (by simp) hnd.2.1.1)

/-- **Reversal**: for a simple loop, the loop built from the reversed vertex list is the complement. -/
theorem vertexContains_reverse (h : ChiroOn G S) {vs : List P} {p : P} (hw : WalkHyp G S vs p) :
    vertexContains G vs.reverse p = !vertexContains G vs p := by
  have hlen := hw.simple.len
  obtain ⟨w, y, x, l, hr⟩ : ∃ w y x l, vs.reverse = w :: y :: x :: l := by
    match hrs : vs.reverse with
    | [] => have := congrArg List.length hrs; simp only [List.length_reverse, List.length_nil] at this; omega
    | [_] => have := congrArg List.length hrs; simp only [List.length_reverse, List.length_cons, List.length_nil] at this; omega
    | [_, _] => have := congrArg List.length hrs; simp only [List.length_reverse, List.length_cons, List.length_nil] at this; omega
    | w :: y :: x :: l => exact ⟨w, y, x, l, rfl⟩
  have hv : vs = l.reverse ++ [x, y, w] := by
    have := congrArg List.reverse hr
    simpa using this
  have hrot : vs.rotate l.reverse.length = x :: y :: w :: l.reverse := by
    rw [hv, List.rotate_append_length_eq]; rfl
  rw [← vertexContains_rotate h hw l.reverse.length, hrot, hr]
  have mx : x ∈ vs := by rw [hv]; simp
  have my : y ∈ vs := by rw [hv]; simp
  have mw : w ∈ vs := by rw [hv]; simp
  have hnd := hw.simple.nodup
  rw [hv] at hnd
  have hnd' : [x, y, w].Nodup := (List.nodup_append.1 hnd).2.1
  simp only [List.nodup_cons, List.mem_cons, List.not_mem_nil, or_false, not_or] at hnd'
  obtain ⟨⟨hxy, hxw⟩, hyw, _⟩ := hnd'
  have eyx : G.eq y x = false := hw.simple.distinct y my x mx (Ne.symm hxy)
  have exw : G.eq x w = false := hw.simple.distinct x mx w mw hxw
  have eyw : G.eq y w = false := hw.simple.distinct y my w mw hyw
  have e1 : crossParity G y p (loopEdges (w :: y :: x :: l)) = crossParity G y p (loopEdges vs) := by
    rw [← hr]
    exact crossParity_loop_reverse_on h.eqv h.swap (hw.inS y my).1 hw.hp (fun v hv => (hw.inS v hv).1)
  have e2 : crossParity G y p (loopEdges (x :: y :: w :: l.reverse)) = crossParity G y p (loopEdges vs) := by
    rw [← hrot]
    exact crossParity_perm G y p (loopEdges_rotate_perm vs _)
  unfold vertexContains
  simp only
  rw [e1, e2, angleContainsVertex_rev h (hw.inS x mx).1 (hw.inS y my).1 (hw.inS w mw).1 (hw.inS y my).2
    eyx exw eyw]
  generalize angleContainsVertex G x y w = q
  generalize crossParity G y p (loopEdges vs) = r
  cases q <;> cases r <;> rfl

end walk

/-! ### §6 triangles as potentials; a quadrilateral against its subdivision -/

section sliver
variable {G : Geo P} {S : P → Prop}

theorem crossB_symm (x y u w : Int) : crossB x y u w = crossB w u y x := by
  unfold crossB
  rw [Bool.eq_iff_iff]
  simp only [Bool.and_eq_true, beq_iff_eq]
  constructor <;> rintro ⟨⟨h1, h2⟩, h3⟩ <;> refine ⟨⟨?_, ?_⟩, ?_⟩ <;> omega

/-- two segments without a common endpoint: `EdgeOrVertexCrossing` is symmetric in the two segments -/
theorem eovc_symm_on (h : ChiroOn G S) {a b c d : P} (ha : S a) (hb : S b) (hc : S c) (hd : S d)
    (hac : G.eq a c = false) (had : G.eq a d = false) (hbc : G.eq b c = false) (hbd : G.eq b d = false) :
    edgeOrVertexCrossing G a b c d = edgeOrVertexCrossing G c d a b := by
  have cm : ∀ {x y : P}, S x → S y → G.eq x y = G.eq y x := fun hx hy => eq_comm_on h.eqv hx hy
  by_cases hab : G.eq a b = true
  · rw [eovc_degenerate G a b c d hab, eovc_degenerate_edge G c d a b hab]
  · by_cases hcd : G.eq c d = true
    · rw [eovc_degenerate_edge G a b c d hcd, eovc_degenerate G c d a b hcd]
    · simp only [Bool.not_eq_true] at hab hcd
      rw [eovc_of_ne hac had hbc hbd hab hcd,
        eovc_of_ne (by rw [cm hc ha]; exact hac) (by rw [cm hc hb]; exact hbc) (by rw [cm hd ha]; exact had)
          (by rw [cm hd hb]; exact hbd) hcd hab]
      exact crossB_symm _ _ _ _

/-- **A triangle is a potential**: for a segment `o p` none of whose endpoints is `==` to a corner, the crossing
    parity with the triangle `A B C` is `inTri o XOR inTri p` (`inTri` = on the inner side of all three sides). -/
theorem crossParity_triangle (h : ChiroOn G S) {A B C o p : P} (hA : S A) (hB : S B) (hC : S C) (ho : S o)
    (hp : S p) (hAB : G.eq A B = false) (hBC : G.eq B C = false) (hAC : G.eq A C = false)
    (hAo : G.eq A o = false) (hBo : G.eq B o = false) (hCo : G.eq C o = false)
    (hAp : G.eq A p = false) (hBp : G.eq B p = false) (hCp : G.eq C p = false) :
    crossParity G o p (loopEdges [A, B, C]) = (inTri G A B C o != inTri G A B C p) := by
  have cm : ∀ {x y : P}, S x → S y → G.eq x y = G.eq y x := fun hx hy => eq_comm_on h.eqv hx hy
  have hoA : G.eq o A = false := by rw [cm ho hA]; exact hAo
  have hoB : G.eq o B = false := by rw [cm ho hB]; exact hBo
  have hoC : G.eq o C = false := by rw [cm ho hC]; exact hCo
  have hpA : G.eq p A = false := by rw [cm hp hA]; exact hAp
  have hpB : G.eq p B = false := by rw [cm hp hB]; exact hBp
  have hpC : G.eq p C = false := by rw [cm hp hC]; exact hCp
  rw [← edge_parity h hA hB hC ho hp hAB hBC hAC hAo hBo hCo hAp hBp hCp]
  unfold crossParity
  simp only [loopEdges, List.cons_append, List.nil_append, List.zip_cons_cons, List.zip_nil_right,
    List.map_cons, List.map_nil, xorAll_cons, xorAll_nil]
  rw [eovc_symm_on h ho hp hA hB hoA hoB hpA hpB, eovc_symm_on h ho hp hB hC hoB hoC hpB hpC,
    eovc_rev_on h.eqv h.swap ho hp hC hA, eovc_symm_on h ho hp hA hC hoA hoC hpA hpC]
  generalize edgeOrVertexCrossing G A B o p = x
  generalize edgeOrVertexCrossing G B C o p = y
  generalize edgeOrVertexCrossing G A C o p = z
  cases x <;> cases y <;> cases z <;> rfl

private theorem quad_bool : ∀ (a0 a1 a2 a3 b0 c0 b1 c1 b2 c2 b3 c3 : Bool),
    (a0 != (a1 != (a2 != (a3 != false)))) =
      ((b0 != (c0 != (b1 != (c1 != (b2 != (c2 != (b3 != (c3 != false)))))))) !=
        ((b0 != (c0 != (a0 != false))) != ((b1 != (c1 != (a1 != false))) !=
          ((b2 != (c2 != (a2 != false))) != (b3 != (c3 != (a3 != false))))))) := by
  decide

/-- **A quadrilateral against its subdivision** (one extra vertex `m_i` on each edge — a cell and the boundary
    of the union of its four children): the crossing parities differ by the crossing parities with the four
    sliver triangles `v_i m_i v_{i+1}`. -/
theorem crossParity_quad_subdivided (hE : EqLawsOn G S) (hS : SwapOn G S) {o p v0 v1 v2 v3 m0 m1 m2 m3 : P}
    (ho : S o) (hp : S p) (h0 : S v0) (h1 : S v1) (h2 : S v2) (h3 : S v3) :
    crossParity G o p (loopEdges [v0, v1, v2, v3]) =
      (crossParity G o p (loopEdges [v0, m0, v1, m1, v2, m2, v3, m3]) !=
        (crossParity G o p (loopEdges [v0, m0, v1]) != (crossParity G o p (loopEdges [v1, m1, v2]) !=
          (crossParity G o p (loopEdges [v2, m2, v3]) != crossParity G o p (loopEdges [v3, m3, v0]))))) := by
  unfold crossParity
  simp only [loopEdges, List.cons_append, List.nil_append, List.zip_cons_cons, List.zip_nil_right,
    List.map_cons, List.map_nil, xorAll_cons, xorAll_nil]
  rw [eovc_rev_on hE hS ho hp h1 h0, eovc_rev_on hE hS ho hp h2 h1, eovc_rev_on hE hS ho hp h3 h2,
    eovc_rev_on hE hS ho hp h0 h3]
  exact quad_bool _ _ _ _ _ _ _ _ _ _ _ _

end sliver

end S2Proofs.Contain
