/-
  Laws of the generic crossing functions of `S2.Contain` used by C04 / C06:
  edge-reversal symmetry (from antisymmetry of the orientation sign), crossings of a degenerate
  query edge, the Go loop of `shapeContains` in closed form.
-/
import S2.Contain
import S2Proofs.Contain.Basic
namespace S2Proofs.Contain
open S2 S2.Contain

variable {P : Type}

/-- Go `==` on points is an equivalence (true for float vectors without NaN coordinates) -/
structure EqLaws (G : Geo P) : Prop where
  refl : ∀ a, G.eq a a = true
  symm : ∀ a b, G.eq a b = true → G.eq b a = true
  trans : ∀ a b c, G.eq a b = true → G.eq b c = true → G.eq a c = true

/-- the edge-reversal symmetry of the crossing function that containment counts with
    (`VertexCrossing` property (3) + `CrossingSign` symmetry in the source comments) -/
structure CrossLaws (G : Geo P) : Prop where
  eovc_rev : ∀ a b c d, edgeOrVertexCrossing G a b c d = edgeOrVertexCrossing G a b d c

theorem eq_comm' {G : Geo P} (hE : EqLaws G) (a b : P) : G.eq a b = G.eq b a :=
  Bool.eq_iff_iff.2 ⟨hE.symm a b, hE.symm b a⟩

theorem crossingSign_rev {G : Geo P} (hE : EqLaws G)
    (hS : ∀ a b c, G.rs b a c = -(G.rs a b c)) (a b c d : P) :
    crossingSign G a b c d = crossingSign G a b d c := by
  unfold crossingSign
  rw [eq_comm' hE d c, hS c d b, hS c d a]
  have hor : (G.eq a c || G.eq a d || G.eq b c || G.eq b d) = (G.eq a d || G.eq a c || G.eq b d || G.eq b c) := by
    cases G.eq a c <;> cases G.eq a d <;> cases G.eq b c <;> cases G.eq b d <;> rfl
  rw [hor]
  generalize G.rs a b c = x
  generalize G.rs a b d = y
  generalize G.rs c d b = u
  generalize G.rs c d a = w
  simp only [bne_iff_ne, ne_eq, ite_not]
  split_ifs <;> first | rfl | omega

theorem vertexCrossing_rev {G : Geo P} (hE : EqLaws G) (a b c d : P) :
    vertexCrossing G a b c d = vertexCrossing G a b d c := by
  unfold vertexCrossing
  rw [eq_comm' hE d c]
  have k1 : G.eq a c = true → G.eq a d = true → G.eq c d = true :=
    fun h1 h2 => hE.trans _ _ _ (hE.symm _ _ h1) h2
  have k2 : G.eq a c = true → G.eq b c = true → G.eq a b = true :=
    fun h1 h2 => hE.trans _ _ _ h1 (hE.symm _ _ h2)
  have k3 : G.eq b d = true → G.eq a d = true → G.eq a b = true :=
    fun h1 h2 => hE.trans _ _ _ h2 (hE.symm _ _ h1)
  have k4 : G.eq b d = true → G.eq b c = true → G.eq c d = true :=
    fun h1 h2 => hE.trans _ _ _ (hE.symm _ _ h2) h1
  generalize orderedCCW G (G.refDir a) d b a = o1
  generalize orderedCCW G (G.refDir b) c a b = o2
  generalize orderedCCW G (G.refDir a) c b a = o3
  generalize orderedCCW G (G.refDir b) d a b = o4
  generalize G.eq a b = eab at *
  generalize G.eq c d = ecd at *
  generalize G.eq a c = eac at *
  generalize G.eq b d = ebd at *
  generalize G.eq a d = ead at *
  generalize G.eq b c = ebc at *
  cases eab <;> cases ecd <;> cases eac <;> cases ebd <;> cases ead <;> cases ebc <;> simp_all

/-- `CrossLaws` follow from: `==` is an equivalence and the orientation sign changes sign when
    its first two arguments are swapped (property C02). -/
theorem crossLaws_of_signLaws {G : Geo P} (hE : EqLaws G)
    (hS : ∀ a b c, G.rs b a c = -(G.rs a b c)) : CrossLaws G := by
  constructor
  intro a b c d
  unfold edgeOrVertexCrossing
  rw [crossingSign_rev hE hS a b c d, vertexCrossing_rev hE a b c d]

/-- a degenerate query edge (a == b) crosses nothing -/
theorem eovc_degenerate (G : Geo P) (a b c d : P) (h : G.eq a b = true) :
    edgeOrVertexCrossing G a b c d = false := by
  unfold edgeOrVertexCrossing crossingSign vertexCrossing
  simp only [h, Bool.true_or]
  split_ifs <;> simp

/-- a degenerate shape edge (c == d) is never counted -/
theorem eovc_degenerate_edge (G : Geo P) (a b c d : P) (h : G.eq c d = true) :
    edgeOrVertexCrossing G a b c d = false := by
  unfold edgeOrVertexCrossing crossingSign vertexCrossing
  simp only [h, Bool.or_true]
  split_ifs <;> simp

theorem crossParity_degenerate (G : Geo P) (a b : P) (es : List (P × P)) (h : G.eq a b = true) :
    crossParity G a b es = false := by
  unfold crossParity
  exact xorAll_map_false _ _ (fun e _ => eovc_degenerate G a b e.1 e.2 h)

theorem crossParity_append (G : Geo P) (a b : P) (e₁ e₂ : List (P × P)) :
    crossParity G a b (e₁ ++ e₂) = (crossParity G a b e₁ != crossParity G a b e₂) := by
  simp [crossParity, xorAll_append]

theorem crossParity_perm (G : Geo P) (a b : P) {e₁ e₂ : List (P × P)} (h : e₁.Perm e₂) :
    crossParity G a b e₁ = crossParity G a b e₂ :=
  xorAll_perm (h.map _)

/-- reversing every edge does not change the crossing parity -/
theorem crossParity_swap {G : Geo P} (hC : CrossLaws G) (a b : P) (es : List (P × P)) :
    crossParity G a b (es.map Prod.swap) = crossParity G a b es := by
  unfold crossParity
  rw [List.map_map]
  congr 1
  apply List.map_congr_left
  intro e _
  simp [hC.eovc_rev a b e.2 e.1]

theorem crossParity_loop_reverse {G : Geo P} (hC : CrossLaws G) (a b : P) (vs : List P) :
    crossParity G a b (loopEdges vs.reverse) = crossParity G a b (loopEdges vs) := by
  rw [crossParity_perm G a b (loopEdges_reverse_perm vs), crossParity_swap hC]

/-! ### polygon edge lists -/

/-- crossing parity with the oriented (hole = reversed) edges equals that with the stored edges -/
theorem crossParity_oriented {G : Geo P} (hC : CrossLaws G) (a b : P) (l : PLoop P) :
    crossParity G a b (orientedEdges l) = crossParity G a b (loopEdges l.loop.vertices.toList) := by
  unfold orientedEdges
  split
  · exact crossParity_loop_reverse hC a b _
  · rfl

/-- the edges of an empty / full loop never count -/
theorem crossParity_special {G : Geo P} (hE : EqLaws G) (a b : P) (L : LoopM P)
    (h : L.isEmptyOrFull = true) : crossParity G a b (loopEdges L.vertices.toList) = false := by
  obtain ⟨vs, oi⟩ := L
  simp only [LoopM.isEmptyOrFull, beq_iff_eq] at h
  obtain ⟨l⟩ := vs
  simp only [List.size_toArray] at h
  match l, h with
  | [v], _ =>
    simp [crossParity, loopEdges, eovc_degenerate_edge G a b v v (hE.refl v)]

theorem crossParity_polygonEdges {G : Geo P} (hC : CrossLaws G) (hE : EqLaws G) (a b : P)
    (pg : PolygonM P) :
    crossParity G a b (polygonEdges (pg.filter fun l => !l.loop.isEmptyOrFull)) =
      xorAll (pg.map fun l => crossParity G a b (loopEdges l.loop.vertices.toList)) := by
  induction pg with
  | nil => simp [polygonEdges, crossParity]
  | cons l pg ih =>
    by_cases hs : l.loop.isEmptyOrFull = true
    · simp only [List.filter_cons, hs, Bool.not_true, Bool.false_eq_true, ↓reduceIte, List.map_cons,
        xorAll_cons, crossParity_special hE a b l.loop hs]
      rw [ih]; simp
    · simp only [Bool.not_eq_true] at hs
      simp only [List.filter_cons, hs, Bool.not_false, ↓reduceIte, List.map_cons, xorAll_cons]
      rw [← ih]
      simp only [polygonEdges, List.flatMap_cons]
      rw [crossParity_append, crossParity_oriented hC]

/-! ### the Go loop of `shapeContains` in closed form -/

theorem shapeContainsGo_semiOpen (G : Geo P) (c p : P) (inside : Bool) (es : List (P × P)) :
    shapeContainsGo G .semiOpen c p inside es = (inside != crossParity G c p es) := by
  induction es generalizing inside with
  | nil => simp [shapeContainsGo, crossParity]
  | cons e es ih =>
    unfold shapeContainsGo
    simp only [crossParity, List.map_cons, xorAll_cons, edgeOrVertexCrossing] at ih ⊢
    cases hcs : crossingSign G c p e.1 e.2 <;> simp [ih]

/-- `p` is an endpoint of a listed edge -/
def isEndpoint (G : Geo P) (es : List (P × P)) (p : P) : Bool :=
  es.any fun e => G.eq e.1 p || G.eq e.2 p

theorem crossingSign_maybe_of_endpoint {G : Geo P} (hE : EqLaws G) (c p : P) (e : P × P)
    (h : (G.eq e.1 p || G.eq e.2 p) = true) : crossingSign G c p e.1 e.2 = .maybe := by
  unfold crossingSign
  have : (G.eq p e.1 || G.eq p e.2) = true := by
    rw [eq_comm' hE p e.1, eq_comm' hE p e.2]; exact h
  have : (G.eq c e.1 || G.eq c e.2 || G.eq p e.1 || G.eq p e.2) = true := by
    cases G.eq c e.1 <;> cases G.eq c e.2 <;> cases hp1 : G.eq p e.1 <;> cases hp2 : G.eq p e.2 <;> simp_all
  simp [this]

theorem shapeContainsGo_open {G : Geo P} (hE : EqLaws G) (c p : P) (inside : Bool) (es : List (P × P)) :
    shapeContainsGo G .open_ c p inside es =
      ((inside != crossParity G c p es) && !isEndpoint G es p) := by
  induction es generalizing inside with
  | nil => simp [shapeContainsGo, crossParity, isEndpoint]
  | cons e es ih =>
    unfold shapeContainsGo
    by_cases hep : (G.eq e.1 p || G.eq e.2 p) = true
    · rw [crossingSign_maybe_of_endpoint hE c p e hep]
      simp [hep, isEndpoint]
    · simp only [Bool.not_eq_true] at hep
      have hany : isEndpoint G (e :: es) p = isEndpoint G es p := by
        simp only [isEndpoint, List.any_cons, hep, Bool.false_or]
      rw [hany]
      simp only [crossParity, List.map_cons, xorAll_cons, edgeOrVertexCrossing] at ih ⊢
      cases hcs : crossingSign G c p e.1 e.2 <;> simp [ih, hep]

theorem shapeContainsGo_closed {G : Geo P} (hE : EqLaws G) (c p : P) (inside : Bool) (es : List (P × P)) :
    shapeContainsGo G .closed c p inside es =
      ((inside != crossParity G c p es) || isEndpoint G es p) := by
  induction es generalizing inside with
  | nil => simp [shapeContainsGo, crossParity, isEndpoint]
  | cons e es ih =>
    unfold shapeContainsGo
    by_cases hep : (G.eq e.1 p || G.eq e.2 p) = true
    · rw [crossingSign_maybe_of_endpoint hE c p e hep]
      simp [hep, isEndpoint]
    · simp only [Bool.not_eq_true] at hep
      have hany : isEndpoint G (e :: es) p = isEndpoint G es p := by
        simp only [isEndpoint, List.any_cons, hep, Bool.false_or]
      rw [hany]
      simp only [crossParity, List.map_cons, xorAll_cons, edgeOrVertexCrossing] at ih ⊢
      cases hcs : crossingSign G c p e.1 e.2 <;> simp [ih, hep]

/-! ### listed edges -/

/-- the edges of `es` with the listed ids (`shape.Edge(id)` for `id` in `clipped.edges`) -/
def listed (es : List (P × P)) (ids : List Nat) : List (P × P) := ids.filterMap (es[·]?)

/-- parity over the listed edges = parity over all edges, when the ids are duplicate-free, in
    range, and every unlisted edge does not count -/
theorem crossParity_listed (G : Geo P) (c p : P) (es : List (P × P)) (ids : List Nat)
    (hnd : ids.Nodup) (hlt : ∀ i ∈ ids, i < es.length)
    (hun : ∀ i (h : i < es.length), i ∉ ids → edgeOrVertexCrossing G c p es[i].1 es[i].2 = false) :
    crossParity G c p (listed es ids) = crossParity G c p es := by
  let f : Nat → Bool := fun i => match es[i]? with
    | some e => edgeOrVertexCrossing G c p e.1 e.2
    | none => false
  have h1 : crossParity G c p (listed es ids) = xorAll (ids.map f) := by
    unfold crossParity listed
    congr 1
    clear hnd hun
    induction ids with
    | nil => rfl
    | cons i ids ih =>
      have hi : i < es.length := hlt i (by simp)
      have := ih (fun j hj => hlt j (by simp [hj]))
      simp only [List.filterMap_cons, List.getElem?_eq_getElem hi, List.map_cons, this, f]
  have h2 : crossParity G c p es = xorAll ((List.range es.length).map f) := by
    unfold crossParity
    congr 1
    apply List.ext_getElem
    · simp
    · intro i h1 h2
      simp only [List.length_map] at h1
      simp [f, List.getElem?_eq_getElem h1]
  rw [h1, h2]
  apply xorAll_listed f ids hnd hlt
  intro i hi hni
  simp only [f, List.getElem?_eq_getElem hi]
  exact hun i hi hni

end S2Proofs.Contain
