/-
  Helper lemmas for the containment model (`S2.Contain`): algebra of `xorAll`, edge lists of a
  reversed loop, crossings of a degenerate query edge.
-/
import S2.Contain
import Mathlib.Data.List.Perm.Basic
import Mathlib.Data.List.Nodup
import Mathlib.Data.List.Basic
namespace S2Proofs.Contain
open S2 S2.Contain

/-! ### xorAll -/

theorem foldl_bne (b : Bool) (l : List Bool) :
    l.foldl (fun acc x => acc != x) b = (b != xorAll l) := by
  induction l generalizing b with
  | nil => simp [xorAll]
  | cons x xs ih =>
    simp only [List.foldl_cons, xorAll]
    rw [ih, ih (false != x)]
    cases b <;> cases x <;> simp

@[simp] theorem xorAll_nil : xorAll [] = false := rfl

@[simp] theorem xorAll_cons (x : Bool) (l : List Bool) : xorAll (x :: l) = (x != xorAll l) := by
  simp only [xorAll, List.foldl_cons]
  rw [foldl_bne]
  cases x <;> try simp [xorAll]

theorem xorAll_append (l₁ l₂ : List Bool) : xorAll (l₁ ++ l₂) = (xorAll l₁ != xorAll l₂) := by
  induction l₁ with
  | nil => simp
  | cons x xs ih => simp [ih]

theorem xorAll_perm {l₁ l₂ : List Bool} (h : l₁.Perm l₂) : xorAll l₁ = xorAll l₂ := by
  induction h with
  | nil => rfl
  | cons x _ ih => simp [ih]
  | swap x y l => simp; cases x <;> cases y <;> cases xorAll l <;> rfl
  | trans _ _ ih₁ ih₂ => exact ih₁.trans ih₂

theorem xorAll_reverse (l : List Bool) : xorAll l.reverse = xorAll l :=
  xorAll_perm (List.reverse_perm l)

theorem xorAll_map_bne {α : Type} (f g : α → Bool) (l : List α) :
    xorAll (l.map fun x => f x != g x) = (xorAll (l.map f) != xorAll (l.map g)) := by
  induction l with
  | nil => simp
  | cons x xs ih =>
    simp [ih]; cases f x <;> cases g x <;> cases xorAll (xs.map f) <;> cases xorAll (xs.map g) <;> rfl

theorem xorAll_map_false {α : Type} (f : α → Bool) (l : List α) (h : ∀ x ∈ l, f x = false) :
    xorAll (l.map f) = false := by
  induction l with
  | nil => simp
  | cons x xs ih =>
    simp [h x (by simp), ih (fun y hy => h y (by simp [hy]))]

theorem xorAll_flatMap {α β : Type} (f : α → List β) (g : β → Bool) (l : List α) :
    xorAll ((l.flatMap f).map g) = xorAll (l.map fun x => xorAll ((f x).map g)) := by
  induction l with
  | nil => simp
  | cons x xs ih => simp [List.flatMap_cons, xorAll_append, ih]

/-- the parity of `f` over a list only depends on the members where `f` is true -/
theorem xorAll_map_filter {α : Type} (f : α → Bool) (l : List α) :
    xorAll (l.map f) = xorAll ((l.filter f).map f) := by
  induction l with
  | nil => simp
  | cons x xs ih =>
    by_cases hx : f x = true
    · simp [hx, ih]
    · simp only [Bool.not_eq_true] at hx
      simp [hx, ih]

/-- Parity over a duplicate-free list of listed ids equals the parity over all ids `0..n-1` when
    every unlisted id contributes `false`. -/
theorem xorAll_listed {n : Nat} (f : Nat → Bool) (ids : List Nat) (hnd : ids.Nodup)
    (hlt : ∀ i ∈ ids, i < n) (hun : ∀ i, i < n → i ∉ ids → f i = false) :
    xorAll (ids.map f) = xorAll ((List.range n).map f) := by
  rw [xorAll_map_filter f ids, xorAll_map_filter f (List.range n)]
  apply xorAll_perm
  apply List.Perm.map
  apply (List.perm_ext_iff_of_nodup (hnd.filter _) (List.nodup_range.filter _)).2
  intro i
  simp only [List.mem_filter, List.mem_range]
  constructor
  · rintro ⟨hi, hf⟩; exact ⟨hlt i hi, hf⟩
  · rintro ⟨hi, hf⟩
    refine ⟨?_, hf⟩
    by_contra hni
    have := hun i hi hni
    simp [this] at hf

/-- XOR over a list where one entry is negated -/
theorem xorAll_mapIdx_flip {α : Type} (f g : α → Bool) (h : α → α) (hk : ∀ x, f (h x) = !g x)
    (hfg : ∀ x, f x = g x) (l : List α) (k : Nat) (hlt : k < l.length) :
    xorAll ((l.mapIdx fun i x => if i == k then h x else x).map f) = !xorAll (l.map g) := by
  induction l generalizing k with
  | nil => simp at hlt
  | cons x xs ih =>
    cases k with
    | zero =>
      simp only [List.mapIdx_cons, beq_self_eq_true, ↓reduceIte, List.map_cons, xorAll_cons, hk]
      have : (xs.mapIdx fun i x => if (i + 1 == 0) = true then h x else x) = xs := by
        apply List.ext_getElem <;> simp
      rw [this]
      have : xs.map f = xs.map g := List.map_congr_left (fun x _ => hfg x)
      rw [this]; cases g x <;> cases xorAll (xs.map g) <;> rfl
    | succ k =>
      simp only [List.mapIdx_cons, List.map_cons, xorAll_cons]
      have h0 : ((0 : Nat) == k + 1) = false := by simp
      simp only [h0, Bool.false_eq_true, ↓reduceIte]
      have e : (xs.mapIdx fun i x => if (i + 1 == k + 1) = true then h x else x) =
          (xs.mapIdx fun i x => if (i == k) = true then h x else x) := by
        apply List.ext_getElem <;> simp
      rw [e, ih k (by simpa using hlt), hfg]
      cases g x <;> cases xorAll (xs.map g) <;> rfl

/-! ### edges of a path / loop -/

/-- consecutive pairs of an open vertex chain -/
def pathEdges {P : Type} : List P → List (P × P)
  | [] => []
  | [_] => []
  | a :: b :: l => (a, b) :: pathEdges (b :: l)

theorem zip_shift {P : Type} (a x : P) (l : List P) :
    (a :: l).zip (l ++ [x]) = pathEdges (a :: l ++ [x]) := by
  induction l generalizing a with
  | nil => simp [pathEdges]
  | cons b l ih =>
    have := ih b
    simp only [List.cons_append, List.zip_cons_cons, pathEdges] at this ⊢
    rw [this]

theorem loopEdges_cons {P : Type} (v : P) (rest : List P) :
    loopEdges (v :: rest) = pathEdges (v :: rest ++ [v]) := by
  simp only [loopEdges]
  exact zip_shift v v rest

theorem pathEdges_snoc_snoc {P : Type} (l : List P) (y x : P) :
    pathEdges (l ++ [y] ++ [x]) = pathEdges (l ++ [y]) ++ [(y, x)] := by
  induction l with
  | nil => simp [pathEdges]
  | cons a l ih =>
    cases l with
    | nil => simp [pathEdges]
    | cons b l =>
      simp only [List.cons_append] at ih ⊢
      simp only [pathEdges, ih, List.cons_append]

theorem pathEdges_reverse {P : Type} (l : List P) :
    pathEdges l.reverse = ((pathEdges l).map Prod.swap).reverse := by
  induction l with
  | nil => simp [pathEdges]
  | cons a l ih =>
    cases l with
    | nil => simp [pathEdges]
    | cons b l =>
      have e : (a :: b :: l).reverse = l.reverse ++ [b] ++ [a] := by simp
      have e' : (b :: l).reverse = l.reverse ++ [b] := by simp
      rw [e, pathEdges_snoc_snoc, ← e', ih]
      simp [pathEdges]

/-- the edges of the reversed loop are the reversed edges, in another order -/
theorem loopEdges_reverse_perm {P : Type} (vs : List P) :
    (loopEdges vs.reverse).Perm ((loopEdges vs).map Prod.swap) := by
  cases vs with
  | nil => simp [loopEdges]
  | cons v rest =>
    have hR : ((loopEdges (v :: rest)).map Prod.swap).Perm (pathEdges (v :: rest ++ [v]).reverse) := by
      rw [loopEdges_cons, pathEdges_reverse]
      exact (List.reverse_perm _).symm
    refine List.Perm.trans ?_ hR.symm
    rcases h : rest.reverse with _ | ⟨w, ws⟩
    · have : rest = [] := by simpa using h
      subst this
      simp [loopEdges, pathEdges]
    · have e1 : (v :: rest).reverse = w :: (ws ++ [v]) := by simp [h]
      have e2 : (v :: rest ++ [v]).reverse = v :: w :: (ws ++ [v]) := by simp [h]
      rw [e1, e2, loopEdges_cons]
      have e3 : w :: (ws ++ [v]) ++ [w] = (w :: ws) ++ [v] ++ [w] := by simp
      rw [e3, pathEdges_snoc_snoc]
      simp only [pathEdges, List.cons_append]
      exact List.perm_append_singleton _ _

end S2Proofs.Contain
