/-
  S2Proofs.Contain.Quad — the convex-quadrilateral lemma (any geometry `Geo P` with the chirotope laws `ChiroOn`):

  for a quadrilateral `v0 v1 v2 v3` whose four consecutive vertex triples are counter-clockwise
  (`[v0v1v2] = [v1v2v3] = [v2v3v0] = [v3v0v1] = +1`), the containment function the loop constructor fixes
  (`vertexContains` = `AngleContainsVertex(v0,v1,v2)` XOR crossing parity of `v1 → p`, i.e. what
  `LoopFromPoints(v0..v3).ContainsPoint(p)` returns, `mkLoop_contains_eq_vertexContains`) is, at EVERY point `p`
  that is not `==` to a vertex,

        p is on the inner (left, `+1`) side of all four edges            (`inQuad`).

  Proof: `v1 → p` meets the two edges through `v1` at the shared vertex (`vertexCrossing`: `orderedCCW` around
  `v1` with the reference direction), and the two far edges `v2v3`, `v3v0` by the four-orientation criterion.
  `occw_corner` turns the three `orderedCCW` terms into corner potentials; one Grassmann–Plücker relation with
  pivot `v1` on the directions `v0, v2, p, refDir v1` makes them add up to "p is in the wedge at v1"
  (`[v0v1p] = [v1v2p] = +1`); two Grassmann–Plücker relations (pivots `v1`, `v3`; the diagonal `v1v3` separates
  the two far edges) do the rest.  All 2^5 · 3^3 sign patterns: `quad_enum`, kernel-checked.
-/
import S2Proofs.Contain.Tiling
namespace S2Proofs.Contain
open S2 S2.Contain

/-- at most one of three trits is the zero sign -/
def atMostOneZero (x y z : Fin 3) : Bool :=
  !((x == 1 && y == 1) || (x == 1 && z == 1) || (y == 1 && z == 1))

/-- **Convex quadrilateral, sign combinatorics.**  `ba … be` = `[v0v1p] [v1v2p] [v2v3p] [v3v0p]`, `bg = [v1v3p]`
    (the diagonal), `A0 A2 Ap = [v1 v0 r] [v1 v2 r] [v1 p r]` (r = refDir v1; may be 0). -/
theorem quad_enum : ∀ (ba bb bc be bg : Bool) (A0 A2 Ap : Fin 3),
    gpB (-1 * sT Ap) (-(-sB ba * sT A2)) (sT A0 * sB bb) = true →
    gpB (-1 * sB bg) (-(-1 * sB bb)) (-sB ba * 1) = true →
    gpB (1 * -sB bc) (-(1 * -sB bg)) (sB be * 1) = true →
    atMostOneZero A0 A2 Ap = true →
    ((!(cornerB 1 (sT A2) (sT A0) != ((1 : Int) == 1))) !=
      ((cornerB (-sB ba) (sT A0) (sT Ap) != (-sB ba == 1)) !=
        ((cornerB (sB bb) (sT A2) (sT Ap) != (sB bb == 1)) !=
          (crossB (-sB bb) (-sB bg) (sB bc) 1 != (crossB (-sB bg) (sB ba) (sB be) 1 != false))))) =
      ((sB ba == 1) && (sB bb == 1) && (sB bc == 1) && (sB be == 1)) := by
  decide +kernel

variable {P : Type}

/-- `p` is on the inner (`+1`) side of the four edges of the quadrilateral `v0 v1 v2 v3` -/
def inQuad (G : Geo P) (v0 v1 v2 v3 p : P) : Bool :=
  (G.rs v0 v1 p == 1) && (G.rs v1 v2 p == 1) && (G.rs v2 v3 p == 1) && (G.rs v3 v0 p == 1)

/-- what the convex-quadrilateral lemma needs: the vertices and `refDir v1` are in `S`, the vertices are pairwise
    not `==`, `refDir v1` is not `==` to `v1`, and every three consecutive vertices are counter-clockwise -/
structure CCWQuad (G : Geo P) (S : P → Prop) (v0 v1 v2 v3 : P) : Prop where
  h0 : S v0
  h1 : S v1
  h2 : S v2
  h3 : S v3
  hr : S (G.refDir v1)
  n01 : G.eq v0 v1 = false
  n02 : G.eq v0 v2 = false
  n03 : G.eq v0 v3 = false
  n12 : G.eq v1 v2 = false
  n13 : G.eq v1 v3 = false
  n23 : G.eq v2 v3 = false
  n1r : G.eq v1 (G.refDir v1) = false
  c012 : G.rs v0 v1 v2 = 1
  c123 : G.rs v1 v2 v3 = 1
  c230 : G.rs v2 v3 v0 = 1
  c301 : G.rs v3 v0 v1 = 1

section quad
variable {G : Geo P} {S : P → Prop}

/-- **The convex-quadrilateral lemma**: containment as the loop constructor fixes it = "on the inner side of all
    four edges", at every point of `S` that is not `==` to a vertex. -/
theorem vertexContains_quad (h : ChiroOn G S) {v0 v1 v2 v3 p : P} (q : CCWQuad G S v0 v1 v2 v3) (hp : S p)
    (p0 : G.eq v0 p = false) (p1 : G.eq v1 p = false) (p2 : G.eq v2 p = false) (p3 : G.eq v3 p = false) :
    vertexContains G [v0, v1, v2, v3] p = inQuad G v0 v1 v2 v3 p := by
  obtain ⟨h0, h1, h2, h3, hr, n01, n02, n03, n12, n13, n23, n1r, c012, c123, c230, c301⟩ := q
  have cm : ∀ {x y : P}, S x → S y → G.eq x y = G.eq y x := fun hx hy => eq_comm_on h.eqv hx hy
  have n10 : G.eq v1 v0 = false := by rw [cm h1 h0]; exact n01
  have n20 : G.eq v2 v0 = false := by rw [cm h2 h0]; exact n02
  have q0 : G.eq p v0 = false := by rw [cm hp h0]; exact p0
  have q1 : G.eq p v1 = false := by rw [cm hp h1]; exact p1
  have q2 : G.eq p v2 = false := by rw [cm hp h2]; exact p2
  have q3 : G.eq p v3 = false := by rw [cm hp h3]; exact p3
  have e11 : G.eq v1 v1 = true := h.eqv.refl v1 h1
  have n30 : G.eq v3 v0 = false := by rw [cm h3 h0]; exact n03
  -- the crossings of `v1 → p` with the four edges
  unfold vertexContains crossParity
  simp only [loopEdges, List.cons_append, List.nil_append, List.zip_cons_cons, List.zip_nil_right,
    List.map_cons, List.map_nil, xorAll_cons, xorAll_nil]
  rw [eovc_shared_ad p1 n01 n10 q1 e11 q0, eovc_shared_ac p1 n12 e11 q2,
    eovc_of_ne n12 n13 q2 q3 p1 n23, eovc_of_ne n13 n10 q3 q0 p1 n30,
    angleContainsVertex_eq,
    occw_corner h h1 h0 hp hr n10 p0 p1, occw_corner h h1 h2 hp hr n12 p2 p1,
    occw_corner h h1 h2 h0 hr n12 n20 n10]
  unfold cornerC inQuad
  -- the named signs
  obtain ⟨ba, ea⟩ := exists_sB (h.unit v0 v1 p h0 h1 hp n01 p1 p0)
  obtain ⟨bb, eb⟩ := exists_sB (h.unit v1 v2 p h1 h2 hp n12 p2 p1)
  obtain ⟨bc, ec⟩ := exists_sB (h.unit v2 v3 p h2 h3 hp n23 p3 p2)
  obtain ⟨be, ee⟩ := exists_sB (h.unit v3 v0 p h3 h0 hp n30 p0 p3)
  obtain ⟨bg, eg⟩ := exists_sB (h.unit v1 v3 p h1 h3 hp n13 p3 p1)
  obtain ⟨A0, eA0⟩ := exists_sT (h.range v1 v0 _ h1 h0 hr)
  obtain ⟨A2, eA2⟩ := exists_sT (h.range v1 v2 _ h1 h2 hr)
  obtain ⟨Ap, eAp⟩ := exists_sT (h.range v1 p _ h1 hp hr)
  have t1 : G.rs v1 v0 p = -sB ba := by rw [h.swap v0 v1 p h0 h1 hp, ea]
  have t6 : G.rs v1 v2 v0 = 1 := by rw [h.rot v0 v1 v2 h0 h1 h2, c012]
  have t7 : G.rs v1 p v2 = -sB bb := by rw [h.swap23 h1 h2 hp, eb]
  have t8 : G.rs v1 p v3 = -sB bg := by rw [h.swap23 h1 h3 hp, eg]
  have t10 : G.rs v2 v3 v1 = 1 := by rw [h.rot v1 v2 v3 h1 h2 h3, c123]
  have t11 : G.rs v1 p v0 = sB ba := by rw [h.swap23 h1 h0 hp, t1]; simp
  have u1 : G.rs v1 v0 v2 = -1 := by rw [h.swap23 h1 h2 h0, t6]
  have u2 : G.rs v1 v0 v3 = -1 := by rw [h.swap13 h3 h0 h1, c301]
  have u3 : G.rs v3 v2 p = -sB bc := by rw [h.swap v2 v3 p h2 h3 hp, ec]
  have u4 : G.rs v3 v0 v2 = 1 := by rw [h.rot v2 v3 v0 h2 h3 h0, c230]
  have u5 : G.rs v3 v1 p = -sB bg := by rw [h.swap v1 v3 p h1 h3 hp, eg]
  have u6 : G.rs v3 v1 v2 = 1 := by rw [h.rot' h1 h2 h3, c123]
  have gp1 := h.gp v1 v0 v2 p (G.refDir v1) h1 h0 h2 hp hr
  have gp2 := h.gp v1 v0 v2 v3 p h1 h0 h2 h3 hp
  have gp3 := h.gp v3 v0 v1 v2 p h3 h0 h1 h2 hp
  unfold GPrel at gp1 gp2 gp3
  -- at most one of the three reference signs vanishes
  have nz : atMostOneZero A0 A2 Ap = true := by
    have z0 : G.eq v0 (G.refDir v1) = false → sT A0 ≠ 0 := fun e => by
      rcases h.unit v1 v0 _ h1 h0 hr n10 e n1r with e' | e' <;> rw [← eA0, e'] <;> decide
    have z2 : G.eq v2 (G.refDir v1) = false → sT A2 ≠ 0 := fun e => by
      rcases h.unit v1 v2 _ h1 h2 hr n12 e n1r with e' | e' <;> rw [← eA2, e'] <;> decide
    have zp : G.eq p (G.refDir v1) = false → sT Ap ≠ 0 := fun e => by
      rcases h.unit v1 p _ h1 hp hr p1 e n1r with e' | e' <;> rw [← eAp, e'] <;> decide
    have k : ∀ {x y : P}, S x → S y → G.eq x y = false → G.eq x (G.refDir v1) = true →
        G.eq y (G.refDir v1) = false := by
      intro x y hx hy hxy hxr
      cases hyr : G.eq y (G.refDir v1) with
      | false => rfl
      | true =>
        have := h.eqv.trans x _ y hx hr hy hxr (h.eqv.symm y _ hy hr hyr)
        rw [hxy] at this; cases this
    have s1 : ∀ t : Fin 3, sT t ≠ 0 → (t == 1) = false := by decide
    cases e0 : G.eq v0 (G.refDir v1) with
    | false =>
      cases e2 : G.eq v2 (G.refDir v1) with
      | false => simp [atMostOneZero, s1 A0 (z0 e0), s1 A2 (z2 e2)]
      | true =>
        have := zp (k h2 hp p2 e2)
        simp [atMostOneZero, s1 A0 (z0 e0), s1 Ap this]
    | true =>
      have a2 := z2 (k h0 h2 n02 e0)
      have ap := zp (k h0 hp p0 e0)
      simp [atMostOneZero, s1 A2 a2, s1 Ap ap]
  simp only [t1, t6, t7, t8, t10, t11, u1, u2, u3, u4, u5, u6, c123, c301, ea, eb, ec, ee, eg, eA0, eA2, eAp]
    at gp1 gp2 gp3 ⊢
  exact quad_enum ba bb bc be bg A0 A2 Ap gp1 gp2 gp3 nz

end quad

end S2Proofs.Contain
