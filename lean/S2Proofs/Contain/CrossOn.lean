/-
  S2Proofs.Contain.CrossOn — the laws of `S2Proofs.Contain.Cross` RELATIVE to a set `S` of points.

  `EqLaws G` / the sign-swap law / `CrossLaws G` of `Cross.lean` quantify over ALL values of the point
  type.  For the concrete geometries on float vectors (`exactGeo`, `floatGeo`) they cannot hold in
  that form (NaN is not `==` to itself; nothing is known about the exact sign on non-finite input), and a
  subtype of finite vectors is not closed under `refDir`.  Here the same facts are derived for the
  points of a set `S` only (no closure under `refDir` is needed: the `OrderedCCW` terms of
  `VertexCrossing` are never opened).  With `S := fun _ => True` these are the lemmas of `Cross.lean`.
-/
import S2.Contain
import S2Proofs.Contain.Basic
import S2Proofs.Contain.Cross
namespace S2Proofs.Contain
open S2 S2.Contain

variable {P : Type}

/-- Go `==` is an equivalence on the points of `S` -/
structure EqLawsOn (G : Geo P) (S : P → Prop) : Prop where
  refl : ∀ a, S a → G.eq a a = true
  symm : ∀ a b, S a → S b → G.eq a b = true → G.eq b a = true
  trans : ∀ a b c, S a → S b → S c → G.eq a b = true → G.eq b c = true → G.eq a c = true

/-- the orientation sign changes sign when its first two arguments are swapped, on `S` -/
def SwapOn (G : Geo P) (S : P → Prop) : Prop :=
  ∀ a b c, S a → S b → S c → G.rs b a c = -(G.rs a b c)

theorem eqLawsOn_of_eqLaws {G : Geo P} (h : EqLaws G) (S : P → Prop) : EqLawsOn G S :=
  ⟨fun a _ => h.refl a, fun a b _ _ => h.symm a b, fun a b c _ _ _ => h.trans a b c⟩

section
variable {G : Geo P} {S : P → Prop}

theorem eq_comm_on (hE : EqLawsOn G S) {a b : P} (ha : S a) (hb : S b) : G.eq a b = G.eq b a :=
  Bool.eq_iff_iff.2 ⟨hE.symm a b ha hb, hE.symm b a hb ha⟩

theorem crossingSign_rev_on (hE : EqLawsOn G S) (hS : SwapOn G S) {a b c d : P}
    (ha : S a) (hb : S b) (hc : S c) (hd : S d) :
    crossingSign G a b c d = crossingSign G a b d c := by
  unfold crossingSign
  rw [eq_comm_on hE hd hc, hS c d b hc hd hb, hS c d a hc hd ha]
  have hor : (G.eq a c || G.eq a d || G.eq b c || G.eq b d) = (G.eq a d || G.eq a c || G.eq b d || G.eq b c) := by
    cases G.eq a c <;> cases G.eq a d <;> cases G.eq b c <;> cases G.eq b d <;> rfl
  rw [hor]
  generalize G.rs a b c = x
  generalize G.rs a b d = y
  generalize G.rs c d b = u
  generalize G.rs c d a = w
  simp only [bne_iff_ne, ne_eq, ite_not]
  split_ifs <;> first | rfl | omega

theorem vertexCrossing_rev_on (hE : EqLawsOn G S) {a b c d : P}
    (ha : S a) (hb : S b) (hc : S c) (hd : S d) :
    vertexCrossing G a b c d = vertexCrossing G a b d c := by
  unfold vertexCrossing
  rw [eq_comm_on hE hd hc]
  have k1 : G.eq a c = true → G.eq a d = true → G.eq c d = true :=
    fun h1 h2 => hE.trans _ _ _ hc ha hd (hE.symm _ _ ha hc h1) h2
  have k2 : G.eq a c = true → G.eq b c = true → G.eq a b = true :=
    fun h1 h2 => hE.trans _ _ _ ha hc hb h1 (hE.symm _ _ hb hc h2)
  have k3 : G.eq b d = true → G.eq a d = true → G.eq a b = true :=
    fun h1 h2 => hE.trans _ _ _ ha hd hb h2 (hE.symm _ _ hb hd h1)
  have k4 : G.eq b d = true → G.eq b c = true → G.eq c d = true :=
    fun h1 h2 => hE.trans _ _ _ hc hb hd (hE.symm _ _ hb hc h2) h1
  generalize orderedCCW G (G.refDir a) d b a = o1
  generalize orderedCCW G (G.refDir b) c a b = o2
  generalize orderedCCW G (G.refDir a) c b a = o3
  generalize orderedCCW G (G.refDir b) d a b = o4
  generalize G.eq a b = eab at *
  generalize G.eq c d = ecd at *
  generalize G.eq a c = eac at *
  generalize G.eq b d = ebd at *
  generalize G.eq a d = ead at *
  generalize G.eq b c = ebc at *
  cases eab <;> cases ecd <;> cases eac <;> cases ebd <;> cases ead <;> cases ebc <;> simp_all

/-- `EdgeOrVertexCrossing(a,b,c,d) = EdgeOrVertexCrossing(a,b,d,c)` for points of `S` -/
theorem eovc_rev_on (hE : EqLawsOn G S) (hS : SwapOn G S) {a b c d : P}
    (ha : S a) (hb : S b) (hc : S c) (hd : S d) :
    edgeOrVertexCrossing G a b c d = edgeOrVertexCrossing G a b d c := by
  unfold edgeOrVertexCrossing
  rw [crossingSign_rev_on hE hS ha hb hc hd, vertexCrossing_rev_on hE ha hb hc hd]

/-- all endpoints of an edge list are in `S` -/
def EdgesIn (S : P → Prop) (es : List (P × P)) : Prop := ∀ e ∈ es, S e.1 ∧ S e.2

theorem crossParity_swap_on (hE : EqLawsOn G S) (hS : SwapOn G S) {a b : P} (ha : S a) (hb : S b)
    {es : List (P × P)} (hes : EdgesIn S es) :
    crossParity G a b (es.map Prod.swap) = crossParity G a b es := by
  unfold crossParity
  rw [List.map_map]
  congr 1
  apply List.map_congr_left
  intro e he
  simp [eovc_rev_on hE hS ha hb (hes e he).2 (hes e he).1]

theorem loopEdges_mem {vs : List P} {e : P × P} (he : e ∈ loopEdges vs) : e.1 ∈ vs ∧ e.2 ∈ vs := by
  cases vs with
  | nil => simp [loopEdges] at he
  | cons v rest =>
    simp only [loopEdges] at he
    obtain ⟨x, y⟩ := e
    have h1 := List.of_mem_zip he
    refine ⟨h1.1, ?_⟩
    have := h1.2
    simp only [List.mem_append, List.mem_singleton] at this
    rcases this with h | h
    · exact List.mem_cons_of_mem _ h
    · simp [h]

theorem edgesIn_loopEdges {vs : List P} (hvs : ∀ v ∈ vs, S v) : EdgesIn S (loopEdges vs) :=
  fun _ he => ⟨hvs _ (loopEdges_mem he).1, hvs _ (loopEdges_mem he).2⟩

theorem crossParity_loop_reverse_on (hE : EqLawsOn G S) (hS : SwapOn G S) {a b : P} (ha : S a) (hb : S b)
    {vs : List P} (hvs : ∀ v ∈ vs, S v) :
    crossParity G a b (loopEdges vs.reverse) = crossParity G a b (loopEdges vs) := by
  rw [crossParity_perm G a b (loopEdges_reverse_perm vs), crossParity_swap_on hE hS ha hb (edgesIn_loopEdges hvs)]

/-- the vertices of a loop are in `S` -/
def LoopIn (S : P → Prop) (L : LoopM P) : Prop := ∀ v ∈ L.vertices.toList, S v

theorem loopIn_invert {L : LoopM P} (h : LoopIn S L) : LoopIn S (invert L) := by
  intro v hv
  simp only [invert, Array.toList_reverse, List.mem_reverse] at hv
  exact h v hv

/-- inversion law, relative to `S` -/
theorem bruteContains_invert_on (hE : EqLawsOn G S) (hS : SwapOn G S) {o p : P} (ho : S o) (hp : S p)
    {L : LoopM P} (hL : LoopIn S L) :
    bruteContains G o (invert L) p = !bruteContains G o L p := by
  unfold bruteContains invert
  simp only [Array.toList_reverse]
  rw [crossParity_loop_reverse_on hE hS ho hp hL]
  cases L.originInside <;> cases crossParity G o p (loopEdges L.vertices.toList) <;> rfl

/-! ### polygons -/

/-- all loops of a polygon have their vertices in `S` -/
def PolygonIn (S : P → Prop) (pg : PolygonM P) : Prop := ∀ l ∈ pg, LoopIn S l.loop

theorem crossParity_oriented_on (hE : EqLawsOn G S) (hS : SwapOn G S) {a b : P} (ha : S a) (hb : S b)
    {l : PLoop P} (hl : LoopIn S l.loop) :
    crossParity G a b (orientedEdges l) = crossParity G a b (loopEdges l.loop.vertices.toList) := by
  unfold orientedEdges
  split
  · exact crossParity_loop_reverse_on hE hS ha hb hl
  · rfl

theorem crossParity_special_on (hE : EqLawsOn G S) (a b : P) {L : LoopM P} (hL : LoopIn S L)
    (h : L.isEmptyOrFull = true) : crossParity G a b (loopEdges L.vertices.toList) = false := by
  obtain ⟨vs, oi⟩ := L
  simp only [LoopM.isEmptyOrFull, beq_iff_eq] at h
  obtain ⟨l⟩ := vs
  simp only [List.size_toArray] at h
  match l, h, hL with
  | [v], _, hL =>
    have hv : S v := hL v (by simp)
    simp [crossParity, loopEdges, eovc_degenerate_edge G a b v v (hE.refl v hv)]

theorem crossParity_polygonEdges_on (hE : EqLawsOn G S) (hS : SwapOn G S) {a b : P} (ha : S a) (hb : S b)
    {pg : PolygonM P} (hpg : PolygonIn S pg) :
    crossParity G a b (polygonEdges (pg.filter fun l => !l.loop.isEmptyOrFull)) =
      xorAll (pg.map fun l => crossParity G a b (loopEdges l.loop.vertices.toList)) := by
  induction pg with
  | nil => simp [polygonEdges, crossParity]
  | cons l pg ih =>
    have hl : LoopIn S l.loop := hpg l (by simp)
    have ih := ih (fun x hx => hpg x (by simp [hx]))
    by_cases hs : l.loop.isEmptyOrFull = true
    · simp only [List.filter_cons, hs, Bool.not_true, Bool.false_eq_true, ↓reduceIte, List.map_cons,
        xorAll_cons, crossParity_special_on hE a b hl hs]
      rw [ih]; simp
    · simp only [Bool.not_eq_true] at hs
      simp only [List.filter_cons, hs, Bool.not_false, ↓reduceIte, List.map_cons, xorAll_cons]
      rw [← ih]
      simp only [polygonEdges, List.flatMap_cons]
      rw [crossParity_append, crossParity_oriented_on hE hS ha hb hl]

theorem polygonContains_eq_containsBruteForce_on (hE : EqLawsOn G S) (hS : SwapOn G S) {o p : P}
    (ho : S o) (hp : S p) {pg : PolygonM P} (hpg : PolygonIn S pg) :
    polygonContains G o pg p = containsBruteForce G (polygonShape o pg) p := by
  have key : polygonContains G o pg p =
      (polygonOriginInside pg != crossParity G o p (polygonEdges (pg.filter fun l => !l.loop.isEmptyOrFull))) := by
    rw [crossParity_polygonEdges_on hE hS ho hp hpg]
    unfold polygonContains polygonOriginInside bruteContains
    exact xorAll_map_bne (fun l => l.loop.originInside)
      (fun l => crossParity G o p (loopEdges l.loop.vertices.toList)) pg
  unfold containsBruteForce polygonShape
  simp only [bne_self_eq_false, Bool.false_eq_true, ↓reduceIte]
  split
  · rename_i h
    rw [key, crossParity_degenerate G o p _ h]; simp
  · exact key

/-- XOR over a list where one entry is negated — the hypotheses only for members of the list -/
theorem xorAll_mapIdx_flip_mem {α : Type} (f g : α → Bool) (h : α → α) (l : List α)
    (hk : ∀ x ∈ l, f (h x) = !g x) (hfg : ∀ x, f x = g x) (k : Nat) (hlt : k < l.length) :
    xorAll ((l.mapIdx fun i x => if i == k then h x else x).map f) = !xorAll (l.map g) := by
  induction l generalizing k with
  | nil => simp at hlt
  | cons x xs ih =>
    cases k with
    | zero =>
      simp only [List.mapIdx_cons, beq_self_eq_true, ↓reduceIte, List.map_cons, xorAll_cons, hk x (by simp)]
      have : (xs.mapIdx fun i x => if (i + 1 == 0) = true then h x else x) = xs := by
        apply List.ext_getElem <;> simp
      rw [this]
      have : xs.map f = xs.map g := List.map_congr_left (fun x _ => hfg x)
      rw [this]; cases g x <;> cases xorAll (xs.map g) <;> rfl
    | succ k =>
      simp only [List.mapIdx_cons, List.map_cons, xorAll_cons]
      have h0 : ((0 : Nat) == k + 1) = false := by simp
      simp only [h0, Bool.false_eq_true, ↓reduceIte]
      have e : (xs.mapIdx fun i x => if (i + 1 == k + 1) = true then h x else x) =
          (xs.mapIdx fun i x => if (i == k) = true then h x else x) := by
        apply List.ext_getElem <;> simp
      rw [e, ih (fun y hy => hk y (by simp [hy])) k (by simpa using hlt), hfg]
      cases g x <;> cases xorAll (xs.map g) <;> rfl

theorem polygonContains_invertAt_on (hE : EqLawsOn G S) (hS : SwapOn G S) {o p : P} (ho : S o) (hp : S p)
    {pg : PolygonM P} (hpg : PolygonIn S pg) (k : Nat) (hk : k < pg.length) :
    polygonContains G o (polygonInvertAt pg k) p = !polygonContains G o pg p := by
  unfold polygonContains polygonInvertAt
  exact xorAll_mapIdx_flip_mem (fun l => bruteContains G o l.loop p) (fun l => bruteContains G o l.loop p)
    (fun l => { l with loop := invert l.loop }) pg
    (fun l hl => bruteContains_invert_on hE hS ho hp (hpg l hl)) (fun _ => rfl) k hk

/-! ### the open / closed vertex models -/

theorem crossingSign_maybe_of_endpoint_on (hE : EqLawsOn G S) {c p : P} (hp : S p) {e : P × P}
    (he : S e.1 ∧ S e.2) (h : (G.eq e.1 p || G.eq e.2 p) = true) : crossingSign G c p e.1 e.2 = .maybe := by
  unfold crossingSign
  have : (G.eq p e.1 || G.eq p e.2) = true := by
    rw [eq_comm_on hE hp he.1, eq_comm_on hE hp he.2]; exact h
  have : (G.eq c e.1 || G.eq c e.2 || G.eq p e.1 || G.eq p e.2) = true := by
    cases G.eq c e.1 <;> cases G.eq c e.2 <;> cases hp1 : G.eq p e.1 <;> cases hp2 : G.eq p e.2 <;> simp_all
  simp [this]

theorem shapeContainsGo_open_on (hE : EqLawsOn G S) (c : P) {p : P} (hp : S p) (inside : Bool)
    {es : List (P × P)} (hes : EdgesIn S es) :
    shapeContainsGo G .open_ c p inside es =
      ((inside != crossParity G c p es) && !isEndpoint G es p) := by
  induction es generalizing inside with
  | nil => simp [shapeContainsGo, crossParity, isEndpoint]
  | cons e es ih =>
    have ih := fun i => ih i (fun x hx => hes x (by simp [hx]))
    unfold shapeContainsGo
    by_cases hep : (G.eq e.1 p || G.eq e.2 p) = true
    · rw [crossingSign_maybe_of_endpoint_on hE hp (hes e (by simp)) hep]
      simp [hep, isEndpoint]
    · simp only [Bool.not_eq_true] at hep
      have hany : isEndpoint G (e :: es) p = isEndpoint G es p := by
        simp only [isEndpoint, List.any_cons, hep, Bool.false_or]
      rw [hany]
      simp only [crossParity, List.map_cons, xorAll_cons, edgeOrVertexCrossing] at ih ⊢
      cases hcs : crossingSign G c p e.1 e.2 <;> simp [ih, hep]

theorem shapeContainsGo_closed_on (hE : EqLawsOn G S) (c : P) {p : P} (hp : S p) (inside : Bool)
    {es : List (P × P)} (hes : EdgesIn S es) :
    shapeContainsGo G .closed c p inside es =
      ((inside != crossParity G c p es) || isEndpoint G es p) := by
  induction es generalizing inside with
  | nil => simp [shapeContainsGo, crossParity, isEndpoint]
  | cons e es ih =>
    have ih := fun i => ih i (fun x hx => hes x (by simp [hx]))
    unfold shapeContainsGo
    by_cases hep : (G.eq e.1 p || G.eq e.2 p) = true
    · rw [crossingSign_maybe_of_endpoint_on hE hp (hes e (by simp)) hep]
      simp [hep, isEndpoint]
    · simp only [Bool.not_eq_true] at hep
      have hany : isEndpoint G (e :: es) p = isEndpoint G es p := by
        simp only [isEndpoint, List.any_cons, hep, Bool.false_or]
      rw [hany]
      simp only [crossParity, List.map_cons, xorAll_cons, edgeOrVertexCrossing] at ih ⊢
      cases hcs : crossingSign G c p e.1 e.2 <;> simp [ih, hep]

end

end S2Proofs.Contain
