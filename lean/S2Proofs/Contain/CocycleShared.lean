/-
  S2Proofs.Contain.CocycleShared — the crossing-parity cocycle when the corners A, B, C of the triangle
  (ref, center, p) may be `==` to vertices of the closed chains (`crossingSign = .maybe`, decided by
  `vertexCrossing` with `orderedCCW` around the shared corner and the reference direction `refDir corner`).

  The per-edge potential of `Cocycle.lean` (`inTri`) is extended to the corners:
        pot v = cornerC(X; Y, Z)   if v == corner X        ("refDir X is in the half-open inner wedge at X")
        pot v = inTri v            otherwise
  and `edge_parity_shared`: for EVERY edge u w (endpoints anywhere, degenerate edges included)
        X(AB,uw) + X(BC,uw) + X(AC,uw) ≡ pot u + pot w   (mod 2).
  Cases: no endpoint at a corner (`edge_parity`, five points); one endpoint at a corner X (`corner_edge`: the
  four directions Y, Z, u, refDir X around X, ONE Grassmann–Plücker relation with pivot X, 208 sign patterns
  with zeros kernel-checked in `corner_enum`, `refDir X` may be `==` to Y, Z or u but not to X); both endpoints
  at corners (`occw_corner`, a direct computation).  Closed chains: every vertex counted twice.

  Also: `eovc_swap_ab_on` (exchange of the query edge's endpoints) and `eovc_congr_b_on` (`==` twins of an endpoint
  with `==` reference directions), used for the coincidences ref == center, center == p, ref == p.
-/
import S2Proofs.Contain.Cocycle
namespace S2Proofs.Contain
open S2 S2.Contain

/-! ### sign combinatorics around a corner -/

/-- the sign carried by a trit -/
def sT (x : Fin 3) : Int := (x.val : Int) - 1

/-- `orderedCCW a b c o` from `[boa] [cob] [aoc]` -/
def occwB (boa cob aoc : Int) : Bool :=
  let s1 : Nat := if boa != -1 then 1 else 0
  let s2 : Nat := if cob != -1 then 1 else 0
  let s3 : Nat := if aoc == 1 then 1 else 0
  s1 + s2 + s3 ≥ 2

/-- the potential of a corner X from `t = [XYZ]`, `p = [XYr]`, `q = [XZr]` (r = refDir X): r is in the inner
    wedge at X, half-open -/
def cornerB (t p q : Int) : Bool := if t == 1 then (p == 1 && q != 1) else (p != 1 && q == 1)

/-- `inTri` seen from the corner X: `t = [XYZ]`, `a = [XYu]`, `b = [XZu]`, `c = [YZu]` -/
def inAtB (t a b c : Int) : Bool := (a == t) && (b == -t) && (c == t)

/-- **Corner lemma, sign combinatorics**: directions Y, Z, u, r around X (`m = [Xur]`; p, q, m may be 0), one
    Grassmann–Plücker relation, not both of p, q zero. -/
theorem corner_enum : ∀ (bt ba bb bc : Bool) (p q m : Fin 3),
    gpB (sB bt * sT m) (-(sB ba * sT q)) (sT p * sB bb) = true →
    (sT p ≠ 0 ∨ sT q ≠ 0) →
    ((occwB (-(sT m)) (-(sB ba)) (sT p) != occwB (-(sT m)) (-(sB bb)) (sT q))
        != crossB (sB bc) (sB bt) (sB bb) (sB ba)) =
      (inAtB (sB bt) (sB ba) (sB bb) (sB bc) != cornerB (sB bt) (sT p) (sT q)) := by
  decide +kernel

theorem exists_sT {x : Int} (h : x = -1 ∨ x = 0 ∨ x = 1) : ∃ t, x = sT t := by
  rcases h with h | h | h
  · exact ⟨0, h⟩
  · exact ⟨1, h⟩
  · exact ⟨2, h⟩

/-- `orderedCCW(r, Q, R, P)` for the other two corners Q, R: the corner potential, flipped when `[PQR] = +1` -/
theorem occwB_corner (t p q : Int) (ht : t = 1 ∨ t = -1) :
    occwB (-p) t q = (cornerB t p q != (t == 1)) := by
  rcases ht with rfl | rfl <;> by_cases hp : p = 1 <;> by_cases hq : q = 1 <;>
    simp [occwB, cornerB, hp, hq]

theorem cornerB_symm (t p q : Int) (ht : t = 1 ∨ t = -1) : cornerB (-t) q p = cornerB t p q := by
  rcases ht with rfl | rfl <;> simp [cornerB, Bool.and_comm]

theorem inAtB_A (s x y z : Int) : inAtB s x z y = inB s x y z := by
  unfold inAtB inB
  cases (x == s) <;> cases (y == s) <;> cases (z == -s) <;> rfl

theorem inAtB_B (s x y z : Int) : inAtB (-s) (-x) y z = inB s x y z := by
  rw [Bool.eq_iff_iff]
  simp only [inAtB, inB, Bool.and_eq_true, beq_iff_eq]
  constructor <;> rintro ⟨⟨h1, h2⟩, h3⟩ <;> refine ⟨⟨?_, ?_⟩, ?_⟩ <;> omega

theorem inAtB_C (s x y z : Int) : inAtB s (-z) (-y) x = inB s x y z := by
  rw [Bool.eq_iff_iff]
  simp only [inAtB, inB, Bool.and_eq_true, beq_iff_eq]
  constructor <;> rintro ⟨⟨h1, h2⟩, h3⟩ <;> refine ⟨⟨?_, ?_⟩, ?_⟩ <;> omega

variable {P : Type}

theorem orderedCCW_eq (G : Geo P) (a b c o : P) :
    orderedCCW G a b c o = occwB (G.rs b o a) (G.rs c o b) (G.rs a o c) := rfl

/-- the potential of the corner `X` (other corners `Y`, `Z`) -/
def cornerC (G : Geo P) (X Y Z : P) : Bool :=
  cornerB (G.rs X Y Z) (G.rs X Y (G.refDir X)) (G.rs X Z (G.refDir X))

/-- `inTri` seen from the corner `X` -/
def inAt (G : Geo P) (X Y Z u : P) : Bool :=
  inAtB (G.rs X Y Z) (G.rs X Y u) (G.rs X Z u) (G.rs Y Z u)

/-! ### `edgeOrVertexCrossing` at shared vertices -/

section shared
variable {G : Geo P}

theorem eovc_shared_ad {a b c d : P} (hab : G.eq a b = false) (hcd : G.eq c d = false)
    (hac : G.eq a c = false) (hbd : G.eq b d = false) (had : G.eq a d = true) (hbc : G.eq b c = false) :
    edgeOrVertexCrossing G a b c d = orderedCCW G (G.refDir a) c b a := by
  unfold edgeOrVertexCrossing crossingSign vertexCrossing
  simp [hab, hcd, hac, hbd, had, hbc]

theorem eovc_shared_bd {a b c d : P} (hab : G.eq a b = false) (hcd : G.eq c d = false)
    (hac : G.eq a c = false) (hbd : G.eq b d = true) :
    edgeOrVertexCrossing G a b c d = orderedCCW G (G.refDir b) c a b := by
  unfold edgeOrVertexCrossing crossingSign vertexCrossing
  simp [hab, hcd, hac, hbd]

theorem eovc_shared_ac {a b c d : P} (hab : G.eq a b = false) (hcd : G.eq c d = false)
    (hac : G.eq a c = true) (hbd : G.eq b d = false) :
    edgeOrVertexCrossing G a b c d = orderedCCW G (G.refDir a) d b a := by
  unfold edgeOrVertexCrossing crossingSign vertexCrossing
  simp [hab, hcd, hac, hbd]

theorem eovc_shared_bc {a b c d : P} (hab : G.eq a b = false) (hcd : G.eq c d = false)
    (hac : G.eq a c = false) (hbd : G.eq b d = false) (had : G.eq a d = false) (hbc : G.eq b c = true) :
    edgeOrVertexCrossing G a b c d = orderedCCW G (G.refDir b) d a b := by
  unfold edgeOrVertexCrossing crossingSign vertexCrossing
  simp [hab, hcd, hac, hbd, had, hbc]

theorem eovc_shared_ac_bd {a b c d : P} (hab : G.eq a b = false) (hcd : G.eq c d = false)
    (hac : G.eq a c = true) (hbd : G.eq b d = true) :
    edgeOrVertexCrossing G a b c d = true := by
  unfold edgeOrVertexCrossing crossingSign vertexCrossing
  simp [hab, hcd, hac, hbd]

end shared

/-! ### the chirotope laws in all argument positions -/

section laws
variable {G : Geo P} {S : P → Prop}

theorem ChiroOn.rot' (h : ChiroOn G S) {a b c : P} (ha : S a) (hb : S b) (hc : S c) :
    G.rs c a b = G.rs a b c := (h.rot c a b hc ha hb).symm

theorem ChiroOn.swap23 (h : ChiroOn G S) {a b c : P} (ha : S a) (hb : S b) (hc : S c) :
    G.rs a c b = -(G.rs a b c) := by
  rw [h.rot b a c hb ha hc, h.swap a b c ha hb hc]

theorem ChiroOn.swap13 (h : ChiroOn G S) {a b c : P} (ha : S a) (hb : S b) (hc : S c) :
    G.rs c b a = -(G.rs a b c) := by
  rw [h.swap b c a hb hc ha, h.rot a b c ha hb hc]

theorem ChiroOn.congr1 (h : ChiroOn G S) {a a' b c : P} (ha : S a) (ha' : S a') (hb : S b) (hc : S c)
    (e : G.eq a a' = true) : G.rs a b c = G.rs a' b c := by
  rw [← h.rot a b c ha hb hc, ← h.rot a' b c ha' hb hc]
  exact h.congr b c a a' hb hc ha ha' e

theorem ChiroOn.congr2 (h : ChiroOn G S) {a b b' c : P} (ha : S a) (hb : S b) (hb' : S b') (hc : S c)
    (e : G.eq b b' = true) : G.rs a b c = G.rs a b' c := by
  rw [← h.rot' ha hb hc, ← h.rot' ha hb' hc]
  exact h.congr c a b b' hc ha hb hb' e

/-- `orderedCCW` does not distinguish `==` points in its second argument -/
theorem occw_congr_b (h : ChiroOn G S) {a b b' c o : P} (ha : S a) (hb : S b) (hb' : S b') (hc : S c)
    (ho : S o) (e : G.eq b b' = true) : orderedCCW G a b c o = orderedCCW G a b' c o := by
  rw [orderedCCW_eq, orderedCCW_eq, h.congr1 hb hb' ho ha e, h.congr c o b b' hc ho hb hb' e]

theorem eq_false_of_eq_left (hE : EqLawsOn G S) {x y z : P} (hx : S x) (hy : S y) (hz : S z)
    (hxy : G.eq x y = false) (hxz : G.eq x z = true) : G.eq y z = false := by
  cases hyz : G.eq y z with
  | false => rfl
  | true =>
    have := hE.trans x z y hx hz hy hxz (hE.symm y z hy hz hyz)
    rw [hxy] at this; cases this

/-- `orderedCCW(refDir P, Q, R, P)` for three pairwise non-`==` points -/
theorem occw_corner (h : ChiroOn G S) {X Y Z : P} (hX : S X) (hY : S Y) (hZ : S Z) (hr : S (G.refDir X))
    (hXY : G.eq X Y = false) (hYZ : G.eq Y Z = false) (hXZ : G.eq X Z = false) :
    orderedCCW G (G.refDir X) Y Z X = (cornerC G X Y Z != (G.rs X Y Z == 1)) := by
  rw [orderedCCW_eq, h.swap X Y (G.refDir X) hX hY hr, h.rot' hX hY hZ, h.rot' hX hZ hr]
  exact occwB_corner _ _ _ (h.unit X Y Z hX hY hZ hXY hYZ hXZ)

theorem cornerC_symm (h : ChiroOn G S) {X Y Z : P} (hX : S X) (hY : S Y) (hZ : S Z)
    (hXY : G.eq X Y = false) (hYZ : G.eq Y Z = false) (hXZ : G.eq X Z = false) :
    cornerC G X Z Y = cornerC G X Y Z := by
  unfold cornerC
  rw [h.swap23 hX hY hZ]
  exact cornerB_symm _ _ _ (h.unit X Y Z hX hY hZ hXY hYZ hXZ)

/-- **Corner lemma**: a chain edge `u w` that ends at (a point `==` to) the corner `X`, the other endpoint not
    `==` to a corner: the two `orderedCCW` terms of the sides through `X` and the crossing with the opposite side
    `Y Z` add up to `inTri u + cornerC X`.  `refDir X` may be `==` to `Y`, `Z` or `u`, not to `X`. -/
theorem corner_edge (h : ChiroOn G S) {X Y Z u w : P} (hX : S X) (hY : S Y) (hZ : S Z) (hu : S u) (hw : S w)
    (hr : S (G.refDir X))
    (hXY : G.eq X Y = false) (hXZ : G.eq X Z = false) (hYZ : G.eq Y Z = false)
    (hXu : G.eq X u = false) (hYu : G.eq Y u = false) (hZu : G.eq Z u = false)
    (hXw : G.eq X w = true) (hXr : G.eq X (G.refDir X) = false) :
    ((orderedCCW G (G.refDir X) u Y X != orderedCCW G (G.refDir X) u Z X) != edgeOrVertexCrossing G Y Z u w) =
      (inAt G X Y Z u != cornerC G X Y Z) := by
  have c : ∀ {a b : P}, S a → S b → G.eq a b = G.eq b a := fun ha hb => eq_comm_on h.eqv ha hb
  have hYw : G.eq Y w = false := eq_false_of_eq_left h.eqv hX hY hw hXY hXw
  have hZw : G.eq Z w = false := eq_false_of_eq_left h.eqv hX hZ hw hXZ hXw
  have huw : G.eq u w = false := eq_false_of_eq_left h.eqv hX hu hw hXu hXw
  rw [eovc_of_ne hYu hYw hZu hZw hYZ huw]
  have e1 : G.rs Y Z w = G.rs X Y Z := by
    rw [← h.congr Y Z X w hY hZ hX hw hXw, h.rot X Y Z hX hY hZ]
  have e2 : G.rs u w Z = G.rs X Z u := by
    rw [← h.rot' hu hw hZ, ← h.congr Z u X w hZ hu hX hw hXw, h.rot X Z u hX hZ hu]
  have e3 : G.rs u w Y = G.rs X Y u := by
    rw [← h.rot' hu hw hY, ← h.congr Y u X w hY hu hX hw hXw, h.rot X Y u hX hY hu]
  rw [e1, e2, e3, orderedCCW_eq, orderedCCW_eq,
    h.swap X u (G.refDir X) hX hu hr, h.swap X Y u hX hY hu, h.swap X Z u hX hZ hu,
    h.rot' hX hY hr, h.rot' hX hZ hr]
  unfold inAt cornerC
  have gp := h.gp X Y Z u (G.refDir X) hX hY hZ hu hr
  unfold GPrel at gp
  -- not both `[XYr]`, `[XZr]` are zero
  have nz : G.rs X Y (G.refDir X) ≠ 0 ∨ G.rs X Z (G.refDir X) ≠ 0 := by
    cases hYr : G.eq Y (G.refDir X) with
    | false =>
      left
      rcases h.unit X Y _ hX hY hr hXY hYr hXr with e | e <;> rw [e] <;> decide
    | true =>
      right
      have hZr : G.eq Z (G.refDir X) = false := by
        rw [c hY hZ] at hYZ
        exact eq_false_of_eq_left h.eqv hY hZ hr (by rw [c hY hZ]; exact hYZ) hYr
      rcases h.unit X Z _ hX hZ hr hXZ hZr hXr with e | e <;> rw [e] <;> decide
  obtain ⟨bt, et⟩ := exists_sB (h.unit X Y Z hX hY hZ hXY hYZ hXZ)
  obtain ⟨ba, ea⟩ := exists_sB (h.unit X Y u hX hY hu hXY hYu hXu)
  obtain ⟨bb, eb⟩ := exists_sB (h.unit X Z u hX hZ hu hXZ hZu hXu)
  obtain ⟨bc, ec⟩ := exists_sB (h.unit Y Z u hY hZ hu hYZ hZu hYu)
  obtain ⟨p, ep⟩ := exists_sT (h.range X Y _ hX hY hr)
  obtain ⟨q, eq⟩ := exists_sT (h.range X Z _ hX hZ hr)
  obtain ⟨m, em⟩ := exists_sT (h.range X u _ hX hu hr)
  simp only [et, ea, eb, ec, ep, eq, em] at gp nz ⊢
  exact corner_enum bt ba bb bc p q m gp nz

/-! ### the potential and the per-edge lemma -/

/-- what the shared-vertex cocycle needs of the three corners: in `S`, pairwise not `==`, reference directions
    in `S` and not `==` to their corner -/
structure Corners (G : Geo P) (S : P → Prop) (A B C : P) : Prop where
  hA : S A
  hB : S B
  hC : S C
  hAB : G.eq A B = false
  hBC : G.eq B C = false
  hAC : G.eq A C = false
  rA : S (G.refDir A)
  rB : S (G.refDir B)
  rC : S (G.refDir C)
  nA : G.eq A (G.refDir A) = false
  nB : G.eq B (G.refDir B) = false
  nC : G.eq C (G.refDir C) = false

/-- the potential of a point: corner potential at (points `==` to) the corners, `inTri` elsewhere -/
def pot (G : Geo P) (A B C v : P) : Bool :=
  if G.eq A v then cornerC G A B C
  else if G.eq B v then cornerC G B A C
  else if G.eq C v then cornerC G C A B
  else inTri G A B C v

/-- number of sides of the triangle crossed by the edge `u w`, mod 2 -/
def triX (G : Geo P) (A B C u w : P) : Bool :=
  (edgeOrVertexCrossing G A B u w != edgeOrVertexCrossing G B C u w) != edgeOrVertexCrossing G A C u w

variable {A B C : P}

theorem inAt_A (G : Geo P) (A B C u : P) : inAt G A B C u = inTri G A B C u := inAtB_A _ _ _ _

theorem inAt_B (h : ChiroOn G S) (k : Corners G S A B C) {u : P} (hu : S u) :
    inAt G B A C u = inTri G A B C u := by
  unfold inAt inTri
  rw [h.swap A B C k.hA k.hB k.hC, h.swap A B u k.hA k.hB hu]
  exact inAtB_B _ _ _ _

theorem inAt_C (h : ChiroOn G S) (k : Corners G S A B C) {u : P} (hu : S u) :
    inAt G C A B u = inTri G A B C u := by
  unfold inAt inTri
  rw [h.rot' k.hA k.hB k.hC, h.swap A C u k.hA k.hC hu, h.swap B C u k.hB k.hC hu]
  exact inAtB_C _ _ _ _

/-- edge ending at the corner A -/
theorem edge_nA (h : ChiroOn G S) (k : Corners G S A B C) {u w : P} (hu : S u) (hw : S w)
    (hAu : G.eq A u = false) (hBu : G.eq B u = false) (hCu : G.eq C u = false) (hAw : G.eq A w = true) :
    triX G A B C u w = (inTri G A B C u != cornerC G A B C) := by
  have huw : G.eq u w = false := eq_false_of_eq_left h.eqv k.hA hu hw hAu hAw
  have hBw : G.eq B w = false := eq_false_of_eq_left h.eqv k.hA k.hB hw k.hAB hAw
  have hCw : G.eq C w = false := eq_false_of_eq_left h.eqv k.hA k.hC hw k.hAC hAw
  unfold triX
  rw [eovc_shared_ad k.hAB huw hAu hBw hAw hBu, eovc_shared_ad k.hAC huw hAu hCw hAw hCu,
    ← inAt_A, ← corner_edge h k.hA k.hB k.hC hu hw k.rA k.hAB k.hAC k.hBC hAu hBu hCu hAw k.nA]
  generalize orderedCCW G (G.refDir A) u B A = x
  generalize orderedCCW G (G.refDir A) u C A = y
  generalize edgeOrVertexCrossing G B C u w = z
  cases x <;> cases y <;> cases z <;> rfl

/-- edge ending at the corner B -/
theorem edge_nB (h : ChiroOn G S) (k : Corners G S A B C) {u w : P} (hu : S u) (hw : S w)
    (hAu : G.eq A u = false) (hBu : G.eq B u = false) (hCu : G.eq C u = false) (hBw : G.eq B w = true) :
    triX G A B C u w = (inTri G A B C u != cornerC G B A C) := by
  have hBA : G.eq B A = false := by rw [eq_comm_on h.eqv k.hB k.hA]; exact k.hAB
  have huw : G.eq u w = false := eq_false_of_eq_left h.eqv k.hB hu hw hBu hBw
  have hCw : G.eq C w = false := eq_false_of_eq_left h.eqv k.hB k.hC hw k.hBC hBw
  unfold triX
  rw [eovc_shared_bd k.hAB huw hAu hBw, eovc_shared_ad k.hBC huw hBu hCw hBw hCu,
    ← inAt_B h k hu, ← corner_edge h k.hB k.hA k.hC hu hw k.rB hBA k.hBC k.hAC hBu hAu hCu hBw k.nB]

/-- edge ending at the corner C -/
theorem edge_nC (h : ChiroOn G S) (k : Corners G S A B C) {u w : P} (hu : S u) (hw : S w)
    (hAu : G.eq A u = false) (hBu : G.eq B u = false) (hCu : G.eq C u = false) (hCw : G.eq C w = true) :
    triX G A B C u w = (inTri G A B C u != cornerC G C A B) := by
  have hCA : G.eq C A = false := by rw [eq_comm_on h.eqv k.hC k.hA]; exact k.hAC
  have hCB : G.eq C B = false := by rw [eq_comm_on h.eqv k.hC k.hB]; exact k.hBC
  have huw : G.eq u w = false := eq_false_of_eq_left h.eqv k.hC hu hw hCu hCw
  unfold triX
  rw [eovc_shared_bd k.hBC huw hBu hCw, eovc_shared_bd k.hAC huw hAu hCw,
    ← inAt_C h k hu, ← corner_edge h k.hC k.hA k.hB hu hw k.rC hCA hCB k.hAB hCu hAu hBu hCw k.nC]
  generalize orderedCCW G (G.refDir C) u B C = x
  generalize orderedCCW G (G.refDir C) u A C = y
  generalize edgeOrVertexCrossing G A B u w = z
  cases x <;> cases y <;> cases z <;> rfl

theorem bne_flip (t : Int) (ht : t = 1 ∨ t = -1) : ((t == 1) != (-t == 1)) = true := by
  rcases ht with rfl | rfl <;> decide

/-- edge from the corner A to the corner B -/
theorem edge_AB (h : ChiroOn G S) (k : Corners G S A B C) {u w : P} (hu : S u) (hw : S w)
    (hAu : G.eq A u = true) (hBw : G.eq B w = true) :
    triX G A B C u w = (cornerC G A B C != cornerC G B A C) := by
  have c : ∀ {a b : P}, S a → S b → G.eq a b = G.eq b a := fun ha hb => eq_comm_on h.eqv ha hb
  have hBA : G.eq B A = false := by rw [c k.hB k.hA]; exact k.hAB
  have hBu : G.eq B u = false := eq_false_of_eq_left h.eqv k.hA k.hB hu k.hAB hAu
  have hCu : G.eq C u = false := eq_false_of_eq_left h.eqv k.hA k.hC hu k.hAC hAu
  have hCw : G.eq C w = false := eq_false_of_eq_left h.eqv k.hB k.hC hw k.hBC hBw
  have huw : G.eq u w = false := by
    have : G.eq u B = false := by rw [c hu k.hB]; exact hBu
    exact eq_false_of_eq_left h.eqv k.hB hu hw (by rw [c k.hB hu]; exact this) hBw
  have huA : G.eq u A = true := by rw [c hu k.hA]; exact hAu
  have hwB : G.eq w B = true := by rw [c hw k.hB]; exact hBw
  unfold triX
  rw [eovc_shared_ac_bd k.hAB huw hAu hBw, eovc_shared_ad k.hBC huw hBu hCw hBw hCu,
    eovc_shared_ac k.hAC huw hAu hCw,
    occw_congr_b h k.rB hu k.hA k.hC k.hB huA, occw_congr_b h k.rA hw k.hB k.hC k.hA hwB,
    occw_corner h k.hB k.hA k.hC k.rB hBA k.hAC k.hBC, occw_corner h k.hA k.hB k.hC k.rA k.hAB k.hBC k.hAC,
    h.swap A B C k.hA k.hB k.hC]
  have := bne_flip _ (h.unit A B C k.hA k.hB k.hC k.hAB k.hBC k.hAC)
  revert this
  generalize (G.rs A B C == 1) = x
  generalize (-(G.rs A B C) == 1) = y
  generalize cornerC G A B C = p
  generalize cornerC G B A C = q
  cases x <;> cases y <;> cases p <;> cases q <;> simp

/-- edge from the corner B to the corner C -/
theorem edge_BC (h : ChiroOn G S) (k : Corners G S A B C) {u w : P} (hu : S u) (hw : S w)
    (hBu : G.eq B u = true) (hCw : G.eq C w = true) :
    triX G A B C u w = (cornerC G B A C != cornerC G C A B) := by
  have c : ∀ {a b : P}, S a → S b → G.eq a b = G.eq b a := fun ha hb => eq_comm_on h.eqv ha hb
  have hBA : G.eq B A = false := by rw [c k.hB k.hA]; exact k.hAB
  have hCA : G.eq C A = false := by rw [c k.hC k.hA]; exact k.hAC
  have hCB : G.eq C B = false := by rw [c k.hC k.hB]; exact k.hBC
  have hAu : G.eq A u = false := eq_false_of_eq_left h.eqv k.hB k.hA hu hBA hBu
  have hAw : G.eq A w = false := eq_false_of_eq_left h.eqv k.hC k.hA hw hCA hCw
  have hBw : G.eq B w = false := eq_false_of_eq_left h.eqv k.hC k.hB hw hCB hCw
  have hCu : G.eq C u = false := eq_false_of_eq_left h.eqv k.hB k.hC hu k.hBC hBu
  have huw : G.eq u w = false := by
    have : G.eq C u = false := hCu
    exact eq_false_of_eq_left h.eqv k.hC hu hw this hCw
  have huB : G.eq u B = true := by rw [c hu k.hB]; exact hBu
  have hwC : G.eq w C = true := by rw [c hw k.hC]; exact hCw
  unfold triX
  rw [eovc_shared_ac_bd k.hBC huw hBu hCw, eovc_shared_bc k.hAB huw hAu hBw hAw hBu,
    eovc_shared_bd k.hAC huw hAu hCw,
    occw_congr_b h k.rB hw k.hC k.hA k.hB hwC, occw_congr_b h k.rC hu k.hB k.hA k.hC huB,
    occw_corner h k.hB k.hC k.hA k.rB k.hBC hCA hBA, occw_corner h k.hC k.hB k.hA k.rC hCB hBA hCA,
    cornerC_symm h k.hB k.hA k.hC hBA k.hAC k.hBC, cornerC_symm h k.hC k.hA k.hB hCA k.hAB hCB,
    h.rot A B C k.hA k.hB k.hC, h.swap13 k.hA k.hB k.hC]
  have := bne_flip _ (h.unit A B C k.hA k.hB k.hC k.hAB k.hBC k.hAC)
  revert this
  generalize (G.rs A B C == 1) = x
  generalize (-(G.rs A B C) == 1) = y
  generalize cornerC G B A C = p
  generalize cornerC G C A B = q
  cases x <;> cases y <;> cases p <;> cases q <;> simp

/-- edge from the corner A to the corner C -/
theorem edge_AC (h : ChiroOn G S) (k : Corners G S A B C) {u w : P} (hu : S u) (hw : S w)
    (hAu : G.eq A u = true) (hCw : G.eq C w = true) :
    triX G A B C u w = (cornerC G A B C != cornerC G C A B) := by
  have c : ∀ {a b : P}, S a → S b → G.eq a b = G.eq b a := fun ha hb => eq_comm_on h.eqv ha hb
  have hCA : G.eq C A = false := by rw [c k.hC k.hA]; exact k.hAC
  have hCB : G.eq C B = false := by rw [c k.hC k.hB]; exact k.hBC
  have hBu : G.eq B u = false := eq_false_of_eq_left h.eqv k.hA k.hB hu k.hAB hAu
  have hCu : G.eq C u = false := eq_false_of_eq_left h.eqv k.hA k.hC hu k.hAC hAu
  have hBw : G.eq B w = false := eq_false_of_eq_left h.eqv k.hC k.hB hw hCB hCw
  have huw : G.eq u w = false := eq_false_of_eq_left h.eqv k.hC hu hw hCu hCw
  have huA : G.eq u A = true := by rw [c hu k.hA]; exact hAu
  have hwC : G.eq w C = true := by rw [c hw k.hC]; exact hCw
  unfold triX
  rw [eovc_shared_ac_bd k.hAC huw hAu hCw, eovc_shared_ac k.hAB huw hAu hBw,
    eovc_shared_bd k.hBC huw hBu hCw,
    occw_congr_b h k.rA hw k.hC k.hB k.hA hwC, occw_congr_b h k.rC hu k.hA k.hB k.hC huA,
    occw_corner h k.hA k.hC k.hB k.rA k.hAC hCB k.hAB, occw_corner h k.hC k.hA k.hB k.rC hCA k.hAB hCB,
    cornerC_symm h k.hA k.hB k.hC k.hAB k.hBC k.hAC,
    h.swap23 k.hA k.hB k.hC, h.rot' k.hA k.hB k.hC]
  have := bne_flip _ (h.unit A B C k.hA k.hB k.hC k.hAB k.hBC k.hAC)
  revert this
  generalize (G.rs A B C == 1) = x
  generalize (-(G.rs A B C) == 1) = y
  generalize cornerC G A B C = p
  generalize cornerC G C A B = q
  cases x <;> cases y <;> cases p <;> cases q <;> simp

theorem triX_rev (h : ChiroOn G S) (k : Corners G S A B C) {u w : P} (hu : S u) (hw : S w) :
    triX G A B C w u = triX G A B C u w := by
  unfold triX
  rw [eovc_rev_on h.eqv h.swap k.hA k.hB hw hu, eovc_rev_on h.eqv h.swap k.hB k.hC hw hu,
    eovc_rev_on h.eqv h.swap k.hA k.hC hw hu]

/-- every point is `==` to exactly one corner or to none -/
theorem classify (h : ChiroOn G S) (k : Corners G S A B C) {v : P} (hv : S v) :
    (G.eq A v = true ∧ G.eq B v = false ∧ G.eq C v = false) ∨
    (G.eq A v = false ∧ G.eq B v = true ∧ G.eq C v = false) ∨
    (G.eq A v = false ∧ G.eq B v = false ∧ G.eq C v = true) ∨
    (G.eq A v = false ∧ G.eq B v = false ∧ G.eq C v = false) := by
  have c : ∀ {a b : P}, S a → S b → G.eq a b = G.eq b a := fun ha hb => eq_comm_on h.eqv ha hb
  have hBA : G.eq B A = false := by rw [c k.hB k.hA]; exact k.hAB
  have hCA : G.eq C A = false := by rw [c k.hC k.hA]; exact k.hAC
  have hCB : G.eq C B = false := by rw [c k.hC k.hB]; exact k.hBC
  cases hA : G.eq A v with
  | true =>
    exact Or.inl ⟨rfl, eq_false_of_eq_left h.eqv k.hA k.hB hv k.hAB hA,
      eq_false_of_eq_left h.eqv k.hA k.hC hv k.hAC hA⟩
  | false =>
    cases hB : G.eq B v with
    | true => exact Or.inr (Or.inl ⟨rfl, rfl, eq_false_of_eq_left h.eqv k.hB k.hC hv k.hBC hB⟩)
    | false =>
      cases hC : G.eq C v with
      | true => exact Or.inr (Or.inr (Or.inl ⟨rfl, rfl, rfl⟩))
      | false => exact Or.inr (Or.inr (Or.inr ⟨rfl, rfl, rfl⟩))

theorem eq_congr_right (hE : EqLawsOn G S) {x u w : P} (hx : S x) (hu : S u) (hw : S w)
    (huw : G.eq u w = true) : G.eq x u = G.eq x w :=
  Bool.eq_iff_iff.2 ⟨fun e => hE.trans x u w hx hu hw e huw,
    fun e => hE.trans x w u hx hw hu e (hE.symm u w hu hw huw)⟩

/-- **The per-edge lemma with shared vertices**: for EVERY edge `u w` of points of `S`. -/
theorem edge_parity_shared (h : ChiroOn G S) (k : Corners G S A B C) {u w : P} (hu : S u) (hw : S w) :
    triX G A B C u w = (pot G A B C u != pot G A B C w) := by
  by_cases huw : G.eq u w = true
  · have e : pot G A B C u = pot G A B C w := by
      unfold pot inTri
      rw [eq_congr_right h.eqv k.hA hu hw huw, eq_congr_right h.eqv k.hB hu hw huw,
        eq_congr_right h.eqv k.hC hu hw huw, h.congr A B u w k.hA k.hB hu hw huw,
        h.congr B C u w k.hB k.hC hu hw huw, h.congr A C u w k.hA k.hC hu hw huw]
    unfold triX
    rw [e, eovc_degenerate_edge G A B u w huw, eovc_degenerate_edge G B C u w huw,
      eovc_degenerate_edge G A C u w huw]
    simp
  · simp only [Bool.not_eq_true] at huw
    have contra : ∀ {X : P}, S X → G.eq X u = true → G.eq X w = true → False := fun hX e1 e2 => by
      have := h.eqv.trans u _ w hu hX hw (h.eqv.symm _ u hX hu e1) e2
      rw [huw] at this; cases this
    have bc : ∀ x y : Bool, (x != y) = (y != x) := by decide
    rcases classify h k hu with ⟨u1, u2, u3⟩ | ⟨u1, u2, u3⟩ | ⟨u1, u2, u3⟩ | ⟨u1, u2, u3⟩ <;>
    rcases classify h k hw with ⟨w1, w2, w3⟩ | ⟨w1, w2, w3⟩ | ⟨w1, w2, w3⟩ | ⟨w1, w2, w3⟩ <;>
    simp only [pot, u1, u2, u3, w1, w2, w3, Bool.false_eq_true, ↓reduceIte]
    · exact (contra k.hA u1 w1).elim
    · exact edge_AB h k hu hw u1 w2
    · exact edge_AC h k hu hw u1 w3
    · rw [← triX_rev h k hu hw, bc]; exact edge_nA h k hw hu w1 w2 w3 u1
    · rw [← triX_rev h k hu hw, bc]; exact edge_AB h k hw hu w1 u2
    · exact (contra k.hB u2 w2).elim
    · exact edge_BC h k hu hw u2 w3
    · rw [← triX_rev h k hu hw, bc]; exact edge_nB h k hw hu w1 w2 w3 u2
    · rw [← triX_rev h k hu hw, bc]; exact edge_AC h k hw hu w1 u3
    · rw [← triX_rev h k hu hw, bc]; exact edge_BC h k hw hu w2 u3
    · exact (contra k.hC u3 w3).elim
    · rw [← triX_rev h k hu hw, bc]; exact edge_nC h k hw hu w1 w2 w3 u3
    · exact edge_nA h k hu hw u1 u2 u3 w1
    · exact edge_nB h k hu hw u1 u2 u3 w2
    · exact edge_nC h k hu hw u1 u2 u3 w3
    · exact edge_parity h k.hA k.hB k.hC hu hw k.hAB k.hBC k.hAC u1 u2 u3 w1 w2 w3

/-! ### closed chains with shared vertices -/

/-- **The cocycle for closed chains, shared vertices allowed**: for every concatenation of closed vertex chains
    of points of `S` — chain vertices may be `==` to the corners `A`, `B`, `C`, may repeat, edges may be
    degenerate. -/
theorem parityCocycle_shared_chains (h : ChiroOn G S) (k : Corners G S A B C) {chains : List (List P)}
    (hS : ∀ vs ∈ chains, ∀ v ∈ vs, S v) :
    (crossParity G A B (chains.flatMap loopEdges) != crossParity G B C (chains.flatMap loopEdges)) =
      crossParity G A C (chains.flatMap loopEdges) := by
  have key : xorAll ((chains.flatMap loopEdges).map fun e => triX G A B C e.1 e.2) = false := by
    rw [← xorAll_chains (pot G A B C) chains]
    congr 1
    apply List.map_congr_left
    intro e he
    obtain ⟨vs, hvs, h1, h2⟩ := mem_flatMap_loopEdges he
    exact edge_parity_shared h k (hS vs hvs _ h1) (hS vs hvs _ h2)
  unfold triX at key
  generalize chains.flatMap loopEdges = es at key ⊢
  have k1 := xorAll_map_bne (fun e : P × P => (edgeOrVertexCrossing G A B e.1 e.2 != edgeOrVertexCrossing G B C e.1 e.2))
    (fun e => edgeOrVertexCrossing G A C e.1 e.2) es
  have k2 := xorAll_map_bne (fun e : P × P => edgeOrVertexCrossing G A B e.1 e.2)
    (fun e => edgeOrVertexCrossing G B C e.1 e.2) es
  replace key := k1.symm.trans key
  rw [k2] at key
  clear k1 k2
  unfold crossParity
  revert key
  generalize xorAll (es.map fun e => edgeOrVertexCrossing G A B e.1 e.2) = x
  generalize xorAll (es.map fun e => edgeOrVertexCrossing G B C e.1 e.2) = y
  generalize xorAll (es.map fun e => edgeOrVertexCrossing G A C e.1 e.2) = z
  cases x <;> cases y <;> cases z <;> simp

/-! ### exchanging the endpoints of the query edge -/

theorem crossingSign_swap_ab_on (hE : EqLawsOn G S) (hS : SwapOn G S) {a b c d : P}
    (ha : S a) (hb : S b) (hc : S c) (hd : S d) :
    crossingSign G b a c d = crossingSign G a b c d := by
  unfold crossingSign
  rw [eq_comm_on hE hb ha, hS a b c ha hb hc, hS a b d ha hb hd]
  have hor : (G.eq b c || G.eq b d || G.eq a c || G.eq a d) = (G.eq a c || G.eq a d || G.eq b c || G.eq b d) := by
    cases G.eq a c <;> cases G.eq a d <;> cases G.eq b c <;> cases G.eq b d <;> rfl
  rw [hor]
  generalize G.rs a b c = x
  generalize G.rs a b d = y
  generalize G.rs c d b = u
  generalize G.rs c d a = w
  simp only [bne_iff_ne, ne_eq, ite_not]
  split_ifs <;> first | rfl | omega

theorem vertexCrossing_swap_ab_on (hE : EqLawsOn G S) {a b c d : P}
    (ha : S a) (hb : S b) (hc : S c) (hd : S d) :
    vertexCrossing G b a c d = vertexCrossing G a b c d := by
  unfold vertexCrossing
  rw [eq_comm_on hE hb ha]
  have k1 : G.eq a c = true → G.eq a d = true → G.eq c d = true :=
    fun h1 h2 => hE.trans _ _ _ hc ha hd (hE.symm _ _ ha hc h1) h2
  have k2 : G.eq a c = true → G.eq b c = true → G.eq a b = true :=
    fun h1 h2 => hE.trans _ _ _ ha hc hb h1 (hE.symm _ _ hb hc h2)
  have k3 : G.eq b d = true → G.eq a d = true → G.eq a b = true :=
    fun h1 h2 => hE.trans _ _ _ ha hd hb h2 (hE.symm _ _ hb hd h1)
  have k4 : G.eq b d = true → G.eq b c = true → G.eq c d = true :=
    fun h1 h2 => hE.trans _ _ _ hc hb hd (hE.symm _ _ hb hc h2) h1
  generalize orderedCCW G (G.refDir a) d b a = o1
  generalize orderedCCW G (G.refDir b) c a b = o2
  generalize orderedCCW G (G.refDir a) c b a = o3
  generalize orderedCCW G (G.refDir b) d a b = o4
  generalize G.eq a b = eab at *
  generalize G.eq c d = ecd at *
  generalize G.eq a c = eac at *
  generalize G.eq b d = ebd at *
  generalize G.eq a d = ead at *
  generalize G.eq b c = ebc at *
  cases eab <;> cases ecd <;> cases eac <;> cases ebd <;> cases ead <;> cases ebc <;> simp_all

/-- `EdgeOrVertexCrossing(b,a,c,d) = EdgeOrVertexCrossing(a,b,c,d)` for points of `S` -/
theorem eovc_swap_ab_on (hE : EqLawsOn G S) (hS : SwapOn G S) {a b c d : P}
    (ha : S a) (hb : S b) (hc : S c) (hd : S d) :
    edgeOrVertexCrossing G b a c d = edgeOrVertexCrossing G a b c d := by
  unfold edgeOrVertexCrossing
  rw [crossingSign_swap_ab_on hE hS ha hb hc hd, vertexCrossing_swap_ab_on hE ha hb hc hd]

theorem crossParity_swap_ab_on (hE : EqLawsOn G S) (hS : SwapOn G S) {a b : P} (ha : S a) (hb : S b)
    {es : List (P × P)} (hes : EdgesIn S es) : crossParity G b a es = crossParity G a b es := by
  unfold crossParity
  congr 1
  apply List.map_congr_left
  intro e he
  exact eovc_swap_ab_on hE hS ha hb (hes e he).1 (hes e he).2

/-! ### `==` twins of the query edge's endpoints -/

theorem eq_congr_left (hE : EqLawsOn G S) {x u w : P} (hx : S x) (hu : S u) (hw : S w)
    (huw : G.eq u w = true) : G.eq u x = G.eq w x := by
  rw [eq_comm_on hE hu hx, eq_comm_on hE hw hx]
  exact eq_congr_right hE hx hu hw huw

/-- `EdgeOrVertexCrossing(a,b,c,d)` does not distinguish `==` twins `b`, `b'` whose reference directions are `==` -/
theorem eovc_congr_b_on (h : ChiroOn G S) {a b b' c d : P} (ha : S a) (hb : S b) (hb' : S b') (hc : S c)
    (hd : S d) (hra : S (G.refDir a)) (hrb : S (G.refDir b)) (hrb' : S (G.refDir b'))
    (e : G.eq b b' = true) (er : G.eq (G.refDir b) (G.refDir b') = true) :
    edgeOrVertexCrossing G a b c d = edgeOrVertexCrossing G a b' c d := by
  have o1 : orderedCCW G (G.refDir a) d b a = orderedCCW G (G.refDir a) d b' a := by
    rw [orderedCCW_eq, orderedCCW_eq, h.congr1 hb hb' ha hd e, h.congr (G.refDir a) a b b' hra ha hb hb' e]
  have o3 : orderedCCW G (G.refDir a) c b a = orderedCCW G (G.refDir a) c b' a := by
    rw [orderedCCW_eq, orderedCCW_eq, h.congr1 hb hb' ha hc e, h.congr (G.refDir a) a b b' hra ha hb hb' e]
  have o2 : orderedCCW G (G.refDir b) c a b = orderedCCW G (G.refDir b') c a b' := by
    rw [orderedCCW_eq, orderedCCW_eq, h.congr2 hc hb hb' hrb e, h.congr c b' _ _ hc hb' hrb hrb' er,
      h.congr2 ha hb hb' hc e, h.congr2 hrb hb hb' ha e, h.congr1 hrb hrb' hb' ha er]
  have o4 : orderedCCW G (G.refDir b) d a b = orderedCCW G (G.refDir b') d a b' := by
    rw [orderedCCW_eq, orderedCCW_eq, h.congr2 hd hb hb' hrb e, h.congr d b' _ _ hd hb' hrb hrb' er,
      h.congr2 ha hb hb' hd e, h.congr2 hrb hb hb' ha e, h.congr1 hrb hrb' hb' ha er]
  unfold edgeOrVertexCrossing crossingSign vertexCrossing
  rw [o1, o2, o3, o4, eq_congr_left h.eqv hc hb hb' e, eq_congr_left h.eqv hd hb hb' e,
    eq_congr_right h.eqv ha hb hb' e, h.congr2 ha hb hb' hc e, h.congr2 ha hb hb' hd e,
    h.congr c d b b' hc hd hb hb' e]

theorem crossParity_congr_b_on (h : ChiroOn G S) {a b b' : P} (ha : S a) (hb : S b) (hb' : S b')
    (hra : S (G.refDir a)) (hrb : S (G.refDir b)) (hrb' : S (G.refDir b'))
    (e : G.eq b b' = true) (er : G.eq (G.refDir b) (G.refDir b') = true)
    {es : List (P × P)} (hes : EdgesIn S es) : crossParity G a b es = crossParity G a b' es := by
  unfold crossParity
  congr 1
  apply List.map_congr_left
  intro x hx
  exact eovc_congr_b_on h ha hb hb' (hes x hx).1 (hes x hx).2 hra hrb hrb' e er

theorem crossParity_congr_a_on (h : ChiroOn G S) {a a' b : P} (ha : S a) (ha' : S a') (hb : S b)
    (hra : S (G.refDir a)) (hra' : S (G.refDir a')) (hrb : S (G.refDir b))
    (e : G.eq a a' = true) (er : G.eq (G.refDir a) (G.refDir a') = true)
    {es : List (P × P)} (hes : EdgesIn S es) : crossParity G a b es = crossParity G a' b es := by
  rw [← crossParity_swap_ab_on h.eqv h.swap ha hb hes, ← crossParity_swap_ab_on h.eqv h.swap ha' hb hes]
  exact crossParity_congr_b_on h hb ha ha' hrb hra hra' e er hes

end laws

end S2Proofs.Contain
