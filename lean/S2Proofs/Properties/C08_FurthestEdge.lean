/-
  C08 — the FURTHEST-edge search for an EDGE target (`MaxDistanceToEdgeTarget`) with NO abstract world hypothesis
  (package c08more, goal 3; the furthest twin of `C08_EdgeTarget.lean`, built on the distance type of `C08_Furthest.lean`).

  The world is INSTANTIATED (`S2Proofs.C08FarEdge.world`, file `EdgeQuery/FarEdgeWorld.lean`):
    distances  = the floats a `maxDistance` holds (`M4`: −1, or finite in `[0,4]`), `m4I`: `less` = Go's `>`, `zero` = 4 (StraightChordAngle),
                 `infinity` = −1 (NegativeChordAngle), `sub` = `maxDistance.sub` over the generated bit-exact `ChordAngle.Add`;
    edges      = float vertex pairs; `updateDistanceToEdge` = the bit-exact `updateEdgePairMaxDistance(target.V0, target.V1, edge.V0, edge.V1, limit)`
                 (`S2.EdgeNum`) + `updateDistance`;
    cells      = the tree `Roots.subtree` of the index; `updateDistanceToCell` = the bit-exact `Cell.MaxDistanceToEdge(target.V0, target.V1)` (`S2.CellEdgeM`);
  the abstract search theorems (`Slack.slack_single_on`, `Slack.slack_multi`) are reused UNCHANGED (they only use the order laws); their hypothesis
  `Slack.SlackWorld` is DERIVED (`furthestEdge_world_slack`) from
    * c12max `maxDistanceToEdge_upper_bound`: chord²(q, r) ≤ `MaxDistanceToEdge(cell, a, b)` + 2^-40 for every point `q` of the exact cell and `r` of
      the target arc (every branch; the right-angle class of the CELL function is inside the 2^-40);
    * `edgePairMax_contract` (`EdgeQuery/EdgePairMaxNum.lean`, from c17pairs2 + c12max's one-call bounds): every value `updateEdgePairMaxDistance` returns
      with flag `true` is finite, `>` the old value, `≤ 4`, within `205u` of the EXACT maximum `rhoMax e = truePairMaxDist2(target, e)`; flag `false`
      only if `rhoMax e ≤ limit + 205u`; the three exits `maxDist == 4`, `CrossingSign(a0,a1,−b0,−b1) == Cross`, chain are covered;
    * new: `MaxDistanceToEdge ≤ 4` and `UpdateMaxDistance` candidates `≤ 4` (monotone rounding of `4 ⊖ d`, `d ≥ 0`), so that all values stay in the carrier;
    * the index invariant I1 in the form `FarthestCovered` (hypothesis; from `I1Arc` + `RootsCover`: `furthestEdge_indexOK_of_parts`).

  SLACK (explicit, squared chord, absolute): **`2^-40`** (the cell bound of c12max), edge values within `205u = 205·2^-53` of exact.
  The right-angle class F10 of `UpdateMaxDistance` is an EXPLICIT exclusion, per call, in the domain (`MaxCall.notClass`: outside the class — "the 90-degree
  test is not taken although the true larger endpoint chord exceeds 2" — or the edge of the call is at most 120° long).
-/
import S2Proofs.EdgeQuery.FarEdgeWorld
import S2Proofs.EdgeQuery.FarEdgeWorldEx
import S2Proofs.EdgeQuery.SearchSlack
import S2Proofs.Properties.C08_World2

set_option linter.unusedSimpArgs false
set_option linter.unusedVariables false

namespace S2Proofs.C08
open S2 S2.CellID S2.EdgeQueryM S2Proofs.F64Order S2Proofs.FloatErr S2Proofs.EdgeQuery S2Proofs.C08FarEdge
open S2Proofs.C08Far (mNegOne)
open S2Proofs.C12Dist2 (maxCallErr)

variable {E : FarEdgeIndex}

/-! ## (0) the distance type and the instantiated world -/

/-- Go's `>` is a strict total order on the floats a `maxDistance` holds -/
theorem furthestEdge_distOrder : DistOrder m4I := m4_order

/-- no member is "below zero" in the search order: every `maxDistance` is `≤ 4 = zero()` -/
theorem furthestEdge_not_lt_zero (a : M4) : m4I.less a m4zero = false := by
  show m4less a m4zero = false
  rw [m4less_false_val]
  exact le_trans (m4_le4 a) (by show (4 : ℝ) ≤ val S2Proofs.C08Far.mFour; rw [S2Proofs.C08Far.val_four])

/-- **the concrete furthest-edge EDGE-target world is a `SlackWorld`** -/
theorem furthestEdge_world_slack (HE : FarEdgeTargetOK E) (HI : C08FarEdge.IndexOK E) :
    Slack.SlackWorld m4I (C08FarEdge.world E) (C08FarEdge.Near E) :=
  farEdge_slackWorld HE HI

/-- **the exact distance the theorems speak about**: `rhoMax E e` is the MAXIMUM of the squared chord over all pairs (point of the target arc,
    point of the arc of edge `e`), it is attained, and lies in `[0, 4]` -/
theorem furthestEdge_rho_is_max (HE : FarEdgeTargetOK E) {e : EdgeKey} (he : e ∈ E.allEdges) :
    (∀ R Q, S2Proofs.C17Err.OnArc (S2Proofs.C17Err.vecR E.t0) (S2Proofs.C17Err.vecR E.t1) R →
      S2Proofs.C17Err.OnArc (S2Proofs.C17Err.vecR (E.vert e).1) (S2Proofs.C17Err.vecR (E.vert e).2) Q →
      S2Proofs.C17Pairs.chordPQ R Q ≤ C08FarEdge.rhoMax E e) ∧
    (∃ R Q, S2Proofs.C17Err.OnArc (S2Proofs.C17Err.vecR E.t0) (S2Proofs.C17Err.vecR E.t1) R ∧
      S2Proofs.C17Err.OnArc (S2Proofs.C17Err.vecR (E.vert e).1) (S2Proofs.C17Err.vecR (E.vert e).2) Q ∧
      S2Proofs.C17Pairs.chordPQ R Q = C08FarEdge.rhoMax E e) ∧
    0 ≤ C08FarEdge.rhoMax E e ∧ C08FarEdge.rhoMax E e ≤ 4 := by
  obtain ⟨a, b⟩ := C08FarEdge.rhoMax_is_max HE he
  refine ⟨a, b, C08FarEdge.rhoMax_nonneg HE he, ?_⟩
  exact (edgePairMax_contract (HE.pairs e he) (C08FarEdge.edge_notAntipodal HE he) m4zero.1 (m4fin m4zero) (m4_le4 m4zero)).2.2

/-- **the numeric contract of `updateDistanceToEdge` for a furthest-edge edge target** (flag and value, every exit of `updateEdgePairMaxDistance`):
    "ok, x" ⇒ `x` finite, not −1, beyond the limit in Go's `>`, within `205u` of the exact maximum; "not ok" ⇒ the limit is not −1 and the exact
    maximum is at most `205u` above it. -/
theorem furthestEdge_update_contract (HE : FarEdgeTargetOK E) {e : EdgeKey} (he : e ∈ E.allEdges) (lim : M4) :
    (∀ x, C08FarEdge.updEdge E e lim = some x →
      Fin x.1 ∧ x.1 ≠ mNegOne ∧ m4I.less x lim = true ∧ |val x.1 - C08FarEdge.rhoMax E e| ≤ maxCallErr) ∧
    (C08FarEdge.updEdge E e lim = none → lim.1 ≠ mNegOne ∧ C08FarEdge.rhoMax E e ≤ val lim.1 + maxCallErr) :=
  ⟨fun x h => C08FarEdge.edge_some HE he h, fun h => C08FarEdge.edge_none HE he h⟩

/-- the constants: `maxCallErr = 205·2^-53 ≤ slack40 = 2^-40` -/
theorem furthestEdge_constants : maxCallErr = 205 / 2 ^ 53 ∧ slack40 = 1 / 2 ^ 40 ∧ maxCallErr ≤ slack40 := by
  refine ⟨by unfold maxCallErr uR; ring, rfl, maxCallErr_le_slack⟩

/-- "not `Near`" unfolded -/
theorem furthestEdge_not_near_iff (e : EdgeKey) (x : M4) :
    ¬ C08FarEdge.Near E e x ↔ x.1 ≠ mNegOne ∧ C08FarEdge.rhoMax E e ≤ val x.1 + slack40 := by
  unfold C08FarEdge.Near
  constructor
  · intro h
    exact ⟨fun hi => h (Or.inl hi), not_lt.mp (fun hl => h (Or.inr hl))⟩
  · rintro ⟨h1, h2⟩ (hi | hl)
    · exact h1 hi
    · linarith

/-- `IndexOK` from the structural facts + `I1Arc` (C06; literally c08world2's statement) + `RootsCover`; nesting of regions = `regions_nested` -/
theorem furthestEdge_indexOK_of_parts (HE : FarEdgeTargetOK E) (hcells : IndexCellsOK (Roots.ids E.ix))
    (hroots : ∀ lim, ∀ c ∈ E.rootIds lim, CellID.isValid c = true) (hdepth : 30 ≤ E.depth)
    (hes : ∀ x es, E.ix.lookup x = some es → ∀ e ∈ es, e ∈ E.allEdges)
    (hloc : ∀ es, E.located = some es → ∀ e ∈ es, e ∈ E.allEdges)
    (h1 : S2Proofs.C08World.I1Arc E.toPoint) (hr : C08FarEdge.RootsCover E) : C08FarEdge.IndexOK E :=
  C08FarEdge.indexOK_of_parts HE hcells hroots hdepth hes hloc h1 hr

theorem furthestEdge_rootsCover_of_inf_fin (hi : C08FarEdge.RootsCoverInf E) (hf : C08FarEdge.RootsCoverFin E) :
    C08FarEdge.RootsCover E :=
  C08FarEdge.rootsCover_of_inf_fin hi hf

/-- the unbounded part (limit = −1) is a theorem when the initial cells are the index covering (c08world2 `rootsCoverInf_of_initCovering`) -/
theorem furthestEdge_rootsCoverInf_of_initCovering (hok : IndexCellsOK (Roots.ids E.ix)) {cov : List (CellID × Bool)}
    (hcov : initCovering (Roots.ids E.ix) = some cov) (hroots : E.rootIds m4inf = cov.map (·.1)) :
    C08FarEdge.RootsCoverInf E :=
  rootsCoverInf_of_initCovering (P := E.toPoint) hok hcov hroots

/-! ## (1) MaxResults = 1, either path -/

/-- **END-TO-END, MaxResults = 1.**  On either path the answer has at most one entry; an entry is an interior result or an edge of the index whose
    reported distance is finite, not −1, beyond the limit (`>`), and within `205u` of the TRUE maximum distance between the target arc and that edge; NO
    edge of the index is truly farther than `reported ⊕ MaxError + 2^-40`; an empty answer means the limit is not −1 and no edge is truly farther
    than `limit + 2^-40`.  (`S`: the law `x ⊕ err` is not "before" `x`, trivially true for MaxError = 0: `furthestEdge_subLawsOn_zero`.) -/
theorem furthestEdge_single (HE : FarEdgeTargetOK E) (HI : C08FarEdge.IndexOK E) {o : Opts M4}
    (S : Slack.SubLawsOn m4I (C08FarEdge.world E) o.maxError)
    (h1 : o.maxResults = 1) (hU : o.targetUsesMaxError = false) {rs : List (Result M4)}
    (h : findEdges m4I o (C08FarEdge.world E) = some rs) :
    rs.length ≤ 1 ∧
    (∀ r ∈ rs,
      (o.includeInteriors = true ∧ r.dist = m4zero ∧ r.edge = -1 ∧ r.shape ∈ E.interiors) ∨
      (∃ e ∈ E.allEdges, r.shape = e.shape ∧ r.edge = e.edge ∧ Fin r.dist.1 ∧ r.dist.1 ≠ mNegOne ∧
        |val r.dist.1 - C08FarEdge.rhoMax E e| ≤ maxCallErr ∧ m4I.less r.dist o.distanceLimit = true)) ∧
    (∀ r ∈ rs, ∀ e ∈ E.allEdges,
      (m4sub r.dist o.maxError).1 ≠ mNegOne ∧ C08FarEdge.rhoMax E e ≤ val (m4sub r.dist o.maxError).1 + slack40) ∧
    (rs = [] → ∀ e ∈ E.allEdges, o.distanceLimit.1 ≠ mNegOne ∧ C08FarEdge.rhoMax E e ≤ val o.distanceLimit.1 + slack40) := by
  obtain ⟨a, b, c, d, _⟩ := Slack.slack_single_on m4_order S (furthestEdge_world_slack HE HI) h1 hU
    (furthestEdge_not_lt_zero _) h
  refine ⟨a, ?_, ?_, ?_⟩
  · intro r hr
    rcases b r hr with hi | ⟨e, he, hs, hed, ⟨lim, hup, _⟩, hlt⟩
    · exact Or.inl hi
    · obtain ⟨f, hn, _, herr⟩ := C08FarEdge.edge_some HE he hup
      exact Or.inr ⟨e, he, hs, hed, f, hn, herr, hlt⟩
  · intro r hr e he
    exact (furthestEdge_not_near_iff e _).mp (c r hr e he)
  · intro hnil e he
    exact (furthestEdge_not_near_iff e _).mp (d hnil e he)

theorem furthestEdge_subLawsOn_zero : Slack.SubLawsOn m4I (C08FarEdge.world E) m4null := farEdge_subLawsOn_zero

/-- **MaxError = 0 (the default): the reported distance is within the slack of the TRUE optimum**: it is at least `rhoMax e − 2^-40` for EVERY edge
    `e`, and (being the computed distance of some edge `e0`) at most `rhoMax e0 + 205u`. -/
theorem furthestEdge_distance_within_slack (HE : FarEdgeTargetOK E) (HI : C08FarEdge.IndexOK E) {o : Opts M4}
    (h0 : o.maxError = m4null) (h1 : o.maxResults = 1) (hU : o.targetUsesMaxError = false)
    {rs : List (Result M4)} (h : findEdges m4I o (C08FarEdge.world E) = some rs) :
    ∀ r ∈ rs, (∀ e ∈ E.allEdges, C08FarEdge.rhoMax E e - slack40 ≤ val r.dist.1) ∧
      (r.edge ≠ -1 → ∃ e0 ∈ E.allEdges, r.shape = e0.shape ∧ r.edge = e0.edge ∧
        val r.dist.1 ≤ C08FarEdge.rhoMax E e0 + maxCallErr) := by
  have S : Slack.SubLawsOn m4I (C08FarEdge.world E) o.maxError := by rw [h0]; exact farEdge_subLawsOn_zero
  obtain ⟨_, b, c, _⟩ := furthestEdge_single HE HI S h1 hU h
  intro r hr
  constructor
  · intro e he
    have := (c r hr e he).2
    rw [h0, m4sub_zero] at this
    linarith
  · intro hne
    rcases b r hr with ⟨_, _, hedge, _⟩ | ⟨e, he, hs, hed, _, _, herr, _⟩
    · exact absurd hedge hne
    · exact ⟨e, he, hs, hed, by have := (abs_le.mp herr).2; linarith⟩

/-- the same as ONE inequality against the true optimum: if `m` is the greatest exact maximum distance (`rhoMax e ≤ m` for all `e`, `m = rhoMax e1`
    for some edge `e1`), a reported EDGE distance `d` satisfies `m − 2^-40 ≤ d ≤ m + 205u` -/
theorem furthestEdge_distance_vs_optimum (HE : FarEdgeTargetOK E) (HI : C08FarEdge.IndexOK E) {o : Opts M4}
    (h0 : o.maxError = m4null) (h1 : o.maxResults = 1) (hU : o.targetUsesMaxError = false)
    {rs : List (Result M4)} (h : findEdges m4I o (C08FarEdge.world E) = some rs)
    {m : ℝ} (hm : ∀ e ∈ E.allEdges, C08FarEdge.rhoMax E e ≤ m) {e1 : EdgeKey} (he1 : e1 ∈ E.allEdges)
    (hm1 : C08FarEdge.rhoMax E e1 = m) :
    ∀ r ∈ rs, r.edge ≠ -1 → m - slack40 ≤ val r.dist.1 ∧ val r.dist.1 ≤ m + maxCallErr := by
  intro r hr hne
  obtain ⟨a, b⟩ := furthestEdge_distance_within_slack HE HI h0 h1 hU h r hr
  obtain ⟨e0, he0, _, _, l⟩ := b hne
  refine ⟨by have := a e1 he1; rw [hm1] at this; exact this, by have := hm e0 he0; linarith⟩

/-- **optimized vs brute force, MaxResults = 1, MaxError = 0**: whenever both runs report an EDGE, the two reported distances differ by at most
    `2^-40 + 205u` -/
theorem furthestEdge_optimized_vs_bruteforce_single (HE : FarEdgeTargetOK E) (HI : C08FarEdge.IndexOK E) {o o' : Opts M4}
    (h0 : o.maxError = m4null) (h0' : o'.maxError = m4null) (h1 : o.maxResults = 1) (h1' : o'.maxResults = 1)
    (hU : o.targetUsesMaxError = false) (hU' : o'.targetUsesMaxError = false)
    {rs rs' : List (Result M4)} (h : findEdges m4I o (C08FarEdge.world E) = some rs)
    (h' : findEdges m4I o' (C08FarEdge.world E) = some rs') :
    ∀ r ∈ rs, ∀ r' ∈ rs', r.edge ≠ -1 → r'.edge ≠ -1 →
      |val r.dist.1 - val r'.dist.1| ≤ slack40 + maxCallErr := by
  intro r hr r' hr' hne hne'
  obtain ⟨a1, a3⟩ := furthestEdge_distance_within_slack HE HI h0 h1 hU h r hr
  obtain ⟨e0, he0, _, _, a2⟩ := a3 hne
  obtain ⟨b1, b3⟩ := furthestEdge_distance_within_slack HE HI h0' h1' hU' h' r' hr'
  obtain ⟨e1, he1, _, _, b2⟩ := b3 hne'
  have c1 := a1 e1 he1
  have c2 := b1 e0 he0
  rw [abs_le]; constructor <;> linarith

/-- **the `Distance()` entry point with MaxError = 0** (`findEdge` + `.distance`): the returned chord `d` is the "infinity" −1 only if the limit is
    not −1 and no edge is truly farther than `limit + 2^-40`; otherwise it is at least `rhoMax e − 2^-40` for EVERY edge. -/
theorem furthestEdge_distance_call (HE : FarEdgeTargetOK E) (HI : C08FarEdge.IndexOK E) {o : Opts M4}
    (h0 : o.maxError = m4null) (hU : o.targetUsesMaxError = false) {d : M4}
    (hd : distance m4I o (C08FarEdge.world E) = some d) :
    ∀ e ∈ E.allEdges,
      (d = m4inf ∧ o.distanceLimit.1 ≠ mNegOne ∧ C08FarEdge.rhoMax E e ≤ val o.distanceLimit.1 + slack40) ∨
      C08FarEdge.rhoMax E e - slack40 ≤ val d.1 := by
  rw [distance_eq] at hd
  cases hf : findEdges m4I { o with maxResults := 1 } (C08FarEdge.world E) with
  | none => rw [hf] at hd; cases hd
  | some rs =>
    rw [hf] at hd
    simp only [Option.map_some, Option.some.injEq] at hd
    have S : Slack.SubLawsOn m4I (C08FarEdge.world E) ({ o with maxResults := 1 } : Opts M4).maxError := by
      show Slack.SubLawsOn m4I (C08FarEdge.world E) o.maxError
      rw [h0]; exact farEdge_subLawsOn_zero
    intro e he
    cases rs with
    | nil =>
      left
      obtain ⟨_, _, _, dd⟩ := furthestEdge_single HE HI S rfl hU hf
      have := dd rfl e he
      exact ⟨hd.symm, this⟩
    | cons r t =>
      right
      have := (furthestEdge_distance_within_slack HE HI (o := { o with maxResults := 1 }) h0 rfl hU hf r (by simp)).1 e he
      have hdr : d = r.dist := hd.symm
      rw [hdr]; exact this

/-- `SubLawsOn` for `MaxError = StraightChordAngle` — NO hypothesis on `sub`: `x.Add(4) = 4` on the floats (c08more-subF `add_straight`) -/
theorem furthestEdge_subLawsOn_straight (HE : FarEdgeTargetOK E) : Slack.SubLawsOn m4I (C08FarEdge.world E) m4zero :=
  farEdge_subLawsOn_straight HE

/-- **`IsDistanceGreater(edgeTarget, limit)`** (delegates to `IsDistanceLess`: `MaxResults(1)`, `DistanceLimit(limit)`, `MaxError(StraightChordAngle)`;
    `straight` = `maxDistance(4)` = `m4zero`), on the float code.  `true` ⇒ interior hit or some edge has a COMPUTED maximum distance beyond the limit
    (within `205u` of its exact value); `false` ⇒ the limit is not −1 and NO edge is truly farther than `limit + 2^-40`. -/
theorem furthestEdge_isDistanceGreater (HE : FarEdgeTargetOK E) (HI : C08FarEdge.IndexOK E) {o : Opts M4}
    (hU : o.targetUsesMaxError = false) (hsh : ∀ e ∈ E.allEdges, 0 ≤ e.shape) (hin : ∀ sh ∈ E.interiors, 0 ≤ sh)
    {t : M4} {b : Bool} (hb : isDistanceLess m4I m4zero o (C08FarEdge.world E) t = some b) :
    (b = true →
      (o.includeInteriors = true ∧ E.interiors ≠ []) ∨
      ∃ e ∈ E.allEdges, ∃ x : M4, Fin x.1 ∧ |val x.1 - C08FarEdge.rhoMax E e| ≤ maxCallErr ∧ m4I.less x t = true) ∧
    (b = false → ∀ e ∈ E.allEdges, t.1 ≠ mNegOne ∧ C08FarEdge.rhoMax E e ≤ val t.1 + slack40) := by
  rw [isDistanceLess_eq] at hb
  cases hrs : findEdges m4I { o with maxResults := 1, distanceLimit := t, maxError := m4zero } (C08FarEdge.world E) with
  | none => rw [hrs] at hb; cases hb
  | some rs =>
    rw [hrs] at hb
    simp only [Option.map_some, Option.some.injEq] at hb
    obtain ⟨k1, k2, _, k4⟩ := furthestEdge_single HE HI
      (o := { o with maxResults := 1, distanceLimit := t, maxError := m4zero }) (farEdge_subLawsOn_straight HE) rfl hU hrs
    cases rs with
    | nil =>
      have hbf : b = false := hb.symm
      subst hbf
      exact ⟨fun h => (by cases h), fun _ => k4 rfl⟩
    | cons r tl =>
      simp only at hb
      rcases k2 r (by simp) with ⟨hi, _, _, hs⟩ | ⟨e, he, hs, _, hf, _, herr, hlt⟩
      · have : b = true := by
          rw [← hb]; exact decide_eq_true (hin _ hs)
        subst this
        refine ⟨fun _ => Or.inl ⟨hi, List.ne_nil_of_mem hs⟩, fun h => by cases h⟩
      · have : b = true := by
          rw [← hb]; apply decide_eq_true; rw [hs]; exact hsh e he
        subst this
        exact ⟨fun _ => Or.inr ⟨e, he, r.dist, hf, herr, hlt⟩, fun h => by cases h⟩

/-! ## (2) MaxResults ≠ 1, either path -/

/-- **END-TO-END, MaxResults ≠ 1.**  The answer has at most MaxResults entries, strictly sorted by (distance — FARTHEST first —, shape, edge); an
    entry is an interior result or an edge of the index with the value `updateEdgePairMaxDistance` computes for it at the option's limit — finite, not −1,
    beyond the limit, within `205u` of the edge's TRUE maximum distance to the target arc; EVERY edge that is truly farther than `limit + 2^-40` (every
    edge, for the limit −1) is reported with such a value, unless the answer is full and every reported entry precedes that edge's entry. -/
theorem furthestEdge_multi (HE : FarEdgeTargetOK E) (HI : C08FarEdge.IndexOK E) {o : Opts M4}
    (hk : o.maxResults ≠ 1) (hU : o.targetUsesMaxError = false) {rs : List (Result M4)}
    (h : findEdges m4I o (C08FarEdge.world E) = some rs) :
    rs.length ≤ o.maxResults ∧
    rs.Pairwise (fun a b => Result.less m4I a b = true) ∧
    (∀ r ∈ rs,
      (o.includeInteriors = true ∧ r.dist = m4zero ∧ r.edge = -1 ∧ r.shape ∈ E.interiors) ∨
      (∃ e ∈ E.allEdges, r.shape = e.shape ∧ r.edge = e.edge ∧ C08FarEdge.updEdge E e o.distanceLimit = some r.dist ∧
        Fin r.dist.1 ∧ r.dist.1 ≠ mNegOne ∧ |val r.dist.1 - C08FarEdge.rhoMax E e| ≤ maxCallErr ∧
        m4I.less r.dist o.distanceLimit = true)) ∧
    (∀ e ∈ E.allEdges, (o.distanceLimit.1 = mNegOne ∨ val o.distanceLimit.1 + slack40 < C08FarEdge.rhoMax E e) →
      ∃ x, C08FarEdge.updEdge E e o.distanceLimit = some x ∧ |val x.1 - C08FarEdge.rhoMax E e| ≤ maxCallErr ∧
        ((⟨x, e.shape, e.edge⟩ : Result M4) ∈ rs ∨
         (rs.length = o.maxResults ∧ ∀ a ∈ rs, Result.less m4I a ⟨x, e.shape, e.edge⟩ = true))) := by
  obtain ⟨a, b, c, d⟩ := Slack.slack_multi m4_order (furthestEdge_world_slack HE HI) hk hU h
  refine ⟨a, b, ?_, ?_⟩
  · intro r hr
    rcases c r hr with hi | ⟨e, he, hs, hed, hup⟩
    · exact Or.inl hi
    · obtain ⟨f, hn, hlt, herr⟩ := C08FarEdge.edge_some HE he hup
      exact Or.inr ⟨e, he, hs, hed, hup, f, hn, herr, hlt⟩
  · intro e he hn
    obtain ⟨x, hup, hx⟩ := d e he hn
    exact ⟨x, hup, (C08FarEdge.edge_some HE he hup).2.2.2, hx⟩

/-! ## (3) non-vacuity: the two-cell index of `PointWorldEx`, EDGE target (1/3,2/3,2/3) → (2/3,1/3,2/3), FURTHEST-edge query -/

section NonVacuity
open S2Proofs.C08World.Ex S2Proofs.C08FarEdge.Ex

example : FarEdgeTargetOK exF := C08FarEdge.Ex.ex_targetOK
example : C08FarEdge.IndexOK exF := ex_indexOKF
example : Slack.SlackWorld m4I (C08FarEdge.world exF) (C08FarEdge.Near exF) := furthestEdge_world_slack C08FarEdge.Ex.ex_targetOK ex_indexOKF

/-- the optimized furthest-edge search on this world, evaluated by the kernel: edge 1 is returned at squared chord `4613745647665100891` (≈ 3.5);
    with `MaxResults = 2` edge 0 follows at `4608683618675807574` (≈ 1.33) -/
example : (findEdges m4I farOpts (C08FarEdge.world exF)).map (fun rs => rs.map (fun r => (r.dist.1.bits, r.shape, r.edge)))
    = some [(4613745647665100891, 0, 1)] := ex_searchF
example : (findEdges m4I farOpts2 (C08FarEdge.world exF)).map (fun rs => rs.map (fun r => (r.dist.1.bits, r.shape, r.edge)))
    = some [(4613745647665100891, 0, 1), (4608683618675807574, 0, 0)] := ex_searchF2

/-- `furthestEdge_distance_within_slack` APPLIED, no hypothesis left: the float the search returns is at least the EXACT maximum distance of every
    edge of the index minus `2^-40` -/
example : ∀ e ∈ exF.allEdges, C08FarEdge.rhoMax exF e - slack40 ≤ val (⟨4613745647665100891⟩ : F64) := by
  obtain ⟨rs, hf⟩ : ∃ rs, findEdges m4I farOpts (C08FarEdge.world exF) = some rs :=
    S2Proofs.EdgeQuery.findEdges_total m4I farOpts (C08FarEdge.world exF)
  have hs := ex_searchF
  rw [hf] at hs
  simp only [Option.map_some, Option.some.injEq] at hs
  obtain ⟨r, hrs⟩ : ∃ r, rs = [r] := by
    cases rs with
    | nil => simp at hs
    | cons r t =>
      cases t with
      | nil => exact ⟨r, rfl⟩
      | cons _ _ => simp at hs
  subst hrs
  simp only [List.map_cons, List.map_nil, List.cons.injEq, Prod.mk.injEq, and_true] at hs
  have hr : r.dist.1 = (⟨4613745647665100891⟩ : F64) := by
    have := hs.1
    cases hd : r.dist.1 with
    | mk b => rw [hd] at this; simp only at this; rw [this]
  intro e he
  have := (furthestEdge_distance_within_slack C08FarEdge.Ex.ex_targetOK ex_indexOKF (o := farOpts) rfl rfl rfl hf r (by simp)).1 e he
  rw [hr] at this
  exact this

/-- `furthestEdge_multi` APPLIED: with `MaxResults = 2` and the limit −1 BOTH edges must be reported -/
example : ∀ rs, findEdges m4I farOpts2 (C08FarEdge.world exF) = some rs →
    ∀ e ∈ exF.allEdges, ∃ x, C08FarEdge.updEdge exF e m4inf = some x ∧
      ((⟨x, e.shape, e.edge⟩ : Result M4) ∈ rs ∨
        (rs.length = 2 ∧ ∀ a ∈ rs, Result.less m4I a ⟨x, e.shape, e.edge⟩ = true)) := by
  intro rs h e he
  obtain ⟨_, _, _, d⟩ := furthestEdge_multi C08FarEdge.Ex.ex_targetOK ex_indexOKF (o := farOpts2) (by decide) rfl h
  obtain ⟨x, hx, _, hres⟩ := d e he (Or.inl rfl)
  exact ⟨x, hx, hres⟩

end NonVacuity

end S2Proofs.C08
