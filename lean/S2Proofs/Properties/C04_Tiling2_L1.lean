/-
  Property C04, `CellLoopsTile` for the six faces and for ALL 24 cells of level 1, exact geometry, unconditionally:
  the certificates of `C04_Tiling2.cells_exactly_once_of_certificate` (convexity of every cell, pairwise separation
  by an edge plane, cancellation of the directed edges up to `==`, one origin bit) are kernel-evaluated.
  Non-vacuity examples of `C04_Tiling2.lean` (which need the level-1 vertex table) are at the end.
-/
import S2Proofs.Properties.C04_Tiling2_Vertex
namespace S2Proofs.C04
open S2 S2.Contain S2.Pred S2.Exact S2Proofs.Contain S2Proofs.F64Order S2Proofs.ExactLaws

private theorem fin_origin' : PtOK originPoint := by decide +kernel

/-! ### the six faces -/

/-- the six face loops of `C04_Tiling.faceLoops` as cells -/
def faceCells : List Q4 :=
  [⟨cu false true true, cu false false true, cu false false false, cu false true false⟩,
   ⟨cu false false true, cu true false true, cu true false false, cu false false false⟩,
   ⟨cu false false false, cu true false false, cu true true false, cu false true false⟩,
   ⟨cu true false false, cu true false true, cu true true true, cu true true false⟩,
   ⟨cu true true false, cu true true true, cu false true true, cu false true false⟩,
   ⟨cu true true true, cu true false true, cu false false true, cu false true true⟩]

/-- the eight cube corners (±1,±1,±1)/√3 -/
def cubeCorners : List V3 :=
  [cu false false false, cu false false true, cu false true false, cu false true true,
   cu true false false, cu true false true, cu true true false, cu true true true]

private theorem faceLoops_eq : faceLoops = faceCells.map (Q4.loop originPoint) := rfl

private theorem face_cells_ok : ∀ q ∈ faceCells, q.OK ∧ Compat originPoint q.v1 := by decide +kernel
private theorem face_pool : vertsIn cubeCorners faceCells = true := by decide +kernel
private theorem face_sep : edgeSepAll faceCells = true := by decide +kernel
private theorem face_cancel : PairOK (familyEdges (faceCells.map (Q4.loop originPoint))) := by decide +kernel
private theorem face_flags :
    ((faceCells.map (Q4.loop originPoint)).filter fun L => L.originInside).length = 1 := by decide +kernel

/-- **The six face loops contain every point EXACTLY once** — every finite point with a usable reference
    direction (`PtOK`) that is not
    `==` to a cube corner; points on the twelve cube edges included. -/
theorem six_faces_exactly_once_exact {p : V3} (hp : PtOK p)
    (hoff : ∀ x ∈ cubeCorners, V3.feq x p = false) : containCount originPoint faceLoops p = 1 := by
  rw [faceLoops_eq]
  exact cells_exactly_once_of_certificate fin_origin' face_cells_ok face_pool face_sep face_cancel face_flags
    hp hoff

/-- … and the cube corners themselves (evaluation): exactly once -/
theorem six_faces_exactly_once_at_corners :
    ∀ x ∈ cubeCorners, containCount originPoint faceLoops x = 1 := by decide +kernel

private theorem face_ok : ∀ q ∈ faceCells, q.OK := fun q hq => (face_cells_ok q hq).1
private theorem face_verts_ok : ∀ x ∈ cubeCorners, PtOK x ∧ Compat originPoint x := by decide +kernel

/-- **`CellLoopsTile` for the six faces, proved everywhere** (no evaluation at the corners): every `PtOK` point
    whose reference direction is not `==` to a cube corner and which, if `==` to a corner, has an `==` reference
    direction, is in exactly one face loop — the cube corners included: the vertex rule gives a corner shared by
    three faces to exactly one of them. -/
theorem six_faces_tile_exact {p : V3} (hp : PtOK p)
    (hpp : ∀ x ∈ cubeCorners, Compat x p ∧ V3.feq (s2Ortho p) x = false) :
    (faceLoops.filter fun L => bruteContains exactGeo originPoint L p).length = 1 := by
  show containCount originPoint faceLoops p = 1
  rw [faceLoops_eq]
  exact cells_exactly_once_anywhere_of_certificate fin_origin' face_ok face_pool face_verts_ok face_sep
    face_cancel face_flags hp hpp

/-! ### the 24 cells of level 1 -/

/-- the 24 cell loops of level 1 (`C04_Tiling.l1Loops`) as cells -/
def l1Cells : List Q4 :=
  l1Idx.map fun l => ⟨l1Verts.getD (l.getD 0 0) default, l1Verts.getD (l.getD 1 0) default,
    l1Verts.getD (l.getD 2 0) default, l1Verts.getD (l.getD 3 0) default⟩

private theorem l1Loops_eq : l1Loops = l1Cells.map (Q4.loop originPoint) := rfl

private theorem l1_cells_ok : ∀ q ∈ l1Cells, q.OK := by decide +kernel
private theorem l1_cells_compat : ∀ q ∈ l1Cells, Compat originPoint q.v1 := by decide +kernel
private theorem l1_pool : vertsIn l1Verts l1Cells = true := by decide +kernel
/-- the 276 pairs of level-1 cells: each pair is separated by the great circle of an edge of one of the two -/
private theorem l1_sep : edgeSepAll l1Cells = true := by decide +kernel
private theorem l1_cancel' : PairOK (familyEdges (l1Cells.map (Q4.loop originPoint))) := by decide +kernel
private theorem l1_flags' :
    ((l1Cells.map (Q4.loop originPoint)).filter fun L => L.originInside).length = 1 := by decide +kernel

/-- **All 24 cells of level 1 contain every point EXACTLY once**: every finite point `p` with a usable reference
    direction that is not `==` to one of the 26 vertices is contained in exactly one of the 24 loops
    `LoopFromCell(c)` — points on the cell edges and on the cube-face boundaries included (no sliver and no overlap
    between neighbours, although six shared vertices are only `==`, ±0 twins). -/
theorem level1_cells_exactly_once_exact {p : V3} (hp : PtOK p)
    (hoff : ∀ x ∈ l1Verts, V3.feq x p = false) : containCount originPoint l1Loops p = 1 := by
  rw [l1Loops_eq]
  exact cells_exactly_once_of_certificate fin_origin'
    (fun q hq => ⟨l1_cells_ok q hq, l1_cells_compat q hq⟩) l1_pool l1_sep l1_cancel' l1_flags' hp hoff

/-- at most one (the part that `C04_Tiling` had as hypothesis `hle`), stated separately -/
theorem level1_cells_count_le_one_exact {p : V3} (hp : PtOK p)
    (hoff : ∀ x ∈ l1Verts, V3.feq x p = false) : containCount originPoint l1Loops p ≤ 1 := by
  rw [level1_cells_exactly_once_exact hp hoff]

/-! the 32 listed bit patterns of the 26 vertices themselves: exactly once (evaluation, four at a time) -/
private theorem l1_at_0 : ∀ x ∈ (l1Verts.drop 0).take 4, containCount originPoint l1Loops x = 1 := by decide +kernel
private theorem l1_at_1 : ∀ x ∈ (l1Verts.drop 4).take 4, containCount originPoint l1Loops x = 1 := by decide +kernel
private theorem l1_at_2 : ∀ x ∈ (l1Verts.drop 8).take 4, containCount originPoint l1Loops x = 1 := by decide +kernel
private theorem l1_at_3 : ∀ x ∈ (l1Verts.drop 12).take 4, containCount originPoint l1Loops x = 1 := by decide +kernel
private theorem l1_at_4 : ∀ x ∈ (l1Verts.drop 16).take 4, containCount originPoint l1Loops x = 1 := by decide +kernel
private theorem l1_at_5 : ∀ x ∈ (l1Verts.drop 20).take 4, containCount originPoint l1Loops x = 1 := by decide +kernel
private theorem l1_at_6 : ∀ x ∈ (l1Verts.drop 24).take 4, containCount originPoint l1Loops x = 1 := by decide +kernel
private theorem l1_at_7 : ∀ x ∈ (l1Verts.drop 28).take 4, containCount originPoint l1Loops x = 1 := by decide +kernel

/-- **Level 1 at the vertices**: each of the 32 vertex bit patterns (26 points; the six face-boundary points with
    a zero coordinate in both versions ±0) is contained in exactly one of the 24 cell loops — the semi-open vertex
    rule picks one of the three or four cells around it. -/
theorem level1_cells_exactly_once_at_vertices :
    ∀ x ∈ l1Verts, containCount originPoint l1Loops x = 1 := by
  intro x hx
  have e : l1Verts = (l1Verts.drop 0).take 4 ++ (l1Verts.drop 4).take 4 ++ (l1Verts.drop 8).take 4 ++
      (l1Verts.drop 12).take 4 ++ (l1Verts.drop 16).take 4 ++ (l1Verts.drop 20).take 4 ++
      (l1Verts.drop 24).take 4 ++ (l1Verts.drop 28).take 4 := rfl
  rw [e] at hx
  simp only [List.mem_append] at hx
  rcases hx with ((((((h | h) | h) | h) | h) | h) | h) | h
  · exact l1_at_0 x h
  · exact l1_at_1 x h
  · exact l1_at_2 x h
  · exact l1_at_3 x h
  · exact l1_at_4 x h
  · exact l1_at_5 x h
  · exact l1_at_6 x h
  · exact l1_at_7 x h

private theorem l1_verts_ok : ∀ x ∈ l1Verts, PtOK x := by decide +kernel

private theorem l1_loopIn : ∀ L ∈ l1Loops, LoopIn Fin3 L := by
  rw [l1Loops_eq]
  exact cells_loopIn_exact l1_cells_ok

/-- **`CellLoopsTile` for level 1** on the input class: `p` finite with a usable reference direction (`PtOK`), and
    if `p` is `==` to one of the 32 listed vertex bit patterns then their reference directions are `==` (`Compat`:
    trivial when `p` IS that bit pattern; for the remaining ±0 twins it holds in IEEE arithmetic, for the soft-float
    it is a decidable check).  Every such point — interior points, points on cell edges and face boundaries,
    vertices, cube corners — is contained in EXACTLY ONE of the 24 cell loops. -/
theorem level1_cells_tile_exact {p : V3} (hp : PtOK p) (hc : ∀ x ∈ l1Verts, Compat x p) :
    (l1Loops.filter fun L => bruteContains exactGeo originPoint L p).length = 1 := by
  show containCount originPoint l1Loops p = 1
  by_cases h : ∃ x ∈ l1Verts, V3.feq x p = true
  · obtain ⟨x, hx, e⟩ := h
    have er : V3.feq (s2Ortho x) (s2Ortho p) = true := by
      rcases hc x hx with h' | h'
      · rw [e] at h'; cases h'
      · exact h'
    rw [← containCount_congr_exact fin_origin' (l1_verts_ok x hx) hp l1_loopIn e er]
    exact level1_cells_exactly_once_at_vertices x hx
  · refine level1_cells_exactly_once_exact hp (fun x hx => ?_)
    cases e : V3.feq x p with
    | false => rfl
    | true => exact absurd ⟨x, hx, e⟩ h

private theorem l1_verts_compat : ∀ x ∈ l1Verts, Compat originPoint x := by decide +kernel

/-- **`CellLoopsTile` for level 1, proved everywhere** — the vertices by the general vertex theorem
    (`cells_exactly_once_at_vertex_exact`: wedges around a shared vertex), not by evaluation: every `PtOK` point `p`
    such that for each of the 32 vertex bit patterns `x`: `Compat x p`, and `s2Ortho p` is not `==` x. -/
theorem level1_cells_tile_anywhere_exact {p : V3} (hp : PtOK p)
    (hpp : ∀ x ∈ l1Verts, Compat x p ∧ V3.feq (s2Ortho p) x = false) :
    (l1Loops.filter fun L => bruteContains exactGeo originPoint L p).length = 1 := by
  show containCount originPoint l1Loops p = 1
  rw [l1Loops_eq]
  exact cells_exactly_once_anywhere_of_certificate fin_origin' l1_cells_ok l1_pool
    (fun x hx => ⟨l1_verts_ok x hx, l1_verts_compat x hx⟩) l1_sep l1_cancel' l1_flags' hp hpp

/-! ## 6. non-vacuity -/

/-- the everywhere-theorems at vertices: `l1Verts[3]` = (1,-1,0)/√2 (held as ±0 twins by the cells of two faces),
    the face centre (1,-0,-0) (a twin no cell has), a cube corner -/
example : (l1Loops.filter fun L => bruteContains exactGeo originPoint L (l1Verts.getD 3 default)).length = 1 ∧
    (l1Loops.filter fun L => bruteContains exactGeo originPoint L eXm).length = 1 ∧
    (faceLoops.filter fun L => bruteContains exactGeo originPoint L (cu false false false)).length = 1 :=
  ⟨level1_cells_tile_anywhere_exact (by decide +kernel) (by decide +kernel),
   level1_cells_tile_anywhere_exact (by decide +kernel) (by decide +kernel),
   six_faces_tile_exact (by decide +kernel) (by decide +kernel)⟩


/-- the level-1 cell `l1Idx[2]` of face 0 (vertices (1,0,0), (1,1,0)/√2, (1,1,1)/√3, (1,0,1)/√2) and its
    neighbour `l1Idx[3]` across the edge (1,0,0)–(1,1,0)/√2 -/
def qA : Q4 := ⟨l1Verts.getD 2 default, l1Verts.getD 6 default, l1Verts.getD 7 default, l1Verts.getD 4 default⟩
def qB : Q4 := ⟨l1Verts.getD 1 default, l1Verts.getD 8 default, l1Verts.getD 6 default, l1Verts.getD 2 default⟩
/-- two cells on different faces that share the edge (1,-1,0)/√2–(1,-1,1)/√3, whose first endpoint they hold as
    ±0 twins (`l1Verts[3]`, `l1Verts[27]`) -/
def qC : Q4 := ⟨l1Verts.getD 3 default, l1Verts.getD 2 default, l1Verts.getD 4 default, l1Verts.getD 5 default⟩
def qD : Q4 := ⟨l1Verts.getD 26 default, l1Verts.getD 25 default, l1Verts.getD 27 default, l1Verts.getD 5 default⟩
/-- (4,1,2): a point in general position inside `qA` -/
def pGen : V3 := ⟨⟨0x4010000000000000⟩, f1, f2⟩

example : qA.OK ∧ qB.OK ∧ qC.OK ∧ qD.OK := by decide +kernel

/-- §2 at a point in general position: the four exact determinants are positive, the loop contains the point -/
example : bruteContains exactGeo originPoint (qA.loop originPoint) pGen = true :=
  (cellLoop_contains_iff_det_exact (v0 := qA.v0) (v1 := qA.v1) (v2 := qA.v2) (v3 := qA.v3)
    (by decide +kernel) (by decide +kernel) (by decide +kernel) (by decide +kernel) (by decide +kernel)
    (by decide +kernel) (by decide +kernel) (by decide +kernel) (by decide +kernel)).2 (by decide +kernel)

/-- §2 at degenerate points, not `==` to a vertex: (2,1,0) lies exactly ON the great circle z = 0 of the edge
    `qA.v0 qA.v1` = `qB.v3 qB.v2` shared by `qA` and `qB` (exact determinant 0, the symbolic perturbation decides);
    (1,1,0) is even a positive multiple of the common vertex (1,1,0)/√2 (two determinants vanish).  The lemma
    applies, and the perturbation gives each point to exactly one of the two cells. -/
example : detSign qA.v0 qA.v1 eX2Y = 0 ∧ detSign qA.v0 qA.v1 eXY = 0 ∧ detSign qA.v1 qA.v2 eXY = 0 ∧
    V3.feq qA.v1 eXY = false ∧
    (qA.inner eX2Y != qB.inner eX2Y) = true ∧ (qA.inner eXY != qB.inner eXY) = true := by decide +kernel

example : bruteContains exactGeo originPoint (qA.loop originPoint) eX2Y = qA.inner eX2Y :=
  cellLoop_contains_eq_inner_exact (v0 := qA.v0) (v1 := qA.v1) (v2 := qA.v2) (v3 := qA.v3)
    (by decide +kernel) (by decide +kernel) (by decide +kernel) (by decide +kernel) (by decide +kernel)
    (by decide +kernel) (by decide +kernel) (by decide +kernel) (by decide +kernel)

/-- §3: `qA`, `qB` are separated by their common edge; the hypotheses of `inner_side_exact` hold with
    `u v` = that edge reversed, `w` = `qA`, `p` = (4,1,2) -/
example : sepByB qA.v0 qA.v1 qA qB = true ∧ edgeSep qA qB = true ∧ qA.inner pGen = true := by decide +kernel

example : exactDecision qA.v1 qA.v0 pGen ≠ 1 :=
  inner_side_exact (w0 := qA.v0) (w1 := qA.v1) (w2 := qA.v2) (w3 := qA.v3) (by decide +kernel)
    (by decide +kernel) (by decide +kernel) (by decide +kernel) (by decide +kernel) (by decide +kernel)
    (by decide +kernel) (by decide +kernel) (by decide +kernel) (by decide +kernel) (by decide +kernel)
    (by decide +kernel) (by decide +kernel) (by decide +kernel)

example : ¬ (qA.inner eX2Y = true ∧ qB.inner eX2Y = true) :=
  edgeSep_disjoint_exact (by decide +kernel) (by decide +kernel) (by decide +kernel) (by decide +kernel)
    (by decide +kernel) (by decide +kernel)

/-- a shared edge whose endpoints are only `==` (±0 twins): `qC` has the edge (v3,v0) = (`l1Verts[5]`,`l1Verts[3]`),
    `qD` has (v2,v3) = (`l1Verts[27]`,`l1Verts[5]`) -/
example : l1Verts.getD 3 default ≠ l1Verts.getD 27 default ∧
    ¬ (qC.inner eX2Y = true ∧ qD.inner eX2Y = true) :=
  ⟨by decide +kernel,
   shared_edge_disjoint_exact (a := qC.v3) (b := qC.v0) (a' := qD.v3) (b' := qD.v2) (by decide +kernel)
    (by decide +kernel) (by decide +kernel) (by simp [Q4.edges]) (by simp [Q4.edges]) (by decide +kernel)
    (by decide +kernel)⟩

/-- §4: the input class of the family theorems, for the 24 cells of level 1 and the degenerate point (2,1,0) -/
example : FamilyDom originPoint l1Cells eX2Y := by decide +kernel

/-- §5 at (2,1,0) (on a cell edge), (1,1,0) (a multiple of a vertex shared by four cells, not `==` to it),
    (1,1,1) (a multiple of a cube corner: on three face boundaries at once) and (4,1,2) (general position) -/
example : containCount originPoint l1Loops eX2Y = 1 ∧ containCount originPoint l1Loops eXY = 1 ∧
    containCount originPoint l1Loops eD = 1 ∧ containCount originPoint l1Loops pGen = 1 :=
  ⟨level1_cells_exactly_once_exact (by decide +kernel) (by decide +kernel),
   level1_cells_exactly_once_exact (by decide +kernel) (by decide +kernel),
   level1_cells_exactly_once_exact (by decide +kernel) (by decide +kernel),
   level1_cells_exactly_once_exact (by decide +kernel) (by decide +kernel)⟩

/-- `level1_cells_tile_exact` at the face centre (1,-0,-0): a ±0 twin of the vertex `l1Verts[2]` = (1,0,0) shared
    by four cells, with a bit pattern that no cell has -/
example : (l1Verts.all fun x => decide (x ≠ eXm)) = true ∧ V3.feq (l1Verts.getD 2 default) eXm = true ∧
    (l1Loops.filter fun L => bruteContains exactGeo originPoint L eXm).length = 1 :=
  ⟨by decide +kernel, by decide +kernel, level1_cells_tile_exact (by decide +kernel) (by decide +kernel)⟩

example : containCount originPoint faceLoops eD = 1 ∧ containCount originPoint faceLoops eX2Y = 1 :=
  ⟨six_faces_exactly_once_exact (by decide +kernel) (by decide +kernel),
   six_faces_exactly_once_exact (by decide +kernel) (by decide +kernel)⟩

end S2Proofs.C04
