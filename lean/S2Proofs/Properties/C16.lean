/-
  Property C16 — the intersection point of two crossing edges is accurate and order-independent.

  Objects: `S2.EdgeNum` (line-by-line model of s2/edge_crossings.go AFTER the repairs F1–F4 and D50: `compareEdges`,
  `canonicalEdges` (= `canonArgs`), `intersectionStable`, `intersectionStableSorted` with the `Norm2 < DBL_MIN` guard, `projection`,
  `intersectionExact` incl. the big.Float signed zero, the power-of-two scaling in `PreciseVector.Vector()` and the
  lexicographic-minimum collinear rule, `Intersection` with the canonical argument order at its entry and the zero canonicalisation
  at its exit; `intersectionOld` = `Intersection` before repair D50), tied to the Go code by the oracle (op `isect`: bit-exact on
  all 8 argument permutations, the stable and the exact kernel separately).

  PROVED (all inputs, explicit decidable hypotheses):
   (1) `compareEdges` on finite points is the comparison of the exact vectors          compareEdges_eq_I
       invariant under reversing either edge                                              compareEdges(I)_reverse_left/right
       compares the lexicographically smaller endpoints                                   compareEdgesI_iff
       asymmetric, total, transitive on edges with DIFFERENT smaller endpoints             compareEdgesI_asymm_total, compareEdgesI_trans
       NOT a strict order on all edges (same smaller endpoint: true both ways; remark)     compareEdges_not_asymmetric
   (2) the tuple produced by the edge sorting (`stableArgs`: longer edge first, `compareEdges` tie-break) does not depend on the
       order of the two edges; reversing an edge only reverses it inside the tuple
                                                     aFirst_swap, stableArgs_swap(_fin), aFirst_reverse_a/b, stableArgs_reverse_a/b
   (3) PRE-REPAIR CODE (before D50; regression witnesses, continued in C16_Sym.lean): ORDER INDEPENDENCE = BIT IDENTITY of the
       selection logic of the old `Intersection` (`selection`: stable kernel on `stableArgs`, exact kernel and vertex sum on the
       caller's order): for kernels that are sign-symmetric UP TO THE SIGN OF ZERO COORDINATES (`KernelSym`, stated with `ZEq`) all
       8 argument permutations give the SAME BITS on every `GoodInput`
                                              select_aux, selection_reverse_a/b, selection_swap, selection_order_independent
       the old `Intersection` of the model is this selection applied to the modelled kernels   intersectionOld_is_selection
       THE REPAIRED CODE needs none of this: S2Proofs.Properties.C16_Canonical proves `BitIdentityClaim` (below) in full.
   (4) the collinear rule (repair F3) returns the minimum of the qualifying endpoints and is invariant under every
       permutation of the candidate list                                                    ofV3_pickStep, ofV3_pickMin, pickMin_perm
  REGRESSION EXAMPLES (`decide +kernel` on the repaired model; the same inputs REFUTED the claims before the repairs):
   F1 NaN/Inf for tiny edges → unit length; F2 endpoint of the long edge → within 8·2^-53; F3 collinear swap → same bits;
   F4 sign of zero → same bits.  (D50: C16_Canonical.lean, `d50_repaired` / `d50_old_order_dependent`.)
  KNOWN, NOT REPAIRED: F5 (both edges nearly antipodal: the antipode is returned)          accuracyClaim_false
  STATED HERE: `BitIdentityClaim` (PROVED in C16_Canonical.lean: `bitIdentityClaim`), `GoEqualityClaim` (there: `goEquality_of_fin`,
   for NaN-free results), `BitIdentityClaimOld` / `GoEqualityClaimOld` (the pre-repair code; REFUTED in C16_Sym.lean);
  PARTIAL (stated as `def … : Prop`, judged by the oracle with exact rational arithmetic, not proved): `UnitLengthClaim`, `AccuracyClaim`.
-/
import Mathlib.Order.Defs.LinearOrder
import Mathlib.Order.Lattice
import Mathlib.Order.MinMax
import Mathlib.Data.List.Perm.Basic
import S2Proofs.PredLemmas
import S2Proofs.F64Order
import S2Proofs.F64Sym
import S2.EdgeNum
import S2.IA

namespace S2Proofs.C16
open S2 S2.Exact S2.EdgeNum S2Proofs.F64Order S2Proofs.PredLemmas

/-! ## (1) compareEdges -/

/-- lexicographic order on exact vectors as a `LinearOrder` -/
instance : LinearOrder IV3 where
  le u v := IV3.cmp u v ≤ 0
  lt u v := IV3.cmp u v = -1
  le_refl u := by
    show IV3.cmp u u ≤ 0
    have := (cmp_eq_zero_iff u u).mpr rfl; omega
  le_trans u v w := by
    show IV3.cmp u v ≤ 0 → IV3.cmp v w ≤ 0 → IV3.cmp u w ≤ 0
    intro h1 h2
    rcases cmp_values u v with h | h | h <;> rcases cmp_values v w with h' | h' | h' <;>
      rcases cmp_values u w with h'' | h'' | h'' <;> try omega
    all_goals
      first
      | (rw [cmp_eq_neg_one_iff] at h h'; rw [cmp_eq_one_iff] at h''; omega)
      | (rw [cmp_eq_neg_one_iff] at h; rw [cmp_eq_zero_iff] at h'; rw [cmp_eq_one_iff] at h''; subst h'; omega)
      | (rw [cmp_eq_zero_iff] at h; rw [cmp_eq_neg_one_iff] at h'; rw [cmp_eq_one_iff] at h''; subst h; omega)
      | (rw [cmp_eq_zero_iff] at h h'; rw [cmp_eq_one_iff] at h''; subst h; subst h'; omega)
  lt_iff_le_not_ge u v := by
    show IV3.cmp u v = -1 ↔ IV3.cmp u v ≤ 0 ∧ ¬ IV3.cmp v u ≤ 0
    rw [cmp_antisymm u v]
    rcases cmp_values u v with h | h | h <;> omega
  le_antisymm u v := by
    show IV3.cmp u v ≤ 0 → IV3.cmp v u ≤ 0 → u = v
    intro h1 h2
    rw [cmp_antisymm u v] at h2
    exact (cmp_eq_zero_iff u v).mp (by omega)
  le_total u v := by
    show IV3.cmp u v ≤ 0 ∨ IV3.cmp v u ≤ 0
    rw [cmp_antisymm u v]
    rcases cmp_values u v with h | h | h <;> omega
  toDecidableLE := fun u v => inferInstanceAs (Decidable (IV3.cmp u v ≤ 0))
  toDecidableLT := fun u v => inferInstanceAs (Decidable (IV3.cmp u v = -1))
  toDecidableEq := inferInstance

theorem lt_def (u v : IV3) : u < v ↔ IV3.cmp u v = -1 := Iff.rfl

/-- `compareEdges` on exact vectors -/
def compareEdgesI (a0 a1 b0 b1 : IV3) : Bool :=
  decide (min a0 a1 < min b0 b1) || (decide (min a0 a1 = min b0 b1) && decide (min b0 b1 < max b0 b1))

theorem sortEdge_fst {a0 a1 : V3} (h0 : Fin3 a0) (h1 : Fin3 a1) :
    ofV3 (sortEdge a0 a1).1 = min (ofV3 a0) (ofV3 a1) := by
  unfold sortEdge vlt
  rw [v3cmp_eq h0 h1]
  by_cases h : IV3.cmp (ofV3 a0) (ofV3 a1) = -1
  · have hlt : ofV3 a0 < ofV3 a1 := h
    simp [h, min_eq_left hlt.le]
  · have hge : ofV3 a1 ≤ ofV3 a0 := not_lt.mp h
    simp [h, min_eq_right hge]

theorem sortEdge_snd {a0 a1 : V3} (h0 : Fin3 a0) (h1 : Fin3 a1) :
    ofV3 (sortEdge a0 a1).2 = max (ofV3 a0) (ofV3 a1) := by
  unfold sortEdge vlt
  rw [v3cmp_eq h0 h1]
  by_cases h : IV3.cmp (ofV3 a0) (ofV3 a1) = -1
  · have hlt : ofV3 a0 < ofV3 a1 := h
    simp [h, max_eq_right hlt.le]
  · have hge : ofV3 a1 ≤ ofV3 a0 := not_lt.mp h
    simp [h, max_eq_left hge]

theorem sortEdge_fin {a0 a1 : V3} (h0 : Fin3 a0) (h1 : Fin3 a1) :
    Fin3 (sortEdge a0 a1).1 ∧ Fin3 (sortEdge a0 a1).2 := by
  unfold sortEdge; split <;> simp [h0, h1]

/-- On finite points the float `compareEdges` is the comparison of the exact vectors. -/
theorem compareEdges_eq_I (a0 a1 b0 b1 : V3) (ha0 : Fin3 a0) (ha1 : Fin3 a1) (hb0 : Fin3 b0) (hb1 : Fin3 b1) :
    compareEdges a0 a1 b0 b1 = compareEdgesI (ofV3 a0) (ofV3 a1) (ofV3 b0) (ofV3 b1) := by
  obtain ⟨fa1, _fa2⟩ := sortEdge_fin ha0 ha1
  obtain ⟨fb1, fb2⟩ := sortEdge_fin hb0 hb1
  unfold compareEdges compareEdgesI vlt
  dsimp only
  rw [v3cmp_eq fa1 fb1, v3cmp_eq fb1 fb2, sortEdge_fst ha0 ha1, sortEdge_fst hb0 hb1, sortEdge_snd hb0 hb1]
  have hfeq : V3.feq (sortEdge a0 a1).1 (sortEdge b0 b1).1 =
      decide (min (ofV3 a0) (ofV3 a1) = min (ofV3 b0) (ofV3 b1)) := by
    rw [← sortEdge_fst ha0 ha1, ← sortEdge_fst hb0 hb1]
    by_cases h : ofV3 (sortEdge a0 a1).1 = ofV3 (sortEdge b0 b1).1
    · simp [h, (v3feq_iff fa1 fb1).mpr h]
    · have : V3.feq (sortEdge a0 a1).1 (sortEdge b0 b1).1 = false := by
        cases hh : V3.feq (sortEdge a0 a1).1 (sortEdge b0 b1).1
        · rfl
        · exact absurd ((v3feq_iff fa1 fb1).mp hh) h
      simp [h, this]
  rw [hfeq]
  rfl

example : Fin3 ⟨F64.one, F64.zero false, F64.zero true⟩ := by decide +kernel

/-- `compareEdges` compares the smaller endpoints; equal smaller endpoints: true iff the SECOND edge is non-degenerate. -/
theorem compareEdgesI_iff (a0 a1 b0 b1 : IV3) :
    compareEdgesI a0 a1 b0 b1 = true ↔
      (min a0 a1 < min b0 b1 ∨ (min a0 a1 = min b0 b1 ∧ b0 ≠ b1)) := by
  unfold compareEdgesI
  simp only [Bool.or_eq_true, Bool.and_eq_true, decide_eq_true_eq, min_lt_max]

/-- invariant under reversing the first edge -/
theorem compareEdgesI_reverse_left (a0 a1 b0 b1 : IV3) :
    compareEdgesI a1 a0 b0 b1 = compareEdgesI a0 a1 b0 b1 := by
  unfold compareEdgesI; rw [min_comm a1 a0]

/-- invariant under reversing the second edge -/
theorem compareEdgesI_reverse_right (a0 a1 b0 b1 : IV3) :
    compareEdgesI a0 a1 b1 b0 = compareEdgesI a0 a1 b0 b1 := by
  unfold compareEdgesI; rw [min_comm b1 b0, max_comm b1 b0]

/-- float level: reversing the first edge (finite points) -/
theorem compareEdges_reverse_left (a0 a1 b0 b1 : V3) (ha0 : Fin3 a0) (ha1 : Fin3 a1) (hb0 : Fin3 b0) (hb1 : Fin3 b1) :
    compareEdges a1 a0 b0 b1 = compareEdges a0 a1 b0 b1 := by
  rw [compareEdges_eq_I _ _ _ _ ha1 ha0 hb0 hb1, compareEdges_eq_I _ _ _ _ ha0 ha1 hb0 hb1,
    compareEdgesI_reverse_left]

/-- float level: reversing the second edge (finite points) -/
theorem compareEdges_reverse_right (a0 a1 b0 b1 : V3) (ha0 : Fin3 a0) (ha1 : Fin3 a1) (hb0 : Fin3 b0) (hb1 : Fin3 b1) :
    compareEdges a0 a1 b1 b0 = compareEdges a0 a1 b0 b1 := by
  rw [compareEdges_eq_I _ _ _ _ ha0 ha1 hb1 hb0, compareEdges_eq_I _ _ _ _ ha0 ha1 hb0 hb1,
    compareEdgesI_reverse_right]

/-- On edges whose smaller endpoints differ the order is asymmetric and total:
    exactly one of (a < b), (b < a) holds. -/
theorem compareEdgesI_asymm_total (a0 a1 b0 b1 : IV3) (h : min a0 a1 ≠ min b0 b1) :
    compareEdgesI b0 b1 a0 a1 = !compareEdgesI a0 a1 b0 b1 := by
  have h' : min b0 b1 ≠ min a0 a1 := fun e => h e.symm
  unfold compareEdgesI
  rcases lt_or_gt_of_ne h with hl | hl
  · have : ¬ (min b0 b1 < min a0 a1) := not_lt.mpr hl.le
    simp [hl, this, h, h']
  · have : ¬ (min a0 a1 < min b0 b1) := not_lt.mpr hl.le
    simp [hl, this, h, h']

/-- transitivity (edges with pairwise different smaller endpoints) -/
theorem compareEdgesI_trans (a0 a1 b0 b1 c0 c1 : IV3) (hab : min a0 a1 ≠ min b0 b1) (hbc : min b0 b1 ≠ min c0 c1)
    (h1 : compareEdgesI a0 a1 b0 b1 = true) (h2 : compareEdgesI b0 b1 c0 c1 = true) :
    compareEdgesI a0 a1 c0 c1 = true := by
  rw [compareEdgesI_iff] at *
  rcases h1 with h1 | ⟨e, _⟩
  · rcases h2 with h2 | ⟨e, _⟩
    · exact Or.inl (lt_trans h1 h2)
    · exact absurd e hbc
  · exact absurd e hab

example : min (⟨0, 0, 1⟩ : IV3) ⟨0, 1, 0⟩ ≠ min (⟨1, 0, 0⟩ : IV3) ⟨0, 0, 2⟩ := by decide

/-- `compareEdges` is NOT asymmetric on all edges: two non-degenerate edges with the same smaller
    endpoint are "less" than each other in both directions (the last conjunct tests `b0 < b1`, not
    `a1 < b1`).  Crossing edges never share an endpoint, so `Intersection` is not affected. -/
theorem compareEdges_not_asymmetric :
    ∃ a0 a1 b0 b1 : IV3, compareEdgesI a0 a1 b0 b1 = true ∧ compareEdgesI b0 b1 a0 a1 = true :=
  ⟨⟨0, 0, 0⟩, ⟨1, 0, 0⟩, ⟨0, 0, 0⟩, ⟨0, 1, 0⟩, by decide, by decide⟩

/-! ## (2) the tuple handed to the numeric kernel -/

/-- is the first edge kept first by `intersectionStable` (negation of its swap condition)? -/
def aFirst (a0 a1 b0 b1 : V3) : Bool :=
  !(F64.lt (a1.sub a0).norm2 (b1.sub b0).norm2 ||
    (F64.feq (a1.sub a0).norm2 (b1.sub b0).norm2 && compareEdges a0 a1 b0 b1))

theorem stableArgs_eq (a0 a1 b0 b1 : V3) :
    stableArgs a0 a1 b0 b1 = if aFirst a0 a1 b0 b1 then (a0, a1, b0, b1) else (b0, b1, a0, a1) := by
  unfold stableArgs aFirst
  dsimp only
  cases h : (F64.lt (a1.sub a0).norm2 (b1.sub b0).norm2 ||
    (F64.feq (a1.sub a0).norm2 (b1.sub b0).norm2 && compareEdges a0 a1 b0 b1)) <;> simp

/-- Swapping the two edges flips "first edge kept first" — so the kernel sees the SAME tuple —
    provided the two squared lengths are finite and, when they are equal, `compareEdges` orders the
    edges one way only. -/
theorem aFirst_swap (a0 a1 b0 b1 : V3)
    (hA : Fin (a1.sub a0).norm2) (hB : Fin (b1.sub b0).norm2)
    (htie : F64.feq (a1.sub a0).norm2 (b1.sub b0).norm2 = true →
      compareEdges b0 b1 a0 a1 = !compareEdges a0 a1 b0 b1) :
    aFirst b0 b1 a0 a1 = !aFirst a0 a1 b0 b1 := by
  unfold aFirst
  generalize (a1.sub a0).norm2 = x at *
  generalize (b1.sub b0).norm2 = y at *
  have hlt1 := lt_iff hA hB
  have hlt2 := lt_iff hB hA
  have heq1 := feq_iff hA hB
  have heq2 := feq_iff hB hA
  rcases lt_trichotomy (toInt x) (toInt y) with h | h | h
  · have e1 : F64.lt x y = true := hlt1.mpr h
    have e2 : F64.lt y x = false := by
      cases hh : F64.lt y x
      · rfl
      · have := hlt2.mp hh; omega
    have e3 : F64.feq y x = false := by
      cases hh : F64.feq y x
      · rfl
      · have := heq2.mp hh; omega
    simp [e1, e2, e3]
  · have e1 : F64.lt x y = false := by
      cases hh : F64.lt x y
      · rfl
      · have := hlt1.mp hh; omega
    have e2 : F64.lt y x = false := by
      cases hh : F64.lt y x
      · rfl
      · have := hlt2.mp hh; omega
    have e3 : F64.feq x y = true := heq1.mpr h
    have e4 : F64.feq y x = true := heq2.mpr h.symm
    have ht := htie e3
    cases hc : compareEdges a0 a1 b0 b1 <;> simp [e1, e2, e3, e4, ht, hc]
  · have e1 : F64.lt x y = false := by
      cases hh : F64.lt x y
      · rfl
      · have := hlt1.mp hh; omega
    have e2 : F64.lt y x = true := hlt2.mpr h
    have e3 : F64.feq x y = false := by
      cases hh : F64.feq x y
      · rfl
      · have := heq1.mp hh; omega
    simp [e1, e2, e3]

/-- hence the tuple is the same for both orders of the edges -/
theorem stableArgs_swap (a0 a1 b0 b1 : V3)
    (hA : Fin (a1.sub a0).norm2) (hB : Fin (b1.sub b0).norm2)
    (htie : F64.feq (a1.sub a0).norm2 (b1.sub b0).norm2 = true →
      compareEdges b0 b1 a0 a1 = !compareEdges a0 a1 b0 b1) :
    stableArgs b0 b1 a0 a1 = stableArgs a0 a1 b0 b1 := by
  rw [stableArgs_eq, stableArgs_eq, aFirst_swap a0 a1 b0 b1 hA hB htie]
  cases aFirst a0 a1 b0 b1 <;> simp

/-- the tie hypothesis discharged: finite points whose smaller endpoints differ (crossing edges share
    no endpoint) -/
theorem stableArgs_swap_fin (a0 a1 b0 b1 : V3) (ha0 : Fin3 a0) (ha1 : Fin3 a1) (hb0 : Fin3 b0) (hb1 : Fin3 b1)
    (hA : Fin (a1.sub a0).norm2) (hB : Fin (b1.sub b0).norm2)
    (hne : min (ofV3 a0) (ofV3 a1) ≠ min (ofV3 b0) (ofV3 b1)) :
    stableArgs b0 b1 a0 a1 = stableArgs a0 a1 b0 b1 := by
  apply stableArgs_swap _ _ _ _ hA hB
  intro _
  rw [compareEdges_eq_I _ _ _ _ hb0 hb1 ha0 ha1, compareEdges_eq_I _ _ _ _ ha0 ha1 hb0 hb1]
  exact compareEdgesI_asymm_total _ _ _ _ hne

example : Fin ((V3.mk F64.one (F64.zero false) (F64.zero false)).sub ⟨F64.zero false, F64.one, F64.zero false⟩).norm2 := by
  decide +kernel

/-- Reversing the first edge does not change which edge goes first.  `hlen` (the squared length does
    not depend on the direction of the difference) is a fact of IEEE arithmetic, `(x−y)² = (y−x)²` bit
    for bit; it is decidable and checked by the `example` below. -/
theorem aFirst_reverse_a (a0 a1 b0 b1 : V3) (ha0 : Fin3 a0) (ha1 : Fin3 a1) (hb0 : Fin3 b0) (hb1 : Fin3 b1)
    (hlen : (a0.sub a1).norm2 = (a1.sub a0).norm2) :
    aFirst a1 a0 b0 b1 = aFirst a0 a1 b0 b1 := by
  unfold aFirst
  rw [hlen, compareEdges_reverse_left a0 a1 b0 b1 ha0 ha1 hb0 hb1]

theorem aFirst_reverse_b (a0 a1 b0 b1 : V3) (ha0 : Fin3 a0) (ha1 : Fin3 a1) (hb0 : Fin3 b0) (hb1 : Fin3 b1)
    (hlen : (b0.sub b1).norm2 = (b1.sub b0).norm2) :
    aFirst a0 a1 b1 b0 = aFirst a0 a1 b0 b1 := by
  unfold aFirst
  rw [hlen, compareEdges_reverse_right a0 a1 b0 b1 ha0 ha1 hb0 hb1]

example : ((V3.mk F64.one (F64.zero false) F64.half).sub ⟨F64.half, F64.one, F64.zero false⟩).norm2 =
    ((V3.mk F64.half F64.one (F64.zero false)).sub ⟨F64.one, F64.zero false, F64.half⟩).norm2 := by decide +kernel

/-- reversing the first edge only reverses it inside the tuple -/
theorem stableArgs_reverse_a (a0 a1 b0 b1 : V3) (ha0 : Fin3 a0) (ha1 : Fin3 a1) (hb0 : Fin3 b0) (hb1 : Fin3 b1)
    (hlen : (a0.sub a1).norm2 = (a1.sub a0).norm2) :
    stableArgs a1 a0 b0 b1 = if aFirst a0 a1 b0 b1 then (a1, a0, b0, b1) else (b0, b1, a1, a0) := by
  rw [stableArgs_eq, aFirst_reverse_a a0 a1 b0 b1 ha0 ha1 hb0 hb1 hlen]

theorem stableArgs_reverse_b (a0 a1 b0 b1 : V3) (ha0 : Fin3 a0) (ha1 : Fin3 a1) (hb0 : Fin3 b0) (hb1 : Fin3 b1)
    (hlen : (b0.sub b1).norm2 = (b1.sub b0).norm2) :
    stableArgs a0 a1 b1 b0 = if aFirst a0 a1 b0 b1 then (a0, a1, b1, b0) else (b1, b0, a0, a1) := by
  rw [stableArgs_eq, aFirst_reverse_b a0 a1 b0 b1 ha0 ha1 hb0 hb1 hlen]

/-! ## (3) order independence of the selection logic -/

/-- `Intersection` AS IT WAS BEFORE REPAIR D50 (the stable kernel on `stableArgs`, the exact kernel and the vertex sum on the
    caller's order) with the two numeric kernels and the hemisphere correction as parameters; the exit
    `canonZero` (`pt.Add(r3.Vector{})`: every −0 coordinate becomes +0) is part of the selection logic.  The repaired
    `Intersection` hands ONE canonical tuple to everything and needs no `KernelSym`: S2Proofs.Properties.C16_Canonical. -/
def selection (K : V3 → V3 → V3 → V3 → Option V3) (E : V3 → V3 → V3 → V3 → V3) (sc : V3 → V3 → V3)
    (a0 a1 b0 b1 : V3) : V3 :=
  let t := stableArgs a0 a1 b0 b1
  let pt := (K t.1 t.2.1 t.2.2.1 t.2.2.2).getD (E a0 a1 b0 b1)
  canonZero (sc pt (sum4 a0 a1 b0 b1))

/-- the PRE-REPAIR (D50) `Intersection` of the model is this selection logic applied to the modelled kernels -/
theorem intersectionOld_is_selection (a0 a1 b0 b1 : V3) :
    intersectionOld a0 a1 b0 b1 = selection intersectionStableSorted intersectionExact signCorrect a0 a1 b0 b1 := by
  unfold intersectionOld intersectionGOld intersectionStableGOld selection
  dsimp only
  cases intersectionStableSorted (stableArgs a0 a1 b0 b1).1 (stableArgs a0 a1 b0 b1).2.1 (stableArgs a0 a1 b0 b1).2.2.1
    (stableArgs a0 a1 b0 b1).2.2.2 <;> rfl

/-- equal up to the sign of zero coordinates (= equal after the exit canonicalisation) -/
def ZEq (p q : V3) : Prop := canonZero p = canonZero q

/-- the same for the optional result of the stable kernel -/
def ZEqO : Option V3 → Option V3 → Prop
  | none, none => True
  | some p, some q => ZEq p q
  | _, _ => False

/-- What order independence needs from the numeric parts: reversing an edge or swapping the edges
    NEGATES the raw point (`nneg`) UP TO THE SIGN OF ZERO COORDINATES, and the hemisphere correction
    does not see the negation nor the sign of zeros.  (IEEE arithmetic is sign-symmetric except for
    the sign of exact zeros — `x − x = +0` in both directions — which is why the repaired code
    canonicalises zeros at its single exit.) -/
structure KernelSym (K : V3 → V3 → V3 → V3 → Option V3) (E : V3 → V3 → V3 → V3 → V3) (sc : V3 → V3 → V3)
    (nneg : V3 → V3) : Prop where
  k_revA : ∀ a0 a1 b0 b1, ZEqO (K a1 a0 b0 b1) ((K a0 a1 b0 b1).map nneg)
  k_revB : ∀ a0 a1 b0 b1, ZEqO (K a0 a1 b1 b0) ((K a0 a1 b0 b1).map nneg)
  e_revA : ∀ a0 a1 b0 b1, ZEq (E a1 a0 b0 b1) (nneg (E a0 a1 b0 b1))
  e_revB : ∀ a0 a1 b0 b1, ZEq (E a0 a1 b1 b0) (nneg (E a0 a1 b0 b1))
  e_swap : ∀ a0 a1 b0 b1, ZEq (E b0 b1 a0 a1) (nneg (E a0 a1 b0 b1))
  sc_neg : ∀ p s, ZEq (sc (nneg p) s) (sc p s)
  sc_congr : ∀ p q s, ZEq p q → ZEq (sc p s) (sc q s)

/-- the facts about one input on which the edge sorting relies; all decidable: finite points, finite
    squared lengths, finite vertex sums, and different smaller endpoints (crossing edges share no endpoint) -/
structure GoodInput (a0 a1 b0 b1 : V3) : Prop where
  fa0 : Fin3 a0
  fa1 : Fin3 a1
  fb0 : Fin3 b0
  fb1 : Fin3 b1
  finA : Fin (a1.sub a0).norm2
  finB : Fin (b1.sub b0).norm2
  fsA : Fin3 (a0.add a1)
  fsB : Fin3 (b0.add b1)
  mins : min (ofV3 a0) (ofV3 a1) ≠ min (ofV3 b0) (ofV3 b1)

instance (a0 a1 b0 b1 : V3) : Decidable (GoodInput a0 a1 b0 b1) :=
  decidable_of_iff (Fin3 a0 ∧ Fin3 a1 ∧ Fin3 b0 ∧ Fin3 b1 ∧ Fin (a1.sub a0).norm2 ∧ Fin (b1.sub b0).norm2 ∧
      Fin3 (a0.add a1) ∧ Fin3 (b0.add b1) ∧ min (ofV3 a0) (ofV3 a1) ≠ min (ofV3 b0) (ofV3 b1))
    ⟨fun ⟨h1, h2, h3, h4, h5, h6, h7, h8, h9⟩ => ⟨h1, h2, h3, h4, h5, h6, h7, h8, h9⟩,
     fun h => ⟨h.fa0, h.fa1, h.fb0, h.fb1, h.finA, h.finB, h.fsA, h.fsB, h.mins⟩⟩

/-- IEEE: `(x−y)² = (y−x)²` bit for bit (S2Proofs.F64Sym) -/
theorem GoodInput.lenA {a0 a1 b0 b1 : V3} (G : GoodInput a0 a1 b0 b1) : (a0.sub a1).norm2 = (a1.sub a0).norm2 :=
  S2Proofs.F64Sym.norm2_sub_swap G.fa1 G.fa0
theorem GoodInput.lenB {a0 a1 b0 b1 : V3} (G : GoodInput a0 a1 b0 b1) : (b0.sub b1).norm2 = (b1.sub b0).norm2 :=
  S2Proofs.F64Sym.norm2_sub_swap G.fb1 G.fb0
/-- IEEE: `x + y = y + x` bit for bit -/
theorem GoodInput.sumA {a0 a1 b0 b1 : V3} (G : GoodInput a0 a1 b0 b1) : a1.add a0 = a0.add a1 :=
  S2Proofs.F64Sym.v3add_comm G.fa1 G.fa0
theorem GoodInput.sumB {a0 a1 b0 b1 : V3} (G : GoodInput a0 a1 b0 b1) : b1.add b0 = b0.add b1 :=
  S2Proofs.F64Sym.v3add_comm G.fb1 G.fb0
theorem GoodInput.sumS {a0 a1 b0 b1 : V3} (G : GoodInput a0 a1 b0 b1) :
    (b0.add b1).add (a0.add a1) = (a0.add a1).add (b0.add b1) := S2Proofs.F64Sym.v3add_comm G.fsB G.fsA
/-- good inputs are closed under the three generating permutations -/
theorem GoodInput.revA {a0 a1 b0 b1 : V3} (G : GoodInput a0 a1 b0 b1) : GoodInput a1 a0 b0 b1 :=
  ⟨G.fa1, G.fa0, G.fb0, G.fb1, by rw [G.lenA]; exact G.finA, G.finB, by rw [G.sumA]; exact G.fsA, G.fsB,
    by rw [min_comm]; exact G.mins⟩
theorem GoodInput.revB {a0 a1 b0 b1 : V3} (G : GoodInput a0 a1 b0 b1) : GoodInput a0 a1 b1 b0 :=
  ⟨G.fa0, G.fa1, G.fb1, G.fb0, G.finA, by rw [G.lenB]; exact G.finB, G.fsA, by rw [G.sumB]; exact G.fsB,
    by rw [min_comm (ofV3 b1)]; exact G.mins⟩
theorem GoodInput.swap {a0 a1 b0 b1 : V3} (G : GoodInput a0 a1 b0 b1) : GoodInput b0 b1 a0 a1 :=
  ⟨G.fb0, G.fb1, G.fa0, G.fa1, G.finB, G.finA, G.fsB, G.fsA, fun e => G.mins e.symm⟩

section
variable {K : V3 → V3 → V3 → V3 → Option V3} {E : V3 → V3 → V3 → V3 → V3} {sc : V3 → V3 → V3} {nneg : V3 → V3}

/-- the core step: results related by "negated up to zero signs" are identified by the exit -/
theorem select_aux (H : KernelSym K E sc nneg) {o o' : Option V3} {e e' : V3} (s : V3)
    (ho : ZEqO o' (o.map nneg)) (he : ZEq e' (nneg e)) :
    canonZero (sc (o'.getD e') s) = canonZero (sc (o.getD e) s) := by
  cases o with
  | none =>
    cases o' with
    | none => exact (H.sc_congr _ _ s he).trans (H.sc_neg e s)
    | some p' => exact absurd ho (by simp [ZEqO])
  | some p =>
    cases o' with
    | none => exact absurd ho (by simp [ZEqO])
    | some p' =>
      have hp : ZEq p' (nneg p) := ho
      exact (H.sc_congr _ _ s hp).trans (H.sc_neg p s)

/-- the same when the stable kernel sees the same tuple (edge swap): only the exact fallback is negated -/
theorem select_aux_swap (H : KernelSym K E sc nneg) (o : Option V3) {e e' : V3} (s : V3) (he : ZEq e' (nneg e)) :
    canonZero (sc (o.getD e') s) = canonZero (sc (o.getD e) s) := by
  cases o with
  | none => exact (H.sc_congr _ _ s he).trans (H.sc_neg e s)
  | some p => rfl

/-- reversing the first edge does not change the result -/
theorem selection_reverse_a (H : KernelSym K E sc nneg) {a0 a1 b0 b1 : V3} (G : GoodInput a0 a1 b0 b1) :
    selection K E sc a1 a0 b0 b1 = selection K E sc a0 a1 b0 b1 := by
  unfold selection
  dsimp only
  have hs : sum4 a1 a0 b0 b1 = sum4 a0 a1 b0 b1 := by unfold sum4; rw [G.sumA]
  rw [hs, stableArgs_reverse_a a0 a1 b0 b1 G.fa0 G.fa1 G.fb0 G.fb1 G.lenA, stableArgs_eq a0 a1 b0 b1]
  cases aFirst a0 a1 b0 b1
  · simp only [Bool.false_eq_true, if_false]
    exact select_aux H (o := K b0 b1 a0 a1) (o' := K b0 b1 a1 a0) (e := E a0 a1 b0 b1) (e' := E a1 a0 b0 b1)
      (sum4 a0 a1 b0 b1) (H.k_revB b0 b1 a0 a1) (H.e_revA a0 a1 b0 b1)
  · simp only [if_true]
    exact select_aux H (o := K a0 a1 b0 b1) (o' := K a1 a0 b0 b1) (e := E a0 a1 b0 b1) (e' := E a1 a0 b0 b1)
      (sum4 a0 a1 b0 b1) (H.k_revA a0 a1 b0 b1) (H.e_revA a0 a1 b0 b1)

/-- reversing the second edge does not change the result -/
theorem selection_reverse_b (H : KernelSym K E sc nneg) {a0 a1 b0 b1 : V3} (G : GoodInput a0 a1 b0 b1) :
    selection K E sc a0 a1 b1 b0 = selection K E sc a0 a1 b0 b1 := by
  unfold selection
  dsimp only
  have hs : sum4 a0 a1 b1 b0 = sum4 a0 a1 b0 b1 := by unfold sum4; rw [G.sumB]
  rw [hs, stableArgs_reverse_b a0 a1 b0 b1 G.fa0 G.fa1 G.fb0 G.fb1 G.lenB, stableArgs_eq a0 a1 b0 b1]
  cases aFirst a0 a1 b0 b1
  · simp only [Bool.false_eq_true, if_false]
    exact select_aux H (o := K b0 b1 a0 a1) (o' := K b1 b0 a0 a1) (e := E a0 a1 b0 b1) (e' := E a0 a1 b1 b0)
      (sum4 a0 a1 b0 b1) (H.k_revA b0 b1 a0 a1) (H.e_revB a0 a1 b0 b1)
  · simp only [if_true]
    exact select_aux H (o := K a0 a1 b0 b1) (o' := K a0 a1 b1 b0) (e := E a0 a1 b0 b1) (e' := E a0 a1 b1 b0)
      (sum4 a0 a1 b0 b1) (H.k_revB a0 a1 b0 b1) (H.e_revB a0 a1 b0 b1)

/-- swapping the two edges does not change the result -/
theorem selection_swap (H : KernelSym K E sc nneg) {a0 a1 b0 b1 : V3} (G : GoodInput a0 a1 b0 b1) :
    selection K E sc b0 b1 a0 a1 = selection K E sc a0 a1 b0 b1 := by
  unfold selection
  dsimp only
  have hs : sum4 b0 b1 a0 a1 = sum4 a0 a1 b0 b1 := by unfold sum4; exact G.sumS
  rw [hs, stableArgs_swap_fin a0 a1 b0 b1 G.fa0 G.fa1 G.fb0 G.fb1 G.finA G.finB G.mins]
  exact select_aux_swap H _ (e := E a0 a1 b0 b1) (e' := E b0 b1 a0 a1) (sum4 a0 a1 b0 b1) (H.e_swap a0 a1 b0 b1)

/-- ORDER INDEPENDENCE (BIT IDENTITY) of the selection logic of `Intersection`: on a good input all 8
    argument orders (reverse either edge, swap the edges) give the same bits, for any kernels that are
    sign-symmetric up to the sign of zeros. -/
theorem selection_order_independent (H : KernelSym K E sc nneg) {a0 a1 b0 b1 : V3} (G : GoodInput a0 a1 b0 b1) :
    selection K E sc a1 a0 b0 b1 = selection K E sc a0 a1 b0 b1 ∧
    selection K E sc a0 a1 b1 b0 = selection K E sc a0 a1 b0 b1 ∧
    selection K E sc a1 a0 b1 b0 = selection K E sc a0 a1 b0 b1 ∧
    selection K E sc b0 b1 a0 a1 = selection K E sc a0 a1 b0 b1 ∧
    selection K E sc b0 b1 a1 a0 = selection K E sc a0 a1 b0 b1 ∧
    selection K E sc b1 b0 a0 a1 = selection K E sc a0 a1 b0 b1 ∧
    selection K E sc b1 b0 a1 a0 = selection K E sc a0 a1 b0 b1 := by
  have e1 := selection_reverse_a H G
  have e2 := selection_reverse_b H G
  have e3 := (selection_reverse_a H G.revB).trans e2
  exact ⟨e1, e2, e3, selection_swap H G, (selection_swap H G.revA).trans e1, (selection_swap H G.revB).trans e2,
    (selection_swap H G.revA.revB).trans e3⟩
end

/-- non-vacuity: a kernel pair that is sign-symmetric ONLY up to the sign of zero: `E` returns (+0,+0,1)
    in every order, `nneg` is the float negation, the "correction" maps everything to its canonical form -/
example : KernelSym (fun _ _ _ _ => none) (fun _ _ _ _ => zero3) (fun _ _ => zero3) (fun p => p.mul fNegOne) := by
  have h : canonZero zero3 = canonZero (zero3.mul fNegOne) := by decide +kernel
  exact ⟨fun _ _ _ _ => trivial, fun _ _ _ _ => trivial, fun _ _ _ _ => h, fun _ _ _ _ => h, fun _ _ _ _ => h,
    fun _ _ => rfl, fun _ _ _ _ => rfl⟩

/-- non-vacuity: a concrete good input (two crossing edges near (1,0,0)) -/
example : GoodInput ⟨F64.one, ⟨0xBFB999999999999A⟩, F64.zero false⟩ ⟨F64.one, ⟨0x3FB999999999999A⟩, F64.zero false⟩
    ⟨F64.one, F64.zero false, ⟨0xBFC999999999999A⟩⟩ ⟨F64.one, F64.zero false, ⟨0x3FC999999999999A⟩⟩ := by
  decide +kernel

/-! ## (4) the collinear rule of `intersectionExact` (repair F3) -/

/-- one step of the rule on the exact vectors: a qualifying candidate replaces the current value iff it is smaller -/
theorem ofV3_pickStep {x : V3} {c : V3 × Bool} (hx : Fin3 x) (hc : Fin3 c.1) :
    ofV3 (pickStep x c) = (if c.2 then min (ofV3 x) (ofV3 c.1) else ofV3 x) ∧ Fin3 (pickStep x c) := by
  unfold pickStep vlt
  rw [v3cmp_eq hc hx]
  cases hq : c.2
  · simp [hx]
  · by_cases h : IV3.cmp (ofV3 c.1) (ofV3 x) = -1
    · have hlt : ofV3 c.1 < ofV3 x := h
      simp [h, hc, min_eq_right hlt.le]
    · have hge : ofV3 x ≤ ofV3 c.1 := not_lt.mp h
      simp [h, hx, min_eq_left hge]

/-- The collinear rule returns (the exact vector of) the MINIMUM of the sentinel and all qualifying
    candidates, whatever their order in the list. -/
theorem ofV3_pickMin (big : V3) (l : List (V3 × Bool)) (hb : Fin3 big) (hl : ∀ c ∈ l, Fin3 c.1) :
    ofV3 (pickMin big l) = (l.filter (·.2)).foldl (fun m c => min m (ofV3 c.1)) (ofV3 big) := by
  unfold pickMin
  induction l generalizing big with
  | nil => rfl
  | cons c t ih =>
    have hc : Fin3 c.1 := hl c (List.mem_cons_self ..)
    have ht : ∀ d ∈ t, Fin3 d.1 := fun d hd => hl d (List.mem_cons_of_mem _ hd)
    obtain ⟨e, f⟩ := ofV3_pickStep (x := big) (c := c) hb hc
    rw [List.foldl_cons, ih (pickStep big c) f ht, e]
    cases hq : c.2 <;> simp [List.filter_cons, hq]

instance : RightCommutative (fun (m : IV3) (c : V3 × Bool) => min m (ofV3 c.1)) :=
  ⟨fun m a b => min_right_comm m (ofV3 a.1) (ofV3 b.1)⟩

/-- ORDER INDEPENDENCE of the collinear rule: any permutation of the candidate list gives the same exact
    vector (the same point up to the sign of zero coordinates, which the exit of `Intersection` removes). -/
theorem pickMin_perm (big : V3) {l l' : List (V3 × Bool)} (hp : l.Perm l') (hb : Fin3 big)
    (hl : ∀ c ∈ l, Fin3 c.1) : ofV3 (pickMin big l') = ofV3 (pickMin big l) := by
  have hl' : ∀ c ∈ l', Fin3 c.1 := fun c hc => hl c (hp.mem_iff.mpr hc)
  rw [ofV3_pickMin big l hb hl, ofV3_pickMin big l' hb hl']
  exact ((hp.filter _).foldl_eq _).symm

example : Fin3 (⟨f10, f10, f10⟩ : V3) := by decide +kernel

/-! ## The property as stated (PARTIAL: judged by the oracle, not proved) and regression examples

  The claims are stated over the model (which the oracle ties bit-exactly to the Go code).  Before the
  repairs F1–F4 each of the four claims was REFUTED by a concrete in-contract input (`decide +kernel`);
  the same inputs are kept below as regression examples: the repaired model satisfies the claim on them. -/

/-- `|p| ∈ 1 ± 2·dblEpsilon` (the guarantee of `Normalize`), in exact integer arithmetic -/
def UnitPt (p : V3) : Prop :=
  Fin3 p ∧
  (10 ^ 31 - 4440892098500626 : Int) ^ 2 * (scale : Int) ^ 2 ≤ (ofV3 p).norm2 * 10 ^ 62 ∧
  (ofV3 p).norm2 * 10 ^ 62 ≤ (10 ^ 31 + 4440892098500626 : Int) ^ 2 * (scale : Int) ^ 2

instance (p : V3) : Decidable (UnitPt p) := by unfold UnitPt; infer_instance

/-- what `Intersection` requires of its arguments -/
def InContract (a0 a1 b0 b1 : V3) : Prop :=
  UnitPt a0 ∧ UnitPt a1 ∧ UnitPt b0 ∧ UnitPt b1 ∧ crosses a0 a1 b0 b1 = true

instance (a0 a1 b0 b1 : V3) : Decidable (InContract a0 a1 b0 b1) := by unfold InContract; infer_instance

/-- C16 "bit-identical under reversing either edge or swapping the two edges" -/
def BitIdentityClaim : Prop := ∀ a0 a1 b0 b1, InContract a0 a1 b0 b1 →
  intersection a1 a0 b0 b1 = intersection a0 a1 b0 b1 ∧ intersection a0 a1 b1 b0 = intersection a0 a1 b0 b1 ∧
  intersection b0 b1 a0 a1 = intersection a0 a1 b0 b1

/-- the same claim for the code BEFORE repair D50 (refuted in C16_Sym: `bitIdentityClaimOld_false`,
    `bitIdentityOld_violated_in_contract`) -/
def BitIdentityClaimOld : Prop := ∀ a0 a1 b0 b1, InContract a0 a1 b0 b1 →
  intersectionOld a1 a0 b0 b1 = intersectionOld a0 a1 b0 b1 ∧ intersectionOld a0 a1 b1 b0 = intersectionOld a0 a1 b0 b1 ∧
  intersectionOld b0 b1 a0 a1 = intersectionOld a0 a1 b0 b1

/-- the weaker claim the Go doc comment makes: equal under Go's `==` (which identifies +0 and −0) -/
def GoEqualityClaim : Prop := ∀ a0 a1 b0 b1, InContract a0 a1 b0 b1 →
  V3.feq (intersection a1 a0 b0 b1) (intersection a0 a1 b0 b1) = true ∧
  V3.feq (intersection a0 a1 b1 b0) (intersection a0 a1 b0 b1) = true ∧
  V3.feq (intersection b0 b1 a0 a1) (intersection a0 a1 b0 b1) = true

def GoEqualityClaimOld : Prop := ∀ a0 a1 b0 b1, InContract a0 a1 b0 b1 →
  V3.feq (intersectionOld a1 a0 b0 b1) (intersectionOld a0 a1 b0 b1) = true ∧
  V3.feq (intersectionOld a0 a1 b1 b0) (intersectionOld a0 a1 b0 b1) = true ∧
  V3.feq (intersectionOld b0 b1 a0 a1) (intersectionOld a0 a1 b0 b1) = true

/-- C16 "the returned intersection point is unit length" -/
def UnitLengthClaim : Prop := ∀ a0 a1 b0 b1, InContract a0 a1 b0 b1 → UnitPt (intersection a0 a1 b0 b1)

/-- C16 "within 8·2^-53 radians of the exact intersection point, on the side of the sphere where the
    edges are" (for edges that are not exactly collinear): decided by `IA.angleLe` on the exact vectors;
    `≠ .no` leaves the ~ε³-wide undecidable band to the benefit of the code. -/
def AccuracyClaim : Prop := ∀ a0 a1 b0 b1, InContract a0 a1 b0 b1 →
  ∀ X, IA.exactCrossingClosed (ofV3 a0) (ofV3 a1) (ofV3 b0) (ofV3 b1) = some X →
    IA.angleLe (ofV3 (intersection a0 a1 b0 b1)) X ⟨8, 2 ^ 53⟩ ≠ IA.Tri.no

private def mk (x y z : UInt64) : V3 := ⟨⟨x⟩, ⟨y⟩, ⟨z⟩⟩

/-- all three generating permutations give the same BITS -/
private def sameBits (a0 a1 b0 b1 : V3) : Bool :=
  intersection a1 a0 b0 b1 == intersection a0 a1 b0 b1 && intersection a0 a1 b1 b0 == intersection a0 a1 b0 b1 &&
  intersection b0 b1 a0 a1 == intersection a0 a1 b0 b1

/-- within 8·2^-53 of the exact crossing, certainly -/
private def accYes (a0 a1 b0 b1 : V3) : Bool :=
  match IA.exactCrossingClosed (ofV3 a0) (ofV3 a1) (ofV3 b0) (ofV3 b1) with
  | some X => IA.angleLe (ofV3 (intersection a0 a1 b0 b1)) X ⟨8, 2 ^ 53⟩ == IA.Tri.yes
  | none => false

private def f4a0 := mk 0xbfefd44ddc89bf69 0x3fba67e5fdc238ad 0x8000000000000001
private def f4a1 := mk 0xbfe8a56939bcbcbb 0xbfd7323388dac21c 0x3fe0cb605d9b5942
private def f4b0 := mk 0xbfd0fc39f116dc7b 0x3feeda3bd53c8ea0 0x8000000000000000
private def f4b1 := mk 0xbfeff135f8e02bbe 0x3faec05ffe58da34 0x8000000000000000
/-- regression F4 (was: results differed in the sign of the zero z-coordinate): bit-identical now -/
example : InContract f4a0 f4a1 f4b0 f4b1 := by decide +kernel
example : sameBits f4a0 f4a1 f4b0 f4b1 = true := by decide +kernel

private def f3a0 := mk 0x0000000000000000 0x3fee405c2c895498 0xbfd4ddd1118f2cc3
private def f3a1 := mk 0x0000000000000000 0xbfa7771b1bbb43e1 0xbfeff7645e7860e3
private def f3b0 := mk 0x0000000000000000 0xbfa657fd72b54c3d 0xbfeff8321526404e
private def f3b1 := mk 0x0000000000000000 0xbfe3813010bbeb1e 0xbfe95e60a884f08f
/-- regression F3 (was: exactly collinear edges, swapping the edges returned a different vertex):
    the lexicographically smallest qualifying endpoint in every order -/
example : InContract f3a0 f3a1 f3b0 f3b1 := by decide +kernel
example : sameBits f3a0 f3a1 f3b0 f3b1 = true := by decide +kernel

/-- regression F1 (was: (NaN, NaN, −Inf) from the stable path for edges ~1e-160 long): unit length now -/
example : UnitPt (intersection (mk 0x0000000000000000 0x9da3d3e5dc1d186c 0xbff0000000000000)
    (mk 0x8000000000000000 0x1da0c92f7657fea7 0xbff0000000000000) (mk 0xa01039101e2d5e6f 0x2050781c5d6e460a 0xbff0000000000000)
    (mk 0x1daf8788f47a6d91 0x9df00108dfa37cac 0xbff0000000000000)) := by decide +kernel

/-- regression F2 (was: an endpoint of the LONG edge, > 0.1 rad off, because the exact result underflowed
    in the float `Normalize`): within 8·2^-53 of the exact crossing now -/
example : accYes (mk 0xbfef7efc9518c246 0x8000000000000000 0x3fc6a08fa6898ad1)
    (mk 0x3fef7efc8a402399 0x0000000000000000 0xbfc6a09098186aa7)
    (mk 0xbff0000000000000 0x02b3e781bb2c4ec1 0x83203aec990e16f8)
    (mk 0xbff0000000000000 0x84941eaa9304383b 0x050067e6ddcacbd5) = true := by decide +kernel

/-- KNOWN (finding F5, not repaired): both edges within 4e-9 of antipodal, crossing next to their ends — the
    hemisphere test is decided by the normalisation error of the inputs and `Intersection` returns the
    ANTIPODE of the exact crossing (in all 8 orders).  Hence `AccuracyClaim` is false as stated; the oracle
    reports this input class under the clause `hemi-antipodal`. -/
theorem accuracyClaim_false : ¬ AccuracyClaim := by
  intro h
  have hc : InContract (mk 0x3fe257b9a69a6dc2 0xbfd14749404bde23 0xbfe8c1cbe3ebaa70)
    (mk 0xbfe257b9a785b018 0x3fd147493c1c92e6 0x3fe8c1cbe3f847ba)
    (mk 0xbfe257b9a7982442 0x3fd147493bc46619 0x3fe8c1cbe3f9fe0f)
    (mk 0x3fe257b9a7581dd5 0xbfd14749392a3cd1 0xbfe8c1cbe49da948) := by decide +kernel
  have := h _ _ _ _ hc
  revert this
  decide +kernel

/-- PRE-REPAIR selection logic (see (3)): on good inputs and for kernels that are sign-symmetric up to the sign
    of zeros the 8 orders give the same bits.  (For the repaired code: `bitIdentityClaim` in C16_Canonical.lean.)  The unit
    length and the 8·2^-53 bound are judged by the oracle on every run, not proved. -/
theorem order_independence_partial {K : V3 → V3 → V3 → V3 → Option V3} {E : V3 → V3 → V3 → V3 → V3}
    {sc : V3 → V3 → V3} {nneg : V3 → V3} (H : KernelSym K E sc nneg) {a0 a1 b0 b1 : V3}
    (G : GoodInput a0 a1 b0 b1) :
    selection K E sc a1 a0 b0 b1 = selection K E sc a0 a1 b0 b1 ∧
    selection K E sc a0 a1 b1 b0 = selection K E sc a0 a1 b0 b1 ∧
    selection K E sc b0 b1 a0 a1 = selection K E sc a0 a1 b0 b1 :=
  ⟨selection_reverse_a H G, selection_reverse_b H G, selection_swap H G⟩

end S2Proofs.C16
