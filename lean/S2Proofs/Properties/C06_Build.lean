/-
  S2Proofs.Properties.C06_Build — theorems about the ShapeIndex CONSTRUCTION model `S2.IndexBuild`
  (bit-exact model of s2/shapeindex.go `applyUpdatesInternal` …, tied to the implementation by the
  `c04build` correspondence check).  Context of properties C04 / C06: the queries' theorems assume
  the index invariants I1–I3; here they are derived from (or reduced to named hypotheses about) the
  builder.

  Structural part (unconditional, every input — `shapes` is ANY array of shapes with ANY float
  coordinates, NaN included):
    build_no_fuel_exhaustion          the recursion never runs out of its 31 units of fuel
    build_cells_valid                 every index cell id is a valid cell id
    build_cells_increasing_disjoint   ids strictly increasing, leaf ranges disjoint, no two cells intersect
    build_edge_ids_in_range           listed (shape id, edge id) exist: sid < #shapes, eid < NumEdges(sid)
    build_short_edges_le              a cell never lists more than maxEdgesPerCell (= 10) edges that are
                                      still "short" at its level (level < maxLevelForEdge); in particular
                                      a cell with more than 10 edges only holds > 10 edges because the
                                      surplus has reached its own level limit (always the case at level 30)
    build_pairs_no_dup_order          the pairs listed in a cell appear in the order of the builder's
                                      edge list (sub-selection) — used by the two above
-/
import S2Proofs.C06.BuildTop
import S2Proofs.C06.BuildI1
import S2Proofs.C06.BuildMerge
import S2.Contain
open S2 S2.CellID S2.PaddedCellM S2.IndexBuild S2Proofs.C06BuildH
namespace S2Proofs.C06Build

/-- `maxLevelForEdge` of edge `p.2` of shape `p.1` -/
def maxLevelOf (shapes : Array Shape) (p : Nat × Nat) : Nat :=
  maxLevelForEdge ((shapes[p.1]!).edges[p.2]!).1 ((shapes[p.1]!).edges[p.2]!).2

/-- the `(shape id, edge id)` pairs listed in an index cell -/
def cellPairs (x : IndexCell) : List (Nat × Nat) := listedPairs x.shapes

/-- the listed pairs whose edge is still short at the level of the cell -/
def shortPairs (shapes : Array Shape) (x : IndexCell) : List (Nat × Nat) :=
  (cellPairs x).filter fun p => decide (level x.id < maxLevelOf shapes p)

/-- Termination: the fuel-driven recursion `updateEdges` (31 units at every root call) never hits the
    fuel-exhausted branch, for any input. -/
theorem build_no_fuel_exhaustion (shapes : Array Shape) : (buildRes shapes).ok = true :=
  (buildRes_good shapes).2.1

example : (buildRes #[]).ok = true := build_no_fuel_exhaustion #[]

/-- Every cell of the built index has a valid cell id. -/
theorem build_cells_valid (shapes : Array Shape) : ∀ x ∈ build shapes, isValid x.id = true :=
  fun x hx => ((buildRes_good shapes).1.1 x hx).1

/-- The cells come out in strictly increasing id order with pairwise disjoint leaf ranges: for any two
    cells `x` before `y`: `x.id < y.id`, `RangeMax(x) < RangeMin(y)`, and the cells do not intersect. -/
theorem build_cells_increasing_disjoint (shapes : Array Shape) :
    List.Pairwise (fun x y : IndexCell =>
      x.id < y.id ∧ rangeMax x.id < rangeMin y.id ∧ intersects x.id y.id = false) (build shapes) := by
  have g := buildRes_good shapes
  refine List.Pairwise.imp_of_mem ?_ g.1.2
  intro x y hx hy hxy
  have vx := valid_facts (g.1.1 x hx).1
  have vy := valid_facts (g.1.1 y hy).1
  refine ⟨UInt64.lt_iff_toNat_lt.mpr (by omega), UInt64.lt_iff_toNat_lt.mpr hxy, ?_⟩
  rw [← Bool.not_eq_true, intersects_iff]
  show ¬ (lo y.id ≤ hi x.id ∧ lo x.id ≤ hi y.id)
  omega

example : isValid (fromFace 0) = true ∧ isValid (fromFace 1) = true ∧
    rangeMax (fromFace 0) < rangeMin (fromFace 1) := by decide

/-- The pairs listed in a cell are an order-preserving sub-selection of a list of clipped edges whose
    face edges point to existing edges (`FEQ`) and which passed the counting loop of `makeIndexCell`
    at the level of that cell. -/
theorem build_pairs_no_dup_order (shapes : Array Shape) : ∀ x ∈ build shapes,
    ∃ es : List ClippedEdge, (∀ ce ∈ es, FEQ shapes ce.fe) ∧ countExceeds (level x.id) 0 es = false ∧
      List.Sublist (cellPairs x) (es.map key) :=
  fun x hx => (buildRes_good shapes).2.2 x hx

/-- Every listed edge exists: its shape id is below the number of shapes and its edge id below
    `NumEdges()` of that shape. -/
theorem build_edge_ids_in_range (shapes : Array Shape) : ∀ x ∈ build shapes, ∀ cl ∈ x.shapes,
    ∀ e ∈ cl.edges, cl.shapeID < shapes.size ∧ e < (shapes[cl.shapeID]!).edges.size := by
  intro x hx cl hcl e he
  obtain ⟨es, hes, _, hsub⟩ := build_pairs_no_dup_order shapes x hx
  have hmem : (cl.shapeID, e) ∈ cellPairs x := by
    unfold cellPairs listedPairs
    exact List.mem_flatMap.mpr ⟨cl, hcl, List.mem_map.mpr ⟨e, he, rfl⟩⟩
  obtain ⟨ce, hce, hkey⟩ := List.mem_map.mp (hsub.subset hmem)
  have hq := hes ce hce
  unfold key at hkey
  have h1 : ce.fe.shapeID = cl.shapeID := congrArg Prod.fst hkey
  have h2 : ce.fe.edgeID = e := congrArg Prod.snd hkey
  rw [← h1, ← h2]
  exact ⟨hq.1, hq.2.1⟩

/-- No cell lists more than `maxEdgesPerCell` edges that have not reached their level limit: among the
    listed pairs at most 10 have `level(cell) < maxLevelForEdge(edge)`.  (At level 30 no edge is short.) -/
theorem build_short_edges_le (shapes : Array Shape) : ∀ x ∈ build shapes,
    (shortPairs shapes x).length ≤ maxEdgesPerCell := by
  intro x hx
  obtain ⟨es, hes, hcnt, hsub⟩ := build_pairs_no_dup_order shapes x hx
  have h1 : (shortPairs shapes x).length ≤
      ((es.map key).filter fun p => decide (level x.id < maxLevelOf shapes p)).length :=
    (hsub.filter _).length_le
  have h2 : ((es.map key).filter fun p => decide (level x.id < maxLevelOf shapes p)).length =
      (es.filter fun ce => decide (level x.id < ce.fe.maxLevel)).length := by
    rw [List.filter_map, List.length_map]
    congr 1
    apply List.filter_congr
    intro ce hce
    have hq := hes ce hce
    simp only [Function.comp, maxLevelOf, key]
    rw [hq.2.2]
    first | rfl | congr
  rcases countExceeds_false _ es 0 hcnt with h | h
  · omega
  · omega

example : maxLevelOf #[⟨1, #[(⟨F64.one, F64.zero false, F64.zero false⟩, ⟨F64.zero false, F64.one, F64.zero false⟩)],
    ⟨F64.one, F64.zero false, F64.zero false⟩, false⟩] (0, 0) ≤ 30 := maxLevelForEdge_le _ _

/-! ## I1 — every edge is listed in every index cell it meets

  `Meets fe c` (abstract) : the true face edge meets the padded cell of `c`.
  `BoundOK ce c` (abstract): the float bound of the clipped edge contains the part of the true edge
  inside the padded cell of `c`.  `ClipSound Meets BoundOK` (S2Proofs.C06.BuildI1) is the NAMED,
  ASSUMED float error analysis of `clipUBound / clipVBound / clipVAxis / interpolateFloat64`:
  monotonicity of `Meets`, bounds stay sound under child clipping, an edge meeting a child is
  passed to that child.  `ShrinkSound` is the contract of `ShrinkToFit` (no edge meets a cell disjoint
  from the chosen root).  Neither is proved here (DESIGN: "float error analysis, assumed and named"). -/

/-- I1 at full strength: in the built index, every face edge of the face of an index cell that meets
    (the padded cell of) that index cell is listed in it. -/
def I1 (shapes : Array Shape) (Meets : FaceEdge → CellID → Prop) : Prop :=
  ∀ x ∈ build shapes, ∀ f, f < 6 → lo (fromFace f) ≤ lo x.id → hi x.id ≤ hi (fromFace f) →
    ∀ fe ∈ faceEdgesOf (allFaceEdges shapes) f, Meets fe x.id → (fe.shapeID, fe.edgeID) ∈ cellPairs x

/-- the merge loop of `makeIndexCell` drops nothing.  This is a pure list fact about `countShapes` /
    `fillShapes`; it is PROVED below (`merge_loop_complete`) for inputs satisfying `MergeInput` (edge
    list sorted by shape id, tracker ids strictly increasing, all ids below the sentinel).  What is NOT
    done: threading `MergeInput` through the recursion (edge lists stay sorted because child lists are
    sub-selections — `childEdges_sublist`; the tracker's list stays strictly increasing because
    `toggleShape` preserves it — `toggleShape_spec`; both facts are proved, the induction over
    `updateEdges` that combines them is not). -/
def MergeComplete (n : Nat) (x : IndexCell) : Prop :=
  ∀ (es : List ClippedEdge) (cs : List Nat), x.shapes = fillShapes n (countShapes es cs) es cs →
    ∀ ce ∈ es, key ce ∈ listedPairs x.shapes

/-- I1, partial: under `ClipSound` (clipping soundness), sound root bounds and `ShrinkSound`, every face
    edge that meets an index cell REACHES the merge loop that fills this cell (it is in the `edges`
    argument of the `makeIndexCell` call that created the cell).  Missing for the full `I1`: the merge
    loop lists every edge it is given (`MergeComplete`). -/
theorem build_I1_partial (shapes : Array Shape) {Meets : FaceEdge → CellID → Prop}
    {BoundOK : ClippedEdge → CellID → Prop} (hs : ClipSound Meets BoundOK)
    (hroot : ∀ f, f < 6 → ∀ fe ∈ faceEdgesOf (allFaceEdges shapes) f,
      BoundOK ⟨fe, rectFromPoints fe.a fe.b⟩ (rootCell f (faceEdgesOf (allFaceEdges shapes) f)))
    (hshrink : ∀ f, f < 6 → ShrinkSound Meets f (faceEdgesOf (allFaceEdges shapes) f)) :
    ∀ x ∈ build shapes, ∃ f, f < 6 ∧ lo (fromFace f) ≤ lo x.id ∧ hi x.id ≤ hi (fromFace f) ∧
      ∀ fe ∈ faceEdgesOf (allFaceEdges shapes) f, Meets fe x.id → ReachesMerge shapes.size x fe := by
  intro x hx
  obtain ⟨f, hf, t, hxf⟩ := build_mem_face shapes x hx
  have hall : ∀ fe ∈ faceEdgesOf (allFaceEdges shapes) f, FEQ shapes fe := by
    intro fe hfe
    obtain ⟨y, hy, rfl⟩ := faceEdgesOf_mem _ _ _ hfe
    exact allFaceEdges_FEQ shapes y hy
  have g := updateFaceEdges_good (FEQ shapes) (FEQ_maxLevel shapes) shapes.size f hf _ t hall
  obtain ⟨_, hlo, hhi⟩ := g.1.1 x hxf
  refine ⟨f, hf, hlo, hhi, ?_⟩
  exact updateFaceEdges_reaches hs (FEQ shapes) (FEQ_maxLevel shapes) shapes.size f hf _ t hall
    (hroot f hf) (hshrink f hf) x hxf

/-- `I1` follows from the partial theorem and `MergeComplete` for every cell. -/
theorem build_I1_of_mergeComplete (shapes : Array Shape) {Meets : FaceEdge → CellID → Prop}
    {BoundOK : ClippedEdge → CellID → Prop} (hs : ClipSound Meets BoundOK)
    (hroot : ∀ f, f < 6 → ∀ fe ∈ faceEdgesOf (allFaceEdges shapes) f,
      BoundOK ⟨fe, rectFromPoints fe.a fe.b⟩ (rootCell f (faceEdgesOf (allFaceEdges shapes) f)))
    (hshrink : ∀ f, f < 6 → ShrinkSound Meets f (faceEdgesOf (allFaceEdges shapes) f))
    (hmerge : ∀ x ∈ build shapes, MergeComplete shapes.size x) : I1 shapes Meets := by
  intro x hx f hf hlo hhi fe hfe hm
  obtain ⟨f', hf', hlo', hhi', hreach⟩ := build_I1_partial shapes hs hroot hshrink x hx
  -- the face is determined by the cell
  have hff : f' = f := by
    have vx := valid_facts (build_cells_valid shapes x hx)
    by_contra hne
    rcases Nat.lt_or_gt_of_ne hne with hlt | hgt
    · have := face_lt_of_lt f' f hlt hf
      omega
    · have := face_lt_of_lt f f' hgt hf'
      omega
  subst hff
  obtain ⟨es, cs, hsh, ce, hce, hcefe⟩ := hreach fe hfe hm
  have := hmerge x hx es cs hsh ce hce
  unfold key at this
  rw [hcefe] at this
  exact this

/-- The merge loop is complete on sorted input: if the edges are sorted by shape id, the tracker's ids
    strictly increasing and all ids below the sentinel `n = int32(s.Len())`, then the cell sized by
    `countShapes` and filled by the merge loop lists EVERY edge of the list under its shape id. -/
theorem merge_loop_complete (n : Nat) (es : List ClippedEdge) (cs : List Nat)
    (h : MergeInput n none es cs) :
    ∀ ce ∈ es, key ce ∈ listedPairs (fillShapes n (countShapes es cs) es cs) :=
  fillShapes_complete n (es.length + cs.length) es cs none _ (Nat.le_refl _) h (Nat.le_refl _)

example : MergeInput 3 none
    [⟨{ (default : FaceEdge) with shapeID := 0, edgeID := 4 }, default⟩,
     ⟨{ (default : FaceEdge) with shapeID := 2, edgeID := 1 }, default⟩] [1, 2] :=
  ⟨by simp, by simp, by simp, by simp, by simp, by simp⟩

/-- `toggleShape` on a strictly increasing id list is the symmetric difference with `{id}` and keeps the
    list strictly increasing. -/
theorem toggleShape_spec (id : Nat) (l : List Nat) (h : List.Pairwise (fun x y : Nat => x < y) l) :
    List.Pairwise (fun x y : Nat => x < y) (toggle id l) ∧
      ∀ x, x ∈ toggle id l ↔ (x ∈ l ∧ x ≠ id) ∨ (x = id ∧ id ∉ l) :=
  ⟨toggle_sorted id l h, toggle_mem id l h⟩

example : toggle 2 [1, 2, 5] = [1, 5] ∧ toggle 3 [1, 2, 5] = [1, 2, 3, 5] := by decide

/-- consistency of the hypothesis record: `ClipSound` has a (trivial) instance -/
example : ClipSound (fun _ _ => False) (fun _ _ => True) :=
  ⟨fun _ _ _ _ _ _ _ h => h, fun _ _ _ _ _ _ _ _ _ _ _ => trivial, fun _ _ _ _ _ _ _ _ _ h => h.elim⟩

/-! ## I3 — `containsCenter` = brute force (statement only)

  The interior tracker starts at `trackerOrigin` with `containsBruteForce(shape, origin)` and moves the
  focus entry → centre → exit of every index cell with edges, toggling a shape for every edge of the
  cell that `EdgeOrVertexCrossing` reports as crossed.  `I3` below is the full statement.  It follows
  from (a) I1 applied to the tracker segments (every edge crossing a segment inside a cell is listed in
  that cell), (b) the crosser-refinement theorem of C03 (the stateful `EdgeCrosser` answers as the
  stateless `EdgeOrVertexCrossing`), (c) the parity cocycle hypothesis of C04 (crossing parity along a
  concatenated path adds up), (d) `paddedCell_tracker_chain` (exit(c) = entry(next cell), proved in
  C06_PaddedCell).  Only the list-level pieces (`toggleShape_spec`, `merge_loop_complete`) are proved
  here; the induction is NOT done. -/

/-- the shape as `S2.Contain` sees it -/
def toShapeM (s : Shape) : Contain.ShapeM V3 := ⟨s.dim, s.edges, s.refPoint, s.refContained⟩

/-- the cell says that shape `sid` contains its centre -/
def cellContainsCenter (x : IndexCell) (sid : Nat) : Bool :=
  x.shapes.any fun cl => cl.shapeID == sid && cl.containsCenter

/-- I3 at full strength: for every index cell and every shape with an interior, the `containsCenter`
    flag (false when the shape is not listed in the cell) equals exact brute-force containment of the
    centre of the cell. -/
def I3 (shapes : Array Shape) : Prop :=
  ∀ x ∈ build shapes, ∀ sid, sid < shapes.size → (shapes[sid]!).dim = 2 →
    cellContainsCenter x sid =
      Contain.containsBruteForce Contain.exactGeo (toShapeM (shapes[sid]!)) (center (fromCellID x.id))

end S2Proofs.C06Build
