/-
  S2Proofs.Properties.C01_Real — C01 item 8, "real-arithmetic containment".

  The Go code (`s2/stuv.go`: `stToUV`, `uvToST`, `face`, `validFaceXYZToUV`, `xyzToFaceUV`,
  `faceUVToXYZ`; `s2/cellid.go`: `stToIJ`, `cellIDFromPoint`, `ijLevelToBoundUV`) maps a point to
  a leaf cell through binary64 arithmetic (model: `lean/S2/STUV.lean`).  This file proves the
  IDEAL version: with every float operation replaced by the exact operation on ℝ
  (definitions in `S2Proofs/RealSTUV.lean`), the leaf cell chosen for a point — and every
  ancestor of it, described by its aligned (i,j)-square as in `ijLevelToBoundUV` — contains the
  point (closed uv-rectangle on the chosen face).

  NOT PROVED, NOT CLAIMED: the floating-point rounding margin.  The binary64 evaluation can
  differ from the exact one by a few ulps, so a point extremely close to a cell boundary may be
  assigned by the real code to the neighbouring leaf; bounding that margin is outside this file.
  Also not here: the correspondence "aligned ij-square at level k ⇔ ancestor cell id" (Hilbert
  lemmas, proved elsewhere).

  Proof-only file: must not be imported by model / oracle files.
-/
import S2Proofs.RealSTUV

namespace S2Proofs.C01
open S2Proofs

/-! ## 1. `stToUV` / `uvToST` are mutually inverse, strictly increasing, `[0,1] ↔ [-1,1]` -/

/-- `uvToST ∘ stToUV = id` (exact arithmetic); holds for every real `s`, in particular on `[0,1]`. -/
theorem uvToSTR_stToUVR (s : ℝ) : uvToSTR (stToUVR s) = s := uvToSTR_stToUVR_all s

example : uvToSTR (stToUVR (1/4)) = 1/4 := uvToSTR_stToUVR _

/-- `stToUV ∘ uvToST = id` (exact arithmetic); holds for every real `u`, in particular on `[-1,1]`. -/
theorem stToUVR_uvToSTR (u : ℝ) : stToUVR (uvToSTR u) = u := stToUVR_uvToSTR_all u

example : stToUVR (uvToSTR (-1/3)) = -1/3 := stToUVR_uvToSTR _

/-- `stToUV` maps `[0,1]` into `[-1,1]`, with `0 ↦ -1`, `1/2 ↦ 0`, `1 ↦ 1`. -/
theorem stToUVR_maps :
    (∀ s : ℝ, 0 ≤ s → s ≤ 1 → -1 ≤ stToUVR s ∧ stToUVR s ≤ 1) ∧
    stToUVR 0 = -1 ∧ stToUVR (1/2) = 0 ∧ stToUVR 1 = 1 :=
  ⟨fun _ h0 h1 => stToUVR_mem h0 h1, stToUVR_zero, stToUVR_half, stToUVR_one⟩

example : -1 ≤ stToUVR (3/4) ∧ stToUVR (3/4) ≤ 1 := stToUVR_maps.1 _ (by norm_num) (by norm_num)
example : stToUVR (3/4) = 5/12 := by rw [stToUVR_of_ge (by norm_num)]; norm_num

/-- `uvToST` maps `[-1,1]` into `[0,1]`, with `-1 ↦ 0`, `0 ↦ 1/2`, `1 ↦ 1`. -/
theorem uvToSTR_maps :
    (∀ u : ℝ, -1 ≤ u → u ≤ 1 → 0 ≤ uvToSTR u ∧ uvToSTR u ≤ 1) ∧
    uvToSTR (-1) = 0 ∧ uvToSTR 0 = 1/2 ∧ uvToSTR 1 = 1 :=
  ⟨fun _ h0 h1 => uvToSTR_mem h0 h1, uvToSTR_neg_one, uvToSTR_zero, uvToSTR_one⟩

example : 0 ≤ uvToSTR (5/12) ∧ uvToSTR (5/12) ≤ 1 := uvToSTR_maps.1 _ (by norm_num) (by norm_num)

/-- `stToUV` is strictly increasing (on all of ℝ, hence on `[0,1]`). -/
theorem stToUVR_strictMonoOn : StrictMonoOn stToUVR (Set.Icc 0 1) :=
  stToUVR_strictMono.strictMonoOn _

/-- `uvToST` is strictly increasing (on all of ℝ, hence on `[-1,1]`). -/
theorem uvToSTR_strictMonoOn : StrictMonoOn uvToSTR (Set.Icc (-1) 1) :=
  uvToSTR_strictMono.strictMonoOn _

/-- Explicit form of the two monotonicity statements. -/
theorem stuv_lt_iff :
    (∀ s t : ℝ, stToUVR s < stToUVR t ↔ s < t) ∧ (∀ u v : ℝ, uvToSTR u < uvToSTR v ↔ u < v) :=
  ⟨fun _ _ => stToUVR_strictMono.lt_iff_lt, fun _ _ => uvToSTR_strictMono.lt_iff_lt⟩

example : stToUVR (1/4) < stToUVR (3/4) :=
  stToUVR_strictMonoOn ⟨by norm_num, by norm_num⟩ ⟨by norm_num, by norm_num⟩ (by norm_num)
example : uvToSTR (-1/2) < uvToSTR (1/2) :=
  uvToSTR_strictMonoOn ⟨by norm_num, by norm_num⟩ ⟨by norm_num, by norm_num⟩ (by norm_num)

/-! ## 2. Leaf and ancestor containment in one coordinate -/

/-- For `u ∈ [-1,1]` the leaf coordinate `i = stToIJ (uvToST u)` is in `[0, 2^30)` and the closed
uv-interval of leaf coordinate `i` contains `u`. -/
theorem leaf_contains_coord {u : ℝ} (h0 : -1 ≤ u) (h1 : u ≤ 1) :
    0 ≤ stToIJR (uvToSTR u) ∧ stToIJR (uvToSTR u) < 2^30 ∧
    stToUVR (((stToIJR (uvToSTR u) : ℤ) : ℝ) / 2^30) ≤ u ∧
    u ≤ stToUVR ((((stToIJR (uvToSTR u) : ℤ) : ℝ) + 1) / 2^30) := by
  obtain ⟨hs0, hs1⟩ := uvToSTR_mem h0 h1
  obtain ⟨hr0, hr1⟩ := stToIJR_range (uvToSTR u)
  obtain ⟨hb0, hb1⟩ := stToIJR_bounds hs0 hs1
  refine ⟨hr0, hr1, ?_, ?_⟩
  · have := stToUVR_strictMono.monotone hb0
    rwa [stToUVR_uvToSTR_all] at this
  · have := stToUVR_strictMono.monotone hb1
    rwa [stToUVR_uvToSTR_all] at this

example : stToUVR (((stToIJR (uvToSTR (1/2)) : ℤ) : ℝ) / 2^30) ≤ (1/2 : ℝ) :=
  (leaf_contains_coord (u := 1/2) (by norm_num) (by norm_num)).2.2.1

/-- Half-open refinement and uniqueness: for `u ∈ [-1,1)` the upper bound is strict, and `i` is
the only leaf coordinate `m ∈ [0,2^30)` with `stToUV(m/2^30) ≤ u < stToUV((m+1)/2^30)`. -/
theorem leaf_coord_unique {u : ℝ} (h0 : -1 ≤ u) (h1 : u < 1) :
    u < stToUVR ((((stToIJR (uvToSTR u) : ℤ) : ℝ) + 1) / 2^30) ∧
    ∀ m : ℤ, 0 ≤ m → m < 2^30 → stToUVR ((m : ℝ) / 2^30) ≤ u →
      u < stToUVR (((m : ℝ) + 1) / 2^30) → stToIJR (uvToSTR u) = m := by
  obtain ⟨hs0, _⟩ := uvToSTR_mem h0 h1.le
  have hs1 : uvToSTR u < 1 := by
    rw [← uvToSTR_one]; exact uvToSTR_strictMono h1
  constructor
  · have := stToUVR_strictMono (stToIJR_lt_upper hs0 hs1)
    rwa [stToUVR_uvToSTR_all] at this
  · intro m hm0 hm1 hlo hhi
    apply stToIJR_unique hm0 hm1
    · have := uvToSTR_strictMono.monotone hlo
      rwa [uvToSTR_stToUVR_all] at this
    · have := uvToSTR_strictMono hhi
      rwa [uvToSTR_stToUVR_all] at this

example : (0:ℝ) < stToUVR ((((stToIJR (uvToSTR 0) : ℤ) : ℝ) + 1) / 2^30) :=
  (leaf_coord_unique (u := 0) (by norm_num) (by norm_num)).1

/-- Ancestors: for every level `k ≤ 30`, with `size = 2^(30-k)` and `lo = (i / size) * size`
(Go: `i & -size`), the uv-interval `[stToUV(lo/2^30), stToUV((lo+size)/2^30)]` computed by
`ijLevelToBoundUV` contains `u`; moreover `0 ≤ lo` and `lo + size ≤ 2^30`. -/
theorem ancestor_contains_coord {u : ℝ} (h0 : -1 ≤ u) (h1 : u ≤ 1) {k : ℕ} (hk : k ≤ 30) :
    0 ≤ stToIJR (uvToSTR u) / 2^(30-k) * 2^(30-k) ∧
    stToIJR (uvToSTR u) / 2^(30-k) * 2^(30-k) + 2^(30-k) ≤ 2^30 ∧
    stToUVR (((stToIJR (uvToSTR u) / 2^(30-k) * 2^(30-k) : ℤ) : ℝ) / 2^30) ≤ u ∧
    u ≤ stToUVR (((stToIJR (uvToSTR u) / 2^(30-k) * 2^(30-k) + 2^(30-k) : ℤ) : ℝ) / 2^30) := by
  obtain ⟨hr0, hr1, hlo, hhi⟩ := leaf_contains_coord h0 h1
  generalize stToIJR (uvToSTR u) = i at *
  have hs : (0:ℤ) < 2^(30-k) := by positivity
  obtain ⟨ha, hb⟩ := aligned_bounds i hs
  refine ⟨?_, aligned_upper hk hr1, ?_, ?_⟩
  · exact Int.mul_nonneg (Int.ediv_nonneg hr0 hs.le) hs.le
  · refine le_trans (stToUVR_strictMono.monotone ?_) hlo
    apply div_le_div_of_nonneg_right _ two30_pos.le
    exact_mod_cast ha
  · refine le_trans hhi (stToUVR_strictMono.monotone ?_)
    apply div_le_div_of_nonneg_right _ two30_pos.le
    exact_mod_cast hb

example : (1/2 : ℝ) ≤
    stToUVR (((stToIJR (uvToSTR (1/2)) / 2^(30-7) * 2^(30-7) + 2^(30-7) : ℤ) : ℝ) / 2^30) :=
  (ancestor_contains_coord (u := 1/2) (by norm_num) (by norm_num) (k := 7) (by norm_num)).2.2.2

/-- Upper end: `u = 1` gives `st = 1`, `⌊2^30·1⌋ = 2^30` is clamped to `i = 2^30 - 1`, and the
closed interval of that leaf still contains `u` (its upper end is exactly `1`). -/
theorem coord_one_clamped :
    stToIJR (uvToSTR 1) = 2^30 - 1 ∧
    stToUVR ((((2^30 - 1 : ℤ) : ℝ) + 1) / 2^30) = 1 ∧
    stToUVR (((2^30 - 1 : ℤ) : ℝ) / 2^30) ≤ 1 := by
  refine ⟨?_, ?_, ?_⟩
  · rw [uvToSTR_one]; exact stToIJR_of_one_le le_rfl
  · have : (((2^30 - 1 : ℤ) : ℝ) + 1) / 2^30 = 1 := by push_cast; norm_num
    rw [this, stToUVR_one]
  · rw [← stToUVR_one]
    apply stToUVR_strictMono.monotone
    push_cast; norm_num

/-- Lower end: `u = -1` gives `i = 0`. -/
theorem coord_neg_one : stToIJR (uvToSTR (-1)) = 0 := by
  rw [uvToSTR_neg_one]
  have := stToIJR_grid (m := 0) le_rfl (by norm_num)
  simpa using this

/-- A point exactly on an interior cell-boundary value `u = stToUV(m/2^30)`, `0 < m < 2^30`, lies
in both adjacent closed intervals (`[m-1,m]` and `[m,m+1]`) and is assigned to the upper one
(`i = m`). -/
theorem coord_on_boundary {m : ℤ} (h0 : 0 < m) (h1 : m < 2^30) {u : ℝ}
    (hu : u = stToUVR ((m : ℝ) / 2^30)) :
    (stToUVR (((m : ℝ) - 1) / 2^30) ≤ u ∧ u ≤ stToUVR ((m : ℝ) / 2^30)) ∧
    (stToUVR ((m : ℝ) / 2^30) ≤ u ∧ u ≤ stToUVR (((m : ℝ) + 1) / 2^30)) ∧
    stToIJR (uvToSTR u) = m := by
  subst hu
  refine ⟨⟨?_, le_rfl⟩, ⟨le_rfl, ?_⟩, ?_⟩
  · apply stToUVR_strictMono.monotone
    apply div_le_div_of_nonneg_right _ two30_pos.le; linarith
  · apply stToUVR_strictMono.monotone
    apply div_le_div_of_nonneg_right _ two30_pos.le; linarith
  · rw [uvToSTR_stToUVR_all]; exact stToIJR_grid h0.le h1

example : stToIJR (uvToSTR (stToUVR (((2^29 : ℤ) : ℝ) / 2^30))) = 2^29 :=
  (coord_on_boundary (m := 2^29) (by norm_num) (by norm_num) rfl).2.2

/-! ## 3. Face selection and projection -/

/-- The face of a non-zero point is `< 6`. -/
theorem face_lt_six {p : ℝ × ℝ × ℝ} (hp : p ≠ 0) : faceR p.1 p.2.1 p.2.2 < 6 := by
  obtain ⟨x, y, z⟩ := p
  rcases faceR_cases (ne_zero_iff3.mp hp) with h | h | h | h | h | h <;>
    (simp only []; rw [h.1]; norm_num)

/-- The face coordinates `(u,v)` of a non-zero point on its own face are in `[-1,1]²`. -/
theorem face_uv_mem {p : ℝ × ℝ × ℝ} (hp : p ≠ 0) :
    (-1 ≤ (xyzToFaceUVR p).2.1 ∧ (xyzToFaceUVR p).2.1 ≤ 1) ∧
    (-1 ≤ (xyzToFaceUVR p).2.2 ∧ (xyzToFaceUVR p).2.2 ≤ 1) := by
  obtain ⟨x, y, z⟩ := p
  rcases faceR_cases (ne_zero_iff3.mp hp) with h | h | h | h | h | h <;>
    obtain ⟨hf, hs, ha, hb⟩ := h <;>
    simp only [xyzToFaceUVR, hf, validFaceXYZToUVR]
  · exact ⟨div_mem_of_abs_le ha hs.ne', div_mem_of_abs_le hb hs.ne'⟩
  · exact ⟨neg_div_mem_of_abs_le ha hs.ne', div_mem_of_abs_le hb hs.ne'⟩
  · exact ⟨neg_div_mem_of_abs_le ha hs.ne', neg_div_mem_of_abs_le hb hs.ne'⟩
  · exact ⟨div_mem_of_abs_le hb hs.ne, div_mem_of_abs_le ha hs.ne⟩
  · exact ⟨div_mem_of_abs_le hb hs.ne, neg_div_mem_of_abs_le ha hs.ne⟩
  · exact ⟨neg_div_mem_of_abs_le hb hs.ne, neg_div_mem_of_abs_le ha hs.ne⟩

/-- A non-zero point is a POSITIVE multiple of `faceUVToXYZ f u v` for its `(f,u,v)`, i.e. it
projects (centrally) to face `f` at `(u,v)`; the factor is the largest absolute component. -/
theorem face_project {p : ℝ × ℝ × ℝ} (hp : p ≠ 0) :
    0 < max |p.1| (max |p.2.1| |p.2.2|) ∧
    p = (max |p.1| (max |p.2.1| |p.2.2|)) •
      faceUVToXYZR (xyzToFaceUVR p).1 (xyzToFaceUVR p).2.1 (xyzToFaceUVR p).2.2 := by
  obtain ⟨x, y, z⟩ := p
  rcases faceR_cases (ne_zero_iff3.mp hp) with h | h | h | h | h | h <;>
    obtain ⟨hf, hs, ha, hb⟩ := h <;>
    simp only [xyzToFaceUVR, hf, validFaceXYZToUVR, faceUVToXYZR, Prod.smul_mk, smul_eq_mul]
  · have hm : max |x| (max |y| |z|) = x := by
      rw [max_eq_left (max_le ha hb), abs_of_pos hs]
    rw [hm]; refine ⟨hs, ?_⟩
    have := hs.ne'
    ext <;> simp <;> field_simp
  · have hm : max |x| (max |y| |z|) = y := by
      rw [max_eq_right (le_max_of_le_left ha), max_eq_left hb, abs_of_pos hs]
    rw [hm]; refine ⟨hs, ?_⟩
    have := hs.ne'
    ext <;> simp <;> field_simp
  · have hm : max |x| (max |y| |z|) = z := by
      rw [max_eq_right (le_max_of_le_right ha), max_eq_right hb, abs_of_pos hs]
    rw [hm]; refine ⟨hs, ?_⟩
    have := hs.ne'
    ext <;> simp <;> field_simp
  · have hm : max |x| (max |y| |z|) = -x := by
      rw [max_eq_left (max_le ha hb), abs_of_neg hs]
    rw [hm]; refine ⟨by linarith, ?_⟩
    have := hs.ne
    ext <;> simp <;> field_simp
  · have hm : max |x| (max |y| |z|) = -y := by
      rw [max_eq_right (le_max_of_le_left ha), max_eq_left hb, abs_of_neg hs]
    rw [hm]; refine ⟨by linarith, ?_⟩
    have := hs.ne
    ext <;> simp <;> field_simp
  · have hm : max |x| (max |y| |z|) = -z := by
      rw [max_eq_right (le_max_of_le_right ha), max_eq_right hb, abs_of_neg hs]
    rw [hm]; refine ⟨by linarith, ?_⟩
    have := hs.ne
    ext <;> simp <;> field_simp

/-- Concrete instance: `(1, 1/2, -1/4)` lies on face 0 at `(u,v) = (1/2, -1/4)`. -/
example :
    xyzToFaceUVR ((1, 1/2, -1/4) : ℝ × ℝ × ℝ) = (0, 1/2, -1/4) := by
  have hf : faceR (1:ℝ) (1/2) (-1/4) = 0 := by
    norm_num [faceR, largestComponentR, abs_of_pos, abs_of_neg]
  simp only [xyzToFaceUVR, hf, validFaceXYZToUVR]
  norm_num

example : faceR ((1, 1/2, -1/4) : ℝ × ℝ × ℝ).1 ((1, 1/2, -1/4) : ℝ × ℝ × ℝ).2.1
    ((1, 1/2, -1/4) : ℝ × ℝ × ℝ).2.2 < 6 := face_lt_six (by norm_num)
example := face_uv_mem (p := ((1, 1/2, -1/4) : ℝ × ℝ × ℝ)) (by norm_num)
example := face_project (p := ((-3, 1/2, 2) : ℝ × ℝ × ℝ)) (by norm_num)

/-- Converse, interior case only: for `f < 6` and `|u| < 1`, `|v| < 1` the point
`faceUVToXYZ f u v` is mapped back to exactly `(f,u,v)`.  (On the face boundary `|u| = 1` or
`|v| = 1` another face may win the tie — see the counterexample below — so no claim there.) -/
theorem xyzToFaceUVR_faceUVToXYZR {f : ℕ} (hf : f < 6) {u v : ℝ} (hu : |u| < 1) (hv : |v| < 1) :
    xyzToFaceUVR (faceUVToXYZR f u v) = (f, u, v) := by
  have hu' : ¬ (1 < |u|) := not_lt.mpr hu.le
  have hv' : ¬ (1 < |v|) := not_lt.mpr hv.le
  have n1 : ¬ ((1:ℝ) < 0) := by norm_num
  have n2 : ((-1:ℝ) < 0) := by norm_num
  have hcases : f = 0 ∨ f = 1 ∨ f = 2 ∨ f = 3 ∨ f = 4 ∨ f = 5 := by omega
  rcases hcases with rfl | rfl | rfl | rfl | rfl | rfl
  · have hface : faceR 1 u v = 0 := by
      simp [faceR, largestComponentR, hu, hv, n1]
    simp [xyzToFaceUVR, faceUVToXYZR, hface, validFaceXYZToUVR]
  · have hface : faceR (-u) 1 v = 1 := by
      simp [faceR, largestComponentR, hu', hv, n1]
    simp [xyzToFaceUVR, faceUVToXYZR, hface, validFaceXYZToUVR]
  · have hl : largestComponentR (-u) (-v) 1 = 2 := by
      simp only [largestComponentR, abs_neg, abs_one]
      split_ifs <;> rfl
    have hface : faceR (-u) (-v) 1 = 2 := by simp [faceR, hl, n1]
    simp [xyzToFaceUVR, faceUVToXYZR, hface, validFaceXYZToUVR]
  · have hface : faceR (-1) (-v) (-u) = 3 := by
      simp [faceR, largestComponentR, hu, hv]
    simp [xyzToFaceUVR, faceUVToXYZR, hface, validFaceXYZToUVR]
  · have hface : faceR v (-1) (-u) = 4 := by
      simp [faceR, largestComponentR, hu, hv']
    simp [xyzToFaceUVR, faceUVToXYZR, hface, validFaceXYZToUVR]
  · have hl : largestComponentR v u (-1) = 2 := by
      simp only [largestComponentR, abs_neg, abs_one]
      split_ifs <;> rfl
    have hface : faceR v u (-1) = 5 := by simp [faceR, hl, n2]
    simp [xyzToFaceUVR, faceUVToXYZR, hface, validFaceXYZToUVR]

example : xyzToFaceUVR (faceUVToXYZR 4 (1/2) (-1/3)) = (4, 1/2, -1/3) :=
  xyzToFaceUVR_faceUVToXYZR (by norm_num) (by norm_num [abs_of_pos]) (by norm_num [abs_of_neg])

/-- Counterexample for the converse on a face edge: `faceUVToXYZ 0 1 0 = (1,1,0)` has `|x| = |y|`,
the tie is NOT won by x, and the point is assigned to face 1. -/
example : faceUVToXYZR 0 1 0 = (1, 1, 0) ∧ faceR 1 1 0 = 1 := by
  constructor
  · rfl
  · norm_num [faceR, largestComponentR]

/-! ## 4. The combined containment statement -/

/-- `p` lies in the closed cell of face `f` whose leaf-coordinate square is
`[ilo, ihi] × [jlo, jhi]` (in units of `2^-30` in st-space): `p` is a positive multiple of the
face-`f` point with coordinates `(u,v)` (equivalently: `p` has a positive component along the face
normal and `(u,v)` are its `validFaceXYZToUV` coordinates), and `(u,v)` lies in the closed
uv-rectangle `[stToUV(ilo/2^30), stToUV(ihi/2^30)] × [stToUV(jlo/2^30), stToUV(jhi/2^30)]`,
which is the rectangle `ijLevelToBoundUV` returns for the cell. -/
def CellContainsR (f : ℕ) (ilo ihi jlo jhi : ℤ) (p : ℝ × ℝ × ℝ) : Prop :=
  ∃ u v c : ℝ, 0 < c ∧ p = c • faceUVToXYZR f u v ∧
    stToUVR ((ilo : ℝ) / 2^30) ≤ u ∧ u ≤ stToUVR ((ihi : ℝ) / 2^30) ∧
    stToUVR ((jlo : ℝ) / 2^30) ≤ v ∧ v ≤ stToUVR ((jhi : ℝ) / 2^30)

/-- MAIN (ideal arithmetic): for every non-zero point `p` and every level `k ≤ 30`, with
`(f,i,j)` the face and leaf coordinates computed as in `cellIDFromPoint` (exact arithmetic) and
`size = 2^(30-k)`, the level-`k` cell of face `f` with aligned ij-square
`[i/size*size, i/size*size+size] × [j/size*size, j/size*size+size]` contains `p`;
`f < 6` and `0 ≤ i, j < 2^30`.  `k = 30` is the leaf cell itself. -/
theorem cell_contains_point {p : ℝ × ℝ × ℝ} (hp : p ≠ 0) {k : ℕ} (hk : k ≤ 30) :
    (pointToFaceIJR p).1 < 6 ∧
    (0 ≤ (pointToFaceIJR p).2.1 ∧ (pointToFaceIJR p).2.1 < 2^30) ∧
    (0 ≤ (pointToFaceIJR p).2.2 ∧ (pointToFaceIJR p).2.2 < 2^30) ∧
    CellContainsR (pointToFaceIJR p).1
      ((pointToFaceIJR p).2.1 / 2^(30-k) * 2^(30-k))
      ((pointToFaceIJR p).2.1 / 2^(30-k) * 2^(30-k) + 2^(30-k))
      ((pointToFaceIJR p).2.2 / 2^(30-k) * 2^(30-k))
      ((pointToFaceIJR p).2.2 / 2^(30-k) * 2^(30-k) + 2^(30-k)) p := by
  obtain ⟨⟨hu0, hu1⟩, ⟨hv0, hv1⟩⟩ := face_uv_mem hp
  obtain ⟨hc, hpc⟩ := face_project hp
  obtain ⟨_, _, hiu0, hiu1⟩ := ancestor_contains_coord hu0 hu1 hk
  obtain ⟨_, _, hjv0, hjv1⟩ := ancestor_contains_coord hv0 hv1 hk
  obtain ⟨hi0, hi1, _, _⟩ := leaf_contains_coord hu0 hu1
  obtain ⟨hj0, hj1, _, _⟩ := leaf_contains_coord hv0 hv1
  refine ⟨face_lt_six hp, ⟨hi0, hi1⟩, ⟨hj0, hj1⟩, ?_⟩
  exact ⟨(xyzToFaceUVR p).2.1, (xyzToFaceUVR p).2.2, _, hc, hpc, hiu0, hiu1, hjv0, hjv1⟩

/-- The leaf case `k = 30` in simplified form: the leaf square is `[i,i+1] × [j,j+1]`. -/
theorem leaf_contains_point {p : ℝ × ℝ × ℝ} (hp : p ≠ 0) :
    CellContainsR (pointToFaceIJR p).1
      (pointToFaceIJR p).2.1 ((pointToFaceIJR p).2.1 + 1)
      (pointToFaceIJR p).2.2 ((pointToFaceIJR p).2.2 + 1) p := by
  have := (cell_contains_point hp (k := 30) le_rfl).2.2.2
  simpa using this

example := cell_contains_point (p := ((1, 1/2, -1/4) : ℝ × ℝ × ℝ)) (by norm_num) (k := 12)
  (by norm_num)
example := leaf_contains_point (p := ((0, -2, 1/7) : ℝ × ℝ × ℝ)) (by norm_num)
/-- The hypothesis `p ≠ 0` is needed by the Go code too (`face` of the zero vector is face 2 and
`validFaceXYZToUV` divides by zero); here: the zero vector is in no cell. -/
example (f : ℕ) (a b c d : ℤ) : ¬ CellContainsR f a b c d 0 := by
  rintro ⟨u, v, c, hc, h, -⟩
  unfold faceUVToXYZR at h
  split at h <;> simp [Prod.ext_iff, hc.ne', hc.ne] at h

end S2Proofs.C01
