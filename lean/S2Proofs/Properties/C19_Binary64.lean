/-
  Property C19 for binary64 ITSELF — the laws of `Properties/C19.lean` (proved there for an abstract linear order)
  stated and proved for the functions of `S2.Interval` instantiated at `S2.IvlF64`, the bit-exact soft-float that the
  oracle executes and that `Ties/C19.lean` ties to the Go source.

  Method.  `S2Proofs.F64Carrier` builds a linear order `V` out of the canonical floats (no NaN, `-0` identified with
  `+0`, with `±∞`; order = order of the exact values `key`) with `IvlLaws V`, `IvlLengthLaws V` PROVED and
  `IvlArithLaws V` derived from the four rounding facts `F64ArithFacts`; the transport map `q : F64 → V` commutes with
  every float operation.  `S2Proofs.F64Transfer` lifts this to every function of the model (`…_q` lemmas).  Each
  theorem below is the generic theorem at `α := V`, pulled back along `q`.

  Domains (explicit, decidable predicates; `Fin x → NN x`):
  * r1 / r2 : every endpoint / coordinate / probe is not a NaN (`NN1`, `NNP`, `NN2`: finite floats AND ±∞);
              `Expanded`: finite endpoints and finite margins (`Fin1`, `Fin2`, `FinP`, `Fin`) — the sums may
              overflow to ±∞, the theorems still hold.
  * s1      : valid intervals (`isValid = true`, which forces finite endpoints in [-π, π]), points `VPt p`
              (`-π ≤ p ≤ π`, hence finite).  `Union / Intersection / AddPoint / Project / IntervalFromPointPair`
              need NO arithmetic fact (B-variants).  `Expanded`: margin `MarginOK m` (finite, `|m| < 2^1023`), or any
              finite margin given `DblBig` (`…_allmargins`).
  * lat-lng : valid rectangles, arbitrary `LatLng` points (the code rejects invalid ones itself).
  * float `==` replaces `=` where the generic theorem speaks of equality of numbers (`+0 == -0`).
  * `H : F64ArithFacts` (and `Hd : DblBig`) — facts about ROUNDING, used only by the seven `Expanded` theorems; they
    are discharged in `Properties/C19_Binary64_Closed.lean` from package `f64round`.
  * Three generic laws need a DENSE carrier and are false when read over the float grid (witnesses at the end);
    `s1_interiorContainsInterval_complete` turned out not to need density and is transferred.
-/
import S2Proofs.F64Transfer

set_option linter.unusedSimpArgs false
set_option linter.unusedVariables false
set_option linter.unusedSectionVars false

namespace S2Proofs.C19B64
open S2 S2.IvlOps S2.IvlF64 S2Proofs S2Proofs.F64Order S2Proofs.F64Carrier S2Proofs.F64Transfer

/-! ## r1.Interval -/

/-- `IsEmpty` says exactly "no float is a point" -/
theorem r1_isEmpty_iff_no_points_f64 (i : R1 F64) (hi : NN1 i) :
    i.isEmpty = true ↔ ∀ p, i.contains p = false := by
  constructor
  · intro h p
    by_cases hp : NN p
    · rw [r1_contains_q hi hp]
      rw [r1_isEmpty_q hi] at h
      exact (C19.r1_isEmpty_iff_no_points (QR1 i)).1 h (q p)
    · exact r1_contains_nan hp
  · intro h
    rw [r1_isEmpty_q hi, C19.r1_isEmpty_iff_no_points]
    intro v
    have := h v.1
    rwa [r1_contains_q hi (nn_val v), q_val] at this

/-- the canonical empty interval `[1, 0]` has no point -/
theorem r1_empty_no_points_f64 (p : F64) : (R1.empty : R1 F64).contains p = false :=
  (r1_isEmpty_iff_no_points_f64 _ r1_empty_nn).1 (by decide +kernel) p

/-- Union contains every point of both operands. -/
theorem r1_union_contains_f64 (i o : R1 F64) (hi : NN1 i) (ho : NN1 o) (p : F64)
    (h : i.contains p = true ∨ o.contains p = true) : (i.union o).contains p = true := by
  have hp : NN p := by rcases h with h | h <;> exact nn_of_r1_contains h
  obtain ⟨hn, hq⟩ := r1_union_q hi ho
  rw [r1_contains_q hn hp, hq]
  rw [r1_contains_q hi hp, r1_contains_q ho hp] at h
  exact C19.r1_union_contains _ _ _ h

/-- Union is the smallest interval doing so. -/
theorem r1_union_least_f64 (i o k : R1 F64) (hi : NN1 i) (ho : NN1 o) (hk : NN1 k)
    (h1 : k.containsInterval i = true) (h2 : k.containsInterval o = true) :
    k.containsInterval (i.union o) = true := by
  obtain ⟨hn, hq⟩ := r1_union_q hi ho
  rw [r1_containsInterval_q hk hn, hq]
  rw [r1_containsInterval_q hk hi] at h1
  rw [r1_containsInterval_q hk ho] at h2
  exact C19.r1_union_least _ _ _ h1 h2

/-- Intersection has exactly the common points. -/
theorem r1_intersection_iff_f64 (i o : R1 F64) (hi : NN1 i) (ho : NN1 o) (p : F64) :
    (i.intersection o).contains p = true ↔ (i.contains p = true ∧ o.contains p = true) := by
  by_cases hp : NN p
  · obtain ⟨hn, hq⟩ := r1_intersection_q hi ho
    rw [r1_contains_q hn hp, hq, r1_contains_q hi hp, r1_contains_q ho hp]
    exact C19.r1_intersection_iff _ _ _
  · simp [r1_contains_nan hp]

/-- ContainsInterval agrees with point membership. -/
theorem r1_containsInterval_iff_f64 (i o : R1 F64) (hi : NN1 i) (ho : NN1 o) :
    i.containsInterval o = true ↔ ∀ p, o.contains p = true → i.contains p = true := by
  rw [r1_containsInterval_q hi ho, C19.r1_containsInterval_iff]
  constructor
  · intro h p hp
    have np := nn_of_r1_contains hp
    rw [r1_contains_q hi np]
    rw [r1_contains_q ho np] at hp
    exact h _ hp
  · intro h v hv
    have := h v.1
    rw [r1_contains_q ho (nn_val v), r1_contains_q hi (nn_val v), q_val] at this
    exact this hv

/-- Intersects agrees with point membership (a common float exists). -/
theorem r1_intersects_iff_common_point_f64 (i o : R1 F64) (hi : NN1 i) (ho : NN1 o) :
    i.intersects o = true ↔ ∃ p, i.contains p = true ∧ o.contains p = true := by
  rw [r1_intersects_q hi ho, C19.r1_intersects_iff_common_point]
  constructor
  · rintro ⟨v, h1, h2⟩
    refine ⟨v.1, ?_, ?_⟩
    · rw [r1_contains_q hi (nn_val v), q_val]; exact h1
    · rw [r1_contains_q ho (nn_val v), q_val]; exact h2
  · rintro ⟨p, h1, h2⟩
    have np := nn_of_r1_contains h1
    exact ⟨q p, by rwa [← r1_contains_q hi np], by rwa [← r1_contains_q ho np]⟩

/-- the intersection is empty exactly when `Intersects` is false -/
theorem r1_intersection_isEmpty_iff_f64 (i o : R1 F64) (hi : NN1 i) (ho : NN1 o) :
    (i.intersection o).isEmpty = true ↔ i.intersects o = false := by
  obtain ⟨hn, hq⟩ := r1_intersection_q hi ho
  rw [r1_isEmpty_q hn, hq, r1_intersects_q hi ho]
  exact C19.r1_intersection_isEmpty_iff _ _

/-- InteriorContains = membership without the two endpoints (`!=` is the float comparison). -/
theorem r1_interiorContains_iff_f64 (i : R1 F64) (hi : NN1 i) (p : F64) :
    i.interiorContains p = true ↔ (i.contains p = true ∧ F64.feq p i.lo = false ∧ F64.feq p i.hi = false) := by
  by_cases hp : NN p
  · have e1 : F64.feq p i.lo = feq (q p) (q i.lo) := feq_q hp hi.1
    have e2 : F64.feq p i.hi = feq (q p) (q i.hi) := feq_q hp hi.2
    rw [r1_interiorContains_q hi hp, r1_contains_q hi hp, e1, e2, C19.r1_interiorContains_iff,
      ← Bool.not_eq_true, ← Bool.not_eq_true, IvlLaws.feq_iff, IvlLaws.feq_iff]
    rfl
  · constructor
    · intro h; exact absurd (nn_of_r1_interiorContains h) hp
    · intro h; exact absurd (nn_of_r1_contains h.1) hp

/-- InteriorContainsInterval agrees with interior membership of every point of the other. -/
theorem r1_interiorContainsInterval_iff_f64 (i o : R1 F64) (hi : NN1 i) (ho : NN1 o) :
    i.interiorContainsInterval o = true ↔ ∀ p, o.contains p = true → i.interiorContains p = true := by
  rw [r1_interiorContainsInterval_q hi ho, C19.r1_interiorContainsInterval_iff]
  constructor
  · intro h p hp
    have np := nn_of_r1_contains hp
    rw [r1_interiorContains_q hi np]
    rw [r1_contains_q ho np] at hp
    exact h _ hp
  · intro h v hv
    have := h v.1
    rw [r1_contains_q ho (nn_val v), r1_interiorContains_q hi (nn_val v), q_val] at this
    exact this hv

/-- InteriorIntersects, the direction that holds on the float grid: a float of `o` in the interior of `i`
    forces `InteriorIntersects`. -/
theorem r1_interiorIntersects_of_point_f64 (i o : R1 F64) (hi : NN1 i) (ho : NN1 o) (p : F64)
    (h1 : i.interiorContains p = true) (h2 : o.contains p = true) : i.interiorIntersects o = true := by
  have np := nn_of_r1_contains h2
  rw [r1_interiorIntersects_q hi ho]
  apply r1_interiorIntersects_of_point
  exact ⟨q p, by rwa [← r1_interiorContains_q hi np], by rwa [← r1_contains_q ho np]⟩

/-- AddPoint: the result contains the new point and every old point. -/
theorem r1_addPoint_contains_f64 (i : R1 F64) (hi : NN1 i) (p r : F64) (hp : NN p) :
    (i.addPoint p).contains p = true ∧ (i.contains r = true → (i.addPoint p).contains r = true) := by
  obtain ⟨hn, hq⟩ := r1_addPoint_q hi hp
  have g := C19.r1_addPoint_contains (QR1 i) (q p)
  constructor
  · rw [r1_contains_q hn hp, hq]; exact (g (q p)).1
  · intro hr
    have nr := nn_of_r1_contains hr
    rw [r1_contains_q hn nr, hq]
    rw [r1_contains_q hi nr] at hr
    exact (g (q r)).2 hr

/-- ClampPoint of a non-empty interval lands inside; and it fixes the points of the interval (up to `==`:
    clamping `-0` into `[+0, 1]` returns `+0`). -/
theorem r1_clampPoint_inside_f64 (i : R1 F64) (hi : NN1 i) (p : F64) (hp : NN p) (hne : i.isEmpty = false) :
    i.contains (i.clampPoint p) = true ∧ (i.contains p = true → F64.feq (i.clampPoint p) p = true) := by
  obtain ⟨hn, hq⟩ := r1_clampPoint_q hi hp
  rw [r1_isEmpty_q hi] at hne
  have g := C19.r1_clampPoint_inside (QR1 i) (q p) hne
  constructor
  · rw [r1_contains_q hi hn, hq]; exact g.1
  · intro hc
    rw [r1_contains_q hi hp] at hc
    have e : F64.feq (i.clampPoint p) p = feq (q (i.clampPoint p)) (q p) := feq_q hn hp
    rw [e, IvlLaws.feq_iff, hq]
    exact g.2 hc

/-- Expanded by a non-negative finite margin keeps every original point (also when `hi + margin` overflows
    to `+∞`). -/
theorem r1_expanded_contains_f64 (H : F64ArithFacts) (i : R1 F64) (hi : Fin1 i) (m p : F64) (hm : Fin m)
    (h0 : F64.le (F64.zero false) m = true) (h : i.contains p = true) : (i.expanded m).contains p = true := by
  have := arithLaws H
  have np := nn_of_r1_contains h
  obtain ⟨hn, hq⟩ := r1_expanded_q hi hm
  rw [r1_contains_q hn np, hq]
  rw [r1_contains_q (nn1_of_fin1 hi) np] at h
  have h0' : (zero : V) ≤ q m := (le_q (zero_nn false) (nn_of_fin hm)).1 h0
  exact C19.r1_expanded_contains _ _ _ h0' h

/-- Equal agrees with having the same points. -/
theorem r1_equal_iff_f64 (i o : R1 F64) (hi : NN1 i) (ho : NN1 o) :
    i.equal o = true ↔ ∀ p, i.contains p = true ↔ o.contains p = true := by
  rw [r1_equal_q hi ho, C19.r1_equal_iff]
  constructor
  · intro h p
    by_cases hp : NN p
    · rw [r1_contains_q hi hp, r1_contains_q ho hp]; exact h _
    · simp [r1_contains_nan hp]
  · intro h v
    have := h v.1
    rwa [r1_contains_q hi (nn_val v), r1_contains_q ho (nn_val v), q_val] at this

/-! ## r2.Rect (no coordinate is a NaN; a rectangle is valid iff x is empty exactly when y is) -/

theorem r2_empty_no_points_f64 (p : R2Point F64) :
    (R2Rect.empty : R2Rect F64).isValid = true ∧ (R2Rect.empty : R2Rect F64).containsPoint p = false := by
  refine ⟨by decide +kernel, ?_⟩
  by_cases hp : NNP p
  · rw [r2_containsPoint_q r2_empty_nn hp, r2_empty_q]
    exact (C19.r2_empty_no_points (QP p)).2
  · exact r2_containsPoint_nan hp

/-- Union (= AddRect) contains every point of both operands. -/
theorem r2_union_contains_f64 (r o : R2Rect F64) (hr : NN2 r) (ho : NN2 o) (vr : r.isValid = true)
    (vo : o.isValid = true) (p : R2Point F64) (h : r.containsPoint p = true ∨ o.containsPoint p = true) :
    (r.union o).containsPoint p = true := by
  have hp : NNP p := by rcases h with h | h <;> exact nnp_of_r2_containsPoint h
  obtain ⟨hn, hq⟩ := r2_union_q hr ho
  rw [r2_containsPoint_q hn hp, hq]
  rw [r2_containsPoint_q hr hp, r2_containsPoint_q ho hp] at h
  rw [r2_isValid_q hr] at vr
  rw [r2_isValid_q ho] at vo
  exact C19.r2_union_contains _ _ vr vo _ h

theorem r2_union_valid_f64 (r o : R2Rect F64) (hr : NN2 r) (ho : NN2 o) (vr : r.isValid = true)
    (vo : o.isValid = true) : (r.union o).isValid = true := by
  obtain ⟨hn, hq⟩ := r2_union_q hr ho
  rw [r2_isValid_q hn, hq]
  rw [r2_isValid_q hr] at vr
  rw [r2_isValid_q ho] at vo
  exact C19.r2_union_valid _ _ vr vo

/-- Intersection has exactly the common points and is always valid. -/
theorem r2_intersection_iff_f64 (r o : R2Rect F64) (hr : NN2 r) (ho : NN2 o) (p : R2Point F64) :
    ((r.intersection o).containsPoint p = true ↔ (r.containsPoint p = true ∧ o.containsPoint p = true)) ∧
    (r.intersection o).isValid = true := by
  obtain ⟨hn, hq⟩ := r2_intersection_q hr ho
  constructor
  · by_cases hp : NNP p
    · rw [r2_containsPoint_q hn hp, hq, r2_containsPoint_q hr hp, r2_containsPoint_q ho hp]
      exact (C19.r2_intersection_iff _ _ _).1
    · simp [r2_containsPoint_nan hp]
  · rw [r2_isValid_q hn, hq]
    exact (C19.r2_intersection_iff _ _ (QP ⟨F64.zero false, F64.zero false⟩)).2

/-- Contains(Rect) agrees with point membership (the other rectangle must be valid). -/
theorem r2_contains_iff_f64 (r o : R2Rect F64) (hr : NN2 r) (ho : NN2 o) (vo : o.isValid = true) :
    r.contains o = true ↔ ∀ p, o.containsPoint p = true → r.containsPoint p = true := by
  rw [r2_isValid_q ho] at vo
  rw [r2_contains_q hr ho, C19.r2_contains_iff _ _ vo]
  constructor
  · intro h p hp
    have np := nnp_of_r2_containsPoint hp
    rw [r2_containsPoint_q hr np]
    rw [r2_containsPoint_q ho np] at hp
    exact h _ hp
  · intro h v hv
    have np : NNP ⟨v.x.1, v.y.1⟩ := ⟨nn_val _, nn_val _⟩
    have := h ⟨v.x.1, v.y.1⟩
    rw [r2_containsPoint_q ho np, r2_containsPoint_q hr np, QP_val] at this
    exact this hv

/-- InteriorContains(Rect) agrees with interior point membership. -/
theorem r2_interiorContains_iff_f64 (r o : R2Rect F64) (hr : NN2 r) (ho : NN2 o) (vo : o.isValid = true) :
    r.interiorContains o = true ↔ ∀ p, o.containsPoint p = true → r.interiorContainsPoint p = true := by
  rw [r2_isValid_q ho] at vo
  rw [r2_interiorContains_q hr ho, C19.r2_interiorContains_iff _ _ vo]
  constructor
  · intro h p hp
    have np := nnp_of_r2_containsPoint hp
    rw [r2_interiorContainsPoint_q hr np]
    rw [r2_containsPoint_q ho np] at hp
    exact h _ hp
  · intro h v hv
    have np : NNP ⟨v.x.1, v.y.1⟩ := ⟨nn_val _, nn_val _⟩
    have := h ⟨v.x.1, v.y.1⟩
    rw [r2_containsPoint_q ho np, r2_interiorContainsPoint_q hr np, QP_val] at this
    exact this hv

/-- Intersects agrees with point membership. -/
theorem r2_intersects_iff_common_point_f64 (r o : R2Rect F64) (hr : NN2 r) (ho : NN2 o) :
    r.intersects o = true ↔ ∃ p, r.containsPoint p = true ∧ o.containsPoint p = true := by
  rw [r2_intersects_q hr ho, C19.r2_intersects_iff_common_point]
  constructor
  · rintro ⟨v, h1, h2⟩
    have np : NNP ⟨v.x.1, v.y.1⟩ := ⟨nn_val _, nn_val _⟩
    refine ⟨⟨v.x.1, v.y.1⟩, ?_, ?_⟩
    · rw [r2_containsPoint_q hr np, QP_val]; exact h1
    · rw [r2_containsPoint_q ho np, QP_val]; exact h2
  · rintro ⟨p, h1, h2⟩
    have np := nnp_of_r2_containsPoint h1
    exact ⟨QP p, by rwa [← r2_containsPoint_q hr np], by rwa [← r2_containsPoint_q ho np]⟩

/-- AddPoint: valid, contains the new point and all old points. -/
theorem r2_addPoint_contains_f64 (r : R2Rect F64) (hr : NN2 r) (vr : r.isValid = true) (p t : R2Point F64)
    (hp : NNP p) :
    (r.addPoint p).isValid = true ∧ (r.addPoint p).containsPoint p = true ∧
    (r.containsPoint t = true → (r.addPoint p).containsPoint t = true) := by
  obtain ⟨hn, hq⟩ := r2_addPoint_q hr hp
  rw [r2_isValid_q hr] at vr
  refine ⟨?_, ?_, ?_⟩
  · rw [r2_isValid_q hn, hq]; exact (C19.r2_addPoint_contains _ vr _ (QP p)).1
  · rw [r2_containsPoint_q hn hp, hq]; exact (C19.r2_addPoint_contains _ vr _ (QP p)).2.1
  · intro ht
    have nt := nnp_of_r2_containsPoint ht
    rw [r2_containsPoint_q hn nt, hq]
    rw [r2_containsPoint_q hr nt] at ht
    exact (C19.r2_addPoint_contains _ vr _ (QP t)).2.2 ht

/-- ClampPoint of a non-empty valid rectangle lands inside. -/
theorem r2_clampPoint_inside_f64 (r : R2Rect F64) (hr : NN2 r) (vr : r.isValid = true) (hne : r.isEmpty = false)
    (p : R2Point F64) (hp : NNP p) : r.containsPoint (r.clampPoint p) = true := by
  obtain ⟨hn, hq⟩ := r2_clampPoint_q hr hp
  rw [r2_isValid_q hr] at vr
  rw [r2_isEmpty_q hr] at hne
  rw [r2_containsPoint_q hr hn, hq]
  exact C19.r2_clampPoint_inside _ vr hne _

/-- Expanded by non-negative finite margins keeps every point; the result is always valid. -/
theorem r2_expanded_contains_f64 (H : F64ArithFacts) (r : R2Rect F64) (hr : Fin2 r) (m p : R2Point F64)
    (hm : FinP m) (hx : F64.le (F64.zero false) m.x = true) (hy : F64.le (F64.zero false) m.y = true) :
    (r.expanded m).isValid = true ∧ (r.containsPoint p = true → (r.expanded m).containsPoint p = true) := by
  have := arithLaws H
  obtain ⟨hn, hq⟩ := r2_expanded_q hr hm
  have hx' : (zero : V) ≤ (QP m).x := (le_q (zero_nn false) (nn_of_fin hm.1)).1 hx
  have hy' : (zero : V) ≤ (QP m).y := (le_q (zero_nn false) (nn_of_fin hm.2)).1 hy
  constructor
  · rw [r2_isValid_q hn, hq]
    exact (C19.r2_expanded_contains _ _ (QP m) hx' hy').1
  · intro hc
    have np := nnp_of_r2_containsPoint hc
    rw [r2_containsPoint_q hn np, hq]
    rw [r2_containsPoint_q (nn2_of_fin2 hr) np] at hc
    exact (C19.r2_expanded_contains _ _ (QP p) hx' hy').2 hc

/-- Expanded is valid for finite margins of any sign. -/
theorem r2_expanded_valid_f64 (r : R2Rect F64) (hr : Fin2 r) (m : R2Point F64) (hm : FinP m) :
    (r.expanded m).isValid = true := by
  obtain ⟨hn, hq⟩ := r2_expanded_q hr hm
  rw [r2_isValid_q hn, hq]
  exact C19.r2_expanded_valid _ _

/-! ## s1.Interval — all VALID intervals (incl. empty, full, singleton, inverted, endpoints at ±π; validity implies
that both endpoints are finite floats in `[-π, π]`) and all float points of `[-π, π]` (`VPt`).
`Union`, `Intersection`, `AddPoint`, `Project`, `IntervalFromPointPair` need NO arithmetic fact: whatever the rounded
`positiveDistance` / `Length` comparisons inside them return, both answers are correct (B-variants in `F64Transfer`). -/

/-- empty and full are valid, empty has no point, full has every point -/
theorem s1_empty_full_f64 (p : F64) (hp : VPt p) :
    (S1.empty : S1 F64).isValid = true ∧ (S1.full : S1 F64).isValid = true ∧
    (S1.empty : S1 F64).contains p = false ∧ (S1.full : S1 F64).contains p = true := by
  have g := C19.s1_empty_full (q p) (vpt_q hp)
  refine ⟨by decide +kernel, by decide +kernel, ?_, ?_⟩
  · rw [s1_contains_q s1_empty_nn (nn_of_vpt hp), s1_empty_q]; exact g.2.2.1
  · rw [s1_contains_q s1_full_nn (nn_of_vpt hp), s1_full_q]; exact g.2.2.2

/-- IsEmpty says exactly "no float of [-π, π] is a point" (valid intervals). -/
theorem s1_isEmpty_iff_no_points_f64 (i : S1 F64) (hi : i.isValid = true) :
    i.isEmpty = true ↔ ∀ p, VPt p → i.contains p = false := by
  obtain ⟨ni, vi⟩ := s1_valid_q hi
  rw [s1_isEmpty_q ni, C19.s1_isEmpty_iff_no_points _ vi]
  constructor
  · intro h p hp
    rw [s1_contains_q ni (nn_of_vpt hp)]; exact h _ (vpt_q hp)
  · intro h v hv
    have := h v.1 (vpt_val hv)
    rwa [s1_contains_q ni (nn_val v), q_val] at this

/-- Union contains every point of both operands. -/
theorem s1_union_contains_f64 (i o : S1 F64) (hi : i.isValid = true) (ho : o.isValid = true) (p : F64)
    (hp : VPt p) (h : i.contains p = true ∨ o.contains p = true) : (i.union o).contains p = true := by
  obtain ⟨ni, vi⟩ := s1_valid_q hi
  obtain ⟨no, vo⟩ := s1_valid_q ho
  have np := nn_of_vpt hp
  rw [union_eq_B]
  obtain ⟨hn, hq⟩ := s1_unionB_q (decide (S1.positiveDistance o.hi i.lo < S1.positiveDistance i.hi o.lo)) ni no
  rw [s1_contains_q hn np, hq]
  rw [s1_contains_q ni np, s1_contains_q no np] at h
  exact s1_unionB_contains _ _ _ vi vo _ (vpt_q hp) h

/-- Union of valid intervals is valid. -/
theorem s1_union_valid_f64 (i o : S1 F64) (hi : i.isValid = true) (ho : o.isValid = true) :
    (i.union o).isValid = true := by
  obtain ⟨ni, vi⟩ := s1_valid_q hi
  obtain ⟨no, vo⟩ := s1_valid_q ho
  rw [union_eq_B]
  obtain ⟨hn, hq⟩ := s1_unionB_q (decide (S1.positiveDistance o.hi i.lo < S1.positiveDistance i.hi o.lo)) ni no
  rw [s1_isValid_q hn, hq]
  exact s1_unionB_valid _ _ _ vi vo

/-- the union is the empty interval only if both operands are -/
theorem s1_union_isEmpty_iff_f64 (i o : S1 F64) (hi : i.isValid = true) (ho : o.isValid = true) :
    (i.union o).isEmpty = true ↔ (i.isEmpty = true ∧ o.isEmpty = true) := by
  obtain ⟨ni, vi⟩ := s1_valid_q hi
  obtain ⟨no, vo⟩ := s1_valid_q ho
  rw [union_eq_B]
  obtain ⟨hn, hq⟩ := s1_unionB_q (decide (S1.positiveDistance o.hi i.lo < S1.positiveDistance i.hi o.lo)) ni no
  rw [s1_isEmpty_q hn, hq, s1_isEmpty_q ni, s1_isEmpty_q no]
  exact s1_unionB_isEmpty_iff _ _ _ vi vo

/-- Intersection contains every common point. -/
theorem s1_intersection_contains_common_f64 (i o : S1 F64) (hi : i.isValid = true) (ho : o.isValid = true)
    (p : F64) (hp : VPt p) (h1 : i.contains p = true) (h2 : o.contains p = true) :
    (i.intersection o).contains p = true := by
  obtain ⟨ni, vi⟩ := s1_valid_q hi
  obtain ⟨no, vo⟩ := s1_valid_q ho
  have np := nn_of_vpt hp
  rw [intersection_eq_B]
  obtain ⟨hn, hq⟩ := s1_intersectionB_q (decide (o.length < i.length)) ni no
  rw [s1_contains_q hn np, hq]
  rw [s1_contains_q ni np] at h1
  rw [s1_contains_q no np] at h2
  exact s1_intersectionB_contains_common _ _ _ vi vo _ (vpt_q hp) h1 h2

/-- Intersection contains no point that lies in neither operand. -/
theorem s1_intersection_no_stranger_f64 (i o : S1 F64) (hi : i.isValid = true) (ho : o.isValid = true)
    (p : F64) (hp : VPt p) (h : (i.intersection o).contains p = true) :
    i.contains p = true ∨ o.contains p = true := by
  obtain ⟨ni, vi⟩ := s1_valid_q hi
  obtain ⟨no, vo⟩ := s1_valid_q ho
  have np := nn_of_vpt hp
  rw [intersection_eq_B] at h
  obtain ⟨hn, hq⟩ := s1_intersectionB_q (decide (o.length < i.length)) ni no
  rw [s1_contains_q hn np, hq] at h
  rw [s1_contains_q ni np, s1_contains_q no np]
  exact s1_intersectionB_no_stranger _ _ _ vi vo _ (vpt_q hp) h

/-- Intersection of valid intervals is valid. -/
theorem s1_intersection_valid_f64 (i o : S1 F64) (hi : i.isValid = true) (ho : o.isValid = true) :
    (i.intersection o).isValid = true := by
  obtain ⟨ni, vi⟩ := s1_valid_q hi
  obtain ⟨no, vo⟩ := s1_valid_q ho
  rw [intersection_eq_B]
  obtain ⟨hn, hq⟩ := s1_intersectionB_q (decide (o.length < i.length)) ni no
  rw [s1_isValid_q hn, hq]
  exact s1_intersectionB_valid _ _ _ vi vo

/-- The intersection is the empty interval exactly when `Intersects` is false. -/
theorem s1_intersection_isEmpty_iff_f64 (i o : S1 F64) (hi : i.isValid = true) (ho : o.isValid = true) :
    (i.intersection o).isEmpty = true ↔ i.intersects o = false := by
  obtain ⟨ni, vi⟩ := s1_valid_q hi
  obtain ⟨no, vo⟩ := s1_valid_q ho
  rw [intersection_eq_B]
  obtain ⟨hn, hq⟩ := s1_intersectionB_q (decide (o.length < i.length)) ni no
  rw [s1_isEmpty_q hn, hq, s1_intersects_q ni no]
  exact s1_intersectionB_isEmpty_iff _ _ _ vi vo

/-- ContainsInterval is sound: it implies containment of every point. -/
theorem s1_containsInterval_sound_f64 (i o : S1 F64) (hi : i.isValid = true) (ho : o.isValid = true)
    (h : i.containsInterval o = true) (p : F64) (hp : VPt p) (hop : o.contains p = true) :
    i.contains p = true := by
  obtain ⟨ni, vi⟩ := s1_valid_q hi
  obtain ⟨no, vo⟩ := s1_valid_q ho
  have np := nn_of_vpt hp
  rw [s1_containsInterval_q ni no] at h
  rw [s1_contains_q no np] at hop
  rw [s1_contains_q ni np]
  exact C19.s1_containsInterval_sound _ _ vi vo h _ (vpt_q hp) hop

/-- Intersects agrees with membership: true iff the two intervals have a common float of [-π, π]. -/
theorem s1_intersects_iff_common_point_f64 (i o : S1 F64) (hi : i.isValid = true) (ho : o.isValid = true) :
    i.intersects o = true ↔ ∃ p, VPt p ∧ i.contains p = true ∧ o.contains p = true := by
  obtain ⟨ni, vi⟩ := s1_valid_q hi
  obtain ⟨no, vo⟩ := s1_valid_q ho
  rw [s1_intersects_q ni no, C19.s1_intersects_iff_common_point _ _ vi vo]
  constructor
  · rintro ⟨v, hv, h1, h2⟩
    refine ⟨v.1, vpt_val hv, ?_, ?_⟩
    · rw [s1_contains_q ni (nn_val v), q_val]; exact h1
    · rw [s1_contains_q no (nn_val v), q_val]; exact h2
  · rintro ⟨p, hp, h1, h2⟩
    have np := nn_of_vpt hp
    exact ⟨q p, vpt_q hp, by rwa [← s1_contains_q ni np], by rwa [← s1_contains_q no np]⟩

/-- InteriorContains implies Contains. -/
theorem s1_interiorContains_contains_f64 (i : S1 F64) (hi : i.isValid = true) (p : F64) (hp : VPt p)
    (h : i.interiorContains p = true) : i.contains p = true := by
  obtain ⟨ni, vi⟩ := s1_valid_q hi
  have np := nn_of_vpt hp
  rw [s1_interiorContains_q ni np] at h
  rw [s1_contains_q ni np]
  exact C19.s1_interiorContains_contains _ vi _ (vpt_q hp) h

/-- InteriorContainsInterval is sound: every point of `o` is an interior point of `i`. -/
theorem s1_interiorContainsInterval_sound_f64 (i o : S1 F64) (hi : i.isValid = true) (ho : o.isValid = true)
    (h : i.interiorContainsInterval o = true) (p : F64) (hp : VPt p) (hop : o.contains p = true) :
    i.interiorContains p = true := by
  obtain ⟨ni, vi⟩ := s1_valid_q hi
  obtain ⟨no, vo⟩ := s1_valid_q ho
  have np := nn_of_vpt hp
  rw [s1_interiorContainsInterval_q ni no] at h
  rw [s1_contains_q no np] at hop
  rw [s1_interiorContains_q ni np]
  exact C19.s1_interiorContainsInterval_sound _ _ vi vo h _ (vpt_q hp) hop

/-- InteriorContainsInterval is complete EVEN over the float grid: if every float of `o` is an interior point of
    `i` then it answers true (the generic theorem asks for a dense carrier; it is not needed, see
    `s1_interiorContainsInterval_complete_grid`). -/
theorem s1_interiorContainsInterval_complete_f64 (i o : S1 F64) (hi : i.isValid = true) (ho : o.isValid = true)
    (h : ∀ p, VPt p → o.contains p = true → i.interiorContains p = true) :
    i.interiorContainsInterval o = true := by
  obtain ⟨ni, vi⟩ := s1_valid_q hi
  obtain ⟨no, vo⟩ := s1_valid_q ho
  rw [s1_interiorContainsInterval_q ni no]
  apply s1_interiorContainsInterval_complete_grid _ _ vi vo
  intro v hv hc
  have := h v.1 (vpt_val hv)
  rw [s1_contains_q no (nn_val v), s1_interiorContains_q ni (nn_val v), q_val] at this
  exact this hc

/-- InteriorIntersects is sound: a point of `o` in the interior of `i` forces it. -/
theorem s1_interiorIntersects_sound_f64 (i o : S1 F64) (hi : i.isValid = true) (ho : o.isValid = true)
    (p : F64) (hp : VPt p) (h2 : i.interiorContains p = true) (h3 : o.contains p = true) :
    i.interiorIntersects o = true := by
  obtain ⟨ni, vi⟩ := s1_valid_q hi
  obtain ⟨no, vo⟩ := s1_valid_q ho
  have np := nn_of_vpt hp
  rw [s1_interiorContains_q ni np] at h2
  rw [s1_contains_q no np] at h3
  rw [s1_interiorIntersects_q ni no]
  exact C19.s1_interiorIntersects_sound _ _ vi vo _ (vpt_q hp) h2 h3

/-- AddPoint: the result is valid, contains the new point and every old point. -/
theorem s1_addPoint_contains_f64 (i : S1 F64) (hi : i.isValid = true) (p r : F64) (hp : VPt p) (hr : VPt r) :
    (i.addPoint p).isValid = true ∧ (i.addPoint p).contains p = true ∧
    (i.contains r = true → (i.addPoint p).contains r = true) := by
  obtain ⟨ni, vi⟩ := s1_valid_q hi
  have np := nn_of_vpt hp
  have nr := nn_of_vpt hr
  rw [addPoint_eq_B]
  obtain ⟨hn, hq⟩ := s1_addPointB_q (decide (S1.positiveDistance (S1.normPoint p) i.lo <
      S1.positiveDistance i.hi (S1.normPoint p))) ni np
  rw [s1_isValid_q hn, s1_contains_q hn np, s1_contains_q hn nr, s1_contains_q ni nr, hq]
  exact s1_addPointB_contains _ _ vi _ _ (vpt_q hp) (vpt_q hr)

/-- AddPoint ignores (non-NaN) points outside [-π, π] (documented). -/
theorem s1_addPoint_out_of_range_f64 (i : S1 F64) (p : F64) (np : NN p) (hp : ¬ VPt p) :
    i.addPoint p = i := by
  have h1 : F64.lt (pi : F64) (F64.abs p) = true := by
    rw [lt_iff_key nn_pi (nn_abs np), key_abs np]
    have : ¬ (F64.le (negPi : F64) p = true ∧ F64.le p (pi : F64) = true) := hp
    rw [le_iff_key nn_negPi np, le_iff_key np nn_pi] at this
    have e : key (negPi : F64) = - key (pi : F64) := by decide +kernel
    rw [e, ← abs_le] at this
    exact not_le.1 this
  unfold S1.addPoint
  have : ((pi : F64) < IvlOps.abs p) := h1
  simp only [this, if_true]

/-- Complement: valid, and together with the original it covers the whole circle; moreover no
    interior point of the original belongs to the complement. -/
theorem s1_complement_covers_f64 (i : S1 F64) (hi : i.isValid = true) (p : F64) (hp : VPt p) :
    i.complement.isValid = true ∧ (i.contains p = true ∨ i.complement.contains p = true) ∧
    (i.interiorContains p = true → i.complement.contains p = false) := by
  obtain ⟨ni, vi⟩ := s1_valid_q hi
  have np := nn_of_vpt hp
  obtain ⟨hn, hq⟩ := s1_complement_q ni
  rw [s1_isValid_q hn, s1_contains_q hn np, s1_contains_q ni np, s1_interiorContains_q ni np, hq]
  exact C19.s1_complement_covers _ vi _ (vpt_q hp)

/-- Project of a non-empty interval lands inside, and returns the (normalised) point itself when it is inside. -/
theorem s1_project_inside_f64 (i : S1 F64) (hi : i.isValid = true) (hne : i.isEmpty = false) (p : F64)
    (hp : VPt p) :
    i.contains (i.project p) = true ∧ (i.contains p = true → i.project p = S1.normPoint p) := by
  obtain ⟨ni, vi⟩ := s1_valid_q hi
  have np := nn_of_vpt hp
  constructor
  · rw [project_eq_B]
    obtain ⟨hn, hq⟩ := s1_projectB_q (decide (S1.positiveDistance (S1.normPoint p) i.lo <
        S1.positiveDistance i.hi (S1.normPoint p))) ni np
    rw [s1_isEmpty_q ni] at hne
    rw [s1_contains_q ni hn, hq]
    exact (s1_projectB_inside _ _ vi hne _ (vpt_q hp)).1
  · intro hc
    unfold S1.contains at hc
    unfold S1.project
    simp only [hc, if_true]

/-- IntervalFromPointPair: valid and contains both points. -/
theorem s1_fromPointPair_contains_f64 (a b : F64) (ha : VPt a) (hb : VPt b) :
    (S1.fromPointPair a b).isValid = true ∧ (S1.fromPointPair a b).contains a = true ∧
    (S1.fromPointPair a b).contains b = true := by
  have na := nn_of_vpt ha
  have nb := nn_of_vpt hb
  rw [fromPointPair_eq_B]
  obtain ⟨hn, hq⟩ := s1_fromPointPairB_q (decide (S1.positiveDistance (if feq a (negPi : F64) then pi else a)
      (if feq b (negPi : F64) then pi else b) ≤ (pi : F64))) na nb
  rw [s1_isValid_q hn, s1_contains_q hn na, s1_contains_q hn nb, hq]
  exact s1_fromPointPairB_contains _ _ _ (vpt_q ha) (vpt_q hb)

/-- IntervalFromEndpoints: valid for endpoints in [-π, π]; unless the result is the empty interval
    `[π, -π]` it contains both endpoints. -/
theorem s1_fromEndpoints_valid_f64 (lo hi : F64) (hl : VPt lo) (hh : VPt hi) :
    (S1.fromEndpoints lo hi).isValid = true ∧
    ((S1.fromEndpoints lo hi).isEmpty = false →
      (S1.fromEndpoints lo hi).contains lo = true ∧ (S1.fromEndpoints lo hi).contains hi = true) := by
  have nl := nn_of_vpt hl
  have nh := nn_of_vpt hh
  obtain ⟨hn, hq⟩ := s1_fromEndpoints_q nl nh
  rw [s1_isValid_q hn, s1_isEmpty_q hn, s1_contains_q hn nl, s1_contains_q hn nh, hq]
  exact C19.s1_fromEndpoints_valid _ _ (vpt_q hl) (vpt_q hh)

/-- Length is negative exactly for the empty interval (finite endpoints; no validity needed). -/
theorem s1_length_neg_iff_isEmpty_f64 (i : S1 F64) (hi : FinS i) :
    F64.lt i.length (F64.zero false) = true ↔ i.isEmpty = true := by
  obtain ⟨hn, hq⟩ := s1_length_q hi
  have e : F64.lt i.length (F64.zero false) = true ↔ q i.length < (zero : V) := lt_q hn nn_zero
  rw [e, hq, s1_isEmpty_q (nns_of_fins hi)]
  exact C19.s1_length_neg_iff_isEmpty _

/-- the expansion before the final containment check is a valid interval -/
theorem s1_expandedRaw_valid_f64 (H : F64ArithFacts) (i : S1 F64) (hi : VS i) (m : F64) (hm : MarginOK m) :
    (i.expandedRaw m).isValid = true := by
  have := arithLaws H
  obtain ⟨hn, hq⟩ := s1_expandedRaw_q H hi (fin_of_marginOK hm) hm
  rw [s1_isValid_q hn, hq]
  exact C19.s1_expandedRaw_valid _ _

/-- Expanded (margin of any sign) returns a valid interval. -/
theorem s1_expanded_valid_f64 (H : F64ArithFacts) (i : S1 F64) (hi : i.isValid = true) (m : F64)
    (hm : MarginOK m) : (i.expanded m).isValid = true := by
  have hr := s1_expandedRaw_valid_f64 H i (vs_of_valid hi) m hm
  have hf : (S1.full : S1 F64).isValid = true := by decide +kernel
  have he : (S1.empty : S1 F64).isValid = true := by decide +kernel
  unfold S1.expanded S1.expandedTail
  dsimp only
  split_ifs <;> assumption

/-- Expanded by a non-negative margin keeps every original point: the result is `i`, Full, or an interval that
    passed the `ContainsInterval(i)` test of repair 636e942 (sound by `s1_containsInterval_sound_f64`). -/
theorem s1_expanded_contains_f64 (H : F64ArithFacts) (i : S1 F64) (hi : i.isValid = true) (m p : F64)
    (hm : MarginOK m) (h0 : F64.le (F64.zero false) m = true) (hp : VPt p) (h : i.contains p = true) :
    (i.expanded m).contains p = true := by
  have hr := s1_expandedRaw_valid_f64 H i (vs_of_valid hi) m hm
  have hf := (s1_empty_full_f64 p hp).2.2.2
  have h0' : (zero : F64) ≤ m := h0
  unfold S1.expanded S1.expandedTail
  dsimp only
  simp only [h0', if_true, decide_true, Bool.true_and]
  split_ifs with c1 c2 c3
  · exact h
  · exact hf
  · exact hf
  · simp only [Bool.not_eq_true', Bool.not_eq_false] at c3
    exact s1_containsInterval_sound_f64 _ _ hr hi c3 p hp h

/-! ### `s1.Expanded` for EVERY finite margin (given additionally that `2·m` overflows for `|m| ≥ 2^1023`, `DblBig`):
such a margin never reaches `Remainder`; the guard returns Full (margin ≥ 0) resp. Empty (margin < 0) first. -/

/-- Expanded returns a valid interval for every finite margin. -/
theorem s1_expanded_valid_allmargins_f64 (H : F64ArithFacts) (Hd : DblBig) (i : S1 F64) (hi : i.isValid = true)
    (m : F64) (hm : Fin m) : (i.expanded m).isValid = true := by
  by_cases hb : MarginOK m
  · exact s1_expanded_valid_f64 H i hi m hb
  · have hf : (S1.full : S1 F64).isValid = true := by decide +kernel
    have he : (S1.empty : S1 F64).isValid = true := by decide +kernel
    unfold S1.expanded
    by_cases h0 : (zero : F64) ≤ m
    · have g := guard_pos_big H Hd (vs_of_valid hi) hm hb h0
      simp only [h0, g, if_true]
      split_ifs <;> assumption
    · have g := guard_neg_big H Hd (vs_of_valid hi) hm hb h0
      simp only [h0, g, if_true, if_false]
      split_ifs <;> assumption

/-- Expanded by any finite non-negative margin keeps every original point. -/
theorem s1_expanded_contains_allmargins_f64 (H : F64ArithFacts) (Hd : DblBig) (i : S1 F64) (hi : i.isValid = true)
    (m p : F64) (hm : Fin m) (h0 : F64.le (F64.zero false) m = true) (hp : VPt p) (h : i.contains p = true) :
    (i.expanded m).contains p = true := by
  by_cases hb : MarginOK m
  · exact s1_expanded_contains_f64 H i hi m p hb h0 hp h
  · have hf := (s1_empty_full_f64 p hp).2.2.2
    have h0' : (zero : F64) ≤ m := h0
    have g := guard_pos_big H Hd (vs_of_valid hi) hm hb h0'
    unfold S1.expanded
    simp only [h0', g, if_true]
    split_ifs <;> assumption

/-! ## s2.Rect — the latitude-longitude rectangle (valid rectangles: all endpoints finite, latitudes in
`[-π/2, π/2]`, longitudes a valid s1 interval; points: any `LatLng` — `ContainsLatLng` itself rejects invalid ones) -/

theorem ll_empty_valid_f64 : (LLRect.empty : LLRect F64).isValid = true := by decide +kernel

theorem ll_empty_full_f64 (ll : LatLng F64) (hv : ll.isValid = true) :
    (LLRect.empty : LLRect F64).isValid = true ∧ (LLRect.full : LLRect F64).isValid = true ∧
    (LLRect.empty : LLRect F64).containsLatLng ll = false ∧ (LLRect.full : LLRect F64).containsLatLng ll = true := by
  have np := nnll_of_valid hv
  rw [latlng_isValid_q np] at hv
  have g := C19.ll_empty_full (QLL ll) hv
  refine ⟨by decide +kernel, by decide +kernel, ?_, ?_⟩
  · rw [ll_containsLatLng_q ll_empty_nn np, ll_empty_q]; exact g.2.2.1
  · rw [ll_containsLatLng_q ll_full_nn np, ll_full_q]; exact g.2.2.2

/-- Union contains every point of both operands. -/
theorem ll_union_contains_f64 (r o : LLRect F64) (hr : r.isValid = true) (ho : o.isValid = true) (ll : LatLng F64)
    (h : r.containsLatLng ll = true ∨ o.containsLatLng ll = true) : (r.union o).containsLatLng ll = true := by
  obtain ⟨nr, vr⟩ := ll_valid_q hr
  obtain ⟨no, vo⟩ := ll_valid_q ho
  have np : NNLL ll := by rcases h with h | h <;> exact nnll_of_containsLatLng h
  rw [ll_union_eq_B]
  obtain ⟨hn, hq⟩ := ll_unionB_q (decide (S1.positiveDistance o.lng.hi r.lng.lo <
    S1.positiveDistance r.lng.hi o.lng.lo)) nr no
  rw [ll_containsLatLng_q hn np, hq]
  rw [ll_containsLatLng_q nr np, ll_containsLatLng_q no np] at h
  exact ll_unionB_contains _ _ _ vr vo _ h

theorem ll_union_valid_f64 (r o : LLRect F64) (hr : r.isValid = true) (ho : o.isValid = true) :
    (r.union o).isValid = true := by
  obtain ⟨nr, vr⟩ := ll_valid_q hr
  obtain ⟨no, vo⟩ := ll_valid_q ho
  rw [ll_union_eq_B]
  obtain ⟨hn, hq⟩ := ll_unionB_q (decide (S1.positiveDistance o.lng.hi r.lng.lo <
    S1.positiveDistance r.lng.hi o.lng.lo)) nr no
  rw [ll_isValid_q hn, hq]
  exact ll_unionB_valid _ _ _ vr vo

/-- Intersection contains every common point. -/
theorem ll_intersection_contains_common_f64 (r o : LLRect F64) (hr : r.isValid = true) (ho : o.isValid = true)
    (ll : LatLng F64) (h1 : r.containsLatLng ll = true) (h2 : o.containsLatLng ll = true) :
    (r.intersection o).containsLatLng ll = true := by
  obtain ⟨nr, vr⟩ := ll_valid_q hr
  obtain ⟨no, vo⟩ := ll_valid_q ho
  have np := nnll_of_containsLatLng h1
  rw [ll_intersection_eq_B]
  obtain ⟨hn, hq⟩ := ll_intersectionB_q (decide (o.lng.length < r.lng.length)) nr no
  rw [ll_containsLatLng_q hn np, hq]
  rw [ll_containsLatLng_q nr np] at h1
  rw [ll_containsLatLng_q no np] at h2
  exact ll_intersectionB_contains_common _ _ _ vr vo _ h1 h2

/-- Intersection contains no point that lies in neither operand. -/
theorem ll_intersection_no_stranger_f64 (r o : LLRect F64) (hr : r.isValid = true) (ho : o.isValid = true)
    (ll : LatLng F64) (h : (r.intersection o).containsLatLng ll = true) :
    r.containsLatLng ll = true ∨ o.containsLatLng ll = true := by
  obtain ⟨nr, vr⟩ := ll_valid_q hr
  obtain ⟨no, vo⟩ := ll_valid_q ho
  have np := nnll_of_containsLatLng h
  rw [ll_intersection_eq_B] at h
  obtain ⟨hn, hq⟩ := ll_intersectionB_q (decide (o.lng.length < r.lng.length)) nr no
  rw [ll_containsLatLng_q hn np, hq] at h
  rw [ll_containsLatLng_q nr np, ll_containsLatLng_q no np]
  exact ll_intersectionB_no_stranger _ _ _ vr vo _ h

theorem ll_intersection_valid_f64 (r o : LLRect F64) (hr : r.isValid = true) (ho : o.isValid = true) :
    (r.intersection o).isValid = true := by
  obtain ⟨nr, vr⟩ := ll_valid_q hr
  obtain ⟨no, vo⟩ := ll_valid_q ho
  rw [ll_intersection_eq_B]
  obtain ⟨hn, hq⟩ := ll_intersectionB_q (decide (o.lng.length < r.lng.length)) nr no
  rw [ll_isValid_q hn, hq]
  exact ll_intersectionB_valid _ _ _ vr vo

/-- Contains(Rect) is sound w.r.t. point membership. -/
theorem ll_contains_sound_f64 (r o : LLRect F64) (hr : r.isValid = true) (ho : o.isValid = true)
    (h : r.contains o = true) (ll : LatLng F64) (hl : o.containsLatLng ll = true) :
    r.containsLatLng ll = true := by
  obtain ⟨nr, vr⟩ := ll_valid_q hr
  obtain ⟨no, vo⟩ := ll_valid_q ho
  have np := nnll_of_containsLatLng hl
  rw [ll_contains_q nr no] at h
  rw [ll_containsLatLng_q no np] at hl
  rw [ll_containsLatLng_q nr np]
  exact C19.ll_contains_sound _ _ vr vo h _ hl

/-- Intersects agrees with point membership: true iff a common LatLng (with float coordinates) exists. -/
theorem ll_intersects_iff_common_point_f64 (r o : LLRect F64) (hr : r.isValid = true) (ho : o.isValid = true) :
    r.intersects o = true ↔ ∃ ll, r.containsLatLng ll = true ∧ o.containsLatLng ll = true := by
  obtain ⟨nr, vr⟩ := ll_valid_q hr
  obtain ⟨no, vo⟩ := ll_valid_q ho
  rw [ll_intersects_q nr no, C19.ll_intersects_iff_common_point _ _ vr vo]
  constructor
  · rintro ⟨v, h1, h2⟩
    have np : NNLL ⟨v.lat.1, v.lng.1⟩ := ⟨nn_val _, nn_val _⟩
    refine ⟨⟨v.lat.1, v.lng.1⟩, ?_, ?_⟩
    · rw [ll_containsLatLng_q nr np, QLL_val]; exact h1
    · rw [ll_containsLatLng_q no np, QLL_val]; exact h2
  · rintro ⟨p, h1, h2⟩
    have np := nnll_of_containsLatLng h1
    exact ⟨QLL p, by rwa [← ll_containsLatLng_q nr np], by rwa [← ll_containsLatLng_q no np]⟩

/-- AddPoint (valid LatLng): valid result, contains the new point and all old ones. -/
theorem ll_addPoint_contains_f64 (r : LLRect F64) (hr : r.isValid = true) (p t : LatLng F64)
    (hp : p.isValid = true) :
    (r.addPoint p).isValid = true ∧ (r.addPoint p).containsLatLng p = true ∧
    (r.containsLatLng t = true → (r.addPoint p).containsLatLng t = true) := by
  obtain ⟨nr, vr⟩ := ll_valid_q hr
  have np := nnll_of_valid hp
  rw [latlng_isValid_q np] at hp
  rw [ll_addPoint_eq_B]
  obtain ⟨hn, hq⟩ := ll_addPointB_q (decide (S1.positiveDistance (S1.normPoint p.lng) r.lng.lo <
      S1.positiveDistance r.lng.hi (S1.normPoint p.lng))) nr np
  refine ⟨?_, ?_, ?_⟩
  · rw [ll_isValid_q hn, hq]; exact (ll_addPointB_contains _ _ vr _ (QLL p) hp).1
  · rw [ll_containsLatLng_q hn np, hq]; exact (ll_addPointB_contains _ _ vr _ (QLL p) hp).2.1
  · intro ht
    have nt := nnll_of_containsLatLng ht
    rw [ll_containsLatLng_q hn nt, hq]
    rw [ll_containsLatLng_q nr nt] at ht
    exact (ll_addPointB_contains _ _ vr _ (QLL t) hp).2.2 ht

/-- AddPoint ignores invalid LatLngs (documented) — including NaN coordinates. -/
theorem ll_addPoint_invalid_f64 (r : LLRect F64) (p : LatLng F64) (hp : p.isValid = false) : r.addPoint p = r := by
  unfold LLRect.addPoint; simp [hp]

/-- PolarClosure: valid, and contains every point of the original. -/
theorem ll_polarClosure_contains_f64 (r : LLRect F64) (hr : r.isValid = true) (ll : LatLng F64) :
    r.polarClosure.isValid = true ∧ (r.containsLatLng ll = true → r.polarClosure.containsLatLng ll = true) := by
  obtain ⟨nr, vr⟩ := ll_valid_q hr
  obtain ⟨hn, hq⟩ := ll_polarClosure_q nr
  constructor
  · rw [ll_isValid_q hn, hq]; exact (C19.ll_polarClosure_contains _ vr (QLL ll)).1
  · intro hc
    have np := nnll_of_containsLatLng hc
    rw [ll_containsLatLng_q hn np, hq]
    rw [ll_containsLatLng_q nr np] at hc
    exact (C19.ll_polarClosure_contains _ vr (QLL ll)).2 hc

/-- the tail of the lat-lng `expanded`, given that the expanded longitude interval is valid -/
theorem ll_expanded_valid_of_f64 (H : F64ArithFacts) (r : LLRect F64) (hr : r.isValid = true) (m : LatLng F64)
    (hm1 : Fin m.lat) (e1 : (r.lng.expanded m.lng).isValid = true) : (r.expanded m).isValid = true := by
  have := arithLaws H
  obtain ⟨nr, vr⟩ := ll_valid_q hr
  obtain ⟨n1, v1⟩ := s1_valid_q e1
  obtain ⟨a1, a2⟩ := r1_expanded_q (fin1_lat_of_valid hr) hm1
  rw [ll_expanded_eq_with]
  obtain ⟨hn, hq⟩ := ll_expandedWith_q a1 n1
  rw [ll_isValid_q hn, hq, a2]
  exact ll_expandedWith_valid (QLR r) vr (q m.lat) _ v1

/-- the unexported `expanded` (behind `ExpandedByDistance`, `RectFromCenterSize`): always valid for valid input;
    latitude margin finite, longitude margin `MarginOK`, any signs. -/
theorem ll_expanded_valid_f64 (H : F64ArithFacts) (r : LLRect F64) (hr : r.isValid = true) (m : LatLng F64)
    (hm1 : Fin m.lat) (hm2 : MarginOK m.lng) : (r.expanded m).isValid = true := by
  have vlng : r.lng.isValid = true := by
    simp only [LLRect.isValid, Bool.and_eq_true] at hr; exact hr.1.2
  exact ll_expanded_valid_of_f64 H r hr m hm1 (s1_expanded_valid_f64 H r.lng vlng m.lng hm2)

/-- … for every finite longitude margin (given `DblBig`) -/
theorem ll_expanded_valid_allmargins_f64 (H : F64ArithFacts) (Hd : DblBig) (r : LLRect F64) (hr : r.isValid = true)
    (m : LatLng F64) (hm1 : Fin m.lat) (hm2 : Fin m.lng) : (r.expanded m).isValid = true := by
  have vlng : r.lng.isValid = true := by
    simp only [LLRect.isValid, Bool.and_eq_true] at hr; exact hr.1.2
  exact ll_expanded_valid_of_f64 H r hr m hm1 (s1_expanded_valid_allmargins_f64 H Hd r.lng vlng m.lng hm2)

/-- the lat-lng `expanded` keeps a point, given the two facts about the expanded longitude interval -/
theorem ll_expanded_contains_of_f64 (H : F64ArithFacts) (r : LLRect F64) (hr : r.isValid = true) (m ll : LatLng F64)
    (hm1 : Fin m.lat) (h1 : F64.le (F64.zero false) m.lat = true) (h : r.containsLatLng ll = true)
    (e1 : (r.lng.expanded m.lng).isValid = true)
    (e2 : VPt ll.lng → r.lng.contains ll.lng = true → (r.lng.expanded m.lng).contains ll.lng = true) :
    (r.expanded m).containsLatLng ll = true := by
  have := arithLaws H
  obtain ⟨nr, vr⟩ := ll_valid_q hr
  have np := nnll_of_containsLatLng h
  have hll : ll.isValid = true ∧ r.lng.contains ll.lng = true := by
    unfold LLRect.containsLatLng at h
    by_cases hv : ll.isValid = true
    · simp only [hv, Bool.not_true, Bool.false_eq_true, if_false, Bool.and_eq_true] at h; exact ⟨hv, h.2⟩
    · simp [hv] at h
  have vp : VPt ll.lng := by
    have := hll.1
    simp only [LatLng.isValid, Bool.and_eq_true, decide_eq_true_eq] at this
    exact vpt_of_abs_le this.2
  have e2' := e2 vp hll.2
  obtain ⟨n1, v1⟩ := s1_valid_q e1
  obtain ⟨a1, a2⟩ := r1_expanded_q (fin1_lat_of_valid hr) hm1
  rw [ll_expanded_eq_with]
  obtain ⟨hn, hq⟩ := ll_expandedWith_q a1 n1
  rw [ll_containsLatLng_q hn np, hq, a2]
  rw [ll_containsLatLng_q nr np] at h
  rw [s1_contains_q n1 np.2] at e2'
  have h1' : (zero : V) ≤ q m.lat := (le_q (zero_nn false) (nn_of_fin hm1)).1 h1
  exact ll_expandedWith_contains (QLR r) vr (q m.lat) (QLL ll) h1' _ v1 h e2'

/-- the lat-lng `expanded` with non-negative margins keeps every point. -/
theorem ll_expanded_contains_f64 (H : F64ArithFacts) (r : LLRect F64) (hr : r.isValid = true) (m ll : LatLng F64)
    (hm1 : Fin m.lat) (hm2 : MarginOK m.lng) (h1 : F64.le (F64.zero false) m.lat = true)
    (h2 : F64.le (F64.zero false) m.lng = true) (h : r.containsLatLng ll = true) :
    (r.expanded m).containsLatLng ll = true := by
  have vlng : r.lng.isValid = true := by
    simp only [LLRect.isValid, Bool.and_eq_true] at hr; exact hr.1.2
  exact ll_expanded_contains_of_f64 H r hr m ll hm1 h1 h (s1_expanded_valid_f64 H r.lng vlng m.lng hm2)
    (fun vp hc => s1_expanded_contains_f64 H r.lng vlng m.lng ll.lng hm2 h2 vp hc)

/-- … for every finite longitude margin (given `DblBig`) -/
theorem ll_expanded_contains_allmargins_f64 (H : F64ArithFacts) (Hd : DblBig) (r : LLRect F64)
    (hr : r.isValid = true) (m ll : LatLng F64) (hm1 : Fin m.lat) (hm2 : Fin m.lng)
    (h1 : F64.le (F64.zero false) m.lat = true) (h2 : F64.le (F64.zero false) m.lng = true)
    (h : r.containsLatLng ll = true) : (r.expanded m).containsLatLng ll = true := by
  have vlng : r.lng.isValid = true := by
    simp only [LLRect.isValid, Bool.and_eq_true] at hr; exact hr.1.2
  exact ll_expanded_contains_of_f64 H r hr m ll hm1 h1 h
    (s1_expanded_valid_allmargins_f64 H Hd r.lng vlng m.lng hm2)
    (fun vp hc => s1_expanded_contains_allmargins_f64 H Hd r.lng vlng m.lng ll.lng hm2 h2 vp hc)

/-! ## The laws of `Properties/C19.lean` that need a DENSE carrier

`r1_interiorIntersects_iff (→)`, `s1_containsInterval_complete`, `ll_contains_complete` quantify over the points of the
real line / circle (an interval denotes a set of REAL numbers).  Read over the float grid only — "every FLOAT of `o` is
a float of `i`" — they are false, because two adjacent floats have no float between them.  This is not a defect of the
code (its answers are right for the real intervals); it only means these three statements cannot be pulled back along
`q`.  Kernel-checked witnesses on bit patterns (`+0 = 0x0` and the smallest subnormal `0x1` are adjacent): -/

/-- `[+0, 5e-324]` interior-intersects itself (the open interval `(0, 5e-324)` is a non-empty set of reals),
    but no float lies strictly inside. -/
theorem r1_interiorIntersects_no_float_witness :
    (⟨⟨0⟩, ⟨1⟩⟩ : R1 F64).interiorIntersects ⟨⟨0⟩, ⟨1⟩⟩ = true ∧
    ∀ p : F64, ¬ ((⟨⟨0⟩, ⟨1⟩⟩ : R1 F64).interiorContains p = true ∧ (⟨⟨0⟩, ⟨1⟩⟩ : R1 F64).contains p = true) := by
  refine ⟨by decide +kernel, ?_⟩
  rintro p ⟨h, -⟩
  have np := nn_of_r1_interiorContains h
  simp only [R1.interiorContains, Bool.and_eq_true, decide_eq_true_eq] at h
  have h1 : F64.lt ⟨0⟩ p = true := h.1
  have h2 : F64.lt p ⟨1⟩ = true := h.2
  rw [lt_iff_key (by decide) np] at h1
  rw [lt_iff_key np (by decide)] at h2
  have k0 : key ⟨0⟩ = 0 := by decide +kernel
  have k1 : key ⟨1⟩ = 1 := by decide +kernel
  omega

/-- The inverted interval `i = [5e-324, +0]` (everything except the open gap `(0, 5e-324)`) contains EVERY float of
    `[-π, π]`, in particular every float of `o = [-1, 1]`; yet `i.ContainsInterval(o)` is (rightly) false: the reals
    of the gap belong to `o` and not to `i`. -/
theorem s1_containsInterval_complete_fails_on_grid :
    (⟨⟨1⟩, ⟨0⟩⟩ : S1 F64).isValid = true ∧ (⟨⟨0xbff0000000000000⟩, F64.one⟩ : S1 F64).isValid = true ∧
    (⟨⟨1⟩, ⟨0⟩⟩ : S1 F64).containsInterval ⟨⟨0xbff0000000000000⟩, F64.one⟩ = false ∧
    ∀ p : F64, VPt p → (⟨⟨1⟩, ⟨0⟩⟩ : S1 F64).contains p = true := by
  refine ⟨by decide +kernel, by decide +kernel, by decide +kernel, ?_⟩
  intro p hp
  obtain ⟨np', -⟩ := normPoint_q (nn_of_vpt hp)
  have e1 : (⟨⟨1⟩, ⟨0⟩⟩ : S1 F64).isInverted = true := by decide +kernel
  have e2 : (⟨⟨1⟩, ⟨0⟩⟩ : S1 F64).isEmpty = false := by decide +kernel
  unfold S1.contains S1.fastContains
  simp only [e1, e2, if_true, Bool.not_false, Bool.and_true, Bool.or_eq_true, decide_eq_true_eq]
  have k0 : key ⟨0⟩ = 0 := by decide +kernel
  have k1 : key ⟨1⟩ = 1 := by decide +kernel
  rcases le_or_gt (key (S1.normPoint p)) 0 with h | h
  · right
    show F64.le (S1.normPoint p) ⟨0⟩ = true
    rw [le_iff_key np' (by decide), k0]; exact h
  · left
    show F64.le ⟨1⟩ (S1.normPoint p) = true
    rw [le_iff_key (by decide) np', k1]; omega

/-- the same gap in the longitude interval of a lat-lng rectangle -/
theorem ll_contains_complete_fails_on_grid :
    let r : LLRect F64 := ⟨⟨⟨0⟩, F64.one⟩, ⟨⟨1⟩, ⟨0⟩⟩⟩
    let o : LLRect F64 := ⟨⟨⟨0⟩, F64.one⟩, ⟨⟨0xbff0000000000000⟩, F64.one⟩⟩
    r.isValid = true ∧ o.isValid = true ∧ r.contains o = false ∧
    ∀ ll, o.containsLatLng ll = true → r.containsLatLng ll = true := by
  refine ⟨by decide +kernel, by decide +kernel, by decide +kernel, ?_⟩
  intro ll h
  unfold LLRect.containsLatLng at h ⊢
  by_cases hv : ll.isValid = true
  · simp only [hv, Bool.not_true, Bool.false_eq_true, if_false, Bool.and_eq_true] at h ⊢
    refine ⟨h.1, ?_⟩
    have vp : VPt ll.lng := by
      simp only [LatLng.isValid, Bool.and_eq_true, decide_eq_true_eq] at hv
      exact vpt_of_abs_le hv.2
    exact s1_containsInterval_complete_fails_on_grid.2.2.2 _ vp
  · simp [hv] at h

/-! ## Non-vacuity: concrete bit patterns satisfying the hypotheses, with non-trivial answers (kernel-checked)

`-0 = 0x8000000000000000`, `π = 0x400921fb54442d18`, `-π = 0xc00921fb54442d18`, `3 = 0x4008…`, `-3 = 0xc008…`,
largest finite `0x7fefffffffffffff`, `+∞ = 0x7ff0…`. -/

section Examples

-- r1: an interval whose lower endpoint is -0 contains +0; clamping -0 into [+0, 1] gives +0 (≠ -0 as bits, == as floats)
example : NN1 (⟨⟨0x8000000000000000⟩, F64.one⟩ : R1 F64) ∧ Fin1 (⟨⟨0x8000000000000000⟩, F64.one⟩ : R1 F64) ∧
    (⟨⟨0x8000000000000000⟩, F64.one⟩ : R1 F64).contains ⟨0⟩ = true ∧
    (⟨⟨0⟩, F64.one⟩ : R1 F64).clampPoint ⟨0x8000000000000000⟩ = ⟨0⟩ ∧
    F64.feq ((⟨⟨0⟩, F64.one⟩ : R1 F64).clampPoint ⟨0x8000000000000000⟩) ⟨0x8000000000000000⟩ = true := by
  decide +kernel
-- r1: infinite endpoints are in the domain of the order-only theorems; union with the empty interval; intersection
example : NN1 (⟨⟨0xfff0000000000000⟩, ⟨0x7ff0000000000000⟩⟩ : R1 F64) ∧ NN1 (R1.empty : R1 F64) ∧
    (⟨⟨0xfff0000000000000⟩, F64.one⟩ : R1 F64).union R1.empty = ⟨⟨0xfff0000000000000⟩, F64.one⟩ ∧
    (⟨⟨0⟩, F64.two⟩ : R1 F64).intersection ⟨F64.one, F64.three⟩ = ⟨F64.one, F64.two⟩ ∧
    (⟨⟨0⟩, F64.two⟩ : R1 F64).intersects ⟨F64.three, F64.four⟩ = false := by decide +kernel
-- r1.Expanded: hypotheses of `r1_expanded_contains_f64`, with a sum that OVERFLOWS (hi + margin = +∞)
example : Fin1 (⟨⟨0⟩, ⟨0x7fefffffffffffff⟩⟩ : R1 F64) ∧ Fin (⟨0x7fefffffffffffff⟩ : F64) ∧
    F64.le (F64.zero false) ⟨0x7fefffffffffffff⟩ = true ∧
    (⟨⟨0⟩, ⟨0x7fefffffffffffff⟩⟩ : R1 F64).expanded ⟨0x7fefffffffffffff⟩ =
      ⟨⟨0xffefffffffffffff⟩, ⟨0x7ff0000000000000⟩⟩ := by decide +kernel
-- r2: a valid rectangle with a -0 corner, an invalid one, points
example : NN2 (⟨⟨⟨0x8000000000000000⟩, F64.one⟩, ⟨F64.one, F64.two⟩⟩ : R2Rect F64) ∧
    Fin2 (⟨⟨⟨0x8000000000000000⟩, F64.one⟩, ⟨F64.one, F64.two⟩⟩ : R2Rect F64) ∧
    (⟨⟨⟨0x8000000000000000⟩, F64.one⟩, ⟨F64.one, F64.two⟩⟩ : R2Rect F64).isValid = true ∧
    (⟨⟨⟨0⟩, F64.one⟩, ⟨F64.two, F64.one⟩⟩ : R2Rect F64).isValid = false ∧
    NNP (⟨⟨0⟩, F64.two⟩ : R2Point F64) ∧ FinP (⟨F64.half, F64.half⟩ : R2Point F64) ∧
    (⟨⟨⟨0x8000000000000000⟩, F64.one⟩, ⟨F64.one, F64.two⟩⟩ : R2Rect F64).containsPoint ⟨⟨0⟩, F64.two⟩ = true ∧
    (⟨⟨⟨0x8000000000000000⟩, F64.one⟩, ⟨F64.one, F64.two⟩⟩ : R2Rect F64).isEmpty = false := by decide +kernel
-- s1: valid intervals of every kind — ordinary, inverted [3, -3], singleton at π, empty, full; an invalid one [-π, 2]
example : (⟨F64.one, F64.two⟩ : S1 F64).isValid = true ∧
    (⟨⟨0x4008000000000000⟩, ⟨0xc008000000000000⟩⟩ : S1 F64).isValid = true ∧
    (⟨⟨0x4008000000000000⟩, ⟨0xc008000000000000⟩⟩ : S1 F64).isInverted = true ∧
    (⟨f64Pi, f64Pi⟩ : S1 F64).isValid = true ∧ (S1.empty : S1 F64).isValid = true ∧
    (S1.full : S1 F64).isValid = true ∧ (⟨⟨0xc00921fb54442d18⟩, F64.two⟩ : S1 F64).isValid = false := by
  decide +kernel
-- s1: points ±π, -0 are valid points; 4 and NaN are not; the point -π is treated as π
example : VPt f64Pi ∧ VPt (⟨0xc00921fb54442d18⟩ : F64) ∧ VPt (⟨0x8000000000000000⟩ : F64) ∧ ¬ VPt F64.four ∧
    ¬ VPt F64.nan ∧
    (⟨⟨0x4008000000000000⟩, ⟨0xc008000000000000⟩⟩ : S1 F64).contains ⟨0xc00921fb54442d18⟩ = true ∧
    (⟨F64.one, F64.two⟩ : S1 F64).addPoint ⟨0xc00921fb54442d18⟩ = ⟨F64.one, f64Pi⟩ ∧
    (⟨F64.one, F64.two⟩ : S1 F64).addPoint F64.four = ⟨F64.one, F64.two⟩ ∧
    (⟨F64.one, F64.two⟩ : S1 F64).project ⟨0x8000000000000000⟩ = F64.one ∧
    (⟨F64.one, F64.two⟩ : S1 F64).complement = ⟨F64.two, F64.one⟩ := by decide +kernel
-- s1: union across the ±π seam, intersection returning one operand, IntervalFromPointPair picking the short arc
example : (⟨⟨0x4008000000000000⟩, f64Pi⟩ : S1 F64).union ⟨f64Pi, ⟨0xc008000000000000⟩⟩ =
      ⟨⟨0x4008000000000000⟩, ⟨0xc008000000000000⟩⟩ ∧
    (⟨⟨0x4008000000000000⟩, ⟨0xc008000000000000⟩⟩ : S1 F64).intersection
      ⟨⟨0xc008000000000000⟩, ⟨0x4008000000000000⟩⟩ = ⟨⟨0x4008000000000000⟩, ⟨0xc008000000000000⟩⟩ ∧
    S1.fromPointPair (⟨0x4008000000000000⟩ : F64) ⟨0xc008000000000000⟩ = ⟨⟨0x4008000000000000⟩, ⟨0xc008000000000000⟩⟩ ∧
    (⟨⟨0x4008000000000000⟩, ⟨0xc008000000000000⟩⟩ : S1 F64).containsInterval ⟨f64Pi, f64Pi⟩ = true ∧
    (⟨F64.one, F64.two⟩ : S1 F64).intersects ⟨⟨0x4008000000000000⟩, ⟨0x8000000000000000⟩⟩ = false := by
  decide +kernel
-- s1.Expanded: hypotheses (`MarginOK`, margin ≥ 0) and results: wrap of an inverted interval, Full, a shrink
example : MarginOK F64.one ∧ MarginOK (⟨0x7fdfffffffffffff⟩ : F64) ∧ ¬ MarginOK (⟨0x7fe0000000000000⟩ : F64) ∧
    F64.le (F64.zero false) F64.one = true ∧
    VS (⟨⟨0x4008000000000000⟩, ⟨0xc008000000000000⟩⟩ : S1 F64) ∧
    FinS (⟨⟨0x4008000000000000⟩, ⟨0xc008000000000000⟩⟩ : S1 F64) ∧
    (⟨⟨0x4008000000000000⟩, ⟨0xc008000000000000⟩⟩ : S1 F64).expanded F64.one = ⟨F64.two, ⟨0xc000000000000000⟩⟩ ∧
    (⟨⟨0xc008000000000000⟩, ⟨0x4008000000000000⟩⟩ : S1 F64).expanded F64.one = S1.full ∧
    (⟨F64.one, F64.two⟩ : S1 F64).expanded F64.half = ⟨F64.half, ⟨0x4004000000000000⟩⟩ ∧
    F64.lt (S1.empty : S1 F64).length (F64.zero false) = true ∧
    F64.lt (⟨⟨0x4008000000000000⟩, ⟨0xc008000000000000⟩⟩ : S1 F64).length (F64.zero false) = false := by
  decide +kernel
-- lat-lng rectangles: valid (inverted longitude), empty, full; a point at the -π meridian; an invalid LatLng
example : (⟨⟨⟨0xbff0000000000000⟩, F64.one⟩, ⟨⟨0x4008000000000000⟩, ⟨0xc008000000000000⟩⟩⟩ : LLRect F64).isValid = true ∧
    (LLRect.empty : LLRect F64).isValid = true ∧ (LLRect.full : LLRect F64).isValid = true ∧
    (⟨⟨⟨0xbff0000000000000⟩, F64.one⟩, ⟨⟨0x4008000000000000⟩, ⟨0xc008000000000000⟩⟩⟩ : LLRect F64).containsLatLng
      ⟨⟨0x8000000000000000⟩, ⟨0xc00921fb54442d18⟩⟩ = true ∧
    (⟨F64.two, F64.one⟩ : LatLng F64).isValid = false ∧ (⟨F64.nan, F64.one⟩ : LatLng F64).isValid = false ∧
    (⟨⟨⟨0xbff0000000000000⟩, ⟨0x3ff921fb54442d18⟩⟩, ⟨F64.one, F64.two⟩⟩ : LLRect F64).polarClosure =
      ⟨⟨⟨0xbff0000000000000⟩, ⟨0x3ff921fb54442d18⟩⟩, S1.full⟩ ∧
    Fin (F64.half : F64) ∧ MarginOK F64.half ∧
    ((⟨⟨⟨0xbff0000000000000⟩, F64.one⟩, ⟨F64.one, F64.two⟩⟩ : LLRect F64).expanded ⟨F64.one, F64.half⟩).isValid = true := by
  decide +kernel

end Examples

end S2Proofs.C19B64
