/-
  C08 — the FURTHEST-edge search for a POINT target (`MaxDistanceToPointTarget`, distance type `maxDistance` with the REVERSED
  order) with NO abstract world hypothesis (package c08more-subF).

  The c08world / c08edge programme repeated for the furthest-edge query: the world is INSTANTIATED
  (`S2Proofs.C08Far.world`, file `EdgeQuery/FurthestWorld.lean`)
    distances  = bit-exact float chord angles of a `maxDistance` (`MChord`: finite with sign bit clear, or −1;
                 `mchordI`: `less` = Go's `>`, `zero = 4` (StraightChordAngle), `infinity = −1` (NegativeChordAngle),
                 `sub` = `maxDistance.sub` over the generated bit-exact `ChordAngle.Add`);
    edges      = float vertex pairs, `updateDistanceToEdge` = the bit-exact `UpdateMaxDistance(point, v0, v1, limit)` + `updateDistance`;
    cells      = the tree `Roots.subtree` of the index, `updateDistanceToCell` = the bit-exact `Cell.MaxDistance(point)` + `updateDistance`;
  `Slack.SlackWorld mchordI world Near` is DERIVED (`furthest_world_slack`) from
    * C12 `maxDistance_upper_bound` in c12max's form `endpoint_chord_le`: no point of the exact cell is farther from the DIRECTION of the
      target than `Cell.MaxDistance(p) + (2^-44 + 2^-48)`;
    * c17pairs / c12max `maxCall_upper` / `maxCall_upper_short` / `maxCall_lower`: the candidate of `UpdateMaxDistance` is within `205u` of
      the TRUE maximum `rhoMax e` of the squared chord over the arc of the edge (`furthest_rho_is_max`);
    * the index invariant I1 in the form `FarthestCovered` (hypothesis; reduced to `I1Arc` + `FarRootsCover`: `furthest_indexOK_of_parts`);
  and the abstract search theorems `Slack.slack_single_on`, `Slack.slack_multi`, `Slack.brute_multi_internal` are reused UNCHANGED:
  they only use `DistOrder I` (strict total order of `less`), `SubLawsOn` and `SlackWorld`, none of which fixes the direction of the
  order — checked by instantiating them here with the reversed order.

  SLACK (explicit, squared chord length, absolute): `farSlack = 2^-44 + 2^-48`; edge values are within `farEdgeErr = 205·2^-53` of exact.
  `Near e lim` := `lim = −1 ∨ val lim + farSlack < rhoMax e` ("edge `e` is truly FARTHER than `lim` by more than the slack").

  HYPOTHESES (all explicit; instance: `EdgeQuery/FurthestWorldEx.lean`):
    `FarEdgesOK`  : `UnitPt` of the target and of every vertex, `EdgeOK` of every edge, `WedgeMargin (−p) v0 v1`, and
                    `notClass`: for every edge, the call `UpdateMaxDistance(p, v0, v1, ·)` is NOT in the right-angle class
                    `RightAngleClassCall` (90-degree test not taken although the true larger endpoint chord exceeds 2; finding F10) —
                    OR the edge is at most 120° long (`EdgeShort`), where c12max proved the class harmless;
    `FarIndexOK`  : sorted disjoint valid index cells, valid initial cells, depth ≥ 30, index cells list only index edges, `FarthestCovered`;
    MaxResults = 1: `Slack.SubLawsOn mchordI world o.maxError` — PROVED for `MaxError = 0` (`furthest_subLawsOn_zero`) and for
                    `MaxError = StraightChordAngle` (`furthest_subLawsOn_straight`: the error `IsDistanceLess/IsDistanceGreater` install; needs
                    "edge values are ≤ 4 EXACTLY", `furthest_edge_value_le_four`, and the float grid around 4); for other errors it is a
                    hypothesis (decidable per index: `C08Far.far_subLawsOn_of_cands`; the float analysis of the sqrt exit of `ChordAngle.Add`
                    is NOT done) — and `hL`: the option's limit is not above `zero` in the search order, i.e. `limit ≤ 4` as a float
                    (every chord angle is).
-/
import S2Proofs.EdgeQuery.FurthestWorld
import S2Proofs.EdgeQuery.FurthestCover
import S2Proofs.EdgeQuery.FurthestSub
import S2Proofs.EdgeQuery.FurthestWorldEx
import S2Proofs.EdgeQuery.SearchSlack
import S2Proofs.Properties.C08_World2

set_option linter.unusedSimpArgs false
set_option linter.unusedVariables false

namespace S2Proofs.C08
open S2 S2.CellID S2.EdgeQueryM S2Proofs.F64Order S2Proofs.FloatErr S2Proofs.EdgeQuery S2Proofs.C08Far

variable {P : FarIndex}

/-! ## (0) the distance type and the instantiated world -/

/-- Go's `>` is a strict total order on the floats a `maxDistance` holds -/
theorem furthest_distOrder : DistOrder mchordI := mchord_order

/-- `maxDistance.sub` with `MaxError = 0` is the identity (so `SubLaws`, `SubLawsOn` hold) -/
theorem furthest_subLaws_maxError_zero : SubLaws mchordI mnull := mchord_subLaws_zero
theorem furthest_subLawsOn_zero : Slack.SubLawsOn mchordI (C08Far.world P) mnull := far_subLawsOn_zero

/-- every value `updateDistanceToEdge` returns is a float in `[0, 4]` EXACTLY (not −1, not above `StraightChordAngle`): the near branch
    of `UpdateMaxDistance` returns a clamped endpoint chord, the far branch the correctly rounded `4 − d` with `d ≥ 0` -/
theorem furthest_edge_value_le_four (HE : FarEdgesOK P) {e : EdgeKey} (he : e ∈ P.allEdges) {lim x : MChord}
    (h : C08Far.updEdge P e lim = some x) : x.1 ≠ mNegOne ∧ 0 ≤ val x.1 ∧ val x.1 ≤ 4 := by
  obtain ⟨hn, h4⟩ := edge_some_le4 HE he h
  refine ⟨hn, ?_, h4⟩
  rcases mchord_cases x with ⟨_, h0⟩ | h0
  · exact h0
  · exact absurd h0 hn

/-- **`maxDistance.sub` with `MaxError = StraightChordAngle`** (`x.Add(4) = 4` for every finite `x ∈ [0,4]`: `ChordAngle.Add` takes its
    clamp exit because the rounded sum `x + 4` is `≥ 4`): the law the single-result search needs holds on the domain `FarEdgesOK` -/
theorem furthest_subLawsOn_straight (HE : FarEdgesOK P) : Slack.SubLawsOn mchordI (C08Far.world P) mzero :=
  far_subLawsOn_straight HE

/-- **the concrete furthest-edge point-target world is a `SlackWorld`** -/
theorem furthest_world_slack (HE : FarEdgesOK P) (HI : FarIndexOK P) :
    Slack.SlackWorld mchordI (C08Far.world P) (C08Far.Near P) :=
  far_slackWorld HE HI

/-- **the exact distance the theorems speak about**: `rhoMax P e` is the MAXIMUM of the squared chord between the direction of the
    target and the points of the arc of edge `e`, it is attained, and lies in `[0, 4]` -/
theorem furthest_rho_is_max (HE : FarEdgesOK P) {e : EdgeKey} (he : e ∈ P.allEdges) :
    (∀ Q, S2Proofs.C17Err.OnArc (S2Proofs.C17Err.vecR (P.vert e).1) (S2Proofs.C17Err.vecR (P.vert e).2) Q →
      S2Proofs.C17Err.dirChordP P.p Q ≤ rhoMax P e) ∧
    (∃ Q, S2Proofs.C17Err.OnArc (S2Proofs.C17Err.vecR (P.vert e).1) (S2Proofs.C17Err.vecR (P.vert e).2) Q ∧
      S2Proofs.C17Err.dirChordP P.p Q = rhoMax P e) ∧
    0 ≤ rhoMax P e ∧ rhoMax P e ≤ 4 :=
  ⟨(rhoMax_is_max HE he).1, (rhoMax_is_max HE he).2, (cand_bound HE he).2.2, rhoMax_le_four HE he⟩

/-- **contract of `updateDistanceToEdge`** at limit `lim`, every exit: "ok, x" ⇒ `x` finite, not −1, `x > lim` (Go's `>`),
    `|x − rhoMax e| ≤ 205u`; "not ok" ⇒ `lim ≠ −1` and `rhoMax e ≤ lim + 205u` -/
theorem furthest_update_contract (HE : FarEdgesOK P) {e : EdgeKey} (he : e ∈ P.allEdges) (lim : MChord) :
    (∀ x, C08Far.updEdge P e lim = some x →
      Fin x.1 ∧ x.1 ≠ mNegOne ∧ mchordI.less x lim = true ∧ |val x.1 - rhoMax P e| ≤ farEdgeErr) ∧
    (C08Far.updEdge P e lim = none → lim.1 ≠ mNegOne ∧ rhoMax P e ≤ val lim.1 + farEdgeErr) :=
  ⟨fun x h => edge_some HE he h, fun h => edge_none HE he h⟩

/-- **the excluded class is a one-ulp band**: a call in `RightAngleClassCall` (90-degree test of `UpdateMaxDistance` not taken although the
    TRUE larger endpoint chord exceeds 2) has `2 < D ≤ 2 + 2^-51` for the true larger endpoint chord `D` (c17pairs `near_branch_class`;
    finding F10 after repair D41) -/
theorem furthest_class_is_one_ulp (HE : FarEdgesOK P) {e : EdgeKey} (he : e ∈ P.allEdges)
    (h : RightAngleClassCall P.p (P.vert e).1 (P.vert e).2) :
    2 < S2Proofs.C17Pairs.maxEndpointTrue P.p (P.vert e).1 (P.vert e).2 ∧
    S2Proofs.C17Pairs.maxEndpointTrue P.p (P.vert e).1 (P.vert e).2 ≤ 2 + 1 / 2 ^ 51 :=
  ⟨h.2, S2Proofs.C17Pairs.near_branch_class HE.target (HE.v0 e he) (HE.v1 e he) h.1⟩

/-- **decidable integer form of the numeric domain**: c17pairs2's `MaxCallOKZ` (unit points, `EdgeOK`, `WedgeMargin` of the antipode, and
    "far branch taken, or within 90° of both endpoints" — all integer predicates on the float bits) for every edge gives `FarEdgesOK` -/
theorem furthest_edgesOK_of_int (hp : S2Proofs.C17.UnitPtZ P.p)
    (h : ∀ e ∈ P.allEdges, S2Proofs.C17.MaxCallOKZ P.p (P.vert e).1 (P.vert e).2) : FarEdgesOK P where
  target := S2Proofs.C17.unitPt_of_int hp
  v0 e he := (S2Proofs.C17.maxCallOK_of_int (h e he)).ha
  v1 e he := (S2Proofs.C17.maxCallOK_of_int (h e he)).hb
  edgeOK e he := (S2Proofs.C17.maxCallOK_of_int (h e he)).hE
  margin e he := (S2Proofs.C17.maxCallOK_of_int (h e he)).hM
  notClass e he := Or.inl (S2Proofs.C17.maxCallOK_of_int (h e he)).hcls

/-- "not `Near`" unfolded -/
theorem furthest_not_near_iff (e : EdgeKey) (x : MChord) :
    ¬ C08Far.Near P e x ↔ x.1 ≠ mNegOne ∧ rhoMax P e ≤ val x.1 + farSlack := by
  unfold C08Far.Near
  constructor
  · intro h
    exact ⟨fun hi => h (Or.inl hi), not_lt.mp (fun hl => h (Or.inr hl))⟩
  · rintro ⟨h1, h2⟩ (hi | hl)
    · exact h1 hi
    · linarith

/-- the constants: `farEdgeErr = 205·2^-53 ≤ farSlack = 2^-44 + 2^-48 < 2^-43` -/
theorem furthest_constants : farEdgeErr = 205 / 2 ^ 53 ∧ farSlack = 1 / 2 ^ 44 + 1 / 2 ^ 48 ∧ farEdgeErr ≤ farSlack ∧
    farSlack < 1 / 2 ^ 43 := by
  refine ⟨rfl, rfl, farEdgeErr_le_slack, ?_⟩
  unfold farSlack; norm_num

/-! ## (0') where `FarthestCovered` comes from -/

/-- `FarIndexOK` from the structural facts + `I1Arc` (C06; literally c08world2's statement) + `FarRootsCover`; the nesting of the exact
    regions is `regions_nested` (c08world2) -/
theorem furthest_indexOK_of_parts (HE : FarEdgesOK P) (hcells : IndexCellsOK (Roots.ids P.ix))
    (hroots : ∀ lim, ∀ c ∈ P.rootIds lim, CellID.isValid c = true) (hdepth : 30 ≤ P.depth)
    (hes : ∀ x es, P.ix.lookup x = some es → ∀ e ∈ es, e ∈ P.allEdges)
    (hloc : ∀ es, P.located = some es → ∀ e ∈ es, e ∈ P.allEdges)
    (h1 : S2Proofs.C08World.I1Arc P.toPoint) (hr : FarRootsCover P) : FarIndexOK P :=
  farIndexOK_of_parts HE hcells hroots hdepth hes hloc h1 hr

/-- `FarRootsCover` = unbounded part (index-only) + finite-limit part (hypothesis `FarRootsCoverFin`) -/
theorem furthest_rootsCover_of_inf_fin (hi : FarRootsCoverInf P) (hf : FarRootsCoverFin P) : FarRootsCover P :=
  farRootsCover_of_inf_fin hi hf

/-- **the unbounded part is a theorem when the initial cells of the unbounded search (limit = −1) are the index covering**
    (c08world2's `rootsCoverInf_of_initCovering`, reused: the statement only speaks about the index) -/
theorem furthest_rootsCoverInf_of_initCovering (hok : IndexCellsOK (Roots.ids P.ix)) {cov : List (CellID × Bool)}
    (hcov : initCovering (Roots.ids P.ix) = some cov) (hroots : P.rootIds minf = cov.map (·.1)) :
    FarRootsCoverInf P :=
  rootsCoverInf_of_initCovering (P := P.toPoint) hok hcov hroots

/-! ## (1) MaxResults = 1 (`FindEdge`, `Distance`, …), either path -/

/-- **END-TO-END, MaxResults = 1.**  On either path (optimized or brute force) the answer has at most one entry; an entry is an
    interior result or an edge of the index whose reported distance is finite, not −1, beyond the limit (`>`), and within
    `farEdgeErr = 205u` of the TRUE maximum distance of that edge; NO edge of the index is truly farther than
    `reported ⊕ MaxError + farSlack`; an empty answer means the limit is not −1 and no edge is truly farther than `limit + farSlack`. -/
theorem furthest_single (HE : FarEdgesOK P) (HI : FarIndexOK P) {o : Opts MChord}
    (S : Slack.SubLawsOn mchordI (C08Far.world P) o.maxError)
    (h1 : o.maxResults = 1) (hU : o.targetUsesMaxError = false)
    (hL : mchordI.less o.distanceLimit mzero = false) {rs : List (Result MChord)}
    (h : findEdges mchordI o (C08Far.world P) = some rs) :
    rs.length ≤ 1 ∧
    (∀ r ∈ rs,
      (o.includeInteriors = true ∧ r.dist = mzero ∧ r.edge = -1 ∧ r.shape ∈ P.interiors) ∨
      (∃ e ∈ P.allEdges, r.shape = e.shape ∧ r.edge = e.edge ∧ Fin r.dist.1 ∧ r.dist.1 ≠ mNegOne ∧
        |val r.dist.1 - rhoMax P e| ≤ farEdgeErr ∧ mchordI.less r.dist o.distanceLimit = true)) ∧
    (∀ r ∈ rs, ∀ e ∈ P.allEdges,
      (msub r.dist o.maxError).1 ≠ mNegOne ∧ rhoMax P e ≤ val (msub r.dist o.maxError).1 + farSlack) ∧
    (rs = [] → ∀ e ∈ P.allEdges, o.distanceLimit.1 ≠ mNegOne ∧ rhoMax P e ≤ val o.distanceLimit.1 + farSlack) := by
  obtain ⟨a, b, c, d, _⟩ := Slack.slack_single_on mchord_order S (furthest_world_slack HE HI) h1 hU hL h
  refine ⟨a, ?_, ?_, ?_⟩
  · intro r hr
    rcases b r hr with hi | ⟨e, he, hs, hed, ⟨lim, hup, _⟩, hlt⟩
    · exact Or.inl hi
    · obtain ⟨f, hn, _, herr⟩ := edge_some HE he hup
      exact Or.inr ⟨e, he, hs, hed, f, hn, herr, hlt⟩
  · intro r hr e he
    exact (furthest_not_near_iff e _).mp (c r hr e he)
  · intro hnil e he
    exact (furthest_not_near_iff e _).mp (d hnil e he)

/-- **MaxError = 0 (the default): the reported distance is within the slack of the TRUE optimum**: it is at least
    `rhoMax e − farSlack` for EVERY edge `e`, and (being the computed distance of some edge `e0`) at most `rhoMax e0 + farEdgeErr`. -/
theorem furthest_distance_within_slack (HE : FarEdgesOK P) (HI : FarIndexOK P) {o : Opts MChord}
    (h0 : o.maxError = mnull) (h1 : o.maxResults = 1) (hU : o.targetUsesMaxError = false)
    (hL : mchordI.less o.distanceLimit mzero = false)
    {rs : List (Result MChord)} (h : findEdges mchordI o (C08Far.world P) = some rs) :
    ∀ r ∈ rs, (∀ e ∈ P.allEdges, rhoMax P e - farSlack ≤ val r.dist.1) ∧
      (r.edge ≠ -1 → ∃ e0 ∈ P.allEdges, r.shape = e0.shape ∧ r.edge = e0.edge ∧ val r.dist.1 ≤ rhoMax P e0 + farEdgeErr) := by
  have S : Slack.SubLawsOn mchordI (C08Far.world P) o.maxError := by rw [h0]; exact far_subLawsOn_zero
  obtain ⟨_, b, c, _⟩ := furthest_single HE HI S h1 hU hL h
  intro r hr
  constructor
  · intro e he
    have := (c r hr e he).2
    rw [h0, msub_zero] at this
    linarith
  · intro hne
    rcases b r hr with ⟨_, _, hedge, _⟩ | ⟨e, he, hs, hed, _, _, herr, _⟩
    · exact absurd hedge hne
    · exact ⟨e, he, hs, hed, by have := (abs_le.mp herr).2; linarith⟩

/-- the same as ONE inequality against the true optimum: if `m` is the greatest exact maximum distance (`rhoMax e ≤ m` for all `e`,
    `m = rhoMax e1` for some edge `e1`), a reported EDGE distance `d` satisfies `m − farSlack ≤ d ≤ m + farEdgeErr` -/
theorem furthest_distance_vs_optimum (HE : FarEdgesOK P) (HI : FarIndexOK P) {o : Opts MChord}
    (h0 : o.maxError = mnull) (h1 : o.maxResults = 1) (hU : o.targetUsesMaxError = false)
    (hL : mchordI.less o.distanceLimit mzero = false)
    {rs : List (Result MChord)} (h : findEdges mchordI o (C08Far.world P) = some rs)
    {m : ℝ} (hm : ∀ e ∈ P.allEdges, rhoMax P e ≤ m) {e1 : EdgeKey} (he1 : e1 ∈ P.allEdges) (hm1 : rhoMax P e1 = m) :
    ∀ r ∈ rs, r.edge ≠ -1 → m - farSlack ≤ val r.dist.1 ∧ val r.dist.1 ≤ m + farEdgeErr := by
  intro r hr hne
  obtain ⟨a, b⟩ := furthest_distance_within_slack HE HI h0 h1 hU hL h r hr
  obtain ⟨e0, he0, _, _, l⟩ := b hne
  refine ⟨by have := a e1 he1; rw [hm1] at this; exact this, by have := hm e0 he0; linarith⟩

/-- **optimized vs brute force, MaxResults = 1, MaxError = 0**: whenever both runs report an EDGE, the two reported distances
    differ by at most `farSlack + farEdgeErr` -/
theorem furthest_optimized_vs_bruteforce_single (HE : FarEdgesOK P) (HI : FarIndexOK P) {o o' : Opts MChord}
    (h0 : o.maxError = mnull) (h0' : o'.maxError = mnull) (h1 : o.maxResults = 1) (h1' : o'.maxResults = 1)
    (hU : o.targetUsesMaxError = false) (hU' : o'.targetUsesMaxError = false)
    (hL : mchordI.less o.distanceLimit mzero = false) (hL' : mchordI.less o'.distanceLimit mzero = false)
    {rs rs' : List (Result MChord)} (h : findEdges mchordI o (C08Far.world P) = some rs)
    (h' : findEdges mchordI o' (C08Far.world P) = some rs') :
    ∀ r ∈ rs, ∀ r' ∈ rs', r.edge ≠ -1 → r'.edge ≠ -1 →
      |val r.dist.1 - val r'.dist.1| ≤ farSlack + farEdgeErr := by
  intro r hr r' hr' hne hne'
  obtain ⟨a1, a3⟩ := furthest_distance_within_slack HE HI h0 h1 hU hL h r hr
  obtain ⟨e0, he0, _, _, a2⟩ := a3 hne
  obtain ⟨b1, b3⟩ := furthest_distance_within_slack HE HI h0' h1' hU' hL' h' r' hr'
  obtain ⟨e1, he1, _, _, b2⟩ := b3 hne'
  have c1 := a1 e1 he1
  have c2 := b1 e0 he0
  rw [abs_le]; constructor <;> linarith

/-- **the `Distance()` entry point with MaxError = 0** (`findEdge` + `.distance`, for a furthest query `GetDistance`): the returned
    chord `d` is the "infinity" −1 only if the limit is not −1 and no edge is truly farther than `limit + farSlack`; otherwise it is at
    least `rhoMax e − farSlack` for EVERY edge. -/
theorem furthest_distance_call (HE : FarEdgesOK P) (HI : FarIndexOK P) {o : Opts MChord}
    (h0 : o.maxError = mnull) (hU : o.targetUsesMaxError = false)
    (hL : mchordI.less o.distanceLimit mzero = false) {d : MChord}
    (hd : distance mchordI o (C08Far.world P) = some d) :
    ∀ e ∈ P.allEdges,
      (d = minf ∧ o.distanceLimit.1 ≠ mNegOne ∧ rhoMax P e ≤ val o.distanceLimit.1 + farSlack) ∨
      rhoMax P e - farSlack ≤ val d.1 := by
  rw [distance_eq] at hd
  cases hf : findEdges mchordI { o with maxResults := 1 } (C08Far.world P) with
  | none => rw [hf] at hd; cases hd
  | some rs =>
    rw [hf] at hd
    simp only [Option.map_some, Option.some.injEq] at hd
    have S : Slack.SubLawsOn mchordI (C08Far.world P) ({ o with maxResults := 1 } : Opts MChord).maxError := by
      show Slack.SubLawsOn mchordI (C08Far.world P) o.maxError
      rw [h0]; exact far_subLawsOn_zero
    intro e he
    cases rs with
    | nil =>
      left
      obtain ⟨_, _, _, dd⟩ := furthest_single HE HI S rfl hU hL hf
      have := dd rfl e he
      exact ⟨hd.symm, this⟩
    | cons r t =>
      right
      have := (furthest_distance_within_slack HE HI (o := { o with maxResults := 1 }) h0 rfl hU hL hf r (by simp)).1 e he
      have hdr : d = r.dist := hd.symm
      rw [hdr]; exact this

/-- **`IsDistanceGreater(target, limit)`** (delegates to `IsDistanceLess`: `MaxResults(1)`, `DistanceLimit(limit)`,
    `MaxError(StraightChordAngle)`; `straight` = `maxDistance(4)` = `mzero`), on the float code, NO hypothesis on `sub`
    (`furthest_subLawsOn_straight`).  `true` ⇒ interior hit or some edge has a COMPUTED maximum distance beyond the limit (within `205u` of
    its exact value); `false` ⇒ the limit is not −1 and NO edge is truly farther than `limit + farSlack`. -/
theorem furthest_isDistanceGreater (HE : FarEdgesOK P) (HI : FarIndexOK P) {o : Opts MChord}
    (hU : o.targetUsesMaxError = false)
    (hsh : ∀ e ∈ P.allEdges, 0 ≤ e.shape) (hin : ∀ sh ∈ P.interiors, 0 ≤ sh)
    {t : MChord} (hL : mchordI.less t mzero = false) {b : Bool}
    (hb : isDistanceLess mchordI mzero o (C08Far.world P) t = some b) :
    (b = true →
      (o.includeInteriors = true ∧ P.interiors ≠ []) ∨
      ∃ e ∈ P.allEdges, ∃ x : MChord, Fin x.1 ∧ |val x.1 - rhoMax P e| ≤ farEdgeErr ∧ mchordI.less x t = true) ∧
    (b = false → ∀ e ∈ P.allEdges, t.1 ≠ mNegOne ∧ rhoMax P e ≤ val t.1 + farSlack) := by
  rw [isDistanceLess_eq] at hb
  cases hrs : findEdges mchordI { o with maxResults := 1, distanceLimit := t, maxError := mzero } (C08Far.world P) with
  | none => rw [hrs] at hb; cases hb
  | some rs =>
    rw [hrs] at hb
    simp only [Option.map_some, Option.some.injEq] at hb
    obtain ⟨k1, k2, _, k4⟩ := furthest_single HE HI
      (o := { o with maxResults := 1, distanceLimit := t, maxError := mzero }) (far_subLawsOn_straight HE) rfl hU hL hrs
    cases rs with
    | nil =>
      have hbf : b = false := hb.symm
      subst hbf
      exact ⟨fun h => (by cases h), fun _ => k4 rfl⟩
    | cons r tl =>
      simp only at hb
      rcases k2 r (by simp) with ⟨hi, _, _, hs⟩ | ⟨e, he, hs, _, hf, _, herr, hlt⟩
      · have : b = true := by
          rw [← hb]; exact decide_eq_true (hin _ hs)
        subst this
        refine ⟨fun _ => Or.inl ⟨hi, List.ne_nil_of_mem hs⟩, fun h => by cases h⟩
      · have : b = true := by
          rw [← hb]; apply decide_eq_true; rw [hs]; exact hsh e he
        subst this
        exact ⟨fun _ => Or.inr ⟨e, he, r.dist, hf, herr, hlt⟩, fun h => by cases h⟩

/-! ## (2) MaxResults ≠ 1 (`FindEdges` with several results), either path -/

/-- **END-TO-END, MaxResults ≠ 1.**  The answer has at most MaxResults entries, strictly sorted by (distance — FARTHEST first —,
    shape, edge); an entry is an interior result or an edge of the index with the value `UpdateMaxDistance` computes for it at the option's
    limit — finite, not −1, beyond the limit, within `farEdgeErr` of the edge's TRUE maximum distance; EVERY edge that is truly farther
    than `limit + farSlack` (every edge, for the limit −1) is reported with such a value, unless the answer is full and every reported
    entry precedes that edge's entry. -/
theorem furthest_multi (HE : FarEdgesOK P) (HI : FarIndexOK P) {o : Opts MChord}
    (hk : o.maxResults ≠ 1) (hU : o.targetUsesMaxError = false) {rs : List (Result MChord)}
    (h : findEdges mchordI o (C08Far.world P) = some rs) :
    rs.length ≤ o.maxResults ∧
    rs.Pairwise (fun a b => Result.less mchordI a b = true) ∧
    (∀ r ∈ rs,
      (o.includeInteriors = true ∧ r.dist = mzero ∧ r.edge = -1 ∧ r.shape ∈ P.interiors) ∨
      (∃ e ∈ P.allEdges, r.shape = e.shape ∧ r.edge = e.edge ∧ C08Far.updEdge P e o.distanceLimit = some r.dist ∧
        Fin r.dist.1 ∧ r.dist.1 ≠ mNegOne ∧ |val r.dist.1 - rhoMax P e| ≤ farEdgeErr ∧
        mchordI.less r.dist o.distanceLimit = true)) ∧
    (∀ e ∈ P.allEdges, (o.distanceLimit.1 = mNegOne ∨ val o.distanceLimit.1 + farSlack < rhoMax P e) →
      ∃ x, C08Far.updEdge P e o.distanceLimit = some x ∧ |val x.1 - rhoMax P e| ≤ farEdgeErr ∧
        ((⟨x, e.shape, e.edge⟩ : Result MChord) ∈ rs ∨
         (rs.length = o.maxResults ∧ ∀ a ∈ rs, Result.less mchordI a ⟨x, e.shape, e.edge⟩ = true))) := by
  obtain ⟨a, b, c, d⟩ := Slack.slack_multi mchord_order (furthest_world_slack HE HI) hk hU h
  refine ⟨a, b, ?_, ?_⟩
  · intro r hr
    rcases c r hr with hi | ⟨e, he, hs, hed, hup⟩
    · exact Or.inl hi
    · obtain ⟨f, hn, hlt, herr⟩ := edge_some HE he hup
      exact Or.inr ⟨e, he, hs, hed, hup, f, hn, herr, hlt⟩
  · intro e he hn
    obtain ⟨x, hup, hx⟩ := d e he hn
    exact ⟨x, hup, (edge_some HE he hup).2.2.2, hx⟩

/-- **optimized vs brute force, MaxResults ≠ 1.**  `sB` = the raw result list of the brute-force scan.  Every entry of the optimized
    answer is an entry of the brute-force scan (same float); every brute-force entry whose COMPUTED distance is above
    `limit + (farSlack + farEdgeErr)` (any entry for the limit −1) is in the optimized answer, unless that answer is full and all its
    entries precede it. -/
theorem furthest_multi_vs_bruteforce (HE : FarEdgesOK P) (HI : FarIndexOK P) {o : Opts MChord}
    (hk : o.maxResults ≠ 1) (hU : o.targetUsesMaxError = false) (hz : o.distanceLimit ≠ mzero)
    {rs : List (Result MChord)} (h : findEdges mchordI o (C08Far.world P) = some rs)
    {sB : St MChord} (hB : findEdgesInternal mchordI { o with useBruteForce := true } (C08Far.world P) = some sB) :
    (∀ r ∈ rs, r ∈ sB.results) ∧
    (∀ r ∈ sB.results, r.edge ≠ -1 →
      (o.distanceLimit.1 = mNegOne ∨ val o.distanceLimit.1 + (farSlack + farEdgeErr) < val r.dist.1) →
      r ∈ rs ∨ (rs.length = o.maxResults ∧ ∀ a ∈ rs, Result.less mchordI a r = true)) := by
  have hchar := Slack.brute_multi_internal (I := mchordI) (o := { o with useBruteForce := true }) (w := C08Far.world P)
    hk hU (Or.inl rfl) hz hB
  obtain ⟨_, _, c, d⟩ := furthest_multi HE HI hk hU h
  constructor
  · intro r hr
    rw [hchar]
    rcases c r hr with hi | ⟨e, he, hs, hed, hup, _⟩
    · exact Or.inl hi
    · refine Or.inr ⟨e, he, ?_, hup⟩
      cases r; simp only at hs hed; subst hs; subst hed; rfl
  · intro r hr hne hband
    rcases (hchar r).mp hr with ⟨_, _, hedge, _⟩ | ⟨e, he, hre, hup⟩
    · exact absurd hedge hne
    · have hup' : C08Far.updEdge P e o.distanceLimit = some r.dist := hup
      obtain ⟨f, _, _, herr⟩ := edge_some HE he hup'
      have hnear : o.distanceLimit.1 = mNegOne ∨ val o.distanceLimit.1 + farSlack < rhoMax P e := by
        rcases hband with hi | hb
        · exact Or.inl hi
        · right
          have := (abs_le.mp herr).2
          linarith
      obtain ⟨x, hx, _, hres⟩ := d e he hnear
      rw [hup'] at hx
      cases hx
      rw [← hre] at hres
      exact hres

/-! ## (3) non-vacuity: the two-cell index of `PointWorldEx` (`EdgeQuery/FurthestWorldEx.lean`)

  face cell 0 (node) over two level-1 index cells, each listing one edge; target (1/3, 2/3, 2/3) on another face.  Every hypothesis
  of the theorems above is DISCHARGED for it (kernel-checked integer forms; `FarthestCovered` from "both endpoints in the cell ⇒ the
  arc is in the cell"), and the search is evaluated by the kernel on the bit-exact soft-float. -/

section NonVacuity
open S2Proofs.C08Far.Ex S2Proofs.C08World.Ex S2Proofs.C12Dist

example : FarEdgesOK farIdx := ex_farEdgesOK
/-- the same through the integer form `furthest_edgesOK_of_int` -/
example : FarEdgesOK farIdx :=
  furthest_edgesOK_of_int farFacts.1.1 (by
    intro e he
    rcases C08Far.Ex.mem_allEdges he with rfl | rfl
    · exact farFacts.1
    · exact farFacts.2.1)
example : FarIndexOK farIdx := ex_farIndexOK
example : Slack.SlackWorld mchordI (C08Far.world farIdx) (C08Far.Near farIdx) := furthest_world_slack ex_farEdgesOK ex_farIndexOK
example : Slack.SubLawsOn mchordI (C08Far.world farIdx) farOpts.maxError := furthest_subLawsOn_zero

/-- `I1Arc` / `FarRootsCover` for the example index, and `FarIndexOK` re-derived through `furthest_indexOK_of_parts` (the ancestors
    handled by `regions_nested` instead of the hand-made argument of `ex_farCovered`) -/
theorem furthest_ex_i1Arc : S2Proofs.C08World.I1Arc farIdx.toPoint := ex_i1Arc

theorem furthest_ex_rootsCover : FarRootsCover farIdx := by
  intro lim x hx Q _ _ _
  have : x = cNeg ∨ x = cPos := by simpa [farIdx, Roots.ids] using hx
  refine ⟨cRoot, by simp [farIdx], ?_⟩
  rcases this with rfl | rfl <;> decide

example : FarIndexOK farIdx :=
  furthest_indexOK_of_parts ex_farEdgesOK ex_farIndexOK.cellsOK ex_farIndexOK.rootsValid ex_farIndexOK.depth
    ex_farIndexOK.edgesSound ex_farIndexOK.locatedSound furthest_ex_i1Arc furthest_ex_rootsCover

/-- the unbounded limit −1 is not above `zero = 4` in the search order -/
theorem furthest_ex_limit : mchordI.less farOpts.distanceLimit mzero = false := by decide +kernel

/-- the optimized furthest-edge search on this world, evaluated by the kernel: edge 1 at squared chord `0x40075138CD15385B` ≈ 2.9147
    (the far branch of `UpdateMaxDistance`: an INTERIOR maximum, larger than both endpoint chords 26/9); with MaxResults = 2 also edge 0 at
    `0x3FF5555555555556` = 4/3 (near branch: the endpoint (1,0,0)); the brute-force scan agrees -/
example : (findEdges mchordI farOpts (C08Far.world farIdx)).map (fun rs => rs.map (fun r => (r.dist.1.bits, r.shape, r.edge)))
    = some [(0x40075138CD15385B, 0, 1)] := C08Far.Ex.ex_search
example : (findEdges mchordI farOpts2 (C08Far.world farIdx)).map (fun rs => rs.map (fun r => (r.dist.1.bits, r.shape, r.edge)))
    = some [(0x40075138CD15385B, 0, 1), (0x3FF5555555555556, 0, 0)] := C08Far.Ex.ex_search2
example : (findEdges mchordI farOptsB (C08Far.world farIdx)).map (fun rs => rs.map (fun r => (r.dist.1.bits, r.shape, r.edge)))
    = some [(0x40075138CD15385B, 0, 1)] := C08Far.Ex.ex_searchB

/-- `furthest_distance_within_slack` APPLIED, no hypothesis left: the float the search returns is at least
    `rhoMax e − farSlack` for every edge of the index -/
example : ∀ e ∈ farIdx.allEdges, rhoMax farIdx e - farSlack ≤ val (⟨0x40075138CD15385B⟩ : F64) := by
  obtain ⟨rs, hf⟩ : ∃ rs, findEdges mchordI farOpts (C08Far.world farIdx) = some rs :=
    S2Proofs.EdgeQuery.findEdges_total mchordI farOpts (C08Far.world farIdx)
  have hs := C08Far.Ex.ex_search
  rw [hf] at hs
  simp only [Option.map_some, Option.some.injEq] at hs
  obtain ⟨r, hrs⟩ : ∃ r, rs = [r] := by
    cases rs with
    | nil => simp at hs
    | cons r t =>
      cases t with
      | nil => exact ⟨r, rfl⟩
      | cons _ _ => simp at hs
  subst hrs
  simp only [List.map_cons, List.map_nil, List.cons.injEq, Prod.mk.injEq, and_true] at hs
  have hr : r.dist.1 = (⟨0x40075138CD15385B⟩ : F64) := by
    have := hs.1
    cases hd : r.dist.1 with
    | mk b => rw [hd] at this; simp only at this; rw [this]
  intro e he
  have := (furthest_distance_within_slack ex_farEdgesOK ex_farIndexOK (o := farOpts) rfl rfl rfl furthest_ex_limit hf r (by simp)).1 e he
  rw [hr] at this
  exact this

/-- `furthest_multi` APPLIED: with `MaxResults = 2` and the limit −1 BOTH edges must be reported -/
example : ∀ rs, findEdges mchordI farOpts2 (C08Far.world farIdx) = some rs →
    ∀ e ∈ farIdx.allEdges, ∃ x, C08Far.updEdge farIdx e minf = some x ∧
      ((⟨x, e.shape, e.edge⟩ : Result MChord) ∈ rs ∨
        (rs.length = 2 ∧ ∀ a ∈ rs, Result.less mchordI a ⟨x, e.shape, e.edge⟩ = true)) := by
  intro rs h e he
  obtain ⟨_, _, _, d⟩ := furthest_multi ex_farEdgesOK ex_farIndexOK (o := farOpts2) (by decide) rfl h
  obtain ⟨x, hx, _, hres⟩ := d e he (Or.inl rfl)
  exact ⟨x, hx, hres⟩

/-- `SubLawsOn … mzero` for the example index, a SECOND way: by kernel evaluation of `ChordAngle.Add` on the two edge values and on 4
    (`far_subLawsOn_of_cands`, the per-index decidable form that is available for ANY error) -/
theorem furthest_ex_subLawsOn_straight : Slack.SubLawsOn mchordI (C08Far.world farIdx) mzero := by
  apply far_subLawsOn_of_cands
  · have h : mless (mcanon (cand farIdx e0)) (msub (mcanon (cand farIdx e0)) mzero) = false ∧
        mless (mcanon (cand farIdx e1)) (msub (mcanon (cand farIdx e1)) mzero) = false := by decide +kernel
    intro e he
    rcases C08Far.Ex.mem_allEdges he with rfl | rfl
    · exact h.1
    · exact h.2
  · decide +kernel

/-- `furthest_isDistanceGreater` APPLIED to the example index, no hypothesis left: whatever `IsDistanceGreater(target, t)` answers for a
    limit `t ≤ 4` obeys the two clauses -/
example (t : MChord) (ht : mchordI.less t mzero = false) (b : Bool)
    (hb : isDistanceLess mchordI mzero farOpts (C08Far.world farIdx) t = some b) :
    (b = false → ∀ e ∈ farIdx.allEdges, t.1 ≠ mNegOne ∧ rhoMax farIdx e ≤ val t.1 + farSlack) :=
  (furthest_isDistanceGreater ex_farEdgesOK ex_farIndexOK (o := farOpts) rfl
    (by intro e he; rcases C08Far.Ex.mem_allEdges he with rfl | rfl <;> decide)
    (by intro sh h; simp [farIdx] at h) ht hb).2

/-- a FINITE limit: `furthest_single` APPLIED to the EMPTY answer of the search with limit 3 (`ex_search4`): NO edge of the index is truly
    farther than `3 + farSlack` from the target -/
example : ∀ e ∈ farIdx.allEdges, rhoMax farIdx e ≤ val (⟨0x4008000000000000⟩ : F64) + farSlack := by
  intro e he
  exact ((furthest_single ex_farEdgesOK ex_farIndexOK (o := farOpts4) furthest_subLawsOn_zero rfl rfl (by decide +kernel)
    C08Far.Ex.ex_search4).2.2.2 rfl e he).2

/-- limit 2 with MaxResults 2 (`ex_search3`): only edge 1 is reported -/
example : (findEdges mchordI farOpts3 (C08Far.world farIdx)).map (fun rs => rs.map (fun r => (r.dist.1.bits, r.shape, r.edge)))
    = some [(0x40075138CD15385B, 0, 1)] := C08Far.Ex.ex_search3

end NonVacuity

end S2Proofs.C08
