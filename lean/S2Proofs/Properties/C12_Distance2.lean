/-
  S2Proofs.Properties.C12_Distance2 — C12, the pruning bounds of `Cell` for the OTHER targets (package c12dist2):
  `BoundaryDistance(p)`, `DistanceToEdge(a, b)`, `DistanceToCell(target)`.

  Models: `S2.CellM.boundaryDistance` (existing), `S2.CellEdgeM.distanceToEdge`, `S2.CellEdgeM.distanceToCell` (new, bit-exact,
  validated against Go on 65 812 `celledge` + 65 812 `cellcell` oracle lines, tied in `Ties/C12_Edge.lean`).
  Specification (as in `C12_Distance.lean`): the exact cell of `id` is `{q : |q| = 1, face-frame image in the cone over the uv
  rectangle}` (`InCellXYZ`, boundary `OnBoundaryXYZ`); the arc of an edge `ab` is `OnArc (vecR a) (vecR b)` (unit vectors of the
  closed cone of the two float endpoints: c17err); `chordPQ q r = 2 − 2 q·r = |q − r|²` for unit vectors; `val` = exact value of a float.

  (1) `BoundaryDistance(p)`:  LOWER BOUND 2^-45 (2^-47 for a target inside the cell) and ATTAINED 2^-47, all branches, no proviso.
  (2) `DistanceToEdge(a,b)`:  LOWER BOUND 2^-44 — no point of the exact cell is closer to any point of the arc than the reported
      value − 2^-44 (squared chord).  Hypotheses: the domain of c17err for the five calls the code makes
      (`UnitPt a b`, `EdgeOK a b`, `UnitPt (c.Vertex k)`, `WedgeMargin (c.Vertex k) a b`).  Exact geometry: `distanceToEdge_exact`.
  (3) `DistanceToCell(t)`:    LOWER BOUND 2^-45 under `CallOK` for the 32 (vertex, edge) calls.  Exact geometry: `distanceToCell_exact`,
      `distanceToCell_exact_apart` (for two S2 cells that are not same-face-with-intersecting-rectangles NO exceptional case is left).
  Bounds are ABSOLUTE (squared chord length), as for `Distance` in `C12_Distance.lean`.
-/
import S2Proofs.C12Dist2.EdgeFinal
import S2Proofs.C12Dist2.CellFinal
import S2Proofs.C12Dist2.CellAttained
import S2Proofs.C12Dist2.EdgeAttained
import S2Proofs.C12Dist2.Boundary
import S2Proofs.C12Dist2.BoundaryOrder
import S2Proofs.C12Dist2.BoundaryExact
import S2Proofs.Properties.C17_PairsFloat
import S2Proofs.C12.Children

set_option linter.unusedSimpArgs false
set_option linter.unusedVariables false

namespace S2Proofs.C12
open S2 S2.CellID S2.CellM S2.CellEdgeM S2.EdgeNum S2Proofs.F64Order S2Proofs.FloatErr
open S2Proofs.C12Dist S2Proofs.C16Acc

/-! ## (1) `BoundaryDistance` -/

/-- **LOWER BOUND of `BoundaryDistance`.**  For every valid cell and every finite unit-ish point: no point of the cell's
    boundary is closer to `p` than the reported value − 2^-45. -/
theorem boundaryDistance_lower_bound (id : CellID) (hv : isValid id = true) (p : V3) (hp : PtOK p) (q : R3)
    (hq : OnBoundaryXYZ (cellFromCellID id) q) :
    Fin (boundaryDistance (cellFromCellID id) p) ∧
    val (boundaryDistance (cellFromCellID id) p) ≤ dist2 (ofV p) q + 1 / 2 ^ 45 :=
  C12Dist2.boundaryDistance_lower_bound id hv p hp q hq

/-- … with 2^-47 when the target is inside the cell (the branch that distinguishes `BoundaryDistance` from `Distance`:
    the minimum of the four edge distances) -/
theorem boundaryDistance_lower_bound_inside (id : CellID) (hv : isValid id = true) (p : V3) (hp : PtOK p)
    (hb : distanceBranch (cellFromCellID id) p = 4) (q : R3) (hq : OnBoundaryXYZ (cellFromCellID id) q) :
    val (boundaryDistance (cellFromCellID id) p) ≤ dist2 (ofV p) q + 1 / 2 ^ 47 :=
  C12Dist2.boundaryDistance_lower_bound_inside id hv p hp hb q hq

/-- **ATTAINED**: some boundary point realises the reported value within 2^-47 — all branches, no proviso. -/
theorem boundaryDistance_attained (id : CellID) (hv : isValid id = true) (p : V3) (hp : PtOK p) :
    ∃ q : R3, OnBoundaryXYZ (cellFromCellID id) q ∧
      |val (boundaryDistance (cellFromCellID id) p) - min 4 (dist2 (ofV p) q)| ≤ 1 / 2 ^ 47 :=
  C12Dist2.boundaryDistance_attained_strong id hv p hp

/-- the full statements as propositions, and that they hold -/
theorem boundaryDistanceLowerBound_holds : C12Dist2.BoundaryDistanceLowerBoundReal (1 / 2 ^ 45) :=
  C12Dist2.boundaryDistanceLowerBound_holds
theorem boundaryDistanceAttained_holds : C12Dist2.BoundaryDistanceAttainedClaim (1 / 2 ^ 47) :=
  C12Dist2.boundaryDistanceAttained_holds

/-- `Distance(p) ≤ BoundaryDistance(p)` on the floats -/
theorem distance_le_boundaryDistance (id : CellID) (hv : isValid id = true) (p : V3) (hp : PtOK p) :
    val (distance (cellFromCellID id) p) ≤ val (boundaryDistance (cellFromCellID id) p) :=
  C12Dist2.distance_le_boundaryDistance id hv p hp

/-- the two functions differ only for a target inside the cell -/
theorem boundaryDistance_eq_distance_outside (c : Cell) (p : V3) (h : distanceBranch c p ≠ 4) :
    boundaryDistance c p = distance c p := C12Dist2.boundaryDistance_eq_distance_of_branch c p h

/-- exact arithmetic: the case split of `distanceInternal(·, false)` returns exactly the minimum over the boundary -/
theorem boundary_exact_case_analysis (r : RRect) (hr : r.OK) (T : R3) (hT : T.norm2 = 1) :
    (∀ q, OnBoundary r q → C12Dist2.bdExact r T ≤ dist2 T q) ∧ (∃ q, OnBoundary r q ∧ dist2 T q = C12Dist2.bdExact r T) :=
  C12Dist2.bdExact_correct r hr T hT

/-- `Cell.Distance(p)` is a non-negative float (needed: it is handed to `UpdateMinDistance` as a limit) -/
theorem distance_nonneg (id : CellID) (hv : isValid id = true) (p : V3) (hp : PtOK p) :
    0 ≤ val (distance (cellFromCellID id) p) := C12Dist2.distance_nonneg id hv p hp

/-! ## (2) `DistanceToEdge` -/

section edge
open S2Proofs.C17Err S2Proofs.C17Err.R3 S2Proofs.C17Pairs S2Proofs.C17 S2Proofs.C08World S2Proofs.C12Dist2

/-- the c17err domain of the four calls `UpdateMinDistance(c.Vertex(k), a, b, ·)` -/
def VerticesOK (c : Cell) (a b : V3) : Prop := ∀ k, k < 4 → UnitPt (vertex c k) ∧ WedgeMargin (vertex c k) a b

/-- **LOWER BOUND of `DistanceToEdge`** — the pruning bound of the closest-edge search for edge targets.
    For every valid cell, every edge `ab` in the domain of c17err and every vertex call in that domain: the reported value is a
    finite float, and NO point `q` of the exact cell is closer to ANY point `r` of the arc `ab` than the reported value − 2^-44
    (squared chord).  Budget: `Distance(a/b)` 2^-45 (C12) + 2^-49 (|a| ≠ 1), `UpdateMinDistance` 2^-46 (C17), float vertices
    within 2u / float edges within 8u of the exact ones: 2^-45 + 2^-49 + 20u + 64u². -/
theorem distanceToEdge_lower_bound (id : CellID) (hv : isValid id = true) (a b : V3)
    (ha : UnitPt a) (hb : UnitPt b) (hE : EdgeOK a b) (hV : VerticesOK (cellFromCellID id) a b)
    (q r : C17Err.R3) (hq : InCellXYZ (cellFromCellID id) (toAcc q)) (hr : OnArc (vecR a) (vecR b) r) :
    Fin (distanceToEdge (cellFromCellID id) a b) ∧
    val (distanceToEdge (cellFromCellID id) a b) ≤ chordPQ q r + 1 / 2 ^ 44 :=
  distanceToEdge_lower id hv a b ha hb hE (fun k hk => ⟨(hV k hk).1, (hV k hk).2⟩) hq hr

/-- the full statement as a proposition … -/
def DistanceToEdgeLowerBoundReal (err : ℝ) : Prop :=
  ∀ (id : CellID) (a b : V3), isValid id = true → UnitPt a → UnitPt b → EdgeOK a b → VerticesOK (cellFromCellID id) a b →
    ∀ q r : C17Err.R3, InCellXYZ (cellFromCellID id) (toAcc q) → OnArc (vecR a) (vecR b) r →
      Fin (distanceToEdge (cellFromCellID id) a b) ∧ val (distanceToEdge (cellFromCellID id) a b) ≤ chordPQ q r + err

/-- … which HOLDS with `err = 2^-44` -/
theorem distanceToEdgeLowerBound_holds : DistanceToEdgeLowerBoundReal (1 / 2 ^ 44) :=
  fun id a b hv ha hb hE hV q r hq hr => distanceToEdge_lower_bound id hv a b ha hb hE hV q r hq hr

/-- the same in the vocabulary of `C12_Distance.lean`: `|q − r|²` -/
theorem distanceToEdge_lower_bound_dist2 (id : CellID) (hv : isValid id = true) (a b : V3)
    (ha : UnitPt a) (hb : UnitPt b) (hE : EdgeOK a b) (hV : VerticesOK (cellFromCellID id) a b)
    (q r : C17Err.R3) (hq : InCellXYZ (cellFromCellID id) (toAcc q)) (hr : OnArc (vecR a) (vecR b) r) :
    val (distanceToEdge (cellFromCellID id) a b) ≤ dist2 (toAcc q) (toAcc r) + 1 / 2 ^ 44 := by
  have h := (distanceToEdge_lower_bound id hv a b ha hb hE hV q r hq hr).2
  have e : dist2 (toAcc q) (toAcc r) = chordPQ q r := by
    have hq1 : q.n2 = 1 := by
      have := hq.1
      rw [← this]; unfold toAcc uvwR C16Acc.R3.norm2 C17Err.R3.n2 C17Err.R3.dot; split <;> ring
    have hr1 := onArc_n2 hr
    rw [dist2_eq]
    have e1 : (toAcc q).norm2 = q.n2 := by unfold toAcc C16Acc.R3.norm2 C17Err.R3.n2 C17Err.R3.dot; ring
    have e2 : (toAcc r).norm2 = r.n2 := by unfold toAcc C16Acc.R3.norm2 C17Err.R3.n2 C17Err.R3.dot; ring
    have e3 : C16Acc.R3.dot (toAcc q) (toAcc r) = q.dot r := by unfold toAcc C16Acc.R3.dot C17Err.R3.dot; ring
    rw [e1, e2, e3, hq1, hr1]; unfold chordPQ; ring
  rw [e]; exact h

/-- `DistanceToEdge` is a number (not NaN) on the domain -/
theorem distanceToEdge_not_nan (id : CellID) (hv : isValid id = true) (a b : V3)
    (ha : UnitPt a) (hb : UnitPt b) (hE : EdgeOK a b) (hV : VerticesOK (cellFromCellID id) a b) :
    (distanceToEdge (cellFromCellID id) a b).isNaN = false := by
  obtain ⟨q, hq⟩ := C12Dist2.corner_inCell id hv 0 |> fun h => (⟨_, h⟩ : ∃ q : C17Err.R3, InCellXYZ (cellFromCellID id) (toAcc q))
  have hr : OnArc (vecR a) (vecR b) (dirR (vecR a)) := onArc_left' _ _ ha.len_pos
  exact isNaN_false (distanceToEdge_lower_bound id hv a b ha hb hE hV q _ hq hr).1

/-- **link to C08 (`CellLB` for an edge target)**: the value handed to the search as the cell's distance is never above the
    distance of a pair (cell point, arc point) by more than 2^-44 -/
theorem cellLB_edge_link (id : CellID) (hv : isValid id = true) (a b : V3)
    (ha : UnitPt a) (hb : UnitPt b) (hE : EdgeOK a b) (hV : VerticesOK (cellFromCellID id) a b)
    (q r : C17Err.R3) (hq : InCellXYZ (cellFromCellID id) (toAcc q)) (hr : OnArc (vecR a) (vecR b) r) :
    ¬ (chordPQ q r + 1 / 2 ^ 44 < val (distanceToEdge (cellFromCellID id) a b)) :=
  not_lt.mpr (distanceToEdge_lower_bound id hv a b ha hb hE hV q r hq hr).2

/-- the full "attained" statement for `DistanceToEdge`: some pair (cell point, arc point) realises the reported value within `err` -/
def DistanceToEdgeAttainedClaim (err : ℝ) : Prop :=
  ∀ (id : CellID) (a b : V3), isValid id = true → UnitPt a → UnitPt b → EdgeOK a b → VerticesOK (cellFromCellID id) a b →
    ∃ q r : C17Err.R3, InCellXYZ (cellFromCellID id) (toAcc q) ∧ OnArc (vecR a) (vecR b) r ∧
      chordPQ q r ≤ val (distanceToEdge (cellFromCellID id) a b) + err

/-- **ATTAINED for `DistanceToEdge`, partial**: proved whenever the code does NOT return from its crossing loop (i.e. an endpoint
    distance is 0, or all four `ChainCrossingSign` calls answer `DoNotCross`): then some point of the exact cell and some point of
    the arc are at most `2^-45` farther apart than the reported value — with `distanceToEdge_lower_bound` the value is within
    `2^-44` of the true minimum.  Missing for `DistanceToEdgeAttainedClaim`: the branch `return 0` of the crossing loop
    ("`CrossingSign ≠ DoNotCross` ⇒ the closed arcs meet", also for vanishing determinants: open in c17pairs). -/
theorem distanceToEdge_attained_partial (id : CellID) (hv : isValid id = true) (a b : V3)
    (ha : UnitPt a) (hb : UnitPt b) (hE : EdgeOK a b) (hV : VerticesOK (cellFromCellID id) a b)
    (hcode : F64.feq (minChord (distance (cellFromCellID id) a) [distance (cellFromCellID id) b]) fzero = true ∨
      anyCrossing (Crosser.initChain a b (vertex (cellFromCellID id) 3)) (vertices (cellFromCellID id)) = false) :
    ∃ q r : C17Err.R3, InCellXYZ (cellFromCellID id) (toAcc q) ∧ OnArc (vecR a) (vecR b) r ∧
      chordPQ q r ≤ val (distanceToEdge (cellFromCellID id) a b) + 1 / 2 ^ 45 :=
  C12Dist2.distanceToEdge_attained_partial id hv a b ha hb hE (fun k hk => ⟨(hV k hk).1, (hV k hk).2⟩) hcode

/-- **EXACT GEOMETRY of `DistanceToEdge`**: the candidate set of the code is complete.  If `m` is below the squared chord from
    `â`, `b̂` to every cell point and from every cell corner to every point of the arc, it is below the squared chord between
    EVERY cell point and EVERY arc point — unless the arc meets one of the four cell edges (true distance 0). -/
theorem distanceToEdge_exact (f : Nat) (r : RRect) (ok : r.OK) {a b : C17Err.R3} (ha : 0 < a.len) (hb : 0 < b.len)
    (hab : NotAntipodal a b) {m : ℝ} (hm0 : 0 < m) (hm4 : m ≤ 4)
    (hA : ∀ x, InCell r (uvwR f (toAcc x)) → m ≤ chordPQ (dirR a) x)
    (hB : ∀ x, InCell r (uvwR f (toAcc x)) → m ≤ chordPQ (dirR b) x)
    (hW : ∀ k P, OnArc a b P → m ≤ chordPQ (dirR ((cellQuad f r).w k)) P)
    {q p : C17Err.R3} (hq : InCell r (uvwR f (toAcc q))) (hp : OnArc a b p) :
    m ≤ chordPQ q p ∨ ∃ k, ArcsMeetR ((cellQuad f r).w k) ((cellQuad f r).w (k + 1)) a b :=
  cellEdge_exact f r ok ha hb hab hm0 hm4 hA hB hW hq hp

/-- the crossing loop answers `DoNotCross` four times ⇒ the arc crosses none of the four float cell edges properly -/
theorem distanceToEdge_crossing_loop (c : Cell) {a b : V3} (ha : UnitPt a) (hb : UnitPt b)
    (hv : ∀ k, k < 4 → UnitPt (vertex c k))
    (h : anyCrossing (Crosser.initChain a b (vertex c 3)) (vertices c) = false) :
    ¬ ProperCrossR (vecR a) (vecR b) (vecR (vertex c 3)) (vecR (vertex c 0)) ∧
    ¬ ProperCrossR (vecR a) (vecR b) (vecR (vertex c 0)) (vecR (vertex c 1)) ∧
    ¬ ProperCrossR (vecR a) (vecR b) (vecR (vertex c 1)) (vecR (vertex c 2)) ∧
    ¬ ProperCrossR (vecR a) (vecR b) (vecR (vertex c 2)) (vecR (vertex c 3)) :=
  noCross_float_unitPt c ha hb hv h

/-- two arcs shorter than π that MEET either cross properly or an endpoint of one lies on the other -/
theorem arcs_meet_cases {a0 a1 b0 b1 : C17Err.R3} (ha0 : 0 < a0.len) (ha1 : 0 < a1.len) (hb0 : 0 < b0.len) (hb1 : 0 < b1.len)
    (hA : NotAntipodal a0 a1) (hB : NotAntipodal b0 b1) (h : ArcsMeetR a0 a1 b0 b1) :
    ProperCrossR a0 a1 b0 b1 ∨ dirOn a0 a1 b0 ∨ dirOn a0 a1 b1 ∨ dirOn b0 b1 a0 ∨ dirOn b0 b1 a1 :=
  meet_cases ha0 ha1 hb0 hb1 hA hB h

/-- the float vertices of a valid cell are within 2u (directions) / 8u (edges) of the exact cell -/
theorem vertices_near (id : CellID) (hv : isValid id = true) :
    NearQuad (cellQuad (cellFromCellID id).face (rectOf (cellFromCellID id))) (floatV (cellFromCellID id)) (2 * uR) (8 * uR) :=
  nearQuad_cell id hv

/-! ## (3) `DistanceToCell` -/

/-- **LOWER BOUND of `DistanceToCell`**: for two valid cells whose 32 (vertex, edge) calls are in the domain of c17err, the
    reported value is a finite float and NO pair of points of the two exact cells is closer than the reported value − 2^-45. -/
theorem distanceToCell_lower_bound (id id' : CellID) (hv : isValid id = true) (hv' : isValid id' = true)
    (hcalls : ∀ t ∈ pairCalls (vertices (cellFromCellID id)) (vertices (cellFromCellID id')), CallOK t.1 t.2.1 t.2.2)
    (q q' : C17Err.R3) (hq : InCellXYZ (cellFromCellID id) (toAcc q)) (hq' : InCellXYZ (cellFromCellID id') (toAcc q')) :
    Fin (distanceToCell (cellFromCellID id) (cellFromCellID id')) ∧
    val (distanceToCell (cellFromCellID id) (cellFromCellID id')) ≤ chordPQ q q' + 1 / 2 ^ 45 := by
  obtain ⟨hf, h⟩ := distanceToCell_lower id id' hv hv' hcalls hq hq'
  refine ⟨hf, le_trans h ?_⟩
  have : C08World.edgeErr + 2 * (2 * uR) + 2 * (8 * uR) + (2 * uR + 8 * uR) ^ 2 ≤ 1 / 2 ^ 45 := by
    unfold C08World.edgeErr uR; norm_num
  linarith

/-- **ATTAINED for `DistanceToCell`**: some pair of points of the two exact cells realises the reported value within `2^-45`
    (all branches: the early `return 0` included) — so `DistanceToCell` is within `2^-45` of the true minimum. -/
theorem distanceToCell_attained (id id' : CellID) (hv : isValid id = true) (hv' : isValid id' = true)
    (hcalls : ∀ t ∈ pairCalls (vertices (cellFromCellID id)) (vertices (cellFromCellID id')), CallOK t.1 t.2.1 t.2.2) :
    ∃ q q' : C17Err.R3, InCellXYZ (cellFromCellID id) (toAcc q) ∧ InCellXYZ (cellFromCellID id') (toAcc q') ∧
      |val (distanceToCell (cellFromCellID id) (cellFromCellID id')) - chordPQ q q'| ≤ 1 / 2 ^ 45 := by
  obtain ⟨q, q', hq, hq', hle⟩ := C12Dist2.distanceToCell_attained id id' hv hv' hcalls
  have hlow := (distanceToCell_lower_bound id id' hv hv' hcalls q q' hq hq').2
  refine ⟨q, q', hq, hq', ?_⟩
  have : C08World.edgeErr + 2 * (2 * uR) + 2 * (8 * uR) ≤ 1 / 2 ^ 45 := by unfold C08World.edgeErr uR; norm_num
  rw [abs_le]
  constructor <;> linarith

def DistanceToCellLowerBoundReal (err : ℝ) : Prop :=
  ∀ (id id' : CellID), isValid id = true → isValid id' = true →
    (∀ t ∈ pairCalls (vertices (cellFromCellID id)) (vertices (cellFromCellID id')), CallOK t.1 t.2.1 t.2.2) →
    ∀ q q' : C17Err.R3, InCellXYZ (cellFromCellID id) (toAcc q) → InCellXYZ (cellFromCellID id') (toAcc q') →
      Fin (distanceToCell (cellFromCellID id) (cellFromCellID id')) ∧
      val (distanceToCell (cellFromCellID id) (cellFromCellID id')) ≤ chordPQ q q' + err

theorem distanceToCellLowerBound_holds : DistanceToCellLowerBoundReal (1 / 2 ^ 45) :=
  fun id id' hv hv' hc q q' hq hq' => distanceToCell_lower_bound id id' hv hv' hc q q' hq hq'

/-- **EXACT GEOMETRY of `DistanceToCell`** for arbitrary uv rectangles: the 32 (corner, edge) pairs suffice unless two edges
    meet or a corner of one cell lies in the other -/
theorem distanceToCell_exact (f f' : Nat) (r r' : RRect) (ok : r.OK) (ok' : r'.OK) {m : ℝ} (hm4 : m ≤ 4)
    (hCT : ∀ k j P, OnArc ((cellQuad f' r').w j) ((cellQuad f' r').w (j + 1)) P → m ≤ chordPQ (dirR ((cellQuad f r).w k)) P)
    (hTC : ∀ j k P, OnArc ((cellQuad f r).w k) ((cellQuad f r).w (k + 1)) P → m ≤ chordPQ (dirR ((cellQuad f' r').w j)) P)
    {q q' : C17Err.R3} (hq : InCell r (uvwR f (toAcc q))) (hq' : InCell r' (uvwR f' (toAcc q'))) :
    m ≤ chordPQ q q' ∨
    (∃ k j, ArcsMeetR ((cellQuad f r).w k) ((cellQuad f r).w (k + 1)) ((cellQuad f' r').w j) ((cellQuad f' r').w (j + 1))) ∨
    (∃ j, (cellQuad f r).In ((cellQuad f' r').w j)) ∨ (∃ k, (cellQuad f' r').In ((cellQuad f r).w k)) :=
  cellCell_exact f f' r r' ok ok' hm4 hCT hTC hq hq'

/-- … and for two S2 cells that are NOT (same face ∧ intersecting uv rectangles) — exactly the cells for which the code does
    not return 0 — no exceptional case is left -/
theorem distanceToCell_exact_apart {f f' : Nat} (hf : f < 6) (hf' : f' < 6) {r r' : RRect} (ok : r.OK) (ok' : r'.OK)
    (hA : Apart f f' r r') {m : ℝ} (hm4 : m ≤ 4)
    (hCT : ∀ k j P, OnArc ((cellQuad f' r').w j) ((cellQuad f' r').w (j + 1)) P → m ≤ chordPQ (dirR ((cellQuad f r).w k)) P)
    (hTC : ∀ j k P, OnArc ((cellQuad f r).w k) ((cellQuad f r).w (k + 1)) P → m ≤ chordPQ (dirR ((cellQuad f' r').w j)) P)
    {q q' : C17Err.R3} (hq : InCell r (uvwR f (toAcc q))) (hq' : InCell r' (uvwR f' (toAcc q'))) :
    m ≤ chordPQ q q' :=
  cellCell_exact_apart hf hf' ok ok' hA hm4 hCT hTC hq hq'

/-- the early return of the code is right: same face and intersecting rectangles ⇒ the exact cells have a common point -/
theorem distanceToCell_zero_case {f f' : Nat} {r r' : RRect} (ok : r.OK) (ok' : r'.OK) (h : ¬ Apart f f' r r') :
    ∃ q q' : C17Err.R3, InCell r (uvwR f (toAcc q)) ∧ InCell r' (uvwR f' (toAcc q')) ∧ chordPQ q q' = 0 :=
  not_apart_dist_zero ok ok' h

/-- edges of two apart S2 cells never cross properly; a corner of one in the other lies on one of its edges -/
theorem cells_apart_facts {f f' : Nat} (hf : f < 6) (hf' : f' < 6) {r r' : RRect} (ok : r.OK) (ok' : r'.OK)
    (hA : Apart f f' r r') :
    NoProperCross (cellQuad f r) (cellQuad f' r') ∧ CornersOnEdges (cellQuad f r) (cellQuad f' r') :=
  ⟨fun k j => cells_no_proper_cross hf hf' ok ok' hA k j, fun j h => corner_in_on_edge hf hf' ok ok' hA j h⟩

/-! ## non-vacuity (all kernel-checked; the floats are the values Go returns, `docs/delivered/c12dist2_gotest`) -/

/-- cell `151f000000000000` (face 0, level 6) as a literal record -/
def cellB : Cell := Cell.mk 0 6 1 0x151f000000000000
    ((⟨4604367669032910848⟩, ⟨4604698988536747349⟩), (⟨4605379219730464768⟩, ⟨4605728131420345685⟩))
/-- cell `3010000000000000` (face 1, level 4) -/
def cellD : Cell := Cell.mk 1 4 0 0x3010000000000000
    ((⟨0⟩, ⟨4591044520135273130⟩), (⟨0⟩, ⟨4591044520135273130⟩))

theorem cellB_eq : cellFromCellID 0x151f000000000000 = cellB := by
  have h : S2Proofs.IsCell (0x151f000000000000 : CellID) 6 := ⟨by decide, by decide, by decide⟩
  unfold cellB
  rw [S2Proofs.C12C.cellFromCellID_eq h]
  decide +kernel

theorem cellD_eq : cellFromCellID 0x3010000000000000 = cellD := by
  have h : S2Proofs.IsCell (0x3010000000000000 : CellID) 4 := ⟨by decide, by decide, by decide⟩
  unfold cellD
  rw [S2Proofs.C12C.cellFromCellID_eq h]
  decide +kernel

def vB0 : V3 := ⟨⟨4604372590169484439⟩, ⟨4602193004526191952⟩, ⟨4603131905620692794⟩⟩
def vB1 : V3 := ⟨⟨4604297787089055143⟩, ⟨4602540573553913516⟩, ⟨4603072077766326003⟩⟩
def vB2 : V3 := ⟨⟨4604209946070145577⟩, ⟨4602413329890454021⟩, ⟨4603235589183317743⟩⟩
def vB3 : V3 := ⟨⟨4604281537975230293⟩, ⟨4602067807759092501⟩, ⟨4603295621978727323⟩⟩
def vD0 : V3 := ⟨⟨9223372036854775808⟩, ⟨4607182418800017408⟩, ⟨0⟩⟩
def vD1 : V3 := ⟨⟨13814391694281483788⟩, ⟨4607147318505572490⟩, ⟨0⟩⟩
def vD2 : V3 := ⟨⟨13814367119989397280⟩, ⟨4607112625387332715⟩, ⟨4590995083134621472⟩⟩
def vD3 : V3 := ⟨⟨9223372036854775808⟩, ⟨4607147318505572490⟩, ⟨4591019657426707980⟩⟩

set_option maxRecDepth 100000 in
theorem vB_eq : vertex cellB 0 = vB0 ∧ vertex cellB 1 = vB1 ∧ vertex cellB 2 = vB2 ∧ vertex cellB 3 = vB3 := by decide +kernel
set_option maxRecDepth 100000 in
theorem vD_eq : vertex cellD 0 = vD0 ∧ vertex cellD 1 = vD1 ∧ vertex cellD 2 = vD2 ∧ vertex cellD 3 = vD3 := by decide +kernel

/-- every hypothesis of `distanceToEdge_lower_bound` holds for cell `151f000000000000` and the edge (0,0,1) → (0,1,0) -/
theorem edge_instance : isValid (0x151f000000000000 : CellID) = true ∧ UnitPt exP ∧ UnitPt exB ∧ EdgeOK exP exB ∧
    VerticesOK (cellFromCellID 0x151f000000000000) exP exB := by
  have h : isValid (0x151f000000000000 : CellID) = true ∧ UnitPtZ exP ∧ UnitPtZ exB ∧ EdgeOKZ exP exB ∧
      UnitPtZ vB0 ∧ UnitPtZ vB1 ∧ UnitPtZ vB2 ∧ UnitPtZ vB3 ∧
      WedgeMarginZ vB0 exP exB ∧ WedgeMarginZ vB1 exP exB ∧ WedgeMarginZ vB2 exP exB ∧ WedgeMarginZ vB3 exP exB := by
    decide +kernel
  obtain ⟨v, p, b, e, u0, u1, u2, u3, m0, m1, m2, m3⟩ := h
  obtain ⟨e0, e1, e2, e3⟩ := vB_eq
  have hp := unitPt_of_int p
  have hb := unitPt_of_int b
  refine ⟨v, hp, hb, edgeOK_of_int e, ?_⟩
  rw [cellB_eq]
  intro k hk
  interval_cases k
  · rw [e0]; exact ⟨unitPt_of_int u0, wedgeMargin_of_int _ _ _ (unitPt_of_int u0) hp hb m0⟩
  · rw [e1]; exact ⟨unitPt_of_int u1, wedgeMargin_of_int _ _ _ (unitPt_of_int u1) hp hb m1⟩
  · rw [e2]; exact ⟨unitPt_of_int u2, wedgeMargin_of_int _ _ _ (unitPt_of_int u2) hp hb m2⟩
  · rw [e3]; exact ⟨unitPt_of_int u3, wedgeMargin_of_int _ _ _ (unitPt_of_int u3) hp hb m3⟩

set_option maxRecDepth 100000 in
/-- on that instance the code reaches the vertex loop (no endpoint in the cell, no crossing) and returns `3fe07cff1f047acb`
    (≈ 0.5153), the value Go's `DistanceToEdge` returns -/
theorem edge_instance_value :
    anyCrossing (Crosser.initChain exP exB (vertex cellB 3)) (vertices cellB) = false ∧
    distanceToEdge cellB exP exB = ⟨0x3fe07cff1f047acb⟩ := by decide +kernel

/-- the theorem applied: no point of the cell is closer to any point of that arc than `0.5153 − 2^-44` -/
example (q r : C17Err.R3) (hq : InCellXYZ (cellFromCellID 0x151f000000000000) (toAcc q)) (hr : OnArc (vecR exP) (vecR exB) r) :
    val (⟨0x3fe07cff1f047acb⟩ : F64) ≤ chordPQ q r + 1 / 2 ^ 44 := by
  obtain ⟨v, p, b, e, hV⟩ := edge_instance
  have h := (distanceToEdge_lower_bound _ v exP exB p b e hV q r hq hr).2
  rw [cellB_eq, edge_instance_value.2] at h
  exact h

/-- the quantifier over cell points is not empty: the corner 0 of the cell -/
example : ∃ q : C17Err.R3, InCellXYZ (cellFromCellID 0x151f000000000000) (toAcc q) :=
  ⟨_, C12Dist2.corner_inCell _ edge_instance.1 0⟩

/-- every hypothesis of `distanceToCell_lower_bound` holds for the cells `151f000000000000` (face 0) and `3010000000000000`
    (face 1): all 32 calls are in the domain of c17err -/
theorem cell_instance : isValid (0x151f000000000000 : CellID) = true ∧ isValid (0x3010000000000000 : CellID) = true ∧
    ∀ t ∈ pairCalls (vertices (cellFromCellID 0x151f000000000000)) (vertices (cellFromCellID 0x3010000000000000)),
      CallOK t.1 t.2.1 t.2.2 := by
  have h : isValid (0x151f000000000000 : CellID) = true ∧ isValid (0x3010000000000000 : CellID) = true ∧
      (pairCalls [vB0, vB1, vB2, vB3] [vD0, vD1, vD2, vD3]).all (fun t =>
        decide (UnitPtZ t.1 ∧ UnitPtZ t.2.1 ∧ UnitPtZ t.2.2 ∧ EdgeOKZ t.2.1 t.2.2 ∧ WedgeMarginZ t.1 t.2.1 t.2.2)) = true := by
    decide +kernel
  obtain ⟨v, v', hall⟩ := h
  refine ⟨v, v', ?_⟩
  rw [cellB_eq, cellD_eq]
  obtain ⟨b0, b1, b2, b3⟩ := vB_eq
  obtain ⟨d0, d1, d2, d3⟩ := vD_eq
  have hvs : vertices cellB = [vB0, vB1, vB2, vB3] := by unfold vertices; rw [b0, b1, b2, b3]
  have hvd : vertices cellD = [vD0, vD1, vD2, vD3] := by unfold vertices; rw [d0, d1, d2, d3]
  rw [hvs, hvd]
  intro t ht
  have := List.all_eq_true.mp hall t ht
  obtain ⟨a1, a2, a3, a4, a5⟩ := of_decide_eq_true this
  exact callOK_of_int a1 a2 a3 a4 a5

set_option maxRecDepth 100000 in
/-- the value the model (and Go) returns for that pair: `3fed8b920a3b7572` (≈ 0.9233) -/
theorem cell_instance_value : distanceToCell cellB cellD = ⟨0x3fed8b920a3b7572⟩ := by decide +kernel

example (q q' : C17Err.R3) (hq : InCellXYZ (cellFromCellID 0x151f000000000000) (toAcc q))
    (hq' : InCellXYZ (cellFromCellID 0x3010000000000000) (toAcc q')) :
    val (⟨0x3fed8b920a3b7572⟩ : F64) ≤ chordPQ q q' + 1 / 2 ^ 45 := by
  obtain ⟨v, v', hc⟩ := cell_instance
  have h := (distanceToCell_lower_bound _ _ v v' hc q q' hq hq').2
  rw [cellB_eq, cellD_eq, cell_instance_value] at h
  exact h

end edge

end S2Proofs.C12
