/-
  C01 capstone (ideal arithmetic): "every point maps to a valid leaf cell that contains it, and every
  ancestor of that leaf (at every level 0..30) contains the point".
  The region of a cell is read off the cell id itself: its face and the ij-aligned square given by
  `faceIJOrientation` (what Go's `ijLevelToBoundUV` uses), mapped to uv by the real `stToUVR`.
  The point → (face,i,j) step is the exact-real version of `cellIDFromPoint` (`pointToFaceIJR`);
  the binary64 rounding margin is NOT covered.
-/
import S2Proofs.Properties.C01_Real
import S2Proofs.HilbertNeighbors
import S2Proofs.Properties.C01_Hilbert
open S2 S2.CellID S2.Hilbert
namespace S2Proofs.C01

/-- the closed region of cell `id`: face `face id`, ij-square read from `faceIJOrientation id` at `level id` -/
def CellRegionContainsR (id : CellID) (p : ℝ × ℝ × ℝ) : Prop :=
  CellContainsR (face id)
    ((sqI id (level id) : ℤ) * 2^(30 - level id)) ((sqI id (level id) : ℤ) * 2^(30 - level id) + 2^(30 - level id))
    ((sqJ id (level id) : ℤ) * 2^(30 - level id)) ((sqJ id (level id) : ℤ) * 2^(30 - level id) + 2^(30 - level id)) p

/-- for every non-zero point and every level k ≤ 30: the leaf built from the point's exact (face,i,j) is a
    valid leaf; its level-k ancestor is a valid level-k cell that contains the leaf (as ids) and whose
    region contains the point.  (k = 30: the leaf itself.) -/
theorem point_in_leaf_and_all_ancestors {p : ℝ × ℝ × ℝ} (hp : p ≠ 0) {k : ℕ} (hk : k ≤ 30) :
    let leaf := cellIDFromFaceIJ (pointToFaceIJR p).1 (pointToFaceIJR p).2.1.toNat (pointToFaceIJR p).2.2.toNat
    isValid leaf = true ∧ isLeaf leaf = true ∧
    isValid (parent leaf k) = true ∧ level (parent leaf k) = k ∧
    contains (parent leaf k) leaf = true ∧ CellRegionContainsR (parent leaf k) p := by
  obtain ⟨hf, ⟨hi0, hi1⟩, ⟨hj0, hj1⟩, hc⟩ := cell_contains_point hp hk
  generalize pointToFaceIJR p = t at *
  obtain ⟨f, i, j⟩ := t
  simp only at hf hi0 hi1 hj0 hj1 hc ⊢
  obtain ⟨n, rfl⟩ := Int.eq_ofNat_of_zero_le hi0
  obtain ⟨m, rfl⟩ := Int.eq_ofNat_of_zero_le hj0
  have hn : n < 2^30 := by exact_mod_cast hi1
  have hm : m < 2^30 := by exact_mod_cast hj1
  simp only [Int.toNat_natCast]
  obtain ⟨v1, v2, _, _⟩ := cellIDFromFaceIJ_valid_leaf f n m hf hn hm
  obtain ⟨hleaf, _, _⟩ := cellIDFromFaceIJ_facts (rfl : 30 = 30) f n m hf hn hm
  obtain ⟨c1, c2, c3, c4⟩ := square_cell (rfl : 30 = 30) f n m k hf hn hm hk
  refine ⟨v1, v2, (isValid_iff _).mpr ⟨k, c1⟩, c1.level_eq, ?_, ?_⟩
  · rw [c1.contains_iff_parent hleaf]; exact ⟨hk, rfl⟩
  · unfold CellRegionContainsR
    rw [c1.level_eq, c2, c3, c4]
    have e1 : ((n / 2^(30-k) : ℕ) : ℤ) = (n : ℤ) / 2^(30-k) := by push_cast; rfl
    have e2 : ((m / 2^(30-k) : ℕ) : ℤ) = (m : ℤ) / 2^(30-k) := by push_cast; rfl
    rw [e1, e2]
    exact hc
example : ((1, 1/2, -1/4) : ℝ × ℝ × ℝ) ≠ 0 ∧ (17:ℕ) ≤ 30 := by
  refine ⟨?_, by norm_num⟩
  intro h; have := congrArg Prod.fst h; simp at this

end S2Proofs.C01
