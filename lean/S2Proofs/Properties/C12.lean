/-
  Property C12 — "Cell geometry agrees with cell ids: containment, children, bounds, distances".

  What is a THEOREM here (all cells = all faces, all levels; model `S2.CellM` = s2/cell.go line by line,
  tied to the Go code bit-exactly by the ops `cellch`, `cellpt`, `cidpt`):

  (a) `children_eq_direct`     Cell.Children() = [CellFromCellID(child k)] on face, level, orientation, id AND
                               bit-identical uv bounds — FULL.
  (b) `leaf_in_range_ij`       a leaf whose id lies in the id range of a cell has its (i,j) inside the cell's
                               ij-square and the same face — FULL (no Hilbert hypothesis needed for this half).
      `point_leaf_in_range_st` for a point p whose leaf id lies in the cell's id range, the computed s,t of p lie in
                               the cell's exact st-interval (exact comparisons) — under the named hypothesis
                               `HilbertBijection` (faceIJOrientation ∘ cellIDFromFaceIJ = id; owned by package C01).
      `ContainsClaim`          (def, NOT proved) the float statement with the dblEpsilon margin — partial.
  (c) `distance_zero_of_inside`, `distance_eq_boundary_of_not_inside`, `boundary_inside`,
      `maxDistance_le_right`, `maxDistance_gt_right`, `maxDistance_antipode_inside` — the case logic of
      distanceInternal / MaxDistance.
      `DistanceAttained`, `DistanceLowerBound`, `MaxDistanceUpperBound` (defs, NOT proved: numeric).
      `former_NaN_inputs_fixed` : the inputs on which Distance / MaxDistance returned NaN before the repair of edgeDistance.
-/
import S2.CellM
import S2Proofs.CellIDLemmas
import S2Proofs.C12.HilbertSpec
import S2Proofs.C12.HilbertInverse
import S2Proofs.C12.STExact
import S2Proofs.C12.Children
import Mathlib.Tactic.Ring
namespace S2Proofs.C12
open S2 S2.CellID S2.Hilbert S2.STUV S2.CellM S2Proofs S2Proofs.C12H S2Proofs.C12ST S2Proofs.C12C

/-! ## (a) Children = direct construction -/

theorem posToIJ_lt : ∀ o < 4, ∀ p < 4, (posToIJ[o]!)[p]! < 4 := by decide

theorem childCell_eq {x : CellID} {n pos : Nat} (h : IsCell x n) (hn : n < 30) (hp : pos < 4) :
    childCell (cellFromCellID x) (centerUV x) pos (child x pos) = cellFromCellID (child x pos) := by
  rw [cellFromCellID_eq h, cellFromCellID_eq (h.child_isCell hn hp), prefixState_child h hn hp,
    centerUV_eq h hn, face_child h hn hp]
  obtain ⟨_, _, hO⟩ := prefixState_bounds x n
  unfold childCell stepSpec boundOf
  simp only
  have hij := posToIJ_lt _ hO pos hp
  generalize (prefixState x n).1 = I
  generalize (prefixState x n).2.1 = J
  generalize (prefixState x n).2.2 = O at hij
  generalize (posToIJ[O]!)[pos]! = ij at hij
  have e1 : 30 - n = (29 - n) + 1 := by omega
  have e2 : 30 - (n + 1) = 29 - n := by omega
  rw [e1, e2, Nat.pow_succ]
  generalize 2 ^ (29 - n) = P
  have a1 : I * (P * 2) = (2 * I + 0) * P := by ring
  have a2 : I * (P * 2) + P = (2 * I + 0 + 1) * P := by ring
  have a3 : I * (P * 2) + P = (2 * I + 1) * P := by ring
  have a4 : (I + 1) * (P * 2) = (2 * I + 1 + 1) * P := by ring
  have b1 : J * (P * 2) = (2 * J + 0) * P := by ring
  have b2 : J * (P * 2) + P = (2 * J + 0 + 1) * P := by ring
  have b3 : J * (P * 2) + P = (2 * J + 1) * P := by ring
  have b4 : (J + 1) * (P * 2) = (2 * J + 1 + 1) * P := by ring
  interval_cases ij <;> simp [a1, a4, b1, b4] <;> refine ⟨?_, ?_⟩ <;> congr 2 <;> ring

/-- **Children = direct construction.**  For every valid non-leaf cell id, `Cell.Children()` of the cell built
    from the id is exactly the list of cells built directly from the four child ids: same id, face, level,
    orientation, and the SAME float bit patterns in the uv bounds. -/
theorem children_eq_direct (id : CellID) (hv : isValid id = true) (hl : isLeaf id = false) :
    CellM.children (cellFromCellID id) =
      some [cellFromCellID (child id 0), cellFromCellID (child id 1),
            cellFromCellID (child id 2), cellFromCellID (child id 3)] := by
  obtain ⟨n, h⟩ := (isValid_iff id).1 hv
  have hn : n < 30 := by
    have := isLeaf_eq h
    rw [hl] at this
    have : ¬ n = 30 := by simpa using this.symm
    have := h.k_le
    omega
  have hid : (cellFromCellID id).id = id := by rw [cellFromCellID_eq h]
  unfold CellM.children
  rw [hid, hl]
  simp only [Bool.false_eq_true, if_false]
  rw [childBegin_eq, next_child h hn (by omega : 0 < 3), next_child h hn (by omega : 1 < 3),
    next_child h hn (by omega : 2 < 3)]
  rw [childCell_eq h hn (by omega : 0 < 4), childCell_eq h hn (by omega : 1 < 4),
    childCell_eq h hn (by omega : 2 < 4), childCell_eq h hn (by omega : 3 < 4)]

/-- the same, child by child -/
theorem children_get (id : CellID) (hv : isValid id = true) (hl : isLeaf id = false) (k : Nat) (hk : k < 4) :
    (CellM.children (cellFromCellID id)).bind (·[k]?) = some (cellFromCellID (child id k)) := by
  rw [children_eq_direct id hv hl]
  have hk' : k = 0 ∨ k = 1 ∨ k = 2 ∨ k = 3 := by omega
  rcases hk' with rfl | rfl | rfl | rfl <;> rfl

/-- a leaf has no children (Go returns `false`) -/
theorem children_leaf (c : Cell) (hl : isLeaf c.id = true) : CellM.children c = none := by
  unfold CellM.children; rw [hl]; rfl

-- non-vacuity: a level-0 face cell, a level-29 cell
example : isValid (0x3000000000000000 : CellID) = true ∧ isLeaf (0x3000000000000000 : CellID) = false := by decide
example : isValid (0x5555555555555554 : CellID) = true ∧ isLeaf (0x5555555555555554 : CellID) = false := by decide

/-! ## (b) id-range containment in exact arithmetic -/

/-- **A leaf in the id range lies in the ij-square.**  If the leaf `l` lies in `[rangeMin x, rangeMax x]`
    (`contains x l`), then it is on the same face and its (i,j) — as computed by `faceIJOrientation` — lie in
    the ij-square of `x`: `i − i % 2^(30−n)` is the same for both, i.e. `I·2^m ≤ i_l < (I+1)·2^m`. -/
theorem leaf_in_range_ij {x l : CellID} {n : Nat} (hx : IsCell x n) (hl : IsCell l 30)
    (hc : contains x l = true) :
    (faceIJOrientation l).1 = (faceIJOrientation x).1 ∧
    (prefixState x n).1 * 2 ^ (30 - n) ≤ (faceIJOrientation l).2.1 ∧
    (faceIJOrientation l).2.1 < ((prefixState x n).1 + 1) * 2 ^ (30 - n) ∧
    (prefixState x n).2.1 * 2 ^ (30 - n) ≤ (faceIJOrientation l).2.2.1 ∧
    (faceIJOrientation l).2.2.1 < ((prefixState x n).2.1 + 1) * 2 ^ (30 - n) := by
  obtain ⟨hn, hp⟩ := (hx.contains_iff_parent hl).1 hc
  have hpre : prefixState x n = prefixState l n := by rw [← hp]; exact prefixState_parent hl hn
  have hface : face x = face l := by
    rw [← hp]
    apply face_congr hx.k_le
    rw [parent_toNat l n hx.k_le]
    obtain ⟨_, _, _⟩ := hl
    have hk := hx.k_le
    interval_cases n <;> cell_omega
  rw [faceIJOrientation_cell hl, faceIJOrientation_cell hx, hpre]
  simp only [Nat.sub_self, Nat.pow_zero, Nat.mul_one, if_true, Nat.add_zero]
  obtain ⟨h1, h2, h3, h4⟩ := prefixState_mono l n 30 hn
  exact ⟨hface.symm, h1, h2, h3, h4⟩


-- non-vacuity of `leaf_in_range_ij`: the face-1 cell and one of its leaves
example : IsCell (0x3000000000000000 : CellID) 0 ∧ IsCell (0x3000000000000001 : CellID) 30 ∧
    contains (0x3000000000000000 : CellID) (0x3000000000000001 : CellID) = true :=
  ⟨⟨by decide, by decide, by decide⟩, ⟨by decide, by decide, by decide⟩, by decide⟩

/-- the cell built from `x` has exactly that ij-square as its uv bound: `uv = boundOf I J (30−n)` -/
theorem cell_bound_is_square {x : CellID} {n : Nat} (hx : IsCell x n) :
    (cellFromCellID x).uv = boundOf (prefixState x n).1 (prefixState x n).2.1 (30 - n) ∧
    (cellFromCellID x).face = face x := by
  rw [cellFromCellID_eq hx]; exact ⟨rfl, rfl⟩

/-- The Hilbert bijection (package C01, item 5): `faceIJOrientation` inverts `cellIDFromFaceIJ`, whose values are
    valid leaves.  Taken as a NAMED HYPOTHESIS here; exercised on every `cidfij` line of the C01 oracle. -/
def HilbertBijection : Prop :=
  ∀ f i j : Nat, f < 6 → i < 1073741824 → j < 1073741824 →
    IsCell (cellIDFromFaceIJ f i j) 30 ∧
    (faceIJOrientation (cellIDFromFaceIJ f i j)).1 = f ∧
    (faceIJOrientation (cellIDFromFaceIJ f i j)).2.1 = i ∧
    (faceIJOrientation (cellIDFromFaceIJ f i j)).2.2.1 = j

theorem face_lt_six (r : V3) : STUV.face r < 6 := by
  unfold STUV.face V3.largestComponent
  simp only
  split <;> split <;> (try split) <;> (try split) <;> (try split) <;> simp_all

/-- the exact st-interval test of one coordinate: `lo ≤ s < hi` on the grid, the two clamps of `stToIJ` at the
    ends of the face excepted -/
def stIn (s : F64) (lo hi : Nat) : Prop :=
  (lo = 0 ∨ F64.le (ijToSTMin (lo : Int)) s = true) ∧
  (hi = 1073741824 ∨ F64.lt s (ijToSTMin (hi : Int)) = true)

theorem stIn_of_stToIJ (s : F64) (hs : s.isFinite = true) (h2 : F64.le s F64.two = true) (lo hi : Nat)
    (hhi : hi ≤ 1073741824) (h1 : (lo : Int) ≤ stToIJ s) (h3 : stToIJ s < (hi : Int)) : stIn s lo hi := by
  obtain ⟨r0, r1⟩ := stToIJ_range s
  constructor
  · by_cases h0 : lo = 0
    · exact Or.inl h0
    · right
      exact (stToIJ_ge_iff_of_le_two s hs h2 lo (by omega) (by omega)).1 h1
  · by_cases he : hi = 1073741824
    · exact Or.inl he
    · right
      exact (stToIJ_lt_iff s hs h2 hi (by omega) (by omega)).1 h3

/-- **A point whose leaf lies in the id range has its (s,t) in the cell's st-interval** (exact comparisons on the
    computed s = uvToST(u), t = uvToST(v)); under `HilbertBijection`, for points whose s,t are finite and ≤ 2
    (true for every finite non-zero p: |u|,|v| ≤ 1 on the chosen face). -/
theorem point_leaf_in_range_st (hH : HilbertBijection) (p : V3) {x : CellID} {n : Nat} (hx : IsCell x n)
    (hs : (uvToST (xyzToFaceUV p).2.1).isFinite = true) (hs2 : F64.le (uvToST (xyzToFaceUV p).2.1) F64.two = true)
    (ht : (uvToST (xyzToFaceUV p).2.2).isFinite = true) (ht2 : F64.le (uvToST (xyzToFaceUV p).2.2) F64.two = true)
    (hc : contains x (cellIDFromPoint p) = true) :
    (cellFromCellID x).face = (xyzToFaceUV p).1 ∧
    stIn (uvToST (xyzToFaceUV p).2.1) ((prefixState x n).1 * 2 ^ (30 - n)) (((prefixState x n).1 + 1) * 2 ^ (30 - n)) ∧
    stIn (uvToST (xyzToFaceUV p).2.2) ((prefixState x n).2.1 * 2 ^ (30 - n)) (((prefixState x n).2.1 + 1) * 2 ^ (30 - n)) := by
  have hfa : (xyzToFaceUV p).1 = STUV.face p := rfl
  obtain ⟨ri0, ri1⟩ := stToIJ_range (uvToST (xyzToFaceUV p).2.1)
  obtain ⟨rj0, rj1⟩ := stToIJ_range (uvToST (xyzToFaceUV p).2.2)
  have hid : cellIDFromPoint p = cellIDFromFaceIJ (xyzToFaceUV p).1
      (stToIJ (uvToST (xyzToFaceUV p).2.1)).toNat (stToIJ (uvToST (xyzToFaceUV p).2.2)).toNat := rfl
  obtain ⟨hleaf, hf, hi, hj⟩ := hH (xyzToFaceUV p).1 (stToIJ (uvToST (xyzToFaceUV p).2.1)).toNat
    (stToIJ (uvToST (xyzToFaceUV p).2.2)).toNat (by rw [hfa]; exact face_lt_six p) (by omega) (by omega)
  rw [← hid] at hleaf hf hi hj
  obtain ⟨g0, g1, g2, g3, g4⟩ := leaf_in_range_ij hx hleaf hc
  obtain ⟨hI, hJ, _⟩ := prefixState_bounds x n
  have hle : ∀ I, I < 2 ^ n → (I + 1) * 2 ^ (30 - n) ≤ 1073741824 := by
    intro I hI
    have h1 : (I + 1) * 2 ^ (30 - n) ≤ 2 ^ n * 2 ^ (30 - n) := Nat.mul_le_mul_right _ hI
    rw [← Nat.pow_add, show n + (30 - n) = 30 by have := hx.k_le; omega] at h1
    exact h1
  refine ⟨?_, ?_, ?_⟩
  · rw [(cell_bound_is_square hx).2, ← hf, g0, faceIJOrientation_cell hx]
  · apply stIn_of_stToIJ _ hs hs2 _ _ (hle _ hI)
    · rw [hi] at g1; omega
    · rw [hi] at g2; omega
  · apply stIn_of_stToIJ _ ht ht2 _ _ (hle _ hJ)
    · rw [hj] at g3; omega
    · rw [hj] at g4; omega


/-- `HilbertBijection` is a theorem (S2Proofs.C12.HilbertInverse): the hypothesis is discharged. -/
theorem hilbertBijection_holds : HilbertBijection := hilbertBijection

/-- **Unconditional form**: a point whose leaf id lies in the id range of a cell is on the cell's face and its
    computed (s,t) lie in the cell's exact st-interval. -/
theorem point_leaf_in_range_st' (p : V3) {x : CellID} {n : Nat} (hx : IsCell x n)
    (hs : (uvToST (xyzToFaceUV p).2.1).isFinite = true) (hs2 : F64.le (uvToST (xyzToFaceUV p).2.1) F64.two = true)
    (ht : (uvToST (xyzToFaceUV p).2.2).isFinite = true) (ht2 : F64.le (uvToST (xyzToFaceUV p).2.2) F64.two = true)
    (hc : contains x (cellIDFromPoint p) = true) :
    (cellFromCellID x).face = (xyzToFaceUV p).1 ∧
    stIn (uvToST (xyzToFaceUV p).2.1) ((prefixState x n).1 * 2 ^ (30 - n)) (((prefixState x n).1 + 1) * 2 ^ (30 - n)) ∧
    stIn (uvToST (xyzToFaceUV p).2.2) ((prefixState x n).2.1 * 2 ^ (30 - n)) (((prefixState x n).2.1 + 1) * 2 ^ (30 - n)) :=
  point_leaf_in_range_st hilbertBijection_holds p hx hs hs2 ht ht2 hc

/-- C01, first sentence, discrete half: the leaf computed from ANY vector is a valid leaf cell, and each of its
    31 ancestors `parent l k` (k = 0..30) is a valid cell of level k whose id range contains the leaf. -/
theorem point_leaf_valid_and_ancestors (p : V3) (k : Nat) (hk : k ≤ 30) :
    isValid (cellIDFromPoint p) = true ∧ isLeaf (cellIDFromPoint p) = true ∧
    IsCell (parent (cellIDFromPoint p) k) k ∧ contains (parent (cellIDFromPoint p) k) (cellIDFromPoint p) = true := by
  obtain ⟨ri0, ri1⟩ := stToIJ_range (uvToST (xyzToFaceUV p).2.1)
  obtain ⟨rj0, rj1⟩ := stToIJ_range (uvToST (xyzToFaceUV p).2.2)
  have hid : cellIDFromPoint p = cellIDFromFaceIJ (xyzToFaceUV p).1
      (stToIJ (uvToST (xyzToFaceUV p).2.1)).toNat (stToIJ (uvToST (xyzToFaceUV p).2.2)).toNat := rfl
  have hfa : (xyzToFaceUV p).1 = STUV.face p := rfl
  obtain ⟨hleaf, _, _, _⟩ := hilbertBijection (xyzToFaceUV p).1 (stToIJ (uvToST (xyzToFaceUV p).2.1)).toNat
    (stToIJ (uvToST (xyzToFaceUV p).2.2)).toNat (by rw [hfa]; exact face_lt_six p) (by omega) (by omega)
  rw [← hid] at hleaf
  have hpar := hleaf.parent_isCell hk
  refine ⟨(isValid_iff _).2 ⟨30, hleaf⟩, ?_, hpar, ?_⟩
  · rw [isLeaf_eq hleaf]; rfl
  · exact (hpar.contains_iff_parent hleaf).2 ⟨hk, rfl⟩

-- non-vacuity of the float hypotheses of `point_leaf_in_range_st`: p = (1, 0.5, 1/3)
example : (uvToST (xyzToFaceUV ⟨F64.one, F64.half, third⟩).2.1).isFinite = true ∧
    F64.le (uvToST (xyzToFaceUV ⟨F64.one, F64.half, third⟩).2.1) F64.two = true ∧
    (uvToST (xyzToFaceUV ⟨F64.one, F64.half, third⟩).2.2).isFinite = true ∧
    F64.le (uvToST (xyzToFaceUV ⟨F64.one, F64.half, third⟩).2.2) F64.two = true := by decide +kernel

/-- FULL CLAIM (float, NOT proved — partial): every ancestor of the leaf of p contains p by `ContainsPoint`
    (uv-rectangle expanded by dblEpsilon).  Missing: the numerical analysis of `uvToST ∘ stToUV` (≤ dblEpsilon). -/
def ContainsClaim : Prop :=
  ∀ (p : V3) (x : CellID), isValid x = true → Exact.finite3 p = true → p ≠ ⟨fzero, fzero, fzero⟩ →
    contains x (cellIDFromPoint p) = true → containsPoint (cellFromCellID x) p = true

/-! ## (c) case logic of the distance functions -/

/-- when all four edge sign tests pass (`inside`), Distance returns exactly 0 -/
theorem distance_zero_of_inside (c : Cell) (p : V3)
    (h : (dirs c (faceXYZtoUVW c.face p)).inside = true) : distance c p = fzero := by
  unfold Dirs.inside at h
  simp only [Bool.and_eq_true, Bool.not_eq_true'] at h
  obtain ⟨⟨⟨h1, h2⟩, h3⟩, h4⟩ := h
  unfold distance distanceInternal
  simp only [h1, h2, h3, h4, Bool.false_and, Bool.false_eq_true, if_false]
  unfold Dirs.inside
  simp [h1, h2, h3, h4]

/-- in the inside case BoundaryDistance is the minimum of the four edge distances -/
theorem boundary_inside (c : Cell) (p : V3)
    (h : (dirs c (faceXYZtoUVW c.face p)).inside = true) :
    boundaryDistance c p =
      let t := faceXYZtoUVW c.face p
      let d := dirs c t
      minChord (edgeDistance (-d.dir00) c.uv.1.1 t.y (c.uv.1.1 * t.x + t.z))
        [edgeDistance d.dir01 c.uv.1.2 t.y (c.uv.1.2 * t.x + t.z), edgeDistance (-d.dir10) c.uv.2.1 t.x (c.uv.2.1 * t.y + t.z),
         edgeDistance d.dir11 c.uv.2.2 t.x (c.uv.2.2 * t.y + t.z)] := by
  have h' := h
  unfold Dirs.inside at h
  simp only [Bool.and_eq_true, Bool.not_eq_true'] at h
  obtain ⟨⟨⟨h1, h2⟩, h3⟩, h4⟩ := h
  unfold boundaryDistance distanceInternal
  simp only [h1, h2, h3, h4, Bool.false_and, Bool.false_eq_true, if_false, h', if_true]

/-- outside (some sign test fails) Distance and BoundaryDistance are the same value: the distance to the boundary -/
theorem distance_eq_boundary_of_not_inside (c : Cell) (p : V3)
    (h : (dirs c (faceXYZtoUVW c.face p)).inside = false) : distance c p = boundaryDistance c p := by
  unfold distance boundaryDistance distanceInternal
  simp only [h, Bool.false_eq_true, if_false]

/-- "Distance returns the literal 0 of the interior case iff the four sign tests pass":
    the branch taken is the interior branch exactly when `inside` -/
theorem distanceBranch_inside_iff (c : Cell) (p : V3) :
    distanceBranch c p = 4 ↔ (dirs c (faceXYZtoUVW c.face p)).inside = true := by
  unfold distanceBranch
  constructor
  · intro hb
    by_contra hi
    simp only [hi] at hb
    split at hb <;> (try split at hb) <;> (try split at hb) <;> (try split at hb) <;> simp_all
  · intro hi
    have h := hi
    unfold Dirs.inside at h
    simp only [Bool.and_eq_true, Bool.not_eq_true'] at h
    obtain ⟨⟨⟨h1, h2⟩, h3⟩, h4⟩ := h
    simp [h1, h2, h3, h4, hi]

/-- MaxDistance: all four vertices within 90° ⇒ the vertex maximum is returned -/
theorem maxDistance_le_right (c : Cell) (p : V3) (h : F64.le (maxVertexDist c p) F64.two = true) :
    maxDistance c p = maxVertexDist c p := by
  unfold maxDistance; simp only [h, if_true]

/-- MaxDistance: otherwise it is `4 − Distance(−p)` at the chord-angle level (π − min distance to the antipode) -/
theorem maxDistance_gt_right (c : Cell) (p : V3) (h : F64.le (maxVertexDist c p) F64.two = false) :
    maxDistance c p = F64.four - distance c (p.mul negOne) := by
  unfold maxDistance; simp only [h, Bool.false_eq_true, if_false]

/-- … and it is the straight angle (chord² = 4 = π) when the antipode passes the interior tests -/
theorem maxDistance_antipode_inside (c : Cell) (p : V3) (h : F64.le (maxVertexDist c p) F64.two = false)
    (hi : (dirs c (faceXYZtoUVW c.face (p.mul negOne))).inside = true) : maxDistance c p = F64.four := by
  rw [maxDistance_gt_right c p h, distance_zero_of_inside c _ hi]
  decide +kernel

/-! ### the numeric claims (statements only) and their refutation for the code as written -/

/-- the cell of the model as a set of directions is judged by the oracle (`Oracle.C12Judge`); here the numeric
    claims are recorded as propositions over an abstract exact distance function `trueDist` (squared chord
    length between the direction `p` and the closest point of the cell) and error function `err`. -/
def DistanceAttained (trueDist : Cell → V3 → F64 → Prop) : Prop :=
  ∀ (id : CellID) (p : V3), isValid id = true → trueDist (cellFromCellID id) p (distance (cellFromCellID id) p)

/-- "no point of the cell is closer than the reported minimum": in particular the reported minimum is a number -/
def DistanceLowerBound : Prop :=
  ∀ (id : CellID) (p : V3), isValid id = true → Exact.finite3 p = true →
    (distance (cellFromCellID id) p).isNaN = false

def MaxDistanceUpperBound : Prop :=
  ∀ (id : CellID) (p : V3), isValid id = true → Exact.finite3 p = true →
    (maxDistance (cellFromCellID id) p).isNaN = false

/-- the level-2 cell 3/13 (`0x7700000000000000`) as built by `cellFromCellID` (checked by `cellch`/`cellinfo`) -/
def cell77 : Cell :=
  { face := 3, level := 2, orientation := 2, id := 0x7700000000000000,
    uv := ((⟨0x0000000000000000⟩, ⟨0x3fdaaaaaaaaaaaaa⟩), (⟨0x3fdaaaaaaaaaaaaa⟩, ⟨0x3ff0000000000000⟩)) }

/-- the level-2 cell 4/23 (`0x9b00000000000000`) -/
def cell9b : Cell :=
  { face := 4, level := 2, orientation := 3, id := 0x9b00000000000000,
    uv := ((⟨0x0000000000000000⟩, ⟨0x3fdaaaaaaaaaaaaa⟩), (⟨0xbfdaaaaaaaaaaaaa⟩, ⟨0x0000000000000000⟩)) }

/-- the two literal cells ARE the cells the model builds from these ids -/
theorem cell77_eq : cellFromCellID 0x7700000000000000 = cell77 := by
  have h : IsCell (0x7700000000000000 : CellID) 2 := ⟨by decide, by decide, by decide⟩
  rw [cellFromCellID_eq h]
  decide +kernel

theorem cell9b_eq : cellFromCellID 0x9b00000000000000 = cell9b := by
  have h : IsCell (0x9b00000000000000 : CellID) 2 := ⟨by decide, by decide, by decide⟩
  rw [cellFromCellID_eq h]
  decide +kernel

/-- on the former NaN inputs (finding D-C12-1, repaired) the results are numbers again -/
theorem former_NaN_inputs_fixed :
    (maxDistance cell77 ⟨⟨0x3fd89d89d89dbe7a⟩, ⟨0xbfed89d89d89cda7⟩, ⟨0x3d42018d703068d7⟩⟩).isNaN = false ∧
    (distance cell9b ⟨⟨0xbfed89d89d89d8bb⟩, ⟨0x3fd89d89d89d8953⟩, ⟨0xbcdb3ab7f87c4710⟩⟩).isNaN = false := by
  decide +kernel

/-- what does hold (partial): whenever the four sign tests pass, the reported minimum is the number 0 -/
theorem distanceLowerBound_partial (c : Cell) (p : V3)
    (h : (dirs c (faceXYZtoUVW c.face p)).inside = true) : (distance c p).isNaN = false := by
  rw [distance_zero_of_inside c p h]; decide

/-! non-vacuity of the case-logic theorems on the concrete cell 3/13: `pIn` passes the four sign tests,
    `pOut` does not, `pIn` has all vertices within 90°, its antipode `pAnti` has not and its own antipode is inside -/
def pIn : V3 := ⟨⟨0xbff0000000000000⟩, ⟨0xbfe3333333333333⟩, ⟨0xbfc999999999999a⟩⟩     -- (-1, -0.6, -0.2)
def pAnti : V3 := ⟨⟨0x3ff0000000000000⟩, ⟨0x3fe3333333333333⟩, ⟨0x3fc999999999999a⟩⟩   -- ( 1,  0.6,  0.2)
def pOut : V3 := ⟨⟨0x3fd89d89d89dbe7a⟩, ⟨0xbfed89d89d89cda7⟩, ⟨0x3d42018d703068d7⟩⟩
example : (dirs cell77 (faceXYZtoUVW cell77.face pIn)).inside = true := by decide +kernel
example : (dirs cell77 (faceXYZtoUVW cell77.face pOut)).inside = false := by decide +kernel
example : F64.le (maxVertexDist cell77 pIn) F64.two = true := by decide +kernel
example : F64.le (maxVertexDist cell77 pAnti) F64.two = false ∧
    (dirs cell77 (faceXYZtoUVW cell77.face (pAnti.mul negOne))).inside = true := by decide +kernel

end S2Proofs.C12
