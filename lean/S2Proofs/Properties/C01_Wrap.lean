/-
  C01 (`cellIDFromFaceIJWrap`, `EdgeNeighbors` — complete, float part proved).
  The model of `cellIDFromFaceIJWrap` is the bit-exact soft-float (`S2.STUV.cellIDFromFaceIJWrap`): clamp, scale by
  2^-30, `math.Max/Min` against ±nextafter(1,2), `faceUVToXYZ`, `xyzToFaceUV` (two float divisions), `stToIJ(0.5·(u+1))`.
  Proved here for ALL faces and ALL integer arguments with at most one coordinate out of range:
  * in range: the result is `cellIDFromFaceIJ f i j` (`wrapExactOn_always`, `cellIDFromFaceIJWrap_inRange`) — the values
    `(2i+1−2^30)/2^30` are exact in binary64, division by ±1 and `0.5·(u+1)` are exact;
  * one coordinate beyond a face edge (any i ≥ 2^30, i ≤ −1, …; the code clamps to the one-cell border): the result is
    the explicitly given leaf of the adjacent face (`cellIDFromFaceIJWrap_iHi/iLo/jHi/jLo`); the division by
    ±(1+2^-52) is NOT exact — its result is bracketed by faithful rounding (`S2Proofs/F64Faithful.lean`, proved from the
    definition of `roundNE`), 2^-50 is far inside the half cell width 2^-31;
  * that leaf is the TRUE neighbour: valid leaf, different from and disjoint with the border leaf, and the two exact
    integer cube boxes share an edge (`cellIDFromFaceIJWrap_true_neighbour`);
  * `edgeNeighbors_correct : EdgeNeighborsCorrect` and `edgeNeighbors_all_cells` (adds: each neighbour shares an edge
    with the cell on the cube) for EVERY valid cell, interior or on a face boundary, every level.
  Not covered: both coordinates out of range (never requested by `EdgeNeighbors`; `AllNeighbors`/`VertexNeighbors`
  guard it with their `sameFace` flags).
-/
import S2Proofs.EdgeNbrAll
import S2Proofs.Properties.C01_Hilbert
import S2Proofs.Properties.C01_Neighbors
open S2 S2.CellID S2.Hilbert S2.STUV
open S2Proofs.C01W
namespace S2Proofs.C01

/-- the float wrap is the identity on EVERY in-range argument pair: the hypothesis `WrapExactOn` of
    `edgeNeighbors_sameFace_partial` always holds -/
theorem wrapExactOn_always (f : Nat) (hf : f < 6) (args : List (Int × Int))
    (h : ∀ a ∈ args, 0 ≤ a.1 ∧ a.1 < 1073741824 ∧ 0 ≤ a.2 ∧ a.2 < 1073741824) : WrapExactOn f args := by
  intro a ha
  obtain ⟨h1, h2, h3, h4⟩ := h a ha
  exact wrapIJ_in f hf a.1 a.2 h1 h2 h3 h4
example : ∀ a ∈ [((0:Int), (1073741823:Int)), (536870912, 7)], 0 ≤ a.1 ∧ a.1 < 1073741824 ∧ 0 ≤ a.2 ∧ a.2 < 1073741824 := by
  decide

/-- in range, the float path returns exactly the leaf (f,i,j) -/
theorem cellIDFromFaceIJWrap_inRange (f : Nat) (hf : f < 6) (i j : Int) (hi0 : 0 ≤ i) (hi1 : i < 1073741824)
    (hj0 : 0 ≤ j) (hj1 : j < 1073741824) :
    cellIDFromFaceIJWrap f i j = cellIDFromFaceIJ f i.toNat j.toNat := by
  rw [cellIDFromFaceIJWrap_eq, wrapIJ_in f hf i j hi0 hi1 hj0 hj1]
example : (3:Nat) < 6 ∧ (0:Int) ≤ 1073741823 ∧ (1073741823:Int) < 1073741824 := by decide

/-- i beyond the upper edge (any i ≥ 2^30): even faces → face f+1, (0, j); odd faces → face f+2, (2^30−1−j, 0) -/
theorem cellIDFromFaceIJWrap_iHi (f : Nat) (hf : f < 6) (i j : Int) (hi : 1073741824 ≤ i)
    (hj0 : 0 ≤ j) (hj1 : j < 1073741824) :
    cellIDFromFaceIJWrap f i j =
      if f % 2 = 0 then cellIDFromFaceIJ ((f + 1) % 6) 0 j.toNat
      else cellIDFromFaceIJ ((f + 2) % 6) (1073741823 - j).toNat 0 := by
  rw [cellIDFromFaceIJWrap_eq, wrapIJ_iHi f hf i j hi hj0 hj1]; split <;> rfl
example : (4:Nat) < 6 ∧ (1073741824:Int) ≤ 1073741824 ∧ (0:Int) ≤ 5 := by decide

/-- i beyond the lower edge (any i ≤ −1): even faces → face f+4, (2^30−1−j, 2^30−1); odd → face f+5, (2^30−1, j) -/
theorem cellIDFromFaceIJWrap_iLo (f : Nat) (hf : f < 6) (i j : Int) (hi : i ≤ -1)
    (hj0 : 0 ≤ j) (hj1 : j < 1073741824) :
    cellIDFromFaceIJWrap f i j =
      if f % 2 = 0 then cellIDFromFaceIJ ((f + 4) % 6) (1073741823 - j).toNat 1073741823
      else cellIDFromFaceIJ ((f + 5) % 6) 1073741823 j.toNat := by
  rw [cellIDFromFaceIJWrap_eq, wrapIJ_iLo f hf i j hi hj0 hj1]; split <;> rfl
example : (1:Nat) < 6 ∧ (-1:Int) ≤ -1 ∧ (0:Int) ≤ 0 := by decide

/-- j beyond the upper edge (any j ≥ 2^30): even faces → face f+2, (0, 2^30−1−i); odd → face f+1, (i, 0) -/
theorem cellIDFromFaceIJWrap_jHi (f : Nat) (hf : f < 6) (i j : Int) (hj : 1073741824 ≤ j)
    (hi0 : 0 ≤ i) (hi1 : i < 1073741824) :
    cellIDFromFaceIJWrap f i j =
      if f % 2 = 0 then cellIDFromFaceIJ ((f + 2) % 6) 0 (1073741823 - i).toNat
      else cellIDFromFaceIJ ((f + 1) % 6) i.toNat 0 := by
  rw [cellIDFromFaceIJWrap_eq, wrapIJ_jHi f hf i j hj hi0 hi1]; split <;> rfl
example : (5:Nat) < 6 ∧ (1073741824:Int) ≤ 2000000000 ∧ (0:Int) ≤ 0 := by decide

/-- j beyond the lower edge (any j ≤ −1): even faces → face f+5, (i, 2^30−1); odd → face f+4, (2^30−1, 2^30−1−i) -/
theorem cellIDFromFaceIJWrap_jLo (f : Nat) (hf : f < 6) (i j : Int) (hj : j ≤ -1)
    (hi0 : 0 ≤ i) (hi1 : i < 1073741824) :
    cellIDFromFaceIJWrap f i j =
      if f % 2 = 0 then cellIDFromFaceIJ ((f + 5) % 6) i.toNat 1073741823
      else cellIDFromFaceIJ ((f + 4) % 6) 1073741823 (1073741823 - i).toNat := by
  rw [cellIDFromFaceIJWrap_eq, wrapIJ_jLo f hf i j hj hi0 hi1]; split <;> rfl
example : (0:Nat) < 6 ∧ (-1:Int) ≤ -1 ∧ (1073741823:Int) < 1073741824 := by decide

/-- the four cells returned by `edgeNeighbors`, for EVERY valid cell: valid, same level, not intersecting the cell,
    pairwise distinct — the statement `EdgeNeighborsCorrect` of `C01_Neighbors.lean`, now without any hypothesis -/
theorem edgeNeighbors_all_cells (id : CellID) (hv : isValid id = true) :
    ∃ n0 n1 n2 n3, edgeNeighbors id = [n0, n1, n2, n3] ∧
      (∀ n ∈ [n0, n1, n2, n3], isValid n = true ∧ level n = level id ∧ n ≠ id ∧ intersects n id = false ∧
          boxMeet (cubeBox id) (cubeBox n) = some 1) ∧
      n0 ≠ n1 ∧ n0 ≠ n2 ∧ n0 ≠ n3 ∧ n1 ≠ n2 ∧ n1 ≠ n3 ∧ n2 ≠ n3 := by
  have h := isCell_of_valid hv
  obtain ⟨n0, n1, n2, n3, he, s0, s1, s2, s3⟩ := edgeNeighbors_all (rfl : 30 = 30) id (level id) h
  obtain ⟨b1, b2⟩ := sq_le (rfl : 30 = 30) id (level id) h
  have hself : IsSqT id (level id) (face id, sqI id (level id), sqJ id (level id)) := ⟨h, rfl, rfl, rfl⟩
  have fin : ∀ n d, d < 4 → IsSqT n (level id) (nbrSq (face id) (sqI id (level id)) (sqJ id (level id)) (2^(level id) - 1) d) →
      isValid n = true ∧ level n = level id ∧ n ≠ id ∧ intersects n id = false ∧
        boxMeet (cubeBox id) (cubeBox n) = some 1 := by
    intro n d hd hn
    have hne : n ≠ id := isSqT_ne hn hself (nbrSq_ne_self _ _ _ _ d h.face_lt6 hd b1 b2)
    obtain ⟨v, l, i⟩ := disjoint_of_ne hn.1 h hne
    exact ⟨v, l, hne, i, nbr_sharesEdge (rfl : 30 = 30) id n (level id) d h hd hn⟩
  have dist : ∀ d d', d < 4 → d' < 4 → d ≠ d' → ∀ a b,
      IsSqT a (level id) (nbrSq (face id) (sqI id (level id)) (sqJ id (level id)) (2^(level id) - 1) d) →
      IsSqT b (level id) (nbrSq (face id) (sqI id (level id)) (sqJ id (level id)) (2^(level id) - 1) d') → a ≠ b :=
    fun d d' hd hd' hne a b ha hb => isSqT_ne ha hb (nbrSq_inj _ _ _ _ d d' h.face_lt6 hd hd' b1 b2 hne)
  refine ⟨n0, n1, n2, n3, he, ?_, dist 0 1 (by decide) (by decide) (by decide) _ _ s0 s1,
    dist 0 2 (by decide) (by decide) (by decide) _ _ s0 s2, dist 0 3 (by decide) (by decide) (by decide) _ _ s0 s3,
    dist 1 2 (by decide) (by decide) (by decide) _ _ s1 s2, dist 1 3 (by decide) (by decide) (by decide) _ _ s1 s3,
    dist 2 3 (by decide) (by decide) (by decide) _ _ s2 s3⟩
  intro n hn
  simp only [List.mem_cons, List.mem_nil_iff, or_false] at hn
  rcases hn with rfl | rfl | rfl | rfl
  · exact fin _ 0 (by decide) s0
  · exact fin _ 1 (by decide) s1
  · exact fin _ 2 (by decide) s2
  · exact fin _ 3 (by decide) s3
/-- non-vacuity on boundary cells: the first leaf of face 0 (corner: two neighbours across two different face edges),
    a whole face, and the last level-1 cell of face 2 -/
example : isValid (0x0000000000000001 : CellID) = true ∧ isValid (0x7000000000000000 : CellID) = true ∧
    isValid (0x5C00000000000000 : CellID) = true := by decide

/-- `EdgeNeighborsCorrect` (stated in `C01_Neighbors.lean`) holds -/
theorem edgeNeighbors_correct : EdgeNeighborsCorrect := by
  intro id hv
  obtain ⟨n0, n1, n2, n3, he, hall, hd⟩ := edgeNeighbors_all_cells id hv
  refine ⟨n0, n1, n2, n3, he, ?_, hd⟩
  intro n hn
  obtain ⟨a, b, _, c, _⟩ := hall n hn
  exact ⟨a, b, c⟩
example : isValid (0x0000000000000001 : CellID) = true := by decide

/-- the wrapped leaf is the TRUE neighbour: for every leaf (f,i,j) and each of the four one-step offsets (a,b) — which
    includes every out-of-range argument −1 and 2^30 on the one-cell border of every face — `cellIDFromFaceIJWrap f a b`
    is a valid leaf, different from and not intersecting the leaf (f,i,j), and the exact cube boxes of the two leaves
    share an edge -/
theorem cellIDFromFaceIJWrap_true_neighbour (f i j : Nat) (hf : f < 6) (hi : i < 2^30) (hj : j < 2^30)
    (a b : Int) (hab : (a, b) ∈ [((i:Int), (j:Int) - 1), ((i:Int) + 1, (j:Int)), ((i:Int), (j:Int) + 1), ((i:Int) - 1, (j:Int))]) :
    isValid (parent (cellIDFromFaceIJWrap f a b) 30) = true ∧ level (parent (cellIDFromFaceIJWrap f a b) 30) = 30 ∧
    parent (cellIDFromFaceIJWrap f a b) 30 ≠ cellIDFromFaceIJ f i j ∧
    intersects (parent (cellIDFromFaceIJWrap f a b) 30) (cellIDFromFaceIJ f i j) = false ∧
    boxMeet (cubeBox (cellIDFromFaceIJ f i j)) (cubeBox (parent (cellIDFromFaceIJWrap f a b) 30)) = some 1 := by
  obtain ⟨hc, hface, _⟩ := cellIDFromFaceIJ_facts (rfl : 30 = 30) f i j hf hi hj
  obtain ⟨o, _, e⟩ := S2Proofs.faceIJOrientation_cellIDFromFaceIJ (rfl : 30 = 30) f i j hf hi hj
  have hv : isValid (cellIDFromFaceIJ f i j) = true := (isValid_iff _).mpr ⟨30, hc⟩
  have hl : level (cellIDFromFaceIJ f i j) = 30 := hc.level_eq
  obtain ⟨n0, n1, n2, n3, he, hall, _⟩ := edgeNeighbors_all_cells _ hv
  rw [edgeNeighbors_eq, hl] at he
  unfold edgeNbrArgs at he
  have hs : ((sizeIJ 30 : Nat) : Int) = 1 := by decide
  rw [hl, e, hs] at he
  simp only [List.map_cons, List.map_nil] at he
  rw [hl] at hall
  have key : ∀ n ∈ [n0, n1, n2, n3], isValid n = true ∧ level n = 30 ∧ n ≠ cellIDFromFaceIJ f i j ∧
      intersects n (cellIDFromFaceIJ f i j) = false ∧
      boxMeet (cubeBox (cellIDFromFaceIJ f i j)) (cubeBox n) = some 1 := hall
  rw [← he] at key
  simp only [List.mem_cons, List.mem_nil_iff, or_false, Prod.mk.injEq] at hab
  rcases hab with ⟨rfl, rfl⟩ | ⟨rfl, rfl⟩ | ⟨rfl, rfl⟩ | ⟨rfl, rfl⟩
  · exact key _ (by simp)
  · exact key _ (by simp)
  · exact key _ (by simp)
  · exact key _ (by simp)
/-- non-vacuity: the corner leaf (face 3, i = 0, j = 2^30−1): the offsets (−1, j) and (i, j+1) leave the face -/
example : (3:Nat) < 6 ∧ (0:Nat) < 2^30 ∧ (1073741823:Nat) < 2^30 ∧
    (((0:Nat):Int) - 1, ((1073741823:Nat):Int)) ∈ [(((0:Nat):Int), ((1073741823:Nat):Int) - 1),
      (((0:Nat):Int) + 1, ((1073741823:Nat):Int)), (((0:Nat):Int), ((1073741823:Nat):Int) + 1),
      (((0:Nat):Int) - 1, ((1073741823:Nat):Int))] := by decide

end S2Proofs.C01
