/-
  Property C02 (distance predicates) — exactness of `CompareDistances` / `CompareDistance` on the domain
  "output of Normalize", work package `floaterr3`.

  Domain: `FE3.Normed p` := finite coordinates and `| ‖p‖² − 1 | ≤ 33/2^55 = 4.125·2^-52` (exact squared norm).
  `V3.normalize v` satisfies it for every finite `v` with `2^-600 ≤ ‖v‖² ≤ 2^600` (`FloatErr3/Normalize.lean`; the
  standard model of rounding gives only 4.5·2^-52, the proof uses a joint half-ulp argument for `fl(1/fl(√·))`).

  Results (u = 2^-53), NO hypothesis on error constants left:
  * `compareDistances_exact`  `CompareDistances(x,a,b)` (cos triage → sin² triage → exact → symbolic) = the exact +
    symbolic decision, for all `Normed` points.  The additive constant `1.5·dblError` of `cosDistance` has NO
    first-order slack (floaterr2); the proof uses the half-ulp-in-binade bound for |cos| ≤ 2^-45 (`FE3.dot_tiny`:
    error ≤ 1.5u + 2^-90, and either the float cosine is an integer multiple of u or the error is ≤ 1.25u) and the
    slack `8u·|cos|` of the multiplicative term (the normalisation error of the common point cancels) elsewhere.
  * `compareDistance_exact`   `CompareDistance(x,y,r)` = `exactCompareDistance`, for all `Normed` points and every
    valid chord angle `0 ≤ r2 ≤ 4` — for the code REPAIRED by `docs/fixes/D54_cosRError_abs.diff`.
  * **Finding D54 (genuine defect, repaired)**: `triageCompareCosDistance` computed `cosRError = 2·dblError·cosR`
    WITHOUT `math.Abs`; for limits above 90° (`r2 > 2`) `cosR < 0`, so the error bound SHRANK by `2u·|cos r|` instead
    of growing.  `compareDistance_false_before_repair` (kernel-checked on the faithful pre-repair model
    `compareDistanceOld`, defined below = the old code) with two witnesses, both reproduced on the unrepaired repository
    with the public API: N1 (both points genuine `PointFromCoords` outputs, r = 180° − 1.7e-6°: answer +1, exact −1) and
    W1 (`IsUnit()` points x, −x, r = 180°: answer +1, exact 0).
  * sin² stages: sound by the error bound of `sin2Distance` (`FE3.sin2_error_bound`: rigorous need 27.811u ≤ 27.928u
    = 21+4√3 of the code, for the tolerance 8.25u of `Normed`).
-/
import S2Proofs.FloatErr3.CascadeSingle
import S2Proofs.FloatErr3.Normalize

set_option linter.unusedSimpArgs false
set_option linter.unusedVariables false

namespace S2Proofs.C02DistErr
open S2 S2.Exact S2.Pred S2Proofs.F64Order S2Proofs.PredLemmas S2Proofs.FloatErr S2Proofs.FE3

/-! ## the cosine stages -/

/-- **cosine stage of `CompareDistances`**: 0 or the exact comparison, for all `Normed` points. -/
theorem triageCos_pair_exact (x a b : V3) (hx : Normed x) (ha : Normed a) (hb : Normed b) :
    triageCompareCosDistances x a b = 0 ∨
    triageCompareCosDistances x a b = exactCompareDistances (ofV3 x) (ofV3 a) (ofV3 b) :=
  triageCos_pair_sound hx ha hb

/-- **cosine stage of `CompareDistance`** (repaired code) for every valid limit `0 ≤ r2 ≤ 4`: 0 or the exact
    comparison. -/
theorem triageCos_single_exact (x y : V3) (r2 : F64) (hx : Normed x) (hy : Normed y) (hr : Fin r2)
    (h0 : 0 ≤ val r2) (h4 : val r2 ≤ 4) :
    triageCompareCosDistance x y r2 = 0 ∨ triageCompareCosDistance x y r2 = exactCompareDistance x y r2 :=
  triageCos_single_sound hx hy r2 hr h0 h4

/-! ## `CompareDistances` -/

theorem exact_self (x a : IV3) : exactCompareDistances x a a = 0 := by
  have := exactCompareDistances_antisymm x a a
  omega

/-- **`CompareDistances` = exact + symbolic decision**, given the `sin2Distance` error bound for the two pairs. -/
theorem compareDistances_exact_of_sin2 (x a b : V3) (hx : Normed x) (ha : Normed a) (hb : Normed b)
    (hA : Sin2Bound a x) (hB : Sin2Bound b x) :
    compareDistances x a b = exactDistancesDecision x a b := by
  unfold compareDistances compareDistancesS exactDistancesDecision
  by_cases h1 : triageCompareCosDistances x a b = 0
  · simp only [h1, bne_self_eq_false, Bool.false_eq_true, if_false]
    by_cases hf : V3.feq a b = true
    · simp only [hf, if_true]
    · simp only [hf, if_false]
      rcases sin2Stage_pair_sound hx ha hb hA hB h1 with s0 | se
      · simp only [s0, bne_self_eq_false, Bool.false_eq_true, if_false]
        by_cases he : exactCompareDistances (ofV3 x) (ofV3 a) (ofV3 b) = 0
        · simp [he]
        · have : (exactCompareDistances (ofV3 x) (ofV3 a) (ofV3 b) != 0) = true := by simpa using he
          simp [this]
      · by_cases he : exactCompareDistances (ofV3 x) (ofV3 a) (ofV3 b) = 0
        · rw [he] at se
          simp [se, he]
        · have hb1 : (exactCompareDistances (ofV3 x) (ofV3 a) (ofV3 b) != 0) = true := by simpa using he
          have hb2 : (sin2StageDistances x a b != 0) = true := by rw [se]; exact hb1
          simp only [hb2, if_true, hb1]
          exact se
  · have hb1 : (triageCompareCosDistances x a b != 0) = true := by simpa using h1
    simp only [hb1, if_true]
    rcases triageCos_pair_sound hx ha hb with h0 | he
    · exact absurd h0 h1
    · have hne : exactCompareDistances (ofV3 x) (ofV3 a) (ofV3 b) ≠ 0 := by rw [← he]; exact h1
      have hf : ¬ (V3.feq a b = true) := by
        intro hf
        have := (v3feq_iff ha.1 hb.1).1 hf
        rw [this] at hne
        exact hne (exact_self _ _)
      have hb2 : (exactCompareDistances (ofV3 x) (ofV3 a) (ofV3 b) != 0) = true := by simpa using hne
      simp only [hf, if_false, hb2, if_true]
      exact he

/-- the error bound of `sin2Distance` holds for `Normed` points (`FloatErr3/Sin2.lean`) -/
theorem sin2Bound_of_normed (p q : V3) (hp : Normed p) (hq : Normed q) : Sin2Bound p q := by
  obtain ⟨h1, h2, h3, h4, h5, h6, h7⟩ := sin2_error_bound p q hp hq
  exact ⟨h1, h2, h3, h4, h5, h6, h7⟩

/-- **`compareDistances_exact`**: for all points in the domain "output of Normalize" (`Normed`), `CompareDistances(x,a,b)`
    — the full cascade cos triage → sin² triage → exact → symbolic — equals the exact + symbolic decision
    (which is the exact comparison of the true distances whenever they differ, `C02.exactDistancesDecision_exact`,
    antisymmetric and non-zero for distinct points).  No hypothesis on the error constants is left. -/
theorem compareDistances_exact (x a b : V3) (hx : Normed x) (ha : Normed a) (hb : Normed b) :
    compareDistances x a b = exactDistancesDecision x a b :=
  compareDistances_exact_of_sin2 x a b hx ha hb (sin2Bound_of_normed a x ha hx) (sin2Bound_of_normed b x hb hx)

/-! ### non-vacuity and the boundary of the cosine stage

  x = (1,0,0), b = (0,1,0), a = (k·2^-53, 1, 0): all `Normed`; the float cosines are `k·u` and 0, both integer multiples
  of u.  For k = 3 the float difference 3u is NOT above the computed bound 3u + 16.5u² (the term `9.5·dblError·|c|`
  with the computed c = 3u is what saves the stage: at this point its true error budget is exhausted), the stage
  answers 0 and the exact stage decides; for k = 4 the cosine stage answers −1 (AX < BX) itself. -/

def eX : V3 := ⟨F64.one, F64.zero false, F64.zero false⟩
def eB : V3 := ⟨F64.zero false, F64.one, F64.zero false⟩
/-- (3·2^-53, 1, 0) -/
def eA3 : V3 := ⟨⟨0x3cb8000000000000⟩, F64.one, F64.zero false⟩
/-- (4·2^-53, 1, 0) -/
def eA4 : V3 := ⟨⟨0x3cc0000000000000⟩, F64.one, F64.zero false⟩

example : Normed eX ∧ Normed eB ∧ Normed eA3 ∧ Normed eA4 ∧
    triageCompareCosDistances eX eA3 eB = 0 ∧ exactCompareDistances (ofV3 eX) (ofV3 eA3) (ofV3 eB) = -1 ∧
    compareDistances eX eA3 eB = -1 ∧ exactDistancesDecision eX eA3 eB = -1 ∧
    triageCompareCosDistances eX eA4 eB = -1 ∧ exactCompareDistances (ofV3 eX) (ofV3 eA4) (ofV3 eB) = -1 ∧
    compareDistances eX eA4 eB = -1 := by decide +kernel

/-- genuine outputs of `Normalize` at 20°-ish distances: the sin² stage decides (stage 2) -/
example :
    let x := V3.normalize ⟨F64.one, F64.two, F64.three⟩
    let a := V3.normalize ⟨F64.one, F64.two, ⟨0x4008000000000001⟩⟩
    let b := V3.normalize ⟨F64.one, ⟨0x4000000000000001⟩, F64.three⟩
    Normed x ∧ Normed a ∧ Normed b ∧ compareDistancesS x a b = (exactDistancesDecision x a b, 2) := by
  decide +kernel

/-! ## `CompareDistance` -/

/-- **`compareDistance_exact`**: `CompareDistance(x, y, r)` — cos triage → sin² triage (r < 45°) → exact — equals
    `exactCompareDistance` for all `Normed` points and every valid chord angle `0 ≤ r2 ≤ 4` (repaired code). -/
theorem compareDistance_exact (x y : V3) (r : F64) (hx : Normed x) (hy : Normed y) (hr : Fin r)
    (h0 : 0 ≤ val r) (h4 : val r ≤ 4) :
    compareDistance x y r = exactCompareDistance x y r := by
  unfold compareDistance compareDistanceS
  by_cases h1 : triageCompareCosDistance x y r = 0
  · simp only [h1, bne_self_eq_false, Bool.false_eq_true, if_false]
    by_cases h45 : F64.lt r ca45Degrees = true
    · simp only [h45, if_true]
      rcases sin2Stage_single_sound hx hy (sin2Bound_of_normed x y hx hy) r hr h0 h45 h1 with s0 | se
      · simp [s0]
      · by_cases he : exactCompareDistance x y r = 0
        · rw [he] at se; simp [se, he]
        · have hb1 : (exactCompareDistance x y r != 0) = true := by simpa using he
          have hb2 : (triageCompareSin2Distance x y r != 0) = true := by rw [se]; exact hb1
          simp only [hb2, if_true]
          exact se
    · simp [h45]
  · have hb1 : (triageCompareCosDistance x y r != 0) = true := by simpa using h1
    simp only [hb1, if_true]
    rcases triageCos_single_sound hx hy r hr h0 h4 with h0' | he
    · exact absurd h0' h1
    · exact he

/-- decidable form of "valid chord angle": finite, `0 ≤ r2 ≤ 4` -/
def ValidChord (r : F64) : Prop := Fin r ∧ 0 ≤ toInt r ∧ toInt r ≤ 4 * (scale : ℤ)

instance (r : F64) : Decidable (ValidChord r) := by unfold ValidChord; infer_instance

theorem ValidChord.val_bounds {r : F64} (h : ValidChord r) : 0 ≤ val r ∧ val r ≤ 4 := by
  obtain ⟨_, h0, h2⟩ := h
  have h0' : (0 : ℝ) ≤ (toInt r : ℝ) := by exact_mod_cast h0
  have h2' : (toInt r : ℝ) ≤ 4 * 2 ^ 1074 := by
    have : ((toInt r : ℤ) : ℝ) ≤ ((4 * (scale : ℤ) : ℤ) : ℝ) := by exact_mod_cast h2
    push_cast at this; rw [scale_cast] at this; exact this
  unfold val
  have hB : (0 : ℝ) < 2 ^ 1074 := by positivity
  generalize (2 : ℝ) ^ 1074 = B at *
  exact ⟨div_nonneg h0' (le_of_lt hB), by rw [div_le_iff₀ hB]; exact h2'⟩

/-- non-vacuity: limits 0, 45°-ish, 90°, 180° − 1ulp, 180° are valid; a pair at 90° against the limit 90° (exact
    answer 0, decided by the exact stage), and against 180° (cosine stage) -/
example : ValidChord (F64.zero false) ∧ ValidChord ca45Degrees ∧ ValidChord F64.two ∧ ValidChord ⟨0x400fffffffffffff⟩ ∧
    ValidChord F64.four ∧ ¬ ValidChord ⟨0x4010000000000001⟩ ∧
    compareDistanceS eX eB F64.two = (0, 3) ∧ exactCompareDistance eX eB F64.two = 0 ∧
    compareDistanceS eX eB F64.four = (-1, 0) ∧ exactCompareDistance eX eB F64.four = -1 := by decide +kernel

/-- the full statement: every pair of `Normed` points and every valid chord angle -/
def CompareDistanceExact (cd : V3 → V3 → F64 → Int) : Prop :=
  ∀ x y : V3, ∀ r : F64, Normed x → Normed y → ValidChord r → cd x y r = exactCompareDistance x y r

/-- **it holds for the repaired code** -/
theorem compareDistance_exact_valid : CompareDistanceExact compareDistance :=
  fun x y r hx hy hr => compareDistance_exact x y r hx hy hr.1 hr.val_bounds.1 hr.val_bounds.2

/-! ### finding D54: the code before the repair -/

/-- (diff, err) of `triageCompareCosDistance` BEFORE repair D54: `cosRError := 2.0 * dblError * cosR` -/
def cosDistanceDiffErrOld (x y : V3) (r2 : F64) : F64 × F64 :=
  let (cosXY, eXY) := cosDistance x y
  let cosR := F64.one - F64.half * r2
  let cosRError := twoDblError * cosR
  (cosXY - cosR, eXY + cosRError)

/-- `triageCompareCosDistance` before the repair -/
def triageCompareCosDistanceOld (x y : V3) (r2 : F64) : Int :=
  let (diff, err) := cosDistanceDiffErrOld x y r2
  Int.neg (threshold diff err)

/-- `CompareDistance` before the repair (the other stages are unchanged) -/
def compareDistanceOld (x y : V3) (r : F64) : Int :=
  let s := triageCompareCosDistanceOld x y r
  if s != 0 then s
  else
    let s := if F64.lt r ca45Degrees then triageCompareSin2Distance x y r else 0
    if s != 0 then s else exactCompareDistance x y r

/-- W1: x = (sh+1ulp, sh+3ulp, ≈2^-26.5) with sh = fl(√½): exact ‖x‖² = 1 + 7.889·2^-53, float `x·x` = 1 + 10·2^-53 -/
def wX : V3 := ⟨⟨0x3fe6a09e667f3bce⟩, ⟨0x3fe6a09e667f3bd0⟩, ⟨0x3e46a383ab994d29⟩⟩
/-- W1: y = −x -/
def wY : V3 := ⟨⟨0xbfe6a09e667f3bce⟩, ⟨0xbfe6a09e667f3bd0⟩, ⟨0xbe46a383ab994d29⟩⟩
/-- W1: r2 = 4.0 (the straight chord angle, 180°) -/
def wR : F64 := ⟨0x4010000000000000⟩

/-- **W1, kernel-checked**: both points are `Normed` (they also pass Go's `IsUnit()`), `r2 = 4` is valid, XY is exactly
    180° = r (exact answer 0); the OLD cosine triage answers +1 ("XY > r") and so does the old `CompareDistance`:
    `cosRError = −2·dblError` shrank the bound to 9u although the float cosine −(1+10u) is 10u away from `cosR = −1`.
    The repaired code answers 0. -/
theorem d54_witness_isUnit :
    Normed wX ∧ Normed wY ∧ ValidChord wR ∧
    triageCompareCosDistanceOld wX wY wR = 1 ∧ exactCompareDistance wX wY wR = 0 ∧ compareDistanceOld wX wY wR = 1 ∧
    triageCompareCosDistance wX wY wR = 0 ∧ compareDistance wX wY wR = 0 := by
  decide +kernel

/-- **the pre-repair `CompareDistance` violates the statement** -/
theorem compareDistance_false_before_repair : ¬ CompareDistanceExact compareDistanceOld := by
  intro h
  obtain ⟨h1, h2, h3, _, h5, h6, _, _⟩ := d54_witness_isUnit
  have := h wX wY wR h1 h2 h3
  rw [h5, h6] at this
  exact absurd this (by decide)

/-! ## the domain is the range of `Normalize` -/

/-- decidable "no over/underflow" guard for `Normalize`: finite coordinates and `2^-600 ≤ ‖v‖² ≤ 2^600` -/
def NormalizeDomain (v : V3) : Prop := Fin3 v ∧ 2 ^ 1548 ≤ norm2I v ∧ norm2I v ≤ 2 ^ 2748

instance (v : V3) : Decidable (NormalizeDomain v) := by unfold NormalizeDomain; infer_instance

theorem NormalizeDomain.real {v : V3} (h : NormalizeDomain v) : 1 / 2 ^ 600 ≤ n2R v ∧ n2R v ≤ 2 ^ 600 := by
  obtain ⟨_, h1, h2⟩ := h
  have h1' : ((2 : ℝ) ^ 1548) ≤ (norm2I v : ℝ) := by exact_mod_cast h1
  have h2' : (norm2I v : ℝ) ≤ (2 : ℝ) ^ 2748 := by exact_mod_cast h2
  rw [n2R_eq]
  have e0 : ((2 : ℝ) ^ 1074) ^ 2 = 2 ^ 2148 := by rw [← pow_mul]
  have e1 : (2 : ℝ) ^ 2148 = 2 ^ 1548 * 2 ^ 600 := by rw [← pow_add]
  have e2 : (2 : ℝ) ^ 2748 = 2 ^ 2148 * 2 ^ 600 := by rw [← pow_add]
  rw [e0]
  have hA : (0 : ℝ) < 2 ^ 1548 := by positivity
  have hC : (0 : ℝ) < 2 ^ 600 := by positivity
  have hD : (0 : ℝ) < 2 ^ 2148 := by positivity
  rw [e2] at h2'
  generalize (norm2I v : ℝ) = N at *
  constructor
  · rw [div_le_div_iff₀ hC hD, e1]
    generalize (2 : ℝ) ^ 1548 = A at *
    generalize (2 : ℝ) ^ 600 = C at *
    have := mul_le_mul_of_nonneg_right h1' (le_of_lt hC)
    linarith
  · rw [div_le_iff₀ hD]
    generalize (2 : ℝ) ^ 2148 = D at *
    generalize (2 : ℝ) ^ 600 = C at *
    linarith

example : NormalizeDomain ⟨F64.one, F64.two, F64.three⟩ ∧ ¬ NormalizeDomain ⟨F64.zero false, F64.zero false, F64.zero false⟩ := by
  decide +kernel

/-- **`Normalize` lands in the domain** -/
theorem normalize_normed' (v : V3) (h : NormalizeDomain v) : Normed (V3.normalize v) :=
  normalize_normed v h.1 h.real.1 h.real.2

/-- **`compareDistances_exact` on outputs of `Normalize`** -/
theorem compareDistances_exact_normalize (u v w : V3) (hu : NormalizeDomain u) (hv : NormalizeDomain v)
    (hw : NormalizeDomain w) :
    compareDistances (V3.normalize u) (V3.normalize v) (V3.normalize w)
      = exactDistancesDecision (V3.normalize u) (V3.normalize v) (V3.normalize w) :=
  compareDistances_exact _ _ _ (normalize_normed' u hu) (normalize_normed' v hv) (normalize_normed' w hw)

/-- **`compareDistance_exact` on outputs of `Normalize`**, every valid chord angle (repaired code) -/
theorem compareDistance_exact_normalize (u v : V3) (r : F64) (hu : NormalizeDomain u) (hv : NormalizeDomain v)
    (hr : ValidChord r) :
    compareDistance (V3.normalize u) (V3.normalize v) r = exactCompareDistance (V3.normalize u) (V3.normalize v) r :=
  compareDistance_exact_valid _ _ r (normalize_normed' u hu) (normalize_normed' v hv) hr

/-! ### finding D54 on genuine outputs of `Normalize` -/

/-- N1: input of `PointFromCoords` for x -/
def nU : V3 := ⟨⟨0x3ff6a4f62b3d0ab0⟩, ⟨0x3ff6a2111555ab8e⟩, ⟨0x3e56839537fece62⟩⟩
/-- N1: input of `PointFromCoords` for y -/
def nV : V3 := ⟨⟨0xbff6a4f62b996aad⟩, ⟨0xbff6a21113f683f3⟩, ⟨0x3e56839537fece62⟩⟩
/-- N1: r2 = 4 − 2^-51 (179.9999983°) -/
def nR : F64 := ⟨0x400fffffffffffff⟩

/-- **N1, kernel-checked, genuine `Normalize` outputs** (reproduced with `s2.PointFromCoords` / `s2.CompareDistance`
    on the unrepaired repository): the OLD `CompareDistance` answers +1 ("XY > r"), the exact comparison is −1
    ("XY < r").  Both norms are 1 + 3.64u (all ten roundings of `Normalize` go the same way), the float cosine is
    −(1+8u), `cosR = −1+2u`, `diff = −10u`, and the old bound was ≈ 9u.  The repaired code answers −1. -/
theorem d54_witness_normalize :
    NormalizeDomain nU ∧ NormalizeDomain nV ∧ ValidChord nR ∧
    V3.normalize nU = ⟨⟨0x3fe6a210b637189b⟩, ⟨0x3fe69f2bff197c91⟩, ⟨0x3e4680b407e8bf66⟩⟩ ∧
    V3.normalize nV = ⟨⟨0xbfe6a210b714ba21⟩, ⟨0xbfe69f2bfe3bbeb2⟩, ⟨0x3e4680b408694e27⟩⟩ ∧
    triageCompareCosDistanceOld (V3.normalize nU) (V3.normalize nV) nR = 1 ∧
    exactCompareDistance (V3.normalize nU) (V3.normalize nV) nR = -1 ∧
    compareDistanceOld (V3.normalize nU) (V3.normalize nV) nR = 1 ∧
    compareDistance (V3.normalize nU) (V3.normalize nV) nR = -1 := by
  decide +kernel

/-- the property restricted to genuine outputs of `Normalize` and valid chord angles -/
def CompareDistanceExactOnNormalize (cd : V3 → V3 → F64 → Int) : Prop :=
  ∀ u v : V3, ∀ r : F64, NormalizeDomain u → NormalizeDomain v → ValidChord r →
    cd (V3.normalize u) (V3.normalize v) r = exactCompareDistance (V3.normalize u) (V3.normalize v) r

/-- **FALSE for the code before the repair**, even on genuine outputs of `Normalize` -/
theorem compareDistance_on_normalize_false_before_repair : ¬ CompareDistanceExactOnNormalize compareDistanceOld := by
  intro h
  obtain ⟨h1, h2, h3, _, _, _, h5, h6, _⟩ := d54_witness_normalize
  have := h nU nV nR h1 h2 h3
  rw [h5, h6] at this
  exact absurd this (by decide)

/-- **TRUE for the repaired code** -/
theorem compareDistance_on_normalize : CompareDistanceExactOnNormalize compareDistance :=
  fun u v r hu hv hr => compareDistance_exact_normalize u v r hu hv hr

end S2Proofs.C02DistErr
