/-
  Property C02 (distance triage, `cosDistance`) — PARTIAL: rigorous error bound of the float cosine and the exact
  comparison of the code's error constants with it.  The exactness of `CompareDistances` / `CompareDistance`
  (`compareDistances_exact`, `compareDistance_exact`) is NOT proved here; what is proved explains precisely why the
  standard model of rounding cannot prove it and what an ulp-level argument would have to supply.

  `cosDistance(x,y)` returns `c = fl(x·y)` and the bound `err = 9.5·dblError·|c| + 1.5·dblError`.
    * `cos_error_bound`: for finite vectors of squared norm ≤ 1 + 2^-16,
          |c − x·y| ≤ f·|x·y| + g·(1 + 2^-16) + h·e,   f = (3/2)u(1+u/3), g = (3/2)u(1+u)(1+2u/3), h ≈ 3, e = 2^-1075.
      For x·y = 0 (distances of 90°) the attainable first-order error is g·Σ|x_i y_i| → (3/2)·u·|x||y|.
    * `cosErrAdd_lt`: the code's additive constant `1.5·dblError` is STRICTLY BELOW (3/2)·u (the decimal literal
      `dblError = 1.110223024625156e-16` is below 2^-53), while `g > (3/2)·u` (`gU_gt`): at |c| ≈ 0 the code's bound
      is smaller than the standard-model bound by ≈ 14·u² (relative 1e-15).  Hence no proof by the standard model
      exists; the gap can only be closed by an argument on the level of half-ulps (the error (3/2)u is attained only
      when all three products and the first partial sum are exact ties just above a power of two, in which case the
      term 9.5·dblError·|c| with the COMPUTED c = (3/2)u contributes +14.25·u²).  A targeted search (3.6·10^7 triples
      x ⟂ a, b in ulp-neighbourhoods of the worst-case pattern t = (1/4, 1/4, −1/2), 2.4·10^7 non-zero triage answers)
      found no disagreement between `triageCompareCosDistances` and `exactCompareDistances`.
-/
import S2Proofs.FloatErr.DotProd
import S2Proofs.Properties.C02_TriageError

namespace S2Proofs.C02DistErr
open S2 S2.Exact S2.Pred S2Proofs.F64Order S2Proofs.PredLemmas S2Proofs.FloatErr

/-- **Rigorous error bound of the float cosine** `fl(x·y)` for finite vectors of squared norm ≤ 1 + 2^-16. -/
theorem cos_error_bound (x y : V3) (hx : NormLe x) (hy : NormLe y) :
    Fin (cosDistance x y).1 ∧
    |val (cosDistance x y).1 - (val x.x * val y.x + val x.y * val y.y + val x.z * val y.z)|
      ≤ fU uR * |val x.x * val y.x + val x.y * val y.y + val x.z * val y.z|
        + gU uR * (1 + tauR) + hU uR * eR := by
  obtain ⟨hfin, hE⟩ := dotChain_of_stdModel stdModel x y hx.1 hy.1 hx.coord_le hy.coord_le
  refine ⟨hfin, le_trans hE ?_⟩
  have hm0 : 0 ≤ 1 + tauR := by unfold tauR; positivity
  have hT : |val x.x * val y.x| + |val x.y * val y.y| + |val x.z * val y.z| ≤ 1 + tauR := by
    simp only [abs_mul]
    have hcs := cs3 (val x.x) (val x.y) (val x.z) (val y.x) (val y.y) (val y.z)
    have n0 : 0 ≤ |val x.x| * |val y.x| + |val x.y| * |val y.y| + |val x.z| * |val y.z| := by positivity
    apply le_of_sq_le n0 hm0
    have nb : 0 ≤ val y.x ^ 2 + val y.y ^ 2 + val y.z ^ 2 := by positivity
    have := mul_le_mul hx.sq_le hy.sq_le nb hm0
    have e : (1 + tauR) ^ 2 = (1 + tauR) * (1 + tauR) := by ring
    linarith
  have hg0 : 0 ≤ gU uR := by unfold gU; have := uR_nonneg; positivity
  have k2 := mul_le_mul_of_nonneg_left hT hg0
  linarith

/-- the code's additive constant `1.5·dblError` is strictly below `(3/2)·2^-53` … -/
theorem cosErrAdd_lt : val cosErrAdd < 3 / 2 * uR := by
  have h : toInt cosErrAdd * (2 * 2 ^ 53) < (3 : ℤ) * 2 ^ 1074 := by decide +kernel
  have h' : (toInt cosErrAdd : ℝ) * (2 * 2 ^ 53) < (3 : ℝ) * 2 ^ 1074 := by exact_mod_cast h
  unfold val uR
  rw [div_mul_div_comm, div_lt_div_iff₀ (by positivity) (by positivity)]
  linarith

/-- … while the standard-model coefficient of `Σ|x_i y_i|` is strictly above it: no first-order slack. -/
theorem gU_gt : 3 / 2 * uR < gU uR := by
  unfold gU uR; norm_num

/-- the multiplicative constant: `9.49·u ≤ 9.5·dblError ≤ 9.5·u` -/
theorem cosErrMul_bounds : 949 / 100 * uR ≤ val cosErrMul ∧ val cosErrMul < 95 / 10 * uR := by
  have h : (949 : ℤ) * 2 ^ 1074 ≤ toInt cosErrMul * (100 * 2 ^ 53) ∧
      toInt cosErrMul * (10 * 2 ^ 53) < (95 : ℤ) * 2 ^ 1074 := by decide +kernel
  have h1 : (949 : ℝ) * 2 ^ 1074 ≤ (toInt cosErrMul : ℝ) * (100 * 2 ^ 53) := by exact_mod_cast h.1
  have h2 : (toInt cosErrMul : ℝ) * (10 * 2 ^ 53) < (95 : ℝ) * 2 ^ 1074 := by exact_mod_cast h.2
  unfold val uR
  constructor
  · rw [div_mul_div_comm, div_le_div_iff₀ (by positivity) (by positivity)]; linarith
  · rw [div_mul_div_comm, div_lt_div_iff₀ (by positivity) (by positivity)]; linarith

/-- non-vacuity: two unit vectors at 90° -/
example : NormLe ⟨F64.one, F64.zero false, F64.zero false⟩ ∧ NormLe ⟨F64.zero false, F64.one, F64.zero false⟩ := by
  decide +kernel

end S2Proofs.C02DistErr
