/-
  S2Proofs.Properties.C12_MaxDistance2 — C12, "no point of the cell is farther than the reported maximum" for the EDGE and
  CELL targets (package c12max): `Cell.MaxDistanceToEdge(a, b)`, `Cell.MaxDistanceToCell(target)`.

  Models: `S2.CellEdgeM.maxDistanceToEdge`, `S2.CellEdgeM.maxDistanceToCell` (bit-exact, package c12dist2, tied in
  `Ties/C12_Edge.lean`).  Vocabulary as in `C12_Distance2.lean`: exact cell `InCellXYZ c (toAcc q)`, exact arc
  `OnArc (vecR a) (vecR b) r`, `chordPQ q r = 2 − 2 q·r = |q − r|²`, `negV a` = the float `a.Mul(-1)` (exact negation).

  (1) EXACT GEOMETRY (no floats, any set `S` of unit vectors in place of the cell):
      endpoint rule  `maxDistanceToEdge_exact_endpoints`  — all of `S` within 90° of both endpoints ⇒ the maximum over
                     arc × S is the larger endpoint maximum, attained at an endpoint of the arc;
      antipode rule  `maxDistanceToEdge_exact_antipode`   — `max over arc × S = 4 − min over (antipodal arc) × S`
                     (upper bound ⇔ lower bound, attained ⇔ attained).
  (2) FLOAT: `maxDistanceToEdge_upper_bound` — for every valid cell and every edge in the domain of c17err, NO point of the
      exact cell is farther from ANY point of the arc than the reported value + 2^-40 — EVERY branch, NO class excluded.
      `maxDistanceToEdge_upper_bound_sharp` — + 2^-43 outside the RIGHT-ANGLE CLASS (`RightAngleClass`: near branch taken and
      the reported endpoint maximum within `endSlack = 2^-44 + 2^-48` of 2).  In the class the endpoint rule is not robust for
      arbitrary sets (a nearly antipodal edge amplifies the slack of the endpoint cosines by 1/sin(δ/2), up to 2^36); it IS
      robust for S2 cells because their uv-rectangles are fat (both widths ≥ 2^-31): `right_angle_class_fat`.
  (3) `MaxDistanceToCell`: `maxDistanceToCell_upper_bound` — no pair of points of the two exact cells is farther apart than
      the reported value + 2^-45, every branch (the early `return 4` included), under the c17err domain of the 32 calls
      (`AntiCallOK`: `UnitPt` ×3, `EdgeOK`, `WedgeMargin (−x) e0 e1`).  The one-ulp right-angle class of `UpdateMaxDistance`
      (known class F10, a conjunct of c17pairs' `MaxCallOK`) is NOT a hypothesis: every edge handed to `UpdateMaxDistance`
      here is a float edge of an S2 cell, of angle ≤ 120° (`cell_edges_short`), and for such edges the class is harmless
      (`updateMaxDistance_short_edge`: inside the class the true maximum over the arc exceeds the true endpoint maximum by
      at most 2^-51).  Exact geometry: the antipode of an S2 cell IS the S2 cell of the opposite face with the transposed uv
      rectangle (`antipodal_cell_is_cell`: the `antipodalUV` of the code), `max = 4 − min to the antipodal cell`
      (`maxDistanceToCell_exact_antipode`), and the 32 (corner, edge) pairs are a complete candidate set
      (`maxDistanceToCell_exact_apart`).
  (4) the other direction (the reported maximum is nearly attained): `maxDistance_attained` (point target, 2^-46),
      `maxDistanceToCell_attained` (two-sided 2^-45, no proviso), `maxDistanceToEdge_attained_partial` /
      `maxDistanceToEdge_within_partial` (2^-44 / two-sided 2^-40; far branch under the proviso of c12dist2's
      `distanceToEdge_attained_partial`).
  Bounds are ABSOLUTE (squared chord length).
-/
import S2Proofs.C12Dist2.MaxEdgeFinal
import S2Proofs.C12Dist2.MaxAttained
import S2Proofs.C12Dist2.MaxCellFinal
import S2Proofs.C12Dist2.MaxCellAttained
import S2Proofs.Properties.C12_Distance2
import S2Proofs.Properties.C17_Pairs2

set_option linter.unusedSimpArgs false
set_option linter.unusedVariables false

namespace S2Proofs.C12
open S2 S2.CellID S2.CellM S2.CellEdgeM S2.EdgeNum S2Proofs.F64Order S2Proofs.FloatErr
open S2Proofs.C12Dist S2Proofs.C16Acc

section maxedge
open S2Proofs.C17Err S2Proofs.C17Err.R3 S2Proofs.C17Pairs S2Proofs.C17 S2Proofs.C08World S2Proofs.C12Dist2

/-! ## (1) exact geometry of `MaxDistanceToEdge` -/

/-- **ENDPOINT RULE (exact).**  `S` any set (the cell).  If every point of `S` is within squared chord `m ≤ 2` (90°) of both
    endpoint directions and `m` is attained at an endpoint, then `m` is THE maximum of the squared chord over arc × S. -/
theorem maxDistanceToEdge_exact_endpoints {S : C17Err.R3 → Prop} {a b : C17Err.R3} (ha : 0 < a.len) (hb : 0 < b.len)
    {m : ℝ} (hm : m ≤ 2)
    (hA : ∀ q, S q → chordPQ q (dirR a) ≤ m) (hB : ∀ q, S q → chordPQ q (dirR b) ≤ m)
    (hatt : ∃ q, S q ∧ (chordPQ q (dirR a) = m ∨ chordPQ q (dirR b) = m)) :
    (∀ q P, S q → OnArc a b P → chordPQ q P ≤ m) ∧ (∃ q P, S q ∧ OnArc a b P ∧ chordPQ q P = m) :=
  maxArc_endpoint_exact ha hb hm hA hB hatt

/-- **ANTIPODE RULE FOR SETS (exact).**  If `d` is THE minimum squared chord between `S` and the antipodal arc `(−a, −b)`
    then `4 − d` is THE maximum squared chord between `S` and the arc `(a, b)` (i.e. π − the minimum angle). -/
theorem maxDistanceToEdge_exact_antipode {S : C17Err.R3 → Prop} {a b : C17Err.R3} {d : ℝ}
    (hlow : ∀ q P', S q → OnArc (negR a) (negR b) P' → d ≤ chordPQ q P')
    (hatt : ∃ q P', S q ∧ OnArc (negR a) (negR b) P' ∧ chordPQ q P' = d) :
    (∀ q P, S q → OnArc a b P → chordPQ q P ≤ 4 - d) ∧ (∃ q P, S q ∧ OnArc a b P ∧ chordPQ q P = 4 - d) :=
  maxArc_antipode_exact hlow hatt

/-- the antipode rule is an equivalence of bounds -/
theorem maxDistanceToEdge_antipode_iff {S : C17Err.R3 → Prop} {a b : C17Err.R3} {d : ℝ} :
    (∀ q P, S q → OnArc a b P → chordPQ q P ≤ 4 - d) ↔
    (∀ q P', S q → OnArc (negR a) (negR b) P' → d ≤ chordPQ q P') := maxArc_antipode_iff

/-- the float `a.Mul(-1)` is the exact antipode: the arc of the negated float edge is the antipodal arc -/
theorem negated_edge_is_antipodal_arc {a b : V3} (ha : UnitPt a) (hb : UnitPt b) (r : C17Err.R3) :
    OnArc (vecR (negV a)) (vecR (negV b)) (negR r) ↔ OnArc (vecR a) (vecR b) r := by
  rw [vecR_negV ha.1, vecR_negV hb.1]; exact negR_onArc_iff

/-! ## (2) `MaxDistanceToEdge`, float -/

/-- the c17err domain of the four calls `UpdateMinDistance(c.Vertex(k), −a, −b, ·)` made by `DistanceToEdge(−a, −b)` -/
def AntipodalVerticesOK (c : Cell) (a b : V3) : Prop := VerticesOK c (negV a) (negV b)

/-- **UPPER BOUND of `MaxDistanceToEdge`** — every branch, no class excluded.  For every valid cell and every edge `ab` with
    unit-length endpoints, `EdgeOK`, and the four vertex calls of the antipodal edge in the domain of c17err: the reported
    value is a finite float and NO point `q` of the exact cell is farther from ANY point `r` of the arc than the reported value
    + 2^-40 (squared chord). -/
theorem maxDistanceToEdge_upper_bound (id : CellID) (hv : isValid id = true) (a b : V3)
    (ha : UnitPt a) (hb : UnitPt b) (hE : EdgeOK a b) (hV : AntipodalVerticesOK (cellFromCellID id) a b)
    (q r : C17Err.R3) (hq : InCellXYZ (cellFromCellID id) (toAcc q)) (hr : OnArc (vecR a) (vecR b) r) :
    Fin (maxDistanceToEdge (cellFromCellID id) a b) ∧
    chordPQ q r ≤ val (maxDistanceToEdge (cellFromCellID id) a b) + 1 / 2 ^ 40 := by
  obtain ⟨hf, h, _⟩ := maxDistanceToEdge_upper_cases id hv a b ha hb hE
    (fun k hk => ⟨(hV k hk).1, (hV k hk).2⟩) hq hr
  exact ⟨hf, by have := slack_facts.1; linarith⟩

/-- the full statement as a proposition … -/
def MaxDistanceToEdgeUpperBoundReal (err : ℝ) : Prop :=
  ∀ (id : CellID) (a b : V3), isValid id = true → UnitPt a → UnitPt b → EdgeOK a b →
    AntipodalVerticesOK (cellFromCellID id) a b →
    ∀ q r : C17Err.R3, InCellXYZ (cellFromCellID id) (toAcc q) → OnArc (vecR a) (vecR b) r →
      Fin (maxDistanceToEdge (cellFromCellID id) a b) ∧ chordPQ q r ≤ val (maxDistanceToEdge (cellFromCellID id) a b) + err

/-- … which HOLDS with `err = 2^-40` -/
theorem maxDistanceToEdgeUpperBound_holds : MaxDistanceToEdgeUpperBoundReal (1 / 2 ^ 40) :=
  fun id a b hv ha hb hE hV q r hq hr => maxDistanceToEdge_upper_bound id hv a b ha hb hE hV q r hq hr

/-- **… with 2^-43 outside the right-angle class** (`RightAngleClass c a b` := `2 − endSlack < maxDist ≤ 2` for
    `maxDist = maxChordAngle(MaxDistance(a), MaxDistance(b))`, `endSlack = 2^-44 + 2^-48`) -/
theorem maxDistanceToEdge_upper_bound_sharp (id : CellID) (hv : isValid id = true) (a b : V3)
    (ha : UnitPt a) (hb : UnitPt b) (hE : EdgeOK a b) (hV : AntipodalVerticesOK (cellFromCellID id) a b)
    (hcl : ¬ RightAngleClass (cellFromCellID id) a b)
    (q r : C17Err.R3) (hq : InCellXYZ (cellFromCellID id) (toAcc q)) (hr : OnArc (vecR a) (vecR b) r) :
    chordPQ q r ≤ val (maxDistanceToEdge (cellFromCellID id) a b) + 1 / 2 ^ 43 := by
  obtain ⟨_, _, h⟩ := maxDistanceToEdge_upper_cases id hv a b ha hb hE
    (fun k hk => ⟨(hV k hk).1, (hV k hk).2⟩) hq hr
  have := slack_facts.2.1
  linarith [h hcl]

/-- the near branch needs NO hypothesis about the edge (no `EdgeOK`, no vertex calls): if the code returns the endpoint
    maximum, that value + 2^-40 bounds the squared chord between every cell point and every arc point -/
theorem maxDistanceToEdge_upper_bound_near (id : CellID) (hv : isValid id = true) (a b : V3)
    (ha : UnitPt a) (hb : UnitPt b)
    (hnear : F64.le (endMax (cellFromCellID id) a b) F64.two = true)
    (q r : C17Err.R3) (hq : InCellXYZ (cellFromCellID id) (toAcc q)) (hr : OnArc (vecR a) (vecR b) r) :
    maxDistanceToEdge (cellFromCellID id) a b = endMax (cellFromCellID id) a b ∧
    chordPQ q r ≤ val (maxDistanceToEdge (cellFromCellID id) a b) + 1 / 2 ^ 40 := by
  have e : maxDistanceToEdge (cellFromCellID id) a b = endMax (cellFromCellID id) a b := by
    unfold maxDistanceToEdge endMax at *
    simp only
    rw [if_pos hnear]
  refine ⟨e, ?_⟩
  rw [e]
  have hle := (near_branch_iff id hv a b ha hb).mp hnear
  obtain ⟨s40, _, _, s0⟩ := slack_facts
  by_cases hs : val (endMax (cellFromCellID id) a b) + endSlack ≤ 2
  · have := maxEdge_near_sharp id hv a b ha hb hs hq hr
    linarith
  · have := maxEdge_near_class id hv a b ha hb ⟨by linarith, hle⟩ hq hr
    linarith

/-- **how the right-angle class is handled**: pure geometry.  If every point of an exact cell whose uv-rectangle has both
    widths ≥ w has cosine ≥ −ε against both endpoint directions (128·ε ≤ w), it has cosine ≥ −8ε against every point of the
    arc — for EVERY edge, nearly antipodal ones included.  (For an arbitrary set instead of a cell the best constant is
    1/sin(δ/2) for an edge of angle π − δ.) -/
theorem right_angle_class_fat (f : Nat) (r : RRect) (ok : r.OK) {w : ℝ} (hw : 0 < w)
    (hwu : r.u0 + w ≤ r.u1) (hwv : r.v0 + w ≤ r.v1)
    {a b : C17Err.R3} (ha : 0 < a.len) (hb : 0 < b.len) {ε : ℝ} (hε0 : 0 ≤ ε) (hεw : 128 * ε ≤ w)
    (hA : ∀ x, InCell r (uvwR f (toAcc x)) → -ε ≤ x.dot (dirR a))
    (hB : ∀ x, InCell r (uvwR f (toAcc x)) → -ε ≤ x.dot (dirR b))
    {q P : C17Err.R3} (hq : InCell r (uvwR f (toAcc q))) (hP : OnArc a b P) : -(8 * ε) ≤ q.dot P :=
  arc_dot_fat f r ok hw hwu hwv ha hb hε0 hεw
    (fun x hx => hA x ((pt_iff_inCell f r ok x).mp hx)) (fun x hx => hB x ((pt_iff_inCell f r ok x).mp hx))
    ((pt_iff_inCell f r ok q).mpr hq) hP

/-- `MaxDistanceToEdge` is a number (not NaN) on the domain -/
theorem maxDistanceToEdge_not_nan (id : CellID) (hv : isValid id = true) (a b : V3)
    (ha : UnitPt a) (hb : UnitPt b) (hE : EdgeOK a b) (hV : AntipodalVerticesOK (cellFromCellID id) a b) :
    (maxDistanceToEdge (cellFromCellID id) a b).isNaN = false := by
  obtain ⟨q, hq⟩ := C12Dist2.corner_inCell id hv 0 |> fun h => (⟨_, h⟩ : ∃ q : C17Err.R3, InCellXYZ (cellFromCellID id) (toAcc q))
  have hr : OnArc (vecR a) (vecR b) (dirR (vecR a)) := onArc_left' _ _ ha.len_pos
  exact isNaN_false (maxDistanceToEdge_upper_bound id hv a b ha hb hE hV q _ hq hr).1

/-- the domain is closed under negating the edge -/
theorem negated_edge_domain {a b : V3} (ha : UnitPt a) (hb : UnitPt b) (hE : EdgeOK a b) :
    UnitPt (negV a) ∧ UnitPt (negV b) ∧ EdgeOK (negV a) (negV b) :=
  ⟨unitWithin_negV ha, unitWithin_negV hb, edgeOK_negV ha.1 hb.1 hE⟩

/-! ### non-vacuity (kernel-checked; the floats are the values Go returns, `docs/delivered/c12max_gotest`) -/

theorem negneg_ex : negV (negV exP) = exP ∧ negV (negV exB) = exB := by decide +kernel

/-- every hypothesis of `maxDistanceToEdge_upper_bound` for cell `151f000000000000` and the edge (0,0,1) → (0,1,0) -/
theorem maxEdge_instance_near : isValid (0x151f000000000000 : CellID) = true ∧ UnitPt exP ∧ UnitPt exB ∧ EdgeOK exP exB ∧
    AntipodalVerticesOK (cellFromCellID 0x151f000000000000) exP exB := by
  have h : UnitPtZ vB0 ∧ UnitPtZ vB1 ∧ UnitPtZ vB2 ∧ UnitPtZ vB3 ∧
      WedgeMarginZ vB0 (negV exP) (negV exB) ∧ WedgeMarginZ vB1 (negV exP) (negV exB) ∧
      WedgeMarginZ vB2 (negV exP) (negV exB) ∧ WedgeMarginZ vB3 (negV exP) (negV exB) := by
    decide +kernel
  obtain ⟨u0, u1, u2, u3, m0, m1, m2, m3⟩ := h
  obtain ⟨v, hp, hb, e, _⟩ := edge_instance
  obtain ⟨e0, e1, e2, e3⟩ := vB_eq
  have hp' : UnitPt (negV exP) := unitWithin_negV hp
  have hb' : UnitPt (negV exB) := unitWithin_negV hb
  refine ⟨v, hp, hb, e, ?_⟩
  unfold AntipodalVerticesOK
  rw [cellB_eq]
  intro k hk
  interval_cases k
  · rw [e0]; exact ⟨unitPt_of_int u0, wedgeMargin_of_int _ _ _ (unitPt_of_int u0) hp' hb' m0⟩
  · rw [e1]; exact ⟨unitPt_of_int u1, wedgeMargin_of_int _ _ _ (unitPt_of_int u1) hp' hb' m1⟩
  · rw [e2]; exact ⟨unitPt_of_int u2, wedgeMargin_of_int _ _ _ (unitPt_of_int u2) hp' hb' m2⟩
  · rw [e3]; exact ⟨unitPt_of_int u3, wedgeMargin_of_int _ _ _ (unitPt_of_int u3) hp' hb' m3⟩

set_option maxRecDepth 100000 in
/-- on that instance the code takes the NEAR branch and returns `3ff115db17211a76` (≈ 1.0678 = `MaxDistance(b)`), the value
    Go's `MaxDistanceToEdge` returns -/
theorem maxEdge_instance_near_value :
    F64.le (endMax cellB exP exB) F64.two = true ∧ maxDistanceToEdge cellB exP exB = ⟨0x3ff115db17211a76⟩ := by
  decide +kernel

/-- the theorem applied: no point of the cell is farther from any point of that arc than `1.0678… + 2^-40` -/
example (q r : C17Err.R3) (hq : InCellXYZ (cellFromCellID 0x151f000000000000) (toAcc q)) (hr : OnArc (vecR exP) (vecR exB) r) :
    chordPQ q r ≤ val (⟨0x3ff115db17211a76⟩ : F64) + 1 / 2 ^ 40 := by
  obtain ⟨v, p, b, e, hV⟩ := maxEdge_instance_near
  have h := (maxDistanceToEdge_upper_bound _ v exP exB p b e hV q r hq hr).2
  rw [cellB_eq, maxEdge_instance_near_value.2] at h
  exact h

/-- every hypothesis for the ANTIPODAL edge (0,0,−1) → (0,−1,0) (the calls of the far branch are those of `edge_instance`) -/
theorem maxEdge_instance_far : isValid (0x151f000000000000 : CellID) = true ∧ UnitPt (negV exP) ∧ UnitPt (negV exB) ∧
    EdgeOK (negV exP) (negV exB) ∧ AntipodalVerticesOK (cellFromCellID 0x151f000000000000) (negV exP) (negV exB) := by
  obtain ⟨v, hp, hb, e, hV⟩ := edge_instance
  obtain ⟨hp', hb', e'⟩ := negated_edge_domain hp hb e
  refine ⟨v, hp', hb', e', ?_⟩
  unfold AntipodalVerticesOK
  rw [negneg_ex.1, negneg_ex.2]
  exact hV

set_option maxRecDepth 100000 in
/-- there the code takes the FAR branch (`maxDist > 2`) and returns `4 − DistanceToEdge(P, B)` = `400be0c0383ee14d`
    (≈ 3.4847), the value Go returns -/
theorem maxEdge_instance_far_value :
    F64.le (endMax cellB (negV exP) (negV exB)) F64.two = false ∧
    maxDistanceToEdge cellB (negV exP) (negV exB) = ⟨0x400be0c0383ee14d⟩ := by
  decide +kernel

example (q r : C17Err.R3) (hq : InCellXYZ (cellFromCellID 0x151f000000000000) (toAcc q))
    (hr : OnArc (vecR (negV exP)) (vecR (negV exB)) r) :
    chordPQ q r ≤ val (⟨0x400be0c0383ee14d⟩ : F64) + 1 / 2 ^ 40 := by
  obtain ⟨v, p, b, e, hV⟩ := maxEdge_instance_far
  have h := (maxDistanceToEdge_upper_bound _ v _ _ p b e hV q r hq hr).2
  rw [cellB_eq, maxEdge_instance_far_value.2] at h
  exact h

/-- both instances are OUTSIDE the right-angle class (so the sharp bound 2^-43 applies to them) -/
theorem maxEdge_instances_not_class :
    ¬ RightAngleClass (cellFromCellID 0x151f000000000000) exP exB ∧
    ¬ RightAngleClass (cellFromCellID 0x151f000000000000) (negV exP) (negV exB) := by
  rw [cellB_eq]
  constructor
  · rintro ⟨hlo, _⟩
    have hv : endMax cellB exP exB = ⟨0x3ff115db17211a76⟩ := by
      have := maxEdge_instance_near_value
      unfold maxDistanceToEdge at this
      simp only at this
      unfold endMax at this ⊢
      rw [if_pos this.1] at this
      exact this.2
    rw [hv] at hlo
    have h : S2.Exact.toInt (⟨0x3ff115db17211a76⟩ : F64) = 0x1115db17211a76 * 2 ^ 1022 := by decide +kernel
    rw [val_of_toInt (j := 52) h (by norm_num)] at hlo
    unfold endSlack at hlo
    norm_num at hlo
  · rintro ⟨_, hhi⟩
    obtain ⟨v, p, b, _, _⟩ := maxEdge_instance_far
    have := (near_branch_iff _ v _ _ p b).mpr (by rw [cellB_eq]; exact hhi)
    rw [cellB_eq, maxEdge_instance_far_value.1] at this
    exact Bool.false_ne_true this

/-- a point at 90° − 2^-51 from the farthest corner of cell `151f000000000000`: (0.7272, −0.5813, −0.3651) -/
def aC : V3 := ⟨⟨0x3fe7450ef18fb5a7⟩, ⟨0xbfe29a0119ea8c97⟩, ⟨0xbfd75dd9ca08ef42⟩⟩

set_option maxRecDepth 100000 in
/-- **an instance INSIDE the right-angle class**: for the edge `aC → (1,0,0)` the code takes the near branch and returns
    `MaxDistance(aC)` = `3ffffffffffffffc` = 2 − 2^-50 (the value Go returns), which is within `endSlack` of 2 -/
theorem maxEdge_instance_class_value :
    F64.le (endMax cellB aC exA) F64.two = true ∧ endMax cellB aC exA = ⟨0x3ffffffffffffffc⟩ := by decide +kernel

theorem maxEdge_instance_class : UnitPt aC ∧ UnitPt exA ∧ RightAngleClass (cellFromCellID 0x151f000000000000) aC exA := by
  have h : UnitPtZ aC ∧ UnitPtZ exA := by decide +kernel
  refine ⟨unitPt_of_int h.1, unitPt_of_int h.2, ?_⟩
  rw [cellB_eq]
  unfold RightAngleClass
  rw [maxEdge_instance_class_value.2]
  have hi : S2.Exact.toInt (⟨0x3ffffffffffffffc⟩ : F64) = 0x1ffffffffffffc * 2 ^ 1022 := by decide +kernel
  rw [val_of_toInt (j := 52) hi (by norm_num)]
  unfold endSlack
  constructor <;> norm_num

/-- the class theorem applied: even there no point of the cell is farther from any point of the arc than `2 − 2^-50 + 2^-40` -/
example (q r : C17Err.R3) (hq : InCellXYZ (cellFromCellID 0x151f000000000000) (toAcc q)) (hr : OnArc (vecR aC) (vecR exA) r) :
    chordPQ q r ≤ val (⟨0x3ffffffffffffffc⟩ : F64) + 1 / 2 ^ 40 := by
  obtain ⟨ha, hb, _⟩ := maxEdge_instance_class
  have hn : F64.le (endMax (cellFromCellID 0x151f000000000000) aC exA) F64.two = true := by
    rw [cellB_eq]; exact maxEdge_instance_class_value.1
  obtain ⟨e, h⟩ := maxDistanceToEdge_upper_bound_near _ edge_instance.1 aC exA ha hb hn q r hq hr
  rw [e, cellB_eq, maxEdge_instance_class_value.2] at h
  exact h

/-! ### the other direction: the reported maximum is (nearly) attained -/

/-- **ATTAINED for `MaxDistance`** (point target, unit-length `p`): some point of the exact cell is at least
    `MaxDistance(p) − 2^-46` away from `p` (near branch: a corner of the cell; far branch: C12's `distance_attained` for `−p`).
    With `maxDistance_upper_bound`: `MaxDistance(p)` is within `2^-44 + 2^-49` of the true maximum of `|p − q|²`. -/
theorem maxDistance_attained (id : CellID) (hv : isValid id = true) (p : V3) (hp : UnitPt p) :
    ∃ q : S2Proofs.C16Acc.R3, InCellXYZ (cellFromCellID id) q ∧
      val (maxDistance (cellFromCellID id) p) ≤ dist2 (ofV p) q + 1 / 2 ^ 46 :=
  C12Dist2.maxDistance_attained id hv hp

/-- the proviso of the far branch: the crossing loop of `DistanceToEdge(−a, −b)` does not return (an endpoint distance is 0 or all
    four `ChainCrossingSign` answer `DoNotCross`) — inherited from `distanceToEdge_attained_partial` -/
def MaxEdgeAttainedProviso (c : Cell) (a b : V3) : Prop :=
  F64.le (endMax c a b) F64.two = true ∨
  F64.feq (minChord (distance c (negV a)) [distance c (negV b)]) fzero = true ∨
  anyCrossing (Crosser.initChain (negV a) (negV b) (vertex c 3)) (vertices c) = false

/-- the full "attained" statement -/
def MaxDistanceToEdgeAttainedClaim (err : ℝ) : Prop :=
  ∀ (id : CellID) (a b : V3), isValid id = true → UnitPt a → UnitPt b → EdgeOK a b → AntipodalVerticesOK (cellFromCellID id) a b →
    ∃ q r : C17Err.R3, InCellXYZ (cellFromCellID id) (toAcc q) ∧ OnArc (vecR a) (vecR b) r ∧
      val (maxDistanceToEdge (cellFromCellID id) a b) ≤ chordPQ q r + err

/-- **ATTAINED for `MaxDistanceToEdge`, partial**: some (cell point, arc point) pair is at least the reported value − 2^-44 apart —
    unconditionally in the near branch, under `MaxEdgeAttainedProviso` in the far branch.  Missing for
    `MaxDistanceToEdgeAttainedClaim`: the crossing-loop return of `DistanceToEdge(−a, −b)` (as for `DistanceToEdgeAttainedClaim`). -/
theorem maxDistanceToEdge_attained_partial (id : CellID) (hv : isValid id = true) (a b : V3)
    (ha : UnitPt a) (hb : UnitPt b) (hE : EdgeOK a b) (hV : AntipodalVerticesOK (cellFromCellID id) a b)
    (hcode : MaxEdgeAttainedProviso (cellFromCellID id) a b) :
    ∃ q r : C17Err.R3, InCellXYZ (cellFromCellID id) (toAcc q) ∧ OnArc (vecR a) (vecR b) r ∧
      val (maxDistanceToEdge (cellFromCellID id) a b) ≤ chordPQ q r + 1 / 2 ^ 44 :=
  C12Dist2.maxDistanceToEdge_attained_partial id hv a b ha hb hE (fun k hk => ⟨(hV k hk).1, (hV k hk).2⟩) hcode

/-- **two-sided**: under the proviso the reported value is within `2^-40` of the TRUE maximum of the squared chord over
    (exact cell) × (arc): it bounds every pair from above up to 2^-40 and some pair reaches it up to 2^-44 -/
theorem maxDistanceToEdge_within_partial (id : CellID) (hv : isValid id = true) (a b : V3)
    (ha : UnitPt a) (hb : UnitPt b) (hE : EdgeOK a b) (hV : AntipodalVerticesOK (cellFromCellID id) a b)
    (hcode : MaxEdgeAttainedProviso (cellFromCellID id) a b) :
    (∀ q r : C17Err.R3, InCellXYZ (cellFromCellID id) (toAcc q) → OnArc (vecR a) (vecR b) r →
      chordPQ q r ≤ val (maxDistanceToEdge (cellFromCellID id) a b) + 1 / 2 ^ 40) ∧
    (∃ q r : C17Err.R3, InCellXYZ (cellFromCellID id) (toAcc q) ∧ OnArc (vecR a) (vecR b) r ∧
      |val (maxDistanceToEdge (cellFromCellID id) a b) - chordPQ q r| ≤ 1 / 2 ^ 40) := by
  have hup := fun q r hq hr => (maxDistanceToEdge_upper_bound id hv a b ha hb hE hV q r hq hr).2
  refine ⟨hup, ?_⟩
  obtain ⟨q, r, hq, hr, h⟩ := maxDistanceToEdge_attained_partial id hv a b ha hb hE hV hcode
  refine ⟨q, r, hq, hr, ?_⟩
  have := hup q r hq hr
  have h44 : (1 : ℝ) / 2 ^ 44 ≤ 1 / 2 ^ 40 := by norm_num
  rw [abs_le]; constructor <;> linarith

/-- the proviso holds on both pinned instances (near branch resp. no crossing reported for the antipodal edge) -/
theorem maxEdge_instances_proviso :
    MaxEdgeAttainedProviso (cellFromCellID 0x151f000000000000) exP exB ∧
    MaxEdgeAttainedProviso (cellFromCellID 0x151f000000000000) (negV exP) (negV exB) := by
  rw [cellB_eq]
  refine ⟨Or.inl maxEdge_instance_near_value.1, Or.inr (Or.inr ?_)⟩
  rw [negneg_ex.1, negneg_ex.2]
  exact edge_instance_value.1

end maxedge

/-! ## (3) `MaxDistanceToCell` -/

section maxcell
open S2Proofs.C17Err S2Proofs.C17Err.R3 S2Proofs.C17Pairs S2Proofs.C17 S2Proofs.C08World S2Proofs.C12Dist2

/-- **EXACT: the antipode of an S2 cell is an S2 cell** — opposite face, transposed uv rectangle
    (`antipodalUV := r2.Rect{X: target.uv.Y, Y: target.uv.X}` on `oppositeFace(target.face)` in the code) -/
theorem antipodal_cell_is_cell {f : Nat} (hf : f < 6) (r : RRect) (ok : r.OK) (x : C17Err.R3) :
    InCell (transposeR r) (uvwR (oppFace f) (toAcc (negR x))) ↔ InCell r (uvwR f (toAcc x)) := by
  rw [← pt_iff_inCell (oppFace f) (transposeR r) (transposeR_ok ok), ← pt_iff_inCell f r ok]
  unfold Quad.Pt
  rw [cellQuad_opp_in hf, negQuad_in, negR_negR, negR_n2]

/-- **EXACT: antipode rule for two sets**: `d` bounds the squared chord between `S` and the antipode of `S'` from below iff
    `4 − d` bounds the squared chord between `S` and `S'` from above -/
theorem maxDistanceToCell_exact_antipode {S S' : C17Err.R3 → Prop} {d : ℝ} :
    (∀ q q', S q → S' q' → chordPQ q q' ≤ 4 - d) ↔ (∀ q q'', S q → S' (negR q'') → d ≤ chordPQ q q'') := by
  constructor
  · intro h q q'' hq hq''
    have := h q (negR q'') hq hq''
    rw [chordPQ_negR] at this
    linarith
  · intro h q q' hq hq'
    have := h q (negR q') hq (by rw [negR_negR]; exact hq')
    rw [chordPQ_negR] at this
    linarith

/-- **EXACT GEOMETRY of `MaxDistanceToCell`**: for two S2 cells that are NOT (opposite faces ∧ the rectangle meets the
    transposed rectangle) — exactly the cells for which the code does not return 4 — the 32 (corner, edge) pairs of the cell and
    the ANTIPODAL target are a complete candidate set: if `m` is below the squared chord from every corner of one to every point
    of every edge of the other, then every pair of points of the two cells is at most `4 − m` apart. -/
theorem maxDistanceToCell_exact_apart {f f' : Nat} (hf : f < 6) (hf' : f' < 6) {r r' : RRect} (ok : r.OK) (ok' : r'.OK)
    (hA : Apart f (oppFace f') r (transposeR r')) {m : ℝ} (hm4 : m ≤ 4)
    (hCT : ∀ k j P, OnArc ((cellQuad (oppFace f') (transposeR r')).w j) ((cellQuad (oppFace f') (transposeR r')).w (j + 1)) P →
      m ≤ chordPQ (dirR ((cellQuad f r).w k)) P)
    (hTC : ∀ j k P, OnArc ((cellQuad f r).w k) ((cellQuad f r).w (k + 1)) P →
      m ≤ chordPQ (dirR ((cellQuad (oppFace f') (transposeR r')).w j)) P)
    {q q' : C17Err.R3} (hq : InCell r (uvwR f (toAcc q))) (hq' : InCell r' (uvwR f' (toAcc q'))) :
    chordPQ q q' ≤ 4 - m := by
  have hq'' : InCell (transposeR r') (uvwR (oppFace f') (toAcc (negR q'))) := (antipodal_cell_is_cell hf' r' ok' q').mpr hq'
  have := cellCell_exact_apart hf (oppFace_lt hf') ok (transposeR_ok ok') hA hm4 hCT hTC hq hq''
  rw [chordPQ_negR] at this
  linarith

/-- the early return of the code is right: opposite faces and intersecting (transposed) rectangles ⇒ some point of the cell is
    ANTIPODAL to a point of the target: the maximum 4 is attained -/
theorem maxDistanceToCell_four_case {f f' : Nat} (hf' : f' < 6) {r r' : RRect} (ok : r.OK) (ok' : r'.OK)
    (h : ¬ Apart f (oppFace f') r (transposeR r')) :
    ∃ q q' : C17Err.R3, InCell r (uvwR f (toAcc q)) ∧ InCell r' (uvwR f' (toAcc q')) ∧ chordPQ q q' = 4 := by
  obtain ⟨q, q'', hq, hq'', e⟩ := not_apart_dist_zero ok (transposeR_ok ok') h
  refine ⟨q, negR q'', hq, ?_, ?_⟩
  · rw [← antipodal_cell_is_cell hf' r' ok', negR_negR]; exact hq''
  · rw [chordPQ_negR, e]; norm_num

/-- the c17err domain of the 32 calls: for each call `UpdateMaxDistance(x, e0, e1, ·)` the points are unit, the edge is `EdgeOK`
    and `−x` keeps the margin of the wedge test of `UpdateMinDistance(−x, e0, e1)`.  NO right-angle-class condition. -/
def MaxCallsOK (c t : Cell) : Prop := ∀ u ∈ pairCalls (vertices c) (vertices t), AntiCallOK u.1 u.2.1 u.2.2

/-- **UPPER BOUND of `MaxDistanceToCell`** — every branch, no class excluded.  For two valid cells whose 32 (vertex, edge)
    calls are in the domain of c17err: the reported value is a finite float and NO pair of points of the two exact cells is
    farther apart than the reported value + 2^-45 (squared chord).  Budget: one call 205u (c17pairs; inside the one-ulp
    right-angle class 200u + 2^-51), float vertices within 2u / float edges within 8u of the exact ones. -/
theorem maxDistanceToCell_upper_bound (id id' : CellID) (hv : isValid id = true) (hv' : isValid id' = true)
    (hcalls : MaxCallsOK (cellFromCellID id) (cellFromCellID id'))
    (q q' : C17Err.R3) (hq : InCellXYZ (cellFromCellID id) (toAcc q)) (hq' : InCellXYZ (cellFromCellID id') (toAcc q')) :
    Fin (maxDistanceToCell (cellFromCellID id) (cellFromCellID id')) ∧
    chordPQ q q' ≤ val (maxDistanceToCell (cellFromCellID id) (cellFromCellID id')) + 1 / 2 ^ 45 :=
  maxDistanceToCell_upper_noclass id id' hv hv' hcalls hq hq'

def MaxDistanceToCellUpperBoundReal (err : ℝ) : Prop :=
  ∀ (id id' : CellID), isValid id = true → isValid id' = true → MaxCallsOK (cellFromCellID id) (cellFromCellID id') →
    ∀ q q' : C17Err.R3, InCellXYZ (cellFromCellID id) (toAcc q) → InCellXYZ (cellFromCellID id') (toAcc q') →
      Fin (maxDistanceToCell (cellFromCellID id) (cellFromCellID id')) ∧
      chordPQ q q' ≤ val (maxDistanceToCell (cellFromCellID id) (cellFromCellID id')) + err

theorem maxDistanceToCellUpperBound_holds : MaxDistanceToCellUpperBoundReal (1 / 2 ^ 45) :=
  fun id id' hv hv' hc q q' hq hq' => maxDistanceToCell_upper_bound id id' hv hv' hc q q' hq hq'

/-- **ATTAINED for `MaxDistanceToCell`**: some pair of points of the two exact cells realises the reported value within `2^-45`
    (all branches: for the early `return 4` an exactly antipodal pair exists; in the loop the result is one of the 32 candidates,
    each at most 205u above the true maximum of its (float vertex, float edge) pair) — so `MaxDistanceToCell` is within `2^-45`
    of the TRUE maximum of the squared chord over the two exact cells.  No class condition. -/
theorem maxDistanceToCell_attained (id id' : CellID) (hv : isValid id = true) (hv' : isValid id' = true)
    (hcalls : MaxCallsOK (cellFromCellID id) (cellFromCellID id')) :
    ∃ q q' : C17Err.R3, InCellXYZ (cellFromCellID id) (toAcc q) ∧ InCellXYZ (cellFromCellID id') (toAcc q') ∧
      |val (maxDistanceToCell (cellFromCellID id) (cellFromCellID id')) - chordPQ q q'| ≤ 1 / 2 ^ 45 := by
  obtain ⟨q, q', hq, hq', hle⟩ := C12Dist2.maxDistanceToCell_attained id id' hv hv' hcalls
  have hup := (maxDistanceToCell_upper_bound id id' hv hv' hcalls q q' hq hq').2
  refine ⟨q, q', hq, hq', ?_⟩
  have : maxCallErr + 2 * (2 * uR) + 2 * (8 * uR) ≤ 1 / 2 ^ 45 := by unfold maxCallErr uR; norm_num
  rw [abs_le]
  constructor <;> linarith

/-- the float early-return test is exact in both directions: taken ⇒ the exact cell meets the exact antipodal target -/
theorem maxDistanceToCell_early_exact (id id' : CellID) (hv : isValid id = true) (hv' : isValid id' = true)
    (h : ¬ NotEarlyMax (cellFromCellID id) (cellFromCellID id')) :
    ¬ Apart (cellFromCellID id).face (oppFace (cellFromCellID id').face) (rectOf (cellFromCellID id))
      (transposeR (rectOf (cellFromCellID id'))) := not_apartMax_of_early id id' hv hv' h

/-- **how the right-angle class of `UpdateMaxDistance` is handled** (one call): for an edge of angle ≤ 120°
    (`EdgeShort a b := −|a||b|/2 ≤ a·b`) the candidate of `UpdateMaxDistance(x, a, b, ·)` is finite and not below the TRUE
    maximum of the squared chord between the direction of `x` and the arc, minus 205u — whether or not the 90° branch was
    taken, whether or not the true endpoint maximum exceeds 2. -/
theorem updateMaxDistance_short_edge {x a b : V3} (hx : UnitPt x) (ha : UnitPt a) (hb : UnitPt b) (hE : EdgeOK a b)
    (hM : WedgeMargin (negV x) a b) (hs : EdgeShort a b) :
    Fin (maxCandidate x a b) ∧ trueMaxDist2 x a b ≤ val (maxCandidate x a b) + 205 * uR := by
  have h := maxCall_upper_short hx ha hb hE hM hs
  exact ⟨h.fin, h.up⟩

/-- every float edge of a valid cell is short: consecutive float vertices have cosine ≥ −1/2 (in fact ≥ −4u) -/
theorem cell_edges_short (id : CellID) (hv : isValid id = true) (k : Fin 4) :
    EdgeShort (vertex (cellFromCellID id) k.val) (vertex (cellFromCellID id) ((k.val + 1) % 4)) :=
  cell_edge_short id hv k

/-- the float early-return test decides the exact geometry: in the loop branch the cell and the antipodal target are apart -/
theorem maxDistanceToCell_loop_apart (id id' : CellID) (hv : isValid id = true) (hv' : isValid id' = true)
    (h : NotEarlyMax (cellFromCellID id) (cellFromCellID id')) :
    Apart (cellFromCellID id).face (oppFace (cellFromCellID id').face) (rectOf (cellFromCellID id))
      (transposeR (rectOf (cellFromCellID id'))) := apartMax_of_notEarly id id' hv hv' h

/-- `MaxDistanceToCell` is a number (not NaN) on the domain -/
theorem maxDistanceToCell_not_nan (id id' : CellID) (hv : isValid id = true) (hv' : isValid id' = true)
    (hcalls : MaxCallsOK (cellFromCellID id) (cellFromCellID id')) :
    (maxDistanceToCell (cellFromCellID id) (cellFromCellID id')).isNaN = false :=
  isNaN_false (maxDistanceToCell_upper_bound id id' hv hv' hcalls _ _
    (C12Dist2.corner_inCell id hv 0) (C12Dist2.corner_inCell id' hv' 0)).1

/-! ### non-vacuity -/

/-- every hypothesis of `maxDistanceToCell_upper_bound` holds for the cells `151f000000000000` (face 0) and
    `3010000000000000` (face 1): all 32 calls satisfy even c17pairs' `MaxCallOK` -/
theorem maxCell_instance : isValid (0x151f000000000000 : CellID) = true ∧ isValid (0x3010000000000000 : CellID) = true ∧
    MaxCallsOK (cellFromCellID 0x151f000000000000) (cellFromCellID 0x3010000000000000) := by
  have h : isValid (0x151f000000000000 : CellID) = true ∧ isValid (0x3010000000000000 : CellID) = true ∧
      (pairCalls [vB0, vB1, vB2, vB3] [vD0, vD1, vD2, vD3]).all (fun t =>
        decide (MaxCallOKZ t.1 t.2.1 t.2.2)) = true := by
    decide +kernel
  obtain ⟨v, v', hall⟩ := h
  refine ⟨v, v', ?_⟩
  rw [cellB_eq, cellD_eq]
  obtain ⟨b0, b1, b2, b3⟩ := vB_eq
  obtain ⟨d0, d1, d2, d3⟩ := vD_eq
  have hvs : vertices cellB = [vB0, vB1, vB2, vB3] := by unfold vertices; rw [b0, b1, b2, b3]
  have hvd : vertices cellD = [vD0, vD1, vD2, vD3] := by unfold vertices; rw [d0, d1, d2, d3]
  unfold MaxCallsOK
  rw [hvs, hvd]
  intro t ht
  have := List.all_eq_true.mp hall t ht
  exact AntiCallOK.of_maxCallOK (maxCallOK_of_int (of_decide_eq_true this))

set_option maxRecDepth 100000 in
/-- the value the model (and Go) returns for that pair: `3ff30e8c9c8a4591` (≈ 1.1911) -/
theorem maxCell_instance_value : maxDistanceToCell cellB cellD = ⟨0x3ff30e8c9c8a4591⟩ := by decide +kernel

example (q q' : C17Err.R3) (hq : InCellXYZ (cellFromCellID 0x151f000000000000) (toAcc q))
    (hq' : InCellXYZ (cellFromCellID 0x3010000000000000) (toAcc q')) :
    chordPQ q q' ≤ val (⟨0x3ff30e8c9c8a4591⟩ : F64) + 1 / 2 ^ 45 := by
  obtain ⟨v, v', hc⟩ := maxCell_instance
  have h := (maxDistanceToCell_upper_bound _ _ v v' hc q q' hq hq').2
  rw [cellB_eq, cellD_eq, maxCell_instance_value] at h
  exact h

example : ∃ q q' : C17Err.R3, InCellXYZ (cellFromCellID 0x151f000000000000) (toAcc q) ∧
    InCellXYZ (cellFromCellID 0x3010000000000000) (toAcc q') ∧ |val (⟨0x3ff30e8c9c8a4591⟩ : F64) - chordPQ q q'| ≤ 1 / 2 ^ 45 := by
  obtain ⟨v, v', hc⟩ := maxCell_instance
  have h := maxDistanceToCell_attained _ _ v v' hc
  rw [cellB_eq, cellD_eq, maxCell_instance_value] at h
  rw [cellB_eq, cellD_eq]
  exact h

/-- the hypotheses of the exact early-return lemma are satisfiable: face 0, the full face square, against face 3 -/
example : ¬ Apart 0 (oppFace 3) ⟨-1, 1, -1, 1⟩ (transposeR ⟨-1, 1, -1, 1⟩) := by
  unfold Apart oppFace transposeR
  simp only [not_not]
  norm_num

end maxcell

end S2Proofs.C12
