/-
  Property C02 (error constant of `triageSignDotProd`, `3.046875·dblEpsilon`) — by-product of the float
  error analysis of `triageSign` (`C02_TriageError.lean`): the hypothesis `hbound` (and the side conditions
  on `F64.abs`) of `C02.triageSignDotProd_given_error_bound` are DISCHARGED for all finite float vectors
  with exact squared norms ≤ 2 + 2^-6 (the code's contract: "vectors ≤ √2 in length").

      |fl(a·b) − a·b| ≤ 6.04688·2^-53 < 6.09·2^-53 ≤ 3.046875·dblEpsilon.

  No assumption left (`StdModel` is proved in `FloatErr/Ops.lean`).
-/
import S2Proofs.FloatErr.DotProd
import S2Proofs.Properties.C02

namespace S2Proofs.C02DotErr
open S2 S2.Exact S2.Pred S2Proofs.F64Order S2Proofs.PredLemmas S2Proofs.FloatErr

/-- **Rigorous absolute error bound of the float dot product** (squared norms ≤ 2 + 2^-6):
    the result is finite and within `6.04688·2^-53` of the exact dot product. -/
theorem dot_error_bound (a b : V3) (ha : NormLe2 a) (hb : NormLe2 b) :
    Fin (a.dot b) ∧
    |val (a.dot b) - ((ofV3 a).dot (ofV3 b) : ℝ) / (2 ^ 1074) ^ 2| ≤ 604688 / 100000 * uR := by
  obtain ⟨h1, h2⟩ := float_dot_error stdModel a b ha hb
  refine ⟨h1, ?_⟩
  rw [dot_val] at h2
  have e : ((ofV3 a).dot (ofV3 b) : ℝ) / (2 ^ 1074) ^ 2
      = ((ofV3 a).dot (ofV3 b) : ℝ) * (1 / 2 ^ 1074) ^ 2 := by
    rw [one_div, inv_pow]; rfl
  rw [e]
  exact le_trans h2 kDot_le

/-- the integer-scaled hypothesis `hbound` of `C02.triageSignDotProd_given_error_bound` holds -/
theorem dot_hbound (a b : V3) (ha : NormLe2 a) (hb : NormLe2 b) :
    |toInt (a.dot b) * (scale : ℤ) - (ofV3 a).dot (ofV3 b)| ≤ toInt sdpMaxError * (scale : ℤ) := by
  obtain ⟨_, h2⟩ := float_dot_error stdModel a b ha hb
  rw [dot_val] at h2
  have hK : kDot ≤ val sdpMaxError :=
    le_trans kDot_le (le_trans (by have := uR_nonneg; nlinarith) sdp_ge)
  have h3 := le_trans h2 hK
  unfold val at h3
  have hX : (0 : ℝ) < 2 ^ 1074 := by positivity
  generalize hXe : (2 : ℝ) ^ 1074 = X at h3 hX
  have hreal : |(toInt (a.dot b) : ℝ) * X - ((ofV3 a).dot (ofV3 b) : ℝ)| ≤ (toInt sdpMaxError : ℝ) * X := by
    have e1 : (toInt (a.dot b) : ℝ) * X - ((ofV3 a).dot (ofV3 b) : ℝ)
        = X ^ 2 * ((toInt (a.dot b) : ℝ) / X - ((ofV3 a).dot (ofV3 b) : ℝ) * (1 / X) ^ 2) := by
      field_simp
    rw [e1, abs_mul, abs_of_pos (by positivity : (0 : ℝ) < X ^ 2)]
    have := mul_le_mul_of_nonneg_left h3 (by positivity : (0 : ℝ) ≤ X ^ 2)
    have e2 : X ^ 2 * ((toInt sdpMaxError : ℝ) / X) = (toInt sdpMaxError : ℝ) * X := by
      field_simp
    linarith
  have hsc : ((scale : ℕ) : ℝ) = X := by
    rw [← hXe]; unfold scale; push_cast; rfl
  have : ((|toInt (a.dot b) * (scale : ℤ) - (ofV3 a).dot (ofV3 b)| : ℤ) : ℝ)
      ≤ ((toInt sdpMaxError * (scale : ℤ) : ℤ) : ℝ) := by
    rw [Int.cast_abs]
    push_cast
    rw [hsc]
    exact hreal
  exact_mod_cast this

/-- **C02, `triageSignDotProd` is sound**: it returns 0 or the sign of the exact dot product, for ALL finite
    float vectors with squared norms ≤ 2 + 2^-6.  Unconditional. -/
theorem triageSignDotProd_sound (a b : V3) (ha : NormLe2 a) (hb : NormLe2 b) :
    triageSignDotProd a b = 0 ∨ triageSignDotProd a b = dotSign a b := by
  obtain ⟨hfin, _⟩ := float_dot_error stdModel a b ha hb
  obtain ⟨habs, habsv⟩ := abs_spec (a.dot b) hfin
  exact S2Proofs.C02.triageSignDotProd_given_error_bound a b hfin habs habsv (dot_hbound a b ha hb)

/-- hence `SignDotProd` is the exact sign of the dot product on such vectors. -/
theorem signDotProd_exact (a b : V3) (ha : NormLe2 a) (hb : NormLe2 b) :
    signDotProd a b = dotSign a b := by
  unfold signDotProd signDotProdS
  rcases triageSignDotProd_sound a b ha hb with h | h
  · simp [h]
  · by_cases h0 : triageSignDotProd a b = 0
    · simp [h0]
    · rw [h] at h0
      simp [h, h0]

/-! non-vacuity: a unit vector and an un-normalised edge normal of length ≈ √2 whose dot product is ≈ 1e-15
    (triage answers +1) resp. exactly representable and tiny (triage answers 0, exact sign +1) -/

def exP : V3 := ⟨⟨0x3FE3333333333333⟩, ⟨0x3FE999999999999A⟩, ⟨0x3CD203AF9EE75616⟩⟩   -- (0.6, 0.8, 1e-15)
def exN : V3 := ⟨⟨0x3FE999999999999A⟩, ⟨0xBFE3333333333333⟩, F64.one⟩                 -- (0.8, -0.6, 1)
def exM : V3 := ⟨⟨0x3FE999999999999A⟩, ⟨0xBFE3333333333333⟩, ⟨0x3C90000000000000⟩⟩   -- (0.8, -0.6, 2^-54)

example : NormLe2 exP ∧ NormLe2 exN ∧ triageSignDotProd exP exN = 1 ∧ dotSign exP exN = 1 := by decide +kernel
example : NormLe2 exP ∧ NormLe2 exM ∧ triageSignDotProd exP exM = 0 ∧ dotSign exP exM = 1 ∧
    signDotProd exP exM = 1 := by decide +kernel

end S2Proofs.C02DotErr
