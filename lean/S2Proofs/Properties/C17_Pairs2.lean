/-
  Property C17 — the float side of the EDGE-PAIR distances, finished (package c17pairs2; continues `C17_Pairs.lean`,
  `C17_PairsFloat.lean`).  Model: `S2.EdgeNum.updateEdgePairMinDistance / updateEdgePairMaxDistance / edgePairClosestPoints`.

  Domain of one point-to-edge call: `CallOK x a b` = `UnitPt x a b ∧ EdgeOK a b ∧ WedgeMargin x a b` (c17err).  The four calls of an
  edge pair: (a0; b0 b1), (a1; b0 b1), (b0; a0 a1), (b1; a0 a1).
     `pairLow`   = max over the calls of max(allowedError, MaxPointError(vertex value))          (c17pairs)
     `pairSlack` = max(pairLow, pairHigh, 40u): 40u = the slack of the exit `xDotC2 > c2·minDist` of `interiorDist` (c08world)

  (1) unitPt_unitish            c17err's domain is inside C02's domain: the crossing theorems need no separate `Unitish` hypothesis
      edgePairMin_crossing'     `edgePairMin_crossing` on `UnitPt`
  (2) edgePairMin_within        CrossingSign ≠ Cross, finite threshold m ≥ 0, m ≠ 0, NO hypothesis on the exits:
                                R finite, 0 ≤ R ≤ m, |R − min(m, truePairDist2)| ≤ pairSlack
      edgePairMin_inf           threshold +Inf (the usual distance call): R finite, flag = true, |R − truePairDist2| ≤ pairSlack
  (3) noncrossing_truePairDist2 CrossingSign ≠ Cross ⇒ truePairDist2 = pairMin4 — also when the arcs MEET
      edgePairMin_touching      arcs that meet while CrossingSign ≠ Cross: the direction of an endpoint lies on the other arc,
                                the true distance is 0 and 0 ≤ R ≤ pairSlack
      arcsMeet_dichotomy        arcs with a common point: proper crossing (four non-zero determinants) or an endpoint on the other arc
  (4), (5): sections below.
-/
import S2Proofs.C17Pairs.TouchLink
import S2Proofs.C17Pairs.MaxPair
import S2Proofs.C17Pairs.CrossWeak
import S2Proofs.C17Pairs.Closest
import S2Proofs.C17Pairs.ProjFinal
import S2Proofs.C17Pairs.SlackNum
import S2Proofs.C17Pairs.ProjMargin
import S2Proofs.C17Pairs.CrossClosest
import S2Proofs.Properties.C17_PairsFloat

set_option linter.unusedSimpArgs false
set_option linter.unusedVariables false

namespace S2Proofs.C17
open S2 S2.Exact S2.EdgeNum S2Proofs.F64Order S2Proofs.EdgeNumLemmas S2Proofs.FloatErr S2Proofs.C17Err S2Proofs.C17Pairs

/-! ## (1) the bridge -/

/-- **`UnitPt → Unitish`**: every point of c17err's domain (norm within `2^-52 − 2^-80` of 1) is unit-ish in the sense of
    C02/C03 (squared norm within `2^-16` of 1), so `RobustSign` is the exact sign there. -/
theorem unitPt_unitish (p : V3) (h : UnitPt p) : S2Proofs.C02Err.Unitish p := unitish_of_unitPt h

/-- `edgePairMin_crossing` on c17err's domain -/
theorem edgePairMin_crossing' (a0 a1 b0 b1 : V3) (m : F64)
    (ha0 : UnitPt a0) (ha1 : UnitPt a1) (hb0 : UnitPt b0) (hb1 : UnitPt b1)
    (hg : GenericPair a0 a1 b0 b1) (hz : F64.feq m fz = false) (hc : crosses a0 a1 b0 b1 = true) :
    updateEdgePairMinDistance a0 a1 b0 b1 m = (fz, true) ∧ fval fz = 0 ∧ truePairDist2 a0 a1 b0 b1 = 0 :=
  edgePairMin_crossing a0 a1 b0 b1 m (unitish_of_unitPt ha0) (unitish_of_unitPt ha1) (unitish_of_unitPt hb0)
    (unitish_of_unitPt hb1) hg hz hc

/-! ## (3) `CrossingSign ≠ Cross` : the exact distance is the least endpoint-to-arc distance -/

/-- **arcs with a common point** cross properly (four-determinant pattern) or the direction of an endpoint of one lies on
    the other (pure geometry, any non-zero vectors) -/
theorem arcsMeet_dichotomy (a0 a1 b0 b1 : V3) (ha0 : UnitPt a0) (ha1 : UnitPt a1) (hb0 : UnitPt b0) (hb1 : UnitPt b1)
    (hm : ArcsMeet a0 a1 b0 b1) : ProperCross a0 a1 b0 b1 ∨ EndpointOnOther a0 a1 b0 b1 :=
  meet_cases (a0 := vecR a0) (a1 := vecR a1) (b0 := vecR b0) (b1 := vecR b1)
    ha0.len_pos ha1.len_pos hb0.len_pos hb1.len_pos hm

/-- the proper-crossing pattern makes the float `CrossingSign` answer `Cross` (converse of `crosses_proper`) -/
theorem properCross_crosses (a0 a1 b0 b1 : V3) (ha0 : UnitPt a0) (ha1 : UnitPt a1) (hb0 : UnitPt b0) (hb1 : UnitPt b1)
    (h : ProperCross a0 a1 b0 b1) : crosses a0 a1 b0 b1 = true :=
  proper_crosses (unitish_of_unitPt ha0) (unitish_of_unitPt ha1) (unitish_of_unitPt hb0) (unitish_of_unitPt hb1)
    (properCrossZ_of_real h)

/-- **`CrossingSign ≠ Cross` ⇒ the exact edge-pair distance is `pairMin4`**, whether or not the arcs meet -/
theorem noncrossing_truePairDist2 (a0 a1 b0 b1 : V3) (ha0 : UnitPt a0) (ha1 : UnitPt a1) (hb0 : UnitPt b0) (hb1 : UnitPt b1)
    (hc : crosses a0 a1 b0 b1 = false) : truePairDist2 a0 a1 b0 b1 = pairMin4 a0 a1 b0 b1 :=
  noncrossing_true_eq ha0 ha1 hb0 hb1 hc

/-! ## (2) the chain of four with every exit, finite threshold and `+Inf` -/

/-- the slack of the edge-pair minimum: `max(pairLow, pairHigh, 40u)` -/
noncomputable def pairSlack (a0 a1 b0 b1 : V3) : ℝ :=
  max (pairLow a0 a1 b0 b1) (max (pairHigh a0 a1 b0 b1) (40 * uR))

theorem pairSlack_facts (a0 a1 b0 b1 : V3) :
    pairLow a0 a1 b0 b1 ≤ pairSlack a0 a1 b0 b1 ∧ pairHigh2 a0 a1 b0 b1 ≤ pairSlack a0 a1 b0 b1 ∧
    0 < pairSlack a0 a1 b0 b1 := by
  refine ⟨le_max_left _ _, ?_, ?_⟩
  · rw [pairHigh2_eq]; exact le_max_right _ _
  · have : (0 : ℝ) < 40 * uR := by unfold uR; norm_num
    exact lt_of_lt_of_le this (le_trans (le_max_right _ _) (le_max_right _ _))

/-- the full two-sided statement (all inputs of the domain, every exit of `interiorDist`) -/
def EdgePairMinWithin : Prop :=
  ∀ a0 a1 b0 b1 m, CallOK a0 b0 b1 → CallOK a1 b0 b1 → CallOK b0 a0 a1 → CallOK b1 a0 a1 → F64Order.Fin m → 0 ≤ fval m →
    F64.feq m fz = false → crosses a0 a1 b0 b1 = false →
    |fval (updateEdgePairMinDistance a0 a1 b0 b1 m).1 - min (fval m) (truePairDist2 a0 a1 b0 b1)| ≤ pairSlack a0 a1 b0 b1

/-- **NON-CROSSING EDGES, finite threshold, NO hypothesis on the exits** (the early exit `xDotC2 > c2·minDist` included):
    the result is finite, in `[0, m]`, and within `pairSlack` of `min(m, exact distance)`. -/
theorem edgePairMin_within (a0 a1 b0 b1 : V3) (m : F64)
    (h1 : CallOK a0 b0 b1) (h2 : CallOK a1 b0 b1) (h3 : CallOK b0 a0 a1) (h4 : CallOK b1 a0 a1)
    (hm : F64Order.Fin m) (h0 : 0 ≤ fval m) (hz : F64.feq m fz = false) (hc : crosses a0 a1 b0 b1 = false) :
    F64Order.Fin (updateEdgePairMinDistance a0 a1 b0 b1 m).1 ∧
    0 ≤ fval (updateEdgePairMinDistance a0 a1 b0 b1 m).1 ∧
    fval (updateEdgePairMinDistance a0 a1 b0 b1 m).1 ≤ fval m ∧
    |fval (updateEdgePairMinDistance a0 a1 b0 b1 m).1 - min (fval m) (truePairDist2 a0 a1 b0 b1)|
      ≤ pairSlack a0 a1 b0 b1 := by
  rw [noncrossing_truePairDist2 a0 a1 b0 b1 h1.hx h2.hx h3.hx h4.hx hc]
  rw [fval_eq_val] at h0
  rw [fval_eq_val, fval_eq_val]
  obtain ⟨f, n, u, l, g⟩ := chain_fin h1 h2 h3 h4 hm h0 hz hc
  obtain ⟨sL, sH, s0⟩ := pairSlack_facts a0 a1 b0 b1
  refine ⟨f, n, u, ?_⟩
  rw [abs_le]
  constructor
  · rcases min_le_iff.mp l with q | q
    · have := min_le_left (val m) (pairMin4 a0 a1 b0 b1); linarith
    · have := min_le_right (val m) (pairMin4 a0 a1 b0 b1); linarith
  · rcases le_total (val m) (pairMin4 a0 a1 b0 b1) with q | q
    · rw [min_eq_left q]; linarith
    · rw [min_eq_right q]; linarith

theorem edgePairMinWithin_holds : EdgePairMinWithin :=
  fun a0 a1 b0 b1 m h1 h2 h3 h4 hm h0 hz hc => (edgePairMin_within a0 a1 b0 b1 m h1 h2 h3 h4 hm h0 hz hc).2.2.2

/-- **threshold `+Inf`** (`minDist = InfChordAngle()`, the usual "compute the distance" call): the result is finite, the
    flag is set, and the result is within `pairSlack` of the exact distance. -/
theorem edgePairMin_inf (a0 a1 b0 b1 : V3)
    (h1 : CallOK a0 b0 b1) (h2 : CallOK a1 b0 b1) (h3 : CallOK b0 a0 a1) (h4 : CallOK b1 a0 a1)
    (hc : crosses a0 a1 b0 b1 = false) :
    F64Order.Fin (updateEdgePairMinDistance a0 a1 b0 b1 fInf).1 ∧
    0 ≤ fval (updateEdgePairMinDistance a0 a1 b0 b1 fInf).1 ∧
    (updateEdgePairMinDistance a0 a1 b0 b1 fInf).2 = true ∧
    |fval (updateEdgePairMinDistance a0 a1 b0 b1 fInf).1 - truePairDist2 a0 a1 b0 b1| ≤ pairSlack a0 a1 b0 b1 := by
  rw [noncrossing_truePairDist2 a0 a1 b0 b1 h1.hx h2.hx h3.hx h4.hx hc]
  rw [fval_eq_val]
  obtain ⟨f, n, fl, l, g⟩ := chain_inf h1 h2 h3 h4 hc
  obtain ⟨sL, sH, s0⟩ := pairSlack_facts a0 a1 b0 b1
  refine ⟨f, n, fl, ?_⟩
  rw [abs_le]
  constructor <;> (unfold fInf; linarith)

/-- **TOUCHING ARCS**: the arcs have a common point although `CrossingSign ≠ Cross`.  Then the direction of an endpoint lies
    on the other arc, the exact distance is 0, and the computed distance is within `pairSlack` of 0. -/
theorem edgePairMin_touching (a0 a1 b0 b1 : V3)
    (h1 : CallOK a0 b0 b1) (h2 : CallOK a1 b0 b1) (h3 : CallOK b0 a0 a1) (h4 : CallOK b1 a0 a1)
    (hc : crosses a0 a1 b0 b1 = false) (hmeet : ArcsMeet a0 a1 b0 b1) :
    EndpointOnOther a0 a1 b0 b1 ∧ truePairDist2 a0 a1 b0 b1 = 0 ∧ pairMin4 a0 a1 b0 b1 = 0 ∧
    0 ≤ fval (updateEdgePairMinDistance a0 a1 b0 b1 fInf).1 ∧
    fval (updateEdgePairMinDistance a0 a1 b0 b1 fInf).1 ≤ pairSlack a0 a1 b0 b1 := by
  obtain ⟨hE, hz⟩ := touching_of_not_crosses h1.hx h2.hx h3.hx h4.hx hc hmeet
  have ht : truePairDist2 a0 a1 b0 b1 = 0 := by unfold truePairDist2; rw [if_pos hmeet]
  obtain ⟨_, n, _, e⟩ := edgePairMin_inf a0 a1 b0 b1 h1 h2 h3 h4 hc
  rw [ht, sub_zero] at e
  exact ⟨hE, ht, hz, n, le_trans (le_abs_self _) e⟩

/-! ### non-vacuity of (2), (3) -/

/-- the pair (A–B, X–Y) with the threshold 4: the fourth call leaves through the early exit (`noEarlyExit = false`, so
    `edgePairMin_within_partial` does not apply), every hypothesis of `edgePairMin_within` holds -/
example : noEarlyExit exA exB exX exY f4 = false ∧
    |fval (updateEdgePairMinDistance exA exB exX exY f4).1 - min (fval f4) (truePairDist2 exA exB exX exY)|
      ≤ pairSlack exA exB exX exY := by
  have h : UnitPtZ exA ∧ UnitPtZ exB ∧ UnitPtZ exX ∧ UnitPtZ exY ∧ EdgeOKZ exA exB ∧ EdgeOKZ exX exY ∧
      WedgeMarginZ exA exX exY ∧ WedgeMarginZ exB exX exY ∧ WedgeMarginZ exX exA exB ∧ WedgeMarginZ exY exA exB ∧
      F64Order.Fin f4 ∧ F64.feq f4 fz = false ∧ crosses exA exB exX exY = false ∧
      noEarlyExit exA exB exX exY f4 = false := by
    decide +kernel
  obtain ⟨a, b, x, y, eab, exy, m1, m2, m3, m4, f, z, c, n⟩ := h
  refine ⟨n, (edgePairMin_within exA exB exX exY f4 (callOK_of_int a x y exy m1) (callOK_of_int b x y exy m2)
    (callOK_of_int x a b eab m3) (callOK_of_int y a b eab m4) f ?_ z c).2.2.2⟩
  rw [fval_eq_val, f4_facts.2]; norm_num

/-- the same pair with the threshold `+Inf` -/
example : |fval (updateEdgePairMinDistance exA exB exX exY fInf).1 - truePairDist2 exA exB exX exY|
      ≤ pairSlack exA exB exX exY := by
  have h : UnitPtZ exA ∧ UnitPtZ exB ∧ UnitPtZ exX ∧ UnitPtZ exY ∧ EdgeOKZ exA exB ∧ EdgeOKZ exX exY ∧
      WedgeMarginZ exA exX exY ∧ WedgeMarginZ exB exX exY ∧ WedgeMarginZ exX exA exB ∧ WedgeMarginZ exY exA exB ∧
      crosses exA exB exX exY = false := by
    decide +kernel
  obtain ⟨a, b, x, y, eab, exy, m1, m2, m3, m4, c⟩ := h
  exact (edgePairMin_inf exA exB exX exY (callOK_of_int a x y exy m1) (callOK_of_int b x y exy m2)
    (callOK_of_int x a b eab m3) (callOK_of_int y a b eab m4) c).2.2.2

/-- touching sample: T = (0.6, 0.8, 0) lies on the arc A–B; the edge T–Xn, Xn = (2/3, 2/3, −1/3), touches A–B at T
    and `CrossingSign(A,B,T,Xn) ≠ Cross` (decided by the symbolic perturbation) -/
def exT : V3 := ⟨⟨0x3FE3333333333333⟩, ⟨0x3FE999999999999A⟩, fz⟩
def exXn : V3 := ⟨⟨0x3FE5555555555555⟩, ⟨0x3FE5555555555555⟩, ⟨0xBFD5555555555555⟩⟩

/-- every hypothesis of `edgePairMin_touching` holds for (A–B, T–Xn), hence its conclusion -/
example : EndpointOnOther exA exB exT exXn ∧ truePairDist2 exA exB exT exXn = 0 ∧ pairMin4 exA exB exT exXn = 0 ∧
    0 ≤ fval (updateEdgePairMinDistance exA exB exT exXn fInf).1 ∧
    fval (updateEdgePairMinDistance exA exB exT exXn fInf).1 ≤ pairSlack exA exB exT exXn := by
  have h : UnitPtZ exA ∧ UnitPtZ exB ∧ UnitPtZ exT ∧ UnitPtZ exXn ∧ EdgeOKZ exA exB ∧ EdgeOKZ exT exXn ∧
      WedgeMarginZ exA exT exXn ∧ WedgeMarginZ exB exT exXn ∧ WedgeMarginZ exT exA exB ∧ WedgeMarginZ exXn exA exB ∧
      crosses exA exB exT exXn = false ∧ OnArcZ exT exA exB := by
    decide +kernel
  obtain ⟨a, b, t, x, eab, etx, m1, m2, m3, m4, c, on⟩ := h
  have ht := unitPt_of_int t
  have hmeet : ArcsMeet exA exB exT exXn :=
    ⟨_, onArc_of_int ht.len_pos on, onArc_left exT exXn ht.len_pos⟩
  exact edgePairMin_touching exA exB exT exXn (callOK_of_int a t x etx m1) (callOK_of_int b t x etx m2)
    (callOK_of_int t a b eab m3) (callOK_of_int x a b eab m4) c hmeet

/-! ## (4) `updateEdgePairMaxDistance` through the antipode rule

  `truePairMaxDist2 a0 a1 b0 b1 = 4 − truePairDist2 a0 a1 (−b0) (−b1)`;  `pairMax4` = the largest of the four `trueMaxDist2`;
  one call `MaxCallOK x a b` = the hypotheses of `maxDistanceWithinBound_partial` (incl. the exclusion of c17pairs' one-ulp class
  `branch skipped ∧ 2 < maxEndpointTrue`);  `pairMaxSlack` = the largest of the four `maxSlack`
  (= max(allowedError(−x,a,b) + 5u, MaxPointError(candidate))). -/

/-- **the exact maximum over a pair of arcs** (antipode rule for pairs): `truePairMaxDist2` is the maximum of chord² over
    arc A × arc B -/
theorem truePairMaxDist2_max (a0 a1 b0 b1 : V3) (ha0 : UnitPt a0) (ha1 : UnitPt a1) (hb0 : UnitPt b0) (hb1 : UnitPt b1)
    (hB : NotAntipodal (vecR b0) (vecR b1)) :
    (∀ P Q, OnArc (vecR a0) (vecR a1) P → OnArc (vecR b0) (vecR b1) Q → chordPQ P Q ≤ truePairMaxDist2 a0 a1 b0 b1) ∧
    (∃ P Q, OnArc (vecR a0) (vecR a1) P ∧ OnArc (vecR b0) (vecR b1) Q ∧ chordPQ P Q = truePairMaxDist2 a0 a1 b0 b1) :=
  truePairMaxDist2_is_max ha0 ha1 hb0 hb1 hB

/-- the largest of the four endpoint maxima is `4 −` the least of the four endpoint minima against the antipodal edge -/
theorem pairMax4_antipode (a0 a1 b0 b1 : V3) (ha0 : UnitPt a0) (ha1 : UnitPt a1) (hb0 : UnitPt b0) (hb1 : UnitPt b1) :
    pairMax4 a0 a1 b0 b1 = 4 - pairMin4 a0 a1 (negV b0) (negV b1) :=
  pairMax4_eq ha0.1 ha1.1 hb0.1 hb1.1

/-- `CrossingSign(a0,a1,−b0,−b1) ≠ Cross` ⇒ the exact maximum is `pairMax4` (also when arc A touches the antipodal arc) -/
theorem noncrossing_truePairMaxDist2 (a0 a1 b0 b1 : V3) (ha0 : UnitPt a0) (ha1 : UnitPt a1) (hb0 : UnitPt b0)
    (hb1 : UnitPt b1) (hc : crosses a0 a1 (negV b0) (negV b1) = false) :
    truePairMaxDist2 a0 a1 b0 b1 = pairMax4 a0 a1 b0 b1 :=
  noncrossing_max_eq ha0 ha1 hb0 hb1 hc

/-- the full statement for all inputs of the domain; open exactly on the one-ulp class inside `MaxCallOK` -/
def EdgePairMaxWithin : Prop :=
  ∀ a0 a1 b0 b1 m, UnitPt a0 → UnitPt a1 → UnitPt b0 → UnitPt b1 → EdgeOK a0 a1 → EdgeOK b0 b1 →
    WedgeMargin (negV a0) b0 b1 → WedgeMargin (negV a1) b0 b1 → WedgeMargin (negV b0) a0 a1 → WedgeMargin (negV b1) a0 a1 →
    F64Order.Fin m → F64.feq m f4 = false → crosses a0 a1 (negV b0) (negV b1) = false →
    |fval (updateEdgePairMaxDistance a0 a1 b0 b1 m).1 - max (fval m) (truePairMaxDist2 a0 a1 b0 b1)|
      ≤ pairMaxSlack a0 a1 b0 b1

/-- **`updateEdgePairMaxDistance`, non-crossing case** (partial: the four calls outside c17pairs' one-ulp right-angle class):
    the result is finite, not below the old value, and within `pairMaxSlack` of `max(m, exact maximum)`. -/
theorem edgePairMax_within_partial (a0 a1 b0 b1 : V3) (m : F64)
    (h1 : MaxCallOK a0 b0 b1) (h2 : MaxCallOK a1 b0 b1) (h3 : MaxCallOK b0 a0 a1) (h4 : MaxCallOK b1 a0 a1)
    (hm : F64Order.Fin m) (hz : F64.feq m f4 = false) (hc : crosses a0 a1 (negV b0) (negV b1) = false) :
    F64Order.Fin (updateEdgePairMaxDistance a0 a1 b0 b1 m).1 ∧
    fval m ≤ fval (updateEdgePairMaxDistance a0 a1 b0 b1 m).1 ∧
    |fval (updateEdgePairMaxDistance a0 a1 b0 b1 m).1 - max (fval m) (truePairMaxDist2 a0 a1 b0 b1)|
      ≤ pairMaxSlack a0 a1 b0 b1 := by
  rw [noncrossing_truePairMaxDist2 a0 a1 b0 b1 h1.hx h2.hx h3.hx h4.hx hc, fval_eq_val, fval_eq_val]
  exact maxChain_bound h1 h2 h3 h4 hm hz hc

/-- **`updateEdgePairMaxDistance`, crossing case**: `CrossingSign(a0,a1,−b0,−b1) == Cross` with non-vanishing determinants:
    a point of arc A is antipodal to a point of arc B; the code returns exactly `(4, true)` and the exact maximum is 4. -/
theorem edgePairMax_crossing' (a0 a1 b0 b1 : V3) (m : F64)
    (ha0 : UnitPt a0) (ha1 : UnitPt a1) (hb0 : UnitPt b0) (hb1 : UnitPt b1)
    (hg : GenericPair a0 a1 (negV b0) (negV b1)) (hz : F64.feq m f4 = false)
    (hc : crosses a0 a1 (negV b0) (negV b1) = true) :
    updateEdgePairMaxDistance a0 a1 b0 b1 m = (f4, true) ∧ fval f4 = 4 ∧ truePairMaxDist2 a0 a1 b0 b1 = 4 := by
  rw [fval_eq_val]; exact crossing_max ha0 ha1 hb0 hb1 hg hz hc

/-- threshold already 4 (`StraightChordAngle`): nothing can be larger -/
theorem edgePairMax_threshold4 (a0 a1 b0 b1 : V3) (m : F64) (h : F64.feq m f4 = true) :
    updateEdgePairMaxDistance a0 a1 b0 b1 m = (f4, false) := edgePairMax_four_threshold a0 a1 b0 b1 m h

/-- decidable form of `MaxCallOK`: the class condition as "branch taken, or x within 90° of both endpoints" -/
def MaxCallOKZ (x a b : V3) : Prop :=
  UnitPtZ x ∧ UnitPtZ a ∧ UnitPtZ b ∧ EdgeOKZ a b ∧ UnitPtZ (negV x) ∧ WedgeMarginZ (negV x) a b ∧
  (beyondRightAngle x a b = true ∨ AcuteZ x a b)

instance (x a b : V3) : Decidable (MaxCallOKZ x a b) := by unfold MaxCallOKZ; infer_instance

theorem maxCallOK_of_int {x a b : V3} (h : MaxCallOKZ x a b) : MaxCallOK x a b := by
  obtain ⟨hx, ha, hb, hE, hnx, hM, hcl⟩ := h
  have ux := unitPt_of_int hx
  have ua := unitPt_of_int ha
  have ub := unitPt_of_int hb
  refine ⟨ux, ua, ub, edgeOK_of_int hE, wedgeMargin_of_int _ _ _ (unitPt_of_int hnx) ua ub hM, ?_⟩
  rintro ⟨hbr, hgt⟩
  rcases hcl with h | h
  · rw [hbr] at h; cases h
  · have := acute_of_int ux ua ub h; linarith

/-- non-vacuity, near branch in all four calls: the pair (A–B, Y–X), old value 0 -/
example : |fval (updateEdgePairMaxDistance exA exB exY exX fz).1 - max (fval fz) (truePairMaxDist2 exA exB exY exX)|
    ≤ pairMaxSlack exA exB exY exX := by
  have h : MaxCallOKZ exA exY exX ∧ MaxCallOKZ exB exY exX ∧ MaxCallOKZ exY exA exB ∧ MaxCallOKZ exX exA exB ∧
      beyondRightAngle exA exY exX = false ∧
      F64Order.Fin fz ∧ F64.feq fz f4 = false ∧ crosses exA exB (negV exY) (negV exX) = false := by decide +kernel
  obtain ⟨c1, c2, c3, c4, _, f, z, c⟩ := h
  exact (edgePairMax_within_partial exA exB exY exX fz (maxCallOK_of_int c1) (maxCallOK_of_int c2) (maxCallOK_of_int c3)
    (maxCallOK_of_int c4) f z c).2.2

/-- non-vacuity, branch through the antipode in all four calls: the pair (A–B, (−X)–(−Y)) -/
example : |fval (updateEdgePairMaxDistance exA exB (negV exX) (negV exY) fz).1
      - max (fval fz) (truePairMaxDist2 exA exB (negV exX) (negV exY))|
    ≤ pairMaxSlack exA exB (negV exX) (negV exY) := by
  have h : MaxCallOKZ exA (negV exX) (negV exY) ∧ MaxCallOKZ exB (negV exX) (negV exY) ∧
      MaxCallOKZ (negV exX) exA exB ∧ MaxCallOKZ (negV exY) exA exB ∧
      beyondRightAngle exA (negV exX) (negV exY) = true ∧
      F64Order.Fin fz ∧ F64.feq fz f4 = false ∧ crosses exA exB (negV (negV exX)) (negV (negV exY)) = false := by
    decide +kernel
  obtain ⟨c1, c2, c3, c4, _, f, z, c⟩ := h
  exact (edgePairMax_within_partial exA exB (negV exX) (negV exY) fz (maxCallOK_of_int c1) (maxCallOK_of_int c2)
    (maxCallOK_of_int c3) (maxCallOK_of_int c4) f z c).2.2

/-- non-vacuity of the crossing case: A–B against the antipodal image of the crossing edge C0–C1 -/
example : updateEdgePairMaxDistance exA exB (negV exC0) (negV exC1) fz = (f4, true) ∧ fval f4 = 4 ∧
    truePairMaxDist2 exA exB (negV exC0) (negV exC1) = 4 := by
  have h : UnitPtZ exA ∧ UnitPtZ exB ∧ UnitPtZ (negV exC0) ∧ UnitPtZ (negV exC1) ∧
      GenericPair exA exB (negV (negV exC0)) (negV (negV exC1)) ∧ F64.feq fz f4 = false ∧
      crosses exA exB (negV (negV exC0)) (negV (negV exC1)) = true := by decide +kernel
  obtain ⟨a, b, c0, c1, g, z, c⟩ := h
  exact edgePairMax_crossing' exA exB (negV exC0) (negV exC1) fz (unitPt_of_int a) (unitPt_of_int b) (unitPt_of_int c0)
    (unitPt_of_int c1) g z c

/-! ## (3') `CrossingSign == Cross` decided by the symbolic perturbation (vanishing determinants) -/

/-- **crossing edges, any determinants**: if `CrossingSign == Cross` and the two great circles are different
    (`(a0×a1)×(b0×b1) ≠ 0`), the closed arcs have a common point — so the exact distance is 0 and the code returns exactly
    `(0, true)`.  Only `RobustSign = sign of a non-vanishing determinant` is used; the class left is `CrossingSign == Cross`
    on ONE great circle (collinear overlap, decided by the perturbation alone). -/
theorem edgePairMin_crossing_weak (a0 a1 b0 b1 : V3) (m : F64)
    (ha0 : UnitPt a0) (ha1 : UnitPt a1) (hb0 : UnitPt b0) (hb1 : UnitPt b1)
    (hd : CirclesDifferZ a0 a1 b0 b1) (hz : F64.feq m fz = false) (hc : crosses a0 a1 b0 b1 = true) :
    updateEdgePairMinDistance a0 a1 b0 b1 m = (fz, true) ∧ fval fz = 0 ∧ ArcsMeet a0 a1 b0 b1 ∧
    truePairDist2 a0 a1 b0 b1 = 0 := by
  have hm := crosses_meets (unitish_of_unitPt ha0) (unitish_of_unitPt ha1) (unitish_of_unitPt hb0)
    (unitish_of_unitPt hb1) hd hc
  refine ⟨edgePair_crossing a0 a1 b0 b1 m hz hc, ?_, hm, ?_⟩
  · rw [fval_eq_val]; exact fz_facts'.2
  · unfold truePairDist2; rw [if_pos hm]

/-- the same for the maximum: `CrossingSign(a0,a1,−b0,−b1) == Cross` on different great circles ⇒ exact maximum 4, result `(4, true)` -/
theorem edgePairMax_crossing_weak (a0 a1 b0 b1 : V3) (m : F64)
    (ha0 : UnitPt a0) (ha1 : UnitPt a1) (hb0 : UnitPt b0) (hb1 : UnitPt b1)
    (hd : CirclesDifferZ a0 a1 (negV b0) (negV b1)) (hz : F64.feq m f4 = false)
    (hc : crosses a0 a1 (negV b0) (negV b1) = true) :
    updateEdgePairMaxDistance a0 a1 b0 b1 m = (f4, true) ∧ fval f4 = 4 ∧ truePairMaxDist2 a0 a1 b0 b1 = 4 := by
  have hm := crosses_meets (unitish_of_unitPt ha0) (unitish_of_unitPt ha1) (unitish_of_unitPt (unitWithin_negV hb0))
    (unitish_of_unitPt (unitWithin_negV hb1)) hd hc
  refine ⟨edgePairMax_crossing a0 a1 b0 b1 m hz hc, by rw [fval_eq_val]; exact f4_facts.2, ?_⟩
  unfold truePairMaxDist2 truePairDist2
  rw [if_pos hm]; ring

/-- **every case together** (threshold `+Inf`): on the domain, whatever `CrossingSign` answers (a `Cross` answer on
    different great circles), the computed edge-pair distance is within `pairSlack` of the exact one. -/
theorem edgePairMin_inf_total (a0 a1 b0 b1 : V3)
    (h1 : CallOK a0 b0 b1) (h2 : CallOK a1 b0 b1) (h3 : CallOK b0 a0 a1) (h4 : CallOK b1 a0 a1)
    (hd : crosses a0 a1 b0 b1 = true → CirclesDifferZ a0 a1 b0 b1) :
    |fval (updateEdgePairMinDistance a0 a1 b0 b1 fInf).1 - truePairDist2 a0 a1 b0 b1| ≤ pairSlack a0 a1 b0 b1 := by
  cases hc : crosses a0 a1 b0 b1
  · exact (edgePairMin_inf a0 a1 b0 b1 h1 h2 h3 h4 hc).2.2.2
  · have hz : F64.feq fInf fz = false := by decide
    obtain ⟨e, v, _, t⟩ := edgePairMin_crossing_weak a0 a1 b0 b1 fInf h1.hx h2.hx h3.hx h4.hx (hd hc) hz hc
    rw [e, t, v, sub_zero, abs_zero]
    exact (pairSlack_facts a0 a1 b0 b1).2.2.le

/-- non-vacuity: the pair (A–B, T–X) — T lies ON the arc A–B (`det(A,B,T) = 0`), the perturbation answers `Cross` -/
example : updateEdgePairMinDistance exA exB exT exX fInf = (fz, true) ∧ fval fz = 0 ∧ ArcsMeet exA exB exT exX ∧
    truePairDist2 exA exB exT exX = 0 := by
  have h : UnitPtZ exA ∧ UnitPtZ exB ∧ UnitPtZ exT ∧ UnitPtZ exX ∧ CirclesDifferZ exA exB exT exX ∧
      ¬ GenericPair exA exB exT exX ∧ F64.feq fInf fz = false ∧ crosses exA exB exT exX = true := by decide +kernel
  obtain ⟨a, b, t, x, d, _, z, c⟩ := h
  exact edgePairMin_crossing_weak exA exB exT exX fInf (unitPt_of_int a) (unitPt_of_int b) (unitPt_of_int t)
    (unitPt_of_int x) d z c

/-! ## (5) `EdgePairClosestPoints`

  Non-crossing case: the result is the vertex chosen by the chain of four calls paired with its `Project` on the other edge.
  PROVED: the chosen vertex realises the exact edge-pair distance up to `pairLow + pairHigh2` (`closestVertex_realises`), hence
  the returned pair realises it up to that plus the error `tol` of `Project` (`closestPoints_noncrossing`), where the contract
  of `Project` for a call (`ProjectOK tol x a b`: the returned point is within chord² `tol` of an arc point and its distance from x
  is within `tol` of the true point-to-arc distance) is a HYPOTHESIS — it is false in the known class D39/D40 (`NearPole`), and is
  not proved outside it (float analysis of `Project` not done).  Crossing case: both returned points are `Intersection(…)`
  (distance 0 realised exactly; the accuracy of that point is C16's `intersection_accurate`, false in the class D38/D55
  `BothNearlyAntipodal`). -/

/-- the direction of `p` is within squared chord `tol` of a point of the arc `ab` -/
def NearArc (tol : ℝ) (p a b : V3) : Prop := ∃ P, OnArc (vecR a) (vecR b) P ∧ dirChordP p P ≤ tol

/-- contract of `Project(x, a, b)` with tolerance `tol` (squared chord) -/
def ProjectOK (tol : ℝ) (x a b : V3) : Prop :=
  0 < len (project x a b) ∧ NearArc tol (project x a b) a b ∧
  |dirChord2 x (project x a b) - trueDist2 x a b| ≤ tol

/-- a vertex of an edge is on that edge -/
theorem nearArc_left {tol : ℝ} (h0 : 0 ≤ tol) (a b : V3) (ha : UnitPt a) : NearArc tol a a b := by
  refine ⟨_, onArc_left a b ha.len_pos, ?_⟩
  rw [← dirChord2_eq a a ha.len_pos]
  have : dirChord2 a a = 0 := by
    unfold dirChord2
    have hl := ha.len_pos
    have e : dotR a a = len a * len a := by rw [C17Err.len_sq]; rfl
    rw [e]; field_simp; ring
  rw [this]; exact h0

theorem nearArc_right {tol : ℝ} (h0 : 0 ≤ tol) (a b : V3) (hb : UnitPt b) : NearArc tol b a b := by
  obtain ⟨P, hP, h⟩ := nearArc_left h0 b a hb
  exact ⟨P, onArc_symm hP, h⟩

/-- **the vertex chosen by `EdgePairClosestPoints`** has an exact distance to the other arc within `pairLow + pairHigh2` of
    the exact edge-pair distance -/
theorem closestVertex_realises (a0 a1 b0 b1 : V3)
    (h1 : CallOK a0 b0 b1) (h2 : CallOK a1 b0 b1) (h3 : CallOK b0 a0 a1) (h4 : CallOK b1 a0 a1)
    (hc : crosses a0 a1 b0 b1 = false) :
    truePairDist2 a0 a1 b0 b1 ≤ vertexTrue a0 a1 b0 b1 (closestVertex a0 a1 b0 b1) ∧
    vertexTrue a0 a1 b0 b1 (closestVertex a0 a1 b0 b1)
      ≤ truePairDist2 a0 a1 b0 b1 + (pairLow a0 a1 b0 b1 + pairHigh2 a0 a1 b0 b1) := by
  rw [noncrossing_truePairDist2 a0 a1 b0 b1 h1.hx h2.hx h3.hx h4.hx hc]
  exact ⟨pairMin4_le_vertexTrue a0 a1 b0 b1 _, (closestVertex_spec h1 h2 h3 h4).2⟩

/-- the full statement: outside the known classes the returned pair lies on the two edges and realises the exact distance -/
def ClosestPointsRealiseDistance (tol : ℝ) : Prop :=
  ∀ a0 a1 b0 b1, CallOK a0 b0 b1 → CallOK a1 b0 b1 → CallOK b0 a0 a1 → CallOK b1 a0 a1 →
    ¬ SomeVertexNearPole a0 a1 b0 b1 → ¬ BothNearlyAntipodal a0 a1 b0 b1 →
    NearArc tol (edgePairClosestPoints a0 a1 b0 b1).1 a0 a1 ∧ NearArc tol (edgePairClosestPoints a0 a1 b0 b1).2 b0 b1 ∧
    |dirChord2 (edgePairClosestPoints a0 a1 b0 b1).1 (edgePairClosestPoints a0 a1 b0 b1).2 - truePairDist2 a0 a1 b0 b1|
      ≤ tol + (pairLow a0 a1 b0 b1 + pairHigh2 a0 a1 b0 b1)

/-- **partial** (non-crossing case, the contract of `Project` for the four calls as a hypothesis): the returned points lie
    on (within `tol` of) their edges and their distance is within `tol + pairLow + pairHigh2` of the exact edge-pair distance -/
theorem closestPoints_noncrossing_partial (a0 a1 b0 b1 : V3) (tol : ℝ)
    (h1 : CallOK a0 b0 b1) (h2 : CallOK a1 b0 b1) (h3 : CallOK b0 a0 a1) (h4 : CallOK b1 a0 a1)
    (hc : crosses a0 a1 b0 b1 = false)
    (p1 : ProjectOK tol a0 b0 b1) (p2 : ProjectOK tol a1 b0 b1) (p3 : ProjectOK tol b0 a0 a1) (p4 : ProjectOK tol b1 a0 a1) :
    NearArc tol (edgePairClosestPoints a0 a1 b0 b1).1 a0 a1 ∧ NearArc tol (edgePairClosestPoints a0 a1 b0 b1).2 b0 b1 ∧
    |dirChord2 (edgePairClosestPoints a0 a1 b0 b1).1 (edgePairClosestPoints a0 a1 b0 b1).2 - truePairDist2 a0 a1 b0 b1|
      ≤ tol + (pairLow a0 a1 b0 b1 + pairHigh2 a0 a1 b0 b1) := by
  obtain ⟨lo, hi⟩ := closestVertex_realises a0 a1 b0 b1 h1 h2 h3 h4 hc
  have ht0 : 0 ≤ tol := le_trans (abs_nonneg _) p1.2.2
  have key : ∀ d td : ℝ, |d - td| ≤ tol → truePairDist2 a0 a1 b0 b1 ≤ td →
      td ≤ truePairDist2 a0 a1 b0 b1 + (pairLow a0 a1 b0 b1 + pairHigh2 a0 a1 b0 b1) →
      |d - truePairDist2 a0 a1 b0 b1| ≤ tol + (pairLow a0 a1 b0 b1 + pairHigh2 a0 a1 b0 b1) := by
    intro d td e l u
    obtain ⟨e1, e2⟩ := abs_le.mp e
    have hs : 0 ≤ pairLow a0 a1 b0 b1 + pairHigh2 a0 a1 b0 b1 := by linarith
    rw [abs_le]; constructor <;> linarith
  rcases closestPoints_cases a0 a1 b0 b1 with ⟨hcr, _⟩ | ⟨_, hv⟩
  · rw [hcr] at hc; cases hc
  · rcases hv with ⟨hi0, e⟩ | ⟨hi0, e⟩ | ⟨hi0, e⟩ | ⟨hi0, e⟩
    · rw [hi0] at lo hi
      rw [e]
      exact ⟨nearArc_left ht0 a0 a1 h1.hx, p1.2.1, key _ _ p1.2.2 lo hi⟩
    · rw [hi0] at lo hi
      rw [e]
      exact ⟨nearArc_right ht0 a0 a1 h2.hx, p2.2.1, key _ _ p2.2.2 lo hi⟩
    · rw [hi0] at lo hi
      rw [e]
      refine ⟨p3.2.1, nearArc_left ht0 b0 b1 h3.hx, ?_⟩
      show |dirChord2 (project b0 a0 a1) b0 - _| ≤ _
      rw [dirChord2_comm]
      exact key _ _ p3.2.2 lo hi
    · have e3 : vertexTrue a0 a1 b0 b1 (closestVertex a0 a1 b0 b1) = trueDist2 b1 a0 a1 := by
        have := (closestVertex_spec h1 h2 h3 h4).1
        have h3' : closestVertex a0 a1 b0 b1 = 3 := by omega
        rw [h3']; rfl
      rw [e3] at lo hi
      rw [e]
      refine ⟨p4.2.1, nearArc_right ht0 b0 b1 h4.hx, ?_⟩
      show |dirChord2 (project b1 a0 a1) b1 - _| ≤ _
      rw [dirChord2_comm]
      exact key _ _ p4.2.2 lo hi

/-- **crossing case**: both returned points are the SAME point `Intersection(a0,a1,b0,b1)`; the exact distance is 0 (different
    great circles) and the returned pair realises it exactly -/
theorem closestPoints_crossing (a0 a1 b0 b1 : V3)
    (ha0 : UnitPt a0) (ha1 : UnitPt a1) (hb0 : UnitPt b0) (hb1 : UnitPt b1)
    (hd : CirclesDifferZ a0 a1 b0 b1) (hc : crosses a0 a1 b0 b1 = true) :
    edgePairClosestPoints a0 a1 b0 b1 = (intersection a0 a1 b0 b1, intersection a0 a1 b0 b1) ∧
    truePairDist2 a0 a1 b0 b1 = 0 := by
  refine ⟨?_, (edgePairMin_crossing_weak a0 a1 b0 b1 fInf ha0 ha1 hb0 hb1 hd (by decide) hc).2.2.2⟩
  rcases closestPoints_cases a0 a1 b0 b1 with ⟨_, e⟩ | ⟨hcr, _⟩
  · exact e
  · rw [hcr] at hc; cases hc

/-! ## (5') the contract of `Project` PROVED outside the class D39 (`NearPole`), given that its two float sign tests decide
  the exact wedge (`ProjDecisionExact`, a decidable predicate of the model; no margin analysis of these two tests was done) -/

/-- the two float sign tests of `Project` (on the un-normalised projected point) decide the exact wedge of the edge -/
def ProjDecisionExact (x a b : V3) : Prop :=
  (Pred.sign (pointCross a b) a (projRaw x a b) && Pred.sign (projRaw x a b) b (pointCross a b)) = true ↔ InWedge x a b

/-- **`Project(x, a, b)` realises the point-to-arc distance**: for `x` NOT within ≈ 5° of the pole of the edge (complement of
    D39) the returned point is non-zero, within squared chord `2^-40` of a point of the arc, and its distance from `x` is within
    `2^-40` of the exact distance (interior branch: float analysis of `x − c·(x·c)/|c|²` and of `Normalize`; vertex branch: the
    nearer endpoint up to `74u`). -/
theorem project_within (x a b : V3) (hx : UnitPt x) (ha : UnitPt a) (hb : UnitPt b) (hE : EdgeOK a b)
    (hnp : ¬ NearPole x a b) (hdec : ProjDecisionExact x a b) : ProjectOK projTol x a b := by
  have h46 : (1 : ℝ) / 2 ^ 46 ≤ projTol := by unfold projTol; norm_num
  have ht0 : 0 ≤ projTol := by unfold projTol; positivity
  cases ht : (Pred.sign (pointCross a b) a (projRaw x a b) && Pred.sign (projRaw x a b) b (pointCross a b))
  · have hnw : ¬ InWedge x a b := fun hw => by
      have := hdec.mpr hw; rw [ht] at this; cases this
    obtain ⟨hq, he⟩ := project_vertex hx ha hb hnw ht
    unfold ProjectOK
    rcases hq with hq | hq
    · rw [hq] at he ⊢
      exact ⟨ha.len_pos, nearArc_left ht0 a b ha, le_trans he h46⟩
    · rw [hq] at he ⊢
      exact ⟨hb.len_pos, nearArc_right ht0 a b hb, le_trans he h46⟩
  · exact project_interior hx ha hb hE hnp (hdec.mp ht) ht

/-- the statement for all inputs of the domain outside D39; open only in `ProjDecisionExact` -/
def ProjectRealisesDistanceOutsideD39 : Prop :=
  ∀ x a b, UnitPt x → UnitPt a → UnitPt b → EdgeOK a b → ¬ NearPole x a b → ProjectOK projTol x a b

/-- **`EdgePairClosestPoints`, non-crossing case, outside D39/D40**: the returned points lie on (within `2^-40` of) their edges
    and their distance is within `2^-40 + pairLow + pairHigh2` of the exact edge-pair distance (hypotheses left: `CallOK` of the
    four calls and `ProjDecisionExact` of the four `Project` calls) -/
theorem closestPoints_noncrossing (a0 a1 b0 b1 : V3)
    (h1 : CallOK a0 b0 b1) (h2 : CallOK a1 b0 b1) (h3 : CallOK b0 a0 a1) (h4 : CallOK b1 a0 a1)
    (hc : crosses a0 a1 b0 b1 = false) (hnp : ¬ SomeVertexNearPole a0 a1 b0 b1)
    (d1 : ProjDecisionExact a0 b0 b1) (d2 : ProjDecisionExact a1 b0 b1) (d3 : ProjDecisionExact b0 a0 a1)
    (d4 : ProjDecisionExact b1 a0 a1) :
    NearArc projTol (edgePairClosestPoints a0 a1 b0 b1).1 a0 a1 ∧
    NearArc projTol (edgePairClosestPoints a0 a1 b0 b1).2 b0 b1 ∧
    |dirChord2 (edgePairClosestPoints a0 a1 b0 b1).1 (edgePairClosestPoints a0 a1 b0 b1).2 - truePairDist2 a0 a1 b0 b1|
      ≤ projTol + (pairLow a0 a1 b0 b1 + pairHigh2 a0 a1 b0 b1) := by
  have n1 : ¬ NearPole a0 b0 b1 := fun h => hnp (Or.inl h)
  have n2 : ¬ NearPole a1 b0 b1 := fun h => hnp (Or.inr (Or.inl h))
  have n3 : ¬ NearPole b0 a0 a1 := fun h => hnp (Or.inr (Or.inr (Or.inl h)))
  have n4 : ¬ NearPole b1 a0 a1 := fun h => hnp (Or.inr (Or.inr (Or.inr h)))
  exact closestPoints_noncrossing_partial a0 a1 b0 b1 projTol h1 h2 h3 h4 hc
    (project_within a0 b0 b1 h1.hx h1.ha h1.hb h1.hE n1 d1) (project_within a1 b0 b1 h2.hx h2.ha h2.hb h2.hE n2 d2)
    (project_within b0 a0 a1 h3.hx h3.ha h3.hb h3.hE n3 d3) (project_within b1 a0 a1 h4.hx h4.ha h4.hb h4.hE n4 d4)

/-- decidable form of `ProjDecisionExact` -/
def ProjDecisionExactZ (x a b : V3) : Prop :=
  (Pred.sign (pointCross a b) a (projRaw x a b) && Pred.sign (projRaw x a b) b (pointCross a b)) = true ↔ InWedgeZ x a b

instance (x a b : V3) : Decidable (ProjDecisionExactZ x a b) := by unfold ProjDecisionExactZ; infer_instance

theorem projDecisionExact_of_int {x a b : V3} (h : ProjDecisionExactZ x a b) : ProjDecisionExact x a b := by
  unfold ProjDecisionExact; rw [inWedge_iff_int]; exact h

/-- non-vacuity: every hypothesis of `closestPoints_noncrossing` holds for the pair (A–B, X–Y) (the first `Project` takes the
    vertex branch, the other three the interior branch; the chosen vertex is X = b0), hence its conclusion -/
example : NearArc projTol (edgePairClosestPoints exA exB exX exY).1 exA exB ∧
    NearArc projTol (edgePairClosestPoints exA exB exX exY).2 exX exY ∧
    |dirChord2 (edgePairClosestPoints exA exB exX exY).1 (edgePairClosestPoints exA exB exX exY).2
        - truePairDist2 exA exB exX exY|
      ≤ projTol + (pairLow exA exB exX exY + pairHigh2 exA exB exX exY) := by
  have h : UnitPtZ exA ∧ UnitPtZ exB ∧ UnitPtZ exX ∧ UnitPtZ exY ∧ EdgeOKZ exA exB ∧ EdgeOKZ exX exY ∧
      WedgeMarginZ exA exX exY ∧ WedgeMarginZ exB exX exY ∧ WedgeMarginZ exX exA exB ∧ WedgeMarginZ exY exA exB ∧
      crosses exA exB exX exY = false ∧
      FarFromPoleZ exA exX exY ∧ FarFromPoleZ exB exX exY ∧ FarFromPoleZ exX exA exB ∧ FarFromPoleZ exY exA exB ∧
      ProjDecisionExactZ exA exX exY ∧ ProjDecisionExactZ exB exX exY ∧ ProjDecisionExactZ exX exA exB ∧
      ProjDecisionExactZ exY exA exB ∧ closestVertex exA exB exX exY = 2 ∧ ¬ InWedgeZ exA exX exY := by
    decide +kernel
  obtain ⟨a, b, x, y, eab, exy, m1, m2, m3, m4, c, f1, f2, f3, f4, p1, p2, p3, p4, _, _⟩ := h
  refine closestPoints_noncrossing exA exB exX exY (callOK_of_int a x y exy m1) (callOK_of_int b x y exy m2)
    (callOK_of_int x a b eab m3) (callOK_of_int y a b eab m4) c ?_ (projDecisionExact_of_int p1)
    (projDecisionExact_of_int p2) (projDecisionExact_of_int p3) (projDecisionExact_of_int p4)
  rintro (h | h | h | h)
  · exact not_nearPole_of_int f1 h
  · exact not_nearPole_of_int f2 h
  · exact not_nearPole_of_int f3 h
  · exact not_nearPole_of_int f4 h

/-! ## numeric size of the slacks (crude: 200u ≈ 2.2e-14 in squared chord) -/

/-- `pairSlack ≤ 200·2^-53` on the domain -/
theorem pairSlack_le (a0 a1 b0 b1 : V3)
    (h1 : CallOK a0 b0 b1) (h2 : CallOK a1 b0 b1) (h3 : CallOK b0 a0 a1) (h4 : CallOK b1 a0 a1) :
    pairSlack a0 a1 b0 b1 ≤ 200 * uR := by
  unfold pairSlack
  rw [← pairHigh2_eq]
  exact max_le (pairLow_le h1 h2 h3 h4) (pairHigh2_le h1 h2 h3 h4)

/-- **the edge-pair distance with an absolute bound**: `|R − exact| ≤ 200·2^-53` for the threshold `+Inf`, all cases -/
theorem edgePairMin_inf_abs (a0 a1 b0 b1 : V3)
    (h1 : CallOK a0 b0 b1) (h2 : CallOK a1 b0 b1) (h3 : CallOK b0 a0 a1) (h4 : CallOK b1 a0 a1)
    (hd : crosses a0 a1 b0 b1 = true → CirclesDifferZ a0 a1 b0 b1) :
    |fval (updateEdgePairMinDistance a0 a1 b0 b1 fInf).1 - truePairDist2 a0 a1 b0 b1| ≤ 200 * uR :=
  le_trans (edgePairMin_inf_total a0 a1 b0 b1 h1 h2 h3 h4 hd) (pairSlack_le a0 a1 b0 b1 h1 h2 h3 h4)

/-- `EdgePairClosestPoints`, non-crossing case, with an absolute bound: the returned pair realises the exact distance within
    `2^-39` (squared chord) -/
theorem closestPoints_noncrossing_abs (a0 a1 b0 b1 : V3)
    (h1 : CallOK a0 b0 b1) (h2 : CallOK a1 b0 b1) (h3 : CallOK b0 a0 a1) (h4 : CallOK b1 a0 a1)
    (hc : crosses a0 a1 b0 b1 = false) (hnp : ¬ SomeVertexNearPole a0 a1 b0 b1)
    (d1 : ProjDecisionExact a0 b0 b1) (d2 : ProjDecisionExact a1 b0 b1) (d3 : ProjDecisionExact b0 a0 a1)
    (d4 : ProjDecisionExact b1 a0 a1) :
    |dirChord2 (edgePairClosestPoints a0 a1 b0 b1).1 (edgePairClosestPoints a0 a1 b0 b1).2 - truePairDist2 a0 a1 b0 b1|
      ≤ 1 / 2 ^ 39 := by
  have h := (closestPoints_noncrossing a0 a1 b0 b1 h1 h2 h3 h4 hc hnp d1 d2 d3 d4).2.2
  have l := pairLow_le h1 h2 h3 h4
  have g := pairHigh2_le h1 h2 h3 h4
  have : projTol + (200 * uR + 200 * uR) ≤ 1 / 2 ^ 39 := by unfold projTol uR; norm_num
  linarith

/-! ## (5'') `ProjDecisionExact` from a margin: no hypothesis about the code's decisions is left

  `ProjMargin x a b` = both exact wedge functionals `x·((a×b)×a)`, `x·((a×b)×b)` exceed `66u·|a×b|` in absolute value (x is at
  least ≈ 66u rad·sin(distance to the endpoint) away from the two meridian planes through the endpoints).  Proved: the two
  float tests `Sign(aXb,a,p)`, `Sign(p,b,aXb)` of `Project` evaluate `2·x·((a×b)×a)` and `−2·x·((a×b)×b)` with an absolute
  error ≤ 132u·|a×b| (float triple products + the error of p and of `PointCross`), hence decide the exact wedge. -/

/-- **the float sign tests of `Project` decide the exact wedge under the margin** -/
theorem projDecisionExact_of_margin (x a b : V3) (hx : UnitPt x) (ha : UnitPt a) (hb : UnitPt b) (hE : EdgeOK a b)
    (hM : ProjMargin x a b) : ProjDecisionExact x a b :=
  projDecision_of_margin hx ha hb hE hM

/-- **`Project` realises the point-to-arc distance** — hypotheses: the domain, the margin, and `¬ NearPole` (complement of D39) -/
theorem project_within_margin (x a b : V3) (hx : UnitPt x) (ha : UnitPt a) (hb : UnitPt b) (hE : EdgeOK a b)
    (hnp : ¬ NearPole x a b) (hM : ProjMargin x a b) : ProjectOK projTol x a b :=
  project_within x a b hx ha hb hE hnp (projDecisionExact_of_margin x a b hx ha hb hE hM)

/-- **`EdgePairClosestPoints`, non-crossing case, outside D39/D40, with NO hypothesis about the code's decisions** -/
theorem closestPoints_noncrossing_margin (a0 a1 b0 b1 : V3)
    (h1 : CallOK a0 b0 b1) (h2 : CallOK a1 b0 b1) (h3 : CallOK b0 a0 a1) (h4 : CallOK b1 a0 a1)
    (hc : crosses a0 a1 b0 b1 = false) (hnp : ¬ SomeVertexNearPole a0 a1 b0 b1)
    (m1 : ProjMargin a0 b0 b1) (m2 : ProjMargin a1 b0 b1) (m3 : ProjMargin b0 a0 a1) (m4 : ProjMargin b1 a0 a1) :
    NearArc projTol (edgePairClosestPoints a0 a1 b0 b1).1 a0 a1 ∧
    NearArc projTol (edgePairClosestPoints a0 a1 b0 b1).2 b0 b1 ∧
    |dirChord2 (edgePairClosestPoints a0 a1 b0 b1).1 (edgePairClosestPoints a0 a1 b0 b1).2 - truePairDist2 a0 a1 b0 b1|
      ≤ 1 / 2 ^ 39 :=
  have d1 := projDecisionExact_of_margin a0 b0 b1 h1.hx h1.ha h1.hb h1.hE m1
  have d2 := projDecisionExact_of_margin a1 b0 b1 h2.hx h2.ha h2.hb h2.hE m2
  have d3 := projDecisionExact_of_margin b0 a0 a1 h3.hx h3.ha h3.hb h3.hE m3
  have d4 := projDecisionExact_of_margin b1 a0 a1 h4.hx h4.ha h4.hb h4.hE m4
  ⟨(closestPoints_noncrossing a0 a1 b0 b1 h1 h2 h3 h4 hc hnp d1 d2 d3 d4).1,
   (closestPoints_noncrossing a0 a1 b0 b1 h1 h2 h3 h4 hc hnp d1 d2 d3 d4).2.1,
   closestPoints_noncrossing_abs a0 a1 b0 b1 h1 h2 h3 h4 hc hnp d1 d2 d3 d4⟩

/-- non-vacuity: the margins hold for the four calls of the pair (A–B, X–Y) -/
example : ProjMargin exA exX exY ∧ ProjMargin exB exX exY ∧ ProjMargin exX exA exB ∧ ProjMargin exY exA exB := by
  have h : ProjMarginZ exA exX exY ∧ ProjMarginZ exB exX exY ∧ ProjMarginZ exX exA exB ∧ ProjMarginZ exY exA exB := by
    decide +kernel
  exact ⟨projMargin_of_int h.1, projMargin_of_int h.2.1, projMargin_of_int h.2.2.1, projMargin_of_int h.2.2.2⟩

/-! ## consistency of `Project` with the REPORTED distance; both answers of `CrossingSign` for a finite threshold -/

/-- **"the projected point realises the reported distance"**: the squared chord from `x` to `Project(x,a,b)` is within
    `2^-40 + allowedError` of the chord angle computed by `DistanceFromSegment(x,a,b)` (`CallOK`, the margin of `Project`'s
    tests, and `x` outside the class D39) -/
theorem project_realises_reported (x a b : V3) (h : CallOK x a b) (hnp : ¬ NearPole x a b) (hM : ProjMargin x a b) :
    |dirChord2 x (project x a b) - fval (distanceFromSegmentChord x a b)| ≤ projTol + allowedError x a b := by
  have h1 := (project_within_margin x a b h.hx h.ha h.hb h.hE hnp hM).2.2
  have h2 := distanceWithinMaxError_of_margin x a b h.hx h.ha h.hb h.hE h.hM
  have := abs_sub_le (dirChord2 x (project x a b)) (trueDist2 x a b) (fval (distanceFromSegmentChord x a b))
  rw [abs_sub_comm (trueDist2 x a b)] at this
  linarith

/-- **every case together, finite threshold**: whatever `CrossingSign` answers (a `Cross` answer on different great
    circles), `|R − min(m, exact distance)| ≤ pairSlack` -/
theorem edgePairMin_within_total (a0 a1 b0 b1 : V3) (m : F64)
    (h1 : CallOK a0 b0 b1) (h2 : CallOK a1 b0 b1) (h3 : CallOK b0 a0 a1) (h4 : CallOK b1 a0 a1)
    (hm : F64Order.Fin m) (h0 : 0 ≤ fval m) (hz : F64.feq m fz = false)
    (hd : crosses a0 a1 b0 b1 = true → CirclesDifferZ a0 a1 b0 b1) :
    |fval (updateEdgePairMinDistance a0 a1 b0 b1 m).1 - min (fval m) (truePairDist2 a0 a1 b0 b1)|
      ≤ pairSlack a0 a1 b0 b1 := by
  cases hc : crosses a0 a1 b0 b1
  · exact (edgePairMin_within a0 a1 b0 b1 m h1 h2 h3 h4 hm h0 hz hc).2.2.2
  · obtain ⟨e, v, _, t⟩ := edgePairMin_crossing_weak a0 a1 b0 b1 m h1.hx h2.hx h3.hx h4.hx (hd hc) hz hc
    rw [e, t, v, min_eq_right h0, sub_zero, abs_zero]
    exact (pairSlack_facts a0 a1 b0 b1).2.2.le

/-! ## (5x) the crossing branch of `EdgePairClosestPoints` with C16's accuracy of `Intersection`

  Hypotheses = those of C16's `intersection_accurate` (package c16acc): `C16.InContract` (C16's `UnitPt`, `CrossingSign == Cross`),
  `C16Acc.NotAntipodal` of both edges (`1 + a0·a1 ≥ 2^-40`: excludes the class D38/D55), `StableSideIfAccepted`, and a value `X` of
  the judge's exact crossing `IA.exactCrossingClosed`.  NEW here: that exact crossing lies on BOTH arcs (`ecc_onArcs`), hence the
  returned point is within squared chord `128u²` of a common point of the two edges and the exact distance is 0. -/

/-- **`EdgePairClosestPoints`, crossing branch**: both returned points are `Intersection(…)`, that point is non-zero and within
    squared chord `128u²` (angle ≈ 8u) of a COMMON point of the two arcs; the exact edge-pair distance is 0 and the distance of
    the returned pair is exactly 0 -/
theorem closestPoints_crossing_accurate (a0 a1 b0 b1 : V3) (hc : S2Proofs.C16.InContract a0 a1 b0 b1)
    (hna : S2Proofs.C16Acc.NotAntipodal a0 a1) (hnb : S2Proofs.C16Acc.NotAntipodal b0 b1)
    (hside : S2Proofs.C16.StableSideIfAccepted a0 a1 b0 b1)
    (X : IV3) (hX : IA.exactCrossingClosed (ofV3 a0) (ofV3 a1) (ofV3 b0) (ofV3 b1) = some X) :
    edgePairClosestPoints a0 a1 b0 b1 = (intersection a0 a1 b0 b1, intersection a0 a1 b0 b1) ∧
    NearArc (128 * uR ^ 2) (edgePairClosestPoints a0 a1 b0 b1).1 a0 a1 ∧
    NearArc (128 * uR ^ 2) (edgePairClosestPoints a0 a1 b0 b1).2 b0 b1 ∧
    truePairDist2 a0 a1 b0 b1 = 0 ∧
    dirChord2 (edgePairClosestPoints a0 a1 b0 b1).1 (edgePairClosestPoints a0 a1 b0 b1).2 = 0 := by
  have hcr : crosses a0 a1 b0 b1 = true := hc.2.2.2.2
  have he : edgePairClosestPoints a0 a1 b0 b1 = (intersection a0 a1 b0 b1, intersection a0 a1 b0 b1) := by
    rcases closestPoints_cases a0 a1 b0 b1 with ⟨_, e⟩ | ⟨hcf, _⟩
    · exact e
    · rw [hcr] at hcf; cases hcf
  obtain ⟨hl, P, hPA, hPB, hch⟩ := crossing_point_near a0 a1 b0 b1 hc hna hnb hside X hX
  rw [he]
  refine ⟨rfl, ⟨P, hPA, hch⟩, ⟨P, hPB, hch⟩, ?_, ?_⟩
  · unfold truePairDist2
    rw [if_pos ⟨P, hPA, hPB⟩]
  · show dirChord2 (intersection a0 a1 b0 b1) (intersection a0 a1 b0 b1) = 0
    unfold dirChord2
    have e : dotR (intersection a0 a1 b0 b1) (intersection a0 a1 b0 b1)
        = len (intersection a0 a1 b0 b1) * len (intersection a0 a1 b0 b1) := by rw [C17Err.len_sq]; rfl
    rw [e]
    have := hl.ne'
    field_simp
    ring

/-- non-vacuity: every hypothesis holds for the crossing pair (A–B, C0–C1) -/
example : ∃ X, S2Proofs.C16.InContract exA exB exC0 exC1 ∧ S2Proofs.C16Acc.NotAntipodal exA exB ∧
    S2Proofs.C16Acc.NotAntipodal exC0 exC1 ∧ S2Proofs.C16.StableSideIfAccepted exA exB exC0 exC1 ∧
    IA.exactCrossingClosed (ofV3 exA) (ofV3 exB) (ofV3 exC0) (ofV3 exC1) = some X := by
  have h : S2Proofs.C16.InContract exA exB exC0 exC1 ∧ S2Proofs.C16Acc.NotAntipodal exA exB ∧
      S2Proofs.C16Acc.NotAntipodal exC0 exC1 ∧ S2Proofs.C16.StableSideIfAccepted exA exB exC0 exC1 ∧
      (IA.exactCrossingClosed (ofV3 exA) (ofV3 exB) (ofV3 exC0) (ofV3 exC1)).isSome = true := by decide +kernel
  obtain ⟨h1, h2, h3, h4, h5⟩ := h
  obtain ⟨X, hX⟩ := Option.isSome_iff_exists.mp h5
  exact ⟨X, h1, h2, h3, h4, hX⟩

/-- **`EdgePairClosestPoints`, crossing branch, in C17's own hypotheses**: `UnitPt`, `CrossingSign == Cross` on different great
    circles, neither edge nearly antipodal (complement of D38/D55) and C16's side condition of the stable path: the returned
    points coincide, lie within `128u²` of a common point of the two edges, and the exact distance is 0.  (The existence of the
    judge's exact crossing and `C17.UnitPt ⇒ C16.UnitPt` are proved: `ecc_exists`, `c16unitPt_of_unitPt`.) -/
theorem closestPoints_crossing_total (a0 a1 b0 b1 : V3)
    (ha0 : UnitPt a0) (ha1 : UnitPt a1) (hb0 : UnitPt b0) (hb1 : UnitPt b1)
    (hd : CirclesDifferZ a0 a1 b0 b1) (hcr : crosses a0 a1 b0 b1 = true)
    (hna : S2Proofs.C16Acc.NotAntipodal a0 a1) (hnb : S2Proofs.C16Acc.NotAntipodal b0 b1)
    (hside : S2Proofs.C16.StableSideIfAccepted a0 a1 b0 b1) :
    edgePairClosestPoints a0 a1 b0 b1 = (intersection a0 a1 b0 b1, intersection a0 a1 b0 b1) ∧
    NearArc (128 * uR ^ 2) (edgePairClosestPoints a0 a1 b0 b1).1 a0 a1 ∧
    NearArc (128 * uR ^ 2) (edgePairClosestPoints a0 a1 b0 b1).2 b0 b1 ∧
    truePairDist2 a0 a1 b0 b1 = 0 ∧
    dirChord2 (edgePairClosestPoints a0 a1 b0 b1).1 (edgePairClosestPoints a0 a1 b0 b1).2 = 0 := by
  obtain ⟨X, hX⟩ := ecc_exists (unitish_of_unitPt ha0) (unitish_of_unitPt ha1) (unitish_of_unitPt hb0)
    (unitish_of_unitPt hb1) hd hcr
  exact closestPoints_crossing_accurate a0 a1 b0 b1
    ⟨c16unitPt_of_unitPt ha0, c16unitPt_of_unitPt ha1, c16unitPt_of_unitPt hb0, c16unitPt_of_unitPt hb1, hcr⟩
    hna hnb hside X hX

/-- non-vacuity: every hypothesis of `closestPoints_crossing_total` holds for (A–B, C0–C1) and for the PERTURBED crossing
    (A–B, T–X) (T on the arc A–B, `det(A,B,T) = 0`) -/
example : (UnitPtZ exA ∧ UnitPtZ exB ∧ UnitPtZ exC0 ∧ UnitPtZ exC1 ∧ CirclesDifferZ exA exB exC0 exC1 ∧
      crosses exA exB exC0 exC1 = true ∧ S2Proofs.C16Acc.NotAntipodal exA exB ∧ S2Proofs.C16Acc.NotAntipodal exC0 exC1 ∧
      S2Proofs.C16.StableSideIfAccepted exA exB exC0 exC1) ∧
    (UnitPtZ exT ∧ UnitPtZ exX ∧ CirclesDifferZ exA exB exT exX ∧ crosses exA exB exT exX = true ∧
      S2Proofs.C16Acc.NotAntipodal exT exX ∧ S2Proofs.C16.StableSideIfAccepted exA exB exT exX) := by
  decide +kernel

end S2Proofs.C17
