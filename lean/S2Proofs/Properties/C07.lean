/-
  C07 — loop and polygon containment / intersection obey point-set semantics; loop nesting.

  Models: `S2.Relate` (exact brute-force relations: all edge pairs by the exact crossing criterion,
  wedge tests at shared vertices, vertex containment otherwise; `compareBoundary`, polygon
  `Contains` / `Intersects` through boundary comparison) and `S2.Nesting`
  (`loopMap.insertLoop` / `initLoops` / `initNested` over an abstract containment relation).

  What is a THEOREM here
   (a) wedge dualities (s2/wedge_relations.go): complement / swap dualities hold by the shape of the
       definitions; reflexivity from the sign laws `SgLaws` (antisymmetry, rotation, non-zero on
       distinct points — theorems of package C02 for the exact predicate; instance `geo5`).
   (b) set-algebra laws of the exact relation, for every geometry satisfying `SgLaws`:
       `Intersects` symmetric (all loops), reflexivity (simple loops and the empty/full loops),
       `A ∩ B ⇔ ¬(¬A ⊇ B)`, `A ⊇ B ⇔ ¬B ⊇ ¬A` — the last two under two explicit geometric
       hypotheses that concern only the branch "no crossing and no shared vertex":
       the point-in-loop inversion law (package C04) and "all vertices of one loop lie on the same
       side of the other" (Jordan-type, assumed, exercised by the oracle on every run).
   (c) nesting: for every laminar containment relation and EVERY insertion order, `initNested`
       lists every loop once, depth = number of enclosing loops, hole ⇔ odd number of enclosing
       loops, every loop is followed contiguously by exactly the loops it contains (pre-order),
       `LastDescendant` is right.
  What is NOT a theorem (decided by the correspondence check `rel` / `nest` / `prel` on every run):
   that the implementation's index walk (`hasCrossingRelation`, `loopCrosser`, bounding-rectangle
   shortcuts, `findVertex` through the index) returns the exact relation (`IndexWalkAgrees`), and
   that the exact relation is the point-set relation (`ExactRelationIsPointSet`, needs the Jordan
   curve theorem on the sphere).

  FINDING D1 (current tree, before `docs/fixes/fix_D1.diff`): `loopCrosser.hasCrossingRelation` has
  the edge-free-cell test inverted; the implementation violates `A ∩ B ⇔ ¬(¬A ⊇ B)` and
  `A ⊇ B ⇔ ¬B ⊇ ¬A`.  The exact model does not have the defect (the model is the intended
  semantics), so the violation is exhibited by the oracle (corpus/C07/fixed_D1.txt), not by a Lean
  `example`.
-/
import S2.Relate
import S2.Nesting
import S2Proofs.C07.Wedge
import S2Proofs.C07.RelateLaws
import S2Proofs.C07.Nesting

namespace S2Proofs.C07
open S2.Relate S2.Nesting

/-! ## (a) wedge dualities -/
section wedges
variable {α : Type} (G : Geo α)

/-- Wedges A=(a0,o,a2), B=(b0,o,b2) at a shared vertex o: A meets B iff the complement wedge
    (a2,o,a0) does not contain B. -/
theorem wedge_intersects_iff_complement_not_contains (a0 o a2 b0 b2 : α) :
    wedgeIntersects G a0 o a2 b0 b2 = true ↔ wedgeContains G a2 o a0 b0 b2 = false := by
  rw [wedgeIntersects_eq_not_complement_contains]; cases wedgeContains G a2 o a0 b0 b2 <;> simp

/-- A contains B iff the complement of B contains the complement of A (wedges). -/
theorem wedge_contains_iff_complements_reversed (a0 o a2 b0 b2 : α) :
    wedgeContains G a0 o a2 b0 b2 = wedgeContains G b2 o b0 a2 a0 :=
  wedgeContains_eq_complements_swapped G a0 o a2 b0 b2

/-- wedge intersection is symmetric -/
theorem wedge_intersects_symmetric (a0 o a2 b0 b2 : α) :
    wedgeIntersects G a0 o a2 b0 b2 = wedgeIntersects G b0 o b2 a0 a2 :=
  wedgeIntersects_symm G a0 o a2 b0 b2

/-- every wedge contains itself and (if its three points are distinct) intersects itself -/
theorem wedge_reflexive (h : SgLaws G) (a0 o a2 : α) (h0 : a0 ≠ o) (h2 : a2 ≠ o) (h02 : a0 ≠ a2) :
    wedgeContains G a0 o a2 a0 a2 = true ∧ wedgeIntersects G a0 o a2 a0 a2 = true :=
  ⟨wedgeContains_refl h a0 o a2, wedgeIntersects_refl h a0 o a2 h0 h2 h02⟩

-- non-vacuity: `sgLaws_geo5 : SgLaws geo5` (five points on a circle), see S2Proofs/C07/Wedge.lean
example : wedgeContains geo5 4 0 1 4 1 = true ∧ wedgeIntersects geo5 4 0 1 4 1 = true :=
  wedge_reflexive geo5 sgLaws_geo5 4 0 1 (by decide) (by decide) (by decide)

end wedges

/-! ## (b) set-algebra laws of the exact relation -/
section relations
variable {α : Type} [DecidableEq α] {G : Geo α}

/-- `Intersects` is symmetric, for all loops (no validity needed, no hypothesis on the geometry). -/
theorem loop_intersects_symmetric (A B : Loop α) : intersects G A B = intersects G B A :=
  intersects_symm A B

/-- A simple loop (≥ 3 distinct vertices, no two edges cross) contains and intersects itself. -/
theorem loop_reflexive (h : SgLaws G) (A : Loop α) (hA : SimpleLoop G A) :
    contains G A A = true ∧ intersects G A A = true :=
  ⟨contains_refl h A hA, intersects_refl h A hA⟩

/-- The one-vertex loops: both contain themselves; the full loop intersects itself, the empty loop
    does not (the property's "every region intersects itself" holds for non-empty regions). -/
theorem special_loop_reflexive (A : Loop α) (h1 : A.vs.size = 1) :
    contains G A A = true ∧ intersects G A A = !A.isEmpty :=
  ⟨contains_refl_of_size_one A h1, intersects_refl_of_size_one A h1⟩

/-- the two geometric facts used by the complement laws; they are consulted only when the two
    boundaries neither cross nor share a vertex -/
structure ComplementHyps (G : Geo α) (A B : Loop α) : Prop where
  /-- point-in-loop inversion (C04): the inverted loop contains exactly the points the loop does not -/
  inv : A.invert.containsPoint G (B.vertex G 0) = !A.containsPoint G (B.vertex G 0)
  /-- first and last vertex of A lie on the same side of B -/
  side : B.containsPoint G (A.invert.vertex G 0) = B.containsPoint G (A.vertex G 0)

/-- A intersects B iff the complement of A does not contain B (loops of any size, incl. empty/full). -/
theorem loop_intersects_iff_complement_not_contains (h : SgLaws G) (A B : Loop α)
    (hy : ComplementHyps G A B) : intersects G A B = !contains G A.invert B :=
  intersects_eq_not_invert_contains h A B hy.inv hy.side

/-- A contains B iff the complement of B contains the complement of A. -/
theorem loop_contains_iff_complements_reversed (h : SgLaws G) (A B : Loop α)
    (hB : B.invert.containsPoint G (A.invert.vertex G 0) = !B.containsPoint G (A.vertex G 0))
    (hA : A.invert.containsPoint G (B.invert.vertex G 0) = !A.containsPoint G (B.vertex G 0)) :
    contains G A B = contains G B.invert A.invert :=
  contains_eq_invert_contains_invert h A B hB hA

/- The single-loop polygon answers are the loop answers: at model level this is the `len == 1`
   branch of polygon.go, i.e. true by definition (hence an `example`, not a theorem); on the
   implementation it is the `poly` clause judged by the oracle on every `rel` line. -/
example (A B : Loop α) :
    Polygon.contains G ⟨[A]⟩ ⟨[B]⟩ = contains G A B ∧
    Polygon.intersects G ⟨[A]⟩ ⟨[B]⟩ = intersects G A B := ⟨rfl, rfl⟩

end relations

-- non-vacuity of (b): concrete loops on `geo5` (see S2Proofs/C07/RelateLaws.lean: `pent5`, `tri5`,
-- `simpleLoop_pent5`, and the applications of both complement laws with hypotheses by `decide`)
example : contains geo5 pent5 pent5 = true ∧ intersects geo5 pent5 pent5 = true :=
  loop_reflexive sgLaws_geo5 pent5 simpleLoop_pent5

/-! ## (c) nesting -/
section nesting
open Nest
variable {c : Nat → Nat → Bool}

/-- every loop appears exactly once in the output of `initNested` -/
theorem nesting_every_loop_once (hc : Laminar c) {order : List Nat} (hnd : order.Nodup) :
    ((initNested c order).map Prod.fst).Perm order := initNested_perm hc hnd

/-- the depth assigned to a loop is the number of loops that contain it — for EVERY insertion order -/
theorem nesting_depth_eq_enclosing_count (hc : Laminar c) {order : List Nat} (hnd : order.Nodup) :
    ∀ p ∈ initNested c order, p.2 = (order.filter (fun x => c x p.1)).length :=
  initNested_depth hc hnd

/-- a loop is a hole (`depth & 1 != 0`) exactly when an odd number of the other loops enclose it -/
theorem nesting_hole_iff_odd_enclosing (hc : Laminar c) {order : List Nat} (hnd : order.Nodup) :
    ∀ p ∈ initNested c order,
      (isHole p.2 = true ↔ (order.filter (fun x => c x p.1)).length % 2 = 1) :=
  initNested_isHole hc hnd

/-- pre-order layout: the maximal run of deeper entries that follows a loop x consists exactly of the
    loops contained in x (so every loop is immediately followed by its descendants, contiguously) -/
theorem nesting_preorder_contiguous (hc : Laminar c) {order : List Nat} (hnd : order.Nodup)
    (pre : List (Nat × Nat)) (x d : Nat) (post : List (Nat × Nat))
    (hr : initNested c order = pre ++ (x, d) :: post) :
    ∀ y, y ∈ (post.takeWhile (fun p => p.2 > d)).map Prod.fst ↔ (y ∈ order ∧ c x y = true) :=
  initNested_preorder hc hnd pre x d post hr

/-- `Polygon.LastDescendant(k)` = k + number of loops contained in loop k -/
theorem nesting_lastDescendant (hc : Laminar c) {order : List Nat} (hnd : order.Nodup)
    (k : Nat) (hk : k < (initNested c order).length) :
    lastDescendant ((initNested c order).map Prod.snd) k =
      k + (order.filter (fun y => c ((initNested c order)[k]).1 y)).length :=
  initNested_lastDescendant hc hnd k hk

-- non-vacuity: `cEx` (two shells, a hole, an island) is laminar; two insertion orders give
-- different loop orders but the same depths
example : Laminar cEx := cEx_laminar
example : initNested cEx [0,1,2,3,4] = [(0,0),(1,1),(2,2),(3,0),(4,1)] := by decide
example : initNested cEx [4,2,3,1,0] = [(3,0),(4,1),(0,0),(1,1),(2,2)] := by decide

end nesting

/-! ## statements that are NOT proved (kept visible; decided by correspondence on every run) -/

/-- The implementation's answers (index walk + bounding rectangles) equal the exact relation.
    Tied by the oracle ops `rel`, `nest`, `prel`; FALSE on the tree before fix_D1 (finding D1). -/
def IndexWalkAgrees {α : Type} [DecidableEq α] (G : Geo α)
    (implContains implIntersects : Loop α → Loop α → Bool) : Prop :=
  ∀ A B, implContains A B = contains G A B ∧ implIntersects A B = intersects G A B

/-- The exact relation is the point-set relation: for simple loops, `contains` holds only if no
    point of B lies outside A, `intersects` fails only if no point is shared.  Needs the Jordan
    curve theorem on the sphere; sampled by the oracle (`sound-con`, `sound-dis`). -/
def ExactRelationIsPointSet {α : Type} [DecidableEq α] (G : Geo α) : Prop :=
  ∀ A B : Loop α, SimpleLoop G A → SimpleLoop G B →
    (contains G A B = true → ∀ p, B.containsPoint G p = true → A.containsPoint G p = true) ∧
    (intersects G A B = false → ∀ p, ¬ (A.containsPoint G p = true ∧ B.containsPoint G p = true))

/-- The complement laws for multi-loop polygons (`Polygon.contains` / `Polygon.intersects` through
    boundary comparison); exercised by the oracle op `prel`, not proved. -/
def PolygonComplementLaws {α : Type} [DecidableEq α] (G : Geo α)
    (complement : Polygon α → Polygon α) : Prop :=
  ∀ P Q, Polygon.intersects G P Q = !Polygon.contains G (complement P) Q ∧
         Polygon.contains G P Q = Polygon.contains G (complement Q) (complement P)

end S2Proofs.C07
