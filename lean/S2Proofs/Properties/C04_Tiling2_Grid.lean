/-
  Property C04: the cells of ONE face at one level as a grid — `cellLoops_count_le_one` reduced to orientations
  that have at least one full cell width of margin.

  A face at level k is a grid of `n × n` cells (`n = 2^k`) over an `(n+1) × (n+1)` array of float vertices
  `V i j` (= `Cell.Vertex`; neighbours read the SAME array entry, so shared vertices are bit-identical within a face).
  `GridHyp`: every cell is a convex counter-clockwise quadrilateral (`CellQuad`), and three families of
  orientations hold: every grid vertex two or more rows above the top edge of a cell is strictly on its outer side
  (`top`), likewise below the bottom edge (`bot`) and two or more columns to the right of the right edge (`right`).
  None of these compares a vertex with a great circle it (nearly) lies on: every vertex involved is at least one
  full cell away from the edge line.  THEN every two cells of the grid are edge-separated (`grid_pair_edgeSep_exact`:
  edge neighbours by convexity alone, the two kinds of diagonal neighbours whatever the sign of the one
  rounding-sensitive orientation, all other pairs by one edge), hence at most one cell loop of the face contains a
  point that is not `==` to a vertex (`grid_cells_count_le_one_exact`).
  What is left for "all levels": `GridHyp` for the real `Cell.Vertex` array (error analysis of st→uv→xyz→Normalize),
  and the pairs of cells on different faces.
-/
import S2Proofs.Properties.C04_Tiling2
namespace S2Proofs.C04
open S2 S2.Contain S2.Pred S2.Exact S2Proofs.Contain S2Proofs.F64Order S2Proofs.ExactLaws

/-! ## 1. the second kind of diagonal neighbours -/

/-- **Anti-diagonal neighbours are always edge-separated**: `q` and `q'` share only the vertex `q.v1 == q'.v3`
    (uv corners (hi,lo) of `q`, (lo,hi) of `q'`).  Whatever the orientation of the three nearly collinear vertices
    `q.v0`, `q.v1`, `q'.v2`, `q`'s bottom edge or `q'`'s top edge separates, GIVEN four orientations with a full cell
    of margin. -/
theorem antidiagonal_edgeSep_exact {q q' : Q4} (hq : q.OK) (hq' : q'.OK) (hx : V3.feq q.v1 q'.v3 = true)
    (c1 : exactDecision q.v0 q.v1 q'.v0 = -1) (c2 : exactDecision q.v0 q.v1 q'.v1 = -1)
    (d1 : exactDecision q'.v2 q'.v3 q.v2 = -1) (d2 : exactDecision q'.v2 q'.v3 q.v3 = -1) :
    edgeSep q q' = true := by
  have h0 := hq.1
  have h1 := hq.2.1
  have h2 := hq.2.2.1
  have h3 := hq.2.2.2.1
  have k0 := hq'.1
  have k1 := hq'.2.1
  have k2 := hq'.2.2.1
  have k3 := hq'.2.2.2.1
  by_cases hs : exactDecision q.v0 q.v1 q'.v2 = 1
  · -- `q'`'s top edge separates
    have he' : (q'.v2, q'.v3) ∈ q'.edges := by simp [Q4.edges]
    have hsep : sepByB q'.v3 q'.v2 q q' = true := by
      have sw : ∀ {y : V3}, Fin3 y → exactDecision q'.v3 q'.v2 y = -exactDecision q'.v2 q'.v3 y :=
        fun hy => E_swap12 k2 k3 hy
      have y0 : exactDecision q'.v2 q'.v3 q.v0 = -1 := by
        rw [E_congr k2 k3 h0 k2 h1 h0 (feq_refl k2) (feq_symm h1 k3 hx) (feq_refl h0), E_swap13 h0 h1 k2, hs]
      have y1 : exactDecision q'.v2 q'.v3 q.v1 = 0 :=
        (E_zero_iff k2 k3 h1).2 (Or.inr (Or.inl (feq_symm h1 k3 hx)))
      simp only [sepByB, Bool.and_eq_true, Bool.not_eq_true', List.all_eq_true, bne_iff_ne, ne_eq]
      refine ⟨⟨?_, fun y hy => ?_⟩, fun y hy => ?_⟩
      · rw [feq_comm k3 k2]; exact (own_edge_side_exact hq' he' (by simp [Q4.verts] : q'.v2 ∈ q'.verts)).2
      · simp only [Q4.verts, List.mem_cons, List.not_mem_nil, or_false] at hy
        rcases hy with rfl | rfl | rfl | rfl
        · rw [sw h0, y0]; decide
        · rw [sw h1, y1]; decide
        · rw [sw h2, d1]; decide
        · rw [sw h3, d2]; decide
      · have fy : Fin3 y := by
          simp only [Q4.verts, List.mem_cons, List.not_mem_nil, or_false] at hy
          rcases hy with rfl | rfl | rfl | rfl <;> assumption
        have := (own_edge_side_exact hq' he' hy).1
        rw [sw fy]
        show ¬ -exactDecision q'.v2 q'.v3 y = 1
        have : exactDecision q'.v2 q'.v3 y ≠ -1 := this
        omega
    simp only [edgeSep, Bool.or_eq_true, List.any_eq_true]
    exact Or.inr ⟨(q'.v2, q'.v3), he', hsep⟩
  · -- `q`'s bottom edge separates
    refine far_edgeSep_exact hq (e := (q.v0, q.v1)) (by simp [Q4.edges]) (fun y hy => ?_)
    simp only [Q4.verts, List.mem_cons, List.not_mem_nil, or_false] at hy
    rcases hy with rfl | rfl | rfl | rfl
    · show exactDecision q.v0 q.v1 q'.v0 ≠ 1
      rw [c1]; decide
    · show exactDecision q.v0 q.v1 q'.v1 ≠ 1
      rw [c2]; decide
    · exact hs
    · show exactDecision q.v0 q.v1 q'.v3 ≠ 1
      rw [(E_zero_iff h0 h1 k3).2 (Or.inr (Or.inl hx))]; decide

/-! ## 2. the grid of one face -/

/-- the cell `(i,j)` of a vertex array: `Cell.Vertex(0..3)` = corners (lo,lo), (hi,lo), (hi,hi), (lo,hi) -/
def gcell (V : Nat → Nat → V3) (i j : Nat) : Q4 := ⟨V i j, V (i + 1) j, V (i + 1) (j + 1), V i (j + 1)⟩

/-- the `n × n` cells of the grid, column by column -/
def gridCells (V : Nat → Nat → V3) (n : Nat) : List Q4 :=
  (List.range n).flatMap fun i => (List.range n).map fun j => gcell V i j

/-- convex cells, and the orientations with at least one full cell of margin -/
structure GridHyp (V : Nat → Nat → V3) (n : Nat) : Prop where
  ok : ∀ i j, i < n → j < n → (gcell V i j).OK
  top : ∀ i j a b, i < n → j < n → a ≤ n → b ≤ n → j + 2 ≤ b →
    exactDecision (V (i + 1) (j + 1)) (V i (j + 1)) (V a b) = -1
  bot : ∀ i j a b, i < n → j < n → a ≤ n → b ≤ n → b + 1 ≤ j →
    exactDecision (V i j) (V (i + 1) j) (V a b) = -1
  right : ∀ i j a b, i < n → j < n → a ≤ n → b ≤ n → i + 2 ≤ a →
    exactDecision (V (i + 1) j) (V (i + 1) (j + 1)) (V a b) = -1

section grid
variable {V : Nat → Nat → V3} {n : Nat}

private theorem gverts {i j : Nat} {y : V3} (hy : y ∈ (gcell V i j).verts) :
    y = V i j ∨ y = V (i + 1) j ∨ y = V (i + 1) (j + 1) ∨ y = V i (j + 1) := by
  simpa [Q4.verts, gcell] using hy

/-- **Every two cells of the grid are edge-separated.** -/
theorem grid_pair_edgeSep_exact (h : GridHyp V n) {i j i' j' : Nat} (hi : i < n) (hj : j < n) (hi' : i' < n)
    (hj' : j' < n) (hlt : i < i' ∨ (i = i' ∧ j < j')) :
    edgeSep (gcell V i j) (gcell V i' j') = true := by
  have hq := h.ok i j hi hj
  have hq' := h.ok i' j' hi' hj'
  -- far above: the top edge
  have farTop : j + 2 ≤ j' → edgeSep (gcell V i j) (gcell V i' j') = true := by
    intro hjj
    refine far_edgeSep_exact hq (e := (V (i + 1) (j + 1), V i (j + 1))) (by simp [Q4.edges, gcell])
      (fun y hy => ?_)
    rcases gverts hy with rfl | rfl | rfl | rfl <;>
      (rw [h.top i j _ _ hi hj (by omega) (by omega) (by omega)]; decide)
  rcases hlt with hlt | ⟨rfl, hlt⟩
  · by_cases hfar : i + 2 ≤ i'
    · -- two or more columns to the right: the right edge
      refine far_edgeSep_exact hq (e := (V (i + 1) j, V (i + 1) (j + 1))) (by simp [Q4.edges, gcell])
        (fun y hy => ?_)
      rcases gverts hy with rfl | rfl | rfl | rfl <;>
        (rw [h.right i j _ _ hi hj (by omega) (by omega) (by omega)]; decide)
    · obtain rfl : i' = i + 1 := by omega
      by_cases c1 : j + 2 ≤ j'
      · exact farTop c1
      by_cases c2 : j' = j + 1
      · subst c2
        -- diagonal
        refine diagonal_edgeSep_exact hq hq' (feq_refl hq.2.2.1) ?_ ?_ ?_ ?_
        · exact h.top i j (i + 1 + 1) (j + 1 + 1) hi hj (by omega) (by omega) (by omega)
        · exact h.top i j (i + 1) (j + 1 + 1) hi hj (by omega) (by omega) (by omega)
        · exact h.bot (i + 1) (j + 1) i j hi' hj' (by omega) (by omega) (by omega)
        · exact h.bot (i + 1) (j + 1) (i + 1) j hi' hj' (by omega) (by omega) (by omega)
      by_cases c3 : j' = j
      · subst c3
        -- the common edge `V (i+1) j' → V (i+1) (j'+1)`
        exact shared_edge_edgeSep_exact (a := V (i + 1) j') (b := V (i + 1) (j' + 1)) (a' := V (i + 1) j')
          (b' := V (i + 1) (j' + 1)) hq hq' (by simp [Q4.edges, gcell]) (by simp [Q4.edges, gcell])
          (feq_refl hq.2.1) (feq_refl hq.2.2.1)
      by_cases c4 : j' + 1 = j
      · subst c4
        -- anti-diagonal
        refine antidiagonal_edgeSep_exact hq hq' (feq_refl hq.2.1) ?_ ?_ ?_ ?_
        · exact h.bot i (j' + 1) (i + 1) j' hi hj (by omega) (by omega) (by omega)
        · exact h.bot i (j' + 1) (i + 1 + 1) j' hi hj (by omega) (by omega) (by omega)
        · exact h.top (i + 1) j' (i + 1) (j' + 1 + 1) hi' hj' (by omega) (by omega) (by omega)
        · exact h.top (i + 1) j' i (j' + 1 + 1) hi' hj' (by omega) (by omega) (by omega)
      · -- two or more rows below: the bottom edge
        refine far_edgeSep_exact hq (e := (V i j, V (i + 1) j)) (by simp [Q4.edges, gcell]) (fun y hy => ?_)
        rcases gverts hy with rfl | rfl | rfl | rfl <;>
          (rw [h.bot i j _ _ hi hj (by omega) (by omega) (by omega)]; decide)
  · by_cases c1 : j + 2 ≤ j'
    · exact farTop c1
    · obtain rfl : j' = j + 1 := by omega
      -- the common edge `V (i+1) (j+1) → V i (j+1)`
      exact shared_edge_edgeSep_exact (a := V (i + 1) (j + 1)) (b := V i (j + 1)) (a' := V (i + 1) (j + 1))
        (b' := V i (j + 1)) hq hq' (by simp [Q4.edges, gcell]) (by simp [Q4.edges, gcell])
        (feq_refl hq.2.2.1) (feq_refl hq.2.2.2.1)

private theorem pairwiseB_of_pairwise {α : Type} {r : α → α → Bool} {l : List α}
    (h : l.Pairwise (fun a b => r a b = true)) : pairwiseB r l = true := by
  induction l with
  | nil => rfl
  | cons a l ih =>
    rw [List.pairwise_cons] at h
    simp only [pairwiseB, Bool.and_eq_true, List.all_eq_true]
    exact ⟨h.1, ih h.2⟩

/-- the separation certificate of the whole grid -/
theorem grid_edgeSepAll_exact (h : GridHyp V n) : edgeSepAll (gridCells V n) = true := by
  apply pairwiseB_of_pairwise
  unfold gridCells
  rw [List.pairwise_flatMap]
  constructor
  · intro i hi
    rw [List.pairwise_map]
    refine List.Pairwise.imp_of_mem ?_ (List.pairwise_lt_range (n := n))
    intro j j' hj hj' hlt
    exact grid_pair_edgeSep_exact h (List.mem_range.1 hi) (List.mem_range.1 hj) (List.mem_range.1 hi)
      (List.mem_range.1 hj') (Or.inr ⟨rfl, hlt⟩)
  · refine List.Pairwise.imp_of_mem ?_ (List.pairwise_lt_range (n := n))
    intro i i' hi hi' hlt x hx y hy
    obtain ⟨j, hj, rfl⟩ := List.mem_map.1 hx
    obtain ⟨j', hj', rfl⟩ := List.mem_map.1 hy
    exact grid_pair_edgeSep_exact h (List.mem_range.1 hi) (List.mem_range.1 hj) (List.mem_range.1 hi')
      (List.mem_range.1 hj') (Or.inl hlt)

/-- **The cell loops of one face at one level: at most one contains p** (`cellLoops_count_le_one`), for every
    point that is not `==` to a grid vertex — GIVEN `GridHyp` (convex cells and the orientations with a full cell of
    margin).  No rounding-sensitive orientation is assumed. -/
theorem grid_cells_count_le_one_exact {o p : V3} (h : GridHyp V n) (hd : FamilyDom o (gridCells V n) p) :
    containCount o ((gridCells V n).map (Q4.loop o)) p ≤ 1 :=
  cells_count_le_one_exact hd (grid_edgeSepAll_exact h)

end grid

/-! ## 3. non-vacuity: the 2 × 2 block of level-3 cells `kq0..kq3` as a grid -/

/-- the 3 × 3 vertex array of the four children of the level-2 cell 6989586621679009792 -/
def gV (i j : Nat) : V3 :=
  match i, j with
  | 0, 0 => cP0 | 1, 0 => cM01 | 2, 0 => cP1
  | 0, 1 => cM30 | 1, 1 => cC | 2, 1 => cM12
  | 0, 2 => cP3 | 1, 2 => cM23 | 2, 2 => cP2
  | _, _ => cC

example : gridCells gV 2 = [kq0, kq3, kq1, kq2] := rfl

theorem gridHyp_block : GridHyp gV 2 where
  ok := by
    have : ∀ i < 2, ∀ j < 2, (gcell gV i j).OK := by decide +kernel
    exact fun i j hi hj => this i hi j hj
  top := by
    have : ∀ i < 2, ∀ j < 2, ∀ a < 3, ∀ b < 3, j + 2 ≤ b →
        exactDecision (gV (i + 1) (j + 1)) (gV i (j + 1)) (gV a b) = -1 := by decide +kernel
    exact fun i j a b hi hj ha hb hjb => this i hi j hj a (by omega) b (by omega) hjb
  bot := by
    have : ∀ i < 2, ∀ j < 2, ∀ a < 3, ∀ b < 3, b + 1 ≤ j →
        exactDecision (gV i j) (gV (i + 1) j) (gV a b) = -1 := by decide +kernel
    exact fun i j a b hi hj ha hb hjb => this i hi j hj a (by omega) b (by omega) hjb
  right := by
    have : ∀ i < 2, ∀ j < 2, ∀ a < 3, ∀ b < 3, i + 2 ≤ a →
        exactDecision (gV (i + 1) j) (gV (i + 1) (j + 1)) (gV a b) = -1 := by decide +kernel
    exact fun i j a b hi hj ha hb hia => this i hi j hj a (by omega) b (by omega) hia

example : edgeSepAll (gridCells gV 2) = true := grid_edgeSepAll_exact gridHyp_block

example : containCount originPoint ((gridCells gV 2).map (Q4.loop originPoint)) pE ≤ 1 :=
  grid_cells_count_le_one_exact gridHyp_block (by decide +kernel)

/-! ## 4. a whole face: the 64 cells of level 3 of face 0 -/

/-- the 9 × 9 array of `Cell.Vertex` values of the level-3 cells of face 0, column by column (`i` = u index, `j` = v
    index): `faceUVToXYZ(0, stToUV(i/8), stToUV(j/8)).Normalize()` as the model `S2.CellM` computes them (`#eval`;
    literal bit patterns, as in `C04_Tiling.l1Verts`) -/
def f0L3Tbl : List V3 :=
  [⟨⟨0x3fe279a74590331d⟩, ⟨0xbfe279a74590331d⟩, ⟨0xbfe279a74590331d⟩⟩,
   ⟨⟨0x3fe459a4f05c6bbe⟩, ⟨0xbfe459a4f05c6bbe⟩, ⟨0xbfdbfb42ca7f1425⟩⟩,
   ⟨⟨0x3fe5b47879588362⟩, ⟨0xbfe5b47879588362⟩, ⟨0xbfd21664651f1827⟩⟩,
   ⟨⟨0x3fe66e5e5b333a8d⟩, ⟨0xbfe66e5e5b333a8d⟩, ⟨0xbfc0d2c6c4666bea⟩⟩,
   ⟨⟨0x3fe6a09e667f3bcc⟩, ⟨0xbfe6a09e667f3bcc⟩, ⟨0x0⟩⟩,
   ⟨⟨0x3fe66e5e5b333a8d⟩, ⟨0xbfe66e5e5b333a8d⟩, ⟨0x3fc0d2c6c4666bea⟩⟩,
   ⟨⟨0x3fe5b47879588362⟩, ⟨0xbfe5b47879588362⟩, ⟨0x3fd21664651f1827⟩⟩,
   ⟨⟨0x3fe459a4f05c6bbe⟩, ⟨0xbfe459a4f05c6bbe⟩, ⟨0x3fdbfb42ca7f1425⟩⟩,
   ⟨⟨0x3fe279a74590331d⟩, ⟨0xbfe279a74590331d⟩, ⟨0x3fe279a74590331d⟩⟩,
   ⟨⟨0x3fe459a4f05c6bbe⟩, ⟨0xbfdbfb42ca7f1425⟩, ⟨0xbfe459a4f05c6bbe⟩⟩,
   ⟨⟨0x3fe6f17a0d23512d⟩, ⟨0xbfdf8c07d2108f9e⟩, ⟨0xbfdf8c07d2108f9e⟩⟩,
   ⟨⟨0x3fe8f0b06e020edf⟩, ⟨0xbfe125794ba16a39⟩, ⟨0xbfd4c89306570c64⟩⟩,
   ⟨⟨0x3fea0f639efb9e4d⟩, ⟨0xbfe1ea947d4cfcd5⟩, ⟨0xbfc38b8ab73cb6ba⟩⟩,
   ⟨⟨0x3fea5e8d2b5f03a5⟩, ⟨0xbfe221010dd15281⟩, ⟨0x0⟩⟩,
   ⟨⟨0x3fea0f639efb9e4d⟩, ⟨0xbfe1ea947d4cfcd5⟩, ⟨0x3fc38b8ab73cb6ba⟩⟩,
   ⟨⟨0x3fe8f0b06e020edf⟩, ⟨0xbfe125794ba16a39⟩, ⟨0x3fd4c89306570c64⟩⟩,
   ⟨⟨0x3fe6f17a0d23512d⟩, ⟨0xbfdf8c07d2108f9e⟩, ⟨0x3fdf8c07d2108f9e⟩⟩,
   ⟨⟨0x3fe459a4f05c6bbe⟩, ⟨0xbfdbfb42ca7f1425⟩, ⟨0x3fe459a4f05c6bbe⟩⟩,
   ⟨⟨0x3fe5b47879588362⟩, ⟨0xbfd21664651f1827⟩, ⟨0xbfe5b47879588362⟩⟩,
   ⟨⟨0x3fe8f0b06e020edf⟩, ⟨0xbfd4c89306570c64⟩, ⟨0xbfe125794ba16a39⟩⟩,
   ⟨⟨0x3feb91d0ddac86fe⟩, ⟨0xbfd6f98363651b28⟩, ⟨0xbfd6f98363651b28⟩⟩,
   ⟨⟨0x3fed1b11a5960ab0⟩, ⟨0xbfd841395f525e3d⟩, ⟨0xbfc5d44d3c308804⟩⟩,
   ⟨⟨0x3fed89d89d89d89e⟩, ⟨0xbfd89d89d89d89d8⟩, ⟨0x0⟩⟩,
   ⟨⟨0x3fed1b11a5960ab0⟩, ⟨0xbfd841395f525e3d⟩, ⟨0x3fc5d44d3c308804⟩⟩,
   ⟨⟨0x3feb91d0ddac86fe⟩, ⟨0xbfd6f98363651b28⟩, ⟨0x3fd6f98363651b28⟩⟩,
   ⟨⟨0x3fe8f0b06e020edf⟩, ⟨0xbfd4c89306570c64⟩, ⟨0x3fe125794ba16a39⟩⟩,
   ⟨⟨0x3fe5b47879588362⟩, ⟨0xbfd21664651f1827⟩, ⟨0x3fe5b47879588362⟩⟩,
   ⟨⟨0x3fe66e5e5b333a8d⟩, ⟨0xbfc0d2c6c4666bea⟩, ⟨0xbfe66e5e5b333a8d⟩⟩,
   ⟨⟨0x3fea0f639efb9e4d⟩, ⟨0xbfc38b8ab73cb6ba⟩, ⟨0xbfe1ea947d4cfcd5⟩⟩,
   ⟨⟨0x3fed1b11a5960ab0⟩, ⟨0xbfc5d44d3c308804⟩, ⟨0xbfd841395f525e3d⟩⟩,
   ⟨⟨0x3feeee595eba94dd⟩, ⟨0xbfc732c3070befa6⟩, ⟨0xbfc732c3070befa6⟩⟩,
   ⟨⟨0x3fef73b05f60fd39⟩, ⟨0xbfc796c44788bdeb⟩, ⟨0x0⟩⟩,
   ⟨⟨0x3feeee595eba94dd⟩, ⟨0xbfc732c3070befa6⟩, ⟨0x3fc732c3070befa6⟩⟩,
   ⟨⟨0x3fed1b11a5960ab0⟩, ⟨0xbfc5d44d3c308804⟩, ⟨0x3fd841395f525e3d⟩⟩,
   ⟨⟨0x3fea0f639efb9e4d⟩, ⟨0xbfc38b8ab73cb6ba⟩, ⟨0x3fe1ea947d4cfcd5⟩⟩,
   ⟨⟨0x3fe66e5e5b333a8d⟩, ⟨0xbfc0d2c6c4666bea⟩, ⟨0x3fe66e5e5b333a8d⟩⟩,
   ⟨⟨0x3fe6a09e667f3bcc⟩, ⟨0x0⟩, ⟨0xbfe6a09e667f3bcc⟩⟩,
   ⟨⟨0x3fea5e8d2b5f03a5⟩, ⟨0x0⟩, ⟨0xbfe221010dd15281⟩⟩,
   ⟨⟨0x3fed89d89d89d89e⟩, ⟨0x0⟩, ⟨0xbfd89d89d89d89d8⟩⟩,
   ⟨⟨0x3fef73b05f60fd39⟩, ⟨0x0⟩, ⟨0xbfc796c44788bdeb⟩⟩,
   ⟨⟨0x3ff0000000000000⟩, ⟨0x0⟩, ⟨0x0⟩⟩,
   ⟨⟨0x3fef73b05f60fd39⟩, ⟨0x0⟩, ⟨0x3fc796c44788bdeb⟩⟩,
   ⟨⟨0x3fed89d89d89d89e⟩, ⟨0x0⟩, ⟨0x3fd89d89d89d89d8⟩⟩,
   ⟨⟨0x3fea5e8d2b5f03a5⟩, ⟨0x0⟩, ⟨0x3fe221010dd15281⟩⟩,
   ⟨⟨0x3fe6a09e667f3bcc⟩, ⟨0x0⟩, ⟨0x3fe6a09e667f3bcc⟩⟩,
   ⟨⟨0x3fe66e5e5b333a8d⟩, ⟨0x3fc0d2c6c4666bea⟩, ⟨0xbfe66e5e5b333a8d⟩⟩,
   ⟨⟨0x3fea0f639efb9e4d⟩, ⟨0x3fc38b8ab73cb6ba⟩, ⟨0xbfe1ea947d4cfcd5⟩⟩,
   ⟨⟨0x3fed1b11a5960ab0⟩, ⟨0x3fc5d44d3c308804⟩, ⟨0xbfd841395f525e3d⟩⟩,
   ⟨⟨0x3feeee595eba94dd⟩, ⟨0x3fc732c3070befa6⟩, ⟨0xbfc732c3070befa6⟩⟩,
   ⟨⟨0x3fef73b05f60fd39⟩, ⟨0x3fc796c44788bdeb⟩, ⟨0x0⟩⟩,
   ⟨⟨0x3feeee595eba94dd⟩, ⟨0x3fc732c3070befa6⟩, ⟨0x3fc732c3070befa6⟩⟩,
   ⟨⟨0x3fed1b11a5960ab0⟩, ⟨0x3fc5d44d3c308804⟩, ⟨0x3fd841395f525e3d⟩⟩,
   ⟨⟨0x3fea0f639efb9e4d⟩, ⟨0x3fc38b8ab73cb6ba⟩, ⟨0x3fe1ea947d4cfcd5⟩⟩,
   ⟨⟨0x3fe66e5e5b333a8d⟩, ⟨0x3fc0d2c6c4666bea⟩, ⟨0x3fe66e5e5b333a8d⟩⟩,
   ⟨⟨0x3fe5b47879588362⟩, ⟨0x3fd21664651f1827⟩, ⟨0xbfe5b47879588362⟩⟩,
   ⟨⟨0x3fe8f0b06e020edf⟩, ⟨0x3fd4c89306570c64⟩, ⟨0xbfe125794ba16a39⟩⟩,
   ⟨⟨0x3feb91d0ddac86fe⟩, ⟨0x3fd6f98363651b28⟩, ⟨0xbfd6f98363651b28⟩⟩,
   ⟨⟨0x3fed1b11a5960ab0⟩, ⟨0x3fd841395f525e3d⟩, ⟨0xbfc5d44d3c308804⟩⟩,
   ⟨⟨0x3fed89d89d89d89e⟩, ⟨0x3fd89d89d89d89d8⟩, ⟨0x0⟩⟩,
   ⟨⟨0x3fed1b11a5960ab0⟩, ⟨0x3fd841395f525e3d⟩, ⟨0x3fc5d44d3c308804⟩⟩,
   ⟨⟨0x3feb91d0ddac86fe⟩, ⟨0x3fd6f98363651b28⟩, ⟨0x3fd6f98363651b28⟩⟩,
   ⟨⟨0x3fe8f0b06e020edf⟩, ⟨0x3fd4c89306570c64⟩, ⟨0x3fe125794ba16a39⟩⟩,
   ⟨⟨0x3fe5b47879588362⟩, ⟨0x3fd21664651f1827⟩, ⟨0x3fe5b47879588362⟩⟩,
   ⟨⟨0x3fe459a4f05c6bbe⟩, ⟨0x3fdbfb42ca7f1425⟩, ⟨0xbfe459a4f05c6bbe⟩⟩,
   ⟨⟨0x3fe6f17a0d23512d⟩, ⟨0x3fdf8c07d2108f9e⟩, ⟨0xbfdf8c07d2108f9e⟩⟩,
   ⟨⟨0x3fe8f0b06e020edf⟩, ⟨0x3fe125794ba16a39⟩, ⟨0xbfd4c89306570c64⟩⟩,
   ⟨⟨0x3fea0f639efb9e4d⟩, ⟨0x3fe1ea947d4cfcd5⟩, ⟨0xbfc38b8ab73cb6ba⟩⟩,
   ⟨⟨0x3fea5e8d2b5f03a5⟩, ⟨0x3fe221010dd15281⟩, ⟨0x0⟩⟩,
   ⟨⟨0x3fea0f639efb9e4d⟩, ⟨0x3fe1ea947d4cfcd5⟩, ⟨0x3fc38b8ab73cb6ba⟩⟩,
   ⟨⟨0x3fe8f0b06e020edf⟩, ⟨0x3fe125794ba16a39⟩, ⟨0x3fd4c89306570c64⟩⟩,
   ⟨⟨0x3fe6f17a0d23512d⟩, ⟨0x3fdf8c07d2108f9e⟩, ⟨0x3fdf8c07d2108f9e⟩⟩,
   ⟨⟨0x3fe459a4f05c6bbe⟩, ⟨0x3fdbfb42ca7f1425⟩, ⟨0x3fe459a4f05c6bbe⟩⟩,
   ⟨⟨0x3fe279a74590331d⟩, ⟨0x3fe279a74590331d⟩, ⟨0xbfe279a74590331d⟩⟩,
   ⟨⟨0x3fe459a4f05c6bbe⟩, ⟨0x3fe459a4f05c6bbe⟩, ⟨0xbfdbfb42ca7f1425⟩⟩,
   ⟨⟨0x3fe5b47879588362⟩, ⟨0x3fe5b47879588362⟩, ⟨0xbfd21664651f1827⟩⟩,
   ⟨⟨0x3fe66e5e5b333a8d⟩, ⟨0x3fe66e5e5b333a8d⟩, ⟨0xbfc0d2c6c4666bea⟩⟩,
   ⟨⟨0x3fe6a09e667f3bcc⟩, ⟨0x3fe6a09e667f3bcc⟩, ⟨0x0⟩⟩,
   ⟨⟨0x3fe66e5e5b333a8d⟩, ⟨0x3fe66e5e5b333a8d⟩, ⟨0x3fc0d2c6c4666bea⟩⟩,
   ⟨⟨0x3fe5b47879588362⟩, ⟨0x3fe5b47879588362⟩, ⟨0x3fd21664651f1827⟩⟩,
   ⟨⟨0x3fe459a4f05c6bbe⟩, ⟨0x3fe459a4f05c6bbe⟩, ⟨0x3fdbfb42ca7f1425⟩⟩,
   ⟨⟨0x3fe279a74590331d⟩, ⟨0x3fe279a74590331d⟩, ⟨0x3fe279a74590331d⟩⟩]

def f0L3V (i j : Nat) : V3 := f0L3Tbl.getD (i * 9 + j) default

private theorem f0L3_ok : ∀ i < 8, ∀ j < 8, (gcell f0L3V i j).OK := by decide +kernel
private theorem f0L3_top : ∀ i < 8, ∀ j < 8, ∀ a < 9, ∀ b < 9, j + 2 ≤ b →
    exactDecision (f0L3V (i + 1) (j + 1)) (f0L3V i (j + 1)) (f0L3V a b) = -1 := by decide +kernel
private theorem f0L3_bot : ∀ i < 8, ∀ j < 8, ∀ a < 9, ∀ b < 9, b + 1 ≤ j →
    exactDecision (f0L3V i j) (f0L3V (i + 1) j) (f0L3V a b) = -1 := by decide +kernel
private theorem f0L3_right : ∀ i < 8, ∀ j < 8, ∀ a < 9, ∀ b < 9, i + 2 ≤ a →
    exactDecision (f0L3V (i + 1) j) (f0L3V (i + 1) (j + 1)) (f0L3V a b) = -1 := by decide +kernel

/-- `GridHyp` for the real vertices: 64 convexity checks and 3 · 2016 orientations with a full cell of margin
    (instead of the 2016 pairs of cells with up to 64 orientations each) -/
theorem gridHyp_f0L3 : GridHyp f0L3V 8 where
  ok := fun i j hi hj => f0L3_ok i hi j hj
  top := fun i j a b hi hj ha hb hjb => f0L3_top i hi j hj a (by omega) b (by omega) hjb
  bot := fun i j a b hi hj ha hb hjb => f0L3_bot i hi j hj a (by omega) b (by omega) hjb
  right := fun i j a b hi hj ha hb hia => f0L3_right i hi j hj a (by omega) b (by omega) hia

/-- **The 64 cell loops of level 3 of face 0: at most one contains p**, for every `PtOK` point that is not `==` to
    one of the 81 vertices (points on the cell edges included). -/
theorem face0_level3_count_le_one_exact {p : V3} (hd : FamilyDom originPoint (gridCells f0L3V 8) p) :
    containCount originPoint ((gridCells f0L3V 8).map (Q4.loop originPoint)) p ≤ 1 :=
  grid_cells_count_le_one_exact gridHyp_f0L3 hd

/-- non-vacuity: (4,1,2) in general position, and (2,0,1) exactly ON the grid line u = 0 (the great circle y = 0 of the
    cell edges between columns 3 and 4: exact determinant 0 against those edges) — both satisfy the input class, and
    the second point is on the inner side of exactly one of the two cells that share the edge it lies on -/
example : FamilyDom originPoint (gridCells f0L3V 8) ⟨⟨0x4010000000000000⟩, f1, f2⟩ := by decide +kernel

private theorem f0L3_dom_edge : FamilyDom originPoint (gridCells f0L3V 8) ⟨f2, f0, f1⟩ := by decide +kernel

example : detSign (f0L3V 4 6) (f0L3V 4 7) ⟨f2, f0, f1⟩ = 0 ∧
    ((gcell f0L3V 3 6).inner ⟨f2, f0, f1⟩ != (gcell f0L3V 4 6).inner ⟨f2, f0, f1⟩) = true := by decide +kernel

example : containCount originPoint ((gridCells f0L3V 8).map (Q4.loop originPoint)) ⟨f2, f0, f1⟩ ≤ 1 :=
  face0_level3_count_le_one_exact f0L3_dom_edge

end S2Proofs.C04
