/-
  S2Proofs.Properties.C01 — the cell-id algebra of `s2/cellid.go` (model `S2.CellID`):
  canonical form, hierarchy, children, curve steps.

  Sample cell used in the non-vacuity examples:
  `5404319552844595200 = 2·2^61 + (2·5+1)·2^56`  (face 2, level 2, curve index 5 on its face).
-/
import S2Proofs.CellIDAlgebraAdvance
open S2 S2.CellID
namespace S2Proofs.C01

/-! ## Group 1 — canonical form -/

/-- A word is a valid cell id iff it has a unique decomposition
    `face·2^61 + (2·c+1)·2^(60−2·level)` with `face < 6`, `level ≤ 30`, `c < 4^level`. -/
theorem canonical (id : CellID) :
    isValid id = true ↔ ∃! p : Nat × Nat × Nat, p.1 < 6 ∧ p.2.1 ≤ 30 ∧ p.2.2 < 4^p.2.1 ∧
      id.toNat = p.1 * 2^61 + (2*p.2.2+1) * 2^(60 - 2*p.2.1) := by
  rw [isValid_iff]
  constructor
  · rintro ⟨k, h⟩
    obtain ⟨hk, f, c, hf, hc, hx⟩ := (isCell_iff_canonical id k).mp h
    refine ⟨(f, k, c), ⟨hf, hk, hc, hx⟩, ?_⟩
    rintro ⟨f', k', c'⟩ ⟨hf', hk', hc', hx'⟩
    simp only at hf' hk' hc' hx'
    have h' := isCell_of_canonical hf' hk' hc' hx'
    have := h.unique h'
    subst this
    obtain ⟨e1, e2⟩ := canonical_fc hf hk hc hx
    obtain ⟨e1', e2'⟩ := canonical_fc hf' hk hc' hx'
    rw [e1, e2, e1', e2']
  · rintro ⟨⟨f, k, c⟩, ⟨hf, hk, hc, hx⟩, _⟩
    exact ⟨k, isCell_of_canonical hf hk hc hx⟩

example : isValid (5404319552844595200 : CellID) = true := by decide
example : (5404319552844595200 : CellID).toNat = 2 * 2^61 + (2*5+1) * 2^(60 - 2*2) := by decide
example : isValid (0 : CellID) = false ∧ isValid sentinel = false ∧
    isValid (5440348349863559168 : CellID) = false := by decide

/-- In canonical form: the word is valid, and `face`, `level`, `pos` read off the components. -/
theorem canonical_components (id : CellID) (f k c : Nat) (hf : f < 6) (hk : k ≤ 30) (hc : c < 4^k)
    (h : id.toNat = f * 2^61 + (2*c+1) * 2^(60 - 2*k)) :
    isValid id = true ∧ face id = f ∧ level id = k ∧ (pos id).toNat = (2*c+1) * 2^(60 - 2*k) := by
  have hc' := isCell_of_canonical hf hk hc h
  obtain ⟨e1, _⟩ := canonical_fc hf hk hc h
  refine ⟨(isValid_iff id).mpr ⟨k, hc'⟩, ?_, hc'.level_eq, ?_⟩
  · rw [face_toNat, ← e1]
  · rw [pos_toNat, h]
    interval_cases k <;> cell_omega

example : (2:Nat) < 6 ∧ (2:Nat) ≤ 30 ∧ (5:Nat) < 4^2 ∧
    (5404319552844595200 : CellID).toNat = 2 * 2^61 + (2*5+1) * 2^(60 - 2*2) := by decide

/-- `FromFacePosLevel(face, pos, level)` of the components of a valid id gives the id back. -/
theorem fromFacePosLevel_face_pos_level (id : CellID) (h : isValid id = true) :
    fromFacePosLevel (face id) (pos id) (level id) = id := by
  obtain ⟨k, hc⟩ := (isValid_iff id).mp h
  have hp : (pos id).toNat < 2^61 := by rw [pos_toNat]; omega
  apply UInt64.toNat_inj.mp
  rw [hc.level_eq, fromFacePosLevel_toNat _ _ _ hc.face_lt6 hp hc.k_le, pos_toNat, face_toNat]
  obtain ⟨hk, hf, hlow⟩ := hc
  interval_cases k <;> cell_omega

example : isValid (5404319552844595200 : CellID) = true := by decide

/-- `FromFacePosLevel(f, p, k)` for in-range arguments is the valid level-`k` cell of face `f`
    whose leaf range contains position `p` (low `61−2k` bits of `p` replaced by `10…0`). -/
theorem fromFacePosLevel_spec (f : Nat) (p : UInt64) (k : Nat) (hf : f < 6) (hp : p.toNat < 2^61)
    (hk : k ≤ 30) :
    isValid (fromFacePosLevel f p k) = true ∧ level (fromFacePosLevel f p k) = k ∧
      face (fromFacePosLevel f p k) = f ∧
      (fromFacePosLevel f p k).toNat
        = f * 2^61 + (p.toNat - p.toNat % 2^(61 - 2*k)) + 2^(60 - 2*k) := by
  have hc := fromFacePosLevel_isCell f p k hf hp hk
  refine ⟨(isValid_iff _).mpr ⟨k, hc⟩, hc.level_eq, ?_, fromFacePosLevel_toNat f p k hf hp hk⟩
  rw [face_toNat, fromFacePosLevel_toNat f p k hf hp hk]
  interval_cases k <;> cell_omega

example : (3:Nat) < 6 ∧ (1234567890123 : UInt64).toNat < 2^61 ∧ (17:Nat) ≤ 30 := by decide

/-- `FromFace(f)`: the level-0 cell of face `f`. -/
theorem fromFace_spec (f : Nat) (hf : f < 6) :
    (fromFace f).toNat = f * 2^61 + 2^60 ∧ isValid (fromFace f) = true ∧ level (fromFace f) = 0 ∧
      face (fromFace f) = f ∧ fromFace f = fromFacePosLevel f 0 0 := by
  have hc := fromFace_isCell f hf
  have e := fromFace_toNat f hf
  refine ⟨e, (isValid_iff _).mpr ⟨0, hc⟩, hc.level_eq, ?_, ?_⟩
  · rw [face_toNat, e]; omega
  · apply UInt64.toNat_inj.mp
    rw [e, fromFacePosLevel_toNat f 0 0 hf (by decide) (by omega), zero_toNat]
    omega

example : (4:Nat) < 6 := by decide

/-- The level-0 ancestor of a valid cell is its face cell. -/
theorem parent_zero_eq_fromFace (id : CellID) (h : isValid id = true) :
    parent id 0 = fromFace (face id) := by
  obtain ⟨k, hc⟩ := (isValid_iff id).mp h
  apply UInt64.toNat_inj.mp
  rw [parent_toNat id 0 (by omega), fromFace_toNat _ hc.face_lt6, face_toNat]
  omega

example : isValid (5404319552844595200 : CellID) = true := by decide

/-- `IsFace` ⇔ level 0 (for valid ids). -/
theorem isFace_iff_level_zero (id : CellID) (h : isValid id = true) :
    isFace id = true ↔ level id = 0 := by
  obtain ⟨k, hc⟩ := (isValid_iff id).mp h
  rw [hc.isFace_eq, hc.level_eq]; simp

example : isValid (fromFace 3) = true ∧ isFace (fromFace 3) = true ∧
    isFace (5404319552844595200 : CellID) = false := by decide

/-! ## Group 2 — hierarchy -/

/-- The ancestor at level `j ≤ level id` of a valid cell is a valid cell of level `j` on the same face. -/
theorem parent_spec (id : CellID) (j : Nat) (h : isValid id = true) (hj : j ≤ level id) :
    isValid (parent id j) = true ∧ level (parent id j) = j ∧ face (parent id j) = face id := by
  obtain ⟨k, hc⟩ := (isValid_iff id).mp h
  rw [hc.level_eq] at hj
  have hp := hc.parent_isCell hj
  exact ⟨(isValid_iff _).mpr ⟨j, hp⟩, hp.level_eq, hc.parent_face hp.k_le⟩

example : isValid (5404319552844595200 : CellID) = true ∧ 1 ≤ level (5404319552844595200 : CellID) := by
  decide

/-- The ancestor at its own level is the cell itself. -/
theorem parent_level_self (id : CellID) (h : isValid id = true) : parent id (level id) = id := by
  obtain ⟨k, hc⟩ := (isValid_iff id).mp h
  rw [hc.level_eq]; exact hc.parent_self_id

example : isValid (5404319552844595200 : CellID) = true := by decide

/-- `Parent` composes: for EVERY 64-bit word, `parent (parent id j) i = parent id i` when `i ≤ j ≤ 30`. -/
theorem parent_parent (id : CellID) (i j : Nat) (hij : i ≤ j) (hj : j ≤ 30) :
    parent (parent id j) i = parent id i :=
  S2Proofs.parent_parent id i j hij hj

example : (3:Nat) ≤ 17 ∧ (17:Nat) ≤ 30 := by decide

/-- `Contains` between valid cells is inclusion of leaf ranges. -/
theorem contains_iff_range (a b : CellID) (ha : isValid a = true) (hb : isValid b = true) :
    contains a b = true ↔ rangeMin a ≤ rangeMin b ∧ rangeMax b ≤ rangeMax a := by
  obtain ⟨k, hca⟩ := (isValid_iff a).mp ha
  obtain ⟨j, hcb⟩ := (isValid_iff b).mp hb
  rw [hca.contains_iff_range hcb, UInt64.le_iff_toNat_le, UInt64.le_iff_toNat_le]

example : isValid (5404319552844595200 : CellID) = true ∧ isValid (parent 5404319552844595200 1) = true ∧
    contains (parent 5404319552844595200 1) 5404319552844595200 = true := by decide

/-- `a` contains `b` iff `a` is the ancestor of `b` at `a`'s level. -/
theorem contains_iff_parent (a b : CellID) (ha : isValid a = true) (hb : isValid b = true) :
    contains a b = true ↔ level a ≤ level b ∧ parent b (level a) = a := by
  obtain ⟨k, hca⟩ := (isValid_iff a).mp ha
  obtain ⟨j, hcb⟩ := (isValid_iff b).mp hb
  rw [hca.contains_iff_parent hcb, hca.level_eq, hcb.level_eq]

example : isValid (5404319552844595200 : CellID) = true ∧ isValid (fromFace 2) = true := by decide

theorem contains_refl (a : CellID) (ha : isValid a = true) : contains a a = true := by
  rw [contains_iff_parent a a ha ha]
  exact ⟨Nat.le_refl _, parent_level_self a ha⟩

example : isValid (5404319552844595200 : CellID) = true := by decide

theorem contains_trans (a b c : CellID) (ha : isValid a = true) (hb : isValid b = true)
    (hc : isValid c = true) (hab : contains a b = true) (hbc : contains b c = true) :
    contains a c = true := by
  rw [contains_iff_range a b ha hb] at hab
  rw [contains_iff_range b c hb hc] at hbc
  rw [contains_iff_range a c ha hc]
  exact ⟨UInt64.le_trans hab.1 hbc.1, UInt64.le_trans hbc.2 hab.2⟩

example : contains (fromFace 2) (parent 5404319552844595200 1) = true ∧
    contains (parent 5404319552844595200 1) 5404319552844595200 = true ∧
    isValid (fromFace 2) = true ∧ isValid (parent 5404319552844595200 1) = true ∧
    isValid (5404319552844595200 : CellID) = true := by decide

theorem contains_antisymm (a b : CellID) (ha : isValid a = true) (hb : isValid b = true)
    (hab : contains a b = true) (hba : contains b a = true) : a = b := by
  rw [contains_iff_parent a b ha hb] at hab
  rw [contains_iff_parent b a hb ha] at hba
  have e : level a = level b := Nat.le_antisymm hab.1 hba.1
  have := hab.2
  rw [e, parent_level_self b hb] at this
  exact this.symm

example : isValid (5404319552844595200 : CellID) = true ∧
    contains (5404319552844595200 : CellID) 5404319552844595200 = true := by decide

/-- Laminarity: two valid cells are nested, or their leaf ranges are disjoint. -/
theorem nested_or_disjoint (a b : CellID) (ha : isValid a = true) (hb : isValid b = true) :
    contains a b = true ∨ contains b a = true ∨ rangeMax a < rangeMin b ∨ rangeMax b < rangeMin a := by
  obtain ⟨k, hca⟩ := (isValid_iff a).mp ha
  obtain ⟨j, hcb⟩ := (isValid_iff b).mp hb
  simp only [UInt64.lt_iff_toNat_lt]
  exact hca.nested_or_disjoint hcb

example : isValid (5404319552844595200 : CellID) = true ∧ isValid (fromFace 3) = true ∧
    rangeMax (5404319552844595200 : CellID) < rangeMin (fromFace 3) := by decide

/-- `RangeMin`/`RangeMax` of a valid cell are valid leaf cells inside it, and bracket its id. -/
theorem range_ends_spec (id : CellID) (h : isValid id = true) :
    isValid (rangeMin id) = true ∧ isLeaf (rangeMin id) = true ∧ level (rangeMin id) = 30 ∧
    isValid (rangeMax id) = true ∧ isLeaf (rangeMax id) = true ∧ level (rangeMax id) = 30 ∧
    contains id (rangeMin id) = true ∧ contains id (rangeMax id) = true ∧
    rangeMin id ≤ id ∧ id ≤ rangeMax id := by
  obtain ⟨k, hc⟩ := (isValid_iff id).mp h
  have h1 := hc.rangeMin_isCell
  have h2 := hc.rangeMax_isCell
  have hle := hc.rangeMin_le
  have hmm : (rangeMin id).toNat ≤ (rangeMax id).toNat := Nat.le_trans hle.1 hle.2
  refine ⟨(isValid_iff _).mpr ⟨30, h1⟩, by rw [h1.isLeaf_eq]; rfl, h1.level_eq,
    (isValid_iff _).mpr ⟨30, h2⟩, by rw [h2.isLeaf_eq]; rfl, h2.level_eq, ?_, ?_, ?_, ?_⟩
  · rw [contains_iff]; exact ⟨Nat.le_refl _, hmm⟩
  · rw [contains_iff]; exact ⟨hmm, Nat.le_refl _⟩
  · rw [UInt64.le_iff_toNat_le]; exact hle.1
  · rw [UInt64.le_iff_toNat_le]; exact hle.2

example : isValid (5404319552844595200 : CellID) = true := by decide

/-- `IsLeaf` ⇔ level 30 (for valid ids). -/
theorem isLeaf_iff_level (id : CellID) (h : isValid id = true) : isLeaf id = true ↔ level id = 30 := by
  obtain ⟨k, hc⟩ := (isValid_iff id).mp h
  rw [hc.isLeaf_eq, hc.level_eq]; simp

example : isValid (rangeMin 5404319552844595200) = true ∧ isLeaf (rangeMin 5404319552844595200) = true ∧
    isLeaf (5404319552844595200 : CellID) = false := by decide

/-- Leaf count: the leaf ids in the range are the `4^(30−level)` odd numbers between the two ends. -/
theorem range_size (id : CellID) (h : isValid id = true) :
    (rangeMax id).toNat - (rangeMin id).toNat = 2 * (4^(30 - level id) - 1) ∧
      (rangeMin id).toNat % 2 = 1 := by
  obtain ⟨k, hc⟩ := (isValid_iff id).mp h
  rw [hc.level_eq]
  refine ⟨hc.range_size, ?_⟩
  have := hc.rangeMin_isCell.low
  simpa using this

example : isValid (5404319552844595200 : CellID) = true := by decide

/-- A valid leaf is one of the leaves of `id` iff its ancestor at `id`'s level is `id`. -/
theorem contains_leaf_iff (id l : CellID) (h : isValid id = true) (hl : isValid l = true)
    (hleaf : isLeaf l = true) :
    (rangeMin id ≤ l ∧ l ≤ rangeMax id) ↔ parent l (level id) = id := by
  have := contains_iff_parent id l h hl
  unfold contains at this
  rw [Bool.and_eq_true, decide_eq_true_eq, decide_eq_true_eq] at this
  rw [this]
  obtain ⟨k, hc⟩ := (isValid_iff id).mp h
  have : level id ≤ level l := by
    rw [(isLeaf_iff_level l hl).mp hleaf, hc.level_eq]; exact hc.k_le
  simp [this]

example : isValid (5404319552844595200 : CellID) = true ∧ isValid (5404319552844595201 : CellID) = true ∧
    isLeaf (5404319552844595201 : CellID) = true := by decide

theorem intersects_comm (a b : CellID) : intersects a b = intersects b a := by
  rw [Bool.eq_iff_iff, intersects_iff, intersects_iff]
  exact And.comm

/-- Valid cells intersect iff one contains the other. -/
theorem intersects_iff_contains (a b : CellID) (ha : isValid a = true) (hb : isValid b = true) :
    intersects a b = true ↔ contains a b = true ∨ contains b a = true := by
  obtain ⟨k, hca⟩ := (isValid_iff a).mp ha
  obtain ⟨j, hcb⟩ := (isValid_iff b).mp hb
  have hn := hca.nested_or_disjoint hcb
  have la := hca.rangeMin_le
  have lb := hcb.rangeMin_le
  rw [intersects_iff]
  constructor
  · intro hi
    rcases hn with h | h | h | h
    · exact Or.inl h
    · exact Or.inr h
    · omega
    · omega
  · rintro (h | h)
    · rw [contains_iff] at h; omega
    · rw [contains_iff] at h; omega

example : isValid (5404319552844595200 : CellID) = true ∧ isValid (fromFace 2) = true ∧
    intersects (5404319552844595200 : CellID) (fromFace 2) = true := by decide

/-- Valid cells intersect iff they share a leaf cell. -/
theorem intersects_iff_common_leaf (a b : CellID) (ha : isValid a = true) (hb : isValid b = true) :
    intersects a b = true ↔
      ∃ l, isValid l = true ∧ isLeaf l = true ∧ contains a l = true ∧ contains b l = true := by
  rw [intersects_iff_contains a b ha hb]
  constructor
  · rintro (h | h)
    · obtain ⟨v, lf, _, _, _, _, c, _⟩ := range_ends_spec b hb
      exact ⟨rangeMin b, v, lf, contains_trans a b _ ha hb v h c, c⟩
    · obtain ⟨v, lf, _, _, _, _, c, _⟩ := range_ends_spec a ha
      exact ⟨rangeMin a, v, lf, c, contains_trans b a _ hb ha v h c⟩
  · rintro ⟨l, hv, _, ca, cb⟩
    obtain ⟨k, hca⟩ := (isValid_iff a).mp ha
    obtain ⟨j, hcb⟩ := (isValid_iff b).mp hb
    rcases hca.nested_or_disjoint hcb with h | h | h | h
    · exact Or.inl h
    · exact Or.inr h
    · rw [contains_iff] at ca cb; omega
    · rw [contains_iff] at ca cb; omega

example : isValid (5404319552844595200 : CellID) = true ∧ isValid (fromFace 2) = true := by decide

-- (`msbPos x` is by definition `Nat.log2 x.toNat`, the model of `findMSBSetNonZero64`.)

/-- `CommonAncestorLevel` fails exactly for cells on different faces. -/
theorem commonAncestorLevel_none_iff (a b : CellID) (ha : isValid a = true) (hb : isValid b = true) :
    commonAncestorLevel a b = none ↔ face a ≠ face b := by
  obtain ⟨k, hca⟩ := (isValid_iff a).mp ha
  obtain ⟨j, hcb⟩ := (isValid_iff b).mp hb
  exact hca.cal_none_iff hcb

example : isValid (5404319552844595200 : CellID) = true ∧ isValid (fromFace 3) = true ∧
    commonAncestorLevel (5404319552844595200 : CellID) (fromFace 3) = none := by decide

/-- `CommonAncestorLevel a b = some m`: the levels at which `a` and `b` have a common ancestor are
    exactly `0..m` (so `m` is the level of the deepest common ancestor). -/
theorem commonAncestorLevel_spec (a b : CellID) (ha : isValid a = true) (hb : isValid b = true)
    (l : Nat) :
    (l ≤ level a ∧ l ≤ level b ∧ parent a l = parent b l) ↔
      ∃ m, commonAncestorLevel a b = some m ∧ l ≤ m := by
  obtain ⟨k, hca⟩ := (isValid_iff a).mp ha
  obtain ⟨j, hcb⟩ := (isValid_iff b).mp hb
  rw [hca.level_eq, hcb.level_eq]
  exact hca.cal_some_iff hcb l

example : isValid (5404319552844595200 : CellID) = true ∧ isValid (child (fromFace 2) 1) = true ∧
    commonAncestorLevel (5404319552844595200 : CellID) (child (child (fromFace 2) 1) 3) = some 1 := by decide

/-! ## Group 3 — children -/

/-- A child of a valid non-leaf cell is a valid cell one level down on the same face, and the cell
    is its parent. -/
theorem child_spec (id : CellID) (t : Nat) (h : isValid id = true) (hl : level id < 30) (ht : t < 4) :
    isValid (child id t) = true ∧ level (child id t) = level id + 1 ∧ face (child id t) = face id ∧
      parent (child id t) (level id) = id ∧ immediateParent (child id t) = id ∧
      contains id (child id t) = true := by
  obtain ⟨k, hc⟩ := (isValid_iff id).mp h
  rw [hc.level_eq] at hl ⊢
  have hch := hc.child_isCell hl ht
  exact ⟨(isValid_iff _).mpr ⟨k+1, hch⟩, hch.level_eq, hc.child_face hl ht, hc.parent_child_id hl ht,
    hc.immediateParent_child hl ht, hc.contains_child hl ht⟩

example : isValid (5404319552844595200 : CellID) = true ∧ level (5404319552844595200 : CellID) < 30 := by
  decide

/-- `immediateParent` is the ancestor one level up; a cell is the `childPosition`-th child of it. -/
theorem immediateParent_spec (c : CellID) (h : isValid c = true) (hl : 0 < level c) :
    immediateParent c = parent c (level c - 1) ∧
      child (immediateParent c) (childPosition c (level c)) = c := by
  obtain ⟨k, hc⟩ := (isValid_iff c).mp h
  rw [hc.level_eq] at hl ⊢
  exact ⟨hc.immediateParent_eq hl, hc.child_childPosition hl⟩

example : isValid (5404319552844595200 : CellID) = true ∧ 0 < level (5404319552844595200 : CellID) := by
  decide

theorem childPosition_child (id : CellID) (t : Nat) (h : isValid id = true) (hl : level id < 30)
    (ht : t < 4) : childPosition (child id t) (level id + 1) = t := by
  obtain ⟨k, hc⟩ := (isValid_iff id).mp h
  rw [hc.level_eq] at hl ⊢
  exact hc.childPosition_child hl ht

example : childPosition (child 5404319552844595200 2) 3 = 2 := by decide

/-- Children are consecutive on the curve. -/
theorem next_child (id : CellID) (t : Nat) (h : isValid id = true) (hl : level id < 30) (ht : t < 3) :
    next (child id t) = child id (t+1) := by
  obtain ⟨k, hc⟩ := (isValid_iff id).mp h
  rw [hc.level_eq] at hl
  exact hc.next_child hl ht

example : next (child 5404319552844595200 1) = child 5404319552844595200 2 := by decide

/-- The leaf ranges of the four children partition the leaf range of the cell, in curve order
    (consecutive leaf ids differ by 2). -/
theorem child_ranges_partition (id : CellID) (h : isValid id = true) (hl : level id < 30) :
    rangeMin (child id 0) = rangeMin id ∧ rangeMax (child id 3) = rangeMax id ∧
      ∀ t, t < 3 → (rangeMax (child id t)).toNat + 2 = (rangeMin (child id (t+1))).toNat := by
  obtain ⟨k, hc⟩ := (isValid_iff id).mp h
  rw [hc.level_eq] at hl
  exact hc.child_ranges hl

example : isValid (5404319552844595200 : CellID) = true ∧ level (5404319552844595200 : CellID) < 30 := by
  decide

/-- Distinct children are distinct cells with disjoint leaf ranges. -/
theorem children_disjoint (id : CellID) (t u : Nat) (h : isValid id = true) (hl : level id < 30)
    (htu : t < u) (hu : u < 4) :
    child id t ≠ child id u ∧ rangeMax (child id t) < rangeMin (child id u) ∧
      contains (child id t) (child id u) = false ∧ contains (child id u) (child id t) = false ∧
      intersects (child id t) (child id u) = false := by
  obtain ⟨k, hc⟩ := (isValid_iff id).mp h
  rw [hc.level_eq] at hl
  have hd := hc.child_disjoint hl htu hu
  have ct := hc.child_isCell hl (show t < 4 by omega)
  have cu := hc.child_isCell hl hu
  have lt := ct.rangeMin_le
  have lu := cu.rangeMin_le
  refine ⟨?_, UInt64.lt_iff_toNat_lt.mpr hd, ?_, ?_, ?_⟩
  · intro he; have := hc.child_inj hl (by omega) hu he; omega
  · rw [← Bool.not_eq_true, contains_iff]; omega
  · rw [← Bool.not_eq_true, contains_iff]; omega
  · rw [← Bool.not_eq_true, intersects_iff]; omega

example : isValid (5404319552844595200 : CellID) = true ∧ level (5404319552844595200 : CellID) < 30 ∧
    (1:Nat) < 3 ∧ (3:Nat) < 4 := by decide

/-- Every valid cell strictly inside `id` lies in exactly one child of `id`. -/
theorem unique_child_contains (id c : CellID) (h : isValid id = true) (hc : isValid c = true)
    (hin : contains id c = true) (hne : c ≠ id) :
    level id < 30 ∧ ∃! t, t < 4 ∧ contains (child id t) c = true := by
  obtain ⟨k, hx⟩ := (isValid_iff id).mp h
  obtain ⟨j, hy⟩ := (isValid_iff c).mp hc
  obtain ⟨hk, t, ht, hu⟩ := hx.unique_child hy hin hne
  rw [hx.level_eq]
  exact ⟨hk, t, ht, hu⟩

example : isValid (fromFace 2) = true ∧ isValid (5404319552844595200 : CellID) = true ∧
    contains (fromFace 2) 5404319552844595200 = true ∧ (5404319552844595200 : CellID) ≠ fromFace 2 := by
  decide

/-- `Children()` lists the four children in order; `ChildBegin` is the first one (all words). -/
theorem childrenList_eq_id (id : CellID) :
    childrenList id = [child id 0, child id 1, child id 2, child id 3] ∧ childBegin id = child id 0 :=
  ⟨rfl, rfl⟩

/-- `ChildEnd` is the successor of the last child. -/
theorem childEnd_spec (id : CellID) (h : isValid id = true) (hl : level id < 30) :
    childEnd id = next (child id 3) ∧
      (childEnd id).toNat
        = (next id).toNat - 2^(60 - 2 * level id) + 2^(58 - 2 * level id) := by
  obtain ⟨k, hc⟩ := (isValid_iff id).mp h
  rw [hc.level_eq] at hl ⊢
  exact hc.childEnd_eq hl

example : isValid (5404319552844595200 : CellID) = true ∧ level (5404319552844595200 : CellID) < 30 := by
  decide

/-- `ChildBeginAtLevel(j)` is the valid level-`j` cell with the same `RangeMin`. -/
theorem childBeginAtLevel_spec (id : CellID) (j : Nat) (h : isValid id = true) (hkj : level id ≤ j)
    (hj : j ≤ 30) :
    isValid (childBeginAtLevel id j) = true ∧ level (childBeginAtLevel id j) = j ∧
      rangeMin (childBeginAtLevel id j) = rangeMin id ∧
      ∀ c, isValid c = true → level c = j → rangeMin c = rangeMin id → c = childBeginAtLevel id j := by
  obtain ⟨k, hc⟩ := (isValid_iff id).mp h
  rw [hc.level_eq] at hkj
  have hb := hc.childBeginAtLevel_isCell j hkj hj
  have hr := hc.childBeginAtLevel_rangeMin j hkj hj
  refine ⟨(isValid_iff _).mpr ⟨j, hb⟩, hb.level_eq, hr, ?_⟩
  intro c hv hlc hrc
  obtain ⟨j', hy⟩ := (isValid_iff c).mp hv
  rw [hy.level_eq] at hlc; subst hlc
  exact hy.eq_of_rangeMin_eq hb (by rw [hrc, hr])

example : isValid (5404319552844595200 : CellID) = true ∧ level (5404319552844595200 : CellID) ≤ 7 ∧
    (7:Nat) ≤ 30 := by decide

/-- `ChildEndAtLevel(j).Prev()` is the valid level-`j` cell with the same `RangeMax`.
    (`ChildEndAtLevel` itself need not be valid: for the last cell of face 5 it is `≥ 6·2^61`.) -/
theorem childEndAtLevel_spec (id : CellID) (j : Nat) (h : isValid id = true) (hkj : level id ≤ j)
    (hj : j ≤ 30) :
    isValid (prev (childEndAtLevel id j)) = true ∧ level (prev (childEndAtLevel id j)) = j ∧
      rangeMax (prev (childEndAtLevel id j)) = rangeMax id ∧
      ∀ c, isValid c = true → level c = j → rangeMax c = rangeMax id →
        c = prev (childEndAtLevel id j) := by
  obtain ⟨k, hc⟩ := (isValid_iff id).mp h
  rw [hc.level_eq] at hkj
  obtain ⟨hb, hr⟩ := hc.prev_childEndAtLevel j hkj hj
  refine ⟨(isValid_iff _).mpr ⟨j, hb⟩, hb.level_eq, hr, ?_⟩
  intro c hv hlc hrc
  obtain ⟨j', hy⟩ := (isValid_iff c).mp hv
  rw [hy.level_eq] at hlc; subst hlc
  exact hy.eq_of_rangeMax_eq hb (by rw [hrc, hr])

example : isValid (5404319552844595200 : CellID) = true ∧ level (5404319552844595200 : CellID) ≤ 7 ∧
    (7:Nat) ≤ 30 := by decide
example : isValid (childEndAtLevel (rangeMax (fromFace 5)) 30) = false := by decide

/-- At the next level the `…AtLevel` variants agree with `ChildBegin` / `ChildEnd`. -/
theorem childAtLevel_succ (id : CellID) (h : isValid id = true) (hl : level id < 30) :
    childBeginAtLevel id (level id + 1) = childBegin id ∧
      childEndAtLevel id (level id + 1) = childEnd id := by
  obtain ⟨k, hc⟩ := (isValid_iff id).mp h
  rw [hc.level_eq] at hl ⊢
  exact hc.childAtLevel_succ hl

example : isValid (5404319552844595200 : CellID) = true ∧ level (5404319552844595200 : CellID) < 30 := by
  decide

/-- The level-`j` descendants of `id` are exactly the level-`j` cells in
    `[ChildBeginAtLevel(j), ChildEndAtLevel(j))`; there are `4^(j−level id)` of them (step `2^(61−2j)`). -/
theorem contains_iff_child_range (id c : CellID) (h : isValid id = true) (hc : isValid c = true)
    (hkj : level id ≤ level c) :
    (contains id c = true ↔
      childBeginAtLevel id (level c) ≤ c ∧ c < childEndAtLevel id (level c)) ∧
    (childEndAtLevel id (level c)).toNat - (childBeginAtLevel id (level c)).toNat
      = 4^(level c - level id) * 2^(61 - 2 * level c) := by
  obtain ⟨k, hx⟩ := (isValid_iff id).mp h
  obtain ⟨j, hy⟩ := (isValid_iff c).mp hc
  rw [hx.level_eq, hy.level_eq] at *
  rw [UInt64.le_iff_toNat_le, UInt64.lt_iff_toNat_lt]
  exact ⟨hx.contains_iff_childRange hy hkj, hx.childRange_size j hkj hy.k_le⟩

example : isValid (fromFace 2) = true ∧ isValid (5404319552844595200 : CellID) = true ∧
    level (fromFace 2) ≤ level (5404319552844595200 : CellID) := by decide

/-! ## Group 4 — steps along the curve

  Notation in the comments: `k = level id`, `S = 2^(61−2k)` (id distance between consecutive
  level-`k` cells), `N = 6·4^k` (number of level-`k` cells), `D = distanceFromBegin id`. -/

/-- `Next` and `Prev` are mutually inverse on EVERY valid cell (also across the ends of the id
    range, where the intermediate word is not a valid cell). -/
theorem prev_next (id : CellID) (h : isValid id = true) :
    prev (next id) = id ∧ next (prev id) = id := by
  obtain ⟨k, hc⟩ := (isValid_iff id).mp h
  exact ⟨hc.prev_next, hc.next_prev⟩

example : isValid (rangeMax (fromFace 5)) = true ∧ isValid (next (rangeMax (fromFace 5))) = false ∧
    isValid (fromFace 0) = true ∧ isValid (prev (fromFace 0)) = false := by decide

/-- `Next` adds `S`; the result is a valid cell (of the same level) iff `id` is not the last
    level-`k` cell. -/
theorem next_spec (id : CellID) (h : isValid id = true) :
    (next id).toNat = id.toNat + 2^(61 - 2 * level id) ∧
    (isValid (next id) = true ↔ id.toNat + 2^(61 - 2 * level id) < 6 * 2^61) ∧
    (isValid (next id) = true → level (next id) = level id) := by
  obtain ⟨k, hc⟩ := (isValid_iff id).mp h
  rw [hc.level_eq, isValid_iff]
  refine ⟨hc.next_low.1, hc.next_isCell_iff, ?_⟩
  intro hv
  exact (hc.next_isCell (hc.next_isCell_iff.mp hv)).level_eq

example : isValid (5404319552844595200 : CellID) = true ∧ isValid (next 5404319552844595200) = true := by
  decide

/-- `Prev` subtracts `S`; the result is a valid cell (of the same level) iff `id` is not the first
    level-`k` cell. -/
theorem prev_spec (id : CellID) (h : isValid id = true) :
    (isValid (prev id) = true ↔ 2^(61 - 2 * level id) ≤ id.toNat) ∧
    (isValid (prev id) = true →
      level (prev id) = level id ∧ (prev id).toNat = id.toNat - 2^(61 - 2 * level id)) := by
  obtain ⟨k, hc⟩ := (isValid_iff id).mp h
  rw [hc.level_eq, isValid_iff]
  refine ⟨hc.prev_isCell_iff, ?_⟩
  intro hv
  obtain ⟨hp, e⟩ := hc.prev_isCell (hc.prev_isCell_iff.mp hv)
  exact ⟨hp.level_eq, e⟩

example : isValid (5404319552844595200 : CellID) = true ∧ isValid (prev 5404319552844595200) = true := by
  decide

/-- `distanceFromBegin` is the index `id / S` of the cell among the level-`k` cells; in canonical
    form it is `face·4^k + c`; it lies in `[0, N)`. -/
theorem distanceFromBegin_spec (id : CellID) (h : isValid id = true) :
    distanceFromBegin id = ((id.toNat / 2^(61 - 2 * level id) : Nat) : Int) ∧
    0 ≤ distanceFromBegin id ∧ distanceFromBegin id < ((6 * 4^(level id) : Nat) : Int) ∧
    ∀ f k c, f < 6 → k ≤ 30 → c < 4^k → id.toNat = f * 2^61 + (2*c+1) * 2^(60 - 2*k) →
      distanceFromBegin id = ((f * 4^k + c : Nat) : Int) := by
  obtain ⟨k, hc⟩ := (isValid_iff id).mp h
  rw [hc.level_eq, hc.distanceFromBegin_eq]
  refine ⟨rfl, Int.natCast_nonneg _, by exact_mod_cast hc.index_form.2, ?_⟩
  intro f k' c hf hk' hcc hx
  have hc' := isCell_of_canonical hf hk' hcc hx
  have := hc.unique hc'
  subst this
  rw [distance_canonical hf hk' hcc hx]

example : isValid (5404319552844595200 : CellID) = true ∧
    distanceFromBegin (5404319552844595200 : CellID) = 2 * 4^2 + 5 := by decide

/-- `AdvanceWrap(s)` for EVERY integer `s`: the result is the valid level-`k` cell with index
    `(D + s) mod N` (mathematical, non-negative remainder). -/
theorem advanceWrap_spec (id : CellID) (s : Int) (h : isValid id = true) :
    (advanceWrap id s).toNat
      = ((distanceFromBegin id + s) % ((6 * 4^(level id) : Nat) : Int)).toNat * 2^(61 - 2 * level id)
        + 2^(60 - 2 * level id) ∧
    isValid (advanceWrap id s) = true ∧ level (advanceWrap id s) = level id ∧
    distanceFromBegin (advanceWrap id s)
      = (distanceFromBegin id + s) % ((6 * 4^(level id) : Nat) : Int) := by
  obtain ⟨k, hc⟩ := (isValid_iff id).mp h
  obtain ⟨hw, hi⟩ := hc.advanceWrap_isCell s
  rw [hc.level_eq, hc.distanceFromBegin_eq, hw.distanceFromBegin_eq]
  exact ⟨hc.advanceWrap_toNat s, (isValid_iff _).mpr ⟨k, hw⟩, hw.level_eq, hi⟩

example : isValid (5404319552844595200 : CellID) = true ∧
    advanceWrap (5404319552844595200 : CellID) (-1000) ≠ 5404319552844595200 := by decide

/-- `AdvanceWrap` by 0, +1, −1. -/
theorem advanceWrap_small (id : CellID) (h : isValid id = true) :
    advanceWrap id 0 = id ∧ advanceWrap id 1 = nextWrap id ∧ advanceWrap id (-1) = prevWrap id := by
  obtain ⟨k, hc⟩ := (isValid_iff id).mp h
  exact ⟨rfl, hc.advanceWrap_one.1, hc.advanceWrap_one.2⟩

example : isValid (rangeMax (fromFace 5)) = true ∧
    advanceWrap (rangeMax (fromFace 5)) 1 = rangeMin (fromFace 0) := by decide

/-- `AdvanceWrap` is an action of the integers … -/
theorem advanceWrap_add (id : CellID) (s t : Int) (h : isValid id = true) :
    advanceWrap (advanceWrap id s) t = advanceWrap id (s + t) := by
  obtain ⟨k, hc⟩ := (isValid_iff id).mp h
  exact hc.advanceWrap_add s t

example : isValid (5404319552844595200 : CellID) = true ∧
    advanceWrap (advanceWrap (5404319552844595200 : CellID) 70) (-100)
      = advanceWrap 5404319552844595200 (-30) := by decide

/-- … with period `N`. -/
theorem advanceWrap_period (id : CellID) (s : Int) (h : isValid id = true) :
    advanceWrap id (s + ((6 * 4^(level id) : Nat) : Int)) = advanceWrap id s := by
  obtain ⟨k, hc⟩ := (isValid_iff id).mp h
  rw [hc.level_eq]
  exact hc.advanceWrap_period s

example : isValid (5404319552844595200 : CellID) = true ∧
    advanceWrap (5404319552844595200 : CellID) (7 + 96) = advanceWrap 5404319552844595200 7 := by decide

/-- `NextWrap` / `PrevWrap`: valid, same level, mutually inverse; `NextWrap` is `Next` except on the
    last level-`k` cell, where it gives the first one (`S/2`). -/
theorem wrap_spec (id : CellID) (h : isValid id = true) :
    isValid (nextWrap id) = true ∧ level (nextWrap id) = level id ∧
    isValid (prevWrap id) = true ∧ level (prevWrap id) = level id ∧
    prevWrap (nextWrap id) = id ∧ nextWrap (prevWrap id) = id ∧
    (id.toNat + 2^(61 - 2 * level id) < 6 * 2^61 → nextWrap id = next id) ∧
    (¬ id.toNat + 2^(61 - 2 * level id) < 6 * 2^61 → (nextWrap id).toNat = 2^(60 - 2 * level id)) := by
  obtain ⟨k, hc⟩ := (isValid_iff id).mp h
  obtain ⟨e1, e2⟩ := hc.advanceWrap_one
  have hn := (hc.advanceWrap_isCell 1).1
  have hp := (hc.advanceWrap_isCell (-1)).1
  rw [e1] at hn
  rw [e2] at hp
  rw [hc.level_eq]
  refine ⟨(isValid_iff _).mpr ⟨k, hn⟩, hn.level_eq, (isValid_iff _).mpr ⟨k, hp⟩, hp.level_eq,
    ?_, ?_, ?_, ?_⟩
  · rw [← hn.advanceWrap_one.2, ← e1, hc.advanceWrap_add]; rfl
  · rw [← hp.advanceWrap_one.1, ← e2, hc.advanceWrap_add]; rfl
  · intro hlt
    apply UInt64.toNat_inj.mp
    rw [hc.nextWrap_toNat, hc.next_low.1]; exact Nat.mod_eq_of_lt hlt
  · intro hge
    rw [hc.nextWrap_toNat]
    obtain ⟨hk, hf, hlow⟩ := hc
    interval_cases k <;> cell_omega

example : isValid (rangeMax (fromFace 5)) = true ∧
    ¬ (rangeMax (fromFace 5)).toNat + 2^(61 - 2 * level (rangeMax (fromFace 5))) < 6 * 2^61 := by decide

/-- `Advance(s)` for EVERY integer `s`: the index is clamped to `[0, N]`.  If `D + s < N` the
    result is a valid cell of the same level; otherwise it is the (invalid) end word
    `6·2^61 + S/2` (`End(level)` of the Go code). -/
theorem advance_spec (id : CellID) (s : Int) (h : isValid id = true) :
    (advance id s).toNat
      = (max 0 (min (((6 * 4^(level id) : Nat) : Int)) (distanceFromBegin id + s))).toNat
          * 2^(61 - 2 * level id) + 2^(60 - 2 * level id) ∧
    (isValid (advance id s) = true ↔ distanceFromBegin id + s < ((6 * 4^(level id) : Nat) : Int)) ∧
    (isValid (advance id s) = true → level (advance id s) = level id) ∧
    (((6 * 4^(level id) : Nat) : Int) ≤ distanceFromBegin id + s →
      (advance id s).toNat = 6 * 2^61 + 2^(60 - 2 * level id)) := by
  obtain ⟨k, hc⟩ := (isValid_iff id).mp h
  obtain ⟨c1, c2⟩ := hc.advance_cases s
  rw [hc.level_eq, hc.distanceFromBegin_eq]
  have hiff : isValid (advance id s) = true ↔
      ((id.toNat / 2^(61 - 2*k) : Nat) : Int) + s < ((6 * 4^k : Nat) : Int) := by
    constructor
    · intro hv
      obtain ⟨j, hj⟩ := (isValid_iff _).mp hv
      by_contra hge
      have h1 := c2 (Int.not_lt.mp hge)
      have h2 := hj.face_lt
      rw [h1] at h2
      exact Nat.lt_irrefl _ (Nat.lt_of_le_of_lt (Nat.le_add_right _ _) h2)
    · intro hlt
      exact (isValid_iff _).mpr ⟨k, c1 hlt⟩
  refine ⟨hc.advance_toNat s, hiff, ?_, c2⟩
  intro hv
  exact (c1 (hiff.mp hv)).level_eq

example : isValid (5404319552844595200 : CellID) = true ∧
    isValid (advance (5404319552844595200 : CellID) 58) = true ∧
    isValid (advance (5404319552844595200 : CellID) 59) = false ∧
    advance (5404319552844595200 : CellID) (-1000) = parent (rangeMin (fromFace 0)) 2 := by decide

/-- `Advance` by ±1: `Advance(1) = Next` always; `Advance(−1) = Prev` except on the first cell of the
    level, where `Advance(−1)` stays put. -/
theorem advance_small (id : CellID) (h : isValid id = true) :
    advance id 0 = id ∧ advance id 1 = next id ∧
    (2^(61 - 2 * level id) ≤ id.toNat → advance id (-1) = prev id) ∧
    (id.toNat < 2^(61 - 2 * level id) → advance id (-1) = id) := by
  obtain ⟨k, hc⟩ := (isValid_iff id).mp h
  rw [hc.level_eq]
  exact ⟨rfl, hc.advance_one.1, hc.advance_one.2.1, hc.advance_one.2.2⟩

example : isValid (fromFace 0) = true ∧ (fromFace 0).toNat < 2^(61 - 2 * level (fromFace 0)) ∧
    isValid (5404319552844595200 : CellID) = true ∧
    2^(61 - 2 * level (5404319552844595200 : CellID)) ≤ (5404319552844595200 : CellID).toNat := by decide

end S2Proofs.C01
