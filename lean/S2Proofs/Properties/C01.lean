/-
  C01 — cell-id quadtree: first instalment of the property theorems (hierarchy laws),
  stated on the bit-level model `S2.CellID` for ALL ids; proved from the bridge lemmas
  in `S2Proofs/CellIDLemmas.lean`.  (The work package c01 extends this file.)
-/
import S2Proofs.CellIDLemmas
open S2 S2.CellID
namespace S2Proofs.C01

/-- A valid id has a level in 0..30 and `Parent(level)` is the id itself. -/
theorem valid_level_le (x : CellID) (h : isValid x = true) : level x ≤ 30 := by
  obtain ⟨k, hk⟩ := (isValid_iff x).mp h
  rw [hk.level_eq]; exact hk.k_le

/-- `Parent(j)` of a valid id (j ≤ level) is a valid id of level exactly j that contains it. -/
theorem parent_valid_level_contains (x : CellID) (j : Nat) (h : isValid x = true) (hj : j ≤ level x) :
    isValid (parent x j) = true ∧ level (parent x j) = j ∧ contains (parent x j) x = true := by
  obtain ⟨k, hk⟩ := (isValid_iff x).mp h
  rw [hk.level_eq] at hj
  have hp := hk.parent_isCell hj
  refine ⟨(isValid_iff _).mpr ⟨j, hp⟩, hp.level_eq, ?_⟩
  exact (hp.contains_iff_parent hk).mpr ⟨hj, rfl⟩

/-- Containment of valid ids is exactly "the ancestor at the container's level is the container". -/
theorem contains_iff_ancestor (x y : CellID) (hx : isValid x = true) (hy : isValid y = true) :
    contains x y = true ↔ level x ≤ level y ∧ parent y (level x) = x := by
  obtain ⟨k, hk⟩ := (isValid_iff x).mp hx
  obtain ⟨j, hj⟩ := (isValid_iff y).mp hy
  rw [hk.level_eq, hj.level_eq]
  exact hk.contains_iff_parent hj

/-- Two valid cells are nested or their leaf ranges are disjoint (the quadtree is laminar). -/
theorem nested_or_disjoint (x y : CellID) (hx : isValid x = true) (hy : isValid y = true) :
    contains x y = true ∨ contains y x = true ∨
      (rangeMax x).toNat < (rangeMin y).toNat ∨ (rangeMax y).toNat < (rangeMin x).toNat := by
  obtain ⟨k, hk⟩ := (isValid_iff x).mp hx
  obtain ⟨j, hj⟩ := (isValid_iff y).mp hy
  exact hk.nested_or_disjoint hj

/-- The four children of a valid non-leaf cell are valid, one level deeper, and `Parent` inverts them. -/
theorem child_valid_parent (x : CellID) (t : Nat) (h : isValid x = true) (hl : level x < 30) (ht : t < 4) :
    isValid (child x t) = true ∧ level (child x t) = level x + 1 ∧ parent (child x t) (level x) = x := by
  obtain ⟨k, hk⟩ := (isValid_iff x).mp h
  rw [hk.level_eq] at hl ⊢
  have hc := hk.child_isCell hl ht
  refine ⟨(isValid_iff _).mpr ⟨k + 1, hc⟩, hc.level_eq, ?_⟩
  have hcont : contains x (child x t) = true := by
    rw [contains_iff, hk.rangeMin_eq, hk.rangeMax_eq, hk.child_toNat hl ht]
    obtain ⟨_, hf, hlow⟩ := hk
    have ht' : t = 0 ∨ t = 1 ∨ t = 2 ∨ t = 3 := by omega
    rcases ht' with rfl | rfl | rfl | rfl <;> interval_cases k <;> cell_omega
  exact ((hk.contains_iff_parent hc).mp hcont).2

/-- The children's leaf ranges partition the parent's range in curve order. -/
theorem children_partition_range (x : CellID) (h : isValid x = true) (hl : level x < 30) :
    (rangeMin (child x 0)).toNat = (rangeMin x).toNat ∧
    (rangeMax (child x 0)).toNat + 2 = (rangeMin (child x 1)).toNat ∧
    (rangeMax (child x 1)).toNat + 2 = (rangeMin (child x 2)).toNat ∧
    (rangeMax (child x 2)).toNat + 2 = (rangeMin (child x 3)).toNat ∧
    (rangeMax (child x 3)).toNat = (rangeMax x).toNat := by
  obtain ⟨k, hk⟩ := (isValid_iff x).mp h
  rw [hk.level_eq] at hl
  have c0 := hk.child_isCell hl (t := 0) (by omega)
  have c1 := hk.child_isCell hl (t := 1) (by omega)
  have c2 := hk.child_isCell hl (t := 2) (by omega)
  have c3 := hk.child_isCell hl (t := 3) (by omega)
  rw [c0.rangeMin_eq, c0.rangeMax_eq, c1.rangeMin_eq, c1.rangeMax_eq, c2.rangeMin_eq, c2.rangeMax_eq,
      c3.rangeMin_eq, c3.rangeMax_eq, hk.rangeMin_eq, hk.rangeMax_eq,
      hk.child_toNat hl (t := 0) (by omega), hk.child_toNat hl (t := 1) (by omega),
      hk.child_toNat hl (t := 2) (by omega), hk.child_toNat hl (t := 3) (by omega)]
  obtain ⟨_, hf, hlow⟩ := hk
  interval_cases k <;> cell_omega

-- non-vacuity: face cell 0 and a level-30 leaf are valid
example : isValid 0x1000000000000000 = true ∧ isValid 0x1000000000000001 = true := by decide

end S2Proofs.C01
