/-
  C01 (Hilbert-curve part): `cellIDFromFaceIJ` and `faceIJOrientation` — as computed by the model
  from the tables that `initLookupCell` builds — are mutually inverse bijections between
  (face, i, j) ∈ 6 × 2^30 × 2^30 and the valid leaf cells; the level-k ancestors are exactly the
  ij-aligned squares of side 2^(30-k); consecutive cells of a level on one face are edge-adjacent
  squares.  All statements are for ALL inputs; no evaluation of the 2^60 leaves is involved:
  the tables are characterised structurally (`HilbertLemmas`), the curve by a 2-bit recursion.
-/
import S2Proofs.HilbertGeometry
import S2.STUV
open S2 S2.CellID S2.Hilbert
namespace S2Proofs.C01

/-! ### the lookup tables -/

/-- `lookupPos` inverts `lookupIJ` (same input orientation, same output orientation):
    for every orientation `o` and 8-bit position `p`, if `lookupIJ[p·4+o] = ij·4+o'` then
    `lookupPos[ij·4+o] = p·4+o'`. -/
theorem lookupPos_lookupIJ (o p : Nat) (ho : o < 4) (hp : p < 256) :
    lookupPos[((lookupIJ[(p <<< 2) + o]! >>> 2) <<< 2) + o]! = (p <<< 2) + (lookupIJ[(p <<< 2) + o]! &&& 3) ∧
    lookupIJ[(p <<< 2) + o]! < 1024 := by
  rw [lookupIJ_spec p o hp ho]
  have hb := hIJ_bounds 4 o p ho
  have hinv := hPos_hIJ 4 o p ho (by omega)
  generalize hIJ 4 o p = r at *
  obtain ⟨I, J, O⟩ := r
  simp only at hb hinv
  have e1 : ((((I <<< 4) + J) <<< 2) + O) >>> 2 = (I <<< 4) + J := by
    simp only [Nat.shiftLeft_eq, Nat.shiftRight_eq_div_pow]; omega
  have e2 : ((((I <<< 4) + J) <<< 2) + O) &&& 3 = O := by
    rw [show (3:Nat) = 2^2 - 1 from rfl, Nat.and_two_pow_sub_one_eq_mod]
    simp only [Nat.shiftLeft_eq]; omega
  rw [e1, e2, lookupPos_spec I J o (by omega) (by omega) ho, hinv]
  refine ⟨rfl, ?_⟩
  simp only [Nat.shiftLeft_eq]; omega
example : (2:Nat) < 4 ∧ (77:Nat) < 256 := by decide

/-- `lookupIJ` inverts `lookupPos`. -/
theorem lookupIJ_lookupPos (o ij : Nat) (ho : o < 4) (hij : ij < 256) :
    lookupIJ[((lookupPos[(ij <<< 2) + o]! >>> 2) <<< 2) + o]! = (ij <<< 2) + (lookupPos[(ij <<< 2) + o]! &&& 3) ∧
    lookupPos[(ij <<< 2) + o]! < 1024 := by
  have eij : ij = ((ij / 16) <<< 4) + ij % 16 := by simp only [Nat.shiftLeft_eq]; omega
  have hi : ij / 16 < 16 := by omega
  have hj : ij % 16 < 16 := by omega
  have hsp := lookupPos_spec (ij / 16) (ij % 16) o hi hj ho
  rw [← eij] at hsp
  rw [hsp]
  have hb := hPos_bounds 4 o (ij / 16) (ij % 16) ho
  have hinv := hIJ_hPos 4 o (ij / 16) (ij % 16) ho (by omega) (by omega)
  generalize hPos 4 o (ij / 16) (ij % 16) = r at *
  obtain ⟨P, O⟩ := r
  simp only at hb hinv
  have e1 : ((P <<< 2) + O) >>> 2 = P := by
    simp only [Nat.shiftLeft_eq, Nat.shiftRight_eq_div_pow]; omega
  have e2 : ((P <<< 2) + O) &&& 3 = O := by
    rw [show (3:Nat) = 2^2 - 1 from rfl, Nat.and_two_pow_sub_one_eq_mod]
    simp only [Nat.shiftLeft_eq]; omega
  rw [e1, e2, lookupIJ_spec P o (by omega) ho, hinv]
  refine ⟨?_, ?_⟩
  · simp only [Nat.shiftLeft_eq]; omega
  · simp only [Nat.shiftLeft_eq]; omega
example : (3:Nat) < 4 ∧ (200:Nat) < 256 := by decide

/-! ### (face,i,j) ↔ leaf cells -/

/-- the leaf built from (f,i,j) is a valid leaf cell of face f -/
theorem cellIDFromFaceIJ_valid_leaf (f i j : Nat) (hf : f < 6) (hi : i < 2^30) (hj : j < 2^30) :
    isValid (cellIDFromFaceIJ f i j) = true ∧ isLeaf (cellIDFromFaceIJ f i j) = true ∧
    level (cellIDFromFaceIJ f i j) = 30 ∧ face (cellIDFromFaceIJ f i j) = f := by
  obtain ⟨h, hface, _⟩ := cellIDFromFaceIJ_facts (rfl : 30 = 30) f i j hf hi hj
  exact ⟨(isValid_iff _).mpr ⟨30, h⟩, by rw [h.isLeaf_eq]; simp, h.level_eq, hface⟩
example : (5:Nat) < 6 ∧ (1073741823:Nat) < 2^30 ∧ (0:Nat) < 2^30 := by decide

/-- converting (f,i,j) to a leaf and back returns (f,i,j) -/
theorem faceIJOrientation_cellIDFromFaceIJ (f i j : Nat) (hf : f < 6) (hi : i < 2^30) (hj : j < 2^30) :
    ∃ o, o < 4 ∧ faceIJOrientation (cellIDFromFaceIJ f i j) = (f, i, j, o) :=
  S2Proofs.faceIJOrientation_cellIDFromFaceIJ (rfl : 30 = 30) f i j hf hi hj
example : (3:Nat) < 6 ∧ (123456789:Nat) < 2^30 ∧ (987654321:Nat) < 2^30 := by decide

/-- every valid leaf is `cellIDFromFaceIJ` of its own (face,i,j); i and j are in range -/
theorem cellIDFromFaceIJ_faceIJOrientation (id : CellID) (hv : isValid id = true) (hl : isLeaf id = true) :
    (faceIJOrientation id).1 = face id ∧ (faceIJOrientation id).1 < 6 ∧
    (faceIJOrientation id).2.1 < 2^30 ∧ (faceIJOrientation id).2.2.1 < 2^30 ∧
    cellIDFromFaceIJ (faceIJOrientation id).1 (faceIJOrientation id).2.1 (faceIJOrientation id).2.2.1 = id := by
  have h := isCell_of_valid hv
  have h30 : level id = 30 := by
    have := h.isLeaf_eq; rw [hl] at this; simpa using this
  rw [h30] at h
  exact S2Proofs.cellIDFromFaceIJ_faceIJOrientation (rfl : 30 = 30) id h
example : isValid (0x5555555555555555 : CellID) = true ∧ isLeaf (0x5555555555555555 : CellID) = true := by decide

/-- `cellIDFromFaceIJ` is injective on 6 × 2^30 × 2^30 (so it is a bijection onto the valid leaves) -/
theorem cellIDFromFaceIJ_injective (f i j f' i' j' : Nat) (hf : f < 6) (hi : i < 2^30) (hj : j < 2^30)
    (hf' : f' < 6) (hi' : i' < 2^30) (hj' : j' < 2^30)
    (h : cellIDFromFaceIJ f i j = cellIDFromFaceIJ f' i' j') : f = f' ∧ i = i' ∧ j = j' := by
  obtain ⟨o, _, e⟩ := faceIJOrientation_cellIDFromFaceIJ f i j hf hi hj
  obtain ⟨o', _, e'⟩ := faceIJOrientation_cellIDFromFaceIJ f' i' j' hf' hi' hj'
  rw [h, e'] at e
  simp only [Prod.mk.injEq] at e
  exact ⟨e.1.symm, e.2.1.symm, e.2.2.1.symm⟩
example : (0:Nat) < 6 ∧ (1:Nat) < 2^30 ∧ (2:Nat) < 2^30 ∧ (1:Nat) < 6 := by decide

/-! ### cells are ij-aligned squares -/

/-- two leaves have the same level-k ancestor iff they are on the same face and their i and j agree
    after dropping the low 30-k bits -/
theorem parent_eq_iff_ij (f i j f' i' j' k : Nat) (hf : f < 6) (hf' : f' < 6)
    (hi : i < 2^30) (hj : j < 2^30) (hi' : i' < 2^30) (hj' : j' < 2^30) (hk : k ≤ 30) :
    parent (cellIDFromFaceIJ f i j) k = parent (cellIDFromFaceIJ f' i' j') k ↔
      f = f' ∧ i / 2^(30-k) = i' / 2^(30-k) ∧ j / 2^(30-k) = j' / 2^(30-k) :=
  parent_cellIDFromFaceIJ_eq_iff (rfl : 30 = 30) f i j f' i' j' k hf hf' hi hj hi' hj' hk
example : (2:Nat) < 6 ∧ (1000:Nat) < 2^30 ∧ (1023:Nat) / 2^(30-25) = 1000 / 2^(30-25) ∧ (25:Nat) ≤ 30 := by decide

/-- for a valid cell of ANY level, `faceIJOrientation` returns the face and the (i,j) of a leaf that
    lies inside the cell (its level-`level id` ancestor is `id`) -/
theorem faceIJOrientation_in_cell (id : CellID) (hv : isValid id = true) :
    (faceIJOrientation id).1 = face id ∧
    (faceIJOrientation id).2.1 < 2^30 ∧ (faceIJOrientation id).2.2.1 < 2^30 ∧
    parent (cellIDFromFaceIJ (faceIJOrientation id).1 (faceIJOrientation id).2.1 (faceIJOrientation id).2.2.1)
      (level id) = id ∧
    contains id (cellIDFromFaceIJ (faceIJOrientation id).1 (faceIJOrientation id).2.1 (faceIJOrientation id).2.2.1) = true := by
  have h := isCell_of_valid hv
  obtain ⟨g1, g2, g3, _, g5⟩ := faceIJOrientation_leaf_in_cell (rfl : 30 = 30) id (level id) h
  refine ⟨g1, g2, g3, g5, ?_⟩
  have hf : (faceIJOrientation id).1 < 6 := by rw [g1]; exact h.face_lt6
  obtain ⟨hleaf, _, _⟩ := cellIDFromFaceIJ_facts (rfl : 30 = 30) _ _ _ hf g2 g3
  rw [h.contains_iff_parent hleaf]
  exact ⟨h.k_le, g5⟩
example : isValid (0x3000000000000000 : CellID) = true := by decide

/-- a valid cell of level k contains exactly the leaves (f,i,j) of its own face whose i and j agree with
    the cell's (i,j) after dropping the low 30-k bits: the cell is the aligned square of side 2^(30-k) -/
theorem contains_leaf_iff_square (id : CellID) (hv : isValid id = true) (f i j : Nat) (hf : f < 6)
    (hi : i < 2^30) (hj : j < 2^30) :
    contains id (cellIDFromFaceIJ f i j) = true ↔
      f = face id ∧ i / 2^(30 - level id) = (faceIJOrientation id).2.1 / 2^(30 - level id) ∧
        j / 2^(30 - level id) = (faceIJOrientation id).2.2.1 / 2^(30 - level id) :=
  S2Proofs.contains_leaf_iff_square (rfl : 30 = 30) id (level id) (isCell_of_valid hv) f i j hf hi hj
example : isValid (0x3000000000000000 : CellID) = true ∧ (1:Nat) < 6 ∧ (12345:Nat) < 2^30 := by decide

/-! ### continuity of the curve -/

/-- FULL property: consecutive cells along the curve (with wrap-around, also across face
    boundaries) share an edge, i.e. the successor is one of the four edge neighbours.
    PROVED as `S2Proofs.C01.curveContinuity` in `Properties/C01_FaceTransitions.lean` (the cross-face case uses
    the cube-face adjacency of `cellIDFromFaceIJWrap`, soft-float, proved in `S2Proofs/WrapIJ.lean`). -/
def CurveContinuity : Prop :=
  ∀ id : CellID, isValid id = true → nextWrap id ∈ STUV.edgeNeighbors id

/-- proved part: consecutive cells of a level that lie on the same face are edge-adjacent squares —
    their square coordinates (i / 2^(30-k), j / 2^(30-k)) differ by exactly 1 in exactly one coordinate.
    Holds at every level (k = 30: consecutive leaves are 4-adjacent in (i,j)).
    Missing w.r.t. `CurveContinuity`: the 6 transitions from the last cell of a face to the first cell of
    the next face, and the identification of ij-adjacency with membership in `edgeNeighbors`. -/
theorem curveContinuity_partial (id : CellID) (hv : isValid id = true) (hface : face (next id) = face id) :
    let k := level id
    let a := faceIJOrientation id
    let b := faceIJOrientation (next id)
    (b.2.1 / 2^(30-k) = a.2.1 / 2^(30-k) + 1 ∧ b.2.2.1 / 2^(30-k) = a.2.2.1 / 2^(30-k)) ∨
    (a.2.1 / 2^(30-k) = b.2.1 / 2^(30-k) + 1 ∧ b.2.2.1 / 2^(30-k) = a.2.2.1 / 2^(30-k)) ∨
    (b.2.1 / 2^(30-k) = a.2.1 / 2^(30-k) ∧ b.2.2.1 / 2^(30-k) = a.2.2.1 / 2^(30-k) + 1) ∨
    (b.2.1 / 2^(30-k) = a.2.1 / 2^(30-k) ∧ a.2.2.1 / 2^(30-k) = b.2.2.1 / 2^(30-k) + 1) :=
  next_adjacent (rfl : 30 = 30) id (level id) (isCell_of_valid hv) hface
example : isValid (0x3000000000000004 : CellID) = true ∧
    face (next (0x3000000000000004 : CellID)) = face (0x3000000000000004 : CellID) := by decide

end S2Proofs.C01
