/-
  C01 (neighbours).  Same-face part of "every reported edge / vertex neighbour is of the requested
  level, disjoint from the cell and touches it; the four edge neighbours are distinct".
  `edgeNeighbors` always goes through the soft-float `cellIDFromFaceIJWrap`; that this float path is the
  identity on in-range (i,j) is NOT proved: it is the explicit decidable hypothesis `WrapExactOn`
  (evaluated by the kernel in the example).  The cross-face wrap is not covered at all.
-/
import S2Proofs.HilbertNeighbors
import S2Proofs.Properties.C01
import S2Proofs.Properties.C01_Hilbert
open S2 S2.CellID S2.Hilbert S2.STUV
namespace S2Proofs.C01

/-- FULL discrete statement for edge neighbours.  PROVED as `S2Proofs.C01.edgeNeighbors_correct` in
    `Properties/C01_Wrap.lean` (all cells, all faces, float wrap proved); `edgeNeighbors_all_cells` there adds
    "shares an edge on the cube" for each neighbour. -/
def EdgeNeighborsCorrect : Prop :=
  ∀ id : CellID, isValid id = true →
    ∃ n0 n1 n2 n3, edgeNeighbors id = [n0, n1, n2, n3] ∧
      (∀ n ∈ [n0, n1, n2, n3], isValid n = true ∧ level n = level id ∧ intersects n id = false) ∧
      n0 ≠ n1 ∧ n0 ≠ n2 ∧ n0 ≠ n3 ∧ n1 ≠ n2 ∧ n1 ≠ n3 ∧ n2 ≠ n3

/-- FULL discrete statement for vertex neighbours (NOT proved).  Note the contract of Go's `VertexNeighbors`:
    the result lists the cells around the closest vertex INCLUDING the cell's own ancestor
    `parent id lvl` (first element, cellid.go line 252), so "disjoint from the cell" can only be demanded of the others. -/
def VertexNeighborsCorrect : Prop :=
  ∀ id : CellID, isValid id = true → ∀ lvl : Nat, lvl < level id →
    ∀ n ∈ vertexNeighbors id lvl,
      isValid n = true ∧ level n = lvl ∧ (n = parent id lvl ∨ intersects n id = false)

/-- FULL discrete statement for `allNeighbors` (NOT proved). -/
def AllNeighborsCorrect : Prop :=
  ∀ id : CellID, isValid id = true → ∀ lvl : Nat, level id ≤ lvl → lvl ≤ 30 →
    ∀ n ∈ allNeighbors id lvl, isValid n = true ∧ level n = lvl ∧ intersects n id = false

/-- same-face edge neighbours: for a valid cell whose four ij-translates by its own size stay inside the
    face, and on which the float wrap is exact (hypothesis `hw`), `edgeNeighbors` returns four cells that are
    valid, of the cell's level, on its face, pairwise distinct, not intersecting the cell, and whose squares
    are the (down, right, up, left) translates of the cell's square by one — i.e. they share an edge with it.
    NOT covered: cells touching a face boundary (cross-face wrap), and the float fact behind `hw`. -/
theorem edgeNeighbors_sameFace_partial (id : CellID) (hv : isValid id = true)
    (hi : 2^(30 - level id) ≤ (faceIJOrientation id).2.1 ∧ (faceIJOrientation id).2.1 + 2^(30 - level id) < 2^30)
    (hj : 2^(30 - level id) ≤ (faceIJOrientation id).2.2.1 ∧ (faceIJOrientation id).2.2.1 + 2^(30 - level id) < 2^30)
    (hw : WrapExactOn (face id) (edgeNbrArgs id)) :
    ∃ n0 n1 n2 n3, edgeNeighbors id = [n0, n1, n2, n3] ∧
      (∀ n ∈ [n0, n1, n2, n3], isValid n = true ∧ level n = level id ∧ face n = face id ∧ n ≠ id ∧
          intersects n id = false) ∧
      (n0 ≠ n1 ∧ n0 ≠ n2 ∧ n0 ≠ n3 ∧ n1 ≠ n2 ∧ n1 ≠ n3 ∧ n2 ≠ n3) ∧
      (sqI n0 (level id) = sqI id (level id) ∧ sqJ n0 (level id) + 1 = sqJ id (level id)) ∧
      (sqI n1 (level id) = sqI id (level id) + 1 ∧ sqJ n1 (level id) = sqJ id (level id)) ∧
      (sqI n2 (level id) = sqI id (level id) ∧ sqJ n2 (level id) = sqJ id (level id) + 1) ∧
      (sqI n3 (level id) + 1 = sqI id (level id) ∧ sqJ n3 (level id) = sqJ id (level id)) := by
  have h := isCell_of_valid hv
  obtain ⟨g1, g2, g3, _, _⟩ := faceIJOrientation_leaf_in_cell (rfl : 30 = 30) id (level id) h
  have hs : 0 < 2^(30 - level id) := Nat.two_pow_pos _
  -- abbreviations
  generalize hk : level id = k at *
  generalize hfi : (faceIJOrientation id).2.1 = i at *
  generalize hfj : (faceIJOrientation id).2.2.1 = j at *
  generalize hS : 2^(30 - k) = s at *
  have hsz : ((sizeIJ k : Nat) : Int) = (s : Int) := by rw [sizeIJ_eq, hS]
  -- the four calls
  have hargs : edgeNbrArgs id = [((i:Int), (j:Int) - s), ((i:Int) + s, (j:Int)), ((i:Int), (j:Int) + s), ((i:Int) - s, (j:Int))] := by
    simp only [edgeNbrArgs, hk, hfi, hfj, hsz]
  have hwrap : ∀ a ∈ edgeNbrArgs id, cellIDFromFaceIJWrap (faceIJOrientation id).1 a.1 a.2
      = cellIDFromFaceIJ (face id) a.1.toNat a.2.toNat := by
    intro a ha
    rw [cellIDFromFaceIJWrap_eq, g1, hw a ha]
  rw [hargs] at hwrap
  have w0 := hwrap ((i:Int), (j:Int) - s) (by simp)
  have w1 := hwrap ((i:Int) + s, (j:Int)) (by simp)
  have w2 := hwrap ((i:Int), (j:Int) + s) (by simp)
  have w3 := hwrap ((i:Int) - s, (j:Int)) (by simp)
  have t0 : ((j:Int) - s).toNat = j - s := by omega
  have t1 : ((i:Int) + s).toNat = i + s := by omega
  have t2 : ((j:Int) + s).toNat = j + s := by omega
  have t3 : ((i:Int) - s).toNat = i - s := by omega
  simp only [Int.toNat_natCast, t0, t1, t2, t3] at w0 w1 w2 w3
  have hE : edgeNeighbors id =
      [parent (cellIDFromFaceIJ (face id) i (j - s)) k, parent (cellIDFromFaceIJ (face id) (i + s) j) k,
       parent (cellIDFromFaceIJ (face id) i (j + s)) k, parent (cellIDFromFaceIJ (face id) (i - s) j) k] := by
    rw [edgeNeighbors_eq, hargs, hk]
    simp only [List.map_cons, List.map_nil, w0, w1, w2, w3]
  -- square arithmetic
  have dI : sqI id k = i / s := by unfold sqI; rw [hfi, hS]
  have dJ : sqJ id k = j / s := by unfold sqJ; rw [hfj, hS]
  have a1 := Nat.add_div_right i hs
  have a2 := Nat.add_div_right j hs
  have b1 := sub_div_self i s hs hi.1
  have b2 := sub_div_self j s hs hj.1
  have c0 := translate_cell (rfl : 30 = 30) id k h i (j - s) g2 (by omega) (by rw [hS, dJ]; right; omega)
  have c1 := translate_cell (rfl : 30 = 30) id k h (i + s) j (by omega) g3 (by rw [hS, dI]; left; omega)
  have c2 := translate_cell (rfl : 30 = 30) id k h i (j + s) g2 (by omega) (by rw [hS, dJ]; right; omega)
  have c3 := translate_cell (rfl : 30 = 30) id k h (i - s) j (by omega) g3 (by rw [hS, dI]; left; omega)
  rw [hS] at c0 c1 c2 c3
  obtain ⟨p0, q0, r0, s0, u0⟩ := c0
  obtain ⟨p1, q1, r1, s1, u1⟩ := c1
  obtain ⟨p2, q2, r2, s2, u2⟩ := c2
  obtain ⟨p3, q3, r3, s3, u3⟩ := c3
  have fin : ∀ n, IsCell n k → face n = face id → n ≠ id →
      isValid n = true ∧ level n = k ∧ face n = face id ∧ n ≠ id ∧ intersects n id = false := by
    intro n hn hf hne
    have hvn : isValid n = true := (isValid_iff n).mpr ⟨k, hn⟩
    refine ⟨hvn, hn.level_eq, hf, hne, ?_⟩
    obtain ⟨x1, x2⟩ := same_level_ne hn h hne
    rw [Bool.eq_false_iff]; intro hint
    rcases (intersects_iff_contains n id hvn hv).mp hint with hc | hc
    · rw [x1] at hc; cases hc
    · rw [x2] at hc; cases hc
  refine ⟨_, _, _, _, hE, ?_, ?_, ?_, ?_, ?_, ?_⟩
  · intro n hn
    simp only [List.mem_cons, List.mem_nil_iff, or_false] at hn
    rcases hn with rfl | rfl | rfl | rfl
    · exact fin _ p0 q0 u0
    · exact fin _ p1 q1 u1
    · exact fin _ p2 q2 u2
    · exact fin _ p3 q3 u3
  · refine ⟨?_, ?_, ?_, ?_, ?_, ?_⟩ <;> intro he
    · have := congrArg (sqI · k) he; simp only [r0, r1] at this; omega
    · have := congrArg (sqJ · k) he; simp only [s0, s2] at this; omega
    · have := congrArg (sqI · k) he; simp only [r0, r3] at this; omega
    · have := congrArg (sqI · k) he; simp only [r1, r2] at this; omega
    · have := congrArg (sqI · k) he; simp only [r1, r3] at this; omega
    · have := congrArg (sqI · k) he; simp only [r2, r3] at this; omega
  · rw [r0, s0, dI, dJ]; exact ⟨rfl, b2⟩
  · rw [r1, s1, dI, dJ]; exact ⟨a1, rfl⟩
  · rw [r2, s2, dI, dJ]; exact ⟨rfl, a2⟩
  · rw [r3, s3, dI, dJ]; exact ⟨b1, rfl⟩

/-- non-vacuity: the leaf (face 2, i = 5, j = 7) satisfies all hypotheses; the float hypothesis `hw` is
    checked by kernel evaluation of the soft-float model on the four argument pairs. -/
example : ∃ id : CellID, isValid id = true ∧
    (2^(30 - level id) ≤ (faceIJOrientation id).2.1 ∧ (faceIJOrientation id).2.1 + 2^(30 - level id) < 2^30) ∧
    (2^(30 - level id) ≤ (faceIJOrientation id).2.2.1 ∧ (faceIJOrientation id).2.2.1 + 2^(30 - level id) < 2^30) ∧
    WrapExactOn (face id) (edgeNbrArgs id) := by
  refine ⟨cellIDFromFaceIJ 2 5 7, ?_⟩
  obtain ⟨o, _, e⟩ := faceIJOrientation_cellIDFromFaceIJ 2 5 7 (by decide) (by decide) (by decide)
  obtain ⟨v1, _, v3, v4⟩ := cellIDFromFaceIJ_valid_leaf 2 5 7 (by decide) (by decide) (by decide)
  have hs : sizeIJ 30 = 1 := by decide
  simp only [edgeNbrArgs, e, v3, v4, hs]
  refine ⟨v1, by decide, by decide, ?_⟩
  decide +kernel

/-! ### vertex neighbours -/

/-- FINDING (wording of the property, not a code defect): `vertexNeighbors id lvl` always lists the cell's own
    ancestor `parent id lvl`, which contains `id`.  Hence "every reported vertex neighbour is disjoint from the
    cell" read literally is false for EVERY valid cell and every lvl ≤ level id; the contract of Go's
    `VertexNeighbors` is "the cells around the closest vertex", the ancestor included. -/
theorem vertexNeighbors_contains_ancestor (id : CellID) (hv : isValid id = true) (lvl : Nat) (hl : lvl ≤ level id) :
    parent id lvl ∈ vertexNeighbors id lvl ∧ contains (parent id lvl) id = true ∧
      intersects (parent id lvl) id = true := by
  have h := isCell_of_valid hv
  have hp := h.parent_isCell hl
  have hc : contains (parent id lvl) id = true := (hp.contains_iff_parent h).mpr ⟨hl, rfl⟩
  refine ⟨?_, hc, ?_⟩
  · rw [vertexNeighbors_eq]; 
    generalize faceIJOrientation id = r
    obtain ⟨f, i, j, o⟩ := r
    rw [vnAux_eq]
    simp only []
    split <;> simp
  · exact (intersects_iff_contains _ _ ((isValid_iff _).mpr ⟨lvl, hp⟩) hv).mpr (Or.inl hc)
example : isValid (0x3000000000000004 : CellID) = true ∧ 13 ≤ level (0x3000000000000004 : CellID) := by decide

/-- same-face vertex neighbours: for a valid cell, a level `lvl < level id` and both same-face flags of the model
    true (`vnSame`: the i- resp. j-translate towards the closest vertex stays inside the face),
    `vertexNeighbors id lvl` = the ancestor followed by three cells that are valid, of level `lvl`, on the same
    face, different from the ancestor, not intersecting `id`, pairwise distinct, and whose squares are the
    i-translate, the j-translate and the diagonal translate of the ancestor's square by one (so the four cells
    are the 2×2 block around one vertex of the ancestor).
    NOT covered: a flag false (cross-face, soft-float wrap); that the chosen vertex is the CLOSEST one. -/
theorem vertexNeighbors_sameFace_partial (id : CellID) (hv : isValid id = true) (lvl : Nat) (hl : lvl < level id)
    (hsi : vnSame (faceIJOrientation id).2.1 lvl = true) (hsj : vnSame (faceIJOrientation id).2.2.1 lvl = true) :
    ∃ n1 n2 n3, vertexNeighbors id lvl = [parent id lvl, n1, n2, n3] ∧
      (∀ n ∈ [n1, n2, n3], isValid n = true ∧ level n = lvl ∧ face n = face id ∧ n ≠ parent id lvl ∧
          intersects n id = false) ∧
      (n1 ≠ n2 ∧ n1 ≠ n3 ∧ n2 ≠ n3) ∧
      (sqI n1 lvl = sqI (parent id lvl) lvl + 1 ∨ sqI n1 lvl + 1 = sqI (parent id lvl) lvl) ∧
      sqJ n1 lvl = sqJ (parent id lvl) lvl ∧
      sqI n2 lvl = sqI (parent id lvl) lvl ∧
      (sqJ n2 lvl = sqJ (parent id lvl) lvl + 1 ∨ sqJ n2 lvl + 1 = sqJ (parent id lvl) lvl) ∧
      sqI n3 lvl = sqI n1 lvl ∧ sqJ n3 lvl = sqJ n2 lvl := by
  have h := isCell_of_valid hv
  obtain ⟨n1, n2, n3, e, hall, hd, t1, t2, t3, t4, t5, t6⟩ :=
    vertexNeighbors_sameFace (rfl : 30 = 30) id (level id) h lvl hl hsi hsj
  refine ⟨n1, n2, n3, e, ?_, hd, t1, t2, t3, t4, t5, t6⟩
  intro n hn
  obtain ⟨c, f, ne⟩ := hall n hn
  have hvn : isValid n = true := (isValid_iff n).mpr ⟨lvl, c⟩
  refine ⟨hvn, c.level_eq, f, ne, ?_⟩
  obtain ⟨x1, x2⟩ := not_ancestor_disjoint c h hl ne
  rw [Bool.eq_false_iff]; intro hint
  rcases (intersects_iff_contains n id hvn hv).mp hint with hc | hc
  · rw [x1] at hc; cases hc
  · rw [x2] at hc; cases hc

example : ∃ id : CellID, isValid id = true ∧ 29 < level id ∧
    vnSame (faceIJOrientation id).2.1 29 = true ∧ vnSame (faceIJOrientation id).2.2.1 29 = true := by
  refine ⟨cellIDFromFaceIJ 2 5 7, ?_⟩
  obtain ⟨o, _, e⟩ := faceIJOrientation_cellIDFromFaceIJ 2 5 7 (by decide) (by decide) (by decide)
  obtain ⟨v1, _, v3, _⟩ := cellIDFromFaceIJ_valid_leaf 2 5 7 (by decide) (by decide) (by decide)
  simp only [e, v3]
  exact ⟨v1, by decide, by decide, by decide⟩

/-! ### all neighbours -/

/-- interior case of `allNeighbors`: for a valid cell whose square does not touch the face boundary
    (1 ≤ I, I+1 < 2^k, same for J) and every level `level id ≤ lvl ≤ 30`, every reported cell is valid, of the
    requested level, on the same face and does not intersect the cell.  (In this case the model never calls the
    float wrap: all same-face flags are true.)
    Touching: in level-`lvl` square coordinates the cell is the block [I·m, (I+1)·m) × [J·m, (J+1)·m) with
    m = 2^(lvl − k); every reported square lies in that block enlarged by one ring, [I·m − 1, (I+1)·m]²; being
    disjoint from the cell it lies IN the ring, i.e. its closed square meets the cell's boundary.
    NOT covered w.r.t. `AllNeighborsCorrect`: cells on the face boundary (cross-face wrap); not stated:
    that all touching cells are reported. -/
theorem allNeighbors_sameFace_partial (id : CellID) (hv : isValid id = true) (lvl : Nat)
    (h1 : level id ≤ lvl) (h2 : lvl ≤ 30)
    (hI : 1 ≤ sqI id (level id) ∧ sqI id (level id) + 1 < 2^(level id))
    (hJ : 1 ≤ sqJ id (level id) ∧ sqJ id (level id) + 1 < 2^(level id)) :
    ∀ n ∈ allNeighbors id lvl,
      isValid n = true ∧ level n = lvl ∧ face n = face id ∧ intersects n id = false ∧
      (sqI id (level id) * 2^(lvl - level id) ≤ sqI n lvl + 1 ∧
       sqI n lvl ≤ (sqI id (level id) + 1) * 2^(lvl - level id) ∧
       sqJ id (level id) * 2^(lvl - level id) ≤ sqJ n lvl + 1 ∧
       sqJ n lvl ≤ (sqJ id (level id) + 1) * 2^(lvl - level id)) := by
  intro n hn
  have h := isCell_of_valid hv
  obtain ⟨c, f, x1, x2, ring⟩ := allNeighbors_interior (rfl : 30 = 30) id (level id) h lvl h1 h2 hI hJ n hn
  have hvn : isValid n = true := (isValid_iff n).mpr ⟨lvl, c⟩
  refine ⟨hvn, c.level_eq, f, ?_, ring⟩
  rw [Bool.eq_false_iff]; intro hint
  rcases (intersects_iff_contains n id hvn hv).mp hint with hc | hc
  · rw [x2] at hc; cases hc
  · rw [x1] at hc; cases hc

/-- non-vacuity, in two steps (unfolding `sqI` on a closed cell id would make the kernel evaluate the lookup
    tables): (1) there is a valid cell with `faceIJOrientation = (2,5,7,_)` and level 30 (the leaf face 2, i=5, j=7);
    (2) every such cell satisfies the interior hypotheses. -/
example : ∃ (c : CellID) (o : Nat), isValid c = true ∧ faceIJOrientation c = (2, 5, 7, o) ∧ level c = 30 := by
  obtain ⟨o, _, e⟩ := faceIJOrientation_cellIDFromFaceIJ 2 5 7 (by decide) (by decide) (by decide)
  obtain ⟨v1, _, v3, _⟩ := cellIDFromFaceIJ_valid_leaf 2 5 7 (by decide) (by decide) (by decide)
  exact ⟨_, o, v1, e, v3⟩
example (c : CellID) (o : Nat) (e : faceIJOrientation c = (2, 5, 7, o)) (v3 : level c = 30) :
    level c ≤ 30 ∧ (1 ≤ sqI c (level c) ∧ sqI c (level c) + 1 < 2^(level c)) ∧
    (1 ≤ sqJ c (level c) ∧ sqJ c (level c) + 1 < 2^(level c)) := by
  unfold sqI sqJ; rw [e, v3]; simp

end S2Proofs.C01
