/-
  Property C19 — interval, rectangle (and cap) algebra is sound with respect to point membership.

  Model: `S2.Interval` (r1.Interval = `R1`, s1.Interval = `S1`, r2.Rect = `R2Rect`, lat-lng s2.Rect = `LLRect`),
  generic over the number carrier.  Here the carrier is an arbitrary linear order `α` with the operations
  `IvlOps α` about which only the laws `IvlLaws` (order level) and, where arithmetic is involved,
  `IvlArithLaws` are assumed (both are satisfiable: instances for `Int` in `S2Proofs.IntervalLemmas`).
  "p is a point of i" is the library's own `Contains` (`R1.contains`, `S1.contains`, …).
  Circle points range over the documented domain `ValidPt p : -π ≤ p ≤ π`; s1 intervals over `isValid`.
-/
import S2Proofs.IntervalLemmas
import S2Proofs.CapLemmas
import Mathlib.Algebra.Order.Group.Defs

set_option linter.unusedSectionVars false
set_option linter.unusedVariables false
set_option linter.unnecessarySeqFocus false
set_option linter.unusedSimpArgs false

namespace S2Proofs.C19
open S2 S2.IvlOps S2Proofs

variable {α : Type} [LinearOrder α] [IvlOps α] [IvlLaws α]

/-! ## r1.Interval (all inputs; every pair of floats is a valid r1 interval) -/

/-- the empty interval has no points, and `IsEmpty` says exactly that -/
theorem r1_isEmpty_iff_no_points (i : R1 α) : i.isEmpty = true ↔ ∀ p, i.contains p = false := by
  simp only [r1_isEmpty_iff, ← Bool.not_eq_true, r1_contains_iff]
  constructor
  · intro h p; grind
  · intro h; have := h i.lo; have := h i.hi; grind

theorem r1_empty_no_points (p : α) : (R1.empty : R1 α).contains p = false := by
  have := IvlLaws.zero_lt_one (α := α)
  simp only [← Bool.not_eq_true, r1_contains_iff, R1.empty]; grind

/-- Union contains every point of both operands. -/
theorem r1_union_contains (i o : R1 α) (p : α) (h : i.contains p = true ∨ o.contains p = true) :
    (i.union o).contains p = true := by
  unfold R1.union
  split_ifs <;> simp only [r1_isEmpty_iff, r1_contains_iff] at * <;> grind

/-- Union is the smallest interval doing so: it is contained in every interval containing both. -/
theorem r1_union_least (i o k : R1 α) (hi : k.containsInterval i = true) (ho : k.containsInterval o = true) :
    k.containsInterval (i.union o) = true := by
  unfold R1.union
  split_ifs <;> simp only [r1_isEmpty_iff, r1_ci_iff] at * <;> grind

/-- Intersection has exactly the common points. -/
theorem r1_intersection_iff (i o : R1 α) (p : α) :
    (i.intersection o).contains p = true ↔ (i.contains p = true ∧ o.contains p = true) := by
  simp only [R1.intersection, r1_contains_iff]; grind

/-- ContainsInterval agrees with point membership. -/
theorem r1_containsInterval_iff (i o : R1 α) :
    i.containsInterval o = true ↔ ∀ p, o.contains p = true → i.contains p = true := by
  simp only [r1_ci_iff, r1_contains_iff]
  constructor
  · intro h p; grind
  · intro h; have := h o.lo; have := h o.hi; grind

/-- Intersects agrees with point membership (a common point exists). -/
theorem r1_intersects_iff_common_point (i o : R1 α) :
    i.intersects o = true ↔ ∃ p, i.contains p = true ∧ o.contains p = true := by
  simp only [r1_intersects_iff, r1_contains_iff]
  constructor
  · intro h
    by_cases h' : i.lo ≤ o.lo
    · exact ⟨o.lo, by grind⟩
    · exact ⟨i.lo, by grind⟩
  · rintro ⟨p, hp⟩; grind

/-- the intersection is empty exactly when `Intersects` is false -/
theorem r1_intersection_isEmpty_iff (i o : R1 α) :
    (i.intersection o).isEmpty = true ↔ i.intersects o = false := by
  simp only [← Bool.not_eq_true, r1_intersects_iff, r1_isEmpty_iff, R1.intersection]; grind

/-- InteriorContains = membership without the two endpoints. -/
theorem r1_interiorContains_iff (i : R1 α) (p : α) :
    i.interiorContains p = true ↔ (i.contains p = true ∧ p ≠ i.lo ∧ p ≠ i.hi) := by
  simp only [R1.interiorContains, r1_contains_iff, Bool.and_eq_true, decide_eq_true_eq]; grind

/-- InteriorContainsInterval agrees with interior membership of every point of the other. -/
theorem r1_interiorContainsInterval_iff (i o : R1 α) :
    i.interiorContainsInterval o = true ↔ ∀ p, o.contains p = true → i.interiorContains p = true := by
  unfold R1.interiorContainsInterval
  simp only [R1.interiorContains, r1_contains_iff, Bool.and_eq_true, decide_eq_true_eq]
  constructor
  · intro h p; split_ifs at h <;> simp only [r1_isEmpty_iff, Bool.and_eq_true, decide_eq_true_eq] at * <;> grind
  · intro h; have := h o.lo; have := h o.hi
    split_ifs <;> simp only [r1_isEmpty_iff, Bool.and_eq_true, decide_eq_true_eq] at * <;> grind

/-- InteriorIntersects agrees with membership (some point of `o` lies in the interior of `i`);
    the witness may have to lie strictly between two endpoints, hence the carrier must be dense
    (intervals denote sets of real numbers). -/
theorem r1_interiorIntersects_iff [DenselyOrdered α] (i o : R1 α) :
    i.interiorIntersects o = true ↔ ∃ p, i.interiorContains p = true ∧ o.contains p = true := by
  simp only [R1.interiorIntersects, R1.interiorContains, r1_contains_iff, Bool.and_eq_true, decide_eq_true_eq]
  constructor
  · rintro ⟨⟨⟨h1, h2⟩, h3⟩, h4⟩
    by_cases hc : i.lo < o.lo
    · exact ⟨o.lo, by grind⟩
    · obtain ⟨m, hm1, hm2⟩ := exists_between (show i.lo < min i.hi o.hi by grind)
      exact ⟨m, by grind⟩
  · rintro ⟨p, hp⟩; grind

/-- AddPoint: the result contains the new point and every old point. -/
theorem r1_addPoint_contains (i : R1 α) (p q : α) :
    (i.addPoint p).contains p = true ∧ (i.contains q = true → (i.addPoint p).contains q = true) := by
  unfold R1.addPoint
  split_ifs <;> simp only [r1_isEmpty_iff, r1_contains_iff] at * <;> grind

/-- ClampPoint of a non-empty interval lands inside; and it fixes the points of the interval. -/
theorem r1_clampPoint_inside (i : R1 α) (p : α) (hne : i.isEmpty = false) :
    i.contains (i.clampPoint p) = true ∧ (i.contains p = true → i.clampPoint p = p) := by
  simp only [← Bool.not_eq_true, r1_isEmpty_iff, r1_contains_iff, R1.clampPoint] at *; grind

/-- Expanded by a non-negative margin keeps every original point. -/
theorem r1_expanded_contains [IvlArithLaws α] (i : R1 α) (m p : α) (hm : (zero : α) ≤ m)
    (h : i.contains p = true) : (i.expanded m).contains p = true := by
  have h1 := IvlArithLaws.le_add_nonneg i.hi m hm
  have h2 := IvlArithLaws.sub_nonneg_le i.lo m hm
  unfold R1.expanded
  split_ifs <;> simp only [r1_isEmpty_iff, r1_contains_iff] at * <;> grind

/-- Equal agrees with having the same points. -/
theorem r1_equal_iff (i o : R1 α) :
    i.equal o = true ↔ ∀ p, i.contains p = true ↔ o.contains p = true := by
  simp only [R1.equal, feq_eq, r1_isEmpty_iff, r1_contains_iff, Bool.or_eq_true, Bool.and_eq_true, decide_eq_true_eq]
  constructor
  · intro h p; grind
  · intro h; have := h i.lo; have := h i.hi; have := h o.lo; have := h o.hi
    obtain ⟨il, ih⟩ := i; obtain ⟨ol, oh⟩ := o
    simp only at *; grind


/-! ## s1.Interval (all valid intervals — incl. empty, full, singleton, inverted, endpoints at ±π — and all points of [-π, π]) -/

/-- rewrite the Boolean model functions into propositional order facts -/
macro "s1n" : tactic => `(tactic| simp only [s1_contains_iff, s1_fc_iff, s1_ci_iff, s1_ici_iff, s1_isEmpty_iff, s1_isFull_iff,
  s1_intersects_iff, s1_iintersects_iff, s1_icontains_iff', IntMem, s1_valid_iff, S1.full, S1.empty, ValidPt, norm,
  Bool.or_eq_true, Bool.and_eq_true, decide_eq_true_eq, ← Bool.not_eq_true, ne_eq] at *)

/-- empty and full are valid, empty has no point, full has every point -/
theorem s1_empty_full (p : α) (hp : ValidPt p) :
    (S1.empty : S1 α).isValid = true ∧ (S1.full : S1 α).isValid = true ∧
    (S1.empty : S1 α).contains p = false ∧ (S1.full : S1 α).contains p = true := by
  have h1 := IvlLaws.negPi_lt_pi (α := α)
  s1n; grind (splits := 40)

/-- IsEmpty / IsFull say exactly "no point" / "every point" (valid intervals). -/
theorem s1_isEmpty_iff_no_points (i : S1 α) (hi : i.isValid = true) :
    i.isEmpty = true ↔ ∀ p, ValidPt p → i.contains p = false := by
  have h1 := IvlLaws.negPi_lt_pi (α := α)
  constructor
  · intro h p hp; s1n; grind (splits := 40)
  · intro h
    have hc : ∀ p, ¬ (ValidPt p ∧ i.contains p = true ∧ i.contains p = true) := by
      intro p hp; have := h p hp.1; simp [hp.2.1] at this
    have e1 := probe_nex i i hc i.lo; have e2 := probe_nex i i hc i.hi; have e3 := probe_nex i i hc pi
    clear h hc; s1n; grind (splits := 40)

/-- Union contains every point of both operands. -/
theorem s1_union_contains (i o : S1 α) (hi : i.isValid = true) (ho : o.isValid = true) (p : α) (hp : ValidPt p)
    (h : i.contains p = true ∨ o.contains p = true) : (i.union o).contains p = true := by
  have h1 := IvlLaws.negPi_lt_pi (α := α)
  rw [s1_contains_iff] at h ⊢
  rw [s1_contains_iff] at h
  have hq := norm_range p hp
  generalize norm p = q at *
  unfold S1.union
  split_ifs <;> s1n <;> grind (splits := 40)

/-- Union of valid intervals is valid. -/
theorem s1_union_valid (i o : S1 α) (hi : i.isValid = true) (ho : o.isValid = true) :
    (i.union o).isValid = true := by
  have h1 := IvlLaws.negPi_lt_pi (α := α)
  unfold S1.union
  split_ifs <;> s1n <;> grind (splits := 40)

/-- Intersection contains every common point. -/
theorem s1_intersection_contains_common (i o : S1 α) (hi : i.isValid = true) (ho : o.isValid = true) (p : α)
    (hp : ValidPt p) (h1 : i.contains p = true) (h2 : o.contains p = true) :
    (i.intersection o).contains p = true := by
  have h0 := IvlLaws.negPi_lt_pi (α := α)
  rw [s1_contains_iff] at h1 h2 ⊢
  have hq := norm_range p hp
  generalize norm p = q at *
  unfold S1.intersection
  split_ifs <;> s1n <;> grind (splits := 40)

/-- Intersection contains no point that lies in neither operand. -/
theorem s1_intersection_no_stranger (i o : S1 α) (hi : i.isValid = true) (ho : o.isValid = true) (p : α)
    (hp : ValidPt p) (h : (i.intersection o).contains p = true) :
    i.contains p = true ∨ o.contains p = true := by
  have h0 := IvlLaws.negPi_lt_pi (α := α)
  rw [s1_contains_iff] at h ⊢
  rw [s1_contains_iff]
  have hq := norm_range p hp
  generalize norm p = q at *
  unfold S1.intersection at h
  split_ifs at h <;> s1n <;> grind (splits := 40)

/-- Intersection of valid intervals is valid. -/
theorem s1_intersection_valid (i o : S1 α) (hi : i.isValid = true) (ho : o.isValid = true) :
    (i.intersection o).isValid = true := by
  have h1 := IvlLaws.negPi_lt_pi (α := α)
  unfold S1.intersection
  split_ifs <;> s1n <;> grind (splits := 40)

/-- The intersection is the empty interval exactly when `Intersects` is false. -/
theorem s1_intersection_isEmpty_iff (i o : S1 α) (hi : i.isValid = true) (ho : o.isValid = true) :
    (i.intersection o).isEmpty = true ↔ i.intersects o = false := by
  have h1 := IvlLaws.negPi_lt_pi (α := α)
  unfold S1.intersection
  split_ifs <;> s1n <;> grind (splits := 40)


/-- ContainsInterval is sound: it implies containment of every point. -/
theorem s1_containsInterval_sound (i o : S1 α) (hi : i.isValid = true) (ho : o.isValid = true)
    (h : i.containsInterval o = true) (p : α) (hp : ValidPt p) (hop : o.contains p = true) :
    i.contains p = true := by
  have h1 := IvlLaws.negPi_lt_pi (α := α)
  rw [s1_contains_iff] at hop ⊢
  have hq := norm_range p hp
  generalize norm p = q at *
  s1n; grind (splits := 40)

/-- ContainsInterval is complete: if every point of `o` is a point of `i` then it answers true.
    (Needs a dense carrier: the separating point may lie strictly between two endpoints; intervals
    denote arcs of the real circle.  Over the float grid alone the claim is false, e.g.
    `i = [nextafter(-π,0), π]`, `o = [1, nextafter(-π,0)]`: no *float* of `o` is missing from `i`.) -/
theorem s1_containsInterval_complete [DenselyOrdered α] (i o : S1 α) (hi : i.isValid = true)
    (ho : o.isValid = true) (h : ∀ p, ValidPt p → o.contains p = true → i.contains p = true) :
    i.containsInterval o = true := by
  have h1 := IvlLaws.negPi_lt_pi (α := α)
  have e1 := probe_cc i o h o.lo; have e2 := probe_cc i o h o.hi; have e3 := probe_cc i o h pi
  by_cases c1 : i.hi < i.lo
  · obtain ⟨m, hm1, hm2⟩ := exists_between c1
    have e4 := probe_cc i o h m
    clear h; s1n; grind (splits := 40)
  · by_cases c2 : negPi < i.lo
    · obtain ⟨m, hm1, hm2⟩ := exists_between c2
      have e4 := probe_cc i o h m
      clear h; s1n; grind (splits := 40)
    · clear h; s1n; grind (splits := 40)

/-- Intersects agrees with membership: true iff the two intervals have a common point. -/
theorem s1_intersects_iff_common_point (i o : S1 α) (hi : i.isValid = true) (ho : o.isValid = true) :
    i.intersects o = true ↔ ∃ p, ValidPt p ∧ i.contains p = true ∧ o.contains p = true := by
  have h1 := IvlLaws.negPi_lt_pi (α := α)
  constructor
  · intro h
    by_contra hc
    simp only [not_exists] at hc
    have e1 := probe_nex i o hc i.lo; have e2 := probe_nex i o hc i.hi; have e3 := probe_nex i o hc o.lo
    have e4 := probe_nex i o hc o.hi; have e5 := probe_nex i o hc pi
    clear hc; s1n
    simp only [le_refl, true_or, or_true, true_and, and_true] at e1 e2 e3 e4 e5
    by_cases c1 : i.hi < i.lo <;> by_cases c2 : o.hi < o.lo <;>
      by_cases c3 : negPi < i.lo <;> by_cases c4 : negPi < o.lo <;> grind (splits := 40)
  · rintro ⟨p, hp, h2, h3⟩
    rw [s1_contains_iff] at h2 h3
    have hq := norm_range p hp
    generalize norm p = q at *
    s1n; grind (splits := 40)

/-- InteriorContains implies Contains. -/
theorem s1_interiorContains_contains (i : S1 α) (hi : i.isValid = true) (p : α) (hp : ValidPt p)
    (h : i.interiorContains p = true) : i.contains p = true := by
  have h1 := IvlLaws.negPi_lt_pi (α := α)
  have hq := norm_range p hp
  simp only [← Bool.not_eq_true, s1_icontains_iff', s1_contains_iff] at *
  generalize norm p = q at *
  s1n; grind (splits := 40)

/-- InteriorContainsInterval is sound: every point of `o` is an interior point of `i`. -/
theorem s1_interiorContainsInterval_sound (i o : S1 α) (hi : i.isValid = true) (ho : o.isValid = true)
    (h : i.interiorContainsInterval o = true) (p : α) (hp : ValidPt p) (hop : o.contains p = true) :
    i.interiorContains p = true := by
  have h1 := IvlLaws.negPi_lt_pi (α := α)
  have hq := norm_range p hp
  simp only [← Bool.not_eq_true, s1_icontains_iff', s1_contains_iff] at *
  generalize norm p = q at *
  s1n; grind (splits := 40)

/-- InteriorContainsInterval is complete (dense carrier, see `s1_containsInterval_complete`). -/
theorem s1_interiorContainsInterval_complete [DenselyOrdered α] (i o : S1 α) (hi : i.isValid = true)
    (ho : o.isValid = true) (h : ∀ p, ValidPt p → o.contains p = true → i.interiorContains p = true) :
    i.interiorContainsInterval o = true := by
  have h1 := IvlLaws.negPi_lt_pi (α := α)
  have e1 := probe_ci i o h o.lo; have e2 := probe_ci i o h o.hi; have e3 := probe_ci i o h pi
  by_cases c1 : i.hi < i.lo
  · obtain ⟨m, hm1, hm2⟩ := exists_between c1
    have e4 := probe_ci i o h m
    clear h; s1n; grind (splits := 40)
  · by_cases c2 : negPi < i.lo
    · obtain ⟨m, hm1, hm2⟩ := exists_between c2
      have e4 := probe_ci i o h m
      clear h; s1n; grind (splits := 40)
    · clear h; s1n; grind (splits := 40)

/-- InteriorIntersects is sound: when false no point of `o` is an interior point of `i`. -/
theorem s1_interiorIntersects_sound (i o : S1 α) (hi : i.isValid = true) (ho : o.isValid = true)
    (p : α) (hp : ValidPt p) (h2 : i.interiorContains p = true) (h3 : o.contains p = true) :
    i.interiorIntersects o = true := by
  have h1 := IvlLaws.negPi_lt_pi (α := α)
  have hq := norm_range p hp
  simp only [← Bool.not_eq_true, s1_icontains_iff', s1_contains_iff] at *
  generalize norm p = q at *
  s1n; grind (splits := 40)

/-- AddPoint: the result is valid, contains the new point and every old point. -/
theorem s1_addPoint_contains (i : S1 α) (hi : i.isValid = true) (p q : α) (hp : ValidPt p) (hq : ValidPt q) :
    (i.addPoint p).isValid = true ∧ (i.addPoint p).contains p = true ∧
    (i.contains q = true → (i.addPoint p).contains q = true) := by
  have h1 := IvlLaws.negPi_lt_pi (α := α)
  have hpa : ¬ (pi : α) < abs p := by
    have := (IvlLaws.abs_le_pi p).2 hp; order
  have hp' := norm_range p hp
  have hq' := norm_range q hq
  unfold S1.addPoint
  simp only [hpa, if_false, normPoint_eq, s1_contains_iff]
  generalize norm p = p' at *
  generalize norm q = q' at *
  have np : norm p' = p' := norm_of_ne _ (by grind)
  split_ifs <;> (try simp only [np]) <;> s1n <;> grind (splits := 40)

/-- AddPoint ignores points outside [-π, π] (documented). -/
theorem s1_addPoint_out_of_range (i : S1 α) (p : α) (hp : ¬ ValidPt p) : i.addPoint p = i := by
  have hpa : (pi : α) < abs p := by
    have := (IvlLaws.abs_le_pi p).not.2 hp; order
  unfold S1.addPoint; simp [hpa]

/-- Complement: valid, and together with the original it covers the whole circle; moreover no
    interior point of the original belongs to the complement. -/
theorem s1_complement_covers (i : S1 α) (hi : i.isValid = true) (p : α) (hp : ValidPt p) :
    i.complement.isValid = true ∧ (i.contains p = true ∨ i.complement.contains p = true) ∧
    (i.interiorContains p = true → i.complement.contains p = false) := by
  have h1 := IvlLaws.negPi_lt_pi (α := α)
  have hq := norm_range p hp
  unfold S1.complement
  simp only [feq_eq, decide_eq_true_eq]
  simp only [← Bool.not_eq_true, s1_icontains_iff', s1_contains_iff] at *
  generalize norm p = q at *
  split_ifs <;> s1n <;> grind (splits := 40)

/-- Project of a non-empty interval lands inside, and fixes (normalised) points of the interval. -/
theorem s1_project_inside (i : S1 α) (hi : i.isValid = true) (hne : i.isEmpty = false) (p : α) (hp : ValidPt p) :
    i.contains (i.project p) = true ∧ (i.contains p = true → i.project p = norm p) := by
  have h1 := IvlLaws.negPi_lt_pi (α := α)
  have hq := norm_range p hp
  unfold S1.project
  simp only [normPoint_eq]
  rw [s1_contains_iff i p]
  generalize norm p = q at *
  have nq : norm q = q := norm_of_ne _ (by grind)
  split_ifs <;> simp only [s1_contains_iff, nq] <;> s1n <;> grind (splits := 40)

/-- IntervalFromPointPair: valid and contains both points. -/
theorem s1_fromPointPair_contains (a b : α) (ha : ValidPt a) (hb : ValidPt b) :
    (S1.fromPointPair a b).isValid = true ∧ (S1.fromPointPair a b).contains a = true ∧
    (S1.fromPointPair a b).contains b = true := by
  have h1 := IvlLaws.negPi_lt_pi (α := α)
  unfold S1.fromPointPair
  simp only [feq_eq, decide_eq_true_eq]
  split_ifs <;> s1n <;> grind (splits := 40)

/-- IntervalFromEndpoints: valid for endpoints in [-π, π]; unless the result is the empty interval
    `[π, -π]` it contains both endpoints. -/
theorem s1_fromEndpoints_valid (lo hi : α) (hl : ValidPt lo) (hh : ValidPt hi) :
    (S1.fromEndpoints lo hi).isValid = true ∧
    ((S1.fromEndpoints lo hi).isEmpty = false →
      (S1.fromEndpoints lo hi).contains lo = true ∧ (S1.fromEndpoints lo hi).contains hi = true) := by
  have h1 := IvlLaws.negPi_lt_pi (α := α)
  unfold S1.fromEndpoints
  simp only [feq_eq, decide_eq_true_eq, Bool.and_eq_true, Bool.not_eq_true', decide_eq_false_iff_not]
  split_ifs <;> s1n <;> grind (splits := 40)

/-- the expansion before the final containment check is a valid interval -/
theorem s1_expandedRaw_valid [IvlArithLaws α] (i : S1 α) (m : α) : (i.expandedRaw m).isValid = true := by
  have h1 := IvlLaws.negPi_lt_pi (α := α)
  have r1 := IvlArithLaws.rem_range (sub i.lo m)
  have r2 := IvlArithLaws.rem_range (add i.hi m)
  unfold S1.expandedRaw S1.fromEndpoints
  simp only [feq_eq, decide_eq_true_eq, Bool.and_eq_true, Bool.not_eq_true', decide_eq_false_iff_not]
  generalize rem2pi (sub i.lo m) = a at *
  generalize rem2pi (add i.hi m) = b at *
  split_ifs <;> s1n <;> grind (splits := 40)

/-- Expanded (any margin, any sign) returns a valid interval. -/
theorem s1_expanded_valid [IvlArithLaws α] (i : S1 α) (hi : i.isValid = true) (m : α) :
    (i.expanded m).isValid = true := by
  have h1 := IvlLaws.negPi_lt_pi (α := α)
  have hr := s1_expandedRaw_valid i m
  have hf := (s1_empty_full (α := α) pi ⟨le_of_lt h1, le_refl _⟩).2.1
  have he := (s1_empty_full (α := α) pi ⟨le_of_lt h1, le_refl _⟩).1
  unfold S1.expanded S1.expandedTail
  dsimp only
  split_ifs <;> assumption

/-- Expanded by a non-negative margin keeps every original point — for ANY rounding of the arithmetic
    (only `-π ≤ Remainder(x, 2π) ≤ π` is used): the result is `i`, Full, or an interval that passed the
    `ContainsInterval(i)` test of repair 636e942, whose soundness is `s1_containsInterval_sound`. -/
theorem s1_expanded_contains [IvlArithLaws α] (i : S1 α) (hi : i.isValid = true) (m p : α)
    (hm : (zero : α) ≤ m) (hp : ValidPt p) (h : i.contains p = true) : (i.expanded m).contains p = true := by
  have hr := s1_expandedRaw_valid i m
  have hf := (s1_empty_full p hp).2.2.2
  unfold S1.expanded S1.expandedTail
  dsimp only
  simp only [hm, if_true, decide_true, Bool.true_and]
  split_ifs with c1 c2 c3
  · exact h
  · exact hf
  · exact hf
  · simp only [Bool.not_eq_true', Bool.not_eq_false] at c3
    exact s1_containsInterval_sound _ _ hr hi c3 p hp h

/-- Length is negative exactly for the empty interval (after repair 9d93e9d; before it the non-empty interval
    `[π, nextafter(-π,0)]` had length -1). -/
theorem s1_length_neg_iff_isEmpty [IvlLengthLaws α] (i : S1 α) :
    i.length < (zero : α) ↔ i.isEmpty = true := by
  have l1 := IvlLengthLaws.sub_negPi_pi_neg (α := α)
  have l2 := IvlLengthLaws.empty_len_not_pos (α := α)
  have l3 := IvlLengthLaws.negOne_neg (α := α)
  obtain ⟨lo, hi'⟩ := i
  unfold S1.length
  dsimp only
  split_ifs with c1 c2 c3
  · constructor
    · intro hc; exact absurd c1 (not_le.2 hc)
    · intro he; rw [s1_isEmpty_iff] at he; simp only at he; rw [he.1, he.2] at c1; exact absurd l1 (not_lt.2 c1)
  · constructor
    · intro hc; exact absurd c2 (not_lt.2 (le_of_lt hc))
    · intro he; rw [s1_isEmpty_iff] at he; simp only at he; rw [he.1, he.2] at c2; exact absurd c2 l2
  · simp [c3, l3]
  · simp [c3]


/-- the union is the empty interval only if both operands are -/
theorem s1_union_isEmpty_iff (i o : S1 α) (hi : i.isValid = true) (ho : o.isValid = true) :
    (i.union o).isEmpty = true ↔ (i.isEmpty = true ∧ o.isEmpty = true) := by
  have h1 := IvlLaws.negPi_lt_pi (α := α)
  unfold S1.union
  split_ifs <;> s1n <;> grind (splits := 40)

/-! ## r2.Rect (component-wise; a rectangle is valid iff x is empty exactly when y is) -/

/-- rewrite r1 / r2 Boolean functions into order facts -/
macro "r2n" : tactic => `(tactic| simp only [R2Rect.containsPoint, R2Rect.interiorContainsPoint, R2Rect.contains,
  R2Rect.interiorContains, R2Rect.intersects, r2_valid_iff, R2Rect.isEmpty, R2Rect.empty, R1.empty,
  R1.interiorContains, R1.interiorContainsInterval,
  r1_contains_iff, r1_ci_iff, r1_isEmpty_iff, r1_intersects_iff, Bool.or_eq_true, Bool.and_eq_true, decide_eq_true_eq,
  ← Bool.not_eq_true, ne_eq] at *)

theorem r2_empty_no_points (p : R2Point α) :
    (R2Rect.empty : R2Rect α).isValid = true ∧ (R2Rect.empty : R2Rect α).containsPoint p = false := by
  have := IvlLaws.zero_lt_one (α := α)
  r2n; grind

/-- Union (= AddRect) contains every point of both operands. -/
theorem r2_union_contains (r o : R2Rect α) (hr : r.isValid = true) (ho : o.isValid = true) (p : R2Point α)
    (h : r.containsPoint p = true ∨ o.containsPoint p = true) : (r.union o).containsPoint p = true := by
  unfold R2Rect.union R1.union
  split_ifs <;> r2n <;> grind (splits := 40)

theorem r2_union_valid (r o : R2Rect α) (hr : r.isValid = true) (ho : o.isValid = true) :
    (r.union o).isValid = true := by
  unfold R2Rect.union R1.union
  split_ifs <;> r2n <;> grind (splits := 40)

/-- Intersection has exactly the common points and is always valid. -/
theorem r2_intersection_iff (r o : R2Rect α) (p : R2Point α) :
    ((r.intersection o).containsPoint p = true ↔ (r.containsPoint p = true ∧ o.containsPoint p = true)) ∧
    (r.intersection o).isValid = true := by
  have := IvlLaws.zero_lt_one (α := α)
  unfold R2Rect.intersection R1.intersection
  simp only [Bool.or_eq_true]
  split_ifs <;> r2n <;> grind (splits := 40)

/-- Contains(Rect) agrees with point membership (the other rectangle must be valid). -/
theorem r2_contains_iff (r o : R2Rect α) (ho : o.isValid = true) :
    r.contains o = true ↔ ∀ p, o.containsPoint p = true → r.containsPoint p = true := by
  constructor
  · intro h p; r2n; grind
  · intro h
    have e1 := h ⟨o.x.lo, o.y.lo⟩; have e2 := h ⟨o.x.hi, o.y.hi⟩
    r2n; grind

/-- InteriorContains(Rect) agrees with interior point membership. -/
theorem r2_interiorContains_iff (r o : R2Rect α) (ho : o.isValid = true) :
    r.interiorContains o = true ↔ ∀ p, o.containsPoint p = true → r.interiorContainsPoint p = true := by
  constructor
  · intro h p; r2n; grind
  · intro h
    have e1 := h ⟨o.x.lo, o.y.lo⟩; have e2 := h ⟨o.x.hi, o.y.hi⟩
    r2n; grind

/-- Intersects agrees with point membership. -/
theorem r2_intersects_iff_common_point (r o : R2Rect α) :
    r.intersects o = true ↔ ∃ p, r.containsPoint p = true ∧ o.containsPoint p = true := by
  unfold R2Rect.intersects R2Rect.containsPoint
  simp only [Bool.and_eq_true, r1_intersects_iff_common_point]
  constructor
  · rintro ⟨⟨x, hx⟩, ⟨y, hy⟩⟩; exact ⟨⟨x, y⟩, by grind⟩
  · rintro ⟨p, hp⟩; exact ⟨⟨p.x, by grind⟩, ⟨p.y, by grind⟩⟩

/-- AddPoint: valid, contains the new point and all old points. -/
theorem r2_addPoint_contains (r : R2Rect α) (hr : r.isValid = true) (p q : R2Point α) :
    (r.addPoint p).isValid = true ∧ (r.addPoint p).containsPoint p = true ∧
    (r.containsPoint q = true → (r.addPoint p).containsPoint q = true) := by
  unfold R2Rect.addPoint R1.addPoint
  split_ifs <;> r2n <;> grind (splits := 40)

/-- ClampPoint of a non-empty valid rectangle lands inside. -/
theorem r2_clampPoint_inside (r : R2Rect α) (hr : r.isValid = true) (hne : r.isEmpty = false) (p : R2Point α) :
    r.containsPoint (r.clampPoint p) = true := by
  unfold R2Rect.clampPoint R1.clampPoint
  r2n; grind

/-- Expanded by non-negative margins keeps every point; the result is always valid. -/
theorem r2_expanded_contains [IvlArithLaws α] (r : R2Rect α) (m p : R2Point α)
    (hx : (zero : α) ≤ m.x) (hy : (zero : α) ≤ m.y) :
    (r.expanded m).isValid = true ∧ (r.containsPoint p = true → (r.expanded m).containsPoint p = true) := by
  have := IvlLaws.zero_lt_one (α := α)
  have h1 := IvlArithLaws.le_add_nonneg r.x.hi m.x hx
  have h2 := IvlArithLaws.sub_nonneg_le r.x.lo m.x hx
  have h3 := IvlArithLaws.le_add_nonneg r.y.hi m.y hy
  have h4 := IvlArithLaws.sub_nonneg_le r.y.lo m.y hy
  unfold R2Rect.expanded R1.expanded
  simp only [Bool.or_eq_true]
  split_ifs <;> r2n <;> grind (splits := 40)

/-- Expanded is valid for margins of any sign. -/
theorem r2_expanded_valid (r : R2Rect α) (m : R2Point α) : (r.expanded m).isValid = true := by
  have := IvlLaws.zero_lt_one (α := α)
  unfold R2Rect.expanded
  simp only [Bool.or_eq_true]
  split_ifs <;> r2n <;> grind (splits := 40)


/-! ## s2.Rect — the latitude-longitude rectangle (lat : r1, lng : s1; valid rectangles, all LatLng points) -/

theorem ll_empty_valid : (LLRect.empty : LLRect α).isValid = true := by
  have h1 := IvlLaws.negPi_lt_pi (α := α)
  have h3 := IvlLaws.zero_lt_one (α := α)
  have h4 := IvlLaws.zero_one_lat (α := α)
  have e := (s1_empty_full (α := α) pi ⟨le_of_lt h1, le_refl _⟩).1
  simp only [ll_valid_iff, LLRect.empty, R1.empty, r1_isEmpty_iff, s1_isEmpty_iff, S1.empty, e] at *
  grind

theorem ll_empty_full (ll : LatLng α) (hv : ll.isValid = true) :
    (LLRect.empty : LLRect α).isValid = true ∧ (LLRect.full : LLRect α).isValid = true ∧
    (LLRect.empty : LLRect α).containsLatLng ll = false ∧ (LLRect.full : LLRect α).containsLatLng ll = true := by
  have h1 := IvlLaws.negPi_lt_pi (α := α)
  have h2 := IvlLaws.negHalfPi_lt_halfPi (α := α)
  have h3 := IvlLaws.zero_lt_one (α := α)
  have h4 := IvlLaws.zero_one_lat (α := α)
  have hv' := (latlng_valid_iff ll).1 hv
  have e := s1_empty_full ll.lng hv'.2.2
  simp only [← Bool.not_eq_true, ll_valid_iff, ll_mem_iff, LLRect.empty, LLRect.full, LLRect.validLat, R1.empty,
    r1_contains_iff, r1_isEmpty_iff, s1_isEmpty_iff, S1.empty, S1.full] at *
  grind

/-- Union contains every point of both operands. -/
theorem ll_union_contains (r o : LLRect α) (hr : r.isValid = true) (ho : o.isValid = true) (ll : LatLng α)
    (h : r.containsLatLng ll = true ∨ o.containsLatLng ll = true) : (r.union o).containsLatLng ll = true := by
  simp only [ll_mem_iff, ll_valid_iff] at *
  unfold LLRect.union
  have hv : ValidPt ll.lng := by grind
  exact ⟨by grind, by grind, hv, r1_union_contains _ _ _ (by grind),
    s1_union_contains _ _ hr.2.2.2.2.1 ho.2.2.2.2.1 _ hv (by grind)⟩

theorem ll_union_valid (r o : LLRect α) (hr : r.isValid = true) (ho : o.isValid = true) :
    (r.union o).isValid = true := by
  simp only [ll_valid_iff] at *
  have e1 := s1_union_valid _ _ hr.2.2.2.2.1 ho.2.2.2.2.1
  have e2 := s1_union_isEmpty_iff _ _ hr.2.2.2.2.1 ho.2.2.2.2.1
  unfold LLRect.union
  simp only [e1, e2, true_and]
  obtain ⟨a1, a2, a3, a4, -, a6⟩ := hr
  obtain ⟨b1, b2, b3, b4, -, b6⟩ := ho
  rw [← a6, ← b6]
  unfold R1.union
  split_ifs <;> simp only [r1_isEmpty_iff] at * <;> grind

/-- Intersection contains every common point. -/
theorem ll_intersection_contains_common (r o : LLRect α) (hr : r.isValid = true) (ho : o.isValid = true)
    (ll : LatLng α) (h1 : r.containsLatLng ll = true) (h2 : o.containsLatLng ll = true) :
    (r.intersection o).containsLatLng ll = true := by
  simp only [ll_mem_iff, ll_valid_iff] at *
  have e1 := (r1_intersection_iff r.lat o.lat ll.lat).2 ⟨h1.2.2.2.1, h2.2.2.2.1⟩
  have e2 := s1_intersection_contains_common _ _ hr.2.2.2.2.1 ho.2.2.2.2.1 _ h1.2.2.1 h1.2.2.2.2 h2.2.2.2.2
  have n1 : (r.lat.intersection o.lat).isEmpty = false := by
    rw [← Bool.not_eq_true, r1_isEmpty_iff_no_points]; intro hc; have := hc ll.lat; simp [e1] at this
  have n2 : (r.lng.intersection o.lng).isEmpty = false := by
    rw [← Bool.not_eq_true,
      s1_isEmpty_iff_no_points _ (s1_intersection_valid _ _ hr.2.2.2.2.1 ho.2.2.2.2.1)]
    intro hc; have := hc ll.lng h1.2.2.1; simp [e2] at this
  unfold LLRect.intersection
  simp only [n1, n2, Bool.or_self, Bool.false_eq_true, if_false]
  exact ⟨h1.1, h1.2.1, h1.2.2.1, e1, e2⟩

/-- Intersection contains no point that lies in neither operand. -/
theorem ll_intersection_no_stranger (r o : LLRect α) (hr : r.isValid = true) (ho : o.isValid = true)
    (ll : LatLng α) (h : (r.intersection o).containsLatLng ll = true) :
    r.containsLatLng ll = true ∨ o.containsLatLng ll = true := by
  have e0 := ll_empty_full (α := α) ll
  unfold LLRect.intersection at h
  dsimp only at h
  simp only [ll_mem_iff, ll_valid_iff] at *
  split_ifs at h
  · have hv : ll.isValid = true := (latlng_valid_iff ll).2 ⟨h.1, h.2.1, h.2.2.1⟩
    have := (e0 hv).2.2.1
    simp only [← Bool.not_eq_true, ll_mem_iff] at this
    exact absurd h this
  · have e1 := (r1_intersection_iff r.lat o.lat ll.lat).1 h.2.2.2.1
    have e2 := s1_intersection_no_stranger _ _ hr.2.2.2.2.1 ho.2.2.2.2.1 _ h.2.2.1 h.2.2.2.2
    grind

theorem ll_intersection_valid (r o : LLRect α) (hr : r.isValid = true) (ho : o.isValid = true) :
    (r.intersection o).isValid = true := by
  have e0 := ll_empty_valid (α := α)
  unfold LLRect.intersection
  dsimp only
  split_ifs with hc
  · exact e0
  · simp only [ll_valid_iff] at *
    have e1 := s1_intersection_valid _ _ hr.2.2.2.2.1 ho.2.2.2.2.1
    simp only [Bool.or_eq_true, not_or, Bool.not_eq_true] at hc
    simp only [hc.1, hc.2, e1, true_and, Bool.false_eq_true]
    unfold R1.intersection
    grind

/-- Contains(Rect) is sound w.r.t. point membership. -/
theorem ll_contains_sound (r o : LLRect α) (hr : r.isValid = true) (ho : o.isValid = true)
    (h : r.contains o = true) (ll : LatLng α) (hl : o.containsLatLng ll = true) :
    r.containsLatLng ll = true := by
  unfold LLRect.contains at h
  simp only [ll_mem_iff, ll_valid_iff, Bool.and_eq_true] at *
  exact ⟨hl.1, hl.2.1, hl.2.2.1, (r1_containsInterval_iff _ _).1 h.1 _ hl.2.2.2.1,
    s1_containsInterval_sound _ _ hr.2.2.2.2.1 ho.2.2.2.2.1 h.2 _ hl.2.2.1 hl.2.2.2.2⟩

/-- Contains(Rect) is complete (dense carrier, see `s1_containsInterval_complete`). -/
theorem ll_contains_complete [DenselyOrdered α] (r o : LLRect α) (hr : r.isValid = true) (ho : o.isValid = true)
    (h : ∀ ll, o.containsLatLng ll = true → r.containsLatLng ll = true) : r.contains o = true := by
  have h1 := IvlLaws.negPi_lt_pi (α := α)
  unfold LLRect.contains
  simp only [ll_mem_iff, ll_valid_iff, Bool.and_eq_true] at *
  obtain ⟨b1, b2, b3, b4, b5, b6⟩ := ho
  by_cases he : o.lat.isEmpty = true
  · have he2 := b6.1 he
    refine ⟨by rw [r1_ci_iff]; left; exact (r1_isEmpty_iff _).1 he, ?_⟩
    have hrv := hr.2.2.2.2.1
    s1n; grind (splits := 40)
  · have he2 : ¬ o.lng.isEmpty = true := fun hc => he (b6.2 hc)
    have hlat : o.lat.lo ≤ o.lat.hi := by rw [r1_isEmpty_iff] at he; order
    -- a longitude of o
    have hlng : ∃ q, ValidPt q ∧ o.lng.contains q = true := by
      by_contra hc
      simp only [not_exists, not_and] at hc
      exact he2 ((s1_isEmpty_iff_no_points _ b5).2 (fun p hp => by
        have := hc p hp; simpa using this))
    obtain ⟨q, hq1, hq2⟩ := hlng
    constructor
    · rw [r1_containsInterval_iff]
      intro p hp
      rw [r1_contains_iff] at hp
      exact (h ⟨p, q⟩ ⟨by order, by order, hq1, by rw [r1_contains_iff]; exact hp, hq2⟩).2.2.2.1
    · apply s1_containsInterval_complete _ _ hr.2.2.2.2.1 b5
      intro p hp1 hp2
      exact (h ⟨o.lat.lo, p⟩ ⟨b1, b2, hp1, by rw [r1_contains_iff]; exact ⟨le_refl _, hlat⟩, hp2⟩).2.2.2.2

/-- Intersects agrees with point membership: true iff a common LatLng exists. -/
theorem ll_intersects_iff_common_point (r o : LLRect α) (hr : r.isValid = true) (ho : o.isValid = true) :
    r.intersects o = true ↔ ∃ ll, r.containsLatLng ll = true ∧ o.containsLatLng ll = true := by
  unfold LLRect.intersects
  simp only [ll_mem_iff, ll_valid_iff, Bool.and_eq_true] at *
  rw [r1_intersects_iff_common_point, s1_intersects_iff_common_point _ _ hr.2.2.2.2.1 ho.2.2.2.2.1]
  constructor
  · rintro ⟨⟨x, hx1, hx2⟩, ⟨y, hy, hy1, hy2⟩⟩
    rw [r1_contains_iff] at hx1
    exact ⟨⟨x, y⟩, ⟨by grind, by grind, hy, by rw [r1_contains_iff]; exact hx1, hy1⟩, ⟨by grind, by grind, hy, hx2, hy2⟩⟩
  · rintro ⟨ll, h1, h2⟩
    exact ⟨⟨ll.lat, h1.2.2.2.1, h2.2.2.2.1⟩, ⟨ll.lng, h1.2.2.1, h1.2.2.2.2, h2.2.2.2.2⟩⟩

/-- AddPoint (valid LatLng): valid result, contains the new point and all old ones. -/
theorem ll_addPoint_contains (r : LLRect α) (hr : r.isValid = true) (p q : LatLng α) (hp : p.isValid = true) :
    (r.addPoint p).isValid = true ∧ (r.addPoint p).containsLatLng p = true ∧
    (r.containsLatLng q = true → (r.addPoint p).containsLatLng q = true) := by
  have hp' := (latlng_valid_iff p).1 hp
  unfold LLRect.addPoint
  simp only [hp, Bool.not_true, Bool.false_eq_true, if_false]
  simp only [ll_mem_iff, ll_valid_iff] at *
  have a := r1_addPoint_contains r.lat p.lat
  have b := fun q hq => s1_addPoint_contains r.lng hr.2.2.2.2.1 p.lng q hp'.2.2 hq
  have b0 := b p.lng hp'.2.2
  have ne1 : ¬ (r.lat.addPoint p.lat).isEmpty = true := by
    rw [r1_isEmpty_iff_no_points]; intro hc; have := hc p.lat; simp [(a p.lat).1] at this
  have ne2 : ¬ (r.lng.addPoint p.lng).isEmpty = true := by
    rw [s1_isEmpty_iff_no_points _ b0.1]; intro hc; have := hc p.lng hp'.2.2; simp [b0.2.1] at this
  refine ⟨⟨?_, ?_, ?_, ?_, b0.1, by simp [ne1, ne2]⟩, ⟨hp'.1, hp'.2.1, hp'.2.2, (a p.lat).1, b0.2.1⟩, ?_⟩
  · unfold R1.addPoint; split_ifs <;> grind
  · unfold R1.addPoint; split_ifs <;> grind
  · unfold R1.addPoint; split_ifs <;> grind
  · unfold R1.addPoint; split_ifs <;> grind
  · intro hq
    exact ⟨hq.1, hq.2.1, hq.2.2.1, (a q.lat).2 hq.2.2.2.1, (b q.lng hq.2.2.1).2.2 hq.2.2.2.2⟩

/-- AddPoint ignores invalid LatLngs (documented). -/
theorem ll_addPoint_invalid (r : LLRect α) (p : LatLng α) (hp : p.isValid = false) : r.addPoint p = r := by
  unfold LLRect.addPoint; simp [hp]

/-- PolarClosure: valid, and contains every point of the original. -/
theorem ll_polarClosure_contains (r : LLRect α) (hr : r.isValid = true) (ll : LatLng α) :
    r.polarClosure.isValid = true ∧ (r.containsLatLng ll = true → r.polarClosure.containsLatLng ll = true) := by
  have h1 := IvlLaws.negPi_lt_pi (α := α)
  have h2 := IvlLaws.negHalfPi_lt_halfPi (α := α)
  unfold LLRect.polarClosure
  simp only [feq_eq, Bool.or_eq_true, decide_eq_true_eq]
  split_ifs with hc
  · simp only [ll_mem_iff, ll_valid_iff] at *
    have hne : ¬ r.lat.isEmpty = true := by rw [r1_isEmpty_iff]; grind
    constructor
    · refine ⟨hr.1, hr.2.1, hr.2.2.1, hr.2.2.2.1, (s1_empty_full pi ⟨le_of_lt h1, le_refl _⟩).2.1, ?_⟩
      simp only [hne, false_iff]
      s1n; grind
    · intro hl
      exact ⟨hl.1, hl.2.1, hl.2.2.1, hl.2.2.2.1, (s1_empty_full _ hl.2.2.1).2.2.2⟩
  · exact ⟨hr, id⟩

/-- the unexported `expanded`: always valid for valid input (margins of any sign). -/
theorem ll_expanded_valid [IvlArithLaws α] (r : LLRect α) (hr : r.isValid = true) (m : LatLng α) :
    (r.expanded m).isValid = true := by
  have h1 := IvlLaws.negPi_lt_pi (α := α)
  have h2 := IvlLaws.negHalfPi_lt_halfPi (α := α)
  have h4 := IvlLaws.zero_one_lat (α := α)
  have e0 := ll_empty_valid (α := α)
  unfold LLRect.expanded
  dsimp only
  split_ifs with hc
  · exact e0
  · simp only [ll_valid_iff] at *
    have e1 := s1_expanded_valid r.lng hr.2.2.2.2.1 m.lng
    simp only [Bool.or_eq_true, not_or, Bool.not_eq_true] at hc
    simp only [hc.2, e1, true_and, Bool.false_eq_true, iff_false]
    have hc1 := hc.1
    rcases le_total (zero : α) m.lat with hm | hm
    · have a1 := IvlArithLaws.le_add_nonneg r.lat.hi m.lat hm
      have a2 := IvlArithLaws.sub_nonneg_le r.lat.lo m.lat hm
      unfold R1.expanded at hc1 ⊢
      unfold R1.intersection LLRect.validLat
      split_ifs at hc1 ⊢ <;> simp only [← Bool.not_eq_true, r1_isEmpty_iff] at * <;> grind
    · have a1 := IvlArithLaws.add_nonpos_le r.lat.hi m.lat hm
      have a2 := IvlArithLaws.le_sub_nonpos r.lat.lo m.lat hm
      unfold R1.expanded at hc1 ⊢
      unfold R1.intersection LLRect.validLat
      split_ifs at hc1 ⊢ <;> simp only [← Bool.not_eq_true, r1_isEmpty_iff] at * <;> grind

/-- the lat-lng `expanded` with non-negative margins keeps every point (any rounding satisfying the laws). -/
theorem ll_expanded_contains [IvlArithLaws α] (r : LLRect α) (hr : r.isValid = true) (m ll : LatLng α)
    (hm : (zero : α) ≤ m.lat) (hm2 : (zero : α) ≤ m.lng)
    (h : r.containsLatLng ll = true) : (r.expanded m).containsLatLng ll = true := by
  have h1 := IvlLaws.negPi_lt_pi (α := α)
  have hv := s1_expanded_valid r.lng ((ll_valid_iff r).1 hr).2.2.2.2.1 m.lng
  simp only [ll_mem_iff, ll_valid_iff] at h hr
  have e1 := r1_expanded_contains r.lat m.lat ll.lat hm h.2.2.2.1
  have e2 := s1_expanded_contains r.lng hr.2.2.2.2.1 m.lng ll.lng hm2 h.2.2.1 h.2.2.2.2
  have n1 : (r.lat.expanded m.lat).isEmpty = false := by
    rw [← Bool.not_eq_true, r1_isEmpty_iff_no_points]; intro hc; have := hc ll.lat; simp [e1] at this
  have n2 : (r.lng.expanded m.lng).isEmpty = false := by
    rw [← Bool.not_eq_true, s1_isEmpty_iff_no_points _ hv]
    intro hc; have := hc ll.lng h.2.2.1; simp [e2] at this
  unfold LLRect.expanded
  simp only [n1, n2, Bool.or_self, Bool.false_eq_true, if_false, ll_mem_iff]
  refine ⟨h.1, h.2.1, h.2.2.1, ?_, e2⟩
  rw [r1_intersection_iff]
  refine ⟨e1, ?_⟩
  rw [r1_contains_iff]; exact ⟨h.1, h.2.1⟩

/-! ## The two former counterexamples of `s1_expanded_contains` (found by this check on the original code,
repaired in /repo by 9d93e9d and 636e942) — on the bit-exact float64 model they are fine now. -/

section FormerCounterexamples
open S2.IvlF64

-- former finding 1: `[0.88691374347237795, 1.238264765075288].Expanded(2.9659171427883377)` was the singleton
-- `[-2.07900339931596, -2.07900339931596]`; now the containment check turns it into Full.
example : (⟨⟨0x3fec6198ee52c70a⟩, ⟨0x3ff3cfeeb6dc998a⟩⟩ : S1 F64).expanded ⟨0x4007ba32c4575f96⟩ = S1.full ∧
    (⟨⟨0x3fec6198ee52c70a⟩, ⟨0x3ff3cfeeb6dc998a⟩⟩ : S1 F64).expandedRaw ⟨0x4007ba32c4575f96⟩
      = ⟨⟨0xc000a1cc88c2add4⟩, ⟨0xc000a1cc88c2add4⟩⟩ := by decide +kernel

-- former finding 2: `[π, nextafter(-π,0)]` is valid and non-empty; its Length was -1, now 0; Expanded(π) was
-- `[0, 4.44e-16]`, now Full.
example : (⟨⟨0x400921fb54442d18⟩, ⟨0xc00921fb54442d17⟩⟩ : S1 F64).isValid = true ∧
    (⟨⟨0x400921fb54442d18⟩, ⟨0xc00921fb54442d17⟩⟩ : S1 F64).isEmpty = false ∧
    (⟨⟨0x400921fb54442d18⟩, ⟨0xc00921fb54442d17⟩⟩ : S1 F64).length = F64.zero false ∧
    (⟨⟨0x400921fb54442d18⟩, ⟨0xc00921fb54442d17⟩⟩ : S1 F64).expanded ⟨0x400921fb54442d18⟩ = S1.full := by
  decide +kernel

end FormerCounterexamples

/-! ## Non-vacuity: concrete instances of the hypotheses (carrier `Int`, π = 4) -/

section Examples
open S2.IvlInt

-- valid intervals of every kind: ordinary, inverted, singleton at π, empty, full
example : (⟨-1, 3⟩ : S1 Int).isValid = true ∧ (⟨3, -3⟩ : S1 Int).isValid = true ∧ (⟨4, 4⟩ : S1 Int).isValid = true ∧
    (S1.empty : S1 Int).isValid = true ∧ (S1.full : S1 Int).isValid = true ∧
    (⟨-4, 2⟩ : S1 Int).isValid = false := by decide
-- the two-arc intersection: [3,-3]∩[-3... ] the code returns one operand
example : (⟨-3, 3⟩ : S1 Int).intersection ⟨2, -2⟩ = ⟨2, -2⟩ ∧
    ((⟨-3, 3⟩ : S1 Int).intersection ⟨2, -2⟩).contains 4 = true ∧ (⟨-3, 3⟩ : S1 Int).contains 4 = false := by decide
-- union over the ±π seam, the hard "closest endpoints" case, and the full case
example : (⟨3, 4⟩ : S1 Int).union ⟨-4 + 8, -3⟩ = ⟨3, -3⟩ ∧ (⟨-1, 0⟩ : S1 Int).union ⟨2, 3⟩ = ⟨-1, 3⟩ ∧
    (⟨-3, 3⟩ : S1 Int).union ⟨2, -2⟩ = S1.full := by decide
-- hypotheses of containment / intersection theorems are satisfiable with non-trivial answers
example : (⟨3, -1⟩ : S1 Int).containsInterval ⟨4, -2⟩ = true ∧ (⟨3, -1⟩ : S1 Int).containsInterval ⟨-2, 0⟩ = false ∧
    (⟨3, -1⟩ : S1 Int).intersects ⟨-1, 0⟩ = true ∧ (⟨1, 2⟩ : S1 Int).intersects ⟨3, 0⟩ = false := by decide
-- point at -π is treated as π
example : (⟨3, 4⟩ : S1 Int).contains (-4) = true ∧ ((⟨1, 2⟩ : S1 Int).addPoint (-4)) = ⟨1, 4⟩ ∧
    (⟨1, 2⟩ : S1 Int).project (-4) = 2 ∧ (⟨1, 2⟩ : S1 Int).complement = ⟨2, 1⟩ := by decide
-- expansion with wrap (exact arithmetic): [3,4] expanded by 2 is [1,-2]; by 4 it is full
example : (⟨3, 4⟩ : S1 Int).expanded 2 = ⟨1, -2⟩ ∧ (⟨3, 4⟩ : S1 Int).expanded 4 = S1.full ∧
    (⟨3, 4⟩ : S1 Int).expanded (-1) = S1.empty := by decide
-- r1 / r2 / lat-lng rectangles
example : (⟨0, 2⟩ : R1 Int).union ⟨5, 3⟩ = ⟨0, 2⟩ ∧ (⟨0, 2⟩ : R1 Int).intersection ⟨1, 5⟩ = ⟨1, 2⟩ ∧
    (⟨0, 2⟩ : R1 Int).expanded 1 = ⟨-1, 3⟩ ∧ (⟨0, 2⟩ : R1 Int).clampPoint 7 = 2 := by decide
example : (⟨⟨0, 2⟩, ⟨1, 3⟩⟩ : R2Rect Int).isValid = true ∧ (⟨⟨0, 2⟩, ⟨3, 1⟩⟩ : R2Rect Int).isValid = false ∧
    ((⟨⟨0, 2⟩, ⟨1, 3⟩⟩ : R2Rect Int).intersection ⟨⟨3, 4⟩, ⟨1, 3⟩⟩) = R2Rect.empty := by decide
example : (⟨⟨-1, 2⟩, ⟨3, -3⟩⟩ : LLRect Int).isValid = true ∧ (LLRect.empty : LLRect Int).isValid = true ∧
    (LLRect.full : LLRect Int).isValid = true ∧ (⟨⟨-1, 2⟩, ⟨3, -3⟩⟩ : LLRect Int).polarClosure = ⟨⟨-1, 2⟩, S1.full⟩ ∧
    (⟨⟨-1, 2⟩, ⟨3, -3⟩⟩ : LLRect Int).containsLatLng ⟨2, -4⟩ = true ∧
    (⟨⟨-1, 2⟩, ⟨3, -3⟩⟩ : LLRect Int).containsLatLng ⟨3, 4⟩ = false := by decide

end Examples


end S2Proofs.C19

/-! ## s2.Cap (model `S2.CapM`; `P` = points, `α` = chord-angle carrier)

"p is a point of c" is the library's `ContainsPoint` (`dist c.center p ≤ c.radius`).  Theorems that use only
`CapLaws` (facts true of the float code by construction) are full; theorems that need the numeric `ChordLaws`
(triangle inequality / monotonicity of chord-angle `Add`, which floats satisfy only up to rounding) are `_partial`.
`Cap.Union` uses trigonometry and is not modelled: it is judged by the oracle only (and fails, see DELIVER). -/

namespace S2Proofs.C19
open S2 S2.CapOps S2.CapPt S2Proofs

section Caps
variable {P α : Type} [LinearOrder α] [CapPt P] [CapOps P α] [CapLaws P α]

private theorem cap_feq_eq (a b : α) : feq a b = decide (a = b) := by
  rw [Bool.eq_iff_iff, CapLaws.feq_iff (P := P)]; simp

/-- rewrite the Boolean cap functions into order facts -/
macro "capn" : tactic => `(tactic| simp only [CapM.containsPoint, CapM.interiorContainsPoint, CapM.isEmpty, CapM.isFull,
  CapM.isValid, CapM.empty, CapM.full, CapM.contains, CapM.intersects, cap_feq_eq (P := P),
  Bool.or_eq_true, Bool.and_eq_true, decide_eq_true_eq, ← Bool.not_eq_true, ne_eq] at *)

/-- empty and full caps are valid; the empty cap has no point, the full cap has every point -/
theorem cap_empty_full (p : P) :
    (CapM.empty : CapM P α).isValid = true ∧ (CapM.full : CapM P α).isValid = true ∧
    (CapM.empty : CapM P α).containsPoint p = false ∧ (CapM.full : CapM P α).containsPoint p = true := by
  have h1 := CapLaws.negOne_lt_zero (P := P) (α := α)
  have h2 := CapLaws.zero_lt_four (P := P) (α := α)
  have h3 := CapLaws.dist_nonneg (α := α) (centerPoint : P) p
  have h4 := CapLaws.dist_le_four (α := α) (centerPoint : P) p
  have h5 := CapLaws.center_unit (P := P) (α := α)
  capn; grind

/-- IsEmpty says exactly "no point" -/
theorem cap_isEmpty_iff_no_points (c : CapM P α) : c.isEmpty = true ↔ ∀ p, c.containsPoint p = false := by
  constructor
  · intro h p
    have h3 := CapLaws.dist_nonneg (α := α) c.center p
    capn; grind
  · intro h
    have e := h c.center
    have h3 := CapLaws.dist_self (α := α) c.center
    capn; grind

/-- IsFull implies every point is contained (valid caps: `radius = 4`) -/
theorem cap_isFull_all_points (c : CapM P α) (h : c.isFull = true) (p : P) : c.containsPoint p = true := by
  have h4 := CapLaws.dist_le_four (α := α) c.center p
  capn; grind

/-- InteriorContainsPoint implies ContainsPoint -/
theorem cap_interiorContainsPoint_containsPoint (c : CapM P α) (p : P) (h : c.interiorContainsPoint p = true) :
    c.containsPoint p = true := by
  have h4 := CapLaws.dist_le_four (α := α) c.center p
  capn; grind

/-- AddPoint: the result contains the new point and every old point, and is valid (valid cap, unit point). -/
theorem cap_addPoint_contains (c : CapM P α) (p q : P) :
    (c.addPoint p).containsPoint p = true ∧ (c.containsPoint q = true → (c.addPoint p).containsPoint q = true) ∧
    (c.isValid = true → isUnit p = true → (c.addPoint p).isValid = true) := by
  have h1 := CapLaws.dist_self (α := α) p
  have h2 := CapLaws.dist_nonneg (α := α) c.center q
  have h3 := CapLaws.dist_le_four (α := α) c.center p
  have h4 := CapLaws.zero_lt_four (P := P) (α := α)
  unfold CapM.addPoint
  dsimp only
  split_ifs <;> capn <;> grind

/-- Complement is valid; the complement of empty is full and of full is empty. -/
theorem cap_complement_valid (c : CapM P α) (hv : c.isValid = true) :
    c.complement.isValid = true ∧ (c.isEmpty = true → c.isFull = false → c.complement = CapM.full) ∧
    (c.isFull = true → c.complement = CapM.empty) := by
  have e := cap_empty_full (P := P) (α := α) c.center
  have h1 := CapLaws.neg_unit (α := α) c.center
  have h2 := fun h => CapLaws.csub_four_le (P := P) c.radius h
  unfold CapM.complement
  split_ifs with c1 c2
  · simp [e.1, c1]
  · simp [e.2.1, c1, c2]
  · refine ⟨?_, by simp [c2], by simp [c1]⟩
    capn; grind

/-- Expanded (by `dc = ChordAngleFromAngle(distance)`) is valid. -/
theorem cap_expanded_valid (c : CapM P α) (hv : c.isValid = true) (dc : α) : (c.expanded dc).isValid = true := by
  have e := cap_empty_full (P := P) (α := α) c.center
  have h := CapLaws.cadd_le_four (P := P) c.radius dc
  unfold CapM.expanded
  split_ifs
  · exact e.1
  · capn; grind

variable [ChordLaws P α]

/-- Contains(Cap) is sound w.r.t. point membership — GIVEN the exact chord-angle laws (`ChordLaws`).
    Missing for the float code: the rounding analysis of `Add` and of the chord computation (the oracle checks
    the clause up to an explicit rounding allowance). -/
theorem cap_contains_sound_partial (c o : CapM P α) (h : c.contains o = true) (p : P)
    (hp : o.containsPoint p = true) : c.containsPoint p = true := by
  have t := ChordLaws.tri (α := α) c.center o.center p
  have m := ChordLaws.cadd_mono_right (P := P) (dist c.center o.center : α) (dist o.center p) o.radius
  have h3 := CapLaws.dist_nonneg (α := α) o.center p
  have h4 := CapLaws.dist_le_four (α := α) c.center p
  unfold CapM.contains at h
  split_ifs at h <;> capn <;> grind

/-- A common point forces Intersects — GIVEN `ChordLaws` (same caveat). -/
theorem cap_intersects_of_common_point_partial (c o : CapM P α) (p : P)
    (h1 : c.containsPoint p = true) (h2 : o.containsPoint p = true) : c.intersects o = true := by
  have t := ChordLaws.tri (α := α) c.center p o.center
  have cm := ChordLaws.dist_comm (α := α) o.center p
  have m1 := ChordLaws.cadd_mono_right (P := P) (dist c.center p : α) (dist p o.center) o.radius
  have m2 := ChordLaws.cadd_mono_left (P := P) (dist c.center p : α) c.radius o.radius
  have h3 := CapLaws.dist_nonneg (α := α) c.center p
  have h4 := CapLaws.dist_nonneg (α := α) o.center p
  unfold CapM.intersects
  split_ifs <;> capn <;> grind

/-- Expanded by a non-negative chord angle keeps every point — GIVEN `a ≤ Add a b` for `b ≥ 0`. -/
theorem cap_expanded_contains_partial (c : CapM P α) (hv : c.isValid = true) (dc : α) (hd : (zero : α) ≤ dc) (p : P)
    (h : c.containsPoint p = true) : (c.expanded dc).containsPoint p = true := by
  have l := ChordLaws.le_cadd (P := P) c.radius dc
  have h3 := CapLaws.dist_nonneg (α := α) c.center p
  unfold CapM.expanded
  split_ifs <;> capn <;> grind

/-- AddCap contains every point of both operands — GIVEN `ChordLaws` (exact chord geometry; the float code
    relies on the rounding allowance `addCapSlack`, derived in s2/cap.go and searched adversarially). -/
theorem cap_addCap_contains_partial (c o : CapM P α) (ho : o.isValid = true) (p : P)
    (h : c.containsPoint p = true ∨ o.containsPoint p = true) : (c.addCap o).containsPoint p = true := by
  have t := ChordLaws.tri (α := α) c.center o.center p
  have m := ChordLaws.cadd_mono_right (P := P) (dist c.center o.center : α) (dist o.center p) o.radius
  have h3 := CapLaws.dist_nonneg (α := α) o.center p
  have h5 := CapLaws.dist_nonneg (α := α) c.center p
  have h6 := CapLaws.dist_nonneg (α := α) c.center o.center
  have l := ChordLaws.le_cexp (P := P) (cadd (dist c.center o.center : α) o.radius) (dist c.center o.center) o.radius
  have l2 := ChordLaws.le_cadd (P := P) (dist c.center o.center : α) o.radius (CapLaws.dist_le_four _ _)
  have l4 := CapLaws.cadd_le_four (P := P) (dist c.center o.center : α) o.radius (CapLaws.dist_le_four _ _)
  unfold CapM.addCap
  dsimp only
  split_ifs <;> capn <;> grind

/-- AddCap keeps validity (valid operands). -/
theorem cap_addCap_valid (c o : CapM P α) (hc : c.isValid = true) (ho : o.isValid = true) :
    (c.addCap o).isValid = true := by
  have h6 := CapLaws.dist_nonneg (α := α) c.center o.center
  have l4 := CapLaws.cadd_le_four (P := P) (dist c.center o.center : α) o.radius (CapLaws.dist_le_four _ _)
  have l2 := ChordLaws.le_cadd (P := P) (dist c.center o.center : α) o.radius (CapLaws.dist_le_four _ _)
  have l5 := CapLaws.cexp_le_four (P := P) (cadd (dist c.center o.center : α) o.radius)
    (addCapSlack (dist c.center o.center : α) o.radius (cadd (dist c.center o.center : α) o.radius))
  unfold CapM.addCap
  dsimp only
  split_ifs <;> capn <;> grind

/-- Union (after the repair) contains every point of both operands — GIVEN `ChordLaws` — REGARDLESS of what the
    trigonometric part computed: `containedByAngles` and the trig-built cap `t` are arbitrary. -/
theorem cap_union_contains_partial (c o : CapM P α) (hc : c.isValid = true) (ho : o.isValid = true)
    (containedByAngles : Bool) (t : CapM P α) (p : P)
    (h : c.containsPoint p = true ∨ o.containsPoint p = true) :
    (c.unionWith o containedByAngles t).containsPoint p = true := by
  unfold CapM.unionWith
  dsimp only
  by_cases hlt : c.radius < o.radius
  · simp only [hlt, if_true]
    split_ifs with c1 c2 c3
    · rcases (Bool.or_eq_true_iff.1 c1) with hf | he
      · exact cap_isFull_all_points o hf p
      · have := (cap_isEmpty_iff_no_points c).1 he p
        rcases h with h | h
        · rw [this] at h; exact absurd h (by simp)
        · exact h
    · exact cap_addCap_contains_partial o c hc p h.symm
    · exact cap_addCap_contains_partial o c hc p h.symm
    · apply cap_addCap_contains_partial _ c hc p
      rcases h with h | h
      · exact Or.inr h
      · exact Or.inl (cap_addCap_contains_partial t o ho p (Or.inr h))
  · simp only [hlt, if_false]
    split_ifs with c1 c2 c3
    · rcases (Bool.or_eq_true_iff.1 c1) with hf | he
      · exact cap_isFull_all_points c hf p
      · have := (cap_isEmpty_iff_no_points o).1 he p
        rcases h with h | h
        · exact h
        · rw [this] at h; exact absurd h (by simp)
    · exact cap_addCap_contains_partial c o ho p h
    · exact cap_addCap_contains_partial c o ho p h
    · apply cap_addCap_contains_partial _ o ho p
      rcases h with h | h
      · exact Or.inl (cap_addCap_contains_partial t c hc p (Or.inr h))
      · exact Or.inr h

end Caps

/-- Complement ∪ original covers every point — GIVEN exact arithmetic: the carrier is an ordered additive group,
    the chord identity `|c−p|² + |−c−p|² = 4` holds for the point, and `Sub 4 r = 4 − r`.
    (For floats each of the three holds only up to rounding: points within a few ulps of the common boundary can
    belong to neither cap; the oracle checks the clause up to the explicit allowance `tol`.) -/
theorem cap_complement_covers_exact_partial {P α : Type} [LinearOrder α] [AddCommGroup α] [IsOrderedAddMonoid α]
    [CapPt P] [CapOps P α] [CapLaws P α] (c : CapM P α) (p : P)
    (hid : (dist c.center p : α) + dist (neg c.center) p = four)
    (hsub : csub (four : α) c.radius = four - c.radius) :
    c.containsPoint p = true ∨ c.complement.containsPoint p = true := by
  have e := cap_empty_full (P := P) (α := α) p
  by_cases hc : c.containsPoint p = true
  · exact Or.inl hc
  · right
    unfold CapM.complement
    split_ifs with c1 c2
    · exact absurd (cap_isFull_all_points c c1 p) hc
    · exact e.2.2.2
    · simp only [CapM.containsPoint, decide_eq_true_eq, not_le] at hc ⊢
      rw [hsub]
      have : (dist (neg c.center) p : α) = four - dist c.center p := by
        rw [← hid]; exact (add_sub_cancel_left _ _).symm
      rw [this]
      exact sub_le_sub_left (le_of_lt hc) _

/-! ### Non-vacuity for the cap theorems: the 0-sphere instance (`P = Bool`, `α = Int`) satisfies `CapLaws` and
`ChordLaws` (instances in `S2Proofs.CapLemmas`); concrete caps meeting the hypotheses: -/
section CapExamples
open S2Proofs.S0

example : (⟨true, 0⟩ : CapM Bool Int).isValid = true ∧ (⟨true, 0⟩ : CapM Bool Int).containsPoint true = true ∧
    (⟨true, 0⟩ : CapM Bool Int).containsPoint false = false ∧
    ((⟨true, 0⟩ : CapM Bool Int).complement) = ⟨false, 4⟩ ∧
    (⟨true, 0⟩ : CapM Bool Int).contains ⟨true, 0⟩ = true ∧ (⟨true, 0⟩ : CapM Bool Int).intersects ⟨false, 0⟩ = false ∧
    ((⟨true, 0⟩ : CapM Bool Int).addCap ⟨false, 0⟩) = ⟨true, 4⟩ ∧
    ((⟨true, 0⟩ : CapM Bool Int).addPoint false) = ⟨true, 4⟩ := by decide
-- hypotheses `hid`, `hsub` of `cap_complement_covers_exact_partial`
example : (dist true false : Int) + dist (neg true) false = four ∧ csub (four : Int) 1 = 4 - 1 := by decide
-- a bit-exact float cap: valid, contains its centre, complement and expansion valid
open S2.CapF64 in
example : let c : Cap := ⟨⟨F64.one, Chord.f0, Chord.f0⟩, F64.one⟩
    c.isValid = true ∧ c.containsPoint c.center = true ∧ c.complement.isValid = true ∧
    c.complement.containsPoint c.center = false ∧ (c.expanded F64.one).isValid = true := by decide +kernel

end CapExamples

/-! ### The former `AddCap` counterexample (1 ulp short with the old slack `dblEpsilon·dist`) is fine with the repaired
allowance; likewise the two-point-cap Union case when finished by two `AddCap`s. -/

section CapF64
open S2.CapF64

example :
    let a : Cap := ⟨⟨⟨0x3fef2fa8a5c00669⟩, ⟨0xbfcafca85f1c2009⟩, ⟨0x3fb3707c5d9a22e1⟩⟩, ⟨0x3ffd877431415986⟩⟩
    let b : Cap := ⟨⟨⟨0xbfe00ea81fad87d0⟩, ⟨0xbfeaadad918518d5⟩, ⟨0x3fcd8274f2060848⟩⟩, ⟨0x39b4484bfeebc2a0⟩⟩
    let p : V3 := ⟨⟨0xbfe00ea81fad87d6⟩, ⟨0xbfeaadad918518d2⟩, ⟨0x3fcd8274f2060860⟩⟩
    a.isValid = true ∧ b.isValid = true ∧ Chord.isUnit p = true ∧
      b.containsPoint p = true ∧ (a.addCap b).containsPoint p = true := by
  decide +kernel

end CapF64

end S2Proofs.C19
