/-
  C14 — concurrent read-only queries on a shared index are safe and give serial answers.

  Model: `S2.Protocol` (N threads, N arbitrary, interleaving semantics with sequentially consistent
  atomics; every thread runs the regenerated instruction list of `maybeApplyUpdates` followed by
  reads of the cell map).  All theorems are for EVERY N, EVERY well-formed program, EVERY
  interleaving (invariant induction over the step relation, `S2Proofs.ProtocolInv.reach_inv`), for
  an index that is already built (`pending = false`) or not yet built (`pending = true`), and hence
  also for "becomes built mid-flight".

  Label: partial.  What is proved is the protocol.  That the Go functions touch only the modelled
  shared state (status, mu, pendingAdditionsPos, cellMap/cells), that `applyUpdatesInternal` with
  nothing pending performs no write to reader-visible state (in the semantics: `apply` with
  `pending = false` is a no-op), and that answers are a function of the complete cell map, is tied
  by the forced schedules under the Go race detector (harness/c14.go), not proved.
-/
import S2.Protocol
import S2.Generated.ProtocolIR
import S2Proofs.Protocol.Inv
namespace S2Proofs.C14
open S2.Protocol S2Proofs.ProtocolInv

/-! ### The regenerated program is well formed (tie to the code: breaks at build time) -/

/-- the instruction list extracted from `/repo/s2/shapeindex.go: maybeApplyUpdates` satisfies
    "status checked before Lock; the write of cells lies between Lock and Unlock; the store of
    fresh follows the write and precedes Unlock" -/
theorem generated_wellFormed : WellFormed S2.Generated.ProtocolIR.maybeApplyUpdates = true := by decide

/-- a query = maybeApplyUpdates followed by `r` reads of the cell map -/
def query (r : Nat) : Prog := S2.Generated.ProtocolIR.maybeApplyUpdates ++ List.replicate r .readCells

theorem post_reads (r : Nat) : Post (List.replicate r Instr.readCells) = true := by
  induction r with
  | zero => rfl
  | succ n ih => simpa [List.replicate_succ, Post] using ih

theorem post_append {a b : Prog} (ha : Post a = true) (hb : Post b = true) : Post (a ++ b) = true := by
  induction a with
  | nil => simpa using hb
  | cons x t ih => cases x <;> simp_all [Post]

theorem stored_append {a b : Prog} (ha : Stored a = true) (hb : Post b = true) : Stored (a ++ b) = true := by
  induction a with
  | nil => simp [Stored] at ha
  | cons x t ih => cases x <;> simp_all [Stored, post_append]

theorem locked1_append {a b : Prog} (ha : Locked1 a = true) (hb : Post b = true) : Locked1 (a ++ b) = true := by
  induction a with
  | nil => simp [Locked1] at ha
  | cons x t ih =>
    cases x with
    | storeStatus v => cases v <;> simp_all [Locked1, stored_append]
    | _ => simp_all [Locked1]

theorem locked0_append {a b : Prog} (ha : Locked0 a = true) (hb : Post b = true) : Locked0 (a ++ b) = true := by
  induction a with
  | nil => simp [Locked0] at ha
  | cons x t ih => cases x <;> simp_all [Locked0, locked1_append]

theorem entered_append {a b : Prog} (ha : Entered a = true) (hb : Post b = true) : Entered (a ++ b) = true := by
  induction a with
  | nil => simp [Entered] at ha
  | cons x t ih => cases x <;> simp_all [Entered, locked0_append]

/-- appending reads (or schedule points) to a well-formed program keeps it well formed -/
theorem wellFormed_append {a b : Prog} (ha : WellFormed a = true) (hb : Post b = true) :
    WellFormed (a ++ b) = true := by
  unfold WellFormed at *
  induction a with
  | nil => simp [Start] at ha
  | cons x t ih =>
    cases x with
    | sched k => simp_all [Start]
    | ifFreshSkip n =>
      simp only [Start, Bool.and_eq_true, decide_eq_true_eq, List.cons_append] at ha ⊢
      obtain ⟨⟨h1, h2⟩, h3⟩ := ha
      refine ⟨⟨entered_append h1 hb, ?_⟩, by simp; omega⟩
      rw [List.drop_append_of_le_length h3]
      exact post_append h2 hb
    | _ => simp [Start] at ha

/-- every query (any number of reads) is a well-formed program -/
theorem query_wellFormed (r : Nat) : WellFormed (query r) = true :=
  wellFormed_append generated_wellFormed (post_reads r)

/-! ### Safety, for every N, every well-formed program, every interleaving -/

/-- (1) No data race: in no reachable state is one thread in the middle of writing the cell map
    while another thread is in the middle of reading or writing it. -/
theorem no_race (N : Nat) (p : Prog) (hwf : WellFormed p = true) (p0 : Bool) (c : Cfg)
    (hr : Reach N (init p p0) c) : ¬ Race N c := by
  have hinv := reach_inv hwf hr
  rintro ⟨i, j, _, _, hij, hw, hm⟩
  simp only [isWriter, Bool.and_eq_true, beq_iff_eq] at hw
  obtain ⟨hmi, hhi⟩ := hw
  have hpend := hinv.midW i hmi hhi
  have hoi : c.sh.owner = some i := (hinv.own i).mpr (head_apply_holds (hinv.shape i) hhi)
  rcases hinv.midHead j hm with hj | hj
  · have hoj : c.sh.owner = some j := (hinv.own j).mpr (head_apply_holds (hinv.shape j) hj)
    rw [hoi] at hoj
    exact hij (Option.some.inj hoj)
  · have hp := head_read_post (hinv.shape j) hj
    have := hinv.npend j (Or.inr (Or.inr hp))
    rw [this] at hpend
    exact Bool.noConfusion hpend

/-- (2a) A thread that is reading the cell map (i.e. after its own maybeApplyUpdates) sees the
    complete index: nothing is pending and nobody is writing. -/
theorem reader_sees_complete (N : Nat) (p : Prog) (hwf : WellFormed p = true) (p0 : Bool) (c : Cfg)
    (hr : Reach N (init p p0) c) (i : Nat) (hhead : (c.th i).k.head? = some .readCells) :
    c.sh.complete = true ∧ c.sh.pending = false := by
  have hinv := reach_inv hwf hr
  have hp := head_read_post (hinv.shape i) hhead
  have hnp := hinv.npend i (Or.inr (Or.inr hp))
  exact ⟨by rw [hinv.compl, hnp]; rfl, hnp⟩

/-- (2b) Every read any thread has completed saw the complete index (the answer of a query is the
    answer of the serial run, which reads the complete index). -/
theorem all_reads_complete (N : Nat) (p : Prog) (hwf : WellFormed p = true) (p0 : Bool) (c : Cfg)
    (hr : Reach N (init p p0) c) (i : Nat) : (c.th i).readsOK = true :=
  (reach_inv hwf hr).reads i

/-- (3) Updates are applied with effect exactly once: the number of applications that wrote is 1
    once the additions that were pending initially are no longer pending, and 0 otherwise — never 2.
    (A second, no-pending application executes `apply` with `pending = false`, which the semantics
    defines as writing nothing.) -/
theorem applied_exactly_once (N : Nat) (p : Prog) (hwf : WellFormed p = true) (p0 : Bool) (c : Cfg)
    (hr : Reach N (init p p0) c) :
    c.sh.applied = (if p0 && !c.sh.pending then 1 else 0) ∧ c.sh.fault = false :=
  ⟨(reach_inv hwf hr).applied, (reach_inv hwf hr).nofault⟩

/-- (3') when some thread has finished, the pending additions have been applied (exactly once) -/
theorem finished_implies_applied (N : Nat) (p : Prog) (hwf : WellFormed p = true) (p0 : Bool) (c : Cfg)
    (hr : Reach N (init p p0) c) (i : Nat) (hdone : (c.th i).k = []) (hstarted : (c.th i).ph ≠ .start) :
    c.sh.pending = false ∧ c.sh.complete = true ∧ c.sh.applied = (if p0 then 1 else 0) := by
  have hinv := reach_inv hwf hr
  have hsh := hinv.shape i
  rw [hdone] at hsh
  have hpost : (c.th i).ph = .post := by
    cases hph : (c.th i).ph <;> simp_all [shapeOK, Start, Entered, Locked0, Locked1, Stored, Post]
  have hnp := hinv.npend i (Or.inr (Or.inr hpost))
  refine ⟨hnp, by rw [hinv.compl, hnp]; rfl, ?_⟩
  rw [hinv.applied, hnp]; simp

/-- (4) No deadlock: as long as some thread has not finished, some thread can take a step. -/
theorem no_deadlock (N : Nat) (p : Prog) (hwf : WellFormed p = true) (p0 : Bool) (c : Cfg)
    (hr : Reach N (init p p0) c) (i : Nat) (hi : i < N) (hnd : (c.th i).k ≠ []) :
    ∃ j c', j < N ∧ stepThread j c = some c' := by
  have hinv := reach_inv hwf hr
  cases ho : c.sh.owner with
  | none =>
    obtain ⟨c', hc'⟩ := enabled_of_inv hinv i hnd (Or.inl ho)
    exact ⟨i, c', hi, hc'⟩
  | some j =>
    have hj := hinv.ownLt j ho
    have hh := (hinv.own j).mp ho
    have hsh := hinv.shape j
    have hndj : (c.th j).k ≠ [] := by
      intro hk; rw [hk] at hsh
      rcases hh with h | h | h <;> rw [h] at hsh <;> simp [shapeOK, Locked0, Locked1, Stored] at hsh
    obtain ⟨c', hc'⟩ := enabled_of_inv hinv j hndj (Or.inr ho)
    exact ⟨j, c', hj, hc'⟩

/-- (4') every step strictly decreases a natural-number measure, so every interleaving is finite:
    together with (4) every maximal run ends with all threads finished. -/
def tmeasure (t : Thread) : Nat := 2 * t.k.length + (if t.mid then 0 else 1)

theorem step_decreases (i : Nat) (c c' : Cfg) (hs : stepThread i c = some c') :
    tmeasure (c'.th i) < tmeasure (c.th i) ∧ ∀ j, j ≠ i → c'.th j = c.th j := by
  rcases hk : (c.th i).k with _ | ⟨ins, rest⟩
  · simp [stepThread, hk] at hs
  · cases ins <;> simp only [stepThread, hk, adv] at hs <;> (repeat' split at hs) <;>
      (first
        | (injection hs with hs; subst hs
           refine ⟨?_, fun j hj => by simp [upd, hj]⟩
           simp [tmeasure, upd, List.length_drop, *] <;> (try split) <;> omega)
        | (exact absurd hs (by simp)))

/-! ### Non-vacuity and sensitivity -/

/-- run a schedule (list of thread ids); blocked / finished threads are skipped -/
def runSched : List Nat → Cfg → Cfg
  | [], c => c
  | i :: t, c => match stepThread i c with
    | some c' => runSched t c'
    | none => runSched t c

theorem runSched_reach (N : Nat) (c0 : Cfg) (s : List Nat) (hs : ∀ i ∈ s, i < N) (c : Cfg)
    (hc : Reach N c0 c) : Reach N c0 (runSched s c) := by
  induction s generalizing c with
  | nil => exact hc
  | cons i t ih =>
    simp only [runSched]
    have hi : i < N := hs i (by simp)
    have ht : ∀ j ∈ t, j < N := fun j hj => hs j (by simp [hj])
    cases h : stepThread i c with
    | none => exact ih ht c hc
    | some c' => exact ih ht c' (Reach.step hc ⟨i, hi, h⟩)

/-- non-vacuity: with two threads and a stale index the strictly alternating interleaving (both
    threads see `stale` before either takes the mutex; one builds while the other waits and then
    re-applies with nothing pending; both read) is reachable, ends with both threads finished,
    exactly one effective application and only complete reads. -/
example :
    let c := runSched ((List.replicate 40 [0, 1]).flatten) (init (query 1) true)
    (c.th 0).k = [] ∧ (c.th 1).k = [] ∧ c.sh.applied = 1 ∧ c.sh.complete = true ∧
    (c.th 0).readsOK = true ∧ (c.th 1).readsOK = true := by decide

/-- the instruction list with the four verif schedule points (as regenerated once hooks_c14.diff is
    applied to /repo) is well formed too -/
example : WellFormed [.sched 0, .ifFreshSkip 7, .sched 1, .lock, .apply, .sched 2, .storeStatus .fresh,
    .sched 3, .unlock] = true := by decide
/-- … and so is the plain one of the unhooked tree -/
example : WellFormed [.ifFreshSkip 4, .lock, .apply, .storeStatus .fresh, .unlock] = true := by decide

/-- sensitivity: a program that publishes `fresh` BEFORE applying the updates is rejected … -/
def badStoreFirst : Prog := [.ifFreshSkip 4, .lock, .storeStatus .fresh, .apply, .unlock, .readCells]
example : WellFormed badStoreFirst = false := by decide
/-- … and indeed has a reachable data race with two threads (thread 0 writes, thread 1 saw `fresh`
    too early and reads). -/
theorem badStoreFirst_races : ∃ c, Reach 2 (init badStoreFirst true) c ∧ Race 2 c := by
  refine ⟨runSched [0, 0, 0, 0, 1, 1] (init badStoreFirst true), ?_, ?_⟩
  · exact runSched_reach 2 _ _ (by decide) _ Reach.refl
  · exact ⟨0, 1, by decide, by decide, by decide, by decide, by decide⟩

/-- sensitivity: a program without the mutex is rejected and races (two writers). -/
def badNoLock : Prog := [.ifFreshSkip 2, .apply, .storeStatus .fresh, .readCells]
example : WellFormed badNoLock = false := by decide
theorem badNoLock_races : ∃ c, Reach 2 (init badNoLock true) c ∧ Race 2 c := by
  refine ⟨runSched [0, 1, 0, 1] (init badNoLock true), ?_, ?_⟩
  · exact runSched_reach 2 _ _ (by decide) _ Reach.refl
  · exact ⟨0, 1, by decide, by decide, by decide, by decide, by decide⟩

/-- sensitivity: a thread that re-enters maybeApplyUpdates while holding the mutex (defect D4 of
    C13, `Iterator()` inside the update) is not well formed, and deadlocks: no thread can step
    although none has finished. -/
def badReenter : Prog := [.ifFreshSkip 6, .lock, .ifFreshSkip 1, .lock, .apply, .storeStatus .fresh, .unlock]
example : WellFormed badReenter = false := by decide
example :
    let c := runSched [0, 0, 0] (init badReenter true)
    stepThread 0 c = none ∧ (c.th 0).k ≠ [] := by decide

/-- the mutator entry points are NOT query programs: Add and Reset write index fields without the
    mutex (the library requires external synchronisation for them), IsFresh is a single atomic load -/
example : WellFormed S2.Generated.ProtocolIR.add = false ∧ WellFormed S2.Generated.ProtocolIR.reset = false := by decide
theorem isFresh_is_one_atomic_load : S2.Generated.ProtocolIR.isFresh = [.loadStatus] := by decide
/-- `Add` publishes `stale` only after its writes; `Reset` publishes `fresh` only after its writes -/
theorem mutators_store_status_last :
    S2.Generated.ProtocolIR.add.getLast? = some (.storeStatus .stale) ∧
    S2.Generated.ProtocolIR.reset.getLast? = some (.storeStatus .fresh) := by decide

end S2Proofs.C14
