/-
  Property C12 — the distance claims of `Cell` for a POINT target (package c12dist).

  Specification (`S2Proofs/C12Dist/Spec.lean`): the cell of a valid id is the set of unit vectors `q` whose face-frame
  image lies in the cone over the uv-rectangle (`InCellXYZ`; the same set as the judge's `Quad.has`).  A chord angle is a
  squared Euclidean distance `dist2 p q = |p − q|²`; the target is a finite float vector with `1/2 ≤ |p|² ≤ 1 + 2^-21`
  (`PtOK`; the code never normalises it — the statements hold for the POINT `p`, which is what the formulas compute).
  `u = 2^-53`.

  PROVED here, for EVERY valid cell id (all faces, all levels) and every `PtOK` point, about the CURRENT code (with the
  margin `edgeIsClosestMargin = 32·dblError` of repair D58 in `uEdgeIsClosest` / `vEdgeIsClosest`):

  (1) LOWER BOUND `distance_lower_bound` : `Distance(p) ≤ |p − q|² + 2^-45` for every point `q` of the cell — no point of the
      cell is closer than the reported minimum minus `253·u`.  All branches (edge, interior, vertex), float rounding AND
      wrong float branch decisions included (`vertex_cover_robust` with `ε = m + 17u ≤ 49u`; it was `17u`, `2^-46`,
      before the margin: a tangential "no" now tolerates exact values up to `m + 17u`).
  (2) UPPER BOUND `maxDistance_upper_bound` : `|p − q|² ≤ MaxDistance(p) + 2^-44 + 2·max(0,|p|²−1) + max(0,1−|p|²)`.
  (3) ATTAINED `distance_attained` : the reported value is within `2^-47 + (|p|−1)²` of the squared distance to a point of
      the cell's boundary (interior branch: of the cell, value literal 0) — in ALL branches, NO proviso
      (`distanceAttained_holds`).  Edge branches: a float "yes" of a tangential test with margin implies the exact
      quantity is beyond `m − 17u ≥ 14u > 0` (`edge_tests_exact`); interior branch: clamp argument
      (`inside_point_robust`); vertex branch: as before.
      REGRESSION WITNESS `distance_attained_false_before_repair`: for the code BEFORE repair D58 (faithful model
      `distanceOld`, `C12Dist/OldModel.lean`) the same claim is FALSE for every error up to 4e-8 (under-estimate by 6.8e-8
      for a level-30 cell and a target at the pole of an edge's great circle; reproduced against the unrepaired Go code).
  (4) EXACT ARITHMETIC `exact_case_analysis` : evaluated on real numbers the case split of `distanceInternal` returns exactly
      the minimum over the cell, and it is attained (`distExact_correct`).

  Link to C08 (`WorldOK.cellLB`, `S2Proofs/EdgeQuery/SearchDefs.lean`): `CellLB` asks that the value `x` returned by
  `updateDistanceToCell` is not `less` than the true distance of anything below the cell.  For a point target `x = Distance(p)`,
  and (1) gives exactly this with the slack `2^-45`: `cellLB_link` — `¬ (|p − q|² + 2^-45 < Distance(p))` for every point q of
  the cell.  With the EXACT comparison `less` the hypothesis is NOT provable for the real code: `Distance` does over-estimate by a
  few ulps (observed: +8.9e-16 at d² ≈ 2), so `cellLB` holds for the order `less x y := x + 2^-45 < y`, i.e. for true distances
  that are not within `2^-45` of the limit.
-/
import S2Proofs.C12Dist.Final
import S2Proofs.C12Dist.EdgeErr
import S2Proofs.C12Dist.ExactAlg
import S2Proofs.C12Dist.CoverRobust
import S2Proofs.C12Dist.Counter
import S2Proofs.C12Dist.Examples
import S2Proofs.C12Dist.Witness
namespace S2Proofs.C12
open S2 S2.CellID S2.CellM S2Proofs.FloatErr S2Proofs.F64Order S2Proofs.C16Acc S2Proofs.C12Dist

/-- the float `edgeDistance` meets its specification with `9·u` -/
theorem edgeSpec : EdgeSpec edgeErr := fun ij uv along w a b c d e f => edgeDistance_err ij uv along w a b c d e f

/-- the ε-robust covering theorem of the vertex branch, constant 2 -/
theorem robustCover : RobustCover 2 :=
  fun r hr hgu hgv t q hq ht ht' ε h0 hε oL oR oB oT a1 a0 b1 b0 c1 c0 d1 d0 hany =>
    vertex_cover_robust r hr hgu hgv t q hq ht ht' ε h0 hε oL oR oB oT a1 a0 b1 b0 c1 c0 d1 d0 hany

/-- the error of the lower bound: `max (9u + 30u) (57u + 196u) = 253·u ≤ 2^-45` (`196 = 2·2·49`, `49u ≥ margin + 17u`) -/
theorem lowErr_le : lowErr edgeErr 2 ≤ 1 / 2 ^ 45 := by
  have hu : uR = 1 / 2 ^ 53 := rfl
  unfold lowErr edgeErr vertErr
  rw [hu]
  apply max_le <;> norm_num

theorem maxErr_le : lowErr edgeErr 2 + 2 * vertErr + 6 * uR ≤ 1 / 2 ^ 44 := by
  have h := lowErr_le
  have hu : uR = 1 / 2 ^ 53 := rfl
  have : 2 * vertErr + 6 * uR ≤ 1 / 2 ^ 45 := by unfold vertErr; rw [hu]; norm_num
  have e : (1 : ℝ) / 2 ^ 45 + 1 / 2 ^ 45 = 1 / 2 ^ 44 := by norm_num
  linarith

theorem attErr_le : max (edgeErr + 27 * uR) vertErr ≤ 1 / 2 ^ 47 := by
  have hu : uR = 1 / 2 ^ 53 := rfl
  unfold edgeErr vertErr
  rw [hu]
  apply max_le <;> norm_num

/-! ## (1) LOWER BOUND -/

/-- **LOWER BOUND.**  For every valid cell id and every finite unit-ish point `p`: the reported `Distance(p)` is a finite
    float, and no point `q` of the cell is closer to `p` than `Distance(p) − 2^-45` (squared chord length). -/
theorem distance_lower_bound (id : CellID) (hv : isValid id = true) (p : V3) (hp : PtOK p) (q : R3)
    (hq : InCellXYZ (cellFromCellID id) q) :
    Fin (distance (cellFromCellID id) p) ∧
    val (distance (cellFromCellID id) p) ≤ dist2 (ofV p) q + 1 / 2 ^ 45 := by
  obtain ⟨hf, h⟩ := distance_lower edgeSpec robustCover id hv p hp q hq
  exact ⟨hf, le_trans h (by have := lowErr_le; linarith)⟩

/-- the full statement of the lower bound as a proposition … -/
def DistanceLowerBoundReal (err : ℝ) : Prop :=
  ∀ (id : CellID) (p : V3), isValid id = true → PtOK p → ∀ q : R3, InCellXYZ (cellFromCellID id) q →
    Fin (distance (cellFromCellID id) p) ∧ val (distance (cellFromCellID id) p) ≤ dist2 (ofV p) q + err

/-- … which HOLDS with `err = 2^-45` -/
theorem distanceLowerBound_holds : DistanceLowerBoundReal (1 / 2 ^ 45) :=
  fun id p hv hp q hq => distance_lower_bound id hv p hp q hq

/-- the clause of `DistanceLowerBound` in `Properties/C12.lean` ("the reported minimum is a number") for unit-ish points -/
theorem distance_not_nan (id : CellID) (hv : isValid id = true) (p : V3) (hp : PtOK p) :
    (distance (cellFromCellID id) p).isNaN = false := by
  obtain ⟨q, hq⟩ := cell_nonempty id hv
  exact isNaN_false (distance_lower_bound id hv p hp q hq.1).1

/-- **Link to C08 `WorldOK.cellLB`**: the value handed to the search as the cell's distance is never above the distance
    of a point of the cell by more than `2^-45` — `CellLB` holds for the order `less x y := x + 2^-45 < y`. -/
theorem cellLB_link (id : CellID) (hv : isValid id = true) (p : V3) (hp : PtOK p) (q : R3)
    (hq : InCellXYZ (cellFromCellID id) q) :
    ¬ (dist2 (ofV p) q + 1 / 2 ^ 45 < val (distance (cellFromCellID id) p)) :=
  not_lt.2 (distance_lower_bound id hv p hp q hq).2

-- non-vacuity: a valid level-30 id, an admissible point, and the cell is not empty
example : isValid (0x151f46a85da62db5 : CellID) = true ∧ PtOK pX100 ∧
    ∃ q, InCellXYZ (cellFromCellID 0x151f46a85da62db5) q :=
  ⟨by decide, ptOK_pX100, by obtain ⟨q, hq⟩ := cell_nonempty 0x151f46a85da62db5 (by decide); exact ⟨q, hq.1⟩⟩

/-! ## (2) UPPER BOUND of `MaxDistance` -/

/-- **UPPER BOUND.**  No point of the cell is farther from `p` than `MaxDistance(p) + 2^-44`, up to the deviation of
    `|p|²` from 1 (`MaxDistance` uses `4 − Distance(−p)`, exact only for unit `p`). -/
theorem maxDistance_upper_bound (id : CellID) (hv : isValid id = true) (p : V3) (hp : PtOK p) (q : R3)
    (hq : InCellXYZ (cellFromCellID id) q) :
    Fin (maxDistance (cellFromCellID id) p) ∧
    dist2 (ofV p) q ≤ val (maxDistance (cellFromCellID id) p) + 1 / 2 ^ 44
      + 2 * max 0 ((ofV p).norm2 - 1) + max 0 (1 - (ofV p).norm2) := by
  have hlow : lowErr edgeErr 2 ≤ 1 / 2 := by
    have := lowErr_le
    have : (1 : ℝ) / 2 ^ 45 ≤ 1 / 2 := by norm_num
    linarith
  obtain ⟨hf, h⟩ := maxDistance_upper edgeSpec robustCover hlow id hv p hp q hq
  exact ⟨hf, by have := maxErr_le; linarith⟩

def MaxDistanceUpperBoundReal (err : ℝ) : Prop :=
  ∀ (id : CellID) (p : V3), isValid id = true → PtOK p → ∀ q : R3, InCellXYZ (cellFromCellID id) q →
    Fin (maxDistance (cellFromCellID id) p) ∧
    dist2 (ofV p) q ≤ val (maxDistance (cellFromCellID id) p) + err
      + 2 * max 0 ((ofV p).norm2 - 1) + max 0 (1 - (ofV p).norm2)

theorem maxDistanceUpperBound_holds : MaxDistanceUpperBoundReal (1 / 2 ^ 44) :=
  fun id p hv hp q hq => maxDistance_upper_bound id hv p hp q hq

theorem maxDistance_not_nan (id : CellID) (hv : isValid id = true) (p : V3) (hp : PtOK p) :
    (maxDistance (cellFromCellID id) p).isNaN = false := by
  obtain ⟨q, hq⟩ := cell_nonempty id hv
  exact isNaN_false (maxDistance_upper_bound id hv p hp q hq.1).1

/-! ## (3) ATTAINED -/

theorem norm_uvw (f : Nat) (p : V3) : (ofV (faceXYZtoUVW f p)).norm = (ofV p).norm := by
  unfold R3.norm; rw [ofV_uvw, uvwR_norm2]

/-- **ATTAINED — all branches, no proviso (after repair D58).**  The reported value is within `2^-47 + (|p| − 1)²` of the
    squared distance to a point of the cell, which lies on the cell's boundary unless the value is the literal 0 of the
    interior case. -/
theorem distance_attained (id : CellID) (hv : isValid id = true) (p : V3) (hp : PtOK p) :
    ∃ q : R3, InCellXYZ (cellFromCellID id) q ∧
      (OnBoundaryXYZ (cellFromCellID id) q ∨ distance (cellFromCellID id) p = fzero) ∧
      |val (distance (cellFromCellID id) p) - min 4 (dist2 (ofV p) q)| ≤ 1 / 2 ^ 47 + ((ofV p).norm - 1) ^ 2 := by
  obtain ⟨hf, hl, hn⟩ := hp
  have X := mkCtx id hv p (fin3_of_finite3 hf) hn
  have hlow : 1 / 2 ≤ (ofV (faceXYZtoUVW (cellFromCellID id).face p)).norm2 := by
    rw [ofV_uvw, uvwR_norm2]; exact hl
  obtain ⟨q', h1, h2, h3⟩ := distUVW_attained edgeSpec X hlow
  obtain ⟨q, hq⟩ := uvwR_surj (cellFromCellID id).face q'
  rw [← distance_eq_distUVW] at h2 h3
  rw [norm_uvw, ofV_uvw, ← hq, uvwR_dist2] at h3
  refine ⟨q, by unfold InCellXYZ; rw [hq]; exact h1, ?_, by have := attErr_le; linarith⟩
  rcases h2 with h2 | h2
  · left; unfold OnBoundaryXYZ; rw [hq]; exact h2
  · right; exact h2

/-- what the former proviso `ExactOK` (package c12dist) consisted of, and what became of it: its four EDGE clauses
    (`EdgeTestsExact`: float edge condition true ⇒ the two exact tangential quantities have the right strict signs) are
    now a THEOREM for every valid cell and admissible point; its INTERIOR clause (`InsideExact`: float `inside` ⇒ exact
    inside) is not a theorem and is no longer needed (`distance_attained`). -/
theorem edge_tests_exact_holds (id : CellID) (hv : isValid id = true) (p : V3) (hp : PtOK p) :
    EdgeTestsExact (cellFromCellID id) (faceXYZtoUVW (cellFromCellID id).face p) := by
  obtain ⟨hf, hl, hn⟩ := hp
  exact edge_tests_exact (mkCtx id hv p (fin3_of_finite3 hf) hn)

/-- **ATTAINED in the vertex branch, unconditionally**: when `distanceInternal` falls through to the four vertices
    (`distanceBranch = 5`) the reported value is within `57·u` of the squared distance to a boundary point. -/
theorem distance_attained_vertex (id : CellID) (hv : isValid id = true) (p : V3) (hp : PtOK p)
    (hb : distanceBranch (cellFromCellID id) p = 5) :
    ∃ q : R3, OnBoundaryXYZ (cellFromCellID id) q ∧
      |val (distance (cellFromCellID id) p) - min 4 (dist2 (ofV p) q)| ≤ vertErr := by
  obtain ⟨hf, hl, hn⟩ := hp
  have X := mkCtx id hv p (fin3_of_finite3 hf) hn
  obtain ⟨q', h1, h2⟩ := vertex_branch_attained X
  obtain ⟨q, hq⟩ := uvwR_surj (cellFromCellID id).face q'
  have hd : distance (cellFromCellID id) p =
      minChord (vertexChordDist2 (cellFromCellID id) (faceXYZtoUVW (cellFromCellID id).face p) false false)
        [vertexChordDist2 (cellFromCellID id) (faceXYZtoUVW (cellFromCellID id).face p) true false,
         vertexChordDist2 (cellFromCellID id) (faceXYZtoUVW (cellFromCellID id).face p) false true,
         vertexChordDist2 (cellFromCellID id) (faceXYZtoUVW (cellFromCellID id).face p) true true] := by
    unfold distanceBranch at hb
    simp only at hb
    unfold distance distanceInternal
    simp only
    split at hb
    · exact absurd hb (by decide)
    rename_i c1
    split at hb
    · exact absurd hb (by decide)
    rename_i c2
    split at hb
    · exact absurd hb (by decide)
    rename_i c3
    split at hb
    · exact absurd hb (by decide)
    rename_i c4
    split at hb
    · exact absurd hb (by decide)
    rename_i c5
    rw [if_neg c1, if_neg c2, if_neg c3, if_neg c4, if_neg c5]
  rw [hd]
  rw [ofV_uvw, ← hq, uvwR_dist2] at h2
  exact ⟨q, by unfold OnBoundaryXYZ; rw [hq]; exact h1, h2⟩

-- non-vacuity: an EDGE-branch instance (branch 0 = left edge), an INTERIOR instance (branch 4) and a VERTEX-branch
-- instance (branch 5) of the hypotheses of `distance_attained` on the level-30 cell `0x151f46a85da62db5`
example : isValid (0x151f46a85da62db5 : CellID) = true ∧ PtOK pE ∧ distanceBranch cX pE = 0 ∧
    ExactOK cX (faceXYZtoUVW cX.face pE) := ⟨by decide, witness_edge⟩
example : PtOK pI ∧ distanceBranch cX pI = 4 ∧ ExactOK cX (faceXYZtoUVW cX.face pI) := witness_inside
example : PtOK pV ∧ distanceBranch cX pV = 5 := witness_vertex

/-- the FULL attained claim for an implementation `dist` of `Cell.Distance`, as a proposition … -/
def DistanceAttainedClaim (dist : Cell → V3 → F64) (err : ℝ) : Prop :=
  ∀ (id : CellID) (p : V3), isValid id = true → PtOK p →
    ∃ q : R3, InCellXYZ (cellFromCellID id) q ∧
      |val (dist (cellFromCellID id) p) - min 4 (dist2 (ofV p) q)| ≤ err + ((ofV p).norm - 1) ^ 2

/-- … which HOLDS for the current code with `err = 2^-47` … -/
theorem distanceAttained_holds : DistanceAttainedClaim distance (1 / 2 ^ 47) := by
  intro id p hv hp
  obtain ⟨q, h1, _, h3⟩ := distance_attained id hv p hp
  exact ⟨q, h1, h3⟩

theorem ptOK_pX : PtOK pX := by
  obtain ⟨X, hpos⟩ := counter_ctx
  have hb := X.bn
  rw [ofV_uvw, uvwR_norm2] at hb hpos
  have h1 : 1 ≤ (ofV pX).norm2 := by
    have := Counter.TX_norm2
    rw [← Counter.T_eq, uvwR_norm2] at this
    exact this
  exact ⟨by decide, by linarith, hb⟩

/-- `(|pX| − 1)² ≤ 2^-42` -/
theorem pX_norm_close : ((ofV pX).norm - 1) ^ 2 ≤ 1 / 2 ^ 42 := by
  obtain ⟨_, _, hb⟩ := ptOK_pX
  have h1 : 1 ≤ (ofV pX).norm2 := by
    have := Counter.TX_norm2
    rw [← Counter.T_eq, uvwR_norm2] at this
    exact this
  have hn := (ofV pX).norm_nonneg
  have hs := (ofV pX).norm_sq
  have lo : 1 ≤ (ofV pX).norm := by
    by_contra hc
    have hlt : (ofV pX).norm < 1 := not_le.1 hc
    have : (ofV pX).norm ^ 2 < 1 := by nlinarith
    linarith
  have hi : (ofV pX).norm ≤ 1 + 1 / 2 ^ 21 := by
    by_contra hc
    have hlt : 1 + 1 / 2 ^ 21 < (ofV pX).norm := not_le.1 hc
    have : (1 + 1 / 2 ^ 21 : ℝ) ^ 2 < (ofV pX).norm ^ 2 := by nlinarith
    have : (1 : ℝ) + 1 / 2 ^ 21 ≤ (1 + 1 / 2 ^ 21) ^ 2 := by norm_num
    linarith
  have e : (1 : ℝ) / 2 ^ 42 = (1 / 2 ^ 21) ^ 2 := by norm_num
  rw [e]
  exact pow_le_pow_left₀ (by linarith) (by linarith) 2

/-- … and was FALSE for the code BEFORE repair D58 (`distanceOld`: tangential tests without margin), for every error up
    to `4e-8` (documented error: ≈ 1e-15): **defect D58, regression witness**.
    Cell `0x151f46a85da62db5` (level 30), `p = (3fe2a80a50dbc9f0, bfe9ffb2713669e0, be44895f347fad93)`:
    old `Distance = 1.999999965824041`, every point of the cell is at squared distance ≥ 2.00000003. -/
theorem distance_attained_false_before_repair : ¬ DistanceAttainedClaim distanceOld (4 / 10 ^ 8) := by
  intro h
  obtain ⟨q, hq, hab⟩ := h 0x151f46a85da62db5 pX (by decide) ptOK_pX
  have h1 := counter_truth q hq
  have h2 := counter_gap
  have h3 := pX_norm_close
  have hm : (2 : ℝ) + 3 / 10 ^ 8 ≤ min 4 (dist2 (ofV pX) q) := le_min (by norm_num) h1
  have := (abs_le.1 hab).1
  have e : distanceOld (cellFromCellID 0x151f46a85da62db5) pX = distanceOld cX pX := rfl
  rw [e] at this
  have e42 : (1 : ℝ) / 2 ^ 42 ≤ 1 / 10 ^ 8 := by norm_num
  linarith

/-- the old model's value on the counterexample is the value the unrepaired Go code returns (`cellpt` replay: `3ffffffff6d3722c`) -/
theorem distance_counter_value_before_repair :
    distanceOld (cellFromCellID 0x151f46a85da62db5) pX = ⟨0x3ffffffff6d3722c⟩ := counter_value

/-- the current model's value on the same input is the value the repaired Go code returns (`40000000049646e9` =
    2.0000000341759585, vertex branch; the exact distance is 2.000000034175959) -/
theorem distance_counter_value_after_repair :
    distance (cellFromCellID 0x151f46a85da62db5) pX = ⟨0x40000000049646e9⟩ ∧
    distanceBranch (cellFromCellID 0x151f46a85da62db5) pX = 5 := counter_value_repaired

/-- before the repair the counterexample violated exactly the edge clauses of the proviso -/
theorem distance_counter_not_exactOK_before_repair :
    ¬ EdgeTestsExactOld (cellFromCellID 0x151f46a85da62db5) (faceXYZtoUVW (cellFromCellID 0x151f46a85da62db5).face pX) :=
  counter_not_exactOK

/-! ## (4) the case analysis in exact arithmetic -/

/-- **Exact arithmetic.**  Evaluated on real numbers, the case split of `distanceInternal` (edge tests in the code's
    order, interior test, vertices) returns for a unit target exactly the minimum of `|T − q|²` over the cell:
    it is a lower bound for every point of the cell and it is attained. -/
theorem exact_case_analysis (r : RRect) (hr : r.OK) (T : R3) (hT : T.norm2 = 1) :
    (∀ q, InCell r q → distExact r T ≤ dist2 T q) ∧ (∃ q, InCell r q ∧ dist2 T q = distExact r T) :=
  distExact_correct r hr T hT

-- non-vacuity of `exact_case_analysis`: the face square and the unit target (0,0,1)
example : (⟨-1, 1, -1, 1⟩ : RRect).OK ∧ (⟨0, 0, 1⟩ : R3).norm2 = 1 :=
  ⟨⟨by norm_num, by norm_num, by norm_num, by norm_num, by norm_num, by norm_num⟩, by unfold R3.norm2; norm_num⟩

end S2Proofs.C12
