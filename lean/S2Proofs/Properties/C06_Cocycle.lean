/-
  Property C06, `ContainsPointQuery` over shape collections for the EXACT geometry with the parity cocycle
  discharged (`S2Proofs.C04.parityCocycle_exact_any`): the hypotheses that remain are the index
  invariants (ids duplicate-free and in range, I2, I3) and the decidable input class `CocycleDomAny`.

  The 2-dimensional shapes are those whose edge list is a concatenation of closed vertex chains (loops, polygons,
  lax polygons).  Their reference point may be one of their vertices (`referencePointAtVertex` returns a vertex),
  the query point may be a vertex, a vertex may lie at the cell centre.
-/
import S2Proofs.Properties.C06_Index
import S2Proofs.Properties.C04_Cocycle
namespace S2Proofs.C06
open S2 S2.Contain S2Proofs.Contain S2Proofs.C04 S2Proofs.F64Order S2Proofs.ExactLaws

/-- `ShapeCellHyp` without the geometric hypothesis: for a 2-dimensional shape the edges are closed chains, the
    points are in the class `CocycleDomAny`, and the index invariants `CellInv` hold. -/
structure ShapeCellInv (S : ShapeM V3) (center : V3) (c : ClippedM V3) (p : V3) : Prop where
  dim_eq : c.dim = S.dim
  lowDim : S.dim ≠ 2 → c.containsCenter = false
  cell : S.dim = 2 → ∃ (ids : List Nat) (chains : List (List V3)),
    c.edges = listed S.edges.toList ids ∧ S.edges.toList = chains.flatMap loopEdges ∧
    CocycleDomAny S.refPoint center p chains ∧
    CellInv exactGeo S.refPoint S.refContained S.edges.toList center c.containsCenter ids p

/-- the cocycle field of `ShapeCellHyp` is a theorem for the exact geometry -/
theorem shapeCellHyp_exact {S : ShapeM V3} {center : V3} {c : ClippedM V3} {p : V3}
    (h : ShapeCellInv S center c p) : ShapeCellHyp exactGeo S center c p where
  dim_eq := h.dim_eq
  lowDim := h.lowDim
  cell hd := by
    obtain ⟨ids, chains, he, hch, hdom, hi⟩ := h.cell hd
    refine ⟨ids, he, hi.nodup, hi.inRange, hi.i2, hi.i3, ?_⟩
    rw [hch]
    exact parityCocycle_exact_any hdom

/-- one clipped shape, semi-open model, exact geometry: the index answer is `containsBruteForce` -/
theorem shapeContains_clipped_exact (S : ShapeM V3) (center : V3) (c : ClippedM V3) (p : V3)
    (h : ShapeCellInv S center c p) :
    shapeContainsM exactGeo .semiOpen c.dim center c.containsCenter c.edges p =
      containsBruteForce exactGeo S p :=
  shapeContains_clipped S center c p (shapeCellHyp_exact h)

/-- **`ContainingShapes` = brute force** (semi-open), exact geometry, no geometric hypothesis. -/
theorem containsPointQuery_containingShapes_exact (S : Nat → ShapeM V3) (center : V3)
    (cs : List (ClippedM V3)) (p : V3)
    (h : ∀ c ∈ cs, ShapeCellInv (S c.shapeID) center c p) :
    queryContainingShapes exactGeo .semiOpen (some (center, cs)) p =
      (cs.filter fun c => containsBruteForce exactGeo (S c.shapeID) p).map (·.shapeID) :=
  containsPointQuery_containingShapes S center cs p (fun c hc => shapeCellHyp_exact (h c hc))

/-- **`Contains` = brute force** (semi-open), exact geometry, no geometric hypothesis. -/
theorem containsPointQuery_contains_exact (S : Nat → ShapeM V3) (center : V3)
    (cs : List (ClippedM V3)) (p : V3)
    (h : ∀ c ∈ cs, ShapeCellInv (S c.shapeID) center c p) :
    queryContains exactGeo .semiOpen (some (center, cs)) p =
      cs.any fun c => containsBruteForce exactGeo (S c.shapeID) p :=
  containsPointQuery_contains S center cs p (fun c hc => shapeCellHyp_exact (h c hc))

/-! ### the open and closed vertex models -/

private theorem edgesIn_listed {es : List (V3 × V3)} (hes : EdgesIn Fin3 es) (ids : List Nat) :
    EdgesIn Fin3 (listed es ids) := by
  intro e he
  unfold listed at he
  obtain ⟨i, _, hi⟩ := List.mem_filterMap.1 he
  exact hes e (List.mem_of_getElem? hi)

private theorem edgesIn_chains {ref center p : V3} {chains : List (List V3)} (hd : CocycleDomAny ref center p chains) :
    EdgesIn Fin3 (chains.flatMap loopEdges) := by
  intro e he
  obtain ⟨vs, hvs, h1, h2⟩ := mem_flatMap_loopEdges he
  exact ⟨hd.2.2.2.2.2.2.2.2.2 vs hvs _ h1, hd.2.2.2.2.2.2.2.2.2 vs hvs _ h2⟩

/-- **Open model through the index, exact geometry**: the brute-force answer, except that an endpoint (Go `==`)
    of a listed edge is never contained. -/
theorem shapeContains_open_eq_bruteForce_exact (S : ShapeM V3) (hdim : S.dim = 2)
    {chains : List (List V3)} (hch : S.edges.toList = chains.flatMap loopEdges)
    {center p : V3} {cc : Bool} {ids : List Nat}
    (hd : CocycleDomAny S.refPoint center p chains)
    (hi : CellInv exactGeo S.refPoint S.refContained S.edges.toList center cc ids p)
    (hne : listed S.edges.toList ids ≠ []) :
    shapeContainsM exactGeo .open_ S.dim center cc (listed S.edges.toList ids) p =
      (containsBruteForce exactGeo S p && !isEndpoint exactGeo (listed S.edges.toList ids) p) := by
  have hes : EdgesIn Fin3 (listed S.edges.toList ids) := edgesIn_listed (hch ▸ edgesIn_chains hd) ids
  rw [← shapeContains_eq_containsBruteForce_exact_any S hdim hch hd hi, hdim]
  exact shapeContainsM_open_exact center cc hd.2.2.1 hes hne

/-- **Closed model through the index, exact geometry**: the brute-force answer, except that an endpoint of a
    listed edge is always contained. -/
theorem shapeContains_closed_eq_bruteForce_exact (S : ShapeM V3) (hdim : S.dim = 2)
    {chains : List (List V3)} (hch : S.edges.toList = chains.flatMap loopEdges)
    {center p : V3} {cc : Bool} {ids : List Nat}
    (hd : CocycleDomAny S.refPoint center p chains)
    (hi : CellInv exactGeo S.refPoint S.refContained S.edges.toList center cc ids p)
    (hne : listed S.edges.toList ids ≠ []) :
    shapeContainsM exactGeo .closed S.dim center cc (listed S.edges.toList ids) p =
      (containsBruteForce exactGeo S p || isEndpoint exactGeo (listed S.edges.toList ids) p) := by
  have hes : EdgesIn Fin3 (listed S.edges.toList ids) := edgesIn_listed (hch ▸ edgesIn_chains hd) ids
  rw [← shapeContains_eq_containsBruteForce_exact_any S hdim hch hd hi, hdim]
  exact shapeContainsM_closed_exact center cc hd.2.2.1 hes hne

/-! ### non-vacuity -/

/-- the octant triangle as a Shape whose reference point is its own vertex `eX` (as `referencePointAtVertex`
    produces it), one cell centred at (1,1,1) listing all three edges, query point the vertex `eY` -/
def triShape : ShapeM V3 := ⟨2, (loopEdges [eX, eY, eZ]).toArray, eX, false⟩

/-- its clipped shape in that cell: `containsCenter` as the index computes it (I3) -/
def triClipped : ClippedM V3 :=
  ⟨0, 2, crossParity exactGeo eX eD (loopEdges [eX, eY, eZ]), listed triShape.edges.toList [0, 1, 2]⟩

private theorem triShape_chains : triShape.edges.toList = [[eX, eY, eZ]].flatMap loopEdges := by simp [triShape]

private theorem triShape_dom : CocycleDomAny triShape.refPoint eD eY [[eX, eY, eZ]] := by decide +kernel

private theorem triShape_cellInv : CellInv exactGeo triShape.refPoint triShape.refContained triShape.edges.toList eD
    triClipped.containsCenter [0, 1, 2] eY where
  nodup := by decide
  inRange := by decide
  i2 := by
    intro i h hi
    have : i = 0 ∨ i = 1 ∨ i = 2 := by simp [triShape, loopEdges] at h; omega
    rcases this with rfl | rfl | rfl <;> simp at hi
  i3 := by decide +kernel

example : ShapeCellInv triShape eD triClipped eY where
  dim_eq := rfl
  lowDim := by decide
  cell := fun _ => ⟨[0, 1, 2], [[eX, eY, eZ]], rfl, triShape_chains, triShape_dom, triShape_cellInv⟩

/-- the three vertex models at the vertex `eY`: semi-open = brute force, open = false, closed = true -/
example :
    shapeContainsM exactGeo .semiOpen triShape.dim eD triClipped.containsCenter
      (listed triShape.edges.toList [0, 1, 2]) eY = containsBruteForce exactGeo triShape eY ∧
    shapeContainsM exactGeo .open_ triShape.dim eD triClipped.containsCenter
      (listed triShape.edges.toList [0, 1, 2]) eY = false ∧
    shapeContainsM exactGeo .closed triShape.dim eD triClipped.containsCenter
      (listed triShape.edges.toList [0, 1, 2]) eY = true := by
  have hl : (listed triShape.edges.toList [0, 1, 2]).length = 3 := by decide +kernel
  have hne : listed triShape.edges.toList [0, 1, 2] ≠ [] := by
    intro h; rw [h] at hl; cases hl
  have he : isEndpoint exactGeo (listed triShape.edges.toList [0, 1, 2]) eY = true := by decide +kernel
  refine ⟨shapeContains_eq_containsBruteForce_exact_any triShape rfl triShape_chains triShape_dom triShape_cellInv, ?_, ?_⟩
  · rw [shapeContains_open_eq_bruteForce_exact triShape rfl triShape_chains triShape_dom triShape_cellInv hne, he]
    simp
  · rw [shapeContains_closed_eq_bruteForce_exact triShape rfl triShape_chains triShape_dom triShape_cellInv hne, he]
    simp

end S2Proofs.C06
