/-
  C08 — the point-target theorems of `C08_World.lean` with fewer hypotheses (package c08world2).

  `C08_World.lean` carries three things that were not proved: `RegionsNested` (inside `ClosestCovered`), `SubLaws` for
  MaxError ≠ 0, and the completeness of the initial cells for a finite limit (inside `ClosestCovered`).  Here:

  (1) `regionsNested_holds : RegionsNested` — PROVED (`EdgeQuery/RegionsNested.lean`): the float `stToUV` is strictly
      increasing on the grid `k/2^30` (`stToUV_grid_strictMono`), the float uv-rectangle of a cell lies in the float
      uv-rectangle of every cell containing it, on the same face (`cell_rect_in_ancestor`), hence the exact regions are nested.
  (2) MaxError ≠ 0.  `SubLaws chordI err` (for ALL receivers) is FALSE for `ChordAngle.Sub` (`subLaws_false_tiny`,
      `subLaws_false_one`: underflow / receiver above 4 — a finding, `EdgeQuery/ChordSub.lean`).  The search only needs the
      law on the values `UpdateMinDistance` returns (finite, in [0,4]) and on zero (`Slack.SubLawsOn`, `Slack.slack_single_on`):
      `ChordSubLe err`.  It is PROVED for `err = 0`, `+Inf` and every finite `err ≥ 2^-400` (`chordSubLe_holds`, float analysis
      of the main branch of `Sub` in `EdgeQuery/ChordSubCore.lean`) — in particular `StraightChordAngle`, so the
      `IsDistanceLess` family IS instantiated (`point_isDistanceLess`) — hence `point_single_subDom`, `point_within_maxError_subDom`
      have NO hypothesis on `Sub` left; for `0 < err < 2^-400` the law is FALSE in general (underflow).
  (3) `ClosestCovered` split into `I1Arc` (C06) + `RootsCover` (completeness of the initial cells) + nesting (proved):
      `closestCovered_of_arc_roots`, `indexOK_of_parts`.  `RootsCover` = `RootsCoverInf` (PROVED from `initCovering_spec`
      when the initial cells of the unbounded search are the index covering: `rootsCoverInf_of_initCovering`) +
      `RootsCoverFin` (finite limit: the precise statement about the search-disc covering that remains a hypothesis).
  (4) `I1Arc` from the index BUILD (`build_I1_float`, C06): `EdgeQuery/PointBuilt.lean`, `i1Arc_of_build`.
-/
import S2Proofs.Properties.C08_World
import S2Proofs.EdgeQuery.RegionsNested
import S2Proofs.EdgeQuery.ChordSub
import S2Proofs.EdgeQuery.ChordSubCore
import S2Proofs.EdgeQuery.PointBuilt

set_option linter.unusedSimpArgs false
set_option linter.unusedVariables false

namespace S2Proofs.C08
open S2 S2.CellID S2.EdgeQueryM S2Proofs.F64Order S2Proofs.FloatErr S2Proofs.EdgeQuery S2Proofs.C08World

variable {P : PointIndex}

/-! ## (1) nesting of the exact cell regions -/

/-- **the float `stToUV` is strictly increasing on the grid `k/2^30`** (`0 ≤ k ≤ 2^30`; real values of the soft-float results) -/
theorem stToUV_grid_strictMono (k1 k2 : Nat) (h12 : k1 < k2) (hk : k2 ≤ 2 ^ 30) :
    val (STUV.stToUV (STUV.ijToSTMin ((k1 : Nat) : Int))) < val (STUV.stToUV (STUV.ijToSTMin ((k2 : Nat) : Int))) :=
  stToUV_grid_strict k1 k2 h12 hk

/-- **the float uv-rectangle of a cell lies in the float uv-rectangle of every cell that contains it; same face**
    (in particular: child rectangles are nested in the parent's) -/
theorem cell_rect_in_ancestor {y x : CellID} (hy : isValid y = true) (hx : isValid x = true)
    (hc : contains y x = true) :
    (CellM.cellFromCellID y).face = (CellM.cellFromCellID x).face ∧
    (S2Proofs.C12Dist.rectOf (CellM.cellFromCellID y)).u0 ≤ (S2Proofs.C12Dist.rectOf (CellM.cellFromCellID x)).u0 ∧
    (S2Proofs.C12Dist.rectOf (CellM.cellFromCellID x)).u1 ≤ (S2Proofs.C12Dist.rectOf (CellM.cellFromCellID y)).u1 ∧
    (S2Proofs.C12Dist.rectOf (CellM.cellFromCellID y)).v0 ≤ (S2Proofs.C12Dist.rectOf (CellM.cellFromCellID x)).v0 ∧
    (S2Proofs.C12Dist.rectOf (CellM.cellFromCellID x)).v1 ≤ (S2Proofs.C12Dist.rectOf (CellM.cellFromCellID y)).v1 :=
  rect_nested hy hx hc

/-- **`RegionsNested` (the hypothesis of `closestCovered_of_I1`) is a theorem** -/
theorem regionsNested_holds : RegionsNested :=
  fun y x hy hx hc q hq => regions_nested y x hy hx hc q hq

/-- `ClosestCovered` from I1 alone -/
theorem closestCovered_of_I1' (HE : EdgesOK P) (hcells : IndexCellsOK (Roots.ids P.ix)) (h1 : I1Covers P) :
    ClosestCovered P :=
  closestCovered_of_I1 HE hcells h1 regionsNested_holds

/-! ## (3) `ClosestCovered` = I1 for the arcs + completeness of the initial cells -/

/-- **`ClosestCovered` from `I1Arc` (C06) and `RootsCover`** (nesting of the regions is proved) -/
theorem closestCovered_of_arc_roots (HE : EdgesOK P) (hcells : IndexCellsOK (Roots.ids P.ix))
    (h1 : I1Arc P) (hr : RootsCover P) : ClosestCovered P := by
  intro lim e he hn
  obtain ⟨Q, hQ, hρ⟩ := S2Proofs.C17Err.trueDist2_attained (x := P.p) (a := (P.vert e).1) (b := (P.vert e).2)
    HE.target.len_pos (HE.v0 e he).len_pos (HE.v1 e he).len_pos
  obtain ⟨x, es, hl, hes, hin⟩ := h1 e he Q hQ
  have hQ1 : Q.n2 = 1 := by obtain ⟨_, _, _, _, _, h⟩ := hQ; exact h
  have hxm := Roots.lookup_mem_ids P.ix hl
  have hnear : PtNear P Q lim := by
    rcases hn with hi | hlt
    · exact Or.inl hi
    · right; rw [hρ]; exact hlt
  refine ⟨Q, hQ, hρ, x, es, hl, hes, hr lim x hxm Q hQ1 hin hnear, ?_⟩
  intro y hy hyx
  exact regions_nested y x hy (hcells.valid x hxm) hyx _ hin

/-- completeness of the initial cells of the UNBOUNDED search -/
def RootsCoverInf (P : PointIndex) : Prop :=
  ∀ x ∈ Roots.ids P.ix, ∃ c ∈ P.rootIds cinf, contains c x = true

/-- **completeness of the initial cells for a FINITE limit — the hypothesis that remains of goal (3).**
    `P.rootIds lim` are the cells `initQueue` hands to `processOrEnqueue` in its `else` branch:
    `CellUnionFromIntersection(indexCovering, coverer.FastCovering(Cap(target.capBound().center, radius + limit)))`, cleaned
    up by the `LocateCellID` loop.  Statement: an index cell whose exact region holds a unit vector `Q` with
    `chord²(target, Q) + slack < limit` lies below one of these cells.  It follows from
      (a) the search cap contains every such `Q` (`Cap` arithmetic incl. `ChordAngle.Angle()` = libm `asin`, not modelled),
      (b) `FastCovering(cap)` covers the cap (C05: `fastCovering_covers` + `Cap.CellUnionBound`, c05cap / c12cap),
      (c) `CellUnionFromIntersection` keeps the common leaves (`C11.intersection_leaves`) and the clean-up loop replaces a
          cell by an index cell containing it (`Indexed`), keeps it (`Subdivided`) or drops it (`Disjoint`: no index cell
          meets it) — `C06.locateCellID_indexed/_subdivided/_disjoint`; not assembled. -/
def RootsCoverFin (P : PointIndex) : Prop :=
  ∀ lim : Chord, Fin lim.1 → ∀ x ∈ Roots.ids P.ix, ∀ Q : S2Proofs.C17Err.R3, Q.n2 = 1 →
    S2Proofs.C12Dist.InCellXYZ (CellM.cellFromCellID x) (toAcc Q) →
    S2Proofs.C17Err.dirChordP P.p Q + slack < val lim.1 →
    ∃ c ∈ P.rootIds lim, contains c x = true

theorem rootsCover_of_inf_fin (hi : RootsCoverInf P) (hf : RootsCoverFin P) : RootsCover P := by
  intro lim x hx Q hQ1 hin hn
  rcases chord_fin_or_inf lim with hl | hl
  · rcases hn with h | h
    · exact absurd h (fin_ne_inf hl)
    · exact hf lim hl x hx Q hQ1 hin h
  · have : lim = cinf := Subtype.ext hl
    subst this
    exact hi x hx

/-- **`RootsCoverInf` is a theorem when the initial cells of the unbounded search are the index covering**
    (`initQueue`, branch `distanceLimit == infinity`; from the proved `initCovering_spec`) -/
theorem rootsCoverInf_of_initCovering (hok : IndexCellsOK (Roots.ids P.ix)) {cov : List (CellID × Bool)}
    (hcov : initCovering (Roots.ids P.ix) = some cov) (hroots : P.rootIds cinf = cov.map (·.1)) :
    RootsCoverInf P := by
  intro x hxm
  obtain ⟨cov', h0, _, _, _, _, hvalid, _, hcover, _⟩ := initCovering_spec (Roots.ids P.ix) hok
  rw [hcov] at h0
  cases h0
  obtain ⟨p, hp, hin⟩ := hcover x hxm
  obtain ⟨j, hj⟩ := (isValid_iff x).mp (hok.valid x hxm)
  refine ⟨p.1, by rw [hroots]; exact List.mem_map.2 ⟨p, hp, rfl⟩, ?_⟩
  rw [contains_iff]
  have h1 := hj.rangeMin_le
  have h2 := UInt64.le_iff_toNat_le.mp hin.1
  have h3 := UInt64.le_iff_toNat_le.mp hin.2
  omega

/-- **`IndexOK` from its parts**: structural facts + `I1Arc` + `RootsCover` (no `RegionsNested`, no `ClosestCovered`) -/
theorem indexOK_of_parts (HE : EdgesOK P) (hcells : IndexCellsOK (Roots.ids P.ix))
    (hroots : ∀ lim, ∀ c ∈ P.rootIds lim, isValid c = true) (hdepth : 30 ≤ P.depth)
    (hes : ∀ x es, P.ix.lookup x = some es → ∀ e ∈ es, e ∈ P.allEdges)
    (hloc : ∀ es, P.located = some es → ∀ e ∈ es, e ∈ P.allEdges)
    (h1 : I1Arc P) (hr : RootsCover P) : IndexOK P where
  cellsOK := hcells
  rootsValid := hroots
  depth := hdepth
  edgesSound := hes
  locatedSound := hloc
  covered := closestCovered_of_arc_roots HE hcells h1 hr

/-- the same for the UNBOUNDED search started from the index covering: `RootsCoverFin` is only needed for finite limits -/
theorem indexOK_of_parts_covering (HE : EdgesOK P) (hcells : IndexCellsOK (Roots.ids P.ix))
    (hroots : ∀ lim, ∀ c ∈ P.rootIds lim, isValid c = true) (hdepth : 30 ≤ P.depth)
    (hes : ∀ x es, P.ix.lookup x = some es → ∀ e ∈ es, e ∈ P.allEdges)
    (hloc : ∀ es, P.located = some es → ∀ e ∈ es, e ∈ P.allEdges)
    (h1 : I1Arc P) {cov : List (CellID × Bool)}
    (hcov : initCovering (Roots.ids P.ix) = some cov) (hrootsInf : P.rootIds cinf = cov.map (·.1))
    (hfin : RootsCoverFin P) : IndexOK P :=
  indexOK_of_parts HE hcells hroots hdepth hes hloc h1
    (rootsCover_of_inf_fin (rootsCoverInf_of_initCovering hcells hcov hrootsInf) hfin)

/-! ## (2) MaxError ≠ 0 -/

/-- **END-TO-END, MaxResults = 1, ANY permitted error with `ChordSubLe`** (proved for `0`, `+Inf`, every value `≥ 4`;
    see `EdgeQuery/ChordSub.lean` for why the unrestricted `SubLaws` is false).  Same conclusion as `point_single`. -/
theorem point_single_maxError (HE : EdgesOK P) (HI : IndexOK P) {o : Opts Chord} (S : ChordSubLe o.maxError)
    (h1 : o.maxResults = 1) (hU : o.targetUsesMaxError = false) {rs : List (Result Chord)}
    (h : findEdges chordI o (world P) = some rs) :
    rs.length ≤ 1 ∧
    (∀ r ∈ rs,
      (o.includeInteriors = true ∧ r.dist = czero ∧ r.edge = -1 ∧ r.shape ∈ P.interiors) ∨
      (∃ e ∈ P.allEdges, r.shape = e.shape ∧ r.edge = e.edge ∧ Fin r.dist.1 ∧
        |val r.dist.1 - rho P e| ≤ edgeErr ∧ chordI.less r.dist o.distanceLimit = true)) ∧
    (∀ r ∈ rs, ∀ e ∈ P.allEdges,
      (csub r.dist o.maxError).1 ≠ posInf ∧ val (csub r.dist o.maxError).1 ≤ rho P e + slack) ∧
    (rs = [] → ∀ e ∈ P.allEdges, o.distanceLimit.1 ≠ posInf ∧ val o.distanceLimit.1 ≤ rho P e + slack) := by
  obtain ⟨a, b, c, d, _⟩ := Slack.slack_single_on chord_order (point_subLawsOn HE S) (point_world_slack HE HI) h1 hU
    (chord_not_lt_zero _) h
  refine ⟨a, ?_, ?_, ?_⟩
  · intro r hr
    rcases b r hr with hi | ⟨e, he, hs, hed, ⟨lim, hup, _⟩, hlt⟩
    · exact Or.inl hi
    · obtain ⟨f, _, herr⟩ := edge_some HE he hup
      exact Or.inr ⟨e, he, hs, hed, f, herr, hlt⟩
  · intro r hr e he
    exact (not_near_iff e _).mp (c r hr e he)
  · intro hnil e he
    exact (not_near_iff e _).mp (d hnil e he)

/-- **"with a non-zero permitted error each reported distance is within that error (+ slack) of the true optimum"**, in the
    sense the code gives it: `reported ⊖ MaxError` (chord-angle subtraction `ChordAngle.Sub`, i.e. subtraction of the ANGLES)
    is at most `slack = 2^-44` above the true squared chord distance of EVERY edge; and the reported distance is the computed
    distance (within `edgeErr = 2^-46`) of an edge of the index (or zero for an interior hit). -/
theorem point_within_maxError (HE : EdgesOK P) (HI : IndexOK P) {o : Opts Chord} (S : ChordSubLe o.maxError)
    (h1 : o.maxResults = 1) (hU : o.targetUsesMaxError = false) {rs : List (Result Chord)}
    (h : findEdges chordI o (world P) = some rs) :
    ∀ r ∈ rs, (∀ e ∈ P.allEdges, val (csub r.dist o.maxError).1 ≤ rho P e + slack) ∧
      (r.edge ≠ -1 → ∃ e0 ∈ P.allEdges, r.shape = e0.shape ∧ r.edge = e0.edge ∧ |val r.dist.1 - rho P e0| ≤ edgeErr) := by
  obtain ⟨_, b, c, _⟩ := point_single_maxError HE HI S h1 hU h
  intro r hr
  refine ⟨fun e he => (c r hr e he).2, ?_⟩
  intro hne
  rcases b r hr with ⟨_, _, hedge, _⟩ | ⟨e, he, hs, hed, _, herr, _⟩
  · exact absurd hedge hne
  · exact ⟨e, he, hs, hed, herr⟩

/-- **`IsDistanceLess(target, limit)`** (`MaxResults(1)`, `DistanceLimit(limit)`, `MaxError(StraightChordAngle)`; also
    `IsDistanceGreater`, which delegates to it), instantiated for the float code.  Shape ids of the index are `≥ 0`.
    `true`  ⇒ the target is inside an indexed polygon, or some edge has a COMPUTED distance below the limit
              (hence a true distance below `limit + 2^-46`);
    `false` ⇒ the limit is finite and NO edge is truly closer than `limit − 2^-44`. -/
theorem point_isDistanceLess (HE : EdgesOK P) (HI : IndexOK P) {o : Opts Chord}
    (hU : o.targetUsesMaxError = false) (hsh : ∀ e ∈ P.allEdges, 0 ≤ e.shape) (hin : ∀ sh ∈ P.interiors, 0 ≤ sh)
    {t : Chord} {b : Bool} (hb : isDistanceLess chordI cstraight o (world P) t = some b) :
    (b = true →
      (o.includeInteriors = true ∧ P.interiors ≠ []) ∨
      ∃ e ∈ P.allEdges, ∃ x : Chord, Fin x.1 ∧ |val x.1 - rho P e| ≤ edgeErr ∧ chordI.less x t = true) ∧
    (b = false → ∀ e ∈ P.allEdges, t.1 ≠ posInf ∧ val t.1 ≤ rho P e + slack) := by
  rw [isDistanceLess_eq] at hb
  cases hrs : findEdges chordI { o with maxResults := 1, distanceLimit := t, maxError := cstraight } (world P) with
  | none => rw [hrs] at hb; cases hb
  | some rs =>
    rw [hrs] at hb
    simp only [Option.map_some, Option.some.injEq] at hb
    obtain ⟨k1, k2, _, k4⟩ := point_single_maxError HE HI
      (o := { o with maxResults := 1, distanceLimit := t, maxError := cstraight }) chordSubLe_straight rfl hU hrs
    cases rs with
    | nil =>
      have hbf : b = false := hb.symm
      subst hbf
      exact ⟨fun h => (by cases h), fun _ => k4 rfl⟩
    | cons r tl =>
      simp only at hb
      rcases k2 r (by simp) with ⟨hi, _, _, hs⟩ | ⟨e, he, hs, _, hf, herr, hlt⟩
      · have : b = true := by
          rw [← hb]; exact decide_eq_true (hin _ hs)
        subst this
        refine ⟨fun _ => Or.inl ⟨hi, List.ne_nil_of_mem hs⟩, fun h => by cases h⟩
      · have : b = true := by
          rw [← hb]; apply decide_eq_true; rw [hs]; exact hsh e he
        subst this
        exact ⟨fun _ => Or.inr ⟨e, he, r.dist, hf, herr, hlt⟩, fun h => by cases h⟩

/-- **`ChordSubLe` is a theorem for MaxError = 0, +Inf, or any finite value `≥ 2^-400`** (chord² `2^-400` ↔ `2^-200` rad) -/
theorem chordSubLe_holds {err : Chord} (h : SubDom err) : ChordSubLe err := chordSubLe_of_subDom h

/-- `point_single_maxError` with the law on `Sub` discharged -/
theorem point_single_subDom (HE : EdgesOK P) (HI : IndexOK P) {o : Opts Chord} (S : SubDom o.maxError)
    (h1 : o.maxResults = 1) (hU : o.targetUsesMaxError = false) {rs : List (Result Chord)}
    (h : findEdges chordI o (world P) = some rs) :
    rs.length ≤ 1 ∧
    (∀ r ∈ rs,
      (o.includeInteriors = true ∧ r.dist = czero ∧ r.edge = -1 ∧ r.shape ∈ P.interiors) ∨
      (∃ e ∈ P.allEdges, r.shape = e.shape ∧ r.edge = e.edge ∧ Fin r.dist.1 ∧
        |val r.dist.1 - rho P e| ≤ edgeErr ∧ chordI.less r.dist o.distanceLimit = true)) ∧
    (∀ r ∈ rs, ∀ e ∈ P.allEdges,
      (csub r.dist o.maxError).1 ≠ posInf ∧ val (csub r.dist o.maxError).1 ≤ rho P e + slack) ∧
    (rs = [] → ∀ e ∈ P.allEdges, o.distanceLimit.1 ≠ posInf ∧ val o.distanceLimit.1 ≤ rho P e + slack) :=
  point_single_maxError HE HI (chordSubLe_of_subDom S) h1 hU h

/-- **MaxError > 0, end to end**: for every permitted error in `SubDom`, `reported ⊖ MaxError ≤ true distance of EVERY edge
    + 2^-44`, and the reported distance is within `2^-46` of the true distance of the reported edge -/
theorem point_within_maxError_subDom (HE : EdgesOK P) (HI : IndexOK P) {o : Opts Chord} (S : SubDom o.maxError)
    (h1 : o.maxResults = 1) (hU : o.targetUsesMaxError = false) {rs : List (Result Chord)}
    (h : findEdges chordI o (world P) = some rs) :
    ∀ r ∈ rs, (∀ e ∈ P.allEdges, val (csub r.dist o.maxError).1 ≤ rho P e + slack) ∧
      (r.edge ≠ -1 → ∃ e0 ∈ P.allEdges, r.shape = e0.shape ∧ r.edge = e0.edge ∧ |val r.dist.1 - rho P e0| ≤ edgeErr) :=
  point_within_maxError HE HI (chordSubLe_of_subDom S) h1 hU h

/-! ## (4) the I1 part of `IndexOK` for a BUILT index -/

/-- **`I1Arc` for an index built by the modelled `ShapeIndex` builder**: from C06's `build_I1_float` (only hypothesis there:
    `FaceEdgesOK`, decidable per input) and the two geometric links between spherical arcs and uv face edges that C06 has not
    proved yet (`ArcInIndexCell`: the index cells cover the arcs; `FaceClipLink`: a point of the arc in an index cell ⇒ the
    face edge's uv segment meets the cell within the reduced padding) -/
theorem i1Arc_built {shapes : Array IndexBuild.Shape} (hok : S2Proofs.C06Clip.FaceEdgesOK shapes)
    (hix : P.ix = ixOfBuild shapes) (hnd : ((IndexBuild.build shapes).map (·.id)).Nodup)
    (hcov : ArcInIndexCell shapes P) (hlink : FaceClipLink shapes P) : I1Arc P :=
  i1Arc_of_build hok (ixIsBuild_of_eq hix hnd) hcov hlink

/-! ## non-vacuity (the concrete index of `EdgeQuery/PointWorldEx.lean`) -/

section NonVacuity
open S2Proofs.C08World.Ex S2Proofs.C12Dist

/-- `I1Arc` for the example index: every point of each arc lies in the index cell that lists the edge -/
theorem ex_i1Arc : I1Arc exIdx := by
  intro e he Q hQ
  rcases mem_allEdges he with rfl | rfl
  · refine ⟨cPos, [e0], by decide, by simp, ?_⟩
    rw [cellPos_eq]
    show InCell (rectOf cellPos) (uvwR 0 (toAcc Q))
    rw [rectPos]
    exact arc_in_cell _ 0 _ _ _ hom_a0_pos hom_b0_pos hQ
  · refine ⟨cNeg, [e1], by decide, by simp, ?_⟩
    rw [cellNeg_eq]
    show InCell (rectOf cellNeg) (uvwR 0 (toAcc Q))
    rw [rectNeg]
    exact arc_in_cell _ 0 _ _ _ hom_a1_neg hom_b1_neg hQ

/-- `RootsCover` for the example index: both index cells lie below the single initial cell (face 0) -/
theorem ex_rootsCover : RootsCover exIdx := by
  intro lim x hx Q _ _ _
  have : x = cNeg ∨ x = cPos := by simpa [exIdx, Roots.ids] using hx
  refine ⟨cRoot, by simp [exIdx], ?_⟩
  rcases this with rfl | rfl <;> decide

/-- the hypotheses of `indexOK_of_parts` are satisfiable: it re-derives `IndexOK exIdx` WITHOUT the hand-made ancestor
    argument of `ex_covered` (the ancestors are handled by `regions_nested`) -/
example : IndexOK exIdx :=
  indexOK_of_parts ex_edgesOK ex_indexOK.cellsOK ex_indexOK.rootsValid ex_indexOK.depth ex_indexOK.edgesSound
    ex_indexOK.locatedSound ex_i1Arc ex_rootsCover

/-- an instance of `regionsNested_holds`: a point of the level-1 cell `[0,1]²` of face 0 lies in the face cell -/
example (q : S2Proofs.C16Acc.R3) (hq : InCellXYZ (CellM.cellFromCellID cPos) q) :
    InCellXYZ (CellM.cellFromCellID cRoot) q :=
  regionsNested_holds cRoot cPos (by decide) (by decide) (by decide) q hq

example : ChordSubLe czero := chordSubLe_zero
example : ChordSubLe cstraight := chordSubLe_straight
example : Slack.SubLawsOn chordI (world exIdx) cstraight := point_subLawsOn ex_edgesOK chordSubLe_straight

/-- `point_isDistanceLess` APPLIED to the example index: whatever `IsDistanceLess(target, t)` answers obeys the two clauses -/
example (t : Chord) (b : Bool) (hb : isDistanceLess chordI cstraight exOpts (world exIdx) t = some b) :
    (b = false → ∀ e ∈ exIdx.allEdges, t.1 ≠ posInf ∧ val t.1 ≤ rho exIdx e + slack) :=
  (point_isDistanceLess ex_edgesOK ex_indexOK (o := exOpts) rfl
    (by intro e he; rcases mem_allEdges he with rfl | rfl <;> decide)
    (by intro sh h; simp [exIdx] at h) hb).2

end NonVacuity

end S2Proofs.C08
