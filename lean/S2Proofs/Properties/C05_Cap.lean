/-
  Properties/C05_Cap — soundness of `Cap.IntersectsCell` / `Cap.ContainsCell` (s2/cap.go, AFTER repair D59), and the
  coverer theorems of C05 end to end for CAP regions (work package c05cap).

  Objects.  `Cap = S2.CapM V3 F64` (bit-exact binary64 instance `S2.CapF64`); the predicates are the bit-exact model
  `S2.CapCell` (`intersects`, `intersectsCell`, `containsCell`, tied to the regenerated skeleton by `Ties/C05_Cap.lean`,
  compared with Go by the oracle op `pred cap`); the coverer's region of a cap is `S2.CapCell.capRegion`.
  The exact cell of an id is C12's `InCellXYZ (cellFromCellID id) q` (`q : R3` a unit vector in the cone over the REAL
  values of the cell's four float uv bounds); `dist2 A q = |A − q|²` is the squared chord, a cap is (centre, squared
  chord radius).  `u = 2^-53`.

  Results.
  (E) EXACT GEOMETRY over ℝ: the case analysis of the algorithm is right (`cap_intersectsCell_exact` is an iff;
      `ContainsCell` is sound, complete for strict containment, an iff for ρ ≤ 2 and for ρ ≥ 4, with the exact
      characterisation of the gap for 2 < ρ < 4: the code tests the CLOSED complement).
  (F) FLOAT SOUNDNESS with explicit slack `capSlack = 2^-44` (squared chord; about 6e-14):
      `IntersectsCell = false` ⇒ no point of the exact cell is within `radius − capSlack` of the centre;
      `ContainsCell = true`   ⇒ every point of the exact cell is within `radius + capSlack` of the centre.
      UNCONDITIONAL (hypotheses: valid cell id, Normalize-grade centre, finite radius ≤ 4) for every exit of the
      algorithm except the final `return false` after the edge loop ran through all four edges; there the proviso
      `DecisionsExact` (the float sign decisions that let the loop fall through are exactly right) is needed
      (`…_partial`).  In particular unconditional for: `IntersectsCell` of caps of at least 90° (`…_hemisphere`),
      `ContainsCell` of caps of at most 90° (`…_small`, radius ≤ 2 − 2^-50).
  (G) GENERAL POSITION instead of the proviso: the same two statements with slack `capSlackClear = 2^-43` for EVERY cap whose
      centre is at least `2^-50` (8.9e-16 rad) away from the great circles of the four cell edges (`CenterClear`, a plain
      geometric hypothesis; needed only when the loop fell through): `cap_intersectsCell_sound_clear`,
      `cap_containsCell_sound_clear`, and end to end `cap_covering_covers_clear`, `cap_interiorCovering_inside_clear`.
  (D) FINDING D59 (repaired): before the repair the edge rejection `dot*dot > sin2Angle*edge.Norm2()` made
      `IntersectsCell` answer `false` for a cap reaching 4e-9 rad into the cell (`intersectsCell_unsound_before_repair`,
      kernel-checked on the faithful pre-repair model; the repaired model answers `true`); the old test is proved sound
      only with slack `2^-23` (`edge_rejection_slack_before_repair`), and `√`-type loss is attained over ℝ
      (`edge_rejection_sqrt_loss_sharp`); the repaired test is sound with slack `2^-47` (`edge_rejection_slack_after_repair`).
  (C) COVERER END TO END: `capRegion_containsSafe` / `capRegion_intersectsSafe_hemisphere` discharge the region
      hypotheses of `Properties/C05.lean`; `cap_interiorCovering_inside` (caps ≤ 90°, no further hypothesis: every point
      of every leaf cell of `InteriorCovering` / `InteriorCellUnion` is within `radius + capSlack` of the centre) and
      `cap_covering_covers_hemisphere` / `cap_covering_covers_partial` (every unit vector within `radius − capSlack` of the
      centre lies in the exact cell of some cell of `Covering` / `CellUnion`, given that the bound cells cover it).
-/
import S2Proofs.C05Cap.SoundF
import S2Proofs.C05Cap.FloatEdge
import S2Proofs.C05Cap.FloatEdgeOld
import S2Proofs.C05Cap.CenterOut
import S2Proofs.C05Cap.Sub4
import S2Proofs.C05Cap.Counter
import S2Proofs.C05Cap.Instances
import S2Proofs.C05Cap.SoundClear
import S2Proofs.C05Cap.InstancesClear
import S2Proofs.C05Cap.ExactContains
import S2Proofs.C05Cap.Nest
import S2Proofs.Properties.C05_Cells
import S2.CovererRegions

namespace S2Proofs.C05
open S2 S2.CellID S2.CellUnion S2.Coverer S2.CellM S2.CapF64 S2.CapCell
open S2Proofs.C05Cap S2Proofs.C16Acc S2Proofs.FloatErr S2Proofs.F64Order
open S2Proofs.C12Dist (InCellXYZ RRect rectOf dist2)
open S2Proofs.CapF64 (NUnit nunitB)

/-! ## (E) exact geometry -/

/-- (E1) over ℝ the algorithm of `Cap.IntersectsCell` answers `true` EXACTLY when the cap (unit centre `a`, squared chord
    radius `ρ`, any real `ρ`) has a point in common with the cell: vertex inside, or centre in the cell, or an edge with the
    centre on its outer side, within the radius of its great circle, closest point strictly between the end points. -/
theorem cap_intersectsCell_exact (r : RRect) (hr : r.OK) (a : R3) (ha : a.norm2 = 1) (ρ : ℝ) :
    intersectsCellR r a ρ = true ↔ Meets r a ρ := intersectsCellR_iff r hr a ha ρ

/-- (E2) the key case: a cap that contains no vertex and whose centre is outside the cell meets the cell only through the
    interior of an edge, and exactly the three tests of the loop body hold for that edge -/
theorem cap_meets_only_through_edge (r : RRect) (hr : r.OK) (a : R3) (ha : a.norm2 = 1) (ρ : ℝ) (hM : Meets r a ρ)
    (hv : ∀ k, k < 4 → ρ < dist2 a (vtx r k)) (hin : ¬ S2Proofs.C12Dist.InCell r a) :
    ∃ k, k < 4 ∧ R3.dot a (nrm r k) ≤ 0 ∧ (R3.dot a (nrm r k)) ^ 2 ≤ sin2R ρ * (nrm r k).norm2 ∧
      R3.dot (R3.cross (nrm r k) a) (vtx r k) < 0 ∧ 0 < R3.dot (R3.cross (nrm r k) a) (vtx r ((k + 1) % 4)) :=
  meets_edge r hr a ha ρ hM hv hin

/-- (E3) `ContainsCell` over ℝ: `true` ⇒ the cell lies in the (closed) cap; cell strictly inside ⇒ `true` -/
theorem cap_containsCell_exact (r : RRect) (hr : r.OK) (a : R3) (ha : a.norm2 = 1) (ρ : ℝ) :
    (containsCellR r a ρ = true → Inside r a ρ) ∧
    ((∀ q, S2Proofs.C12Dist.InCell r q → dist2 a q < ρ) → containsCellR r a ρ = true) :=
  ⟨containsCellR_sound r hr a ha ρ, containsCellR_complete r hr a ha ρ⟩

/-- (E4) … an iff for caps of at most 90° and for the full cap … -/
theorem cap_containsCell_exact_iff_small (r : RRect) (hr : r.OK) (a : R3) (ha : a.norm2 = 1) (ρ : ℝ) (hρ : ρ ≤ 2 ∨ 4 ≤ ρ) :
    containsCellR r a ρ = true ↔ Inside r a ρ := containsCellR_iff_small r hr a ha ρ hρ

/-- (E5) … and for 90° < radius < 180° exactly: inside, and the boundary circle touches the cell at most in vertices
    (the code tests the CLOSED complement cap) -/
theorem cap_containsCell_exact_iff_large (r : RRect) (hr : r.OK) (a : R3) (ha : a.norm2 = 1) (ρ : ℝ) (h2 : 2 < ρ) (h4 : ρ < 4) :
    containsCellR r a ρ = true ↔
      Inside r a ρ ∧ ∀ q, S2Proofs.C12Dist.InCell r q → dist2 a q = ρ → ∃ k, k < 4 ∧ q = vtx r k :=
  containsCellR_iff_large r hr a ha ρ h2 h4

/-- (E6) the gap is real: a cell inside the cap that the exact algorithm reports as not contained -/
theorem cap_containsCell_exact_gap : Inside exRect ⟨-1, 0, 0⟩ (16 / 5) ∧ containsCellR exRect ⟨-1, 0, 0⟩ (16 / 5) = false :=
  containsCellR_gap

-- non-vacuity of the hypotheses of (E1)-(E5): the rectangle [-3/4,3/4]×[-2/3,2/3], centre (1,0,0)
example : exRect.OK ∧ (⟨1, 0, 0⟩ : R3).norm2 = 1 := ⟨exRect_ok, by unfold R3.norm2; norm_num⟩

/-! ## (F) float soundness -/

/-- THE SLACK of the float theorems (squared chord length): `2^-44 = 512u` -/
noncomputable def capSlack : ℝ := 1 / 2 ^ 44

/-- the "edge too far" exit of the REPAIRED code is sound with slack `2^-47` (`FloatEdge.lean`) -/
theorem edgeFarSpec : EdgeFarSpec edgeSlackFixed := by
  intro cell ctx c hc hfin h0 h2 k hk hs hf q hq
  exact edge_far_sound cell ctx.fu0 ctx.fu1 ctx.fv0 ctx.fv1 ctx.hr ctx.hface c.center hc c.radius hfin h0 h2 k hk hs hf q hq

theorem centerSpec : CenterSpec := by
  intro cell ctx a ha h s hs
  exact center_outside cell ctx.fu0 ctx.fu1 ctx.fv0 ctx.fv1 ctx.hr ctx.hface a ha h s hs

theorem sub4Upper : Sub4Upper := fun r hr h0 h4 => sub4_upper r hr h0 h4

theorem cellCtx_of_valid (id : CellID) (hv : isValid id = true) : CellCtx (cellFromCellID id) := by
  obtain ⟨a, b, c, d, e, f⟩ := S2Proofs.C12Dist.cellOK id hv
  exact ⟨a, b, c, d, e, f⟩

theorem slackI_le : slackI edgeSlackFixed ≤ capSlack := by
  have := γ0_le
  unfold slackI vertSlack edgeSlackFixed capSlack
  unfold uR at this
  norm_num at this ⊢
  linarith

theorem slackC_le : slackC edgeSlackFixed ≤ capSlack := by
  have := γ0_le
  unfold slackC vertSlack edgeSlackFixed capSlack uR
  unfold uR at this
  norm_num at this ⊢
  linarith

/-- (F1) **`IntersectsCell = false` is sound** (partial: proviso `DecisionsExact`, needed only if the edge loop fell through
    all four edges).  Valid cell, Normalize-grade centre, finite radius ≤ 4. -/
theorem cap_intersectsCell_sound_partial (id : CellID) (hv : isValid id = true) (c : Cap) (hc : nunitB c.center = true)
    (hfin : Fin c.radius) (hr4 : val c.radius ≤ 4)
    (hdec : FellThrough c (cellFromCellID id) → DecisionsExact c (cellFromCellID id))
    (h : CapCell.intersectsCell c (cellFromCellID id) = false) :
    ∀ q : R3, InCellXYZ (cellFromCellID id) q → val c.radius - capSlack ≤ dist2 (ofV c.center) q := by
  intro q hq
  have := intersectsCell_false_sound edgeFarSpec centerSpec (by unfold edgeSlackFixed; positivity)
    (cellFromCellID id) (cellCtx_of_valid id hv) c ((S2Proofs.CapF64.nunitB_iff _).mp hc) hfin hr4 hdec h q hq
  have := slackI_le
  linarith

/-- (F2) … UNCONDITIONALLY whenever the algorithm did not leave through the final `return false` of the edge loop -/
theorem cap_intersectsCell_sound_of_exit (id : CellID) (hv : isValid id = true) (c : Cap) (hc : nunitB c.center = true)
    (hfin : Fin c.radius) (hr4 : val c.radius ≤ 4) (hx : ¬ FellThrough c (cellFromCellID id))
    (h : CapCell.intersectsCell c (cellFromCellID id) = false) :
    ∀ q : R3, InCellXYZ (cellFromCellID id) q → val c.radius - capSlack ≤ dist2 (ofV c.center) q :=
  cap_intersectsCell_sound_partial id hv c hc hfin hr4 (fun hf => absurd hf hx) h

/-- (F3) … in particular for every cap of at least 90° (`radius ≥ 2`): no proviso -/
theorem cap_intersectsCell_sound_hemisphere (id : CellID) (hv : isValid id = true) (c : Cap) (hc : nunitB c.center = true)
    (hfin : Fin c.radius) (h2 : 2 ≤ val c.radius) (hr4 : val c.radius ≤ 4)
    (h : CapCell.intersectsCell c (cellFromCellID id) = false) :
    ∀ q : R3, InCellXYZ (cellFromCellID id) q → val c.radius - capSlack ≤ dist2 (ofV c.center) q := by
  apply cap_intersectsCell_sound_of_exit id hv c hc hfin hr4 _ h
  rintro ⟨hge, -⟩
  have := radius_lt_two' hfin hge
  linarith

/-- (F4) **`ContainsCell = true` is sound** (partial: the proviso concerns the complement cap, and only if ITS edge loop fell
    through all four edges). -/
theorem cap_containsCell_sound_partial (id : CellID) (hv : isValid id = true) (c : Cap) (hc : nunitB c.center = true)
    (hfin : Fin c.radius) (hr4 : val c.radius ≤ 4)
    (hdec : FellThrough c.complement (cellFromCellID id) → DecisionsExact c.complement (cellFromCellID id))
    (h : CapCell.containsCell c (cellFromCellID id) = true) :
    ∀ q : R3, InCellXYZ (cellFromCellID id) q → dist2 (ofV c.center) q ≤ val c.radius + capSlack := by
  intro q hq
  have := containsCell_true_sound edgeFarSpec centerSpec sub4Upper (by unfold edgeSlackFixed; positivity)
    (cellFromCellID id) (cellCtx_of_valid id hv) c ((S2Proofs.CapF64.nunitB_iff _).mp hc) hfin hr4 hdec h q hq
  have := slackC_le
  linarith

/-- the complement of a cap of at most 90° never reaches the edge loop -/
theorem complement_not_fellThrough (c : Cap) (hfin : Fin c.radius) (h2 : val c.radius ≤ 2 - 1 / 2 ^ 50) (cell : Cell) :
    ¬ FellThrough c.complement cell := by
  rintro ⟨hge, hne, -, -⟩
  rw [S2Proofs.CapF64.complement_eq] at hge hne
  by_cases hfull : c.isFull = true
  · rw [if_pos hfull] at hne
    have he : (CapM.empty : Cap).isEmpty = true := by rw [S2Proofs.CapF64.isEmpty_eq]; decide +kernel
    exact Bool.noConfusion (hne.symm.trans he)
  · rw [if_neg hfull] at hge hne
    by_cases hemp : c.isEmpty = true
    · rw [if_pos hemp] at hge
      have hf : F64.ge (CapM.full : Cap).radius rightChordAngle = true := by
        show F64.ge Chord.f4 rightChordAngle = true
        decide +kernel
      exact Bool.noConfusion (hge.symm.trans hf)
    · rw [if_neg hemp] at hge
      have h0 : 0 ≤ val c.radius := isEmpty_false hfin (by cases he : c.isEmpty <;> simp_all)
      have e : rightChordAngle = (⟨0x4000000000000000⟩ : F64) := rfl
      have := (sub4_lt_two c.radius hfin h0 (by linarith [show (0:ℝ) < 1 / 2 ^ 50 by positivity]) (by rw [← e]; exact hge)).1
      have hpos : (0 : ℝ) < 1 / 2 ^ 50 := by positivity
      -- 2 − 2^-50 ≤ r ≤ 2 − 2^-50 is possible only with equality; use the strict part
      have hs := (sub4_lt_two c.radius hfin h0 (by linarith) (by rw [← e]; exact hge)).2
      have hlo := (S2Proofs.CapF64.sub4_spec c.radius hfin h0 (by linarith)).2.2.2
      have hu : uR = 1 / 2 ^ 53 := rfl
      have h1 : (1 - uR) ^ 2 ≥ 1 - 2 * uR := by nlinarith [sq_nonneg uR]
      have ht : (1 : ℝ) / 2 ^ 1000 ≤ 1 / 2 ^ 53 :=
        one_div_le_one_div_of_le (by positivity) (pow_le_pow_right₀ (by norm_num) (by norm_num))
      rw [hu] at h1
      have hpos53 : (0 : ℝ) < 1 / 2 ^ 53 := by positivity
      have e50 : (1 : ℝ) / 2 ^ 50 = 8 * (1 / 2 ^ 53) := by norm_num
      nlinarith

/-- (F5) … in particular for every cap of at most 90° (`radius ≤ 2 − 2^-50`): no proviso.  (`ContainsCell` is then the four
    vertex tests; this is the case of every interior covering of a cap up to a hemisphere.) -/
theorem cap_containsCell_sound_small (id : CellID) (hv : isValid id = true) (c : Cap) (hc : nunitB c.center = true)
    (hfin : Fin c.radius) (h2 : val c.radius ≤ 2 - 1 / 2 ^ 50)
    (h : CapCell.containsCell c (cellFromCellID id) = true) :
    ∀ q : R3, InCellXYZ (cellFromCellID id) q → dist2 (ofV c.center) q ≤ val c.radius + capSlack :=
  cap_containsCell_sound_partial id hv c hc hfin (by linarith [show (0:ℝ) < 1 / 2 ^ 50 by positivity])
    (fun hf => absurd hf (complement_not_fellThrough c hfin h2 _)) h

/-! ## (D) finding D59 -/

/-- (D1) BEFORE the repair: the faithful pre-repair model answers `IntersectsCell = false` for a valid cap (Normalize-grade
    centre, radius 89.9999972°) and the face cell 3, although a point of the exact cell lies more than 1e-9 (squared chord)
    inside the cap — soundness fails for every slack ≤ 1e-9 (the float theorems above have slack 6e-14). -/
theorem intersectsCell_unsound_before_repair :
    intersectsCellOld capD59 cellD59 = false ∧
    ¬ (∀ q, InCellXYZ cellD59 q → val capD59.radius - 1 / 10 ^ 9 ≤ dist2 (ofV capD59.center) q) := old_unsound

/-- (D2) AFTER the repair the model answers `true` on the same input (and so does the repaired library) -/
theorem intersectsCell_after_repair : CapCell.intersectsCell capD59 cellD59 = true := counter_new

/-- the input of (D1) is inside the contract of the float theorems -/
theorem d59_input_in_contract : nunitB capD59.center = true ∧ Fin capD59.radius ∧ 0 ≤ val capD59.radius ∧
    val capD59.radius < 2 ∧ (rectOf cellD59).OK := counter_contract

/-- (D3) what the OLD rejection test `dot*dot > sin2Angle*edge.Norm2()` guarantees: slack `2^-23` only -/
theorem edge_rejection_slack_before_repair (id : CellID) (hv : isValid id = true) (c : Cap) (hc : nunitB c.center = true)
    (hfin : Fin c.radius) (h0 : 0 ≤ val c.radius) (h2 : val c.radius < 2) (k : Nat) (hk : k < 4)
    (h : edgeStepOld c (Chord.sin2 c.radius) (cellFromCellID id) k = some false) :
    ∀ q : R3, InCellXYZ (cellFromCellID id) q → val c.radius - 1 / 2 ^ 23 ≤ dist2 (ofV c.center) q := by
  obtain ⟨a, b, c', d, e, f⟩ := S2Proofs.C12Dist.cellOK id hv
  exact (edgeStepOld_false_sound c (cellFromCellID id) a b c' d e f ((S2Proofs.CapF64.nunitB_iff _).mp hc) hfin h0 h2 k hk h).1

/-- (D4) the square-root loss of a comparison of `sin²` values is attained over ℝ: with an error `δ` on the squares the
    chord of a point of the half space can be `2√δ` inside the cap at 90° -/
theorem edge_rejection_sqrt_loss_sharp (δ : ℝ) (h0 : 0 ≤ δ) (h1 : δ ≤ 1) :
    ∃ A N q : R3, 0 < N.norm2 ∧ q.norm2 = 1 ∧ 0 ≤ R3.dot q N ∧ A.norm2 = 1 ∧ R3.dot A N ≤ 0 * N.norm ∧
      sin2R 2 * N.norm2 - δ * N.norm2 ≤ (R3.dot A N) ^ 2 ∧ dist2 A q = 2 - 2 * Real.sqrt (0 + δ) :=
  far_real_sharp δ h0 h1

/-- (D5) what the REPAIRED test `dot*(dot+capEdgeDotError) > sin2Angle*edge.Norm2()` guarantees: slack `2^-47`, all radii -/
theorem edge_rejection_slack_after_repair (id : CellID) (hv : isValid id = true) (c : Cap) (hc : nunitB c.center = true)
    (hfin : Fin c.radius) (h0 : 0 ≤ val c.radius) (h2 : val c.radius < 2) (k : Nat) (hk : k < 4)
    (h : edgeStep c (Chord.sin2 c.radius) (cellFromCellID id) k = some false) :
    ∀ q : R3, InCellXYZ (cellFromCellID id) q → val c.radius - 1 / 2 ^ 47 ≤ dist2 (ofV c.center) q := by
  obtain ⟨a, b, c', d, e, f⟩ := S2Proofs.C12Dist.cellOK id hv
  exact edgeStep_false_sound c (cellFromCellID id) a b c' d e f ((S2Proofs.CapF64.nunitB_iff _).mp hc) hfin h0 h2 k hk h

/-! ## (C) the coverer, end to end for cap regions -/

/-- every point of the exact cell of leaf position `n` is within `radius + σ` of the centre -/
def CapLeafInside (c : Cap) (σ : ℝ) (n : Nat) : Prop :=
  ∀ l : CellID, l.toNat = n → ∀ q : R3, InCellXYZ (cellFromCellID l) q → dist2 (ofV c.center) q ≤ val c.radius + σ

/-- the exact cell of leaf position `n` holds a point within less than `radius − σ` of the centre -/
def CapLeafMeets (c : Cap) (σ : ℝ) (n : Nat) : Prop :=
  ∃ l : CellID, l.toNat = n ∧ ∃ q : R3, InCellXYZ (cellFromCellID l) q ∧ dist2 (ofV c.center) q < val c.radius - σ

/-- the standing contract of a cap for the coverer theorems: Normalize-grade centre, finite radius ≤ 4 -/
structure CapOK (c : Cap) : Prop where
  center : nunitB c.center = true
  fin : Fin c.radius
  le4 : val c.radius ≤ 4

/-- (C1) the region hypothesis `ContainsSafe` of the interior-covering theorems holds for every cap of at most 90° -/
theorem capRegion_containsSafe (c : Cap) (hc : CapOK c) (h2 : val c.radius ≤ 2 - 1 / 2 ^ 50) :
    ContainsSafe (capRegion c) (CapLeafInside c capSlack) := by
  intro id hv hcont n hn hin l hl q hq
  obtain ⟨l', hl', -, hsub⟩ := inCellXYZ_of_leaf id hv n hn hin
  have e : l = l' := UInt64.toNat_inj.mp (hl.trans hl'.symm)
  subst e
  exact cap_containsCell_sound_small id hv c hc.center hc.fin h2 hcont q (hsub q hq)

/-- (C1') … and for every cap under the proviso (for all valid cells) -/
theorem capRegion_containsSafe_partial (c : Cap) (hc : CapOK c)
    (hdec : ∀ id, isValid id = true → FellThrough c.complement (cellFromCellID id) → DecisionsExact c.complement (cellFromCellID id)) :
    ContainsSafe (capRegion c) (CapLeafInside c capSlack) := by
  intro id hv hcont n hn hin l hl q hq
  obtain ⟨l', hl', -, hsub⟩ := inCellXYZ_of_leaf id hv n hn hin
  have e : l = l' := UInt64.toNat_inj.mp (hl.trans hl'.symm)
  subst e
  exact cap_containsCell_sound_partial id hv c hc.center hc.fin hc.le4 (hdec id hv) hcont q (hsub q hq)

/-- (C2) the region hypothesis `IntersectsSafe` of the covering theorems holds for every cap of at least 90° -/
theorem capRegion_intersectsSafe_hemisphere (c : Cap) (hc : CapOK c) (h2 : 2 ≤ val c.radius) :
    IntersectsSafe (capRegion c) (CapLeafMeets c capSlack) := by
  intro id hv hint n hn hin ⟨l, hl, q, hq, hd⟩
  obtain ⟨l', hl', -, hsub⟩ := inCellXYZ_of_leaf id hv n hn hin
  have e : l = l' := UInt64.toNat_inj.mp (hl.trans hl'.symm)
  subst e
  have := cap_intersectsCell_sound_hemisphere id hv c hc.center hc.fin h2 hc.le4 hint q (hsub q hq)
  linarith

/-- (C2') … and for every cap under the proviso (for all valid cells) -/
theorem capRegion_intersectsSafe_partial (c : Cap) (hc : CapOK c)
    (hdec : ∀ id, isValid id = true → FellThrough c (cellFromCellID id) → DecisionsExact c (cellFromCellID id)) :
    IntersectsSafe (capRegion c) (CapLeafMeets c capSlack) := by
  intro id hv hint n hn hin ⟨l, hl, q, hq, hd⟩
  obtain ⟨l', hl', -, hsub⟩ := inCellXYZ_of_leaf id hv n hn hin
  have e : l = l' := UInt64.toNat_inj.mp (hl.trans hl'.symm)
  subst e
  have := cap_intersectsCell_sound_partial id hv c hc.center hc.fin hc.le4 (hdec id hv) hint q (hsub q hq)
  linarith

/-- (C3) END TO END, interior coverings of a cap of at most 90°: every point of the exact cell of every LEAF covered by
    `InteriorCovering` / `InteriorCellUnion` (computed from `CellUnionBound()` on as the code does; every `Options`, every
    depth of the re-cover recursion) is within `radius + capSlack` of the centre.  No hypothesis on the bound except that
    its ids are valid. -/
theorem cap_interiorCovering_inside (fuel : Nat) (geo : CU → CU) (hgeo : ∀ cu, ∀ x ∈ geo cu, isValid x = true)
    (o : Options) (c : Cap) (hc : CapOK c) (h2 : val c.radius ≤ 2 - 1 / 2 ^ 50) (bound : CU) (hb : ∀ x ∈ bound, isValid x = true) :
    ∀ n, n % 2 = 1 →
      (coversLeaf (coveringFromBound fuel geo o true (capRegion c) bound) n = true → CapLeafInside c capSlack n) ∧
      (coversLeaf (cellUnionFromBound fuel geo o true (capRegion c) bound) n = true → CapLeafInside c capSlack n) := by
  have hs := startCellsRec_ok fuel geo o bound hgeo hb
  exact interiorCovering_inside_heap o (capRegion c) (CapLeafInside c capSlack) (capRegion_containsSafe c hc h2) _ hs

/-- the point form of a covering statement: a unit vector all of whose leaves are covered lies in the exact cell of a
    member of the covering -/
theorem point_in_covering (cov : CU) (hv : ∀ x ∈ cov, isValid x = true) (P : Nat → Prop)
    (hcov : ∀ n, n % 2 = 1 → P n → coversLeaf cov n = true)
    (q : R3) (hq : q.norm2 = 1) (hP : ∀ l : CellID, isValid l = true → isLeaf l = true → InCellXYZ (cellFromCellID l) q → P l.toNat) :
    ∃ x ∈ cov, InCellXYZ (cellFromCellID x) q := by
  apply exists_cell_of_covered cov hv q hq
  intro l hl hleaf hin
  have hodd : l.toNat % 2 = 1 := by
    unfold isLeaf at hleaf
    have h1 : l &&& 1 ≠ 0 := by simpa using hleaf
    have h2 : (l &&& 1).toNat ≠ 0 := fun h => h1 (UInt64.toNat_inj.mp (by simpa using h))
    rw [UInt64.toNat_and] at h2
    have e : l.toNat &&& 1 = l.toNat % 2 := Nat.and_one_is_mod _
    have e1 : (1 : UInt64).toNat = 1 := rfl
    rw [e1, e] at h2
    omega
  exact (coversLeaf_iff cov _).mp (hcov _ hodd (hP l hl hleaf hin))

/-- (C4) END TO END, coverings of a cap of at least 90°: every unit vector within less than `radius − capSlack` of the centre
    lies in the exact cell of some cell of `Covering` and of `CellUnion` — provided the bound cells (`CellUnionBound()`,
    float geometry + libm, not modelled: for such caps the code returns the six face cells) cover the leaves that hold
    such points. -/
theorem cap_covering_covers_hemisphere (fuel : Nat) (geo : CU → CU) (hgeo : GeoSound geo) (o : Options) (c : Cap) (hc : CapOK c)
    (h2 : 2 ≤ val c.radius) (bound : CU) (hb : ∀ x ∈ bound, isValid x = true)
    (hbc : ∀ n, n % 2 = 1 → CapLeafMeets c capSlack n → coversLeaf bound n = true)
    (q : R3) (hq : q.norm2 = 1) (hd : dist2 (ofV c.center) q < val c.radius - capSlack) :
    (∃ x ∈ coveringFromBound fuel geo o false (capRegion c) bound, InCellXYZ (cellFromCellID x) q) ∧
    (∃ x ∈ cellUnionFromBound fuel geo o false (capRegion c) bound, InCellXYZ (cellFromCellID x) q) := by
  obtain ⟨hs, hcs⟩ := startCells_cover fuel geo hgeo o bound hb
  have hcov := covering_covers_heap o (capRegion c) (CapLeafMeets c capSlack) (capRegion_intersectsSafe_hemisphere c hc h2) _ hs
    (fun n hn hP => hcs n hn (hbc n hn hP))
  have hP : ∀ l : CellID, isValid l = true → isLeaf l = true → InCellXYZ (cellFromCellID l) q → CapLeafMeets c capSlack l.toNat :=
    fun l _ _ hin => ⟨l, rfl, q, hin, hd⟩
  constructor
  · apply point_in_covering _ _ (CapLeafMeets c capSlack) (fun n hn hPn => (hcov n hn hPn).1) q hq hP
    intro x hx
    exact (covering_levels_from_bound fuel geo o false (capRegion c) bound hgeo.valid hb x hx).1
  · apply point_in_covering _ _ (CapLeafMeets c capSlack) (fun n hn hPn => (hcov n hn hPn).2) q hq hP
    have hn := cellUnion_normalized_region fuel geo hgeo.valid o false (capRegion c) bound hb
    exact ((S2Proofs.isNormalizedCU_iff _).mp hn).1

/-- (C4') the same for EVERY cap under the proviso `DecisionsExact` (for all valid cells whose edge loop falls through) -/
theorem cap_covering_covers_partial (fuel : Nat) (geo : CU → CU) (hgeo : GeoSound geo) (o : Options) (c : Cap) (hc : CapOK c)
    (hdec : ∀ id, isValid id = true → FellThrough c (cellFromCellID id) → DecisionsExact c (cellFromCellID id))
    (bound : CU) (hb : ∀ x ∈ bound, isValid x = true)
    (hbc : ∀ n, n % 2 = 1 → CapLeafMeets c capSlack n → coversLeaf bound n = true)
    (q : R3) (hq : q.norm2 = 1) (hd : dist2 (ofV c.center) q < val c.radius - capSlack) :
    ∃ x ∈ coveringFromBound fuel geo o false (capRegion c) bound, InCellXYZ (cellFromCellID x) q := by
  obtain ⟨hs, hcs⟩ := startCells_cover fuel geo hgeo o bound hb
  have hcov := covering_covers_heap o (capRegion c) (CapLeafMeets c capSlack) (capRegion_intersectsSafe_partial c hc hdec) _ hs
    (fun n hn hP => hcs n hn (hbc n hn hP))
  have hP : ∀ l : CellID, isValid l = true → isLeaf l = true → InCellXYZ (cellFromCellID l) q → CapLeafMeets c capSlack l.toNat :=
    fun l _ _ hin => ⟨l, rfl, q, hin, hd⟩
  apply point_in_covering _ _ (CapLeafMeets c capSlack) (fun n hn hPn => (hcov n hn hPn).1) q hq hP
  intro x hx
  exact (covering_levels_from_bound fuel geo o false (capRegion c) bound hgeo.valid hb x hx).1

/-! ## (G) general position instead of the proviso

The proviso `DecisionsExact` of the `_partial` theorems is replaced by the GEOMETRIC hypothesis `CenterClear c cell`: the centre of
the cap is at least `2^-50` (8.9e-16 rad) away from the great circle of each of the four cell edges (needed, like the proviso, only
when the edge loop fell through all four edges).  Price: slack `capSlackClear = 2^-43` instead of `2^-44`.  How: the SLAB clause of the
proviso is a theorem (`robust_edge`: a cell point `2^-45` inside the cap while all vertices are outside forces the exact slab
quantities to be ≥ 127u in size, the float ones have error ≤ `slabErr`; `slab_false`); the SKIP clause follows from `CenterClear`
(`skip_clear`: float `dot > 0` has error < 8u).  What `CenterClear` excludes is exactly the configuration whose treatment depends
on the consistency of the skip decision with `Cell.ContainsPoint(center)` (see DELIVER §5). -/

/-- the slack of the general-position theorems (squared chord): `2^-43 = 1024u` -/
noncomputable def capSlackClear : ℝ := 1 / 2 ^ 43

theorem slackIClear_le : slackIClear edgeSlackFixed ≤ capSlackClear := by
  have := γ0_le
  unfold slackIClear vertSlack edgeSlackFixed capSlackClear robustΔ
  unfold uR at this
  norm_num at this ⊢
  linarith

theorem slackCClear_le : slackCClear edgeSlackFixed ≤ capSlackClear := by
  have := γ0_le
  unfold slackCClear vertSlack edgeSlackFixed capSlackClear robustΔ uR
  unfold uR at this
  norm_num at this ⊢
  linarith

/-- (G1) **`IntersectsCell = false` is sound for every cap whose centre is in general position w.r.t. the cell** -/
theorem cap_intersectsCell_sound_clear (id : CellID) (hv : isValid id = true) (c : Cap) (hc : nunitB c.center = true)
    (hfin : Fin c.radius) (hr4 : val c.radius ≤ 4)
    (hclear : FellThrough c (cellFromCellID id) → CenterClear c (cellFromCellID id))
    (h : CapCell.intersectsCell c (cellFromCellID id) = false) :
    ∀ q : R3, InCellXYZ (cellFromCellID id) q → val c.radius - capSlackClear ≤ dist2 (ofV c.center) q := by
  intro q hq
  have := intersectsCell_false_sound_clear edgeFarSpec centerSpec (by unfold edgeSlackFixed; positivity)
    (cellFromCellID id) (cellCtx_of_valid id hv) c ((S2Proofs.CapF64.nunitB_iff _).mp hc) hfin hr4 hclear h q hq
  have := slackIClear_le
  linarith

/-- (G2) **`ContainsCell = true` is sound for every cap whose antipodal centre is in general position w.r.t. the cell** -/
theorem cap_containsCell_sound_clear (id : CellID) (hv : isValid id = true) (c : Cap) (hc : nunitB c.center = true)
    (hfin : Fin c.radius) (hr4 : val c.radius ≤ 4)
    (hclear : FellThrough c.complement (cellFromCellID id) → CenterClear c.complement (cellFromCellID id))
    (h : CapCell.containsCell c (cellFromCellID id) = true) :
    ∀ q : R3, InCellXYZ (cellFromCellID id) q → dist2 (ofV c.center) q ≤ val c.radius + capSlackClear := by
  intro q hq
  have := containsCell_true_sound_clear edgeFarSpec centerSpec sub4Upper (by unfold edgeSlackFixed; positivity)
    (cellFromCellID id) (cellCtx_of_valid id hv) c ((S2Proofs.CapF64.nunitB_iff _).mp hc) hfin hr4 hclear h q hq
  have := slackCClear_le
  linarith

/-- (G3) the region hypotheses for a cap in general position w.r.t. every valid cell -/
theorem capRegion_intersectsSafe_clear (c : Cap) (hc : CapOK c)
    (hclear : ∀ id, isValid id = true → CenterClear c (cellFromCellID id)) :
    IntersectsSafe (capRegion c) (CapLeafMeets c capSlackClear) := by
  intro id hv hint n hn hin ⟨l, hl, q, hq, hd⟩
  obtain ⟨l', hl', -, hsub⟩ := inCellXYZ_of_leaf id hv n hn hin
  have e : l = l' := UInt64.toNat_inj.mp (hl.trans hl'.symm)
  subst e
  have := cap_intersectsCell_sound_clear id hv c hc.center hc.fin hc.le4 (fun _ => hclear id hv) hint q (hsub q hq)
  linarith

theorem capRegion_containsSafe_clear (c : Cap) (hc : CapOK c)
    (hclear : ∀ id, isValid id = true → CenterClear c.complement (cellFromCellID id)) :
    ContainsSafe (capRegion c) (CapLeafInside c capSlackClear) := by
  intro id hv hcont n hn hin l hl q hq
  obtain ⟨l', hl', -, hsub⟩ := inCellXYZ_of_leaf id hv n hn hin
  have e : l = l' := UInt64.toNat_inj.mp (hl.trans hl'.symm)
  subst e
  exact cap_containsCell_sound_clear id hv c hc.center hc.fin hc.le4 (fun _ => hclear id hv) hcont q (hsub q hq)

/-- (G4) END TO END, every cap in general position w.r.t. the cell grid: every unit vector within less than
    `radius − 2^-43` of the centre lies in the exact cell of some cell of `Covering` and of `CellUnion` (given a covering bound) -/
theorem cap_covering_covers_clear (fuel : Nat) (geo : CU → CU) (hgeo : GeoSound geo) (o : Options) (c : Cap) (hc : CapOK c)
    (hclear : ∀ id, isValid id = true → CenterClear c (cellFromCellID id))
    (bound : CU) (hb : ∀ x ∈ bound, isValid x = true)
    (hbc : ∀ n, n % 2 = 1 → CapLeafMeets c capSlackClear n → coversLeaf bound n = true)
    (q : R3) (hq : q.norm2 = 1) (hd : dist2 (ofV c.center) q < val c.radius - capSlackClear) :
    (∃ x ∈ coveringFromBound fuel geo o false (capRegion c) bound, InCellXYZ (cellFromCellID x) q) ∧
    (∃ x ∈ cellUnionFromBound fuel geo o false (capRegion c) bound, InCellXYZ (cellFromCellID x) q) := by
  obtain ⟨hs, hcs⟩ := startCells_cover fuel geo hgeo o bound hb
  have hcov := covering_covers_heap o (capRegion c) (CapLeafMeets c capSlackClear) (capRegion_intersectsSafe_clear c hc hclear) _ hs
    (fun n hn hP => hcs n hn (hbc n hn hP))
  have hP : ∀ l : CellID, isValid l = true → isLeaf l = true → InCellXYZ (cellFromCellID l) q → CapLeafMeets c capSlackClear l.toNat :=
    fun l _ _ hin => ⟨l, rfl, q, hin, hd⟩
  constructor
  · apply point_in_covering _ _ (CapLeafMeets c capSlackClear) (fun n hn hPn => (hcov n hn hPn).1) q hq hP
    intro x hx
    exact (covering_levels_from_bound fuel geo o false (capRegion c) bound hgeo.valid hb x hx).1
  · apply point_in_covering _ _ (CapLeafMeets c capSlackClear) (fun n hn hPn => (hcov n hn hPn).2) q hq hP
    have hn := cellUnion_normalized_region fuel geo hgeo.valid o false (capRegion c) bound hb
    exact ((S2Proofs.isNormalizedCU_iff _).mp hn).1

/-- (G5) END TO END, interior coverings of EVERY cap whose antipodal centre is in general position w.r.t. the cell grid -/
theorem cap_interiorCovering_inside_clear (fuel : Nat) (geo : CU → CU) (hgeo : ∀ cu, ∀ x ∈ geo cu, isValid x = true)
    (o : Options) (c : Cap) (hc : CapOK c)
    (hclear : ∀ id, isValid id = true → CenterClear c.complement (cellFromCellID id))
    (bound : CU) (hb : ∀ x ∈ bound, isValid x = true) :
    ∀ n, n % 2 = 1 →
      (coversLeaf (coveringFromBound fuel geo o true (capRegion c) bound) n = true → CapLeafInside c capSlackClear n) ∧
      (coversLeaf (cellUnionFromBound fuel geo o true (capRegion c) bound) n = true → CapLeafInside c capSlackClear n) := by
  have hs := startCellsRec_ok fuel geo o bound hgeo hb
  exact interiorCovering_inside_heap o (capRegion c) (CapLeafInside c capSlackClear) (capRegion_containsSafe_clear c hc hclear) _ hs

/-- non-vacuity of (G1): `capFT` × face cell 3 — the loop falls through, the centre is in general position (all four
    great-circle distances ≥ 0.2), `IntersectsCell = false` -/
example : isValid (0x7000000000000000 : CellID) = true ∧ nunitB capFT.center = true ∧ Fin capFT.radius ∧ val capFT.radius ≤ 4 ∧
    FellThrough capFT (cellFromCellID 0x7000000000000000) ∧ CenterClear capFT (cellFromCellID 0x7000000000000000) ∧
    CapCell.intersectsCell capFT (cellFromCellID 0x7000000000000000) = false := capFT_clear_instance

/-! ### non-vacuity (all instances kernel-checked in `C05Cap/Instances.lean`, `C05Cap/Counter.lean`; cell = face 3) -/

/-- the contract is satisfiable: the D59 cap (Normalize-grade centre, radius just below 2) -/
example : CapOK capD59 := ⟨counter_contract.1, counter_contract.2.1, by linarith [counter_contract.2.2.2.1]⟩

/-- (F3) / (C2) / (C4): a cap of exactly 90° around (1,0,0) and the face cell 3 — `IntersectsCell = false` through the hemisphere exit -/
example : isValid (0x7000000000000000 : CellID) = true ∧ CapOK capHemi ∧ 2 ≤ val capHemi.radius ∧
    CapCell.intersectsCell capHemi (cellFromCellID 0x7000000000000000) = false :=
  ⟨cellD59_valid, ⟨capHemi_contract.1, capHemi_contract.2.1, capHemi_contract.2.2.2⟩, capHemi_contract.2.2.1, capHemi_intersectsCell⟩

/-- (F5) / (C1) / (C3): the cap of squared chord 1.9 (87°) around (−1,0,0) contains the face cell 3 -/
example : CapOK capBig90 ∧ val capBig90.radius ≤ 2 - 1 / 2 ^ 50 ∧
    CapCell.containsCell capBig90 (cellFromCellID 0x7000000000000000) = true :=
  ⟨⟨capBig90_contract.1, capBig90_contract.2.1, by linarith [capBig90_contract.2.2, show (0:ℝ) < 1 / 2 ^ 50 by positivity]⟩,
   capBig90_contract.2.2, capBig90_containsCell⟩

/-- (F1) / (C2') / (C4'): THE PROVISO IS SATISFIABLE, non-trivially — the cap (centre `Normalize(−1,3,3)`, squared chord 1/8)
    lies beyond a corner of the face cell 3: the edge loop falls through all four edges (two skipped, two with the closest
    point beyond the corner), the float sign decisions are exactly right, and `IntersectsCell = false`. -/
example : isValid (0x7000000000000000 : CellID) = true ∧ nunitB capFT.center = true ∧ Fin capFT.radius ∧ val capFT.radius ≤ 4 ∧
    FellThrough capFT (cellFromCellID 0x7000000000000000) ∧ DecisionsExact capFT (cellFromCellID 0x7000000000000000) ∧
    CapCell.intersectsCell capFT (cellFromCellID 0x7000000000000000) = false := capFT_instance

/-- (F2): the hemisphere cap does not reach the final `return false` -/
example : ¬ FellThrough capHemi (cellFromCellID 0x7000000000000000) := capHemi_not_fellThrough

/-- (D3)/(D5): an instance of the rejection exit (`edgeStep … = some false`) is in `C05Cap/FloatEdge.lean` / `FloatEdgeOld.lean`
    (face cell 0, centre (−1,0,0), radius 0.5, edge 0), and the D59 input itself takes it on the OLD model: -/
example : intersectsCellOld capD59 cellD59 = false := counter_old

end S2Proofs.C05
