/-
  Property C04, `CellLoopsTile` AT THE VERTICES of a family of convex cell loops (exact geometry): the semi-open
  vertex rule gives a vertex shared by three or four cells to exactly one of them.

  `C04_Tiling2.cells_exactly_once_exact` covers every point that is not `==` to a vertex.  Here `p` may be `==` to
  vertices of some of the cells ("the cells around p"; bit-identical or ±0 twins):
    * a cell around p (corner `a x c`, `x == p`) contains p iff `AngleContainsVertex(a,x,c)`
      (`cellLoop_contains_vertices_exact`), i.e. iff the reference direction of p is in the half-open wedge at p
      from the ray `p c` (included side) to the ray `p a` (`acv_eq_wedge`, `corner_contains_exact`);
    * two cells around p that are separated by an edge plane: the plane passes through p, the two wedges are on
      its two sides, and the reference direction cannot be in both (`wedge_side_exact`: one Grassmann–Plücker
      relation with pivot p in the real realisation; `wedges_disjoint_exact`) — so at most one cell around p
      contains p;
    * at most one cell NOT around p contains p (`cells_count_le_one_exact` on the sub-family);
    * the count is odd (`tiling_parity_eq_exact`), hence it is 1 (`cells_exactly_once_at_vertex_exact`).
  Extra hypothesis: the reference direction `s2Ortho p` is not `==` to a vertex of the family (decidable).
-/
import S2Proofs.Properties.C04_Tiling2
namespace S2Proofs.C04
open S2 S2.Contain S2.Pred S2.Exact S2Proofs.Contain S2Proofs.F64Order S2Proofs.ExactLaws
open S2Proofs.PredLemmas S2Proofs.SosLemmas

/-! ## 1. `AngleContainsVertex` as a half-open wedge -/

/-- the reference direction of `p` is in the half-open wedge at `p` between the rays `p c` (strictly to its left)
    and `p a` (not strictly to its left) -/
def wedgeB (p a c : V3) : Bool :=
  (exactDecision p c (s2Ortho p) == 1) && (exactDecision p a (s2Ortho p) != 1)

/-- **`AngleContainsVertex(a,b,c)` at a convex corner** (`[abc] = +1`) is "the reference direction of `b` is in
    the half-open wedge at `b`". -/
theorem acv_eq_wedge_exact {a b c : V3} (fa : Fin3 a) (fb : Fin3 b) (fc : Fin3 c) (fr : Fin3 (s2Ortho b))
    (h : exactDecision a b c = 1) : angleContainsVertex exactGeo a b c = wedgeB b a c := by
  rw [angleContainsVertex_eq, orderedCCW_eq]
  show (!occwB (exactDecision c b (s2Ortho b)) (exactDecision a b c) (exactDecision (s2Ortho b) b a)) = _
  rw [E_swap12 fb fc fr, E_rot' fb fa fr, h]
  unfold wedgeB
  rcases E_range fb fc fr with hx | hx | hx <;> rcases E_range fb fa fr with hy | hy | hy <;>
    simp [occwB, hx, hy]

/-! ## 2. a wedge is on one side of every line through its apex that its two rays are on one side of -/

theorem wedge_side_exact {p w a c r : V3} (fp : Fin3 p) (fw : Fin3 w) (fa : Fin3 a) (fc : Fin3 c) (fr : Fin3 r)
    (hcv : exactDecision a p c = 1) (h1 : exactDecision p c r = 1) (h2 : exactDecision p a r ≠ 1) :
    (exactDecision p w a ≠ -1 → exactDecision p w c ≠ -1 → exactDecision p w r ≠ -1) ∧
    (exactDecision p w a ≠ 1 → exactDecision p w c ≠ 1 → exactDecision p w r ≠ 1) := by
  obtain ⟨f, hf, _⟩ := C02.exactDecision_realisable [ofV3 p, ofV3 w, ofV3 a, ofV3 c, ofV3 r]
  have m : ∀ {x y z : V3}, Fin3 x → Fin3 y → Fin3 z →
      ofV3 x ∈ [ofV3 p, ofV3 w, ofV3 a, ofV3 c, ofV3 r] →
      ofV3 y ∈ [ofV3 p, ofV3 w, ofV3 a, ofV3 c, ofV3 r] →
      ofV3 z ∈ [ofV3 p, ofV3 w, ofV3 a, ofV3 c, ofV3 r] →
      exactDecision x y z = rsgn (detR (f (ofV3 x)) (f (ofV3 y)) (f (ofV3 z))) := by
    intro x y z hx hy hz mx my mz
    rw [E_eq hx hy hz]; exact hf _ mx _ my _ mz
  rw [m fa fp fc (by simp) (by simp) (by simp), rsgn_eq_one_iff] at hcv
  rw [m fp fc fr (by simp) (by simp) (by simp), rsgn_eq_one_iff] at h1
  rw [m fp fa fr (by simp) (by simp) (by simp), ne_eq, rsgn_eq_one_iff, not_lt] at h2
  rw [m fp fw fa (by simp) (by simp) (by simp), m fp fw fc (by simp) (by simp) (by simp),
    m fp fw fr (by simp) (by simp) (by simp)]
  simp only [ne_eq, rsgn_eq_one_iff, rsgn_eq_neg_one_iff, not_lt]
  generalize f (ofV3 p) = P at *
  generalize f (ofV3 w) = W at *
  generalize f (ofV3 a) = A at *
  generalize f (ofV3 c) = C at *
  generalize f (ofV3 r) = R at *
  have key := gpR P W R C A
  have r1 : detR P C A = detR A P C := detR_rot A P C
  have r2 : detR P R A = -detR P A R := detR_swap23 P A R
  have r3 : detR P R C = -detR P C R := detR_swap23 P C R
  rw [r1, r2, r3] at key
  constructor
  · intro ha hc
    by_contra hn
    rw [not_le] at hn
    have a1 := mul_neg_of_neg_of_pos hn hcv
    have b1 := mul_nonneg hc (neg_nonneg.2 h2)
    have b2 := mul_nonneg ha h1.le
    nlinarith
  · intro ha hc
    by_contra hn
    rw [not_le] at hn
    have a1 := mul_pos hn hcv
    have b1 := mul_nonpos_of_nonpos_of_nonneg hc (neg_nonneg.2 h2)
    have b2 := mul_nonpos_of_nonpos_of_nonneg ha h1.le
    nlinarith

/-! ## 3. the cells around a point -/

namespace Q4
/-- the four corners (previous vertex, vertex, next vertex) of a cell -/
def corners (q : Q4) : List (V3 × V3 × V3) :=
  [(q.v3, q.v0, q.v1), (q.v0, q.v1, q.v2), (q.v1, q.v2, q.v3), (q.v2, q.v3, q.v0)]
/-- `p` is `==` to a vertex of the cell -/
def around (q : Q4) (p : V3) : Bool := q.verts.any fun x => V3.feq x p
end Q4

/-- the input class of a cell against a point that may be `==` to its vertices: every vertex usable (`PtOK`),
    compatible with the reference point and with `p`, and not `==` to the reference direction of `p` -/
def VDom (o : V3) (q : Q4) (p : V3) : Prop :=
  q.OK ∧ ∀ v ∈ q.verts, PtOK v ∧ Compat o v ∧ Compat v p ∧ V3.feq (s2Ortho p) v = false

instance (o : V3) (q : Q4) (p : V3) : Decidable (VDom o q p) := by unfold VDom; infer_instance

private theorem corner_of_vert {q : Q4} {x : V3} (hx : x ∈ q.verts) : ∃ a c, (a, x, c) ∈ q.corners := by
  simp only [Q4.verts, List.mem_cons, List.not_mem_nil, or_false] at hx
  rcases hx with rfl | rfl | rfl | rfl
  · exact ⟨q.v3, q.v1, by simp [Q4.corners]⟩
  · exact ⟨q.v0, q.v2, by simp [Q4.corners]⟩
  · exact ⟨q.v1, q.v3, by simp [Q4.corners]⟩
  · exact ⟨q.v2, q.v0, by simp [Q4.corners]⟩

/-- **A cell around p contains p iff the reference direction of p is in the cell's wedge at p.** -/
theorem corner_contains_exact {o p a x c : V3} {q : Q4} (ho : PtOK o) (hp : PtOK p) (hd : VDom o q p)
    (ht : (a, x, c) ∈ q.corners) (e : V3.feq x p = true) :
    bruteContains exactGeo o (q.loop o) p = wedgeB p a c ∧ a ∈ q.verts ∧ c ∈ q.verts ∧
      exactDecision a p c = 1 := by
  obtain ⟨hok, hv⟩ := hd
  have hvs := cellLoop_contains_vertices_exact hok ho (fun v hm => ⟨(hv v hm).1, (hv v hm).2.1⟩)
  have m : q.v0 ∈ q.verts ∧ q.v1 ∈ q.verts ∧ q.v2 ∈ q.verts ∧ q.v3 ∈ q.verts := by simp [Q4.verts]
  -- the generic step, for a corner with the vertex rule already known
  have step : ∀ {a x c : V3}, a ∈ q.verts → x ∈ q.verts → c ∈ q.verts → V3.feq x p = true →
      bruteContains exactGeo o (q.loop o) x = angleContainsVertex exactGeo a x c →
      exactDecision a x c = 1 →
      bruteContains exactGeo o (q.loop o) p = wedgeB p a c ∧ a ∈ q.verts ∧ c ∈ q.verts ∧
        exactDecision a p c = 1 := by
    intro a x c ma mx mc e hx hcv
    have fa := (hv a ma).1.1
    have fx := (hv x mx).1
    have fc := (hv c mc).1.1
    have er : V3.feq (s2Ortho x) (s2Ortho p) = true := by
      rcases (hv x mx).2.2.1 with h' | h'
      · rw [e] at h'; cases h'
      · exact h'
    have hes : EdgesIn Fin3 (loopEdges (q.loop o).vertices.toList) :=
      edgesIn_loopEdges (cells_loopIn_exact (o := o) (cells := [q]) (fun q' hq' => by
        simp only [List.mem_singleton] at hq'; subst hq'; exact hok) _ (by simp))
    refine ⟨?_, ma, mc, ?_⟩
    · have e1 : bruteContains exactGeo o (q.loop o) p = bruteContains exactGeo o (q.loop o) x := by
        unfold bruteContains
        rw [crossParity_congr_b_on chiroOn_exactGeo ho.1 fx.1 hp.1 ho.2.1 fx.2.1 hp.2.1 e er hes]
      rw [e1, hx, acv_eq_wedge_exact fa fx.1 fc fx.2.1 hcv]
      unfold wedgeB
      rw [E_congr fx.1 fc fx.2.1 hp.1 fc hp.2.1 e (feq_refl fc) er,
        E_congr fx.1 fa fx.2.1 hp.1 fa hp.2.1 e (feq_refl fa) er]
    · rw [← E_congr fa fx.1 fc fa hp.1 fc (feq_refl fa) e (feq_refl fc)]; exact hcv
  have c0 := hok.2.2.2.2.2.2.2.2.2.2.2.2.1
  have c1 := hok.2.2.2.2.2.2.2.2.2.2.2.2.2.1
  have c2 := hok.2.2.2.2.2.2.2.2.2.2.2.2.2.2.1
  have c3 := hok.2.2.2.2.2.2.2.2.2.2.2.2.2.2.2
  simp only [Q4.corners, List.mem_cons, List.not_mem_nil, or_false, Prod.mk.injEq] at ht
  rcases ht with ⟨rfl, rfl, rfl⟩ | ⟨rfl, rfl, rfl⟩ | ⟨rfl, rfl, rfl⟩ | ⟨rfl, rfl, rfl⟩
  · exact step m.2.2.2 m.1 m.2.1 e hvs.1 c3
  · exact step m.1 m.2.1 m.2.2.1 e hvs.2.1 c0
  · exact step m.2.1 m.2.2.1 m.2.2.2 e hvs.2.2.1 c1
  · exact step m.2.2.1 m.2.2.2 m.1 e hvs.2.2.2 c2

/-- **The wedges of two separated cells around p are disjoint**: the reference direction of p is in at most one
    of them. -/
theorem wedges_disjoint_exact {o p a x c a' x' c' : V3} {q q' : Q4} (hp : PtOK p) (hd : VDom o q p)
    (hd' : VDom o q' p) (hs : edgeSep q q' = true)
    (ma : a ∈ q.verts) (mx : x ∈ q.verts) (mc : c ∈ q.verts)
    (ma' : a' ∈ q'.verts) (mx' : x' ∈ q'.verts) (mc' : c' ∈ q'.verts)
    (e : V3.feq x p = true) (e' : V3.feq x' p = true)
    (hcv : exactDecision a p c = 1) (hcv' : exactDecision a' p c' = 1) :
    ¬ (wedgeB p a c = true ∧ wedgeB p a' c' = true) := by
  rintro ⟨w1, w2⟩
  simp only [wedgeB, Bool.and_eq_true, beq_iff_eq, bne_iff_ne, ne_eq] at w1 w2
  have fp := hp.1
  have fr := hp.2.1
  have fin : ∀ {y : V3}, y ∈ q.verts → Fin3 y := fun hy => (hd.2 _ hy).1.1
  have fin' : ∀ {y : V3}, y ∈ q'.verts → Fin3 y := fun hy => (hd'.2 _ hy).1.1
  -- the generic argument for a separator `u v` whose points are vertices of `q` or `q'`
  have main : ∀ u v : V3, Fin3 u → Fin3 v → V3.feq (s2Ortho p) u = false → V3.feq (s2Ortho p) v = false →
      sepByB u v q q' = true → False := by
    intro u v fu fv ru rv hsep
    simp only [sepByB, Bool.and_eq_true, Bool.not_eq_true', List.all_eq_true, bne_iff_ne, ne_eq] at hsep
    obtain ⟨⟨huv, h1⟩, h2⟩ := hsep
    -- the separator passes through p
    have z : exactDecision u v p = 0 := by
      have k1 := h1 x mx
      have k2 := h2 x' mx'
      rw [E_congr fu fv (fin mx) fu fv fp (feq_refl fu) (feq_refl fv) e] at k1
      rw [E_congr fu fv (fin' mx') fu fv fp (feq_refl fu) (feq_refl fv) e'] at k2
      rcases E_range fu fv fp with h | h | h
      · exact absurd h k1
      · exact h
      · exact absurd h k2
    rcases (E_zero_iff fu fv fp).1 z with h | h | h
    · rw [huv] at h; cases h
    · -- v == p : the separator is `u p`
      have cv : ∀ {y : V3}, Fin3 y → exactDecision u v y = -exactDecision p u y := fun fy => by
        rw [E_congr fu fv fy fu fp fy (feq_refl fu) h (feq_refl fy), E_swap12 fp fu fy]
      have s1 := (wedge_side_exact fp fu (fin ma) (fin mc) fr hcv w1.1 w1.2).2
        (by have := h1 a ma; rw [cv (fin ma)] at this; omega)
        (by have := h1 c mc; rw [cv (fin mc)] at this; omega)
      have s2 := (wedge_side_exact fp fu (fin' ma') (fin' mc') fr hcv' w2.1 w2.2).1
        (by have := h2 a' ma'; rw [cv (fin' ma')] at this; omega)
        (by have := h2 c' mc'; rw [cv (fin' mc')] at this; omega)
      have z' : exactDecision p u (s2Ortho p) = 0 := by
        rcases E_range fp fu fr with h' | h' | h'
        · exact absurd h' s2
        · exact h'
        · exact absurd h' s1
      rcases (E_zero_iff fp fu fr).1 z' with g | g | g
      · have := feq_trans fv fp fu h g
        rw [feq_comm fv fu, huv] at this; cases this
      · rw [feq_comm fu fr, ru] at g; cases g
      · rw [feq_comm fr fp, hp.2.2] at g; cases g
    · -- p == u : the separator is `p v`
      have cv : ∀ {y : V3}, Fin3 y → exactDecision u v y = exactDecision p v y := fun fy =>
        E_congr fu fv fy fp fv fy (feq_symm fp fu h) (feq_refl fv) (feq_refl fy)
      have s1 := (wedge_side_exact fp fv (fin ma) (fin mc) fr hcv w1.1 w1.2).1
        (by have := h1 a ma; rw [cv (fin ma)] at this; exact this)
        (by have := h1 c mc; rw [cv (fin mc)] at this; exact this)
      have s2 := (wedge_side_exact fp fv (fin' ma') (fin' mc') fr hcv' w2.1 w2.2).2
        (by have := h2 a' ma'; rw [cv (fin' ma')] at this; exact this)
        (by have := h2 c' mc'; rw [cv (fin' mc')] at this; exact this)
      have z' : exactDecision p v (s2Ortho p) = 0 := by
        rcases E_range fp fv fr with h' | h' | h'
        · exact absurd h' s1
        · exact h'
        · exact absurd h' s2
      rcases (E_zero_iff fp fv fr).1 z' with g | g | g
      · have := feq_trans fu fp fv (feq_symm fp fu h) g
        rw [huv] at this; cases this
      · rw [feq_comm fv fr, rv] at g; cases g
      · rw [feq_comm fr fp, hp.2.2] at g; cases g
  simp only [edgeSep, Bool.or_eq_true, List.any_eq_true] at hs
  have em : ∀ {q : Q4} {ed : V3 × V3}, ed ∈ q.edges → ed.1 ∈ q.verts ∧ ed.2 ∈ q.verts := by
    intro q ed he
    simp only [Q4.edges, List.mem_cons, List.not_mem_nil, or_false] at he
    rcases he with rfl | rfl | rfl | rfl <;> simp [Q4.verts]
  rcases hs with ⟨ed, he, hsep⟩ | ⟨ed, he, hsep⟩
  · exact main _ _ (fin (em he).1) (fin (em he).2) (hd.2 _ (em he).1).2.2.2 (hd.2 _ (em he).2).2.2.2 hsep
  · exact main _ _ (fin' (em he).2) (fin' (em he).1) (hd'.2 _ (em he).2).2.2.2 (hd'.2 _ (em he).1).2.2.2 hsep

/-! ## 4. families -/

private theorem filter_length_le_one' {α : Type} (f : α → Bool) (R : α → α → Prop) (l : List α)
    (hR : l.Pairwise R) (hex : ∀ a ∈ l, ∀ b ∈ l, R a b → f a = true → f b = true → False) :
    (l.filter f).length ≤ 1 := by
  induction l with
  | nil => simp
  | cons a l ih =>
    rw [List.pairwise_cons] at hR
    have ih' := ih hR.2 (fun x hx y hy => hex x (List.mem_cons_of_mem _ hx) y (List.mem_cons_of_mem _ hy))
    by_cases ha : f a = true
    · have : l.filter f = [] := by
        rw [List.filter_eq_nil_iff]
        intro b hb hfb
        exact hex a (by simp) b (List.mem_cons_of_mem _ hb) (hR.1 b hb) ha hfb
      simp [ha, this]
    · simp only [Bool.not_eq_true] at ha
      simpa [List.filter_cons, ha] using ih'

private theorem filter_split {α : Type} (f g : α → Bool) (l : List α) :
    (l.filter f).length = ((l.filter g).filter f).length + ((l.filter fun x => !g x).filter f).length := by
  induction l with
  | nil => simp
  | cons a l ih =>
    cases hg : g a <;> cases hf : f a <;> simp [hg, hf, ih] <;> omega

private theorem pairwiseB_pairwise {α : Type} {r : α → α → Bool} {l : List α} (h : pairwiseB r l = true) :
    l.Pairwise (fun a b => r a b = true) := by
  induction l with
  | nil => exact List.Pairwise.nil
  | cons a l ih =>
    simp only [pairwiseB, Bool.and_eq_true, List.all_eq_true] at h
    exact List.Pairwise.cons h.1 (ih h.2)

/-- **At most two cells contain p, p possibly `==` to vertices**: at most one of the cells around p (wedges) and at
    most one of the others (inner sides). -/
theorem cells_count_le_two_exact {o p : V3} {cells : List Q4} (ho : PtOK o) (hp : PtOK p) (hop : Compat o p)
    (hd : ∀ q ∈ cells, VDom o q p) (hsep : edgeSepAll cells = true) :
    containCount o (cells.map (Q4.loop o)) p ≤ 2 := by
  have hpw := pairwiseB_pairwise hsep
  unfold containCount
  rw [List.filter_map, List.length_map]
  show (cells.filter fun q => bruteContains exactGeo o (q.loop o) p).length ≤ 2
  rw [filter_split (fun q => bruteContains exactGeo o (q.loop o) p) (fun q => q.around p) cells]
  have k1 : ((cells.filter fun q => q.around p).filter
      fun q => bruteContains exactGeo o (q.loop o) p).length ≤ 1 := by
    refine filter_length_le_one' _ _ _ (hpw.sublist List.filter_sublist) ?_
    intro q hq q' hq' hs i1 i2
    rw [List.mem_filter] at hq hq'
    have ar := hq.2
    have ar' := hq'.2
    simp only [Q4.around, List.any_eq_true] at ar ar'
    obtain ⟨x, mx, e⟩ := ar
    obtain ⟨x', mx', e'⟩ := ar'
    obtain ⟨a, c, ht⟩ := corner_of_vert mx
    obtain ⟨a', c', ht'⟩ := corner_of_vert mx'
    obtain ⟨g1, ma, mc, hcv⟩ := corner_contains_exact ho hp (hd q hq.1) ht e
    obtain ⟨g1', ma', mc', hcv'⟩ := corner_contains_exact ho hp (hd q' hq'.1) ht' e'
    rw [g1] at i1
    rw [g1'] at i2
    exact wedges_disjoint_exact hp (hd q hq.1) (hd q' hq'.1) hs ma mx mc ma' mx' mc' e e' hcv hcv' ⟨i1, i2⟩
  have k2 : ((cells.filter fun q => !q.around p).filter
      fun q => bruteContains exactGeo o (q.loop o) p).length ≤ 1 := by
    have hdom : FamilyDom o (cells.filter fun q => !q.around p) p := by
      refine ⟨ho, hp, hop, fun q hq => ?_⟩
      rw [List.mem_filter] at hq
      have hv := hd q hq.1
      refine ⟨hv.1, (hv.2 q.v1 (by simp [Q4.verts])).2.1, fun x hx => ?_⟩
      have := hq.2
      simp only [Q4.around, Bool.not_eq_true', List.any_eq_false] at this
      cases h : V3.feq x p with
      | false => rfl
      | true => exact absurd h (this x hx)
    have hl := containCount_cells_exact hdom
    unfold containCount at hl
    rw [List.filter_map, List.length_map] at hl
    rw [show (fun q : Q4 => bruteContains exactGeo o (q.loop o) p) =
      ((fun L => bruteContains exactGeo o L p) ∘ Q4.loop o) from rfl, hl]
    refine filter_length_le_one' _ _ _ (hpw.sublist List.filter_sublist) ?_
    intro q hq q' hq' hs i1 i2
    exact edgeSep_disjoint_exact (hdom.2.2.2 q hq).1 (hdom.2.2.2 q' hq').1 hp.1 hs (hdom.2.2.2 q hq).2.2
      (hdom.2.2.2 q' hq').2.2 ⟨i1, i2⟩
  omega

/-- **EXACTLY one cell contains p, everywhere**: convex, pairwise edge-separated cell loops whose directed edges
    cancel up to `==` and whose reference point is in an odd number of them — every point of the input class
    (`PtOK`, `VDom`: in particular the shared vertices of the family, as any of their ±0 twins with `==` reference
    direction) is in exactly one cell loop. -/
theorem cells_exactly_once_at_vertex_exact {o p : V3} {cells : List Q4} (ho : PtOK o) (hp : PtOK p)
    (hop : Compat o p) (hd : ∀ q ∈ cells, VDom o q p) (hsep : edgeSepAll cells = true)
    (hc : EdgesCancelEq exactGeo (familyEdges (cells.map (Q4.loop o))))
    (hodd : ((cells.map (Q4.loop o)).filter fun L => L.originInside).length % 2 = 1) :
    containCount o (cells.map (Q4.loop o)) p = 1 := by
  have hL := cells_loopIn_exact (o := o) (cells := cells) (fun q hq => (hd q hq).1)
  have hpar := tiling_parity_eq_exact ho.1 hp.1 ho.2.1 hp.2.1 hL hc
  have hle := cells_count_le_two_exact ho hp hop hd hsep
  omega

/-- the instance scheme, everywhere: all hypotheses on the family are decidable certificates; on `p`: `PtOK`, and
    against every vertex bit pattern `x` of the family `Compat x p` and `s2Ortho p` not `==` x. -/
theorem cells_exactly_once_anywhere_of_certificate {o p : V3} {cells : List Q4} {pool : List V3}
    (ho : PtOK o) (hok : ∀ q ∈ cells, q.OK) (hpool : vertsIn pool cells = true)
    (hpv : ∀ x ∈ pool, PtOK x ∧ Compat o x)
    (hsep : edgeSepAll cells = true) (hc : PairOK (familyEdges (cells.map (Q4.loop o))))
    (hone : ((cells.map (Q4.loop o)).filter fun L => L.originInside).length = 1)
    (hp : PtOK p) (hpp : ∀ x ∈ pool, Compat x p ∧ V3.feq (s2Ortho p) x = false) :
    containCount o (cells.map (Q4.loop o)) p = 1 := by
  cases hop : V3.feq o p with
  | false =>
    refine cells_exactly_once_at_vertex_exact ho hp (Or.inl hop) (fun q hq => ⟨hok q hq, fun v hv => ?_⟩) hsep
      ⟨_, _, hc.1, hc.2.1, hc.2.2⟩ (by rw [hone])
    simp only [vertsIn, List.all_eq_true, List.any_eq_true, decide_eq_true_eq] at hpool
    obtain ⟨y, hy, rfl⟩ := hpool q hq v hv
    exact ⟨(hpv y hy).1, (hpv y hy).2, (hpp y hy).1, (hpp y hy).2⟩
  | true =>
    rw [← hone]
    unfold containCount
    congr 1
    apply List.filter_congr
    intro L _
    unfold bruteContains
    rw [crossParity_degenerate exactGeo o p _ hop]
    simp

/-! ## 5. non-vacuity: the four level-3 cells `kq0..kq3` around their common vertex `cC` -/

/-- the input class at the shared vertex `cC` itself -/
example : PtOK cC ∧ Compat originPoint cC ∧ ∀ q ∈ [kq0, kq1, kq2, kq3], VDom originPoint q cC := by
  decide +kernel

/-- the wedge form of the vertex rule, the wedges of the diagonal neighbours `kq0`, `kq2`, and the count -/
example : bruteContains exactGeo originPoint (kq0.loop originPoint) cC = wedgeB cC cM01 cM30 :=
  (corner_contains_exact (q := kq0) (a := cM01) (x := cC) (c := cM30) (by decide +kernel) (by decide +kernel)
    (by decide +kernel) (by simp [Q4.corners, kq0]) (by decide +kernel)).1

example : ¬ (wedgeB cC cM01 cM30 = true ∧ wedgeB cC cM23 cM12 = true) :=
  wedges_disjoint_exact (o := originPoint) (q := kq0) (q' := kq2) (x := cC) (x' := cC) (by decide +kernel)
    (by decide +kernel) (by decide +kernel) (by decide +kernel) (by simp [Q4.verts, kq0]) (by simp [Q4.verts, kq0])
    (by simp [Q4.verts, kq0]) (by simp [Q4.verts, kq2]) (by simp [Q4.verts, kq2]) (by simp [Q4.verts, kq2])
    (by decide +kernel) (by decide +kernel) (by decide +kernel) (by decide +kernel)

example : containCount originPoint ([kq0, kq1, kq2, kq3].map (Q4.loop originPoint)) cC ≤ 2 :=
  cells_count_le_two_exact (by decide +kernel) (by decide +kernel) (by decide +kernel) (by decide +kernel)
    (by decide +kernel)

end S2Proofs.C04
