/-
  C01 (neighbours, complete soundness).  The three statements left open in `C01_Neighbors.lean` hold for EVERY valid cell —
  cells on a face boundary and at the eight cube corners included — because `cellIDFromFaceIJSame` / `cellIDFromFaceIJWrap`
  return a valid leaf for all arguments (same face iff both coordinates are in range; soft-float wrap proved in
  `S2Proofs/WrapFloat.lean`, `WrapIJ.lean`, the 24 corner cases by kernel evaluation in `WrapAll.lean`):
  * `vertexNeighbors_correct : VertexNeighborsCorrect`
  * `allNeighbors_correct    : AllNeighborsCorrect`
  (`edgeNeighbors_correct : EdgeNeighborsCorrect` is in `C01_Wrap.lean`.)
  * `allNeighbors_interior_iff` — COMPLETENESS for interior cells (the square of the cell does not touch the face boundary):
    a valid level-`lvl` cell is reported by `allNeighbors id lvl` IFF it does not intersect `id` and its exact cube box
    meets the cube box of `id` ("touches"; vertices count).
  * `allNeighbors_all_cells` — for EVERY valid cell (face boundary, cube corner): each reported cell is valid, of the
    requested level, does not intersect the cell AND touches it (exact cube boxes meet; cross-face results by
    "folding over a cube edge preserves contact", `S2Proofs/FoldTouch.lean`; the 24 corner wraps by kernel evaluation);
  * `vertexNeighbors_common_vertex` — for every valid cell and `lvl < level id` all reported cells contain one common
    cube point: the vertex of the level-`lvl` ancestor's square that lies in the half (in i and in j) in which the cell
    lies — the "closest vertex" of Go's doc comment.  (A vertex neighbour need NOT touch the cell itself when the cell
    is not at that corner of its ancestor; "touches" in the property text can only mean this.)
  Completeness of `allNeighbors` for ALL cells (face boundary, cube corner): `C01_NeighborsComplete.lean`
  (`allNeighbors_complete`), together with the length of the list and exactly when it contains duplicates.
-/
import S2Proofs.NbrAll
import S2Proofs.NbrComplete
import S2Proofs.NbrTouch
import S2Proofs.VertexNbr
import S2Proofs.Properties.C01_Neighbors
open S2 S2.CellID S2.Hilbert S2.STUV
open S2Proofs.C01W
namespace S2Proofs.C01

/-- `cellIDFromFaceIJWrap` returns a valid leaf for ALL integer arguments (any face, any i, j, both may be out of
    range); it is the leaf (f,i,j) when both are in range and a leaf of another face otherwise -/
theorem cellIDFromFaceIJWrap_total (f : Nat) (hf : f < 6) (i j : Int) :
    isValid (cellIDFromFaceIJWrap f i j) = true ∧ level (cellIDFromFaceIJWrap f i j) = 30 ∧
    ((0 ≤ i ∧ i < 1073741824 ∧ 0 ≤ j ∧ j < 1073741824) →
        cellIDFromFaceIJWrap f i j = cellIDFromFaceIJ f i.toNat j.toNat) ∧
    (¬ (0 ≤ i ∧ i < 1073741824 ∧ 0 ≤ j ∧ j < 1073741824) → face (cellIDFromFaceIJWrap f i j) ≠ f) := by
  obtain ⟨c, a, b⟩ := wrap_leaf (rfl : 30 = 30) f hf i j
  refine ⟨(isValid_iff _).mpr ⟨30, c⟩, c.level_eq, ?_, ?_⟩
  · rintro ⟨h1, h2, h3, h4⟩; exact a ⟨⟨h1, h2⟩, ⟨h3, h4⟩⟩
  · intro hn; apply b; rintro ⟨⟨h1, h2⟩, ⟨h3, h4⟩⟩; exact hn ⟨h1, h2, h3, h4⟩
example : (2:Nat) < 6 ∧ ¬ ((0:Int) ≤ -7 ∧ (-7:Int) < 1073741824 ∧ (0:Int) ≤ 2000000000 ∧ (2000000000:Int) < 1073741824) := by
  decide

/-- `VertexNeighborsCorrect` (stated in `C01_Neighbors.lean`): for every valid cell and every `lvl < level id` each
    reported cell is valid, of level `lvl`, and either the cell's own ancestor or disjoint from the cell -/
theorem vertexNeighbors_correct : VertexNeighborsCorrect := by
  intro id hv lvl hl n hn
  have h := isCell_of_valid hv
  have c := vertexNeighbors_cells (rfl : 30 = 30) id (level id) h lvl hl n hn
  have hvn : isValid n = true := (isValid_iff n).mpr ⟨lvl, c⟩
  refine ⟨hvn, c.level_eq, ?_⟩
  by_cases he : n = parent id lvl
  · exact Or.inl he
  · right
    obtain ⟨x1, x2⟩ := not_ancestor_disjoint c h hl he
    rw [Bool.eq_false_iff]; intro hint
    rcases (intersects_iff_contains n id hvn hv).mp hint with hc | hc
    · rw [x1] at hc; cases hc
    · rw [x2] at hc; cases hc
/-- non-vacuity: the corner leaf 0x…01 of face 0 with lvl = 29 (both same-face flags false), a boundary cell -/
example : isValid (0x0000000000000001 : CellID) = true ∧ 29 < level (0x0000000000000001 : CellID) := by decide

/-- `AllNeighborsCorrect` (stated in `C01_Neighbors.lean`): for every valid cell and every `level id ≤ lvl ≤ 30` each
    reported cell is valid, of level `lvl` and does not intersect the cell -/
theorem allNeighbors_correct : AllNeighborsCorrect := by
  intro id hv lvl h1 h2 n hn
  have h := isCell_of_valid hv
  obtain ⟨c, x1, x2⟩ := allNeighbors_all (rfl : 30 = 30) id (level id) h lvl h1 h2 n hn
  have hvn : isValid n = true := (isValid_iff n).mpr ⟨lvl, c⟩
  refine ⟨hvn, c.level_eq, ?_⟩
  rw [Bool.eq_false_iff]; intro hint
  rcases (intersects_iff_contains n id hvn hv).mp hint with hc | hc
  · rw [x2] at hc; cases hc
  · rw [x1] at hc; cases hc
/-- non-vacuity: the corner leaf of face 0 (its diagonal neighbour request has BOTH coordinates out of range) and a
    whole face at level 2 -/
example : isValid (0x0000000000000001 : CellID) = true ∧ level (0x0000000000000001 : CellID) ≤ 30 ∧
    isValid (0x7000000000000000 : CellID) = true ∧ level (0x7000000000000000 : CellID) ≤ 2 := by decide

/-- every cell reported by `allNeighbors`, for EVERY valid cell and every `level id ≤ lvl ≤ 30`: valid, of level `lvl`,
    not intersecting the cell, and touching it (the exact cube boxes have a common point) -/
theorem allNeighbors_all_cells (id : CellID) (hv : isValid id = true) (lvl : Nat) (h1 : level id ≤ lvl) (h2 : lvl ≤ 30)
    (n : CellID) (hn : n ∈ allNeighbors id lvl) :
    isValid n = true ∧ level n = lvl ∧ intersects n id = false ∧ boxMeet (cubeBox id) (cubeBox n) ≠ none := by
  obtain ⟨a, b, c⟩ := allNeighbors_correct id hv lvl h1 h2 n hn
  exact ⟨a, b, c, allNeighbors_touch_all (rfl : 30 = 30) id (level id) (isCell_of_valid hv) lvl h1 h2 n hn⟩
/-- non-vacuity: the first leaf of face 0 — a cube corner: one of its `allNeighbors` requests has both coordinates
    out of range — with lvl = 30, and the face cell 3 with lvl = 1 (all of its neighbours are on other faces) -/
example : isValid (0x0000000000000001 : CellID) = true ∧ level (0x0000000000000001 : CellID) ≤ 30 ∧
    isValid (0x7000000000000000 : CellID) = true ∧ level (0x7000000000000000 : CellID) ≤ 1 := by decide

/-- the cells of `vertexNeighbors id lvl` (lvl < level id) share a vertex: every reported cell contains the cube point
    with face coordinates (`gridPt (vtx i lvl)`, `gridPt (vtx j lvl)`), where (i,j) = `faceIJOrientation id`, and
    `vtx x lvl = x / 2^(30−lvl) + [bit (29−lvl) of x]` is the grid line of the ancestor's square on the side where
    the cell lies.  Holds on face boundaries and at cube corners (then only three cells are reported). -/
theorem vertexNeighbors_common_vertex (id : CellID) (hv : isValid id = true) (lvl : Nat) (hl : lvl < level id)
    (n : CellID) (hn : n ∈ vertexNeighbors id lvl) :
    boxMeet (faceBox (face id)
        (gridPt (vtx (faceIJOrientation id).2.1 lvl) (2^(30-lvl)), gridPt (vtx (faceIJOrientation id).2.1 lvl) (2^(30-lvl)))
        (gridPt (vtx (faceIJOrientation id).2.2.1 lvl) (2^(30-lvl)), gridPt (vtx (faceIJOrientation id).2.2.1 lvl) (2^(30-lvl))))
      (cubeBox n) ≠ none :=
  vertexNeighbors_vertex (rfl : 30 = 30) id (level id) (isCell_of_valid hv) lvl hl n hn
example : isValid (0x0000000000000001 : CellID) = true ∧ 29 < level (0x0000000000000001 : CellID) := by decide

/-- **COMPLETENESS of `allNeighbors` for interior cells.**  For a valid cell whose square does not touch the face boundary
    and every level `level id ≤ lvl ≤ 30`: a valid cell `n` of level `lvl` is an element of `allNeighbors id lvl`
    if and only if it does not intersect `id` and touches it (the exact integer cube boxes have a common point). -/
theorem allNeighbors_interior_iff (id : CellID) (hv : isValid id = true) (lvl : Nat)
    (h1 : level id ≤ lvl) (h2 : lvl ≤ 30)
    (hI : 1 ≤ sqI id (level id) ∧ sqI id (level id) + 1 < 2^(level id))
    (hJ : 1 ≤ sqJ id (level id) ∧ sqJ id (level id) + 1 < 2^(level id))
    (n : CellID) (hvn : isValid n = true) (hl : level n = lvl) :
    n ∈ allNeighbors id lvl ↔ (intersects n id = false ∧ boxMeet (cubeBox id) (cubeBox n) ≠ none) := by
  have h := isCell_of_valid hv
  have hn := isCell_of_valid hvn
  rw [hl] at hn
  constructor
  · intro hmem
    exact ⟨(allNeighbors_correct id hv lvl h1 h2 n hmem).2.2,
      allNeighbors_touch (rfl : 30 = 30) id (level id) h lvl h1 h2 hI hJ n hmem⟩
  · rintro ⟨hdis, ht⟩
    apply allNeighbors_complete (rfl : 30 = 30) id (level id) h lvl h1 h2 hI hJ n hn _ ht
    cases hc : contains id n
    · rfl
    · have := (intersects_iff_contains n id hvn hv).mpr (Or.inr hc)
      rw [this] at hdis; cases hdis
/-- non-vacuity (two steps, as in `C01_Neighbors.lean`): a valid leaf with (i,j) = (5,7) on face 2 is interior -/
example : ∃ (c : CellID) (o : Nat), isValid c = true ∧ faceIJOrientation c = (2, 5, 7, o) ∧ level c = 30 := by
  obtain ⟨o, _, e⟩ := faceIJOrientation_cellIDFromFaceIJ 2 5 7 (by decide) (by decide) (by decide)
  obtain ⟨v1, _, v3, _⟩ := cellIDFromFaceIJ_valid_leaf 2 5 7 (by decide) (by decide) (by decide)
  exact ⟨_, o, v1, e, v3⟩
example (c : CellID) (o : Nat) (e : faceIJOrientation c = (2, 5, 7, o)) (v3 : level c = 30) :
    level c ≤ 30 ∧ (1 ≤ sqI c (level c) ∧ sqI c (level c) + 1 < 2^(level c)) ∧
    (1 ≤ sqJ c (level c) ∧ sqJ c (level c) + 1 < 2^(level c)) := by
  unfold sqI sqJ; rw [e, v3]; simp

end S2Proofs.C01
