/-
  C14 (and C13) — the regenerated "freshness before use" obligation for the lazily built ShapeIndex.

  `S2/Generated/FootprintIR.lean` is re-extracted from the Go source of the whole packages s2 and s2/s2intersect
  on every run of `./check` (translator_c14/footprint.go); `S2.Footprint.footprintOK` is the decidable discipline
  (rules R0–R2 in the header of `S2/Footprint.lean`).  The theorems of the first section are evaluated by the
  kernel on the regenerated data: an edit of the Go source that makes a query read the cell data before the
  pending updates are applied (defect D47), that removes the update from an iterator creation path (seeded
  C13_3), or that makes a reader write a field of the shared index (seeded C14_4) makes this file fail to build.

  What this adds to `Properties/C14.lean`: there, `no_race` / `reader_sees_complete` quantify over all
  interleavings of `WellFormed` programs; here the real query code is shown to have the `WellFormed` shape at the
  level of abstraction of that model (section "link": `reader_protocol_shape`).

  Assumptions of the analysis (not proved; see DELIVER / DESIGN):
    * no reflection, no `unsafe` (checked at import level: `forbiddenImports = []`), no cgo, no `go:linkname`;
    * the fields of ShapeIndex are unexported, so only package s2 can touch them (Go visibility);
    * an iterator is used by the goroutine that created it, after its creation (no `go` statement touches the
      footprint: checked by the translator), and Add/Remove/Reset are externally synchronised with all queries
      (the documented contract), so "fresh once" means "fresh for the rest of the query";
    * function values that are called are function literals (attributed to the enclosing function) or listed
      as `fval`; interface calls dispatch to the named types of the two packages (class-hierarchy analysis);
    * the index expression text identifies the index between two events of one function unless (a prefix of) it
      is assigned in between (then the translator emits `rebind`);
    * client code outside the two packages creates iterators through `Iterator()`/`Begin()`/`End()` or
      `NewShapeIndexIterator(x, IteratorBegin)` only (see the finding about `IteratorEnd` in DELIVER.md).
-/
import S2.Footprint
import S2.FootprintLink
import S2.Generated.FootprintIR
import S2Proofs.Properties.C14
namespace S2Proofs.C14Footprint
open S2.Footprint S2.Generated.FootprintIR S2.Protocol S2Proofs.ProtocolInv S2Proofs.C14

/-! ### regenerated obligations -/

/-- THE obligation: the regenerated footprint of the Go packages satisfies the discipline. -/
theorem generated_footprint_ok : footprintOK program = true := by decide +kernel

/-- the fields of ShapeIndex written by the builder (these are the ones whose reads need freshness), the
    field accessed atomically and the mutex — recomputed from the source, not assumed -/
theorem generated_field_classes :
    fieldNames program (mkCtx program).bw = ["cellMap", "cells", "pendingAdditionsPos", "pendingRemovals"] ∧
    fieldNames program (mkCtx program).atomicF = ["status"] ∧
    fieldNames program (mkCtx program).lockF = ["mu"] := by decide +kernel

/-- exactly these functions fail the reader discipline and therefore must (and, by `generated_footprint_ok`,
    do) run only under the mutex, reachable only through `maybeApplyUpdates` -/
theorem generated_builder_only :
    (builderOnly program).map pack =
      ["ShapeIndex.absorbIndexCell", "ShapeIndex.applyUpdatesInternal", "ShapeIndex.isFirstUpdate",
       "ShapeIndex.isShapeBeingRemoved", "ShapeIndex.makeIndexCell", "ShapeIndex.updateEdges"].map pack := by
  decide +kernel

/-- the functions that establish freshness of their index are COMPUTED (least fixed point over the bodies); the
    ones the library relies on are among them, and the only iterator method that starts by establishing freshness
    is `Begin` (so `NewShapeIndexIterator(x, IteratorEnd)` and `NewShapeIndexIterator(x)` need x to be fresh
    already).  (Inclusion, not equality: a new convenience method that calls `Iterator()` is harmless.) -/
theorem generated_establishing :
    (["ShapeIndex.Begin", "ShapeIndex.Build", "ShapeIndex.End", "ShapeIndex.Iterator",
      "ShapeIndex.maybeApplyUpdates", "ShapeIndexIterator.Begin"].map pack).all
        ((namesOf program (ensMask program)).map pack).contains = true ∧
    (namesOf program (ensFirstMask program (ensMask program))).map pack = ["ShapeIndexIterator.Begin"].map pack := by
  decide +kernel

/-- Re-entry hazard (defect D4 of C13): functions reachable from `applyUpdatesInternal` (mutex held) that call
    something that establishes freshness, i.e. would re-enter `maybeApplyUpdates` and self-deadlock.  The two
    source sites are `shrinkToFit` and `updateEdges` (`s.Iterator()`; the other three are their callees); both are
    dynamically dead as long as `applyUpdatesInternal` rebuilds from scratch (`isFirstUpdate()` is then true and
    `disjointFromIndex` is passed as true) — that is tied by the C13 histories, NOT proved here.  A new site
    changes this list and breaks the build. -/
theorem generated_reentry_sites :
    (reentrySites program).map pack =
      ["NewShapeIndexIterator", "ShapeIndex.Iterator", "ShapeIndex.shrinkToFit", "ShapeIndex.updateEdges",
       "ShapeIndexIterator.Begin"].map pack := by decide +kernel


/-! ### link to the proved protocol model (`S2.Protocol`, `Properties/C14.lean`) -/

theorem protoAfter_reads (c : Ctx) (x : Nat) (body : List Item) :
    ∃ r, protoAfter c x body = List.replicate r Instr.readCells := by
  induction body with
  | nil => exact ⟨0, rfl⟩
  | cons it t ih =>
    obtain ⟨r, hr⟩ := ih
    simp only [protoAfter]
    split
    · exact ⟨0, rfl⟩
    · split
      · exact ⟨r + 1, by rw [hr]; rfl⟩
      · exact ⟨r, hr⟩

theorem contains_filter_ne (fresh : List Nat) (x y : Nat) (hx : fresh.contains x = false) :
    (fresh.filter (· != y)).contains x = false := by
  induction fresh with
  | nil => rfl
  | cons a l ih =>
    simp only [List.contains_cons, Bool.or_eq_false_iff] at hx
    simp only [List.filter]
    split
    · simp only [List.contains_cons, Bool.or_eq_false_iff]; exact ⟨hx.1, ih hx.2⟩
    · exact ih hx.2

theorem walk_cons_inv (c : Ctx) (self x : Nat) (it : Item) (t : List Item) (fresh : List Nat) (prev : Option Item)
    (hx : fresh.contains x = false) (hfa : freshAfter c it ≠ some x)
    (hw : walk c false .other self fresh prev (it :: t) = true) :
    needsFresh c x it = false ∧
      ∃ fresh', fresh'.contains x = false ∧ walk c false .other self fresh' (some it) t = true := by
  obtain ⟨cond, ev⟩ := it
  unfold walk at hw
  simp only [Bool.and_eq_true] at hw
  obtain ⟨hok, hrest⟩ := hw
  constructor
  · cases ev with
    | acc fld k y =>
      cases k <;> simp only [needsFresh] <;> try rfl
      by_cases hy : y = x
      · subst hy
        simp only [accOK, hx] at hok
        simp_all
      · simp [hy]
    | create s y =>
      cases s with
      | newIter p =>
        simp only [needsFresh]
        by_cases hy : y = x
        · subst hy
          simp only [siteOK, hx, Bool.false_or] at hok
          cases hl : List.lookup p c.dispatch with
          | none => simp [hl] at hok
          | some m => simp only [hl] at hok ⊢; simp [hok]
        · simp [hy]
      | _ => rfl
    | _ => rfl
  · cases ev with
    | rebind y => exact ⟨_, contains_filter_ne fresh x y hx, hrest⟩
    | _ =>
      simp only at hrest
      split at hrest
      · rename_i y hy
        refine ⟨_, ?_, hrest⟩
        have : y ≠ x := fun h => hfa (h ▸ hy)
        have hx2 : x ∉ fresh := by simpa using hx
        simp only [List.contains_cons, Bool.or_eq_false_iff, beq_eq_false_iff_ne, ne_eq]
        exact ⟨fun h => this h.symm, by simpa using hx2⟩
      · exact ⟨_, hx, hrest⟩

/-- LINK.  A body accepted by the READER discipline (`walk … false .other`), started in a state in which the
    index expression `x` is not known to be fresh, projects for `x` to the empty program (the function does not
    use the cell data of `x` itself) or to `maybeApplyUpdates` followed by reads only — a `query r` of
    `Properties/C14.lean`.  No use precedes the first establishing event. -/
theorem reader_protocol_shape (c : Ctx) (self x : Nat) (body : List Item) (fresh : List Nat) (prev : Option Item)
    (hx : fresh.contains x = false)
    (hw : walk c false .other self fresh prev body = true) :
    proto c x body = [] ∨ ∃ r, proto c x body = query r := by
  induction body generalizing fresh prev with
  | nil => exact Or.inl rfl
  | cons it t ih =>
    simp only [proto]
    by_cases hfa : freshAfter c it = some x
    · right
      obtain ⟨r, hr⟩ := protoAfter_reads c x t
      exact ⟨r, by simp [hfa, hr, query]⟩
    · have hfa' : (freshAfter c it == some x) = false := by simpa using hfa
      rw [hfa']
      simp only [Bool.false_eq_true, if_false]
      obtain ⟨hnf, fresh', hx', hw'⟩ := walk_cons_inv c self x it t fresh prev hx hfa hw
      rw [hnf]
      simp only [Bool.false_eq_true, if_false]
      exact ih fresh' (some it) hx' hw'


/-- hence the projection is a `WellFormed` protocol program (or empty) … -/
theorem reader_wellFormed (c : Ctx) (self x : Nat) (body : List Item) (fresh : List Nat) (prev : Option Item)
    (hx : fresh.contains x = false) (hw : walk c false .other self fresh prev body = true) :
    proto c x body = [] ∨ WellFormed (proto c x body) = true := by
  rcases reader_protocol_shape c self x body fresh prev hx hw with h | ⟨r, h⟩
  · exact Or.inl h
  · exact Or.inr (h ▸ query_wellFormed r)

/-- … so the theorems of `Properties/C14.lean` apply to it: for EVERY number N of goroutines that run the checked
    function concurrently on a shared index (built or not yet built), in NO reachable state does one goroutine
    write the cell data while another accesses it, and every read of the cell data has seen the complete index. -/
theorem reader_no_race (c : Ctx) (self x : Nat) (body : List Item) (fresh : List Nat) (prev : Option Item)
    (hx : fresh.contains x = false) (hw : walk c false .other self fresh prev body = true)
    (hne : proto c x body ≠ [])
    (N : Nat) (p0 : Bool) (cfg : Cfg) (hr : Reach N (init (proto c x body) p0) cfg) :
    ¬ Race N cfg ∧ ∀ i, (cfg.th i).readsOK = true := by
  rcases reader_wellFormed c self x body fresh prev hx hw with h | h
  · exact absurd h hne
  · exact ⟨no_race N _ h p0 cfg hr, fun i => all_reads_complete N _ h p0 cfg hr i⟩

/-- the instance for the regenerated program: every function of the packages s2 / s2intersect other than the
    iterator methods, the mutators and the builder that passes the reader discipline — by
    `generated_footprint_ok` every such function that is not builder-only does — has, for each of its index
    expressions, the shape `maybeApplyUpdates; reads` -/
theorem generated_readers_protocol_shape (f : Func) (_hf : f ∈ program.funcs) (hrole : f.role = .other)
    (hok : bodyOK (mkCtx program) false f = true) (x : Nat) :
    proto (mkCtx program) x f.body = [] ∨ ∃ r, proto (mkCtx program) x f.body = query r := by
  unfold bodyOK at hok
  rw [hrole] at hok
  exact reader_protocol_shape (mkCtx program) f.self x f.body [] none rfl hok

/-- non-vacuity on hand-written data: `x.Iterator()` (function 1 establishes), then a conditional read of field 4
    (builder-written) through x: accepted, and the projection is `query 1` -/
def demoCtx : Ctx := { ens := 0b11, ensFirst := 0, bw := bit 4, atomicF := bit 5, lockF := bit 6, dispatch := [] }
def demoBody : List Item := [⟨false, .call 1 1⟩, ⟨false, .create .idxIterator 1⟩, ⟨true, .acc 4 .read 1⟩]
example : walk demoCtx false .other 0 [] none demoBody = true ∧ proto demoCtx 1 demoBody = query 1 := by decide
/-- … and the D47 shape (an unpositioned iterator on an index nothing has made fresh) and a plain early read are
    rejected -/
example : walk demoCtx false .other 0 [] none [⟨true, .create (.newIter .unpositioned) 1⟩] = false ∧
    walk demoCtx false .other 0 [] none [⟨false, .acc 4 .read 1⟩, ⟨false, .call 1 1⟩] = false := by decide
/-- non-vacuity on the regenerated data: some reader function has a non-empty projection with at least one use
    after the protocol (e.g. `EdgeQuery.initCovering`: the `IteratorEnd` site after the `IteratorBegin` site) -/
example : program.funcs.any (fun f => f.role == .other && bodyOK (mkCtx program) false f &&
    (proto (mkCtx program) 1 f.body).length > S2.Generated.ProtocolIR.maybeApplyUpdates.length) = true := by
  decide +kernel

/-! ### why later rounds of `maybeApplyUpdates` may be dropped (abstraction A1 of `S2.FootprintLink`) -/

/-- In the protocol model, for every N, every well-formed program and every interleaving: a goroutine that has
    stored `fresh` or has left the protocol (phase `stored` / `post`) sees `status = fresh` from then on — the
    status is never taken away from `fresh` by a query.  A further call of `maybeApplyUpdates` by that goroutine
    is therefore one atomic load that finds `fresh` and skips the block. -/
theorem post_sees_fresh (N : Nat) (p : Prog) (hwf : WellFormed p = true) (p0 : Bool) (c : Cfg)
    (hr : Reach N (init p p0) c) (i : Nat) (hph : (c.th i).ph = .stored ∨ (c.th i).ph = .post) :
    c.sh.status = .fresh := by
  induction hr generalizing i with
  | refl => simp [init] at hph
  | @step c c' hr' hs ih =>
    obtain ⟨j, hj, hs⟩ := hs
    have hinv := reach_inv hwf hr'
    have hsh := hinv.shape j
    rcases hk : (c.th j).k with _ | ⟨ins, rest⟩
    · simp [stepThread, hk] at hs
    · rw [hk] at hsh
      by_cases hij : i = j
      · subst hij
        cases ins <;> simp only [stepThread, hk, adv] at hs <;> (repeat' split at hs) <;>
          (first
            | (injection hs with hs; subst hs
               have ihi := ih i
               cases hph' : (c.th i).ph <;>
                 simp_all [upd, nextPhase, shapeOK, Start, Entered, Locked0, Locked1, Stored, Post] <;>
                 (rename_i v; cases v <;> simp_all [Locked1]))
            | (exact absurd hs (by simp)))
      · have hsame : c'.th i = c.th i := (step_decreases j c c' hs).2 i hij
        rw [hsame] at hph
        have hfr := ih i hph
        cases ins <;> simp only [stepThread, hk, adv] at hs <;> (repeat' split at hs) <;>
          (first
            | (injection hs with hs; subst hs
               cases hph' : (c.th j).ph <;>
                 simp_all [shapeOK, Start, Entered, Locked0, Locked1, Stored, Post] <;>
                 (rename_i v; cases v <;> simp_all [Locked1]))
            | (exact absurd hs (by simp)))

/-- non-vacuity: in the alternating two-goroutine run on a stale index both goroutines end in phase `post` -/
example :
    let c := runSched ((List.replicate 40 [0, 1]).flatten) (init (query 1) true)
    (c.th 0).ph = .post ∧ (c.th 1).ph = .post ∧ c.sh.status = .fresh := by decide

end S2Proofs.C14Footprint
