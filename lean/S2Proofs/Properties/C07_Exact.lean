/-
  Property C07, deepening: the hypothesis structure `SgLaws` of `S2Proofs.C07.Wedge` DISCHARGED for the
  concrete exact geometry `S2.Relate.geoExact` (every origin, every table of reference directions), and the
  conditional theorems of `Properties/C07.lean` restated as unconditional corollaries for it.

  `geoExact` works on exact integer vectors `IV3` (float64 coordinates scaled by 2^1074); its sign
  `sgExact` is a re-implementation (determinant sign first, `Pred.exactDecisionI` only when the determinant
  vanishes).  `sgExact_eq_exactDecisionI` proves it EQUAL to `Pred.exactDecisionI` on all inputs, and
  `sgExact_ofV3` ties it to the float-level `Pred.exactDecision` on finite float vectors.
  Input domain: ALL of `IV3` — no finiteness question arises (the conversion `ofV3` is outside `geoExact`),
  and no ±0 condition (`ofV3` maps +0 and -0 to the same integer; equality in `S2.Relate` is equality of
  `IV3` values, which is Go's `==` on the finite floats they come from: `F64Order.v3feq_iff`).

  Also discharged: the hypothesis `ComplementHyps.inv` (point-in-loop inversion) of the two complement laws,
  now a theorem for every geometry with `SgLaws` (`S2Proofs.C07.InvertPoint`).
  What remains hypothesis of the complement laws: only the Jordan-type "same side" facts
  (`B.containsPoint (A.invert.vertex 0) = B.containsPoint (A.vertex 0)`), consulted only when the two
  boundaries neither cross nor share a vertex.  `SimpleLoop` stays a hypothesis of reflexivity (it is a
  property of the input loop, checked by evaluation in the examples).
-/
import S2Proofs.Properties.C07
import S2Proofs.C07.InvertPoint
import S2Proofs.ExactSignLaws
namespace S2Proofs.C07
open S2 S2.Exact S2.Pred S2.Relate S2Proofs.ExactLaws S2Proofs.F64Order

/-! ## 1. the sign of `geoExact` is the library's exact decision -/

/-- C07's own exact sign (determinant first) equals `Pred.exactDecisionI` for ALL integer vectors. -/
theorem sgExact_eq_exactDecisionI (a b c : IV3) : sgExact a b c = exactDecisionI a b c := by
  unfold sgExact
  simp only []
  split
  · rename_i h; exact (EI_eq_one_of_det_pos a b c h).symm
  · split
    · rename_i h; exact (EI_eq_neg_one_of_det_neg a b c h).symm
    · rfl

example : sgExact ⟨1, 0, 0⟩ ⟨0, 1, 0⟩ ⟨0, 0, 1⟩ = 1 ∧ sgExact ⟨1, 0, 0⟩ ⟨1, 1, 0⟩ ⟨0, 1, 0⟩ = 1 ∧
    det3 ⟨1, 0, 0⟩ ⟨1, 1, 0⟩ ⟨0, 1, 0⟩ = 0 := by decide +kernel

/-- … and, on finite float vectors, the float-level exact + symbolic layer of `RobustSign`. -/
theorem sgExact_ofV3 {a b c : V3} (ha : Fin3 a) (hb : Fin3 b) (hc : Fin3 c) :
    sgExact (ofV3 a) (ofV3 b) (ofV3 c) = exactDecision a b c := by
  rw [sgExact_eq_exactDecisionI, E_eq ha hb hc]

example : Fin3 eX ∧ Fin3 eY ∧ Fin3 eXYu ∧ sgExact (ofV3 eX) (ofV3 eY) (ofV3 eXYu) = 1 := by decide +kernel

/-- **`SgLaws` holds for `geoExact`**, for every origin and every table of reference directions. -/
theorem sgLaws_geoExact (origin : IV3) (refs : List (IV3 × IV3)) : SgLaws (geoExact origin refs) where
  range a b c := by
    show sgExact a b c = -1 ∨ sgExact a b c = 0 ∨ sgExact a b c = 1
    rw [sgExact_eq_exactDecisionI]; exact EI_range a b c
  rot a b c := by
    show sgExact b c a = sgExact a b c
    rw [sgExact_eq_exactDecisionI, sgExact_eq_exactDecisionI]; exact EI_rot a b c
  swap a b c := by
    show sgExact c b a = -sgExact a b c
    rw [sgExact_eq_exactDecisionI, sgExact_eq_exactDecisionI]; exact EI_swap13 a b c
  zero_iff a b c := by
    show sgExact a b c = 0 ↔ _
    rw [sgExact_eq_exactDecisionI, EI_zero_iff]
    constructor <;> (rintro (h | h | h) <;> simp [h])

/-! ## 2. concrete exact loops for the non-vacuity examples -/

/-- an exact geometry: origin near the north pole (like `OriginPoint()`), reference directions of the
    vertices used below -/
def gE : Geo IV3 :=
  geoExact ⟨-3, 1, 300⟩
    [(⟨1, 0, 0⟩, ⟨0, -1000, 5⟩), (⟨0, 1, 0⟩, ⟨1000, 0, -12⟩), (⟨0, 0, 1⟩, ⟨-5, 12, 0⟩), (⟨1, 1, 0⟩, ⟨700, -700, 5⟩)]

example : SgLaws gE := sgLaws_geoExact _ _

/-- the octant triangle -/
def triE : Loop IV3 := Loop.init gE #[⟨1, 0, 0⟩, ⟨0, 1, 0⟩, ⟨0, 0, 1⟩]
/-- the same with an exactly collinear vertex (1,1,0) inserted on the edge from (1,0,0) to (0,1,0) -/
def quadE : Loop IV3 := Loop.init gE #[⟨1, 0, 0⟩, ⟨1, 1, 0⟩, ⟨0, 1, 0⟩, ⟨0, 0, 1⟩]
/-- a small triangle strictly inside the octant -/
def innerE : Loop IV3 := Loop.init gE #[⟨4, 1, 1⟩, ⟨1, 4, 1⟩, ⟨1, 1, 4⟩]
/-- a triangle in the opposite octant -/
def farE : Loop IV3 := Loop.init gE #[⟨-1, 0, 0⟩, ⟨0, 0, -1⟩, ⟨0, -1, 0⟩]

private theorem simpleLoop_triE : SimpleLoop gE triE := by
  refine ⟨by decide +kernel, ?_, by decide +kernel⟩
  have : ∀ i, i < 3 → ∀ j, j < 3 → triE.vertex gE i = triE.vertex gE j → i = j := by decide +kernel
  exact fun i j hi hj => this i hi j hj

private theorem simpleLoop_quadE : SimpleLoop gE quadE := by
  refine ⟨by decide +kernel, ?_, by decide +kernel⟩
  have : ∀ i, i < 4 → ∀ j, j < 4 → quadE.vertex gE i = quadE.vertex gE j → i = j := by decide +kernel
  exact fun i j hi hj => this i hi j hj

/-- the relations take both truth values on the exact geometry -/
example : contains gE triE innerE = true ∧ contains gE innerE triE = false ∧
    intersects gE triE innerE = true ∧ intersects gE triE farE = false ∧
    triE.containsPoint gE ⟨1, 1, 1⟩ = true ∧ triE.containsPoint gE ⟨-1, -1, -1⟩ = false := by decide +kernel

/-! ## 3. wedges -/

/-- every wedge of exact points contains itself and (three distinct points) intersects itself — also when
    the three points are exactly collinear (the symbolic perturbation decides) -/
theorem wedge_reflexive_exact (origin : IV3) (refs : List (IV3 × IV3)) (a0 o a2 : IV3)
    (h0 : a0 ≠ o) (h2 : a2 ≠ o) (h02 : a0 ≠ a2) :
    wedgeContains (geoExact origin refs) a0 o a2 a0 a2 = true ∧
    wedgeIntersects (geoExact origin refs) a0 o a2 a0 a2 = true :=
  wedge_reflexive _ (sgLaws_geoExact origin refs) a0 o a2 h0 h2 h02

/-- the collinear wedge at the inserted vertex (1,1,0) -/
example : wedgeContains gE ⟨1, 0, 0⟩ ⟨1, 1, 0⟩ ⟨0, 1, 0⟩ ⟨1, 0, 0⟩ ⟨0, 1, 0⟩ = true ∧
    wedgeIntersects gE ⟨1, 0, 0⟩ ⟨1, 1, 0⟩ ⟨0, 1, 0⟩ ⟨1, 0, 0⟩ ⟨0, 1, 0⟩ = true :=
  wedge_reflexive_exact _ _ _ _ _ (by decide) (by decide) (by decide)

/-! ## 4. loops -/
section loops
variable (origin : IV3) (refs : List (IV3 × IV3))

/-- A simple loop of exact points contains and intersects itself. -/
theorem loop_reflexive_exact (A : Loop IV3) (hA : SimpleLoop (geoExact origin refs) A) :
    contains (geoExact origin refs) A A = true ∧ intersects (geoExact origin refs) A A = true :=
  loop_reflexive (sgLaws_geoExact origin refs) A hA

example : contains gE quadE quadE = true ∧ intersects gE quadE quadE = true :=
  loop_reflexive_exact _ _ quadE simpleLoop_quadE

/-- **Point-in-loop inversion** for EVERY geometry with the sign laws (C07's own brute-force model):
    the inverted loop contains exactly the points the loop does not. -/
theorem loop_containsPoint_invert {α : Type} [DecidableEq α] {G : Geo α} (h : SgLaws G) (A : Loop α)
    (p : α) : A.invert.containsPoint G p = !A.containsPoint G p :=
  containsPoint_invert h A p

example : pent5.invert.containsPoint geo5 3 = !pent5.containsPoint geo5 3 :=
  loop_containsPoint_invert sgLaws_geo5 _ _

/-- … in particular for the exact geometry, at every exact point (vertices and points on edges included) -/
theorem loop_containsPoint_invert_exact (A : Loop IV3) (p : IV3) :
    A.invert.containsPoint (geoExact origin refs) p = !A.containsPoint (geoExact origin refs) p :=
  containsPoint_invert (sgLaws_geoExact origin refs) A p

/-- at a vertex, and at the point (1,1,0) exactly on an edge of the triangle -/
example : triE.invert.containsPoint gE ⟨1, 0, 0⟩ = !triE.containsPoint gE ⟨1, 0, 0⟩ ∧
    triE.invert.containsPoint gE ⟨1, 1, 0⟩ = !triE.containsPoint gE ⟨1, 1, 0⟩ :=
  ⟨loop_containsPoint_invert_exact _ _ _ _, loop_containsPoint_invert_exact _ _ _ _⟩

/-- A intersects B iff the complement of A does not contain B — exact geometry; the only hypothesis left is
    the "same side" fact (first and last vertex of A on the same side of B). -/
theorem loop_intersects_iff_complement_not_contains_exact (A B : Loop IV3)
    (side : B.containsPoint (geoExact origin refs) (A.invert.vertex (geoExact origin refs) 0) =
            B.containsPoint (geoExact origin refs) (A.vertex (geoExact origin refs) 0)) :
    intersects (geoExact origin refs) A B = !contains (geoExact origin refs) A.invert B :=
  loop_intersects_iff_complement_not_contains (sgLaws_geoExact origin refs) A B
    ⟨containsPoint_invert (sgLaws_geoExact origin refs) A _, side⟩

example : intersects gE triE innerE = !contains gE triE.invert innerE ∧
    intersects gE triE farE = !contains gE triE.invert farE :=
  ⟨loop_intersects_iff_complement_not_contains_exact _ _ triE innerE (by decide +kernel),
   loop_intersects_iff_complement_not_contains_exact _ _ triE farE (by decide +kernel)⟩

/-- A contains B iff the complement of B contains the complement of A — exact geometry; the hypotheses left
    are the two "same side" facts. -/
theorem loop_contains_iff_complements_reversed_exact (A B : Loop IV3)
    (sideB : B.containsPoint (geoExact origin refs) (A.invert.vertex (geoExact origin refs) 0) =
             B.containsPoint (geoExact origin refs) (A.vertex (geoExact origin refs) 0))
    (sideA : A.containsPoint (geoExact origin refs) (B.invert.vertex (geoExact origin refs) 0) =
             A.containsPoint (geoExact origin refs) (B.vertex (geoExact origin refs) 0)) :
    contains (geoExact origin refs) A B = contains (geoExact origin refs) B.invert A.invert := by
  apply loop_contains_iff_complements_reversed (sgLaws_geoExact origin refs) A B
  · rw [containsPoint_invert (sgLaws_geoExact origin refs), sideB]
  · rw [containsPoint_invert (sgLaws_geoExact origin refs), sideA]

example : contains gE triE innerE = contains gE innerE.invert triE.invert :=
  loop_contains_iff_complements_reversed_exact _ _ triE innerE (by decide +kernel) (by decide +kernel)

/-- the same two laws for EVERY geometry with the sign laws, with the inversion hypothesis removed -/
theorem loop_complement_laws_sideOnly {α : Type} [DecidableEq α] {G : Geo α} (h : SgLaws G) (A B : Loop α)
    (sideB : B.containsPoint G (A.invert.vertex G 0) = B.containsPoint G (A.vertex G 0))
    (sideA : A.containsPoint G (B.invert.vertex G 0) = A.containsPoint G (B.vertex G 0)) :
    intersects G A B = !contains G A.invert B ∧ contains G A B = contains G B.invert A.invert := by
  refine ⟨loop_intersects_iff_complement_not_contains h A B ⟨containsPoint_invert h A _, sideB⟩, ?_⟩
  apply loop_contains_iff_complements_reversed h A B
  · rw [containsPoint_invert h, sideB]
  · rw [containsPoint_invert h, sideA]

example : intersects geo5 pent5 tri5 = !contains geo5 pent5.invert tri5 ∧
    contains geo5 pent5 tri5 = contains geo5 tri5.invert pent5.invert :=
  loop_complement_laws_sideOnly sgLaws_geo5 pent5 tri5
    (by rw [pent5_invert]; decide) (by rw [tri5_invert]; decide)

end loops

end S2Proofs.C07
