/-
  C15 — Decoding arbitrary bytes is total: an error or a usable value, never a crash.

  What is proved here (all inputs, all guarded programs):
  * `run` (S2.DecoderIR) is a TOTAL Lean function: every decoder IR terminates on every byte string by
    construction of the interpreter; an infinite Go loop is represented by the outcome `hang`.
  * `guarded_run`: for EVERY program `p` with `Bounded p = true` (the interval/dominance half of
    `AllocGuarded`), EVERY input and EVERY memory cap, `run` yields `error` or `value` with at most
    `allocBound p` bytes allocated — never `panic`, never `hang` — or `allocTooLarge`, the latter only if
    the cap is below `allocBound p`.  `allocBound p` is computed by the checker:
        Σ over `make` sites  hi(n)·elemSize · Π hi(counts of the enclosing loops)
      + Σ over `append` sites 8·elemSize · Π hi(enclosing loop counts),
    where hi(n) is the upper limit the dominating guards establish for the count `n`.
    It does not depend on the input (so the `c·|input|` term of the design is 0 here); for NESTED
    decoders (Polygon → Loop) it multiplies the limits.
  * `guarded_total`: with a cap of at least `allocBound p` the outcome is `error` or `value`.
  * `propagated_no_lost_error`: if no callee receives the decoder by value, a returned value never hides
    a decoder error.
  * one obligation per regenerated decoder (`…_guarded`), closed by `decide`.  All eleven decoders are guarded on
    the current tree; the formerly unguarded ones (findings D2, D6, D14, D23, D25) were repaired in /repo and their
    failing byte strings are kept as replay examples in `S2Proofs/C15Examples.lean`.
-/
import S2.DecoderIR
import S2.Generated.DecoderIR
import S2Proofs.DecoderIRSound
namespace S2Proofs.C15
open S2.DecoderIR S2Proofs.DecoderIRSound
open S2.Generated.DecoderIR

/-- Full statement of the model-level property for one decoder program. -/
def TotalAndBounded (p : Stmt) : Prop :=
  ∀ (cfg : Cfg) (input : List UInt8), allocBound p ≤ cfg.memCap →
    ∃ n, n ≤ allocBound p ∧ (run cfg p input = .error n ∨ ∃ l, run cfg p input = .value n l)

/-- Every guarded program, every input, every cap: error / value within the static bound, or
    out-of-memory only when the cap is below the static bound; never panic, never hang. -/
theorem guarded_run (cfg : Cfg) (p : Stmt) (hg : Bounded p = true) (input : List UInt8) :
    match run cfg p input with
    | .error n => n ≤ allocBound p
    | .value n _ => n ≤ allocBound p
    | .panic _ => False
    | .hang => False
    | .allocTooLarge => cfg.memCap < allocBound p := by
  unfold Bounded at hg
  cases hchk : chk Abs.empty p with
  | none => simp [hchk] at hg
  | some r =>
    obtain ⟨a', B⟩ := r
    have hP := chk_sound cfg p Abs.empty a' B (St.init input) hchk (sat_empty _)
    have hB : allocBound p = B := by simp [allocBound, hchk]
    unfold run resultOf
    generalize exec cfg p (St.init input) = o at hP
    cases o with
    | cont s =>
      have := hP.2.2; simp [St.init] at this
      by_cases he : s.err <;> simp [he, hB] <;> exact this
    | retn s =>
      have := hP.2; simp [St.init] at this
      by_cases he : s.err <;> simp [he, hB] <;> exact this
    | panic w => exact hP
    | hang => exact hP
    | allocTooLarge => simp only [Post, St.init] at hP; simp only [hB]; omega

theorem guarded_total (p : Stmt) (hg : Bounded p = true) : TotalAndBounded p := by
  intro cfg input hcap
  have h := guarded_run cfg p hg input
  generalize run cfg p input = r at h
  cases r with
  | error n => exact ⟨n, h, Or.inl rfl⟩
  | value n l => exact ⟨n, h, Or.inr ⟨l, rfl⟩⟩
  | panic w => exact h.elim
  | hang => exact h.elim
  | allocTooLarge => simp only at h; omega

/-- `AllocGuarded` (bounds + error-check discipline) implies the same. -/
theorem allocGuarded_total (p : Stmt) (hg : AllocGuarded p = true) : TotalAndBounded p :=
  guarded_total p (by simp [AllocGuarded] at hg; exact hg.1)

/-- If no callee takes the decoder by value, a value is never returned while a decoder error is set. -/
theorem propagated_no_lost_error (cfg : Cfg) (p : Stmt) (hp : ErrPropagated p = true)
    (input : List UInt8) (n : Nat) (l : Bool) (h : run cfg p input = .value n l) : l = false := by
  have hl := exec_lost cfg p hp (St.init input)
  unfold run resultOf at h
  generalize exec cfg p (St.init input) = o at hl h
  cases o with
  | cont s =>
    simp only at h; split at h
    · cases h
    · simp [LostOK, St.init] at hl; cases h; exact hl
  | retn s =>
    simp only at h; split at h
    · cases h
    · simp [LostOK, St.init] at hl; cases h; exact hl
  | panic w => cases h
  | hang => cases h
  | allocTooLarge => cases h

/-! ## Non-vacuity: a hand-written guarded decoder (count read, error check, two-sided limit, make, loop) -/

def exampleDecoder : Stmt := block [
  .read .i8 0, .failIfErr, .failIf (.bin .ne (.var 0) (.lit 1)),
  .read .i64 1, .failIfErr,
  .failIf (.bin .lor (.bin .lt (.var 1) (.lit 0)) (.bin .gt (.var 1) (.lit 1000000))),
  .alloc 2 (.var 1) 8,
  .loop 3 (.var 2) (.call "CellID.decode" (.read .u64 4)) ]

example : Guarded exampleDecoder = true := by decide +kernel
example : allocBound exampleDecoder = 8000000 := by decide +kernel
example : TotalAndBounded exampleDecoder := guarded_total _ (by decide +kernel)
example : run ⟨2 ^ 35⟩ exampleDecoder [1, 2, 0, 0, 0, 0, 0, 0, 0, 1, 2, 3, 4, 5, 6, 7, 8, 1, 2, 3, 4, 5, 6, 7, 8]
    = .value 16 false := by decide +kernel
example : run ⟨2 ^ 35⟩ exampleDecoder [1, 2, 0, 0, 0, 0, 0, 0, 0, 1, 2, 3] = .error 16 := by decide +kernel
example : run ⟨2 ^ 35⟩ exampleDecoder [1, 255, 255, 255, 255, 255, 255, 255, 255] = .error 0 := by decide +kernel

/-! ## Regenerated-instance obligations (S2.Generated.DecoderIR is rewritten from /repo on every run).
    `Guarded p = AllocGuarded p && ErrPropagated p`.  The memory cap used in the examples is 32 GiB. -/

def cap32G : Cfg := ⟨2 ^ 35⟩

theorem Point_Decode_guarded : Guarded Point_Decode = true := by decide +kernel
theorem Cap_Decode_guarded : Guarded Cap_Decode = true := by decide +kernel
theorem Rect_Decode_guarded : Guarded Rect_Decode = true := by decide +kernel
theorem CellID_Decode_guarded : Guarded CellID_Decode = true := by decide +kernel
theorem Cell_Decode_guarded : Guarded Cell_Decode = true := by decide +kernel
theorem Loop_Decode_guarded : Guarded Loop_Decode = true := by decide +kernel
theorem Polygon_decode_guarded : Guarded Polygon_decode = true := by decide +kernel   -- uncompressed format only

/-- consequences for the guarded decoders: total, error-or-value, allocation ≤ bound. -/
theorem Point_Decode_total : TotalAndBounded Point_Decode := guarded_total _ (by decide +kernel)
theorem Cap_Decode_total : TotalAndBounded Cap_Decode := guarded_total _ (by decide +kernel)
theorem Rect_Decode_total : TotalAndBounded Rect_Decode := guarded_total _ (by decide +kernel)
theorem CellID_Decode_total : TotalAndBounded CellID_Decode := guarded_total _ (by decide +kernel)
theorem Cell_Decode_total : TotalAndBounded Cell_Decode := guarded_total _ (by decide +kernel)
theorem Loop_Decode_total : TotalAndBounded Loop_Decode := guarded_total _ (by decide +kernel)
theorem Loop_Decode_bound : allocBound Loop_Decode = 50000000 * 24 := by decide +kernel

/-! ### Decoders repaired in /repo (fix: commits for D2, D6, D14, D23): the obligations that were false on the
    original tree (negative cell count, decoder passed by value, missing return after the loop-count
    limit, negative off-centre index) now hold; the former failing byte strings return an error. -/

theorem CellUnion_Decode_guarded : Guarded CellUnion_Decode = true := by decide +kernel
theorem Polyline_Decode_guarded : Guarded Polyline_Decode = true := by decide +kernel
theorem Polygon_Decode_guarded : Guarded Polygon_Decode = true := by decide +kernel
theorem Polygon_decodeCompressed_guarded : Guarded Polygon_decodeCompressed = true := by decide +kernel

theorem CellUnion_Decode_total : TotalAndBounded CellUnion_Decode := guarded_total _ (by decide +kernel)
theorem Polyline_Decode_total : TotalAndBounded Polyline_Decode := guarded_total _ (by decide +kernel)
theorem Polygon_Decode_total : TotalAndBounded Polygon_Decode := guarded_total _ (by decide +kernel)
theorem CellUnion_Decode_bound : allocBound CellUnion_Decode = 1000000 * 8 := by decide +kernel

-- Replays of the former failing byte strings through the model (`run … = .error …`) live in
-- `S2Proofs/C15Examples.lean`, so that this file only evaluates the linear-time static checker.

end S2Proofs.C15
