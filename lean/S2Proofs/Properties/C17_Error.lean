/-
  Property C17 — the DOCUMENTED ERROR BOUND of the point-to-edge distance (s2/edge_distances.go:
  updateMinDistance, interiorDist, minUpdateDistanceMaxError, minUpdateInteriorDistanceMaxError;
  s1/chordangle.go: MaxPointError).

  Object: the bit-exact model `S2.EdgeNum.updateMinDistance … alwaysUpdate = true`, i.e. the chord angle inside
  `DistanceFromSegment` (`distanceFromSegmentChord`).  All rounding facts are PROVED for the soft-float (no
  hypothesis about floating point is left): `FloatErr.stdModel`, `F64Round.isRound_div`, `F64Round.sqrt_spec`.

  DOMAIN.  `UnitPt p` : `p` is finite and its exact Euclidean norm is within `δ0 = 2^-52 − 2^-80` of 1
  (`(1−δ0)² ≤ |p|² ≤ (1+δ0)²`).  `EdgeOK a b` : `|2·a×b|² ≥ 2^-68` (edge longer than ≈ 3·10^-11 rad and not within
  ≈ 3·10^-11 rad of antipodal) — needed only by the INTERIOR value.

  EXACT QUANTITIES (closed forms over ℝ, directions X = x/|x| …):
    `dirChord2 x a`   squared chord between the directions of x and a
    `gcDist2 x a b`   squared chord from X to the great circle through A, B
    `trueDist2 x a b` squared chord from X to the ARC  AB  (= gcDist2 in the open wedge, else the nearer endpoint);
                      PROVED to be the minimum over the arc: `trueDist2_le`, `trueDist2_attained`.
    `docInterior b`   the documented `minUpdateInteriorDistanceMaxError` as a real function of b = dist/2
                      (dblEpsilon = 2^-52, √3 exact).

  PROVED (all inputs in the domain; no sampling):
   (1) VERTEX CASE            vertex_case_within_maxPointError , vertex_case_within_maxError
       the returned `ChordAngleFromSquaredLength(min(|x−a|²,|x−b|²))` is finite, ≤ 4, and within
       `MaxPointError(result)` (the FLOAT value computed by the s1 package) — hence within the library's
       `minUpdateDistanceMaxError(result)` — of the true `min(chord²(X,A), chord²(X,B))`.
   (2) INTERIOR CASE          interior_case_within_documented
       the returned `(x·c)²/|c|² + (1−|c×x|/|c|)²` is finite and within `docInterior(true/2)` of the true squared chord
       to the great circle — the documented constants (2.5+2√3, 8.5, 2+2√3/3, 6.5, 23+16/√3) are MET.
       PREFILTER               prefilter_never_rejects_wedge
       the conservative planar test with its slack `4.75·dblEpsilon·(XA²+XB²+AB²) + 8·dblEpsilon²` never rejects a
       point of the open wedge.
   (3) NOT ABOVE THE ENDPOINTS notAboveEndpointDistance   (both branches, no hypothesis on the branch decision)
   (4) one-sided bounds against the true arc distance that hold WHATEVER the branch decision:
       interior_branch_not_above_true , vertex_branch_not_below_true
   (5) the two-sided statement `distanceWithinMaxError_partial` under `WedgeDecisionExact x a b` (the float wedge test
       `(a−x)·(c×x) < 0 ∧ (b−x)·(c×x) > 0` decides the exact wedge), and
   (6) `wedgeDecisionExact_of_margin` : that hypothesis is PROVED whenever both exact test values exceed the rounding
       bound `12u·|p−x|·|C|·|x| + 2^-900` (`WedgeMargin`; decidable sufficient form `WedgeMarginZ`: both exceed 2^-46),
       giving `distanceWithinMaxError_of_margin` with no hypothesis about the code's decisions.
       (The Go source carries the TODO "ensure that the errors in test are accurately reflected in the
       minUpdateInteriorDistanceMaxError"; no error bound of that test is documented.)
   (6') `distanceWithinMaxError_unconditional` : with NO hypothesis beyond the domain,
       `|d − trueDist2| ≤ allowedError + wedgeGap`, where `wedgeGap` = distance between the two candidate answers
       (endpoint chord − great-circle chord) on a side whose margin fails, 0 otherwise (`wedgeGap_of_margin`), and
       `wedgeGapA_le / wedgeGapB_le` : that gap is ≤ `2·(12.1u·|p−x| + 2^-800)²/ρ` (ρ = cos of the latitude of x over the
       edge plane) when x is within 90° of the endpoint p and not at the pole — i.e. ≈ 300u²·dist²/ρ, far below the
       slack of the bound unless ρ ≲ 10^-13.
   (7) FINDING  not_vertexBoundOnNormalizeOutputs : for OUTPUTS OF `Normalize` that are ≈ 2.8·2^-53 too long (inside the
       documented `2·dblEpsilon`, outside `δ0`) the error exceeds `minUpdateDistanceMaxError`; kernel-checked witness.
       `vertex_case_wide` : what holds on the whole documented range: `6.5·dblEpsilon·D + 16.0025·dblEpsilon²`.
  Every hypothesis has a decidable integer form (`UnitPtZ`, `EdgeOKZ`, `InWedgeZ`, `WedgeMarginZ`, `UnitPtWideZ`) and is
  exhibited on concrete points by `decide +kernel` (section "decidable forms").
-/
import S2Proofs.Properties.C17
import S2Proofs.C17Err.Interior
import S2Proofs.C17Err.Prefilter
import S2Proofs.C17Err.Witness
import S2Proofs.C17Err.Wedge
import S2Proofs.C17Err.MaxErrFin
import S2Proofs.C17Err.VertexWide
import S2Proofs.C17Err.Gap

set_option linter.unusedSimpArgs false
set_option linter.unusedVariables false

namespace S2Proofs.C17
open S2 S2.Exact S2.EdgeNum S2Proofs.F64Order S2Proofs.EdgeNumLemmas S2Proofs.FloatErr S2Proofs.C17Err

/-! ## domain, branches -/

/-- finite and within `δ0 = 2^-52 − 2^-80` of unit length -/
def UnitPt (p : V3) : Prop := UnitWithin delta0 p

/-- `true` = `updateMinDistance` took the interior branch -/
def interiorBranch (x a b : V3) : Bool := (interiorDist x a b fz true).2

theorem fval_eq_val (x : F64) : fval x = val x := by
  unfold fval val scale; push_cast; rfl

/-- the interior branch returns the interior value -/
theorem interiorDist_true_val (x a b : V3) (m : F64) (h : (interiorDist x a b m true).2 = true) :
    (interiorDist x a b m true).1 = interiorVal x a b := by
  unfold interiorDist at h ⊢
  simp only [Bool.not_true, Bool.false_and, Bool.false_eq_true, if_false] at h ⊢
  split_ifs at h ⊢ with h1 h2
  all_goals rfl

/-- the chord computed by `DistanceFromSegment`, by branch -/
theorem chord_by_branch (x a b : V3) :
    distanceFromSegmentChord x a b =
      if interiorBranch x a b = true then interiorVal x a b else vertexDist x a b := by
  unfold distanceFromSegmentChord interiorBranch
  by_cases h : (interiorDist x a b fz true).2 = true
  · rw [if_pos h]
    unfold updateMinDistance
    simp only [h, if_true]
    exact interiorDist_true_val x a b fz h
  · rw [if_neg h]
    have h' : (interiorDist x a b fz true).2 = false := by
      cases hh : (interiorDist x a b fz true).2 <;> simp_all
    rw [updateMinDistance_always_vertex x a b fz h']
    rfl

/-! ## (1) the vertex case -/

/-- **VERTEX CASE**: within the float `MaxPointError` of the result. -/
theorem vertex_case_within_maxPointError (x a b : V3) (hx : UnitPt x) (ha : UnitPt a) (hb : UnitPt b)
    (hbr : interiorBranch x a b = false) :
    Fin (distanceFromSegmentChord x a b) ∧ fval (distanceFromSegmentChord x a b) ≤ 4 ∧
    |fval (distanceFromSegmentChord x a b) - min (dirChord2 x a) (dirChord2 x b)|
      ≤ fval (maxPointError (distanceFromSegmentChord x a b)) := by
  rw [chord_by_branch, if_neg (by rw [hbr]; simp), fval_eq_val, fval_eq_val]
  obtain ⟨f, h4, herr, _, hle⟩ := vertexDist_spec delta0_nonneg (le_refl _) hx ha hb
  exact ⟨f, h4, le_trans herr hle⟩


/-- **VERTEX CASE with the library's own function**: within `minUpdateDistanceMaxError(result)`
    (`= max(minUpdateInteriorDistanceMaxError(result), result.MaxPointError())`, every float operation followed). -/
theorem vertex_case_within_maxError (x a b : V3) (hx : UnitPt x) (ha : UnitPt a) (hb : UnitPt b)
    (hbr : interiorBranch x a b = false) :
    Fin (minUpdateDistanceMaxError (distanceFromSegmentChord x a b)) ∧
    |fval (distanceFromSegmentChord x a b) - min (dirChord2 x a) (dirChord2 x b)|
      ≤ fval (minUpdateDistanceMaxError (distanceFromSegmentChord x a b)) := by
  obtain ⟨f, h4, herr⟩ := vertex_case_within_maxPointError x a b hx ha hb hbr
  have h0 : 0 ≤ val (distanceFromSegmentChord x a b) := by
    rw [chord_by_branch, if_neg (by rw [hbr]; simp)]
    obtain ⟨fa, na, _, _, _⟩ := vertex_one delta0_nonneg (le_refl _) hx ha
    obtain ⟨fb, nb, _, _, _⟩ := vertex_one delta0_nonneg (le_refl _) hx hb
    obtain ⟨fm, vm⟩ := val_fmin fa fb
    obtain ⟨_, vc⟩ := val_chordFromLen2 fm
    unfold vertexDist
    rw [vc, vm]
    exact le_min (le_min na nb) (by norm_num)
  rw [fval_eq_val] at h4
  obtain ⟨ff, hge⟩ := maxError_ge_pointError f h0 h4
  refine ⟨ff, ?_⟩
  rw [fval_eq_val (minUpdateDistanceMaxError _)]
  rw [fval_eq_val (maxPointError _)] at herr
  linarith

/-! ## (2) the interior case and the prefilter -/

/-- **INTERIOR CASE**: within the documented `minUpdateInteriorDistanceMaxError` (at the true distance). -/
theorem interior_case_within_documented (x a b : V3) (hx : UnitPt x) (ha : UnitPt a) (hb : UnitPt b)
    (hE : EdgeOK a b) (hbr : interiorBranch x a b = true) :
    Fin (distanceFromSegmentChord x a b) ∧
    |fval (distanceFromSegmentChord x a b) - gcDist2 x a b| ≤ docInterior (gcDist2 x a b / 2) := by
  rw [chord_by_branch, if_pos hbr, fval_eq_val]
  exact interior_value delta0_nonneg (le_refl _) hx ha hb hE

/-- positivity of the exact norms in the domain -/
theorem UnitPt.len_pos {p : V3} (h : UnitPt p) : 0 < len p :=
  (unit_len delta0_nonneg (le_refl _) h).2.1

/-- **PREFILTER**: the planar acute-angle test never rejects a point of the open wedge. -/
theorem prefilter_never_rejects_wedge (x a b : V3) (hx : UnitPt x) (ha : UnitPt a) (hb : UnitPt b)
    (hw : InWedge x a b) : prefilterRejects x a b = false := by
  obtain ⟨h1, h2⟩ := wedge_planar hx.len_pos ha.len_pos hb.len_pos hw
  exact prefilter_pass delta0_nonneg (le_refl _) hx ha hb h1 h2

/-- `prefilterRejects` IS the first test of `interiorDist` -/
theorem interiorDist_prefilter (x a b : V3) (m : F64) (al : Bool) (h : prefilterRejects x a b = true) :
    (interiorDist x a b m al).2 = false := by
  unfold prefilterRejects at h
  unfold interiorDist
  simp only [] at h ⊢
  rw [if_pos h]

/-! ## (3) never above the endpoint distances -/

/-- the error allowed for a result: the documented interior bound (at the true great-circle distance) on the
    interior branch, the float `MaxPointError` of the result on the vertex branch -/
noncomputable def allowedError (x a b : V3) : ℝ :=
  if interiorBranch x a b = true then docInterior (gcDist2 x a b / 2)
  else fval (maxPointError (distanceFromSegmentChord x a b))

/-- the great circle is never farther than an endpoint -/
theorem gcDist2_le_endpoints (x a b : V3) (hx : 0 < len x) (ha : 0 < len a) (hb : 0 < len b)
    (hn : 0 < ((vecR a).cross (vecR b)).len) :
    gcDist2 x a b ≤ min (dirChord2 x a) (dirChord2 x b) := by
  have key : ∀ P : R3, P.n2 = 1 → P.dot ((vecR a).cross (vecR b)) = 0 → gcDist2 x a b ≤ dirChordP x P := by
    intro P hP hPn
    have h := gc_lower (vecR x) ((vecR a).cross (vecR b)) P hP hPn
    unfold gcDist2 dirChordP
    have h2 : (vecR x).dot P / len x
        ≤ (((vecR a).cross (vecR b)).cross (vecR x)).len / (((vecR a).cross (vecR b)).len * len x) := by
      rw [div_le_div_iff₀ hx (mul_pos hn hx)]
      nlinarith
    linarith
  apply le_min
  · rw [dirChord2_eq x a ha]
    obtain ⟨s, t, _, _, hP, hP1⟩ := onArc_left a b ha
    exact key _ hP1 (onArc_perp ⟨s, t, ‹_›, ‹_›, hP, hP1⟩)
  · rw [dirChord2_eq x b hb]
    obtain ⟨s, t, _, _, hP, hP1⟩ := onArc_right a b hb
    exact key _ hP1 (onArc_perp ⟨s, t, ‹_›, ‹_›, hP, hP1⟩)

theorem edgeOK_normal_pos {a b : V3} (hE : EdgeOK a b) : 0 < ((vecR a).cross (vecR b)).len := by
  obtain ⟨c1, c2, c3⟩ := vC_two a b
  have hL1 : (vC a b).len = 2 * ((vecR a).cross (vecR b)).len := len_double c1 c2 c3
  have hpos : 0 < (vC a b).len := by
    unfold R3.len
    apply Real.sqrt_pos.mpr
    unfold EdgeOK at hE
    exact lt_of_lt_of_le (by positivity) hE
  rw [hL1] at hpos
  linarith

/-- **(3) NOT ABOVE THE ENDPOINT DISTANCES** — for every query point and edge of the domain, whatever branch the
    code takes: `dist ≤ min(chord²(X,A), chord²(X,B)) + allowedError`. -/
theorem notAboveEndpointDistance (x a b : V3) (hx : UnitPt x) (ha : UnitPt a) (hb : UnitPt b) (hE : EdgeOK a b) :
    fval (distanceFromSegmentChord x a b) ≤ min (dirChord2 x a) (dirChord2 x b) + allowedError x a b := by
  unfold allowedError
  by_cases hbr : interiorBranch x a b = true
  · rw [if_pos hbr]
    obtain ⟨_, h⟩ := interior_case_within_documented x a b hx ha hb hE hbr
    have h2 := gcDist2_le_endpoints x a b hx.len_pos ha.len_pos hb.len_pos (edgeOK_normal_pos hE)
    have := (abs_le.mp h).2
    linarith
  · rw [if_neg hbr]
    have hbr' : interiorBranch x a b = false := by cases h : interiorBranch x a b <;> simp_all
    obtain ⟨_, _, h⟩ := vertex_case_within_maxPointError x a b hx ha hb hbr'
    have := (abs_le.mp h).2
    linarith

/-! ## (4) one-sided bounds against the true distance to the ARC, for either branch -/

/-- on the interior branch the result never EXCEEDS the true arc distance by more than the documented bound -/
theorem interior_branch_not_above_true (x a b : V3) (hx : UnitPt x) (ha : UnitPt a) (hb : UnitPt b)
    (hE : EdgeOK a b) (hbr : interiorBranch x a b = true) :
    fval (distanceFromSegmentChord x a b) ≤ trueDist2 x a b + docInterior (gcDist2 x a b / 2) := by
  obtain ⟨_, h⟩ := interior_case_within_documented x a b hx ha hb hE hbr
  have h1 := (abs_le.mp h).2
  have h2 : gcDist2 x a b ≤ trueDist2 x a b := by
    unfold trueDist2
    split_ifs
    · exact le_refl _
    · exact gcDist2_le_endpoints x a b hx.len_pos ha.len_pos hb.len_pos (edgeOK_normal_pos hE)
  linarith

/-- on the vertex branch the result never FALLS BELOW the true arc distance by more than `MaxPointError` -/
theorem vertex_branch_not_below_true (x a b : V3) (hx : UnitPt x) (ha : UnitPt a) (hb : UnitPt b)
    (hbr : interiorBranch x a b = false) :
    trueDist2 x a b - fval (maxPointError (distanceFromSegmentChord x a b))
      ≤ fval (distanceFromSegmentChord x a b) := by
  obtain ⟨_, _, h⟩ := vertex_case_within_maxPointError x a b hx ha hb hbr
  have h1 := (abs_le.mp h).1
  have h2 := trueDist2_le_endpoints hx.len_pos ha.len_pos hb.len_pos (x := x) (a := a) (b := b)
  linarith

/-! ## (5) the two-sided statement -/

/-- full statement: the computed chord distance is within the allowed error of the TRUE squared chord distance
    to the arc -/
def DistanceWithinMaxErrorConcrete : Prop :=
  ∀ x a b, UnitPt x → UnitPt a → UnitPt b → EdgeOK a b →
    |fval (distanceFromSegmentChord x a b) - trueDist2 x a b| ≤ allowedError x a b

/-- the hypothesis left: the float wedge test decides the exact wedge (for a point that passed the prefilter) -/
def WedgeDecisionExact (x a b : V3) : Prop :=
  (interiorBranch x a b = true → InWedge x a b) ∧
  (InWedge x a b → prefilterRejects x a b = false → interiorBranch x a b = true)

/-- **partial** (hypothesis `WedgeDecisionExact` left): the documented bound against the true arc distance. -/
theorem distanceWithinMaxError_partial (x a b : V3) (hx : UnitPt x) (ha : UnitPt a) (hb : UnitPt b)
    (hE : EdgeOK a b) (hW : WedgeDecisionExact x a b) :
    |fval (distanceFromSegmentChord x a b) - trueDist2 x a b| ≤ allowedError x a b := by
  unfold allowedError
  by_cases hbr : interiorBranch x a b = true
  · rw [if_pos hbr]
    have hw := hW.1 hbr
    have ht : trueDist2 x a b = gcDist2 x a b := by unfold trueDist2; rw [if_pos hw]
    rw [ht]
    exact (interior_case_within_documented x a b hx ha hb hE hbr).2
  · rw [if_neg hbr]
    have hbr' : interiorBranch x a b = false := by cases h : interiorBranch x a b <;> simp_all
    have hnw : ¬ InWedge x a b := fun hw =>
      hbr (hW.2 hw (prefilter_never_rejects_wedge x a b hx ha hb hw))
    have ht : trueDist2 x a b = min (dirChord2 x a) (dirChord2 x b) := by unfold trueDist2; rw [if_neg hnw]
    rw [ht]
    exact (vertex_case_within_maxPointError x a b hx ha hb hbr').2.2

/-- `trueDist2` is what it claims to be: the minimum of the squared chord over the arc. -/
theorem trueDist2_is_min (x a b : V3) (hx : UnitPt x) (ha : UnitPt a) (hb : UnitPt b) :
    (∀ P, OnArc (vecR a) (vecR b) P → trueDist2 x a b ≤ dirChordP x P) ∧
    (∃ P, OnArc (vecR a) (vecR b) P ∧ dirChordP x P = trueDist2 x a b) :=
  ⟨fun _ hP => trueDist2_le hx.len_pos ha.len_pos hb.len_pos hP,
   trueDist2_attained hx.len_pos ha.len_pos hb.len_pos⟩

/-- the documented interior bound is dominated... by construction `docInterior` is the C++ / Go formula: -/
theorem docInterior_formula (b : ℝ) :
    docInterior b =
      ((5 / 2 + 2 * Real.sqrt 3 + 17 / 2 * Real.sqrt (b * (2 - b))) * Real.sqrt (b * (2 - b))
        + (2 + 2 * Real.sqrt 3 / 3 + 13 / 2 * (1 - b)) * b + (23 + 16 / Real.sqrt 3) * (2 * (1 / 2 ^ 53)))
        * (2 * (1 / 2 ^ 53)) := rfl



/-! ## (6) the wedge decision under a margin -/

/-- the two float quantities tested by `interiorDist` -/
def wedgeA (x a b : V3) : F64 := (a.sub x).dot ((pointCross a b).cross x)
def wedgeB (x a b : V3) : F64 := (b.sub x).dot ((pointCross a b).cross x)

/-- their exact values `(a−x)·(C×x)`, `(b−x)·(C×x)` with `C = 2·a×b` -/
noncomputable def exactA (x a b : V3) : ℝ := (vD x a).dot ((vC a b).cross (vecR x))
noncomputable def exactB (x a b : V3) : ℝ := (vD x b).dot ((vC a b).cross (vecR x))

theorem exactA_eq (x a b : V3) :
    exactA x a b = -(2 * (vecR x).dot (((vecR a).cross (vecR b)).cross (vecR a))) := by
  unfold exactA vD vC vS vD R3.dot R3.cross vecR; ring

theorem exactB_eq (x a b : V3) :
    exactB x a b = -(2 * (vecR x).dot (((vecR a).cross (vecR b)).cross (vecR b))) := by
  unfold exactB vD vC vS vD R3.dot R3.cross vecR; ring

theorem inWedge_iff_exact (x a b : V3) : InWedge x a b ↔ exactA x a b < 0 ∧ 0 < exactB x a b := by
  rw [exactA_eq, exactB_eq]
  unfold InWedge InWedgeR
  constructor
  · rintro ⟨h1, h2⟩; constructor <;> linarith
  · rintro ⟨h1, h2⟩; constructor <;> linarith

/-- the branch taken by `interiorDist(…, alwaysUpdate = true)` in terms of its two tests -/
theorem interiorBranch_eq (x a b : V3) :
    interiorBranch x a b
      = (!prefilterRejects x a b && !(F64.ge (wedgeA x a b) fz || F64.le (wedgeB x a b) fz)) := by
  unfold interiorBranch interiorDist prefilterRejects wedgeA wedgeB
  simp only [Bool.not_true, Bool.false_and, Bool.false_eq_true, if_false]
  split_ifs with h1 h2
  · simp [h1]
  · simp only [Bool.or_eq_true] at h2
    rcases h2 with h2 | h2
    · simp [h2]
    · simp [h2]
  · simp only [Bool.or_eq_true, not_or, Bool.not_eq_true] at h2
    simp [h1, h2.1, h2.2]

/-- the exact value of each test exceeds the rounding error bound `12u·|p−x|·|C|·|x| + 2^-900` -/
def WedgeMargin (x a b : V3) : Prop :=
  12 * uR * ((vD x a).len * ((vC a b).len * len x)) + tinyR < |exactA x a b| ∧
  12 * uR * ((vD x b).len * ((vC a b).len * len x)) + tinyR < |exactB x a b|

/-- **under the margin the float wedge test decides the exact wedge** -/
theorem wedgeDecisionExact_of_margin (x a b : V3) (hx : UnitPt x) (ha : UnitPt a) (hb : UnitPt b)
    (hE : EdgeOK a b) (hM : WedgeMargin x a b) : WedgeDecisionExact x a b := by
  obtain ⟨fc, mc, hvec⟩ := pcRaw_spec delta0_nonneg (le_refl _) ha hb hE
  have hpc := pointCross_eq delta0_nonneg (le_refl _) ha hb hE
  have hLC : 1 / 2 ^ 34 ≤ (vC a b).len := by
    unfold EdgeOK at hE
    unfold R3.len
    apply Real.le_sqrt_of_sq_le
    have e : ((1 : ℝ) / 2 ^ 34) ^ 2 = 1 / 2 ^ 68 := by rw [div_pow, one_pow, ← pow_mul]
    rw [e]; exact hE
  have hLC3 := vC_len_le delta0_nonneg (le_refl _) ha hb
  obtain ⟨fA, eA⟩ := wedge_term delta0_nonneg (le_refl _) hx ha fc mc hLC hLC3 hvec
  obtain ⟨fB, eB⟩ := wedge_term delta0_nonneg (le_refl _) hx hb fc mc hLC hLC3 hvec
  have hwa : wedgeA x a b = (a.sub x).dot ((pcRaw a b).cross x) := by unfold wedgeA; rw [hpc]
  have hwb : wedgeB x a b = (b.sub x).dot ((pcRaw a b).cross x) := by unfold wedgeB; rw [hpc]
  rw [← hwa] at fA eA
  rw [← hwb] at fB eB
  obtain ⟨mA, mB⟩ := hM
  have hz : Fin fz ∧ val fz = 0 := by
    have h : Fin fz ∧ toInt fz = 0 := by decide
    refine ⟨h.1, ?_⟩; unfold val; rw [h.2]; simp
  -- signs agree
  have sA : val (wedgeA x a b) < 0 ↔ exactA x a b < 0 := by
    have h1 := abs_le.mp eA
    unfold exactA at mA ⊢
    constructor
    · intro h
      by_contra hc
      have hc := not_lt.mp hc
      rw [abs_of_nonneg hc] at mA
      linarith [h1.1, h1.2]
    · intro h
      rw [abs_of_neg h] at mA
      linarith [h1.1, h1.2]
  have sB : 0 < val (wedgeB x a b) ↔ 0 < exactB x a b := by
    have h1 := abs_le.mp eB
    unfold exactB at mB ⊢
    constructor
    · intro h
      by_contra hc
      have hc := not_lt.mp hc
      rw [abs_of_nonpos hc] at mB
      linarith [h1.1, h1.2]
    · intro h
      rw [abs_of_pos h] at mB
      linarith [h1.1, h1.2]
  have gA : F64.ge (wedgeA x a b) fz = true ↔ 0 ≤ val (wedgeA x a b) := by
    rw [ge_val fA hz.1, hz.2]
  have lB : F64.le (wedgeB x a b) fz = true ↔ val (wedgeB x a b) ≤ 0 := by
    rw [le_val fB hz.1, hz.2]
  constructor
  · intro hbr
    rw [interiorBranch_eq] at hbr
    simp only [Bool.and_eq_true, Bool.not_eq_true', Bool.or_eq_false_iff] at hbr
    obtain ⟨_, h1, h2⟩ := hbr
    have n1 : ¬ (0 ≤ val (wedgeA x a b)) := fun hc => by rw [gA.mpr hc] at h1; cases h1
    have n2 : ¬ (val (wedgeB x a b) ≤ 0) := fun hc => by rw [lB.mpr hc] at h2; cases h2
    exact (inWedge_iff_exact x a b).mpr ⟨sA.mp (not_le.mp n1), sB.mp (not_le.mp n2)⟩
  · intro hw hpre
    obtain ⟨w1, w2⟩ := (inWedge_iff_exact x a b).mp hw
    have v1 := sA.mpr w1
    have v2 := sB.mpr w2
    rw [interiorBranch_eq, hpre]
    have g1 : F64.ge (wedgeA x a b) fz = false := by
      cases hq : F64.ge (wedgeA x a b) fz
      · rfl
      · have := gA.mp hq; linarith
    have g2 : F64.le (wedgeB x a b) fz = false := by
      cases hq : F64.le (wedgeB x a b) fz
      · rfl
      · have := lB.mp hq; linarith
    rw [g1, g2]; rfl

/-- a simple sufficient form of the margin: both exact test values exceed `2^-46` in magnitude -/
theorem wedgeMargin_of_simple (x a b : V3) (hx : UnitPt x) (ha : UnitPt a) (hb : UnitPt b)
    (hA : 1 / 2 ^ 46 < |exactA x a b|) (hB : 1 / 2 ^ 46 < |exactB x a b|) : WedgeMargin x a b := by
  have hLC3 := vC_len_le delta0_nonneg (le_refl _) ha hb
  obtain ⟨_, hlx0, hlx⟩ := unit_len delta0_nonneg (le_refl _) hx
  have hu := uR_nonneg
  have key : ∀ p : V3, UnitPt p →
      12 * uR * ((vD x p).len * ((vC a b).len * len x)) + tinyR ≤ 1 / 2 ^ 46 := by
    intro p hp
    have h5 := dist2_le_five delta0_nonneg delta0_le hx hp
    have e : (vD x p).n2 = dist2 x p := by unfold vD R3.n2 R3.dot dist2; ring
    have hLd : (vD x p).len ≤ 3 := by
      apply len_le_of_n2 (by norm_num)
      rw [e]; linarith
    have hLd0 := R3.len_nonneg (vD x p)
    have hLC0 := R3.len_nonneg (vC a b)
    have h1 : (vC a b).len * len x ≤ 5 / 2 * (1 + 1 / 2 ^ 52) := mul_le_mul hLC3 hlx hlx0.le (by norm_num)
    have h2 : (vD x p).len * ((vC a b).len * len x) ≤ 3 * (5 / 2 * (1 + 1 / 2 ^ 52)) :=
      mul_le_mul hLd h1 (mul_nonneg hLC0 hlx0.le) (by norm_num)
    have h3 : 12 * uR * ((vD x p).len * ((vC a b).len * len x)) ≤ 12 * uR * (3 * (5 / 2 * (1 + 1 / 2 ^ 52))) :=
      mul_le_mul_of_nonneg_left h2 (mul_nonneg (by norm_num) hu)
    have h4 : tinyR ≤ 1 / 2 ^ 200 * uR ^ 2 := tinyR_le
    have h6 : 12 * uR * (3 * (5 / 2 * (1 + 1 / 2 ^ 52))) + 1 / 2 ^ 200 * uR ^ 2 ≤ 1 / 2 ^ 46 := by
      unfold uR; norm_num
    linarith
  exact ⟨lt_of_le_of_lt (key a ha) hA, lt_of_le_of_lt (key b hb) hB⟩

/-- **two-sided documented bound under the margin** (no hypothesis about the branch decision is left) -/
theorem distanceWithinMaxError_of_margin (x a b : V3) (hx : UnitPt x) (ha : UnitPt a) (hb : UnitPt b)
    (hE : EdgeOK a b) (hM : WedgeMargin x a b) :
    |fval (distanceFromSegmentChord x a b) - trueDist2 x a b| ≤ allowedError x a b :=
  distanceWithinMaxError_partial x a b hx ha hb hE (wedgeDecisionExact_of_margin x a b hx ha hb hE hM)


/-! ## (6') unconditional two-sided statement: the decision error as an explicit gap term -/

/-- the margin of one side -/
def MarginA (x a b : V3) : Prop :=
  12 * uR * ((vD x a).len * ((vC a b).len * len x)) + tinyR < |exactA x a b|
def MarginB (x a b : V3) : Prop :=
  12 * uR * ((vD x b).len * ((vC a b).len * len x)) + tinyR < |exactB x a b|

/-- the float values of the two wedge tests against the exact ones -/
theorem wedge_floats (x a b : V3) (hx : UnitPt x) (ha : UnitPt a) (hb : UnitPt b) (hE : EdgeOK a b) :
    Fin (wedgeA x a b) ∧ Fin (wedgeB x a b) ∧
    |val (wedgeA x a b) - exactA x a b| ≤ 12 * uR * ((vD x a).len * ((vC a b).len * len x)) + tinyR ∧
    |val (wedgeB x a b) - exactB x a b| ≤ 12 * uR * ((vD x b).len * ((vC a b).len * len x)) + tinyR := by
  obtain ⟨fc, mc, hvec⟩ := pcRaw_spec delta0_nonneg (le_refl _) ha hb hE
  have hpc := pointCross_eq delta0_nonneg (le_refl _) ha hb hE
  have hLC : 1 / 2 ^ 34 ≤ (vC a b).len := by
    unfold EdgeOK at hE
    unfold R3.len
    apply Real.le_sqrt_of_sq_le
    have e : ((1 : ℝ) / 2 ^ 34) ^ 2 = 1 / 2 ^ 68 := by rw [div_pow, one_pow, ← pow_mul]
    rw [e]; exact hE
  have hLC3 := vC_len_le delta0_nonneg (le_refl _) ha hb
  obtain ⟨fA, eA⟩ := wedge_term delta0_nonneg (le_refl _) hx ha fc mc hLC hLC3 hvec
  obtain ⟨fB, eB⟩ := wedge_term delta0_nonneg (le_refl _) hx hb fc mc hLC hLC3 hvec
  have hwa : wedgeA x a b = (a.sub x).dot ((pcRaw a b).cross x) := by unfold wedgeA; rw [hpc]
  have hwb : wedgeB x a b = (b.sub x).dot ((pcRaw a b).cross x) := by unfold wedgeB; rw [hpc]
  rw [← hwa] at fA eA
  rw [← hwb] at fB eB
  exact ⟨fA, fB, eA, eB⟩

/-- under the margin of a side the float sign is the exact sign -/
theorem sign_agree {v e E : ℝ} (herr : |v - e| ≤ E) (hm : E < |e|) : (v < 0 ↔ e < 0) ∧ (0 < v ↔ 0 < e) := by
  obtain ⟨h1, h2⟩ := abs_le.mp herr
  rcases lt_trichotomy e 0 with he | he | he
  · rw [abs_of_neg he] at hm
    exact ⟨⟨fun _ => he, fun _ => by linarith⟩, ⟨fun h => by linarith, fun h => by linarith⟩⟩
  · rw [he, abs_zero] at hm
    have := le_trans (abs_nonneg _) herr
    linarith
  · rw [abs_of_pos he] at hm
    exact ⟨⟨fun h => by linarith, fun h => by linarith⟩, ⟨fun _ => he, fun _ => by linarith⟩⟩

open Classical in
/-- what a wrong wedge decision can cost: the distance between the two candidate answers on a side whose margin fails -/
noncomputable def wedgeGap (x a b : V3) : ℝ :=
  max (if MarginA x a b then 0 else dirChord2 x a - gcDist2 x a b)
      (if MarginB x a b then 0 else dirChord2 x b - gcDist2 x a b)

/-- **UNCONDITIONAL two-sided statement**: for every query point and edge of the domain the computed distance is
    within `allowedError + wedgeGap` of the true squared chord distance to the arc; `wedgeGap = 0` under `WedgeMargin`. -/
theorem distanceWithinMaxError_unconditional (x a b : V3) (hx : UnitPt x) (ha : UnitPt a) (hb : UnitPt b)
    (hE : EdgeOK a b) :
    |fval (distanceFromSegmentChord x a b) - trueDist2 x a b| ≤ allowedError x a b + wedgeGap x a b := by
  obtain ⟨fA, fB, eA, eB⟩ := wedge_floats x a b hx ha hb hE
  have hgc := gcDist2_le_endpoints x a b hx.len_pos ha.len_pos hb.len_pos (edgeOK_normal_pos hE)
  have hgA : 0 ≤ dirChord2 x a - gcDist2 x a b := by have := le_trans hgc (min_le_left _ _); linarith
  have hgB : 0 ≤ dirChord2 x b - gcDist2 x a b := by have := le_trans hgc (min_le_right _ _); linarith
  have hgap0 : 0 ≤ wedgeGap x a b := by
    unfold wedgeGap
    apply le_max_of_le_left
    split_ifs
    · exact le_refl _
    · exact hgA
  have gapA : ¬ MarginA x a b → dirChord2 x a - gcDist2 x a b ≤ wedgeGap x a b := by
    intro h; unfold wedgeGap; rw [if_neg h]; exact le_max_left _ _
  have gapB : ¬ MarginB x a b → dirChord2 x b - gcDist2 x a b ≤ wedgeGap x a b := by
    intro h; unfold wedgeGap; rw [if_neg h]; exact le_max_right _ _
  have hz : Fin fz ∧ val fz = 0 := by
    have h : Fin fz ∧ toInt fz = 0 := by decide
    refine ⟨h.1, ?_⟩; unfold val; rw [h.2]; simp
  have gA : F64.ge (wedgeA x a b) fz = true ↔ 0 ≤ val (wedgeA x a b) := by rw [ge_val fA hz.1, hz.2]
  have lB : F64.le (wedgeB x a b) fz = true ↔ val (wedgeB x a b) ≤ 0 := by rw [le_val fB hz.1, hz.2]
  by_cases hbr : interiorBranch x a b = true
  · -- interior branch
    have hall : allowedError x a b = docInterior (gcDist2 x a b / 2) := by unfold allowedError; rw [if_pos hbr]
    obtain ⟨_, herr⟩ := interior_case_within_documented x a b hx ha hb hE hbr
    have hbr' := hbr
    rw [interiorBranch_eq] at hbr'
    simp only [Bool.and_eq_true, Bool.not_eq_true', Bool.or_eq_false_iff] at hbr'
    obtain ⟨_, h1, h2⟩ := hbr'
    have n1 : val (wedgeA x a b) < 0 := by
      by_contra hc; rw [gA.mpr (not_lt.mp hc)] at h1; cases h1
    have n2 : 0 < val (wedgeB x a b) := by
      by_contra hc; rw [lB.mpr (not_lt.mp hc)] at h2; cases h2
    by_cases hw : InWedge x a b
    · have ht : trueDist2 x a b = gcDist2 x a b := by unfold trueDist2; rw [if_pos hw]
      rw [ht, hall]; linarith
    · have ht : trueDist2 x a b = min (dirChord2 x a) (dirChord2 x b) := by unfold trueDist2; rw [if_neg hw]
      have hnw : ¬ (exactA x a b < 0 ∧ 0 < exactB x a b) := fun h => hw ((inWedge_iff_exact x a b).mpr h)
      have hside : ¬ MarginA x a b ∨ ¬ MarginB x a b := by
        by_contra hc
        rw [not_or, not_not, not_not] at hc
        exact hnw ⟨(sign_agree eA hc.1).1.mp n1, (sign_agree eB hc.2).2.mp n2⟩
      have hd := abs_le.mp herr
      rw [ht, hall, abs_le]
      rcases hside with hs | hs
      · have := gapA hs
        have hmin : min (dirChord2 x a) (dirChord2 x b) ≤ dirChord2 x a := min_le_left _ _
        constructor <;> linarith [hd.1, hd.2]
      · have := gapB hs
        have hmin : min (dirChord2 x a) (dirChord2 x b) ≤ dirChord2 x b := min_le_right _ _
        constructor <;> linarith [hd.1, hd.2]
  · -- vertex branch
    have hbrf : interiorBranch x a b = false := by cases h : interiorBranch x a b <;> simp_all
    have hall : allowedError x a b = fval (maxPointError (distanceFromSegmentChord x a b)) := by
      unfold allowedError; rw [if_neg hbr]
    obtain ⟨_, _, herr⟩ := vertex_case_within_maxPointError x a b hx ha hb hbrf
    by_cases hw : InWedge x a b
    · have ht : trueDist2 x a b = gcDist2 x a b := by unfold trueDist2; rw [if_pos hw]
      obtain ⟨w1, w2⟩ := (inWedge_iff_exact x a b).mp hw
      have hpre := prefilter_never_rejects_wedge x a b hx ha hb hw
      have hrej : F64.ge (wedgeA x a b) fz = true ∨ F64.le (wedgeB x a b) fz = true := by
        have h := hbrf
        rw [interiorBranch_eq, hpre] at h
        simp only [Bool.not_false, Bool.true_and, Bool.not_eq_false'] at h
        simpa [Bool.or_eq_true] using h
      have hside : ¬ MarginA x a b ∨ ¬ MarginB x a b := by
        rcases hrej with h | h
        · left; intro hm
          have := (sign_agree eA hm).1.mpr w1
          have := gA.mp h; linarith
        · right; intro hm
          have := (sign_agree eB hm).2.mpr w2
          have := lB.mp h; linarith
      have hd := abs_le.mp herr
      rw [ht, hall, abs_le]
      rcases hside with hs | hs
      · have := gapA hs
        have hmin : min (dirChord2 x a) (dirChord2 x b) ≤ dirChord2 x a := min_le_left _ _
        constructor <;> linarith [hd.1, hd.2]
      · have := gapB hs
        have hmin : min (dirChord2 x a) (dirChord2 x b) ≤ dirChord2 x b := min_le_right _ _
        constructor <;> linarith [hd.1, hd.2]
    · have ht : trueDist2 x a b = min (dirChord2 x a) (dirChord2 x b) := by unfold trueDist2; rw [if_neg hw]
      rw [ht, hall]; linarith


/-- **size of the gap (A side)**: if the margin of the A side fails, `x` is within 90° of `a` and not at the pole of
    the edge, the two candidate answers differ by at most `2·(12.1u·|a−x| + 2^-800)² / ρ`,
    `ρ = 1 − gcDist2/2` the cosine of the latitude of `x` over the plane of the edge. -/
theorem wedgeGapA_le (x a b : V3) (hx : UnitPt x) (ha : UnitPt a) (hb : UnitPt b) (hE : EdgeOK a b)
    (hM : ¬ MarginA x a b) (hdot : 0 ≤ dotR x a) (hρ : 0 < 1 - gcDist2 x a b / 2) :
    dirChord2 x a - gcDist2 x a b
      ≤ 2 * (121 / 10 * uR * (vD x a).len + 1 / 2 ^ 800) ^ 2 / (1 - gcDist2 x a b / 2) := by
  have hn := edgeOK_normal_pos hE
  obtain ⟨_, hlx0, hlx⟩ := unit_len delta0_nonneg (le_refl _) hx
  obtain ⟨hla1, hla0, hla⟩ := unit_len delta0_nonneg (le_refl _) ha
  set n := (vecR a).cross (vecR b) with hnd
  -- ρ
  have hρe : 1 - gcDist2 x a b / 2 = (n.cross (vecR x)).len / (n.len * len x) := by
    unfold gcDist2; rw [← hnd]; ring
  have hρlen : 0 < (n.cross (vecR x)).len := by
    rw [hρe] at hρ
    have := (div_pos_iff_of_pos_right (mul_pos hn hlx0)).mp hρ
    exact this
  have hgap := gap_le x a b hlx0 hla0 hn hdot hρlen
  rw [← hnd] at hgap
  rw [hρe]
  -- τ
  set τ := (vecR x).dot (n.cross (vecR a)) / (len x * n.len * len a) with hτd
  have hden : 0 < len x * n.len * len a := mul_pos (mul_pos hlx0 hn) hla0
  have hexact : exactA x a b = -(2 * (vecR x).dot (n.cross (vecR a))) := exactA_eq x a b
  obtain ⟨c1, c2, c3⟩ := vC_two a b
  have hLC : (vC a b).len = 2 * n.len := len_double c1 c2 c3
  -- ¬ margin
  have hm : |exactA x a b| ≤ 12 * uR * ((vD x a).len * ((vC a b).len * len x)) + tinyR := by
    unfold MarginA at hM; exact not_lt.mp hM
  rw [hexact, abs_neg, abs_mul, abs_of_pos (by norm_num : (0:ℝ) < 2), hLC] at hm
  have hLd0 : 0 ≤ (vD x a).len := R3.len_nonneg _
  -- |τ| ≤ 12u·Ld/la + tinyR/(2·lx·ln·la)
  have hτ : |τ| ≤ 121 / 10 * uR * (vD x a).len + 1 / 2 ^ 800 := by
    rw [hτd, abs_div, abs_of_pos hden, div_le_iff₀ hden]
    have h1 : |(vecR x).dot (n.cross (vecR a))| ≤ 12 * uR * ((vD x a).len * (n.len * len x)) + tinyR / 2 := by
      have e : 12 * uR * ((vD x a).len * (2 * n.len * len x)) = 2 * (12 * uR * ((vD x a).len * (n.len * len x))) := by ring
      rw [e] at hm; linarith
    -- la ≥ 1 − δ0 , so  12 ≤ 12.1·la
    have hlalo : 1 - 1 / 2 ^ 52 ≤ len a := by
      have := (abs_le.mp hla1).1
      have := delta0_le
      linarith
    have hlxlo : 1 - 1 / 2 ^ 52 ≤ len x := by
      have h := (unit_len delta0_nonneg (le_refl _) hx).1
      have := (abs_le.mp h).1
      have := delta0_le
      linarith
    have hnlo : 1 / 2 ^ 35 ≤ n.len := by
      have hLC34 : 1 / 2 ^ 34 ≤ (vC a b).len := by
        unfold EdgeOK at hE
        unfold R3.len
        apply Real.le_sqrt_of_sq_le
        have e : ((1 : ℝ) / 2 ^ 34) ^ 2 = 1 / 2 ^ 68 := by rw [div_pow, one_pow, ← pow_mul]
        rw [e]; exact hE
      rw [hLC] at hLC34
      have : (1 : ℝ) / 2 ^ 34 = 2 * (1 / 2 ^ 35) := by norm_num
      linarith
    have hu := uR_nonneg
    have hP0 : 0 ≤ (vD x a).len * (n.len * len x) := mul_nonneg hLd0 (mul_nonneg hn.le hlx0.le)
    -- main term: 12·Ld·(ln·lx) ≤ 12.1·Ld·(lx·ln·la)
    have m1 : 12 * uR * ((vD x a).len * (n.len * len x)) ≤ 121 / 10 * uR * (vD x a).len * (len x * n.len * len a) := by
      have h2 : (12 : ℝ) ≤ 121 / 10 * (1 - 1 / 2 ^ 52) := by norm_num
      have h3 : 121 / 10 * (1 - 1 / 2 ^ 52) ≤ 121 / 10 * len a := mul_le_mul_of_nonneg_left hlalo (by norm_num)
      have h4 : 12 * (uR * ((vD x a).len * (n.len * len x))) ≤ 121 / 10 * len a * (uR * ((vD x a).len * (n.len * len x))) :=
        mul_le_mul_of_nonneg_right (by linarith) (mul_nonneg hu hP0)
      have e1 : 12 * uR * ((vD x a).len * (n.len * len x)) = 12 * (uR * ((vD x a).len * (n.len * len x))) := by ring
      have e2 : 121 / 10 * uR * (vD x a).len * (len x * n.len * len a)
          = 121 / 10 * len a * (uR * ((vD x a).len * (n.len * len x))) := by ring
      rw [e1, e2]; exact h4
    -- tiny term
    have m2 : tinyR / 2 ≤ 1 / 2 ^ 800 * (len x * n.len * len a) := by
      have hprod : (1 - 1 / 2 ^ 52) * (1 / 2 ^ 35) * (1 - 1 / 2 ^ 52) ≤ len x * n.len * len a :=
        mul_le_mul (mul_le_mul hlxlo hnlo (by positivity) hlx0.le) hlalo (by norm_num) (mul_nonneg hlx0.le hn.le)
      have h5 : (1 : ℝ) / 2 ^ 37 ≤ (1 - 1 / 2 ^ 52) * (1 / 2 ^ 35) * (1 - 1 / 2 ^ 52) := by norm_num
      have h6 : (1 : ℝ) / 2 ^ 800 * (1 / 2 ^ 37) ≤ 1 / 2 ^ 800 * (len x * n.len * len a) :=
        mul_le_mul_of_nonneg_left (by linarith) (by positivity)
      have h7 : tinyR / 2 ≤ 1 / 2 ^ 800 * (1 / 2 ^ 37) := by
        unfold tinyR
        rw [div_mul_div_comm, one_mul, ← pow_add, div_div]
        apply one_div_le_one_div_of_le (by positivity)
        have h9 : (2 : ℝ) ^ (800 + 37) ≤ 2 ^ 900 := pow_le_pow_right₀ (by norm_num) (by norm_num)
        exact le_trans h9 (le_mul_of_one_le_right (pow_pos (by norm_num) 900).le (by norm_num))
      linarith
    have e3 : (121 / 10 * uR * (vD x a).len + 1 / 2 ^ 800) * (len x * n.len * len a)
        = 121 / 10 * uR * (vD x a).len * (len x * n.len * len a) + 1 / 2 ^ 800 * (len x * n.len * len a) := by ring
    rw [e3]; linarith
  have hτsq : τ ^ 2 ≤ (121 / 10 * uR * (vD x a).len + 1 / 2 ^ 800) ^ 2 := by
    have h0 : 0 ≤ 121 / 10 * uR * (vD x a).len + 1 / 2 ^ 800 := le_trans (abs_nonneg _) hτ
    have := pow_le_pow_left₀ (abs_nonneg τ) hτ 2
    rwa [sq_abs] at this
  have hρpos : 0 < (n.cross (vecR x)).len / (n.len * len x) := div_pos hρlen (mul_pos hn hlx0)
  have h8 : 2 * τ ^ 2 / ((n.cross (vecR x)).len / (n.len * len x))
      ≤ 2 * (121 / 10 * uR * (vD x a).len + 1 / 2 ^ 800) ^ 2 / ((n.cross (vecR x)).len / (n.len * len x)) :=
    div_le_div_of_nonneg_right (by linarith) hρpos.le
  exact le_trans hgap h8


/-! symmetry `a ↔ b` -/

theorem vC_swap (a b : V3) :
    (vC b a).x = -(vC a b).x ∧ (vC b a).y = -(vC a b).y ∧ (vC b a).z = -(vC a b).z := by
  unfold vC vS vD R3.cross
  refine ⟨by ring, by ring, by ring⟩

theorem len_of_neg {v w : R3} (hx : v.x = -w.x) (hy : v.y = -w.y) (hz : v.z = -w.z) : v.len = w.len := by
  unfold R3.len R3.n2 R3.dot
  rw [hx, hy, hz]
  congr 1; ring

theorem vC_len_swap (a b : V3) : (vC b a).len = (vC a b).len := by
  obtain ⟨h1, h2, h3⟩ := vC_swap a b
  exact len_of_neg h1 h2 h3

theorem edgeOK_swap {a b : V3} (h : EdgeOK a b) : EdgeOK b a := by
  unfold EdgeOK at h ⊢
  have e : (vC b a).n2 = (vC a b).n2 := by
    obtain ⟨h1, h2, h3⟩ := vC_swap a b
    unfold R3.n2 R3.dot; rw [h1, h2, h3]; ring
  rw [e]; exact h

theorem gcDist2_swap (x a b : V3) : gcDist2 x b a = gcDist2 x a b := by
  unfold gcDist2
  have e1 : ((vecR b).cross (vecR a)).len = ((vecR a).cross (vecR b)).len :=
    len_of_neg (by unfold R3.cross; ring) (by unfold R3.cross; ring) (by unfold R3.cross; ring)
  have e2 : (((vecR b).cross (vecR a)).cross (vecR x)).len = (((vecR a).cross (vecR b)).cross (vecR x)).len :=
    len_of_neg (by unfold R3.cross; ring) (by unfold R3.cross; ring) (by unfold R3.cross; ring)
  rw [e1, e2]

theorem exactA_swap (x a b : V3) : exactA x b a = -(exactB x a b) := by
  rw [exactA_eq, exactB_eq]
  unfold R3.dot R3.cross vecR; ring

theorem marginA_swap (x a b : V3) : MarginA x b a ↔ MarginB x a b := by
  unfold MarginA MarginB
  rw [exactA_swap, abs_neg, vC_len_swap]

/-- **size of the gap (B side)** -/
theorem wedgeGapB_le (x a b : V3) (hx : UnitPt x) (ha : UnitPt a) (hb : UnitPt b) (hE : EdgeOK a b)
    (hM : ¬ MarginB x a b) (hdot : 0 ≤ dotR x b) (hρ : 0 < 1 - gcDist2 x a b / 2) :
    dirChord2 x b - gcDist2 x a b
      ≤ 2 * (121 / 10 * uR * (vD x b).len + 1 / 2 ^ 800) ^ 2 / (1 - gcDist2 x a b / 2) := by
  have h := wedgeGapA_le x b a hx hb ha (edgeOK_swap hE) (fun hm => hM ((marginA_swap x a b).mp hm)) hdot
    (by rw [gcDist2_swap]; exact hρ)
  rw [gcDist2_swap] at h
  exact h

/-- under the margin the gap vanishes -/
theorem wedgeGap_of_margin (x a b : V3) (hM : WedgeMargin x a b) : wedgeGap x a b = 0 := by
  have h1 : MarginA x a b := hM.1
  have h2 : MarginB x a b := hM.2
  unfold wedgeGap
  rw [if_pos h1, if_pos h2, max_self]

/-! ## decidable forms of the hypotheses, non-vacuity -/

/-- `UnitPt` as an integer condition (`δ0 = (2^28 − 1)/2^80`) -/
def UnitPtZ (p : V3) : Prop :=
  Fin3 p ∧ (2 ^ 80 - 2 ^ 28 + 1) ^ 2 * ((2 : Int) ^ 1074) ^ 2 ≤ n2Z p * 2 ^ 160 ∧
    n2Z p * 2 ^ 160 ≤ (2 ^ 80 + 2 ^ 28 - 1) ^ 2 * ((2 : Int) ^ 1074) ^ 2

instance (p : V3) : Decidable (UnitPtZ p) := by unfold UnitPtZ; infer_instance

theorem unitPt_of_int {p : V3} (h : UnitPtZ p) : UnitPt p := by
  obtain ⟨hf, h1, h2⟩ := h
  refine ⟨hf, ?_, ?_⟩
  · rw [n2_int, le_div_iff₀ (by positivity)]
    have h' : (((2 ^ 80 - 2 ^ 28 + 1) ^ 2 * ((2 : Int) ^ 1074) ^ 2 : ℤ) : ℝ) ≤ ((n2Z p * 2 ^ 160 : ℤ) : ℝ) :=
      Int.cast_le.mpr h1
    push_cast at h'
    have e : (1 - delta0) ^ 2 = (2 ^ 80 - 2 ^ 28 + 1) ^ 2 / 2 ^ 160 := by
      unfold delta0
      rw [show (2 : ℝ) ^ 160 = (2 ^ 80) ^ 2 by rw [← pow_mul], ← div_pow]
      congr 1
      rw [show (2 : ℝ) ^ 80 = 2 ^ 28 * 2 ^ 52 by rw [← pow_add]]
      field_simp; ring
    rw [e, div_mul_eq_mul_div, div_le_iff₀ (by positivity)]
    linarith
  · rw [n2_int, div_le_iff₀ (by positivity)]
    have h' : ((n2Z p * 2 ^ 160 : ℤ) : ℝ) ≤ (((2 ^ 80 + 2 ^ 28 - 1) ^ 2 * ((2 : Int) ^ 1074) ^ 2 : ℤ) : ℝ) :=
      Int.cast_le.mpr h2
    push_cast at h'
    have e : (1 + delta0) ^ 2 = (2 ^ 80 + 2 ^ 28 - 1) ^ 2 / 2 ^ 160 := by
      unfold delta0
      rw [show (2 : ℝ) ^ 160 = (2 ^ 80) ^ 2 by rw [← pow_mul], ← div_pow]
      congr 1
      rw [show (2 : ℝ) ^ 80 = 2 ^ 28 * 2 ^ 52 by rw [← pow_add]]
      field_simp; ring
    rw [e, div_mul_eq_mul_div, le_div_iff₀ (by positivity)]
    linarith

/-- `EdgeOK` as an integer condition: `4·|a×b|² ≥ 2^-68` at scale `2^(4·1074)` -/
def EdgeOKZ (a b : V3) : Prop := ((2 : Int) ^ 1074) ^ 4 ≤ 4 * ((ofV3 a).cross (ofV3 b)).norm2 * 2 ^ 68

instance (a b : V3) : Decidable (EdgeOKZ a b) := by unfold EdgeOKZ; infer_instance

theorem edgeOK_of_int {a b : V3} (h : EdgeOKZ a b) : EdgeOK a b := by
  unfold EdgeOK
  obtain ⟨c1, c2, c3⟩ := vC_two a b
  have e : (vC a b).n2 = 4 * (((ofV3 a).cross (ofV3 b)).norm2 : ℝ) / ((2 ^ 1074) ^ 4) := by
    unfold R3.n2 R3.dot
    rw [c1, c2, c3]
    unfold R3.cross vecR IV3.norm2 IV3.dot IV3.cross ofV3 val
    push_cast
    field_simp
    ring
  rw [e, le_div_iff₀ (by positivity)]
  have h' : ((((2 : Int) ^ 1074) ^ 4 : ℤ) : ℝ) ≤ ((4 * ((ofV3 a).cross (ofV3 b)).norm2 * 2 ^ 68 : ℤ) : ℝ) :=
    Int.cast_le.mpr h
  push_cast at h'
  have : (1 : ℝ) / 2 ^ 68 * (2 ^ 1074) ^ 4 * 2 ^ 68 = (2 ^ 1074) ^ 4 := by field_simp
  nlinarith [h']

/-- the exact wedge as an integer condition -/
def InWedgeZ (x a b : V3) : Prop :=
  0 < (ofV3 x).dot ((((ofV3 a).cross (ofV3 b))).cross (ofV3 a)) ∧
  (ofV3 x).dot ((((ofV3 a).cross (ofV3 b))).cross (ofV3 b)) < 0

instance (x a b : V3) : Decidable (InWedgeZ x a b) := by unfold InWedgeZ; infer_instance

theorem inWedge_iff_int (x a b : V3) : InWedge x a b ↔ InWedgeZ x a b := by
  have e1 : (vecR x).dot (((vecR a).cross (vecR b)).cross (vecR a))
      = (((ofV3 x).dot ((((ofV3 a).cross (ofV3 b))).cross (ofV3 a)) : ℤ) : ℝ) / (2 ^ 1074) ^ 4 := by
    unfold R3.dot R3.cross vecR IV3.dot IV3.cross ofV3 val
    push_cast; field_simp; ring
  have e2 : (vecR x).dot (((vecR a).cross (vecR b)).cross (vecR b))
      = (((ofV3 x).dot ((((ofV3 a).cross (ofV3 b))).cross (ofV3 b)) : ℤ) : ℝ) / (2 ^ 1074) ^ 4 := by
    unfold R3.dot R3.cross vecR IV3.dot IV3.cross ofV3 val
    push_cast; field_simp; ring
  have hp : (0 : ℝ) < (2 ^ 1074) ^ 4 := by positivity
  have hneg : ∀ t : ℝ, t / (2 ^ 1074) ^ 4 < 0 ↔ t < 0 := by
    intro t
    constructor
    · intro h; by_contra hc; exact absurd (div_nonneg (not_lt.mp hc) hp.le) (not_le.mpr h)
    · intro h; exact div_neg_of_neg_of_pos h hp
  unfold InWedge InWedgeR InWedgeZ
  rw [e1, e2, div_pos_iff_of_pos_right hp, hneg]
  constructor
  · rintro ⟨h1, h2⟩; exact ⟨by exact_mod_cast h1, by exact_mod_cast h2⟩
  · rintro ⟨h1, h2⟩; exact ⟨by exact_mod_cast h1, by exact_mod_cast h2⟩

/-- sample points: the edge (1,0,0)–(0,1,0), a query point in the wedge and the pole of the edge -/
def exA : V3 := ⟨F64.one, fz, fz⟩
def exB : V3 := ⟨fz, F64.one, fz⟩
def exX : V3 := ⟨⟨0x3FE5555555555555⟩, ⟨0x3FE5555555555555⟩, ⟨0x3FD5555555555555⟩⟩   -- (2/3, 2/3, 1/3) rounded
def exP : V3 := ⟨fz, fz, F64.one⟩

-- non-vacuity of every hypothesis used above (kernel-checked):
example : UnitPtZ exA ∧ UnitPtZ exB ∧ UnitPtZ exX ∧ UnitPtZ exP ∧ EdgeOKZ exA exB ∧
    InWedgeZ exX exA exB ∧ ¬ InWedgeZ exP exA exB ∧
    interiorBranch exX exA exB = true ∧ interiorBranch exP exA exB = false ∧
    prefilterRejects exX exA exB = false := by decide +kernel

/-- … in particular `WedgeDecisionExact` holds for both sample queries -/
example : WedgeDecisionExact exX exA exB ∧ WedgeDecisionExact exP exA exB := by
  have h : InWedgeZ exX exA exB ∧ ¬ InWedgeZ exP exA exB ∧
      interiorBranch exX exA exB = true ∧ interiorBranch exP exA exB = false := by decide +kernel
  obtain ⟨h1, h2, h3, h4⟩ := h
  refine ⟨⟨fun _ => (inWedge_iff_int _ _ _).mpr h1, fun _ _ => h3⟩,
          ⟨fun hb => (by rw [h4] at hb; cases hb), fun hw => absurd ((inWedge_iff_int _ _ _).mp hw) h2⟩⟩

/-- the theorems apply to the samples: the interior value of `exX` is within the documented bound -/
example : |fval (distanceFromSegmentChord exX exA exB) - trueDist2 exX exA exB| ≤ allowedError exX exA exB := by
  have h : UnitPtZ exA ∧ UnitPtZ exB ∧ UnitPtZ exX ∧ EdgeOKZ exA exB ∧ InWedgeZ exX exA exB ∧
      interiorBranch exX exA exB = true := by decide +kernel
  obtain ⟨ha, hb, hx, he, hw, hbr⟩ := h
  exact distanceWithinMaxError_partial exX exA exB (unitPt_of_int hx) (unitPt_of_int ha) (unitPt_of_int hb)
    (edgeOK_of_int he) ⟨fun _ => (inWedge_iff_int _ _ _).mpr hw, fun _ _ => hbr⟩


/-- the margin as an integer condition: both exact test values exceed `2^-46` -/
def WedgeMarginZ (x a b : V3) : Prop :=
  ((2 : Int) ^ 1074) ^ 4 < |(ofV3 x).dot ((((ofV3 a).cross (ofV3 b))).cross (ofV3 a))| * 2 ^ 47 ∧
  ((2 : Int) ^ 1074) ^ 4 < |(ofV3 x).dot ((((ofV3 a).cross (ofV3 b))).cross (ofV3 b))| * 2 ^ 47

instance (x a b : V3) : Decidable (WedgeMarginZ x a b) := by unfold WedgeMarginZ; infer_instance

theorem wedgeMargin_of_int (x a b : V3) (hx : UnitPt x) (ha : UnitPt a) (hb : UnitPt b)
    (h : WedgeMarginZ x a b) : WedgeMargin x a b := by
  obtain ⟨h1, h2⟩ := h
  have e1 : (vecR x).dot (((vecR a).cross (vecR b)).cross (vecR a))
      = (((ofV3 x).dot ((((ofV3 a).cross (ofV3 b))).cross (ofV3 a)) : ℤ) : ℝ) / (2 ^ 1074) ^ 4 := by
    unfold R3.dot R3.cross vecR IV3.dot IV3.cross ofV3 val
    push_cast; field_simp; ring
  have e2 : (vecR x).dot (((vecR a).cross (vecR b)).cross (vecR b))
      = (((ofV3 x).dot ((((ofV3 a).cross (ofV3 b))).cross (ofV3 b)) : ℤ) : ℝ) / (2 ^ 1074) ^ 4 := by
    unfold R3.dot R3.cross vecR IV3.dot IV3.cross ofV3 val
    push_cast; field_simp; ring
  have hp : (0 : ℝ) < (2 ^ 1074) ^ 4 := by positivity
  have key : ∀ I : ℤ, ((2 : Int) ^ 1074) ^ 4 < |I| * 2 ^ 47 → (1 : ℝ) / 2 ^ 46 < |-(2 * ((I : ℝ) / (2 ^ 1074) ^ 4))| := by
    intro I hI
    have h' : ((((2 : Int) ^ 1074) ^ 4 : ℤ) : ℝ) < ((|I| * 2 ^ 47 : ℤ) : ℝ) := Int.cast_lt.mpr hI
    rw [Int.cast_mul, Int.cast_abs, Int.cast_pow, Int.cast_pow, Int.cast_pow] at h'
    simp only [Int.cast_ofNat] at h'
    rw [abs_neg, abs_mul, abs_div, abs_of_pos hp, abs_of_pos (by norm_num : (0 : ℝ) < 2)]
    have e47 : (2 : ℝ) ^ 47 = 2 * 2 ^ 46 := by rw [← pow_succ']
    rw [e47] at h'
    have e : 2 * (|(I : ℝ)| / (2 ^ 1074) ^ 4) = (2 * |(I : ℝ)|) / (2 ^ 1074) ^ 4 := by ring
    rw [e, lt_div_iff₀ hp, div_mul_eq_mul_div, div_lt_iff₀ (by positivity)]
    linarith
  apply wedgeMargin_of_simple x a b hx ha hb
  · rw [exactA_eq, e1]; exact key _ h1
  · rw [exactB_eq, e2]; exact key _ h2

/-- a complete, hypothesis-free instance: for the sample query `exX` and the edge `exA exB` the computed distance is
    within the documented bound of the true distance to the arc -/
example : |fval (distanceFromSegmentChord exX exA exB) - trueDist2 exX exA exB| ≤ allowedError exX exA exB := by
  have h : UnitPtZ exA ∧ UnitPtZ exB ∧ UnitPtZ exX ∧ EdgeOKZ exA exB ∧ WedgeMarginZ exX exA exB := by decide +kernel
  obtain ⟨ha, hb, hx, he, hm⟩ := h
  exact distanceWithinMaxError_of_margin exX exA exB (unitPt_of_int hx) (unitPt_of_int ha) (unitPt_of_int hb)
    (edgeOK_of_int he) (wedgeMargin_of_int _ _ _ (unitPt_of_int hx) (unitPt_of_int ha) (unitPt_of_int hb) hm)

/-! ## FINDING: the vertex bound fails on the whole range of `Normalize` -/

/-- the literal claim for outputs of `Normalize` (degenerate edge `a = b`, so the true distance is the chord to `a`) -/
def VertexBoundOnNormalizeOutputs : Prop :=
  ∀ v w : V3, Fin3 v.normalize → Fin3 w.normalize →
    |fval (distanceFromSegmentChord v.normalize w.normalize w.normalize) - dirChord2 v.normalize w.normalize|
      ≤ fval (minUpdateDistanceMaxError (distanceFromSegmentChord v.normalize w.normalize w.normalize))

/-- **The documented bound is FALSE for some outputs of `Normalize`** (both points ≈ 2.8·2^-53 too long — beyond
    `δ0`, inside the `2·dblEpsilon` that the library documents for `Normalize`): error 19.13·2^-53 against
    `minUpdateDistanceMaxError = MaxPointError = 18.005·2^-53`.  Witness `C17Err.wV`, `C17Err.wW`. -/
theorem not_vertexBoundOnNormalizeOutputs : ¬ VertexBoundOnNormalizeOutputs := by
  intro h
  obtain ⟨_, _, _, hm, hp, fx, fa, _, _, _⟩ := witness_facts
  have h1 := h wV wW fx fa
  have h2 : val (maxPointError wD) < val wD - dirChord2 wV.normalize wW.normalize := witness_exceeds
  have e1 : distanceFromSegmentChord wV.normalize wW.normalize wW.normalize = wD := rfl
  rw [e1, fval_eq_val, fval_eq_val, hm, ← hp] at h1
  have := (abs_le.mp h1).2
  linarith

/-- the witness points are outside the domain `UnitPt` of the positive theorems (as they must be) -/
example : ¬ UnitPtZ wX ∧ ¬ UnitPtZ wA := by decide +kernel


/-! ## the vertex case on the whole documented range of `Normalize` (proposed repair of `MaxPointError`) -/

/-- finite and within `2·δ0 = 2^-51 − 2^-79` (just below `2·dblEpsilon`, the documented guarantee of `Normalize`) of
    unit length -/
def UnitPtWide (p : V3) : Prop := UnitWithin (2 * delta0) p

/-- **what does hold for every point of the documented `Normalize` range**: the vertex distance is within
    `6.5·dblEpsilon·D + 16.0025·dblEpsilon²` of the true `D` (`MaxPointError` uses `4.5·dblEpsilon`). -/
theorem vertex_case_wide (x a b : V3) (hx : UnitPtWide x) (ha : UnitPtWide a) (hb : UnitPtWide b)
    (hbr : interiorBranch x a b = false) :
    Fin (distanceFromSegmentChord x a b) ∧
    |fval (distanceFromSegmentChord x a b) - min (dirChord2 x a) (dirChord2 x b)|
      ≤ (13 * uR - uR / 2 ^ 27) * min (dirChord2 x a) (dirChord2 x b) + 6401 / 100 * uR ^ 2 := by
  rw [chord_by_branch, if_neg (by rw [hbr]; simp), fval_eq_val]
  have hd : (0 : ℝ) ≤ 2 * delta0 := by have := delta0_nonneg; linarith
  exact vertexDist_wide hd (le_refl _) hx ha hb

/-- `UnitPtWide` as an integer condition -/
def UnitPtWideZ (p : V3) : Prop :=
  Fin3 p ∧ (2 ^ 79 - 2 ^ 28 + 1) ^ 2 * ((2 : Int) ^ 1074) ^ 2 ≤ n2Z p * 2 ^ 158 ∧
    n2Z p * 2 ^ 158 ≤ (2 ^ 79 + 2 ^ 28 - 1) ^ 2 * ((2 : Int) ^ 1074) ^ 2

instance (p : V3) : Decidable (UnitPtWideZ p) := by unfold UnitPtWideZ; infer_instance

theorem unitPtWide_of_int {p : V3} (h : UnitPtWideZ p) : UnitPtWide p := by
  obtain ⟨hf, h1, h2⟩ := h
  refine ⟨hf, ?_, ?_⟩
  · rw [n2_int, le_div_iff₀ (by positivity)]
    have h' : (((2 ^ 79 - 2 ^ 28 + 1) ^ 2 * ((2 : Int) ^ 1074) ^ 2 : ℤ) : ℝ) ≤ ((n2Z p * 2 ^ 158 : ℤ) : ℝ) :=
      Int.cast_le.mpr h1
    push_cast at h'
    have e : (1 - 2 * delta0) ^ 2 = (2 ^ 79 - 2 ^ 28 + 1) ^ 2 / 2 ^ 158 := by
      unfold delta0
      rw [show (2 : ℝ) ^ 158 = (2 ^ 79) ^ 2 by rw [← pow_mul], ← div_pow]
      congr 1
      rw [show (2 : ℝ) ^ 79 = 2 ^ 27 * 2 ^ 52 by rw [← pow_add]]
      field_simp; ring
    rw [e, div_mul_eq_mul_div, div_le_iff₀ (by positivity)]
    linarith
  · rw [n2_int, div_le_iff₀ (by positivity)]
    have h' : ((n2Z p * 2 ^ 158 : ℤ) : ℝ) ≤ (((2 ^ 79 + 2 ^ 28 - 1) ^ 2 * ((2 : Int) ^ 1074) ^ 2 : ℤ) : ℝ) :=
      Int.cast_le.mpr h2
    push_cast at h'
    have e : (1 + 2 * delta0) ^ 2 = (2 ^ 79 + 2 ^ 28 - 1) ^ 2 / 2 ^ 158 := by
      unfold delta0
      rw [show (2 : ℝ) ^ 158 = (2 ^ 79) ^ 2 by rw [← pow_mul], ← div_pow]
      congr 1
      rw [show (2 : ℝ) ^ 79 = 2 ^ 27 * 2 ^ 52 by rw [← pow_add]]
      field_simp; ring
    rw [e, div_mul_eq_mul_div, le_div_iff₀ (by positivity)]
    linarith

/-- the witness of the finding IS in the wide domain, and `vertex_case_wide` applies to it -/
example : UnitPtWideZ wX ∧ UnitPtWideZ wA ∧ interiorBranch wX wA wA = false := by decide +kernel

end S2Proofs.C17
