/-
  C06 (first sentence) — "For any collection of shapes (points, polylines, polygons, overlapping or
  not), every answer obtained through the spatial index (which shapes contain a point under the
  open, semi-open and closed vertex models, which edges cross a query edge, …) equals the answer
  computed by examining every edge of every shape directly."

  Model: `S2.Contain` (`shapeContainsM`, `queryContains`, `queryContainingShapes`, `candidates`,
  `crossingsFrom`, `crossingsBrute`).  The index itself is ABSTRACT: an index cell is its centre and,
  per shape, the `containsCenter` flag and the list of edge ids (`ClippedM`); that the concrete
  ShapeIndex satisfies the invariants is checked through the hook by the op `c04idx` (I1, I2 exact
  in the face plane, I3 against the exact brute force) — it is not proved.

  Theorems (for every geometry, every number of shapes / edges, every point / query edge):
  * `containsPointQuery_*` : under the per-shape cell invariants `ShapeCellHyp` (ids duplicate-free
    and in range, I2, I3, parity cocycle) `ContainingShapes` / `Contains` / `ShapeContains` of the
    semi-open model return exactly the shapes whose `containsBruteForce` is true; the open / closed
    models are characterised for 2-dimensional shapes (`S2Proofs.C04.shapeContainsM_open/closed`)
    and, here, for points and polylines (`shapeContainsM_lowDim`).
  * `crossings_eq_bruteForce` : under I2' (every edge whose `CrossingSign` with the query edge is
    kept by the crossing type is listed in one of the cells found for the query edge) and "edge ids
    of a cell are strictly increasing", `Crossings` equals the brute-force filter over all edge ids —
    as a LIST (same order); `candidates_superset` : candidates ⊇ true crossings.
-/
import S2.Contain
import S2Proofs.Contain.Basic
import S2Proofs.Contain.Cross
import S2Proofs.Properties.C04
import S2Proofs.Contain.Query
import Mathlib.Data.List.Sort
namespace S2Proofs.C06
open S2 S2.Contain S2Proofs.Contain S2Proofs.C04

variable {P : Type}

/-! ### ContainsPointQuery over shape collections -/

/-- Invariants of one clipped shape `c` of the located cell w.r.t. its shape `S` and the query
    point `p`.  For shapes without interior (`dim ≠ 2`) only `containsCenter = false` matters. -/
structure ShapeCellHyp (G : Geo P) (S : ShapeM P) (center : P) (c : ClippedM P) (p : P) : Prop where
  dim_eq : c.dim = S.dim
  lowDim : S.dim ≠ 2 → c.containsCenter = false
  cell : S.dim = 2 → ∃ ids : List Nat, c.edges = listed S.edges.toList ids ∧
    CellHyp G S.refPoint S.refContained S.edges.toList center c.containsCenter ids p

/-- one clipped shape, semi-open model: the index answer is `containsBruteForce` -/
theorem shapeContains_clipped {G : Geo P} (S : ShapeM P) (center : P) (c : ClippedM P) (p : P)
    (h : ShapeCellHyp G S center c p) :
    shapeContainsM G .semiOpen c.dim center c.containsCenter c.edges p = containsBruteForce G S p := by
  by_cases hd : S.dim = 2
  · obtain ⟨ids, he, hc⟩ := h.cell hd
    rw [h.dim_eq, he]
    exact shapeContains_eq_containsBruteForce S hd hc
  · have hcc := h.lowDim hd
    have : containsBruteForce G S p = false := by
      unfold containsBruteForce; simp [hd]
    rw [this]
    unfold shapeContainsM
    rw [h.dim_eq]
    by_cases he : c.edges.isEmpty = true
    · simp [he, hcc]
    · simp [he, hd]

/-- non-vacuity of `ShapeCellHyp`: the toy square as a Shape, one cell centred at (1,1) -/
example : ShapeCellHyp toyGeo (loopShape (-7, -5) toySquare) (1, 1)
    ⟨0, 2, true, listed (loopShape (-7, -5) toySquare).edges.toList [0, 1, 2, 3]⟩ (0, 0) where
  dim_eq := rfl
  lowDim := by decide
  cell := fun _ => ⟨[0, 1, 2, 3], rfl,
    { nodup := by decide, inRange := by decide, i2 := by decide, i3 := by decide,
      cocycle := by unfold ParityCocycle; decide }⟩

/-- **`ContainingShapes` = brute force** (semi-open): the shapes returned through the index are
    exactly the clipped shapes of the cell whose shape contains `p` by brute force, in the same
    order.  `S k` is the shape with id `k`. -/
theorem containsPointQuery_containingShapes {G : Geo P} (S : Nat → ShapeM P) (center : P)
    (cs : List (ClippedM P)) (p : P)
    (h : ∀ c ∈ cs, ShapeCellHyp G (S c.shapeID) center c p) :
    queryContainingShapes G .semiOpen (some (center, cs)) p =
      (cs.filter fun c => containsBruteForce G (S c.shapeID) p).map (·.shapeID) := by
  unfold queryContainingShapes
  simp only
  congr 1
  apply List.filter_congr
  intro c hc
  exact shapeContains_clipped (S c.shapeID) center c p (h c hc)

/-- **`Contains` = brute force** (semi-open): some shape of the cell contains `p`. -/
theorem containsPointQuery_contains {G : Geo P} (S : Nat → ShapeM P) (center : P)
    (cs : List (ClippedM P)) (p : P)
    (h : ∀ c ∈ cs, ShapeCellHyp G (S c.shapeID) center c p) :
    queryContains G .semiOpen (some (center, cs)) p =
      cs.any fun c => containsBruteForce G (S c.shapeID) p := by
  unfold queryContains
  simp only
  apply any_congr'
  intro c hc
  exact shapeContains_clipped (S c.shapeID) center c p (h c hc)

/-- A point the index cannot locate (no index cell contains it) is contained by nothing. -/
theorem containsPointQuery_unlocated (G : Geo P) (vm : VertexModel) (p : P) :
    queryContains G vm none p = false ∧ queryContainingShapes G vm none p = [] := by
  simp [queryContains, queryContainingShapes]

/-- Points and polylines (`dim ≠ 2`): never contained under the open / semi-open models (given
    `containsCenter = false`), contained under the closed model iff `p` is an endpoint of a listed
    edge. -/
theorem shapeContainsM_lowDim (G : Geo P) (vm : VertexModel) (dim : Nat) (hd : dim ≠ 2) (center : P)
    (es : List (P × P)) (p : P) :
    shapeContainsM G vm dim center false es p = (decide (vm = .closed) && isEndpoint G es p) := by
  unfold shapeContainsM isEndpoint
  cases es with
  | nil => simp
  | cons e es => cases vm <;> simp [hd]

/-! ### CrossingEdgeQuery -/

/-- Invariants the abstract index must offer a crossing query: the edge-id list of every cell found
    is strictly increasing with ids below `numEdges`, and (I2') every edge the brute force keeps is
    listed in one of the cells (only needed above the brute-force threshold of 27 edges). -/
structure CrossHyp (G : Geo P) (a b : P) (edge : Nat → P × P) (numEdges : Nat) (all : Bool)
    (cellLists : List (List Nat)) : Prop where
  sorted : ∀ l ∈ cellLists, l.Pairwise (· < ·)
  inRange : ∀ l ∈ cellLists, ∀ i ∈ l, i < numEdges
  i2' : 27 < numEdges → ∀ i, i < numEdges →
    crossingKept all (crossingSign G a b (edge i).1 (edge i).2) = true → ∃ l ∈ cellLists, i ∈ l

/-- the candidate list is strictly increasing and consists of edge ids -/
theorem candidates_sorted {G : Geo P} {a b : P} {edge : Nat → P × P} {n : Nat} {all : Bool}
    {cl : List (List Nat)} (h : CrossHyp G a b edge n all cl) :
    (candidates n cl).Pairwise (· < ·) ∧ ∀ i ∈ candidates n cl, i < n := by
  unfold candidates
  split
  · exact ⟨List.pairwise_lt_range, fun i hi => List.mem_range.1 hi⟩
  · match cl, h with
    | [], _ => simp
    | [l], h => exact ⟨h.sorted l (by simp), h.inRange l (by simp)⟩
    | l₁ :: l₂ :: ls, h =>
      simp only
      obtain ⟨h1, h2⟩ := uniqueInts_spec (l₁ :: l₂ :: ls).flatten
      refine ⟨h1, fun i hi => ?_⟩
      obtain ⟨l, hl, hil⟩ := List.mem_flatten.1 ((h2 i).1 hi)
      exact h.inRange l hl i hil

/-- **candidates ⊇ true crossings** -/
theorem candidates_superset {G : Geo P} {a b : P} {edge : Nat → P × P} {n : Nat} {all : Bool}
    {cl : List (List Nat)} (h : CrossHyp G a b edge n all cl) (i : Nat) (hi : i < n)
    (hk : crossingKept all (crossingSign G a b (edge i).1 (edge i).2) = true) :
    i ∈ candidates n cl := by
  unfold candidates
  split
  · exact List.mem_range.2 hi
  · rename_i hn
    obtain ⟨l, hl, hil⟩ := h.i2' (by omega) i hi hk
    match cl, hl with
    | [l'], hl =>
      have : l = l' := by simpa using hl
      subst this; exact hil
    | l₁ :: l₂ :: ls, hl =>
      simp only
      exact ((uniqueInts_spec _).2 i).2 (List.mem_flatten.2 ⟨l, hl, hil⟩)

/-- **`Crossings` = brute force**: the edge ids returned through the index are exactly (same list,
    same order) the ids the brute-force loop over all edges of the shape keeps. -/
theorem crossings_eq_bruteForce {G : Geo P} {a b : P} {edge : Nat → P × P} {n : Nat} {all : Bool}
    {cl : List (List Nat)} (h : CrossHyp G a b edge n all cl) :
    crossingsFrom G a b edge all (candidates n cl) = crossingsBrute G a b edge n all := by
  unfold crossingsBrute crossingsFrom
  obtain ⟨hs, hr⟩ := candidates_sorted h
  apply List.Perm.eq_of_pairwise' (r := (· < ·))
  · exact hs.filter _
  · exact List.pairwise_lt_range.filter _
  · apply (List.perm_ext_iff_of_nodup ((hs.imp (fun h => Nat.ne_of_lt h)).filter _)
      (List.nodup_range.filter _)).2
    intro i
    simp only [List.mem_filter, List.mem_range]
    constructor
    · rintro ⟨hi, hk⟩; exact ⟨hr i hi, hk⟩
    · rintro ⟨hi, hk⟩; exact ⟨candidates_superset h i hi hk, hk⟩

/-- non-vacuity: 30 edges of a toy polyline, two cells listing overlapping id ranges -/
example : CrossHyp toyGeo (0, -1) (0, 1) (fun i => ((Int.ofNat i - 15, 0), (Int.ofNat i - 14, 0))) 30 true
    [[13, 14, 15], [15, 16]] where
  sorted := by decide
  inRange := by decide
  i2' := by
    intro _ i hi
    have : ∀ i < 30, crossingKept true (crossingSign toyGeo (0, -1) (0, 1)
        ((fun i => ((Int.ofNat i - 15, (0:Int)), (Int.ofNat i - 14, (0:Int)))) i).1
        ((fun i => ((Int.ofNat i - 15, (0:Int)), (Int.ofNat i - 14, (0:Int)))) i).2) = true →
        ∃ l ∈ [[13, 14, 15], [15, 16]], i ∈ l := by decide
    exact this i hi

end S2Proofs.C06
