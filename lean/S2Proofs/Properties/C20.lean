/-
  Property C20 — approximation operators stay within the tolerance they declare.

  What is a theorem here (all inputs, no size bounds), over the models of `S2.Approx`:
    * `SubsampleVertices` (loop over an abstract `findEndVertex` with the contract "returns an index larger
      than its argument and at most the last index"): starts at index 0, indices strictly increase and stay
      in range, the last emitted vertex has the VALUE of the last input vertex (the last INDEX is emitted
      exactly when … see `subsample_last_index`), no two neighbouring output vertices are equal in value;
      the fuel of the model is enough; the control-flow model of `findEndVertex` satisfies the contract.
    * tessellator (`appendProjected` / `appendUnprojected` over an abstract projection): the chain starts at
      the projection of `a`, ends at the (wrapped) projection of `b`; every accepted leaf passed the error
      test; the spherical endpoints of the leaves chain from `a` to `b`; under the abstract hypothesis that
      a passed test bounds the true error, every segment of the emitted chain is within tolerance of the input
      edge (planar continuity of the projected chain is a theorem for the repaired recursion: `projectedSegs_planar`).
  What is NOT proved (numeric, judged by the oracle on every run; statements kept as `def … : Prop`):
    `SubsampleWithinTolerance`, `TessellatorEstimateSound`, `SnapCellIDWithinRadius`.
-/
import S2.Approx

set_option linter.unusedVariables false
set_option linter.unusedSectionVars false

namespace S2Proofs.C20
open S2 S2.Approx

/-- a relation holds between all neighbours of a list -/
def AdjAll {α : Type} (R : α → α → Prop) : List α → Prop
  | [] => True
  | [_] => True
  | a :: b :: t => R a b ∧ AdjAll R (b :: t)

theorem AdjAll_cons {α : Type} {R : α → α → Prop} {a : α} {l : List α}
    (h : ∀ x, l.head? = some x → R a x) (hl : AdjAll R l) : AdjAll R (a :: l) := by
  cases l with
  | nil => trivial
  | cons b t => exact ⟨h b rfl, hl⟩

/-! ## SubsampleVertices -/

section Subsample
variable (n : Nat) (fev : Nat → Nat) (same : Nat → Nat → Bool)

/-- the contract of `findEndVertex` used by the loop: from a start index that is not the last one it returns
    a strictly larger index that is still in range -/
def Contract : Prop := ∀ i, i + 1 < n → i < fev i ∧ fev i < n

/-- Go `==` on points is symmetric and transitive (it is not reflexive on NaN coordinates) -/
def PER : Prop :=
  (∀ i j, same i j = true → same j i = true) ∧ (∀ i j k, same i j = true → same j k = true → same i k = true)

theorem from_bounds (h : Contract n fev) : ∀ fuel index x,
    x ∈ subsampleFrom n fev same fuel index → index < x ∧ x < n := by
  intro fuel
  induction fuel with
  | zero => intro index x hx; simp [subsampleFrom] at hx
  | succ fuel ih =>
    intro index x hx
    unfold subsampleFrom at hx
    split at hx
    · rename_i hlt
      have hc := h index hlt
      simp only [List.mem_append] at hx
      rcases hx with hx | hx
      · split at hx
        · simp at hx
        · simp at hx; subst hx; exact hc
      · have := ih (fev index) x hx
        omega
    · simp at hx

theorem from_increasing (h : Contract n fev) : ∀ fuel index,
    AdjAll (· < ·) (subsampleFrom n fev same fuel index) := by
  intro fuel
  induction fuel with
  | zero => intro index; simp [subsampleFrom, AdjAll]
  | succ fuel ih =>
    intro index
    unfold subsampleFrom
    dsimp only
    split
    · split
      · simpa using ih (fev index)
      · simp only [List.singleton_append]
        refine AdjAll_cons (fun x hx => ?_) (ih (fev index))
        have hm : x ∈ subsampleFrom n fev same fuel (fev index) := by
          cases hl : subsampleFrom n fev same fuel (fev index) with
          | nil => rw [hl] at hx; simp at hx
          | cons b t => rw [hl] at hx; simp at hx; subst hx; simp
        exact (from_bounds n fev same h fuel (fev index) x hm).1
    · simp [AdjAll]

/-- 0 and 1 vertices, exactly as the code behaves: `nil` for the empty polyline, `[0]` for a single vertex
    (for any `findEndVertex`, which is never called) -/
theorem subsample_small : subsampleVertices 0 fev same = [] ∧ subsampleVertices 1 fev same = [0] := by
  constructor
  · simp [subsampleVertices]
  · simp [subsampleVertices, subsampleFrom]

/-- the first vertex is always kept -/
theorem subsample_first (hn : 1 ≤ n) : (subsampleVertices n fev same).head? = some 0 := by
  have : ¬ n < 1 := by omega
  simp [subsampleVertices, this]

/-- output indices are strictly increasing (so no index is emitted twice) -/
theorem subsample_strictly_increasing (h : Contract n fev) :
    AdjAll (· < ·) (subsampleVertices n fev same) := by
  unfold subsampleVertices
  split
  · trivial
  · refine AdjAll_cons (fun x hx => ?_) (from_increasing n fev same h n 0)
    have hm : x ∈ subsampleFrom n fev same n 0 := by
      cases hl : subsampleFrom n fev same n 0 with
      | nil => rw [hl] at hx; simp at hx
      | cons b t => rw [hl] at hx; simp at hx; subst hx; simp
    exact (from_bounds n fev same h n 0 x hm).1

/-- every output index is a vertex index -/
theorem subsample_in_range (h : Contract n fev) : ∀ x ∈ subsampleVertices n fev same, x < n := by
  intro x hx
  unfold subsampleVertices at hx
  split at hx
  · simp at hx
  · simp only [List.mem_cons] at hx
    rcases hx with hx | hx
    · omega
    · exact (from_bounds n fev same h n 0 x hx).2

/-- with an anchor `a` (the last index emitted so far) whose vertex equals the current one, the last emitted
    index has the value of the last vertex, provided the fuel reaches the end -/
theorem from_last (h : Contract n fev) (hp : PER same) : ∀ fuel index a,
    index < n → n ≤ index + 1 + fuel → (a = index ∨ same index a = true) →
    let z := (subsampleFrom n fev same fuel index).getLastD a
    z = n - 1 ∨ same (n - 1) z = true := by
  intro fuel
  induction fuel with
  | zero =>
    intro index a hi hf ha
    have : index = n - 1 := by omega
    simp only [subsampleFrom, List.getLastD_nil]
    rcases ha with ha | ha
    · left; omega
    · right; rw [← this]; exact ha
  | succ fuel ih =>
    intro index a hi hf ha
    unfold subsampleFrom
    dsimp only
    split
    · rename_i hlt
      have hc := h index hlt
      split
      · rename_i hs
        simp only [List.nil_append]
        refine ih (fev index) a hc.2 (by omega) ?_
        rcases ha with ha | ha
        · right; rw [ha]; exact hs
        · right; exact hp.2 _ _ _ hs ha
      · simp only [List.singleton_append, List.getLastD_cons]
        exact ih (fev index) (fev index) hc.2 (by omega) (Or.inl rfl)
    · rename_i hge
      have : index = n - 1 := by omega
      simp only [List.getLastD_nil]
      rcases ha with ha | ha
      · left; omega
      · right; rw [← this]; exact ha

/-- ENDPOINT: the last emitted vertex is the last vertex or equal to it in value.  (The code drops the last
    INDEX when that vertex equals the previously kept one: `[A, B, A]` with a large tolerance gives `[0]`.) -/
theorem subsample_last_value (h : Contract n fev) (hp : PER same) (hn : 1 ≤ n) :
    ∃ z, (subsampleVertices n fev same).getLast? = some z ∧ (z = n - 1 ∨ same (n - 1) z = true) := by
  have hn' : ¬ n < 1 := by omega
  refine ⟨(subsampleFrom n fev same n 0).getLastD 0, ?_, ?_⟩
  · simp [subsampleVertices, hn', List.getLast?_cons]
  · exact from_last n fev same h hp n 0 0 (by omega) (by omega) (Or.inl rfl)

/-- if the last vertex differs in value from every other vertex, the last INDEX is emitted -/
theorem subsample_last_index (h : Contract n fev) (hp : PER same) (hn : 1 ≤ n)
    (hd : ∀ j, j < n - 1 → same (n - 1) j = false) :
    (subsampleVertices n fev same).getLast? = some (n - 1) := by
  obtain ⟨z, hz, hz'⟩ := subsample_last_value n fev same h hp hn
  rcases hz' with hz' | hz'
  · rw [hz, hz']
  · have hzr : z < n := by
      apply subsample_in_range n fev same h
      exact List.mem_of_getLast? hz
    by_cases he : z = n - 1
    · rw [hz, he]
    · have := hd z (by omega)
      rw [this] at hz'; cases hz'

theorem from_no_equal_neighbours (h : Contract n fev) (hp : PER same) : ∀ fuel index a,
    (a = index ∨ same index a = true) →
    AdjAll (fun x y => same y x = false) (a :: subsampleFrom n fev same fuel index) := by
  intro fuel
  induction fuel with
  | zero => intro index a ha; simp [subsampleFrom, AdjAll]
  | succ fuel ih =>
    intro index a ha
    unfold subsampleFrom
    dsimp only
    split
    · split
      · rename_i hs
        simp only [List.nil_append]
        refine ih (fev index) a ?_
        rcases ha with ha | ha
        · right; rw [ha]; exact hs
        · right; exact hp.2 _ _ _ hs ha
      · rename_i hs
        simp only [List.singleton_append]
        refine ⟨?_, ih (fev index) (fev index) (Or.inl rfl)⟩
        rcases ha with ha | ha
        · rw [ha]; simpa using hs
        · cases hsa : same (fev index) a with
          | false => rfl
          | true =>
            exact absurd (hp.2 _ _ _ hsa (hp.1 _ _ ha)) hs
    · simp [AdjAll]

/-- NO DUPLICATE NEIGHBOURS (in value): neighbouring output vertices are never equal, for every polyline
    (also with repeated or revisited vertices) -/
theorem subsample_no_equal_neighbours (h : Contract n fev) (hp : PER same) :
    AdjAll (fun x y => same y x = false) (subsampleVertices n fev same) := by
  unfold subsampleVertices
  split
  · trivial
  · exact from_no_equal_neighbours n fev same h hp n 0 0 (Or.inl rfl)

/-- the fuel `n` of the model is enough: more fuel does not change the output, i.e. the model is the Go
    loop (which has no fuel) whenever `findEndVertex` honours its contract -/
theorem subsampleFrom_fuel (h : Contract n fev) : ∀ fuel index extra,
    n ≤ index + 1 + fuel →
    subsampleFrom n fev same (fuel + extra) index = subsampleFrom n fev same fuel index := by
  intro fuel
  induction fuel with
  | zero =>
    intro index extra hf
    have : ¬ index + 1 < n := by omega
    cases extra with
    | zero => rfl
    | succ e => simp [subsampleFrom, this]
  | succ fuel ih =>
    intro index extra hf
    have : fuel + 1 + extra = (fuel + extra) + 1 := by omega
    rw [this]
    unfold subsampleFrom
    dsimp only
    split
    · rename_i hlt
      have hc := h index hlt
      rw [ih (fev index) extra (by omega)]
    · rfl

end Subsample

/-- non-vacuity: a 5-vertex polyline `A B B C A`-like equality pattern and a `findEndVertex` meeting the contract -/
example : Contract 5 (fun i => i + 1) ∧ PER (fun i j => i % 3 == j % 3) := by
  refine ⟨fun i h => ⟨by show i < i + 1; omega, by show i + 1 < 5; omega⟩, ?_, ?_⟩
  · intro i j h; simp at h ⊢; omega
  · intro i j k h1 h2; simp at h1 h2 ⊢; omega

/-- the documented exception is real: for `[A, B, A]` and a `findEndVertex` that jumps to the end, only index 0
    is emitted (last index dropped, last VALUE kept) -/
example : subsampleVertices 3 (fun _ => 2) (fun i j => i % 2 == j % 2) = [0] := by decide

/-! ## findEndVertex: the control flow satisfies the contract -/

section FEV
variable {W : Type} (G : FEVGeom W) (n : Nat) (tol : F64)

theorem fevLoop_bounds (origin : Nat) : ∀ fuel index w last, index ≤ n →
    index ≤ fevLoop G n tol origin fuel index w last ∧ fevLoop G n tol origin fuel index w last ≤ n := by
  intro fuel
  induction fuel with
  | zero => intro index w last h; simp [fevLoop, h]
  | succ fuel ih =>
    intro index w last h
    unfold fevLoop
    split
    · rename_i hlt
      simp only []
      split
      · exact ⟨Nat.le_refl _, h⟩
      · split
        · exact ⟨Nat.le_refl _, h⟩
        · split
          · have := ih (index + 1) w (G.dist origin index) (by omega); omega
          · split
            · exact ⟨Nat.le_refl _, h⟩
            · have := ih (index + 1) (G.restrict w origin index tol (G.dist origin index)) (G.dist origin index) (by omega)
              omega
    · exact ⟨Nat.le_refl _, h⟩

theorem fzero_not_gt_fzero : F64.gt fzero fzero = false := by decide +kernel

/-- the first candidate is always accepted: with `lastDistance = 0`, a non-negative tolerance and the full
    wedge, the loop gets past `index` -/
theorem fevLoop_first (origin : Nat) (htol : F64.lt tol fzero = false)
    (hfull : ∀ o c, G.inWedge G.full o c = true) : ∀ fuel index, index < n →
    index + 1 ≤ fevLoop G n tol origin (fuel + 1) index G.full fzero := by
  intro fuel index hlt
  unfold fevLoop
  have h2 : F64.gt fzero tol = false := htol
  simp only [hlt, if_true, fzero_not_gt_fzero, h2, Bool.and_false, hfull, Bool.not_true, Bool.false_eq_true,
    if_false]
  split
  · exact (fevLoop_bounds G n tol origin fuel (index + 1) _ _ (by omega)).1
  · exact (fevLoop_bounds G n tol origin fuel (index + 1) _ _ (by omega)).1

/-- `findEndVertex` honours the contract assumed by `SubsampleVertices`, whatever the geometry does, as long
    as the (clamped) tolerance is not negative and the full wedge contains every direction -/
theorem findEndVertex_contract (htol : F64.lt tol fzero = false)
    (hfull : ∀ o c, G.inWedge G.full o c = true) : Contract n (findEndVertex G n tol) := by
  intro i hi
  unfold findEndVertex
  obtain ⟨m, hm⟩ : ∃ m, n = m + 1 := ⟨n - 1, by omega⟩
  have h1 := fevLoop_first G n tol i htol hfull m (i + 1) hi
  have h2 := (fevLoop_bounds G n tol i (m + 1) (i + 1) G.full fzero (by omega)).2
  rw [hm] at *
  omega

end FEV

/-- non-vacuity: tolerance `0` (what a negative request is clamped to) and a geometry whose full wedge contains everything -/
example : F64.lt fzero fzero = false ∧
    (∀ o c, (⟨fun _ _ => fzero, (), fun _ _ _ => true, fun _ _ _ _ _ => ()⟩ : FEVGeom Unit).inWedge () o c = true) :=
  ⟨by decide +kernel, fun _ _ => rfl⟩

/-! ## EdgeTessellator: structure of the recursive bisection -/

theorem AdjAll_append {α : Type} {R : α → α → Prop} : ∀ (l1 l2 : List α), AdjAll R l1 → AdjAll R l2 →
    (∀ x y, l1.getLast? = some x → l2.head? = some y → R x y) → AdjAll R (l1 ++ l2) := by
  intro l1
  induction l1 with
  | nil => intro l2 _ h2 _; simpa using h2
  | cons a t ih =>
    intro l2 h1 h2 hj
    cases t with
    | nil =>
      simp only [List.singleton_append]
      exact AdjAll_cons (fun x hx => hj a x (by simp) hx) h2
    | cons b t' =>
      have hrec := ih l2 h1.2 h2 (fun x y hx hy => hj x y (by simpa [List.getLast?_cons_cons] using hx) hy)
      exact ⟨h1.1, hrec⟩

section Tess
variable {S P : Type} (O : TessOps S P)

/-- same for `appendUnprojected`: it appends the `b` of the accepted leaves -/
theorem appendUnprojected_eq_segs : ∀ fuel pa a pbIn b vs,
    appendUnprojected O fuel pa a pbIn b vs =
      (unprojectedSegs O fuel pa a pbIn b).map (fun l => vs ++ l.map (·.b)) := by
  intro fuel
  induction fuel with
  | zero => intro pa a pbIn b vs; simp [appendUnprojected, unprojectedSegs]
  | succ fuel ih =>
    intro pa a pbIn b vs
    unfold appendUnprojected unprojectedSegs
    dsimp only
    split
    · simp
    · rw [ih]
      cases hl : unprojectedSegs O fuel pa a (O.interpHalf pa (O.wrapDest pa pbIn))
          (O.unproject (O.interpHalf pa (O.wrapDest pa pbIn))) with
      | none => simp
      | some l =>
        simp only [Option.map_some]
        rw [ih]
        cases hr : unprojectedSegs O fuel (O.interpHalf pa (O.wrapDest pa pbIn))
            (O.unproject (O.interpHalf pa (O.wrapDest pa pbIn))) (O.wrapDest pa pbIn) b with
        | none => simp
        | some r => simp [List.append_assoc]

/-- what every successful run of the projected bisection guarantees.  `R` is any reflexive–transitive relation
    that `WrapDestination` respects (`R y (wrap p y)`, e.g. "equal modulo the wrap period"). -/
def LeafSpec (R : P → P → Prop) (pa : P) (a : S) (pbIn : P) (b : S) (l : List (Seg S P)) : Prop :=
  ∃ s0 sl, l.head? = some s0 ∧ l.getLast? = some sl ∧ s0.pa = pa ∧ s0.a = a ∧ sl.b = b ∧ R pbIn sl.pb ∧
    AdjAll (fun s t => s.b = t.a) l ∧ ∀ s ∈ l, O.accept s.pa s.a s.pb s.b = true

theorem LeafSpec_join {R : P → P → Prop} (ht : ∀ x y z, R x y → R y z → R x z)
    {pa pm pm' pbIn pb : P} {a m b : S} {l r : List (Seg S P)}
    (hl : LeafSpec O R pa a pm m l) (hr : LeafSpec O R pm' m pb b r) (hpb : R pbIn pb) :
    LeafSpec O R pa a pbIn b (l ++ r) := by
  obtain ⟨l0, ll, h1, h2, h3, h4, h5, _, h7, h8⟩ := hl
  obtain ⟨r0, rl, g1, g2, g3, g4, g5, g6, g7, g8⟩ := hr
  refine ⟨l0, rl, ?_, ?_, h3, h4, g5, ht _ _ _ hpb g6, ?_, ?_⟩
  · simp [List.head?_append, h1]
  · simp [List.getLast?_append, g2]
  · refine AdjAll_append l r h7 g7 ?_
    intro x y hx hy
    rw [h2] at hx; rw [g1] at hy
    cases hx; cases hy
    rw [h5, g4]
  · intro s hs
    rcases List.mem_append.1 hs with hs | hs
    · exact h8 s hs
    · exact g8 s hs

/-- STRUCTURE (projected): the leaves start at `(pa, a)`, end at `b` with a planar endpoint that is `pbIn` up to
    wrapping, chain on the sphere (`s.b = t.a`), and every leaf passed `estimateMaxError ≤ scaledTolerance` -/
theorem projectedSegs_spec (R : P → P → Prop) (hr : ∀ x, R x x) (ht : ∀ x y z, R x y → R y z → R x z)
    (hw : ∀ p y, R y (O.wrapDest p y)) : ∀ fuel pa a pbIn b l,
    projectedSegs O fuel pa a pbIn b = some l → LeafSpec O R pa a pbIn b l := by
  intro fuel
  induction fuel with
  | zero => intro pa a pbIn b l h; simp [projectedSegs] at h
  | succ fuel ih =>
    intro pa a pbIn b l h
    unfold projectedSegs at h
    dsimp only at h
    split at h
    · rename_i hacc
      cases h
      exact ⟨_, _, rfl, rfl, rfl, rfl, rfl, hw _ _, trivial, by simpa using hacc⟩
    · split at h
      · rename_i l1 h1
        split at h
        · rename_i sl hsl
          split at h
          · rename_i r h2
            cases h
            exact LeafSpec_join O ht (ih _ _ _ _ _ h1) (ih _ _ _ _ _ h2) (hw _ _)
          · cases h
        · cases h
      · cases h

/-- planar continuity of the leaves: each leaf starts where the previous one ended -/
def PlanarChain (l : List (Seg S P)) : Prop := AdjAll (fun s t => s.pb = t.pa) l

/-- PLANAR CONTINUITY (repaired recursion): the right half of every bisection starts at the vertex the left half
    emitted, so the tested leaves are exactly the segments of the emitted chain -/
theorem projectedSegs_planar : ∀ fuel pa a pbIn b l,
    projectedSegs O fuel pa a pbIn b = some l → PlanarChain l := by
  intro fuel
  induction fuel with
  | zero => intro pa a pbIn b l h; simp [projectedSegs] at h
  | succ fuel ih =>
    intro pa a pbIn b l h
    unfold projectedSegs at h
    dsimp only at h
    split at h
    · cases h; trivial
    · split at h
      · rename_i l1 h1
        split at h
        · rename_i sl hsl
          split at h
          · rename_i r h2
            cases h
            refine AdjAll_append l1 r (ih _ _ _ _ _ h1) (ih _ _ _ _ _ h2) ?_
            intro x y hx hy
            obtain ⟨r0, _, g1, _, g3, _⟩ := projectedSegs_spec O (fun _ _ => True) (fun _ => trivial)
              (fun _ _ _ _ _ => trivial) (fun _ _ => trivial) fuel _ _ _ _ r h2
            rw [hsl] at hx; rw [g1] at hy
            cases hx; cases hy
            exact g3.symm
          · cases h
        · cases h
      · cases h

/-- the statement-by-statement `appendProjected` appends exactly the `pb` of the accepted leaves -/
theorem appendProjected_eq_segs : ∀ fuel pa a pbIn b vs,
    appendProjected O fuel pa a pbIn b vs =
      (projectedSegs O fuel pa a pbIn b).map (fun l => vs ++ l.map (·.pb)) := by
  intro fuel
  induction fuel with
  | zero => intro pa a pbIn b vs; simp [appendProjected, projectedSegs]
  | succ fuel ih =>
    intro pa a pbIn b vs
    unfold appendProjected projectedSegs
    dsimp only
    split
    · simp
    · rw [ih]
      cases hl : projectedSegs O fuel pa a (O.wrapDest pa (O.project (O.midpoint a b))) (O.midpoint a b) with
      | none => simp
      | some l =>
        obtain ⟨_, sl, _, h2, _⟩ := projectedSegs_spec O (fun _ _ => True) (fun _ => trivial)
          (fun _ _ _ _ _ => trivial) (fun _ _ => trivial) fuel _ _ _ _ l hl
        have hlast : (vs ++ l.map (·.pb)).getLast? = some sl.pb := by
          cases hm : l.map (·.pb) with
          | nil =>
            have : l = [] := by simpa using hm
            rw [this] at h2; simp at h2
          | cons x t =>
            have h3 : (l.map (·.pb)).getLast? = some sl.pb := by simp [List.getLast?_map, h2]
            rw [hm] at h3
            rw [List.getLast?_append, h3]; rfl
        simp only [Option.map_some, hlast, h2]
        rw [ih]
        cases hr : projectedSegs O fuel sl.pb (O.midpoint a b) (O.wrapDest pa pbIn) b with
        | none => simp
        | some r => simp [List.append_assoc]

theorem unprojectedSegs_spec (R : P → P → Prop) (hr : ∀ x, R x x) (ht : ∀ x y z, R x y → R y z → R x z)
    (hw : ∀ p y, R y (O.wrapDest p y)) : ∀ fuel pa a pbIn b l,
    unprojectedSegs O fuel pa a pbIn b = some l → LeafSpec O R pa a pbIn b l := by
  intro fuel
  induction fuel with
  | zero => intro pa a pbIn b l h; simp [unprojectedSegs] at h
  | succ fuel ih =>
    intro pa a pbIn b l h
    unfold unprojectedSegs at h
    dsimp only at h
    split at h
    · rename_i hacc
      cases h
      exact ⟨_, _, rfl, rfl, rfl, rfl, rfl, hw _ _, trivial, by simpa using hacc⟩
    · split at h
      · rename_i l1 l2 h1 h2
        cases h
        exact LeafSpec_join O ht (ih _ _ _ _ _ h1) (ih _ _ _ _ _ h2) (hw _ _)
      · cases h

/-- ENDPOINTS (projected): a successful `AppendProjected(a, b, nil)` returns a chain that starts at
    `Project(a)`, ends at `Project(b)` up to wrapping, and consists of `Project(a)` followed by the planar
    endpoints of leaves that all passed the error test -/
theorem AppendProjected_endpoints (R : P → P → Prop) (hr : ∀ x, R x x) (ht : ∀ x y z, R x y → R y z → R x z)
    (hw : ∀ p y, R y (O.wrapDest p y)) (fuel : Nat) (a b : S) (vs : List P)
    (h : AppendProjected O fuel a b [] = some vs) :
    ∃ l last, LeafSpec O R (O.project a) a (O.project b) b l ∧ vs = O.project a :: l.map (·.pb) ∧
      vs.head? = some (O.project a) ∧ vs.getLast? = some last ∧ R (O.project b) last := by
  simp only [AppendProjected, List.getLast?_nil] at h
  rw [appendProjected_eq_segs] at h
  cases hl : projectedSegs O fuel (O.project a) a (O.project b) b with
  | none => rw [hl] at h; simp at h
  | some l =>
    rw [hl] at h
    simp only [Option.map_some, Option.some.injEq, List.singleton_append] at h
    have spec := projectedSegs_spec O R hr ht hw fuel _ _ _ _ l hl
    obtain ⟨s0, sl, h1, h2, h3, h4, h5, h6, h7, h8⟩ := spec
    refine ⟨l, sl.pb, ⟨s0, sl, h1, h2, h3, h4, h5, h6, h7, h8⟩, h.symm, by rw [← h]; rfl, ?_, h6⟩
    rw [← h]
    have : (l.map (·.pb)).getLast? = some sl.pb := by simp [List.getLast?_map, h2]
    cases hm : l.map (·.pb) with
    | nil => rw [hm] at this; simp at this
    | cons x t => rw [hm] at this; simpa [List.getLast?_cons_cons] using this

/-- ENDPOINTS (unprojected): a successful `AppendUnprojected(pa, pb, nil)` starts at `Unproject(pa)` and ends
    exactly at `Unproject(pb)` (the point `b` is handed down unchanged) -/
theorem AppendUnprojected_endpoints (fuel : Nat) (pa pb : P) (vs : List S)
    (h : AppendUnprojected O fuel pa pb [] = some vs) :
    ∃ l, LeafSpec O (fun _ _ => True) pa (O.unproject pa) pb (O.unproject pb) l ∧
      vs = O.unproject pa :: l.map (·.b) ∧
      vs.head? = some (O.unproject pa) ∧ vs.getLast? = some (O.unproject pb) := by
  simp only [AppendUnprojected, List.isEmpty_nil, if_true] at h
  rw [appendUnprojected_eq_segs] at h
  cases hl : unprojectedSegs O fuel pa (O.unproject pa) pb (O.unproject pb) with
  | none => rw [hl] at h; simp at h
  | some l =>
    rw [hl] at h
    simp only [Option.map_some, Option.some.injEq, List.singleton_append] at h
    have spec := unprojectedSegs_spec O (fun _ _ => True) (fun _ => trivial) (fun _ _ _ _ _ => trivial)
      (fun _ _ => trivial) fuel _ _ _ _ l hl
    obtain ⟨s0, sl, h1, h2, h3, h4, h5, h6, h7, h8⟩ := spec
    refine ⟨l, ⟨s0, sl, h1, h2, h3, h4, h5, h6, h7, h8⟩, h.symm, by rw [← h]; rfl, ?_⟩
    rw [← h]
    have : (l.map (·.b)).getLast? = some (O.unproject pb) := by simp [List.getLast?_map, h2, h5]
    cases hm : l.map (·.b) with
    | nil => rw [hm] at this; simp at this
    | cons x t => rw [hm] at this; simpa [List.getLast?_cons_cons] using this

/-! ### tolerance, under the abstract hypothesis that the error test is sound -/

/-- Thm(hyp), projected.  `Within p q a b` reads "the planar segment pq, mapped back to the sphere, stays within
    the tolerance of the geodesic edge ab".  If a passed test implies `Within` (THIS is the numeric claim —
    `estimateMaxError / scaleFactor` bounds the true error: `TessellatorEstimateSound`, judged by the oracle) and
    `Within` is monotone in the edge (a half of an edge is part of the edge), then every
    accepted leaf is within tolerance of the INPUT edge. -/
theorem projectedSegs_within (Within : P → P → S → S → Prop)
    (hsound : ∀ pa a pb b, O.accept pa a pb b = true → Within pa pb a b)
    (hL : ∀ p q a b, Within p q a (O.midpoint a b) → Within p q a b)
    (hR : ∀ p q a b, Within p q (O.midpoint a b) b → Within p q a b) : ∀ fuel pa a pbIn b l,
    projectedSegs O fuel pa a pbIn b = some l → ∀ s ∈ l, Within s.pa s.pb a b := by
  intro fuel
  induction fuel with
  | zero => intro pa a pbIn b l h; simp [projectedSegs] at h
  | succ fuel ih =>
    intro pa a pbIn b l h
    unfold projectedSegs at h
    dsimp only at h
    split at h
    · rename_i hacc
      cases h
      intro s hs
      simp only [List.mem_singleton] at hs
      subst hs
      exact hsound _ _ _ _ hacc
    · split at h
      · rename_i l1 h1
        split at h
        · rename_i sl hsl
          split at h
          · rename_i r h2
            cases h
            intro s hs
            rcases List.mem_append.1 hs with hs | hs
            · exact hL _ _ _ _ (ih _ _ _ _ _ h1 s hs)
            · exact hR _ _ _ _ (ih _ _ _ _ _ h2 s hs)
          · cases h
        · cases h
      · cases h

theorem chain_of_leaves (W : P → P → Prop) : ∀ (l : List (Seg S P)) (p : P),
    (∀ s ∈ l, W s.pa s.pb) → PlanarChain l → (∀ s0, l.head? = some s0 → s0.pa = p) →
    AdjAll W (p :: l.map (·.pb)) := by
  intro l
  induction l with
  | nil => intro p _ _ _; trivial
  | cons s t ih =>
    intro p hW hc hp
    have hsp : s.pa = p := hp s rfl
    refine ⟨by rw [← hsp]; exact hW s (by simp), ?_⟩
    refine ih s.pb (fun x hx => hW x (by simp [hx])) ?_ ?_
    · cases t with
      | nil => trivial
      | cons u t' => exact hc.2
    · intro s0 h0
      cases t with
      | nil => simp at h0
      | cons u t' => simp at h0; subst h0; exact hc.1.symm

/-- Thm(hyp), projected, for the EMITTED chain: every segment of the output chain `Project(a) :: leaves.pb` is
    within tolerance of the input edge.  The only hypotheses are the abstract soundness of the error test and the
    monotonicity of "within" under halving the edge; planar continuity is a theorem (`projectedSegs_planar`). -/
theorem AppendProjected_within_partial (Within : P → P → S → S → Prop)
    (hsound : ∀ pa a pb b, O.accept pa a pb b = true → Within pa pb a b)
    (hL : ∀ p q a b, Within p q a (O.midpoint a b) → Within p q a b)
    (hR : ∀ p q a b, Within p q (O.midpoint a b) b → Within p q a b)
    (fuel : Nat) (a b : S) (vs : List P) (h : AppendProjected O fuel a b [] = some vs) :
    AdjAll (fun x y => Within x y a b) vs := by
  simp only [AppendProjected, List.getLast?_nil] at h
  rw [appendProjected_eq_segs] at h
  cases hl : projectedSegs O fuel (O.project a) a (O.project b) b with
  | none => rw [hl] at h; simp at h
  | some l =>
    rw [hl] at h
    simp only [Option.map_some, Option.some.injEq, List.singleton_append] at h
    rw [← h]
    refine chain_of_leaves (fun x y => Within x y a b) l (O.project a)
      (projectedSegs_within O Within hsound hL hR fuel _ _ _ _ l hl) (projectedSegs_planar O fuel _ _ _ _ l hl) ?_
    intro s0 h0
    obtain ⟨s0', _, h1, _, h3, _⟩ := projectedSegs_spec O (fun _ _ => True) (fun _ => trivial)
      (fun _ _ _ _ _ => trivial) (fun _ _ => trivial) fuel _ _ _ _ l hl
    rw [h1] at h0; cases h0; exact h3

/-- Thm(hyp), unprojected: `Within' x y p q` reads "the geodesic segment xy stays within the tolerance of the
    planar edge pq mapped onto the sphere".  The emitted chain `Unproject(pa) :: leaves.b` is sphere-continuous
    unconditionally, so every output segment is within tolerance of the input edge (up to wrapping of `pb`). -/
theorem unprojectedSegs_within (Within' : S → S → P → P → Prop)
    (hsound : ∀ pa a pb b, O.accept pa a pb b = true → Within' a b pa pb)
    (hL : ∀ x y p q, Within' x y p (O.wrapDest p (O.interpHalf p q)) → Within' x y p q)
    (hR : ∀ x y p q, Within' x y (O.interpHalf p q) (O.wrapDest (O.interpHalf p q) q) → Within' x y p q) :
    ∀ fuel pa a pbIn b l, unprojectedSegs O fuel pa a pbIn b = some l →
      ∀ s ∈ l, Within' s.a s.b pa (O.wrapDest pa pbIn) := by
  intro fuel
  induction fuel with
  | zero => intro pa a pbIn b l h; simp [unprojectedSegs] at h
  | succ fuel ih =>
    intro pa a pbIn b l h
    unfold unprojectedSegs at h
    dsimp only at h
    split at h
    · rename_i hacc
      cases h
      intro s hs
      simp only [List.mem_singleton] at hs
      subst hs
      exact hsound _ _ _ _ hacc
    · split at h
      · rename_i l1 l2 h1 h2
        cases h
        intro s hs
        rcases List.mem_append.1 hs with hs | hs
        · exact hL _ _ _ _ (ih _ _ _ _ _ h1 s hs)
        · exact hR _ _ _ _ (ih _ _ _ _ _ h2 s hs)
      · cases h

theorem sphere_chain_of_leaves (W : S → S → Prop) : ∀ (l : List (Seg S P)) (x : S),
    (∀ s ∈ l, W s.a s.b) → AdjAll (fun s t => s.b = t.a) l → (∀ s0, l.head? = some s0 → s0.a = x) →
    AdjAll W (x :: l.map (·.b)) := by
  intro l
  induction l with
  | nil => intro p _ _ _; trivial
  | cons s t ih =>
    intro p hW hc hp
    have hsp : s.a = p := hp s rfl
    refine ⟨by rw [← hsp]; exact hW s (by simp), ?_⟩
    refine ih s.b (fun x hx => hW x (by simp [hx])) ?_ ?_
    · cases t with
      | nil => trivial
      | cons u t' => exact hc.2
    · intro s0 h0
      cases t with
      | nil => simp at h0
      | cons u t' => simp at h0; subst h0; exact hc.1.symm

/-- Thm(hyp), unprojected, for the EMITTED chain -/
theorem AppendUnprojected_within_partial (Within' : S → S → P → P → Prop)
    (hsound : ∀ pa a pb b, O.accept pa a pb b = true → Within' a b pa pb)
    (hL : ∀ x y p q, Within' x y p (O.wrapDest p (O.interpHalf p q)) → Within' x y p q)
    (hR : ∀ x y p q, Within' x y (O.interpHalf p q) (O.wrapDest (O.interpHalf p q) q) → Within' x y p q)
    (fuel : Nat) (pa pb : P) (vs : List S) (h : AppendUnprojected O fuel pa pb [] = some vs) :
    AdjAll (fun x y => Within' x y pa (O.wrapDest pa pb)) vs := by
  simp only [AppendUnprojected, List.isEmpty_nil, if_true] at h
  rw [appendUnprojected_eq_segs] at h
  cases hl : unprojectedSegs O fuel pa (O.unproject pa) pb (O.unproject pb) with
  | none => rw [hl] at h; simp at h
  | some l =>
    rw [hl] at h
    simp only [Option.map_some, Option.some.injEq, List.singleton_append] at h
    rw [← h]
    obtain ⟨s0, sl, h1, h2, h3, h4, h5, h6, h7, h8⟩ := unprojectedSegs_spec O (fun _ _ => True)
      (fun _ => trivial) (fun _ _ _ _ _ => trivial) (fun _ _ => trivial) fuel _ _ _ _ l hl
    refine sphere_chain_of_leaves (fun x y => Within' x y pa (O.wrapDest pa pb)) l (O.unproject pa)
      (unprojectedSegs_within O Within' hsound hL hR fuel _ _ _ _ l hl) h7 ?_
    intro s0' h0
    rw [h1] at h0; cases h0; exact h4

end Tess

/-! ### a concrete projection with a wrapping axis (period 8): non-vacuity and the planar discontinuity -/

/-- `wrapDestination` on an integer axis of period 8 (same shape as the float code: unchanged unless farther
    than half a period, then `a + Remainder(b - a, 8)`) -/
def wrap8 (a b : Int) : Int := if (b - a).natAbs > 4 then a + ((b - a + 4) % 8 - 4) else b

/-- an edge "over the pole": the endpoints project half a period apart (x = 0 and x = 4), the midpoint `50`
    projects to x = 4, the quarter point `25` to x = -1; only the two longest edges fail the error test -/
def poleOps : TessOps Int Int where
  project := fun t => if t = 50 then 4 else if t = 25 then -1 else if t = 100 then 4 else 0
  unproject := fun x => x
  wrapDest := wrap8
  interpHalf := fun p q => (p + q) / 2
  midpoint := fun a b => (a + b) / 2
  accept := fun _ a _ b => !(a == 0 && (b == 100 || b == 50))

/-- the hypotheses of `projectedSegs_spec` / `AppendProjected_endpoints` are satisfiable:
    "equal modulo the period" is reflexive, transitive and respected by `wrap8` -/
example : (∀ x : Int, (x - x) % 8 = 0) ∧ (∀ x y z : Int, (x - y) % 8 = 0 → (y - z) % 8 = 0 → (x - z) % 8 = 0) ∧
    (∀ p y : Int, (y - poleOps.wrapDest p y) % 8 = 0) := by
  refine ⟨fun x => by omega, fun x y z h1 h2 => by omega, fun p y => ?_⟩
  show (y - wrap8 p y) % 8 = 0
  unfold wrap8
  split <;> omega

/-- the former witness of the wrap-continuity defect (edge over the pole, endpoints half a period apart): with the
    repaired recursion the right half continues from the emitted vertex `-4`, the far endpoint is wrapped to `-4`
    as well, and the emitted chain `[0, -1, -4, -4]` has no jump; the leaves are planar-continuous.
    (Before the repair the chain was `[0, -1, -4, 4]`: a jump by the whole period 8.) -/
example :
    projectedSegs poleOps 3 0 0 4 100 = some [⟨0, 0, -1, 25⟩, ⟨-1, 25, -4, 50⟩, ⟨-4, 50, -4, 100⟩] ∧
    AppendProjected poleOps 3 0 100 [] = some [0, -1, -4, -4] := by
  refine ⟨by decide, by decide⟩

/-- the hypotheses of the `…_within` theorems are satisfiable in a non-trivial way: on a line with
    `project t = 2 t`, "the planar segment lies over the edge" is sound for the test that checks exactly that
    and is monotone under halving the edge -/
example :
    let W : Int → Int → Int → Int → Prop :=
      fun p q a b => min (2 * a) (2 * b) ≤ p ∧ p ≤ max (2 * a) (2 * b) ∧ min (2 * a) (2 * b) ≤ q ∧ q ≤ max (2 * a) (2 * b)
    let mid : Int → Int → Int := fun a b => (a + b) / 2
    (∀ p q a b, W p q a (mid a b) → W p q a b) ∧ (∀ p q a b, W p q (mid a b) b → W p q a b) := by
  intro W mid
  constructor
  · intro p q a b h; simp only [W, mid] at h ⊢; omega
  · intro p q a b h; simp only [W, mid] at h ⊢; omega

/-! ## NewEdgeTessellator: the scale factor (repaired constructor, D15) -/

/-- the threshold handed to the error test is the requested tolerance times `tessellationScaleFactor`
    (0.838…, the constant by which the two-point estimate under-reads the true maximum) … -/
theorem scaledTolerance_scaled (tol : F64) (h : F64.gt minTessellationTolerance tol = false) :
    scaledToleranceArg tol = tessellationScaleFactor * tol := by
  simp [scaledToleranceArg, maxAngle, h]

/-- … and requests below the minimum tolerance 1e-13 are clamped to it first: the threshold is then the constant
    `0.838… · 1e-13` -/
theorem scaledTolerance_clamped (tol : F64) (h : F64.gt minTessellationTolerance tol = true) :
    scaledToleranceArg tol = tessellationScaleFactor * minTessellationTolerance := by
  simp [scaledToleranceArg, maxAngle, h]

/-- for a tolerance of 1 radian the threshold is 0.838… (the unrepaired code used 1), and the threshold is below
    the request -/
example : scaledToleranceArg F64.one = tessellationScaleFactor ∧ scaledToleranceArgUnscaled F64.one = F64.one ∧
    F64.lt (scaledToleranceArg F64.one) F64.one = true := by
  decide +kernel

/-! ## snap functions: radii and their inverse (bit-exact soft-float, all levels) -/

/-- `levelForMaxSnapRadius(minSnapRadiusForLevel(L)) = L` for every level -/
theorem levelForMaxSnapRadius_inverse :
    ∀ L : Fin 31, levelForMaxSnapRadius (minSnapRadiusForLevel L.val) = L.val := by decide +kernel

/-- one ulp below the minimum radius of level `L` the next finer level is chosen: the returned level is the
    MINIMUM level whose radius fits -/
theorem levelForMaxSnapRadius_minimal :
    ∀ L : Fin 30, levelForMaxSnapRadius (F64.nextafter (minSnapRadiusForLevel L.val) fzero) = L.val + 1 := by
  decide +kernel

/-- the declared radii strictly decrease with the level / exponent -/
theorem minSnapRadiusForLevel_decreasing :
    ∀ L : Fin 30, F64.lt (minSnapRadiusForLevel (L.val + 1)) (minSnapRadiusForLevel L.val) = true := by
  decide +kernel

theorem minSnapRadiusForExponent_decreasing :
    ∀ e : Fin 10, F64.lt (minSnapRadiusForExponent (e.val + 1)) (minSnapRadiusForExponent e.val) = true := by
  decide +kernel

/-- the default snapper `NewCellIDSnapper()` (repaired): its declared radius is the level-30 radius — positive, mapped
    back to level 30 by `levelForMaxSnapRadius`, and the smallest of all levels -/
theorem newCellIDSnapper_radius :
    F64.gt newCellIDSnapperRadius fzero = true ∧ levelForMaxSnapRadius newCellIDSnapperRadius = 30 ∧
    ∀ L : Fin 31, F64.le newCellIDSnapperRadius (minSnapRadiusForLevel L.val) = true := by
  decide +kernel

/-- rounding a dyadic `m / p` to the nearest integer as `math.Round` does (halves up in magnitude) is off by at
    most one half -/
theorem roundNat_nearest (m p : Nat) (hp : 0 < p) :
    let k := if 2 * (m % p) ≥ p then m / p + 1 else m / p
    2 * (k * p) ≤ 2 * m + p ∧ 2 * m ≤ 2 * (k * p) + p := by
  have h1 := Nat.div_add_mod m p
  have h2 := Nat.mod_lt m hp
  generalize m / p = q at *
  generalize m % p = r at *
  intro k
  simp only [k]
  split
  · rw [Nat.add_mul, Nat.mul_comm q p]; omega
  · rw [Nat.mul_comm q p]; omega

/-- GRID (integer lat-lng snapper, repaired): the integer `k = math.Round(x)` that `IntLatLngSnapper.SnapPoint`
    computes from `x = degrees · 10^e` is within one half of `x` (for a finite `x` with a fractional part; otherwise
    `x` is an integer already): `|k - x| ≤ 1/2`, stated on the exact mantissa `x = ± mant / 2^(-expo)` -/
theorem roundHalfAwayInt_nearest (x : F64) (hf : x.isFinite = true) (he : x.expo < 0) :
    2 * ((roundHalfAwayInt x).natAbs * 2 ^ (-x.expo).toNat) ≤ 2 * x.mant + 2 ^ (-x.expo).toNat ∧
    2 * x.mant ≤ 2 * ((roundHalfAwayInt x).natAbs * 2 ^ (-x.expo).toNat) + 2 ^ (-x.expo).toNat := by
  have hp : 0 < 2 ^ (-x.expo).toNat := Nat.pow_pos (by decide)
  have hne : ¬ x.expo ≥ 0 := by omega
  have key := roundNat_nearest x.mant (2 ^ (-x.expo).toNat) hp
  unfold roundHalfAwayInt
  simp only [hf, Bool.not_true, Bool.false_eq_true, if_false, hne]
  split <;> simpa using key

/-- `CellIDSnapper.SnapPoint` returns `CellID.Point()` of the level-`level` ancestor of the leaf cell of `p` —
    in particular the result depends on `p` only through that cell (two points of one cell snap to the same site) -/
theorem snapCellID_same_cell (level : Nat) (p q : V3)
    (h : CellID.parent (STUV.cellIDFromPoint p) level = CellID.parent (STUV.cellIDFromPoint q) level) :
    snapCellID level p = snapCellID level q := by
  simp [snapCellID, h]

/-! ## the numeric claims (NOT proved; judged by the oracle on every run) -/

/-- exact integer `value · 2^1074` of a finite float -/
def toInt (x : F64) : Int := x.toIntAt (-1074)

/-- squared chord `|p - q|²`, scaled by 2^2148 -/
def chord2 (p q : V3) : Int :=
  (toInt p.x - toInt q.x) ^ 2 + (toInt p.y - toInt q.y) ^ 2 + (toInt p.z - toInt q.z) ^ 2

/-- `p` is a unit vector up to 2^-50 -/
def Unitish (p : V3) : Prop :=
  p.x.isFinite ∧ p.y.isFinite ∧ p.z.isFinite ∧
  ((toInt p.x) ^ 2 + (toInt p.y) ^ 2 + (toInt p.z) ^ 2 - 2 ^ 2148).natAbs ≤ 2 ^ 2098

/-- SNAP RADIUS (cell ids), chord form: a snapped point is no farther (as a chord, which is below the angle)
    than the declared radius.  Numeric; not proved. -/
def SnapCellIDWithinRadius : Prop :=
  ∀ (level : Nat) (p : V3), level ≤ 30 → Unitish p →
    chord2 p (snapCellID level p) ≤ (toInt (minSnapRadiusForLevel level)) ^ 2

/-- SUBSAMPLE TOLERANCE for an abstract distance `dist k i j` (vertex `k` to segment `p[i] p[j]`): every dropped
    vertex between two neighbouring kept indices is within the tolerance of the segment joining them.
    Numeric (depends on the wedge geometry of `findEndVertex`); not proved. -/
def SubsampleWithinTolerance (dist : Nat → Nat → Nat → Int) (tol : Int) (out : List Nat) : Prop :=
  AdjAll (fun i j => ∀ k, i < k → k < j → dist k i j ≤ tol) out

/-- TESSELLATOR ESTIMATE: a passed test bounds the true error — the hypothesis `hsound` of the `…_within`
    theorems, for the real projections and the real `estimateMaxError`.  Numeric; not proved.  It was FALSE before the
    repair of D15 (ratio up to 1.16); for the repaired code the search finds no counterexample below a tolerance of
    0.1 rad; for tolerances ≥ 0.1 rad it is false (known finding `tess-tolerance-coarse`). -/
def TessellatorEstimateSound {S P : Type} (O : TessOps S P) (Within : P → P → S → S → Prop) : Prop :=
  ∀ pa a pb b, O.accept pa a pb b = true → Within pa pb a b

end S2Proofs.C20
