/-
  C13 — every iterator creation site of the packages s2 / s2intersect applies the pending index updates before
  the iterator is positioned (regenerated from the Go source by translator_c14/footprint.go; the discipline is
  `S2.Footprint.siteOK`, see `S2/Footprint.lean`).  This is the static half of "a query issued after Add sees the
  added shapes": seeded change C13_3 (`ShapeIndexIterator.Begin` no longer applies updates) and the pre-repair
  `EdgeQuery.initQueue` (D47) make it fail.  The accesses of index fields are NOT part of this obligation
  (they are in `S2Proofs.C14Footprint.generated_footprint_ok`).
-/
import S2.Footprint
import S2.Generated.FootprintIR
namespace S2Proofs.C13Footprint
open S2.Footprint S2.Generated.FootprintIR

theorem generated_sites_apply_updates : sitesOK program = true := by decide +kernel

/-- non-vacuity: the regenerated program does contain creation sites that need the rule "x already fresh"
    (a positioned-at-end and a method site), i.e. the obligation is not satisfied by an empty footprint -/
theorem generated_sites_present :
    program.funcs.any (fun f => f.body.any (fun it => it.ev matches .create (.newIter .atEnd) _)) = true ∧
    program.funcs.any (fun f => f.body.any (fun it => it.ev matches .create .idxIterator _)) = true := by
  decide +kernel

end S2Proofs.C13Footprint
