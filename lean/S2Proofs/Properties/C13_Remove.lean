/-
  C13 (Remove) — `ShapeIndex.Remove` is part of the history model (work package c13remove).

  `S2.History`: op `remove k` (the k-th shape present in the index), `Index.remove` (delete from the map, the
  never-indexed shortcut, `pendingRemovals`, store of `stale`), ids never reused (`nextID` only grows; a removed id
  keeps the tombstone `Shape.gone` in the positional list and is recorded in `gone`), the rebuild rule of
  `applyUpdatesInternal` as coded, `Len()` = `Index.numPresent`.

  The general theorems of `Properties/C13.lean` (`fixed_answers_history_free`, `fixed_never_stuck`,
  `fixed_options_preserved`) quantify over `List Op` and therefore cover ALL finite histories with `remove`; their
  proofs were extended (`HistoryLemmas.idxOK_remove`, `step_fixed`).  The specification names shapes by IDENTITY (the
  id `Add` returned).  This file adds
    * `fixed_answers_by_identity`: the answer in identities IS the answer of a fresh index holding exactly the present
      shapes (ids 0 … m-1), with fresh id j replaced by the identity of the j-th present shape — what the harness
      compares;
    * the regression witnesses D52 (old sentinel `Len()`), D53 (`Shape(0)` of a single-shape index), and the removal
      stub of the tree before a4a8224.
-/
import S2Proofs.Properties.C13
import S2Proofs.History.Identity
namespace S2Proofs.C13
open S2.History S2Proofs.HistoryLemmas

/-! ### regression witnesses -/

def noD52 : Fixes := { Fixes.all with d52 := false }
def noD53 : Fixes := { Fixes.all with d53 := false }
def G : Shape := ⟨64, true⟩       -- a loop around the tracker origin (interior tracked)

/-- D52 (old sentinel `Len()`): four loops, the first two removed: the present shapes have ids 2, 3 ≥ Len() = 2 and
    are not entered correctly into the cells; fresh objects see both -/
theorem current_D52_wrong :
    outs noD52 8 .normal [.add L, .add L, .add G, .add L, .remove 0, .remove 0, .query] =
      [.id 0, .id 1, .id 2, .id 3, .unit, .unit, .seen []] ∧
    (runSpec (abs (State.init noD52 8 false .normal 8)) [.add L, .add L, .add G, .add L, .remove 0, .remove 0, .query]).2 =
      [.id 0, .id 1, .id 2, .id 3, .unit, .unit, .seen [2, 3]] := by decide

/-- D52, shortest: two shapes, the first removed (the history found by the harness when 58d7f1b is reverted) -/
theorem current_D52_shortest :
    outs noD52 8 .normal [.add L, .add L, .remove 0, .query] = [.id 0, .id 1, .unit, .seen []] ∧
    outs Fixes.all 8 .normal [.add L, .add L, .remove 0, .query] = [.id 0, .id 1, .unit, .seen [1]] := by decide

theorem current_D52_not_history_free : ¬ AnswersHistoryFree noD52 := by
  intro h
  have := h 8 false .normal 8 [.add L, .add L, .remove 0, .query]
  revert this; decide

/-- D52 needs a removal: as long as nothing has been removed the old sentinel is harmless -/
theorem current_D52_partial_no_removal {x y : Index} (h : IdxOK x) (hg : x.gone = []) (hr : x.pendingRemovals = [])
    (hy : maybeApplyUpdates noD52 x = some y) : y.cells = liveIds x.shapes :=
  (mau_some h hy (Or.inr ⟨hg, hr⟩)).2.2.2.2

example : IdxOK Index.new ∧ Index.new.gone = [] ∧ Index.new.pendingRemovals = [] := ⟨idxOK_new, rfl, rfl⟩

/-- D53: two shapes, the first removed: the query of the single remaining shape (id 1) panics -/
theorem current_D53_panics :
    outs noD53 8 .normal [.add L, .add L, .remove 0, .query] = [.id 0, .id 1, .unit, .panicked] ∧
    outs noD53 8 .normal [.add L, .add L, .remove 1, .query] = [.id 0, .id 1, .unit, .seen [0]] := by decide

theorem current_D53_not_never_stuck : ¬ NeverStuck noD53 := by
  intro h
  have := h 8 false .normal 8 [.add L, .add L, .remove 0, .query]
  revert this; decide

/-- before a4a8224 (`removeShapeInternal` is an empty stub and the update was incremental): a removed indexed shape
    stays visible -/
theorem current_D4_remove_stale :
    outs { Fixes.all with d4 := false } 8 .normal [.add L, .add L, .build, .remove 0, .query] =
      [.id 0, .id 1, .unit, .unit, .seen [0, 1]] ∧
    outs Fixes.all 8 .normal [.add L, .add L, .build, .remove 0, .query] = [.id 0, .id 1, .unit, .unit, .seen [1]] := by decide

/-! ### the repaired model: histories with `remove` -/

/-- ids are never reused: Add after removals returns the next id; a removal of a never-indexed shape leaves no
    trace; a removal of an indexed shape forces the rebuild; removal of the only shape; Reset after a removal -/
example : outs Fixes.all 8 .normal
    [.add L, .add G, .build, .remove 0, .add L, .query, .remove 1, .query, .remove 0, .query, .add L, .reset, .add L, .query] =
    [.id 0, .id 1, .unit, .unit, .id 2, .seen [1, 2], .unit, .seen [1], .unit, .seen [], .id 3, .unit, .id 0, .seen [0]] := by
  decide

/-- the general theorem, instantiated at histories that contain removals (non-vacuity above) -/
theorem fixed_answers_history_free_remove (n : Nat) (o : Bool) (pk : PolyKind) (m : Nat) (h1 h2 : List Op) (k : Nat) :
    (runV Fixes.all (State.init Fixes.all n o pk m) (h1 ++ .remove k :: h2)).2 =
      (runSpec (abs (State.init Fixes.all n o pk m)) (h1 ++ .remove k :: h2)).2 :=
  fixed_answers_history_free n o pk m _

/-- the index bookkeeping stays well-formed through `Remove` in every reachable state — in particular a queued
    removal always meets a non-first update, so the full rebuild (and not the empty stub) handles it -/
theorem fixed_removal_meets_rebuild (n : Nat) (o : Bool) (pk : PolyKind) (m : Nat) (h : List Op) :
    let x := (runV Fixes.all (State.init Fixes.all n o pk m) h).1.idx
    (x.pendingRemovals ≠ [] → x.pendingAdditionsPos ≠ 0 ∧ x.status ≠ .fresh) ∧ x.nextID = x.shapes.length := by
  intro x
  have hs := (run_fixed _ (sok_init Fixes.all n o pk m true (fun _ => Or.inl rfl)) h).2
  refine ⟨fun hr => ⟨hs.idx.remPos hr, fun hf => hr (hs.idx.freshRem hf)⟩, hs.idx.next⟩

/-! ### answers by identity = answers of fresh objects over the present shapes -/

theorem runSpec_append (g : Geo) (a b : List Op) :
    runSpec g (a ++ b) = ((runSpec (runSpec g a).1 b).1, (runSpec g a).2 ++ (runSpec (runSpec g a).1 b).2) := by
  induction a generalizing g with
  | nil => simp [runSpec]
  | cons x t ih => simp [runSpec, ih]

/-- ALL finite histories `h` (adds, removals, builds, resets, queries, EdgeQuery calls, targets, …), followed by a
    question `op` to the index (`query`, `call`, `tcall`): the answer of the long-lived objects, in shape identities,
    is the answer of FRESH objects — a fresh index holding exactly the shapes present after `h`, added in order (ids
    0 … m-1), a fresh query with the caller's options, a fresh target — with fresh id `j` replaced by the identity of
    the `j`-th present shape.  (The harness compares exactly these two, naming shapes by their position among the
    present shapes on both sides.) -/
theorem fixed_answers_by_identity (n : Nat) (o : Bool) (pk : PolyKind) (m : Nat) (h : List Op) (op : Op)
    (hq : isIndexQuery op = true) :
    let g := (runSpec (abs (State.init Fixes.all n o pk m)) h).1
    (runV Fixes.all (State.init Fixes.all n o pk m) (h ++ [op])).2.getLast? =
      some (relabelOut (label g.shapes.length g.gone) (spec (freshGeo g) op).2) := by
  intro g
  rw [fixed_answers_history_free n o pk m (h ++ [op]), runSpec_append]
  have hg0 : GeoOK (abs (State.init Fixes.all n o pk m)) :=
    ⟨by intro j s hj; simp [abs, State.init, Index.new] at hj, by intro i hi; simp [abs, State.init, Index.new] at hi⟩
  have hg : GeoOK g := geoOK_run _ hg0 h
  simp only [runSpec, List.getLast?_append, List.getLast?_singleton, Option.or_some]
  rw [← spec_by_identity g hg op hq]
  simp [g]

/-- non-vacuity: after removing the first two of four shapes, the identities 2, 3 are the fresh ids 0, 1 -/
example :
    let g := (runSpec (abs (State.init Fixes.all 8 false .normal 8)) [.add L, .add L, .add G, .add L, .remove 0, .remove 0]).1
    dense g.shapes g.gone = [G, L] ∧ (spec (freshGeo g) .query).2 = .seen [0, 1] ∧
    relabelOut (label g.shapes.length g.gone) (.seen [0, 1]) = .seen [2, 3] := by decide

end S2Proofs.C13
