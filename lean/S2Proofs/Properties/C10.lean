/-
  Property C10 — bounds are conservative: nothing contained lies outside its bound; the convex hull is
  convex and contains every input point.

  Model: `S2.Bounds` (RectBounder fold, Loop.initBound / Invert, polygon bound, ExpandForSubregions control
  flow, ConvexHullQuery.monotoneChain / ConvexHull).  Helper lemmas and the non-vacuity instances live in
  `S2Proofs/C10/Rect.lean` and `S2Proofs/C10/Hull.lean` (namespace `S2Proofs.C10L`); this file states the
  property theorems.

  What is a THEOREM here
    (a) composition: if every per-edge rectangle of `RectBounder.AddPoint` contains the computed lat-lng of every
        point of its edge (`EdgeSound`), the accumulated bound — also after `expanded(2ε,0).PolarClosure()` —
        contains the computed lat-lng of every vertex and of every point of every edge;
    (b) `Loop.initBound` / `Invert` / polygon bound / `ExpandForSubregions` never lose a point, given the stated
        geometric hypotheses `hN hS hL hF` (see `loop_bound_contains`);
    (c) Andrew's monotone chain: the chain is a subsequence of the sorted input, every consecutive triple turns
        counter-clockwise, and every input point is a hull vertex or lies strictly left of every hull edge,
        under the laws `SignLaws` of the orientation predicate (cyclic symmetry, antisymmetry, non-degeneracy
        — true of `RobustSign` on distinct points — and three "points sorted around a far origin" instances of
        Knuth's transitivity axiom); instance: integer points of the plane in general position.
  What stays a STATEMENT (`def … : Prop`, partial): everything numeric — the padding constants of `AddPoint`
  (`edgeBound_sufficient_statement`), the sufficiency of `ExpandForSubregions`
  (`expandForSubregions_covers_subloops_statement`), `Cap` / `Cell` bounds (`capBound_conservative_statement`),
  and that `s1.Interval.Expanded` keeps every point (`LngExpandKeeps`: false for float64 in general, see C19).
  These are searched by the oracle (`Oracle/C10.lean`, `harness/c10.go`).
-/
import S2Proofs.C10.Rect
import S2Proofs.C10.Hull

set_option linter.unusedSectionVars false
set_option linter.unusedVariables false

namespace S2Proofs.C10
open S2 S2.IvlOps S2.Bounds S2Proofs S2Proofs.C19 S2Proofs.C10L

/-! ## (a) RectBounder: composition of conservative per-edge bounds -/

section Rect
variable {α : Type} [LinearOrder α] [IvlOps α] [IvlLaws α] {P : Type} [Inhabited P]
variable {E : EdgeBounder P α} {onEdge : P → P → P → Prop}

/-- The running bound of the bounder is a valid rectangle after any vertex chain. -/
theorem rectBounder_running_valid (hE : EdgeSound E onEdge) (vs : List P) :
    (runChain E vs).bound.isValid = true := runChain_valid hE vs

/-- The running bound contains the computed lat-lng of every vertex added. -/
theorem rectBounder_running_contains_vertex (hE : EdgeSound E onEdge) (vs : List P) (v : P) (hv : v ∈ vs) :
    (runChain E vs).bound.containsLatLng (E.ll v) = true := runChain_contains_vertex hE vs v hv

/-- The running bound contains the computed lat-lng of every point of every edge (consecutive vertices). -/
theorem rectBounder_running_contains_edge (hE : EdgeSound E onEdge) (vs : List P) (a b p : P)
    (hab : [a, b] <:+: vs) (hp : onEdge a b p) :
    (runChain E vs).bound.containsLatLng (E.ll p) = true := runChain_contains_edge hE vs a b p hab hp

variable [IvlArithLaws α]

/-- `RectBound()` (after `expanded(2ε, 0).PolarClosure()`) is a valid rectangle. -/
theorem rectBound_valid (hE : EdgeSound E onEdge) (vs : List P) : (chainBound E vs).isValid = true :=
  chainBound_valid hE vs

/-- `RectBound()` contains the computed lat-lng of every vertex of the chain
    (`hk`: `s1.Interval.Expanded(0)` keeps every point — float arithmetic, hypothesis). -/
theorem rectBound_contains_vertex (hE : EdgeSound E onEdge) (hk : LngExpandKeeps (zero : α)) (vs : List P)
    (v : P) (hv : v ∈ vs) : (chainBound E vs).containsLatLng (E.ll v) = true :=
  chainBound_contains_vertex hE hk vs v hv

/-- `RectBound()` contains the computed lat-lng of every point of every edge of the chain. -/
theorem rectBound_contains_edge (hE : EdgeSound E onEdge) (hk : LngExpandKeeps (zero : α)) (vs : List P)
    (a b p : P) (hab : [a, b] <:+: vs) (hp : onEdge a b p) :
    (chainBound E vs).containsLatLng (E.ll p) = true := chainBound_contains_edge hE hk vs a b p hab hp

/- non-vacuity: a concrete bounder on a 3×3 grid (exact arithmetic, π = 4) satisfies `EdgeSound`, and
    `LngExpandKeeps 0` holds for exact arithmetic -/
open S2.IvlInt in
example : EdgeSound E9 onEdge9 ∧ LngExpandKeeps (zero : Int) := ⟨edgeSound9, lngExpandKeeps_int 0 (by decide)⟩

/-- FULL numeric statement (NOT proved; partial): the real per-edge rectangle of `AddPoint` — cross product,
    `atan2` / `asin` latitude extremum, the constants 1.91346e-15, 6.06638e-16, 6.83174e-31, 3ε, ε — contains the
    computed lat-lng of every point of the edge once expanded by the final 2ε; i.e. the concrete float code
    instantiates `EdgeSound`.  Searched by the oracle ops `bndloop` / `bndpoly` / `bndline`.  It was FALSE for the
    original code: the latitude budget `2*asin(0.5*|a-b|*sin(maxLat))` loses accuracy without bound for nearly
    antipodal endpoints (finding F1, repaired by docs/fixes/fix_C10_F1.diff: the asin argument is rounded up). -/
def edgeBound_sufficient_statement (E : EdgeBounder P α) (onEdge : P → P → P → Prop) : Prop :=
  EdgeSound E onEdge

/-! ## (b) Loop.initBound, Invert, polygon bound, ExpandForSubregions -/

/-- `poleAdjust` (the pole part of `initBound`) of a valid non-empty rectangle is valid. -/
theorem initBound_valid (b : LLRect α) (hb : b.isValid = true) (hne : b.isEmpty = false) (cN cS : Bool) :
    (poleAdjust b cN cS).isValid = true := poleAdjust_valid b hb hne cN cS

/-- THE initBound theorem.  `b` = the RectBounder result, `cN` / `cS` = the (correct) answers of
    `ContainsPoint(north / south pole)`, `inside` = the points the loop contains, `bdry` = the points of its
    edges.  Assumed: `hbd` (b contains the boundary: part (a)); GEOMETRY `hN` (no north pole inside ⇒ every
    inside point is at most as far north as some boundary point, in computed latitudes), `hS` (same, south),
    `hL` (no pole inside ⇒ the longitude of an inside point lies in every valid arc that covers the boundary
    longitudes), `hF` (only the south pole inside ⇒ the computed longitude bound is full — the comment in
    `initBound`; without it the code does not even look at the south pole). -/
theorem initBound_contains (b : LLRect α) (hb : b.isValid = true) (cN cS : Bool)
    (ll : P → LatLng α) (inside bdry : P → Prop)
    (hll : ∀ p, (ll p).isValid = true)
    (hbd : ∀ q, bdry q → b.containsLatLng (ll q) = true)
    (hN : cN = false → ∀ p, inside p → ∃ q, bdry q ∧ (ll p).lat ≤ (ll q).lat)
    (hS : cS = false → ∀ p, inside p → ∃ q, bdry q ∧ (ll q).lat ≤ (ll p).lat)
    (hL : cN = false → cS = false → ∀ p, inside p → ∀ I : S1 α, I.isValid = true →
            (∀ q, bdry q → I.contains (ll q).lng = true) → I.contains (ll p).lng = true)
    (hF : cN = false → cS = true → b.lng.isFull = true) :
    ∀ p, inside p → (poleAdjust b cN cS).containsLatLng (ll p) = true :=
  poleAdjust_contains b hb cN cS ll inside bdry hll hbd hN hS hL hF

/-- `poleAdjust` never loses a point of the RectBounder result. -/
theorem initBound_mono (b : LLRect α) (hb : b.isValid = true) (cN cS : Bool) (x : LatLng α)
    (hx : b.containsLatLng x = true) : (poleAdjust b cN cS).containsLatLng x = true :=
  poleAdjust_mono b hb cN cS x hx

/-- (a) + initBound: the bound of a normal loop contains the computed lat-lng of every point of its boundary
    and of every point it contains. -/
theorem loop_bound_contains (hE : EdgeSound E onEdge) (hk : LngExpandKeeps (zero : α))
    (vs : List P) (cN cS : Bool) (inside : P → Prop)
    (hN : cN = false → ∀ p, inside p →
      ∃ q, OnChain onEdge (closeChain vs) q ∧ (E.ll p).lat ≤ (E.ll q).lat)
    (hS : cS = false → ∀ p, inside p →
      ∃ q, OnChain onEdge (closeChain vs) q ∧ (E.ll q).lat ≤ (E.ll p).lat)
    (hL : cN = false → cS = false → ∀ p, inside p → ∀ I : S1 α, I.isValid = true →
      (∀ q, OnChain onEdge (closeChain vs) q → I.contains (E.ll q).lng = true) →
      I.contains (E.ll p).lng = true)
    (hF : cN = false → cS = true → (chainBound E (closeChain vs)).lng.isFull = true) :
    ∀ p, inside p ∨ OnChain onEdge (closeChain vs) p →
      (loopBound E .normal vs cN cS).containsLatLng (E.ll p) = true :=
  loopBound_contains hE hk vs cN cS inside hN hS hL hF

theorem loop_bound_valid (hE : EdgeSound E onEdge) (k : LoopKind) (vs : List P) (cN cS : Bool) :
    (loopBound E k vs cN cS).isValid = true := loopBound_valid hE k vs cN cS

/-- the full loop's bound contains every valid lat-lng; the empty loop's bound is the empty rectangle -/
theorem loop_bound_special (vs : List P) (cN cS : Bool) :
    (∀ x : LatLng α, x.isValid = true → (loopBound E .full vs cN cS).containsLatLng x = true) ∧
    loopBound E .empty vs cN cS = LLRect.empty :=
  ⟨fun x hx => loopBound_full_contains vs cN cS x hx, rfl⟩

/-- `Invert`: if the recomputed bound of the inverted loop is conservative then so is the bound `Invert` stores
    (the shortcut branch stores the full rectangle). -/
theorem invert_bound_contains (k : LoopKind) (vs : List P) (bound : LLRect α) (cN cS : Bool)
    (insideInv : P → Prop) (hll : ∀ p, insideInv p → (E.ll p).isValid = true)
    (hre : ∀ p, insideInv p → (loopBound E k.invert vs.reverse cN cS).containsLatLng (E.ll p) = true) :
    ∀ p, insideInv p → (invertBound E k vs bound cN cS).containsLatLng (E.ll p) = true :=
  invertBound_contains k vs bound cN cS insideInv hll hre

theorem invert_bound_valid (hE : EdgeSound E onEdge) (k : LoopKind) (vs : List P) (bound : LLRect α)
    (cN cS : Bool) : (invertBound E k vs bound cN cS).isValid = true := invertBound_valid hE k vs bound cN cS

end Rect

section Poly
variable {α : Type} [LinearOrder α] [IvlOps α] [IvlLaws α] {P : Type}

/-- Polygon bound: it contains whatever the bound of any loop that is not a hole contains. -/
theorem polygon_bound_contains (loops : List (Bool × LLRect α)) (hv : ∀ l ∈ loops, l.2.isValid = true)
    (r : LLRect α) (x : LatLng α) (hr : (false, r) ∈ loops) (hx : r.containsLatLng x = true) :
    (polygonBound loops).containsLatLng x = true := polygonBound_contains loops hv r x hr hx

theorem polygon_bound_valid (loops : List (Bool × LLRect α)) (hv : ∀ l ∈ loops, l.2.isValid = true) :
    (polygonBound loops).isValid = true := polygonBound_valid loops hv

/-- If every point of the polygon lies in some non-hole loop whose bound is conservative for it
    (`hshell`: nesting — a hole lies inside its parent shell — plus the loop theorem), the polygon bound is
    conservative. -/
theorem polygon_bound_conservative (loops : List (Bool × LLRect α)) (hv : ∀ l ∈ loops, l.2.isValid = true)
    (ll : P → LatLng α) (insidePoly : P → Prop)
    (hshell : ∀ p, insidePoly p → ∃ r, (false, r) ∈ loops ∧ r.containsLatLng (ll p) = true) :
    ∀ p, insidePoly p → (polygonBound loops).containsLatLng (ll p) = true :=
  polygon_bound_sound loops hv ll insidePoly hshell

variable [IvlArithLaws α]

/-- `ExpandForSubregions` returns a valid rectangle. -/
theorem expandForSubregions_valid (O : SubOps α) (b : LLRect α) (hb : b.isValid = true) :
    (expandForSubregions O b).isValid = true := C10L.expandForSubregions_valid O b hb

/-- `ExpandForSubregions b ⊇ b` (all three branches), given that the longitude expansions by 0 and by π keep
    every point (float arithmetic, hypotheses) and the latitude expansion is non-negative. -/
theorem expandForSubregions_contains (O : SubOps α) (b : LLRect α) (hb : b.isValid = true)
    (hlat : (zero : α) ≤ O.latExpansion) (hk0 : LngExpandKeeps (zero : α)) (hkpi : LngExpandKeeps (pi : α))
    (x : LatLng α) (hx : b.containsLatLng x = true) : (expandForSubregions O b).containsLatLng x = true :=
  C10L.expandForSubregions_contains O b hb hlat hk0 hkpi x hx

/-- branch structure: empty stays, "nearly antipodal" gives the full rectangle, otherwise expand + polar closure -/
theorem expandForSubregions_branches (O : SubOps α) (b : LLRect α) :
    (b.isEmpty = true → expandForSubregions O b = b) ∧
    (b.isEmpty = false → O.nearlyAntipodal b = true → expandForSubregions O b = LLRect.full) ∧
    (b.isEmpty = false → O.nearlyAntipodal b = false → expandForSubregions O b =
      (b.expanded ⟨O.latExpansion, if O.lngGapNonpos b then pi else zero⟩).polarClosure) :=
  ⟨C10L.expandForSubregions_empty O b, C10L.expandForSubregions_full_case O b,
   C10L.expandForSubregions_general_case O b⟩

/- non-vacuity for the two longitude hypotheses and a concrete `SubOps` -/
open S2.IvlInt in
example : LngExpandKeeps (zero : Int) ∧ LngExpandKeeps (pi : Int) ∧ (zero : Int) ≤ O9.latExpansion :=
  ⟨lngExpandKeeps_int 0 (by decide), lngExpandKeeps_int 4 (by decide), by decide⟩

/-- FULL numeric statement (NOT proved; partial): the sub-region guarantee of `ExpandForSubregions`.
    Searched by the oracle op `bndsub` on exactly nested loop pairs. -/
def expandForSubregions_covers_subloops_statement {Loop : Type} (O : SubOps α) (boundOf : Loop → LLRect α)
    (loopContains : Loop → Loop → Prop) (containsPole : Loop → Prop) : Prop :=
  C10L.expandForSubregions_covers_subloops_statement O boundOf loopContains containsPole

/-- FULL numeric statement (NOT proved; partial): cap / cell / cell-union bounds.  For an abstract region with
    membership `inside`, its computed cap (`capContains` = `Cap.ContainsPoint`) and its computed cell-union bound
    (`cellsCover`), every contained point is in both.  Searched by the oracle clauses `cap`, `capexact`,
    `cells`, `caprect`.  The search found violations on the original code (no rounding slack in `Cell.CapBound`,
    `Rect.CapBound`, `Cap.RectBound`: findings F2, F3, repaired by docs/fixes/fix_C10_F2.diff, fix_C10_F3.diff). -/
def capBound_conservative_statement (inside capContains cellsCover : P → Prop) : Prop :=
  ∀ p, inside p → capContains p ∧ cellsCover p

end Poly

/-! ## (c) ConvexHullQuery: Andrew's monotone chain -/

section Hull
variable {P : Type} (sgn : P → P → P → Int) {lt : P → P → Prop}

/-- The chain is a subsequence of the (sorted) input. -/
theorem monotoneChain_subsequence (pts : List P) : (monotoneChain sgn pts).Sublist pts :=
  monotoneChain_sublist sgn pts

/-- Every consecutive triple of the chain turns counter-clockwise (no hypothesis on `sgn`). -/
theorem monotoneChain_convex (pts : List P) :
    ∀ a b c, [a, b, c] <:+: monotoneChain sgn pts → sgn a b c = 1 := monotoneChain_turns_left sgn pts

/-- The chain starts at the first and ends at the last input point. -/
theorem monotoneChain_endpoints (pts : List P) (hp : pts ≠ []) :
    (monotoneChain sgn pts).head? = pts.head? ∧ (monotoneChain sgn pts).getLast? = pts.getLast? :=
  monotoneChain_head_last sgn pts hp

variable {sgn}

/-- Under `SignLaws`, for input sorted by `lt`: every input point other than the endpoints of a chain edge
    lies strictly left of that edge. -/
theorem monotoneChain_contains_input (h : SignLaws sgn lt) {pts : List P} (hs : pts.Pairwise lt) :
    ∀ a b, [a, b] <:+: monotoneChain sgn pts → ∀ p ∈ pts, p ≠ a → p ≠ b → sgn a b p = 1 :=
  monotoneChain_all_left h hs

/-- The hull loop's vertices are input points. -/
theorem hull_vertices_are_inputs {pts vs : List P} (h3 : 3 ≤ pts.length)
    (hv : convexHullSorted sgn pts = .loop vs) : ∀ v ∈ vs, v ∈ pts := hull_subset h3 hv

/-- THE hull theorem: every input point is a vertex of the hull loop or lies strictly left of every edge of the
    loop, the closing edge included (`hl`, `hu`: the laws for the sort order and for its reverse). -/
theorem hull_contains_input (hl : SignLaws sgn lt) (hu : SignLaws sgn (fun a b => lt b a)) {pts vs : List P}
    (hs : pts.Pairwise lt) (h3 : 3 ≤ pts.length) (hv : convexHullSorted sgn pts = .loop vs) :
    ∀ a b, CyclicPair vs a b → ∀ p ∈ pts, p ≠ a → p ≠ b → sgn a b p = 1 :=
  hull_all_left hl hu hs h3 hv

/-- The hull loop is convex: every cyclically consecutive triple turns counter-clockwise. -/
theorem hull_is_convex (hl : SignLaws sgn lt) (hu : SignLaws sgn (fun a b => lt b a)) {pts vs : List P}
    (hs : pts.Pairwise lt) (h3 : 3 ≤ pts.length) (hv : convexHullSorted sgn pts = .loop vs) :
    ∀ a b c, CyclicPair vs a b → CyclicPair vs b c → c ≠ a → sgn a b c = 1 :=
  hull_convex hl hu hs h3 hv

/-- the same over literal cyclic windows of the vertex list -/
theorem hull_is_convex_window (hl : SignLaws sgn lt) (hu : SignLaws sgn (fun a b => lt b a)) {pts vs : List P}
    (hs : pts.Pairwise lt) (h3 : 3 ≤ pts.length) (hv : convexHullSorted sgn pts = .loop vs) :
    ∀ a b c, [a, b, c] <:+: vs ++ vs.take 2 → c ≠ a → sgn a b c = 1 :=
  hull_convex_window hl hu hs h3 hv

/-- Degenerate inputs: no point → empty loop, one → `singlePointLoop`, two → `singleEdgeLoop`; a bounding cap
    that is not convex → the full loop. -/
theorem hull_degenerate (eq : P → P → Bool) (origin p a b : P) (pts : List P) :
    convexHullSorted sgn ([] : List P) = .empty ∧ convexHullSorted sgn [p] = .single p ∧
    convexHullSorted sgn [a, b] = .edge a b ∧ convexHull sgn eq true origin pts = .full :=
  ⟨rfl, rfl, rfl, rfl⟩

/-- Duplicate removal keeps exactly the input points, once each. -/
theorem hull_dedup (eq : P → P → Bool) (heq : ∀ a b, eq a b = true ↔ a = b) (pts : List P) :
    (dedupBy eq pts).Nodup ∧ ∀ p, p ∈ dedupBy eq pts ↔ p ∈ pts :=
  ⟨dedupBy_nodup eq heq pts, mem_dedupBy eq heq pts⟩

/-- non-vacuity: seven integer points in general position (sorted lexicographically, one x-tie) satisfy the laws
    in both directions; their hull drops two points -/
example : SignLaws sgn7 (fun i j : Fin 7 => i < j) ∧ SignLaws sgn7 (fun i j : Fin 7 => j < i) ∧
    (List.finRange 7).Pairwise (fun i j : Fin 7 => i < j) ∧
    convexHullSorted sgn7 (List.finRange 7) = .loop [0, 2, 5, 6, 4] :=
  ⟨signLaws7, signLaws7_rev, sorted7, hull7⟩

/-- The laws hold for ALL integer points of the plane in general position (no three collinear), sorted
    lexicographically, with the plain determinant sign. -/
theorem signLaws_integer_plane (S : Int × Int → Prop)
    (hS : ∀ a b c, S a → S b → S c → a ≠ b → b ≠ c → a ≠ c → det a b c ≠ 0) :
    SignLaws (fun a b c : {p // S p} => sgnZ a.1 b.1 c.1) (fun a b => lexLt a.1 b.1) ∧
    SignLaws (fun a b c : {p // S p} => sgnZ a.1 b.1 c.1) (fun a b => lexLt b.1 a.1) :=
  ⟨signLaws_genPos S hS, signLaws_genPos_rev S hS⟩

/-- FULL statement that is NOT proved (partial): the link from `ConvexHull()` to the sorted-input hypothesis —
    `sort.Slice` with `RobustSign(origin, ·, ·) == CCW` yields a `Pairwise lt` list for which `SignLaws` hold
    (needs: all points strictly inside a hemisphere about the cap centre, `origin` outside; spherical geometry
    of `RobustSign` incl. its symbolic perturbation).  The oracle op `hull` checks, on the library's own output
    and with exact signs, convexity and containment of every input point, and compares the whole hull with this
    model run on the exact orientation. -/
def convexHull_sorted_laws_statement (eq : P → P → Bool) (origin : P) (pts : List P) : Prop :=
  let lt := fun a b => lessAround sgn origin a b = true
  (sortAround sgn origin (dedupBy eq pts)).Pairwise lt ∧ SignLaws sgn lt ∧ SignLaws sgn (fun a b => lt b a)

end Hull

end S2Proofs.C10
