/-
  Property C04, the CONVEXITY half of `CellLoopsTile` for the exact geometry `exactGeo` (Go `==`, the exact +
  symbolic orientation `Pred.exactDecision`, `s2Ortho`): what `C04_Tiling.lean` left as the hypothesis `hle`
  ("at most two loops of the family contain p").

  §1  `CellQuad`: the input class of a cell loop `LoopFromCell(c)` — four finite vertices, pairwise not `==`,
      every three consecutive ones counter-clockwise (exact sign `+1`): the EXACT quadrilateral spanned by the
      float vertices (the `Normalize` outputs), whatever great circles they were meant to lie on.
  §2  `cellLoop_contains_eq_inner_exact` — **the convex-quadrilateral lemma**: for such a loop built by
      `LoopFromPoints`, `ContainsPoint(p)` (brute force) = "p is on the inner side of the four edge planes"
      (`inQuad`: the four exact + symbolic signs `[v_i v_{i+1} p]` are `+1`), at EVERY point p that is not `==`
      to a vertex — points exactly on an edge plane included (there the symbolic perturbation decides, and it
      decides consistently for the two cells that share the edge).  `inQuad_eq_det_exact`,
      `cellLoop_contains_iff_det_exact`: off the four edge planes the signs are the signs of the exact determinants
      (the statement of the brief).  `cellQuad_simple` (a convex quadrilateral is a valid loop),
      `cellLoop_contains_vertices_exact` (the vertex rule at all four vertices).
  §3  `inner_side_exact` — convexity: a point on the inner side of the four edges of a convex quadrilateral
      is on the non-positive side of every great circle `u v` that has the four vertices on its non-positive
      side (Cramer's rule in the real realisation of the symbolic perturbation, `C02.exactDecision_realisable`).
      `quads_disjoint_exact`, `edgeSep_disjoint_exact`: two convex quadrilaterals separated by a great circle
      through two of the points have no common inner point; `shared_edge_disjoint_exact`: in particular two cells
      that share an edge (reversed, up to `==`) — no sliver, no overlap, on the shared edge itself exactly one side.
      Which pairs need a certificate: `shared_edge_edgeSep_exact` (edge neighbours: none),
      `diagonal_edgeSep_exact` (diagonal neighbours: only orientations with a full cell of margin),
      `far_edgeSep_exact` (one edge of one cell with the other cell's vertices on its outer side).
  §4  families: `cells_count_le_one_exact` (pairwise edge-separated convex cells: at most ONE contains p —
      this discharges `hle`), `cells_exactly_once_exact` (with cancelling boundaries and an odd origin count:
      EXACTLY one), for every point that is not `==` to a vertex of the family.
  §5  `cells_exactly_once_of_certificate`: the same from decidable certificates only.
  §6  non-vacuity on four level-3 cells with genuine rounding noise.
  The vertices of a family: `C04_Tiling2_Vertex.lean`.  Instances (six faces, all 24 cells of level 1,
  unconditional): `C04_Tiling2_L1.lean`.

  NOT proved: the certificates (`CellQuad` for every cell, `edgeSepAll`, cancellation, origin bit) for the cells of
  an arbitrary level k (decidable checks per level; discharging them for all k needs the error analysis of
  `Cell.Vertex`: by `shared_edge_edgeSep_exact` / `diagonal_edgeSep_exact` only orientations of three vertices with
  at least one full cell width of margin remain to be bounded).
-/
import S2Proofs.Properties.C04_Tiling
import S2Proofs.Contain.Quad
import Mathlib.Tactic.Linarith
namespace S2Proofs.C04
open S2 S2.Contain S2.Pred S2.Exact S2Proofs.Contain S2Proofs.F64Order S2Proofs.ExactLaws
open S2Proofs.PredLemmas S2Proofs.SosLemmas

/-! ## 1. the input class of a cell loop -/

/-- four vertices of a cell loop: finite, the reference direction of vertex 1 (the vertex `initOriginAndBound`
    tests) finite and not `==` to it, pairwise not `==`, and every three consecutive vertices counter-clockwise
    for the exact sign.  Decidable; true of `Cell.Vertex(0..3)` of every cell evaluated (§6, `C04_Tiling2_L1.lean`). -/
def CellQuad (v0 v1 v2 v3 : V3) : Prop :=
  Fin3 v0 ∧ Fin3 v1 ∧ Fin3 v2 ∧ Fin3 v3 ∧ Fin3 (s2Ortho v1) ∧
  V3.feq v0 v1 = false ∧ V3.feq v0 v2 = false ∧ V3.feq v0 v3 = false ∧
  V3.feq v1 v2 = false ∧ V3.feq v1 v3 = false ∧ V3.feq v2 v3 = false ∧
  V3.feq v1 (s2Ortho v1) = false ∧
  exactDecision v0 v1 v2 = 1 ∧ exactDecision v1 v2 v3 = 1 ∧ exactDecision v2 v3 v0 = 1 ∧
  exactDecision v3 v0 v1 = 1

instance (v0 v1 v2 v3 : V3) : Decidable (CellQuad v0 v1 v2 v3) := by unfold CellQuad; infer_instance

private theorem CellQuad.ccw {v0 v1 v2 v3 : V3} (h : CellQuad v0 v1 v2 v3) : CCWQuad exactGeo Fin3 v0 v1 v2 v3 := by
  obtain ⟨h0, h1, h2, h3, hr, n01, n02, n03, n12, n13, n23, n1r, c0, c1, c2, c3⟩ := h
  exact ⟨h0, h1, h2, h3, hr, n01, n02, n03, n12, n13, n23, n1r, c0, c1, c2, c3⟩

/-! ## 2. the convex-quadrilateral lemma -/

/-- **`LoopFromCell(c).ContainsPoint(p)` = "p is on the inner side of the four edge planes"** (exact + symbolic
    signs), for the exact quadrilateral spanned by the four float vertices, at every point `p` that is not `==`
    to a vertex.  `o` = the reference point (`OriginPoint`): `PtOK`, and `==` to `v1` or `p` only with `==`
    reference directions (`Compat`). -/
theorem cellLoop_contains_eq_inner_exact {o p v0 v1 v2 v3 : V3} (hq : CellQuad v0 v1 v2 v3)
    (ho : PtOK o) (hp : PtOK p) (hov : Compat o v1) (hop : Compat o p)
    (p0 : V3.feq v0 p = false) (p1 : V3.feq v1 p = false) (p2 : V3.feq v2 p = false)
    (p3 : V3.feq v3 p = false) :
    bruteContains exactGeo o (mkLoop exactGeo o #[v0, v1, v2, v3]) p = inQuad exactGeo v0 v1 v2 v3 p := by
  have hd : CocycleDomAny o v1 p [v0 :: v1 :: v2 :: [v3]] :=
    ⟨ho.1, hq.2.1, hp.1, hov, Or.inl p1, hop, ⟨ho.2.1, ho.2.2⟩,
      ⟨hq.2.2.2.2.1, hq.2.2.2.2.2.2.2.2.2.2.2.1⟩, ⟨hp.2.1, hp.2.2⟩, fun l hl v hv => by
        simp only [List.mem_singleton] at hl; subst hl
        simp only [List.mem_cons, List.not_mem_nil, or_false] at hv
        rcases hv with rfl | rfl | rfl | rfl
        · exact hq.1
        · exact hq.2.1
        · exact hq.2.2.1
        · exact hq.2.2.2.1⟩
  have h21 : V3.feq v2 v1 = false := by rw [feq_comm hq.2.2.1 hq.2.1]; exact hq.2.2.2.2.2.2.2.2.1
  have := mkLoop_contains_eq_vertexContains_exact (rest := [v3]) hq.2.2.2.2.2.1 h21 hd
  rw [show (#[v0, v1, v2, v3] : Array V3) = (v0 :: v1 :: v2 :: [v3]).toArray from rfl, this]
  exact vertexContains_quad chiroOn_exactGeo hq.ccw hp.1 p0 p1 p2 p3

/-- **Off the edge planes the four signs are the signs of the exact determinants**: if none of the four exact
    determinants `det(v_i, v_{i+1}, p)` vanishes (p is on none of the four edge planes), then
    `inQuad` ⇔ all four determinants are positive. -/
theorem inQuad_eq_det_exact {p v0 v1 v2 v3 : V3} (h0 : Fin3 v0) (h1 : Fin3 v1) (h2 : Fin3 v2) (h3 : Fin3 v3)
    (hp : Fin3 p)
    (d0 : det3 (ofV3 v0) (ofV3 v1) (ofV3 p) ≠ 0) (d1 : det3 (ofV3 v1) (ofV3 v2) (ofV3 p) ≠ 0)
    (d2 : det3 (ofV3 v2) (ofV3 v3) (ofV3 p) ≠ 0) (d3 : det3 (ofV3 v3) (ofV3 v0) (ofV3 p) ≠ 0) :
    inQuad exactGeo v0 v1 v2 v3 p = true ↔
      (0 < det3 (ofV3 v0) (ofV3 v1) (ofV3 p) ∧ 0 < det3 (ofV3 v1) (ofV3 v2) (ofV3 p) ∧
       0 < det3 (ofV3 v2) (ofV3 v3) (ofV3 p) ∧ 0 < det3 (ofV3 v3) (ofV3 v0) (ofV3 p)) := by
  unfold inQuad
  show ((exactDecision v0 v1 p == 1) && (exactDecision v1 v2 p == 1) && (exactDecision v2 v3 p == 1) &&
    (exactDecision v3 v0 p == 1)) = true ↔ _
  simp only [Bool.and_eq_true, beq_iff_eq, E_eq h0 h1 hp, E_eq h1 h2 hp, E_eq h2 h3 hp, E_eq h3 h0 hp,
    EI_eq_one_iff_of_det_ne _ _ _ d0, EI_eq_one_iff_of_det_ne _ _ _ d1, EI_eq_one_iff_of_det_ne _ _ _ d2,
    EI_eq_one_iff_of_det_ne _ _ _ d3, and_assoc]

/-- the two together: **for p on none of the four edge planes, the cell loop contains p iff p is strictly on the
    inner side of the four planes** (exact determinants of the float vertices). -/
theorem cellLoop_contains_iff_det_exact {o p v0 v1 v2 v3 : V3} (hq : CellQuad v0 v1 v2 v3)
    (ho : PtOK o) (hp : PtOK p) (hov : Compat o v1) (hop : Compat o p)
    (d0 : det3 (ofV3 v0) (ofV3 v1) (ofV3 p) ≠ 0) (d1 : det3 (ofV3 v1) (ofV3 v2) (ofV3 p) ≠ 0)
    (d2 : det3 (ofV3 v2) (ofV3 v3) (ofV3 p) ≠ 0) (d3 : det3 (ofV3 v3) (ofV3 v0) (ofV3 p) ≠ 0) :
    bruteContains exactGeo o (mkLoop exactGeo o #[v0, v1, v2, v3]) p = true ↔
      (0 < det3 (ofV3 v0) (ofV3 v1) (ofV3 p) ∧ 0 < det3 (ofV3 v1) (ofV3 v2) (ofV3 p) ∧
       0 < det3 (ofV3 v2) (ofV3 v3) (ofV3 p) ∧ 0 < det3 (ofV3 v3) (ofV3 v0) (ofV3 p)) := by
  have ne : ∀ {a b : V3}, Fin3 a → Fin3 b → det3 (ofV3 a) (ofV3 b) (ofV3 p) ≠ 0 →
      V3.feq a p = false ∧ V3.feq b p = false := by
    intro a b ha hb hd
    have hz : exactDecision a b p ≠ 0 := by
      rw [E_eq ha hb hp.1, EI_of_det_ne _ _ _ hd]
      rcases sgn_cases (det3 (ofV3 a) (ofV3 b) (ofV3 p)) with ⟨h1, h2⟩ | ⟨h1, h2⟩ | ⟨h1, h2⟩
      · rw [h2]; decide
      · exact absurd h1 hd
      · rw [h2]; decide
    have hz' := fun h => hz ((E_zero_iff ha hb hp.1).2 h)
    constructor
    · cases e : V3.feq a p with
      | false => rfl
      | true => exact absurd (Or.inr (Or.inr (feq_symm ha hp.1 e))) hz'
    · cases e : V3.feq b p with
      | false => rfl
      | true => exact absurd (Or.inr (Or.inl e)) hz'
  rw [cellLoop_contains_eq_inner_exact hq ho hp hov hop (ne hq.1 hq.2.1 d0).1 (ne hq.1 hq.2.1 d0).2
    (ne hq.2.2.1 hq.2.2.2.1 d2).1 (ne hq.2.2.1 hq.2.2.2.1 d2).2]
  exact inQuad_eq_det_exact hq.1 hq.2.1 hq.2.2.1 hq.2.2.2.1 hp.1 d0 d1 d2 d3

/-! ### the vertices of the cell loop itself -/

private theorem nocross_same_side {a b c d : V3} (hac : V3.feq a c = false) (had : V3.feq a d = false)
    (hbc : V3.feq b c = false) (hbd : V3.feq b d = false) (hab : V3.feq a b = false) (hcd : V3.feq c d = false)
    (h1 : exactDecision a b c = 1) (h2 : exactDecision a b d = 1) :
    edgeOrVertexCrossing exactGeo a b c d = false := by
  rw [eovc_of_ne (G := exactGeo) hac had hbc hbd hab hcd]
  show crossB (exactDecision a b c) (exactDecision a b d) _ _ = false
  rw [h1, h2]
  simp [crossB]

/-- **A convex counter-clockwise quadrilateral is a valid loop** (what `Loop.Validate` checks: pairwise non-`==`
    vertices, opposite edges do not cross). -/
theorem cellQuad_simple {v0 v1 v2 v3 : V3} (hq : CellQuad v0 v1 v2 v3) : SimpleLoop exactGeo [v0, v1, v2, v3] := by
  obtain ⟨h0, h1, h2, h3, hr, n01, n02, n03, n12, n13, n23, n1r, c0, c1, c2, c3⟩ := hq
  have r0 := feq_refl h0
  have r1 := feq_refl h1
  have r2 := feq_refl h2
  have r3 := feq_refl h3
  have n10 : V3.feq v1 v0 = false := by rw [feq_comm h1 h0]; exact n01
  have n20 : V3.feq v2 v0 = false := by rw [feq_comm h2 h0]; exact n02
  have n30 : V3.feq v3 v0 = false := by rw [feq_comm h3 h0]; exact n03
  have n21 : V3.feq v2 v1 = false := by rw [feq_comm h2 h1]; exact n12
  have n31 : V3.feq v3 v1 = false := by rw [feq_comm h3 h1]; exact n13
  have n32 : V3.feq v3 v2 = false := by rw [feq_comm h3 h2]; exact n23
  have ne : ∀ {a b : V3}, Fin3 a → V3.feq a b = false → a ≠ b := fun ha hab e => by
    subst e; rw [feq_refl ha] at hab; cases hab
  have d013 : exactDecision v0 v1 v3 = 1 := by rw [E_rot h3 h0 h1]; exact c3
  have d120 : exactDecision v1 v2 v0 = 1 := by rw [E_rot h0 h1 h2]; exact c0
  have d231 : exactDecision v2 v3 v1 = 1 := by rw [E_rot h1 h2 h3]; exact c1
  have d302 : exactDecision v3 v0 v2 = 1 := by rw [E_rot h2 h3 h0]; exact c2
  refine ⟨by simp, ?_, ?_, ?_⟩
  · simp only [List.nodup_cons, List.mem_cons, List.not_mem_nil, or_false, not_or, not_false_eq_true,
      List.nodup_nil, and_true]
    exact ⟨⟨ne h0 n01, ne h0 n02, ne h0 n03⟩, ⟨ne h1 n12, ne h1 n13⟩, ne h2 n23⟩
  · intro a ha b hb hab
    simp only [List.mem_cons, List.not_mem_nil, or_false] at ha hb
    rcases ha with rfl | rfl | rfl | rfl <;> rcases hb with rfl | rfl | rfl | rfl <;>
      first | exact absurd rfl hab | assumption
  · intro e he f hf k1 k2 k3 k4
    simp only [loopEdges, List.cons_append, List.nil_append, List.zip_cons_cons, List.zip_nil_right,
      List.mem_cons, List.not_mem_nil, or_false] at he hf
    rcases he with rfl | rfl | rfl | rfl <;> rcases hf with rfl | rfl | rfl | rfl <;>
      first
      | (exfalso; have : V3.feq _ _ = false := k1; first | (rw [r0] at this; cases this) | (rw [r1] at this; cases this) | (rw [r2] at this; cases this) | (rw [r3] at this; cases this))
      | (exfalso; have : V3.feq _ _ = false := k2; first | (rw [r0] at this; cases this) | (rw [r1] at this; cases this) | (rw [r2] at this; cases this) | (rw [r3] at this; cases this))
      | (exfalso; have : V3.feq _ _ = false := k3; first | (rw [r0] at this; cases this) | (rw [r1] at this; cases this) | (rw [r2] at this; cases this) | (rw [r3] at this; cases this))
      | exact nocross_same_side n02 n03 n12 n13 n01 n23 c0 d013
      | exact nocross_same_side n13 n10 n23 n20 n12 n30 c1 d120
      | exact nocross_same_side n20 n21 n30 n31 n23 n01 c2 d231
      | exact nocross_same_side n31 n32 n01 n02 n30 n12 c3 d302

/-- **At its own vertices the cell loop follows the vertex rule**: it contains the vertex `b` (neighbours `a`
    before, `c` after) iff `AngleContainsVertex(a,b,c)` — for all four vertices, not only vertex 1 which the
    constructor tests.  Together with `cellLoop_contains_eq_inner_exact` this describes `ContainsPoint` of a cell
    loop at every point.  Needs every vertex `PtOK` and compatible with the reference point. -/
theorem cellLoop_contains_vertices_exact {o v0 v1 v2 v3 : V3} (hq : CellQuad v0 v1 v2 v3) (ho : PtOK o)
    (hv : ∀ v ∈ [v0, v1, v2, v3], PtOK v ∧ Compat o v) :
    bruteContains exactGeo o (mkLoop exactGeo o #[v0, v1, v2, v3]) v0 = angleContainsVertex exactGeo v3 v0 v1 ∧
    bruteContains exactGeo o (mkLoop exactGeo o #[v0, v1, v2, v3]) v1 = angleContainsVertex exactGeo v0 v1 v2 ∧
    bruteContains exactGeo o (mkLoop exactGeo o #[v0, v1, v2, v3]) v2 = angleContainsVertex exactGeo v1 v2 v3 ∧
    bruteContains exactGeo o (mkLoop exactGeo o #[v0, v1, v2, v3]) v3 = angleContainsVertex exactGeo v2 v3 v0 := by
  have hs := cellQuad_simple hq
  have dom : ∀ {vs : List V3}, (∀ v ∈ vs, v ∈ [v0, v1, v2, v3]) → ∀ p ∈ [v0, v1, v2, v3], LoopDom o vs p := by
    intro vs hm p hp
    refine ⟨ho, (hv p hp).1, (hv p hp).2, fun v hvm => ⟨(hv v (hm v hvm)).1, (hv v (hm v hvm)).2, ?_⟩⟩
    by_cases e : v = p
    · subst e; exact Or.inr (feq_refl (hv v hp).1.2.1)
    · exact Or.inl (hs.distinct v (hm v hvm) p hp e)
  have e1 : ([v0, v1, v2, v3] : List V3).rotate 1 = [v1, v2, v3, v0] := rfl
  have e3 : ([v0, v1, v2, v3] : List V3).rotate 3 = [v3, v0, v1, v2] := rfl
  have a0 : (#[v0, v1, v2, v3] : Array V3) = ([v0, v1, v2, v3] : List V3).toArray := rfl
  refine ⟨?_, ?_, ?_, ?_⟩
  · rw [a0, ← mkLoop_rotate_exact hs (dom (fun _ h => h) v0 (by simp)) 3, e3]
    have hs' := hs.rotate 3
    rw [e3] at hs'
    exact mkLoop_contains_vertex_exact (pre := []) (post := [v2]) hs'
      (dom (fun v h => by simp only [List.nil_append, List.mem_cons, List.not_mem_nil, or_false] at h ⊢; tauto)
        v0 (by simp))
  · exact mkLoop_contains_vertex_exact (pre := []) (post := [v3]) hs (dom (fun _ h => h) v1 (by simp))
  · exact mkLoop_contains_vertex_exact (pre := [v0]) (post := []) hs (dom (fun _ h => h) v2 (by simp))
  · rw [a0, ← mkLoop_rotate_exact hs (dom (fun _ h => h) v3 (by simp)) 1, e1]
    have hs' := hs.rotate 1
    rw [e1] at hs'
    exact mkLoop_contains_vertex_exact (pre := [v1]) (post := []) hs'
      (dom (fun v h => by simp only [List.cons_append, List.nil_append, List.mem_cons, List.not_mem_nil,
        or_false] at h ⊢; tauto) v3 (by simp))

/-! ## 3. convexity: separation by a great circle -/

/-- **A convex quadrilateral is on one side of every great circle its vertices are on one side of**: if the four
    vertices `w0..w3` (two consecutive triples counter-clockwise) are on the non-positive side of the great circle
    `u v` (`[u v w_j] ≠ +1`: `-1`, or `0` for a vertex `==` to `u` or `v`), then so is every point on the inner
    side of the four edges.  Exact + symbolic signs, all finite inputs, degenerate positions included. -/
theorem inner_side_exact {u v w0 w1 w2 w3 p : V3} (fu : Fin3 u) (fv : Fin3 v) (f0 : Fin3 w0) (f1 : Fin3 w1)
    (f2 : Fin3 w2) (f3 : Fin3 w3) (fp : Fin3 p)
    (c012 : exactDecision w0 w1 w2 = 1) (c230 : exactDecision w2 w3 w0 = 1)
    (hin : inQuad exactGeo w0 w1 w2 w3 p = true)
    (s0 : exactDecision u v w0 ≠ 1) (s1 : exactDecision u v w1 ≠ 1) (s2 : exactDecision u v w2 ≠ 1)
    (s3 : exactDecision u v w3 ≠ 1) : exactDecision u v p ≠ 1 := by
  have hin' : ((exactDecision w0 w1 p == 1) && (exactDecision w1 w2 p == 1) && (exactDecision w2 w3 p == 1) &&
      (exactDecision w3 w0 p == 1)) = true := hin
  simp only [Bool.and_eq_true, beq_iff_eq] at hin'
  obtain ⟨⟨⟨i0, i1⟩, i2⟩, i3⟩ := hin'
  obtain ⟨f, hf, _⟩ := C02.exactDecision_realisable [ofV3 u, ofV3 v, ofV3 w0, ofV3 w1, ofV3 w2, ofV3 w3, ofV3 p]
  have m : ∀ {a b c : V3}, Fin3 a → Fin3 b → Fin3 c →
      ofV3 a ∈ [ofV3 u, ofV3 v, ofV3 w0, ofV3 w1, ofV3 w2, ofV3 w3, ofV3 p] →
      ofV3 b ∈ [ofV3 u, ofV3 v, ofV3 w0, ofV3 w1, ofV3 w2, ofV3 w3, ofV3 p] →
      ofV3 c ∈ [ofV3 u, ofV3 v, ofV3 w0, ofV3 w1, ofV3 w2, ofV3 w3, ofV3 p] →
      exactDecision a b c = rsgn (detR (f (ofV3 a)) (f (ofV3 b)) (f (ofV3 c))) := by
    intro a b c ha hb hc ma mb mc
    rw [E_eq ha hb hc]; exact hf _ ma _ mb _ mc
  rw [m f0 f1 f2 (by simp) (by simp) (by simp), rsgn_eq_one_iff] at c012
  rw [m f2 f3 f0 (by simp) (by simp) (by simp), rsgn_eq_one_iff] at c230
  rw [m f0 f1 fp (by simp) (by simp) (by simp), rsgn_eq_one_iff] at i0
  rw [m f1 f2 fp (by simp) (by simp) (by simp), rsgn_eq_one_iff] at i1
  rw [m f2 f3 fp (by simp) (by simp) (by simp), rsgn_eq_one_iff] at i2
  rw [m f3 f0 fp (by simp) (by simp) (by simp), rsgn_eq_one_iff] at i3
  rw [m fu fv f0 (by simp) (by simp) (by simp), ne_eq, rsgn_eq_one_iff, not_lt] at s0
  rw [m fu fv f1 (by simp) (by simp) (by simp), ne_eq, rsgn_eq_one_iff, not_lt] at s1
  rw [m fu fv f2 (by simp) (by simp) (by simp), ne_eq, rsgn_eq_one_iff, not_lt] at s2
  rw [m fu fv f3 (by simp) (by simp) (by simp), ne_eq, rsgn_eq_one_iff, not_lt] at s3
  rw [m fu fv fp (by simp) (by simp) (by simp), ne_eq, rsgn_eq_one_iff]
  intro hpos
  generalize f (ofV3 u) = U at *
  generalize f (ofV3 v) = V at *
  generalize f (ofV3 w0) = W0 at *
  generalize f (ofV3 w1) = W1 at *
  generalize f (ofV3 w2) = W2 at *
  generalize f (ofV3 w3) = W3 at *
  generalize f (ofV3 p) = Q at *
  rcases le_or_gt (detR W0 W2 Q) 0 with hD | hD
  · -- p is in the triangle w0 w1 w2
    have key := cramerR U V W0 W1 W2 Q
    have r1 : detR Q W1 W2 = detR W1 W2 Q := (detR_rot Q W1 W2).symm
    have r2 : detR W0 Q W2 = -detR W0 W2 Q := detR_swap23 W0 W2 Q
    rw [r1, r2] at key
    have a1 := mul_pos hpos c012
    have b1 := mul_nonpos_of_nonneg_of_nonpos i1.le s0
    have b2 := mul_nonpos_of_nonneg_of_nonpos (neg_nonneg.2 hD) s1
    have b3 := mul_nonpos_of_nonneg_of_nonpos i0.le s2
    linarith
  · -- p is in the triangle w0 w2 w3
    have key := cramerR U V W0 W2 W3 Q
    have r0 : detR W0 W2 W3 = detR W2 W3 W0 := (detR_rot W0 W2 W3).symm
    have r1 : detR Q W2 W3 = detR W2 W3 Q := (detR_rot Q W2 W3).symm
    have r2 : detR W0 Q W3 = detR W3 W0 Q := detR_rot W3 W0 Q
    rw [r0, r1, r2] at key
    have a1 := mul_pos hpos c230
    have b1 := mul_nonpos_of_nonneg_of_nonpos i2.le s0
    have b2 := mul_nonpos_of_nonneg_of_nonpos i3.le s2
    have b3 := mul_nonpos_of_nonneg_of_nonpos hD.le s3
    linarith

/-- a cell as four vertices -/
structure Q4 where
  v0 : V3
  v1 : V3
  v2 : V3
  v3 : V3
deriving DecidableEq

namespace Q4
def verts (q : Q4) : List V3 := [q.v0, q.v1, q.v2, q.v3]
def edges (q : Q4) : List (V3 × V3) := [(q.v0, q.v1), (q.v1, q.v2), (q.v2, q.v3), (q.v3, q.v0)]
/-- `LoopFromCell` = `LoopFromPoints` of the four vertices, reference point `o` -/
def loop (o : V3) (q : Q4) : LoopM V3 := mkLoop exactGeo o #[q.v0, q.v1, q.v2, q.v3]
def OK (q : Q4) : Prop := CellQuad q.v0 q.v1 q.v2 q.v3
/-- on the inner side of the four edges -/
def inner (q : Q4) (p : V3) : Bool := inQuad exactGeo q.v0 q.v1 q.v2 q.v3 p
instance (q : Q4) : Decidable q.OK := by unfold OK; infer_instance

private theorem fin_of_mem {q : Q4} (h : q.OK) {x : V3} (hx : x ∈ q.verts) : Fin3 x := by
  simp only [verts, List.mem_cons, List.not_mem_nil, or_false] at hx
  rcases hx with rfl | rfl | rfl | rfl
  · exact h.1
  · exact h.2.1
  · exact h.2.2.1
  · exact h.2.2.2.1

private theorem edge_mem {q : Q4} {e : V3 × V3} (he : e ∈ q.edges) : e.1 ∈ q.verts ∧ e.2 ∈ q.verts := by
  simp only [edges, List.mem_cons, List.not_mem_nil, or_false] at he
  rcases he with rfl | rfl | rfl | rfl <;> simp [verts]
end Q4

/-- the great circle `u v` (two points not `==`) separates `q` (on its non-negative side) from `q'` (on its
    non-positive side): a decidable certificate -/
def sepByB (u v : V3) (q q' : Q4) : Bool :=
  !V3.feq u v && q.verts.all (fun x => exactDecision u v x != -1) &&
    q'.verts.all (fun x => exactDecision u v x != 1)

/-- one of the eight edges of the two quadrilaterals separates them -/
def edgeSep (q q' : Q4) : Bool :=
  q.edges.any (fun e => sepByB e.1 e.2 q q') || q'.edges.any (fun e => sepByB e.2 e.1 q q')

/-- **Separated convex quadrilaterals have no common inner point** (p not `==` to the two points that span the
    separating great circle). -/
theorem quads_disjoint_exact {u v p : V3} {q q' : Q4} (hq : q.OK) (hq' : q'.OK) (fu : Fin3 u) (fv : Fin3 v)
    (fp : Fin3 p) (hs : sepByB u v q q' = true) (hup : V3.feq u p = false) (hvp : V3.feq v p = false) :
    ¬ (q.inner p = true ∧ q'.inner p = true) := by
  rintro ⟨i1, i2⟩
  simp only [sepByB, Bool.and_eq_true, Bool.not_eq_true', List.all_eq_true, bne_iff_ne, ne_eq] at hs
  obtain ⟨⟨huv, h1⟩, h2⟩ := hs
  have m : ∀ (q : Q4), q.v0 ∈ q.verts ∧ q.v1 ∈ q.verts ∧ q.v2 ∈ q.verts ∧ q.v3 ∈ q.verts := by
    intro q; simp [Q4.verts]
  -- from q': [u v p] ≠ +1
  have k2 := inner_side_exact fu fv hq'.1 hq'.2.1 hq'.2.2.1 hq'.2.2.2.1 fp
    hq'.2.2.2.2.2.2.2.2.2.2.2.2.1 hq'.2.2.2.2.2.2.2.2.2.2.2.2.2.2.1 i2
    (h2 _ (m q').1) (h2 _ (m q').2.1) (h2 _ (m q').2.2.1) (h2 _ (m q').2.2.2)
  -- from q: [v u p] ≠ +1
  have sw : ∀ x ∈ q.verts, exactDecision v u x ≠ 1 := by
    intro x hx
    rw [E_swap12 fu fv (Q4.fin_of_mem hq hx)]
    have := h1 x hx
    omega
  have k1 := inner_side_exact fv fu hq.1 hq.2.1 hq.2.2.1 hq.2.2.2.1 fp
    hq.2.2.2.2.2.2.2.2.2.2.2.2.1 hq.2.2.2.2.2.2.2.2.2.2.2.2.2.2.1 i1
    (sw _ (m q).1) (sw _ (m q).2.1) (sw _ (m q).2.2.1) (sw _ (m q).2.2.2)
  rw [E_swap12 fu fv fp] at k1
  rcases E_unit fu fv fp huv hvp (by rw [feq_comm fp fu]; exact hup) with e | e
  · exact k2 e
  · rw [e] at k1; exact k1 (by decide)

/-- no vertex of `q` is `==` to `p` -/
def OffVerts (q : Q4) (p : V3) : Prop := ∀ x ∈ q.verts, V3.feq x p = false

instance (q : Q4) (p : V3) : Decidable (OffVerts q p) := by unfold OffVerts; infer_instance

/-- edge-separated cells have no common inner point -/
theorem edgeSep_disjoint_exact {p : V3} {q q' : Q4} (hq : q.OK) (hq' : q'.OK) (fp : Fin3 p)
    (hs : edgeSep q q' = true) (o1 : OffVerts q p) (o2 : OffVerts q' p) :
    ¬ (q.inner p = true ∧ q'.inner p = true) := by
  simp only [edgeSep, Bool.or_eq_true, List.any_eq_true] at hs
  rcases hs with ⟨e, he, hs⟩ | ⟨e, he, hs⟩
  · have hm := Q4.edge_mem he
    exact quads_disjoint_exact hq hq' (Q4.fin_of_mem hq hm.1) (Q4.fin_of_mem hq hm.2) fp hs
      (o1 _ hm.1) (o1 _ hm.2)
  · have hm := Q4.edge_mem he
    exact quads_disjoint_exact hq hq' (Q4.fin_of_mem hq' hm.2) (Q4.fin_of_mem hq' hm.1) fp hs
      (o2 _ hm.2) (o2 _ hm.1)

/-- **Two cells that share an edge** (`(a,b)` an edge of `q`, `(b',a')` an edge of `q'`, `a == a'`, `b == b'` —
    bit-identical or ±0 twins) **have no common inner point**: there is no overlap along the shared edge, and a
    point exactly on it is on the inner side of at most one of the two.  Pure sign argument (no separation
    certificate needed). -/
theorem shared_edge_disjoint_exact {p a b a' b' : V3} {q q' : Q4} (hq : q.OK) (hq' : q'.OK) (fp : Fin3 p)
    (he : (a, b) ∈ q.edges) (he' : (b', a') ∈ q'.edges) (ea : V3.feq a a' = true) (eb : V3.feq b b' = true) :
    ¬ (q.inner p = true ∧ q'.inner p = true) := by
  rintro ⟨i1, i2⟩
  have hm := Q4.edge_mem he
  have hm' := Q4.edge_mem he'
  have fa := Q4.fin_of_mem hq hm.1
  have fb := Q4.fin_of_mem hq hm.2
  have fb' := Q4.fin_of_mem hq' hm'.1
  have fa' := Q4.fin_of_mem hq' hm'.2
  have k1 : exactDecision a b p = 1 := by
    have i1' : ((exactDecision q.v0 q.v1 p == 1) && (exactDecision q.v1 q.v2 p == 1) &&
      (exactDecision q.v2 q.v3 p == 1) && (exactDecision q.v3 q.v0 p == 1)) = true := i1
    simp only [Bool.and_eq_true, beq_iff_eq] at i1'
    simp only [Q4.edges, List.mem_cons, List.not_mem_nil, or_false, Prod.mk.injEq] at he
    rcases he with ⟨rfl, rfl⟩ | ⟨rfl, rfl⟩ | ⟨rfl, rfl⟩ | ⟨rfl, rfl⟩
    · exact i1'.1.1.1
    · exact i1'.1.1.2
    · exact i1'.1.2
    · exact i1'.2
  have k2 : exactDecision b' a' p = 1 := by
    have i2' : ((exactDecision q'.v0 q'.v1 p == 1) && (exactDecision q'.v1 q'.v2 p == 1) &&
      (exactDecision q'.v2 q'.v3 p == 1) && (exactDecision q'.v3 q'.v0 p == 1)) = true := i2
    simp only [Bool.and_eq_true, beq_iff_eq] at i2'
    simp only [Q4.edges, List.mem_cons, List.not_mem_nil, or_false, Prod.mk.injEq] at he'
    rcases he' with ⟨rfl, rfl⟩ | ⟨rfl, rfl⟩ | ⟨rfl, rfl⟩ | ⟨rfl, rfl⟩
    · exact i2'.1.1.1
    · exact i2'.1.1.2
    · exact i2'.1.2
    · exact i2'.2
  rw [← E_congr fb fa fp fb' fa' fp eb ea (feq_refl fp), E_swap12 fa fb fp, k1] at k2
  exact absurd k2 (by decide)

/-- convexity: every vertex of a cell is on the non-negative side of each of its four edges (and the endpoints of an
    edge are not `==`) -/
theorem own_edge_side_exact {q : Q4} (hq : q.OK) {e : V3 × V3} (he : e ∈ q.edges) {y : V3} (hy : y ∈ q.verts) :
    exactDecision e.1 e.2 y ≠ -1 ∧ V3.feq e.1 e.2 = false := by
  obtain ⟨h0, h1, h2, h3, _, n01, n02, n03, n12, n13, n23, _, c012, c123, c230, c301⟩ := hq
  have zero : ∀ {a b c : V3}, Fin3 a → Fin3 b → Fin3 c →
      (V3.feq a b = true ∨ V3.feq b c = true ∨ V3.feq c a = true) → exactDecision a b c = 0 :=
    fun ha hb hc h => (E_zero_iff ha hb hc).2 h
  have n30 : V3.feq q.v3 q.v0 = false := by rw [feq_comm h3 h0]; exact n03
  have a00 := zero h0 h1 h0 (Or.inr (Or.inr (feq_refl h0)))
  have a01 := zero h0 h1 h1 (Or.inr (Or.inl (feq_refl h1)))
  have a03 : exactDecision q.v0 q.v1 q.v3 = 1 := by rw [E_rot h3 h0 h1]; exact c301
  have b10 : exactDecision q.v1 q.v2 q.v0 = 1 := by rw [E_rot h0 h1 h2]; exact c012
  have b11 := zero h1 h2 h1 (Or.inr (Or.inr (feq_refl h1)))
  have b12 := zero h1 h2 h2 (Or.inr (Or.inl (feq_refl h2)))
  have c21 : exactDecision q.v2 q.v3 q.v1 = 1 := by rw [E_rot h1 h2 h3]; exact c123
  have c22 := zero h2 h3 h2 (Or.inr (Or.inr (feq_refl h2)))
  have c23 := zero h2 h3 h3 (Or.inr (Or.inl (feq_refl h3)))
  have d30 := zero h3 h0 h0 (Or.inr (Or.inl (feq_refl h0)))
  have d32 : exactDecision q.v3 q.v0 q.v2 = 1 := by rw [E_rot h2 h3 h0]; exact c230
  have d33 := zero h3 h0 h3 (Or.inr (Or.inr (feq_refl h3)))
  simp only [Q4.edges, Q4.verts, List.mem_cons, List.not_mem_nil, or_false] at he hy
  rcases he with rfl | rfl | rfl | rfl <;> rcases hy with rfl | rfl | rfl | rfl <;>
    refine ⟨?_, by assumption⟩ <;>
    first
    | (rw [a00]; decide) | (rw [a01]; decide) | (rw [c012]; decide) | (rw [a03]; decide)
    | (rw [b10]; decide) | (rw [b11]; decide) | (rw [b12]; decide) | (rw [c123]; decide)
    | (rw [c230]; decide) | (rw [c21]; decide) | (rw [c22]; decide) | (rw [c23]; decide)
    | (rw [d30]; decide) | (rw [c301]; decide) | (rw [d32]; decide) | (rw [d33]; decide)

/-- **One edge suffices**: if all four vertices of `q'` are on the non-positive side of ONE edge of the convex
    cell `q`, the two cells are edge-separated (`q`'s own vertices are on the right side by convexity).  For cells two
    or more grid steps apart such an edge exists with a full cell width of margin. -/
theorem far_edgeSep_exact {q q' : Q4} (hq : q.OK) {e : V3 × V3} (he : e ∈ q.edges)
    (h : ∀ y ∈ q'.verts, exactDecision e.1 e.2 y ≠ 1) : edgeSep q q' = true := by
  have hm := Q4.edge_mem he
  have hsep : sepByB e.1 e.2 q q' = true := by
    simp only [sepByB, Bool.and_eq_true, Bool.not_eq_true', List.all_eq_true, bne_iff_ne, ne_eq]
    exact ⟨⟨(own_edge_side_exact hq he hm.1).2, fun y hy => (own_edge_side_exact hq he hy).1⟩, h⟩
  simp only [edgeSep, Bool.or_eq_true, List.any_eq_true]
  exact Or.inl ⟨e, he, hsep⟩

/-- **Cells that share an edge are edge-separated** — by that edge, from convexity alone (no certificate to
    evaluate for edge neighbours). -/
theorem shared_edge_edgeSep_exact {a b a' b' : V3} {q q' : Q4} (hq : q.OK) (hq' : q'.OK)
    (he : (a, b) ∈ q.edges) (he' : (b', a') ∈ q'.edges) (ea : V3.feq a a' = true) (eb : V3.feq b b' = true) :
    edgeSep q q' = true := by
  have hm := Q4.edge_mem he
  have hm' := Q4.edge_mem he'
  have fa := Q4.fin_of_mem hq hm.1
  have fb := Q4.fin_of_mem hq hm.2
  have fb' := Q4.fin_of_mem hq' hm'.1
  have fa' := Q4.fin_of_mem hq' hm'.2
  have hsep : sepByB a b q q' = true := by
    simp only [sepByB, Bool.and_eq_true, Bool.not_eq_true', List.all_eq_true, bne_iff_ne, ne_eq]
    refine ⟨⟨(own_edge_side_exact hq he hm.1).2, fun y hy => (own_edge_side_exact hq he hy).1⟩, fun y hy => ?_⟩
    have fy := Q4.fin_of_mem hq' hy
    have := (own_edge_side_exact hq' he' hy).1
    rw [E_congr fa fb fy fa' fb' fy ea eb (feq_refl fy), E_swap12 fb' fa' fy]
    show ¬ -exactDecision b' a' y = 1
    have : exactDecision b' a' y ≠ -1 := this
    omega
  simp only [edgeSep, Bool.or_eq_true, List.any_eq_true]
  exact Or.inl ⟨(a, b), he, hsep⟩

/-- **Diagonal neighbours are always edge-separated** (the structural fact a proof for all levels needs): `q` and
    `q'` share only the vertex `q.v2 == q'.v0` (uv corners (hi,hi) of `q`, (lo,lo) of `q'`).  The only
    rounding-sensitive orientation is that of the three nearly collinear vertices `q.v3`, `q.v2`, `q'.v1` on the
    common grid line; whatever its sign, `q`'s top edge or `q'`'s bottom edge separates — GIVEN the four orientations
    that have a full cell width of margin (`q'`'s far vertices beyond `q`'s top edge, `q`'s far vertices below
    `q'`'s bottom edge). -/
theorem diagonal_edgeSep_exact {q q' : Q4} (hq : q.OK) (hq' : q'.OK) (hx : V3.feq q.v2 q'.v0 = true)
    (c1 : exactDecision q.v2 q.v3 q'.v2 = -1) (c2 : exactDecision q.v2 q.v3 q'.v3 = -1)
    (d1 : exactDecision q'.v0 q'.v1 q.v0 = -1) (d2 : exactDecision q'.v0 q'.v1 q.v1 = -1) :
    edgeSep q q' = true := by
  obtain ⟨h0, h1, h2, h3, _, n01, n02, n03, n12, n13, n23, _, c012, c123, c230, c301⟩ := hq
  obtain ⟨k0, k1, k2, k3, _, m01, m02, m03, m12, m13, m23, _, e012, e123, e230, e301⟩ := hq'
  have zero : ∀ {a b c : V3}, Fin3 a → Fin3 b → Fin3 c →
      (V3.feq a b = true ∨ V3.feq b c = true ∨ V3.feq c a = true) → exactDecision a b c = 0 :=
    fun ha hb hc h => (E_zero_iff ha hb hc).2 h
  by_cases hs : exactDecision q.v2 q.v3 q'.v1 = 1
  · -- `q'`'s bottom edge separates
    have hsep : sepByB q'.v1 q'.v0 q q' = true := by
      have sw : ∀ {y : V3}, Fin3 y → exactDecision q'.v1 q'.v0 y = -exactDecision q'.v0 q'.v1 y :=
        fun hy => E_swap12 k0 k1 hy
      have y2 : exactDecision q'.v0 q'.v1 q.v2 = 0 := zero k0 k1 h2 (Or.inr (Or.inr hx))
      have y3 : exactDecision q'.v0 q'.v1 q.v3 = -1 := by
        rw [E_congr k0 k1 h3 h2 k1 h3 (feq_symm h2 k0 hx) (feq_refl k1) (feq_refl h3), E_swap23 h2 h3 k1, hs]
      have z0 : exactDecision q'.v0 q'.v1 q'.v0 = 0 := zero k0 k1 k0 (Or.inr (Or.inr (feq_refl k0)))
      have z1 : exactDecision q'.v0 q'.v1 q'.v1 = 0 := zero k0 k1 k1 (Or.inr (Or.inl (feq_refl k1)))
      have z3 : exactDecision q'.v0 q'.v1 q'.v3 = 1 := by rw [E_rot k3 k0 k1]; exact e301
      simp only [sepByB, Q4.verts, List.all_cons, List.all_nil, Bool.and_true, Bool.and_eq_true,
        Bool.not_eq_true', bne_iff_ne, ne_eq, sw h0, sw h1, sw h2, sw h3, sw k0, sw k1, sw k2, sw k3,
        d1, d2, y2, y3, z0, z1, z3, e012]
      refine ⟨⟨?_, by decide⟩, by decide⟩
      rw [feq_comm k1 k0]; exact m01
    simp [edgeSep, Q4.edges, hsep]
  · -- `q`'s top edge separates
    have hsep : sepByB q.v2 q.v3 q q' = true := by
      have g1 : exactDecision q.v2 q.v3 q.v1 = 1 := by rw [E_rot h1 h2 h3]; exact c123
      have g2 : exactDecision q.v2 q.v3 q.v2 = 0 := zero h2 h3 h2 (Or.inr (Or.inr (feq_refl h2)))
      have g3 : exactDecision q.v2 q.v3 q.v3 = 0 := zero h2 h3 h3 (Or.inr (Or.inl (feq_refl h3)))
      have l0 : exactDecision q.v2 q.v3 q'.v0 = 0 := by
        rw [← E_congr h2 h3 h2 h2 h3 k0 (feq_refl h2) (feq_refl h3) hx]; exact g2
      simp only [sepByB, Q4.verts, List.all_cons, List.all_nil, Bool.and_true, Bool.and_eq_true,
        Bool.not_eq_true', bne_iff_ne, ne_eq, c230, g1, g2, g3, l0, c1, c2]
      exact ⟨⟨n23, by decide⟩, by decide, hs, by decide, by decide⟩
    simp [edgeSep, Q4.edges, hsep]

/-! ## 4. families of cells -/

/-- `Pairwise` as a Boolean (predictable kernel evaluation) -/
def pairwiseB {α : Type} (r : α → α → Bool) : List α → Bool
  | [] => true
  | a :: l => l.all (r a) && pairwiseB r l

private theorem pairwise_of_pairwiseB {α : Type} {r : α → α → Bool} {l : List α} (h : pairwiseB r l = true) :
    l.Pairwise (fun a b => r a b = true) := by
  induction l with
  | nil => exact List.Pairwise.nil
  | cons a l ih =>
    simp only [pairwiseB, Bool.and_eq_true, List.all_eq_true] at h
    exact List.Pairwise.cons h.1 (ih h.2)

/-- the decidable separation certificate of a family of cells: every two cells are separated by an edge of one
    of them -/
def edgeSepAll (cells : List Q4) : Bool := pairwiseB edgeSep cells

private theorem filter_length_le_one {α : Type} (f : α → Bool) (R : α → α → Prop) (l : List α)
    (hR : l.Pairwise R) (hex : ∀ a ∈ l, ∀ b ∈ l, R a b → f a = true → f b = true → False) :
    (l.filter f).length ≤ 1 := by
  induction l with
  | nil => simp
  | cons a l ih =>
    rw [List.pairwise_cons] at hR
    have ih' := ih hR.2 (fun x hx y hy => hex x (List.mem_cons_of_mem _ hx) y (List.mem_cons_of_mem _ hy))
    by_cases ha : f a = true
    · have : l.filter f = [] := by
        rw [List.filter_eq_nil_iff]
        intro b hb hfb
        exact hex a (by simp) b (List.mem_cons_of_mem _ hb) (hR.1 b hb) ha hfb
      simp [ha, this]
    · simp only [Bool.not_eq_true] at ha
      simpa [List.filter_cons, ha] using ih'

/-- the reference point and the query point against a family of cells: `PtOK`, compatible, `o` compatible with
    every cell's vertex 1, `p` not `==` to any vertex -/
def FamilyDom (o : V3) (cells : List Q4) (p : V3) : Prop :=
  PtOK o ∧ PtOK p ∧ Compat o p ∧ ∀ q ∈ cells, q.OK ∧ Compat o q.v1 ∧ OffVerts q p

instance (o : V3) (cells : List Q4) (p : V3) : Decidable (FamilyDom o cells p) := by
  unfold FamilyDom; infer_instance

/-- the loops of a family of cells have finite vertices -/
theorem cells_loopIn_exact {o : V3} {cells : List Q4} (h : ∀ q ∈ cells, q.OK) :
    ∀ L ∈ cells.map (Q4.loop o), LoopIn Fin3 L := by
  intro L hL
  obtain ⟨q, hq, rfl⟩ := List.mem_map.1 hL
  intro v hv
  exact Q4.fin_of_mem (h q hq) (by simpa [Q4.loop, mkLoop, Q4.verts] using hv)

/-- the number of cell loops that contain `p` is the number of cells with `p` on the inner side of all four
    edges -/
theorem containCount_cells_exact {o p : V3} {cells : List Q4} (hd : FamilyDom o cells p) :
    containCount o (cells.map (Q4.loop o)) p = (cells.filter fun q => q.inner p).length := by
  unfold containCount
  rw [List.filter_map, List.length_map]
  congr 1
  apply List.filter_congr
  intro q hq
  obtain ⟨ho, hp, hop, hc⟩ := hd
  obtain ⟨hok, hov, hoff⟩ := hc q hq
  have m : q.v0 ∈ q.verts ∧ q.v1 ∈ q.verts ∧ q.v2 ∈ q.verts ∧ q.v3 ∈ q.verts := by simp [Q4.verts]
  exact cellLoop_contains_eq_inner_exact hok ho hp hov hop (hoff _ m.1) (hoff _ m.2.1) (hoff _ m.2.2.1)
    (hoff _ m.2.2.2)

/-- **At most one cell contains p** — the hypothesis `hle` of `tiling_exactly_once(_eq)_exact`, discharged:
    for a family of convex cell loops that are pairwise edge-separated (decidable certificate `edgeSepAll`),
    at every point `p` that is not `==` to a vertex — points on shared edges included. -/
theorem cells_count_le_one_exact {o p : V3} {cells : List Q4} (hd : FamilyDom o cells p)
    (hsep : edgeSepAll cells = true) :
    containCount o (cells.map (Q4.loop o)) p ≤ 1 := by
  rw [containCount_cells_exact hd]
  refine filter_length_le_one _ _ cells (pairwise_of_pairwiseB hsep) ?_
  intro a ha b hb hab ia ib
  exact edgeSep_disjoint_exact (hd.2.2.2 a ha).1 (hd.2.2.2 b hb).1 hd.2.1.1 hab (hd.2.2.2 a ha).2.2
    (hd.2.2.2 b hb).2.2 ⟨ia, ib⟩

/-- **EXACTLY one cell contains p**: convex, pairwise edge-separated cell loops whose directed edges cancel in
    pairs up to `==` (neighbours share their vertices bit for bit or as ±0 twins) and whose reference point is in
    an odd number of them — every point that is not `==` to a vertex is in exactly one cell loop. -/
theorem cells_exactly_once_exact {o p : V3} {cells : List Q4} (hd : FamilyDom o cells p)
    (hsep : edgeSepAll cells = true)
    (hc : EdgesCancelEq exactGeo (familyEdges (cells.map (Q4.loop o))))
    (hodd : ((cells.map (Q4.loop o)).filter fun L => L.originInside).length % 2 = 1) :
    containCount o (cells.map (Q4.loop o)) p = 1 := by
  have hL : ∀ L ∈ cells.map (Q4.loop o), LoopIn Fin3 L :=
    cells_loopIn_exact (fun q hq => (hd.2.2.2 q hq).1)
  have hpar := tiling_parity_eq_exact hd.1.1 hd.2.1.1 hd.1.2.1 hd.2.1.2.1 hL hc
  have hle := cells_count_le_one_exact hd hsep
  omega

/-! ## 5. the instance scheme (instances: `C04_Tiling2_L1.lean`) -/

private theorem edgesCancelEq_of_pairOK' {es : List (V3 × V3)} (h : PairOK es) : EdgesCancelEq exactGeo es :=
  ⟨_, _, h.1, h.2.1, h.2.2⟩

/-- every vertex of every cell of the family is (bit for bit) a member of the vertex pool `pool` -/
def vertsIn (pool : List V3) (cells : List Q4) : Bool :=
  cells.all fun q => q.verts.all fun x => pool.any fun y => decide (y = x)

private theorem offVerts_of_pool {pool : List V3} {cells : List Q4} (h : vertsIn pool cells = true) {p : V3}
    (hoff : ∀ x ∈ pool, V3.feq x p = false) : ∀ q ∈ cells, OffVerts q p := by
  intro q hq x hx
  simp only [vertsIn, List.all_eq_true, List.any_eq_true, decide_eq_true_eq] at h
  obtain ⟨y, hy, rfl⟩ := h q hq x hx
  exact hoff y hy

/-- the general instance scheme: a family given by a checked certificate (all decidable, kernel-evaluated for the
    faces and for level 1 below) tiles the sphere exactly once off its vertices.  No compatibility hypothesis
    between `o` and `p`: a point `==` to the reference point gets the origin bits. -/
theorem cells_exactly_once_of_certificate {o p : V3} {cells : List Q4} {pool : List V3}
    (ho : PtOK o) (hcells : ∀ q ∈ cells, q.OK ∧ Compat o q.v1) (hpool : vertsIn pool cells = true)
    (hsep : edgeSepAll cells = true) (hc : PairOK (familyEdges (cells.map (Q4.loop o))))
    (hone : ((cells.map (Q4.loop o)).filter fun L => L.originInside).length = 1)
    (hp : PtOK p) (hoff : ∀ x ∈ pool, V3.feq x p = false) :
    containCount o (cells.map (Q4.loop o)) p = 1 := by
  cases hop : V3.feq o p with
  | false =>
    exact cells_exactly_once_exact
      ⟨ho, hp, Or.inl hop, fun q hq => ⟨(hcells q hq).1, (hcells q hq).2, offVerts_of_pool hpool hoff q hq⟩⟩
      hsep (edgesCancelEq_of_pairOK' hc) (by rw [hone])
  | true =>
    rw [← hone]
    unfold containCount
    congr 1
    apply List.filter_congr
    intro L _
    unfold bruteContains
    rw [crossParity_degenerate exactGeo o p _ hop]
    simp

/-- `==` twins (±0) with `==` reference directions get the same answer from every loop -/
theorem containCount_congr_exact {o p p' : V3} {loops : List (LoopM V3)} (ho : PtOK o) (hp : PtOK p)
    (hp' : PtOK p') (hL : ∀ L ∈ loops, LoopIn Fin3 L) (e : V3.feq p p' = true)
    (er : V3.feq (s2Ortho p) (s2Ortho p') = true) : containCount o loops p = containCount o loops p' := by
  unfold containCount
  congr 1
  apply List.filter_congr
  intro L hLm
  unfold bruteContains
  rw [crossParity_congr_b_on chiroOn_exactGeo ho.1 hp.1 hp'.1 ho.2.1 hp.2.1 hp'.2.1 e er
    (edgesIn_loopEdges (hL L hLm))]

/-! ## 6. non-vacuity (cells of level 3 with genuine rounding noise; level 1 and the faces: `C04_Tiling2_L1.lean`) -/

/-- the four children of the level-2 cell 6989586621679009792 of face 3 (`C04_Tiling.kid0..3`: values of
    `Cell.Vertex`) as cells; `kq0`/`kq2` and `kq1`/`kq3` are diagonal neighbours (they share only the vertex `cC`) -/
def kq0 : Q4 := ⟨cP0, cM01, cC, cM30⟩
def kq1 : Q4 := ⟨cM01, cP1, cM12, cC⟩
def kq2 : Q4 := ⟨cC, cM12, cP2, cM23⟩
def kq3 : Q4 := ⟨cM30, cC, cM23, cP3⟩

/-- a point in general position inside `kq0`, and the point 2·cC: a positive multiple of the vertex `cC` that all
    four cells share, not `==` to it — exactly on the great circles of all four edges that end at `cC` (the exact
    determinants vanish, every decision is symbolic) -/
def pK : V3 := ⟨⟨0xbfe3000000000000⟩, ⟨0x3fe2000000000000⟩, ⟨0x3fe1000000000000⟩⟩
def pE : V3 := ⟨cC.x + cC.x, cC.y + cC.y, cC.z + cC.z⟩

example : kq0.OK ∧ kq1.OK ∧ kq2.OK ∧ kq3.OK := by decide +kernel

example : SimpleLoop exactGeo [cP0, cM01, cC, cM30] := cellQuad_simple (by decide +kernel)

/-- the convex-quadrilateral lemma at a point of general position, at the degenerate point `pE` (exact
    determinants 0 against the edges at `cC`, symbolic decisions: in `kq0`, in none of the other three), and the
    determinant form -/
example : detSign cM01 cC pE = 0 ∧ detSign cC cM30 pE = 0 ∧ V3.feq cC pE = false ∧ kq0.inner pE = true ∧
    kq1.inner pE = false ∧ kq2.inner pE = false ∧ kq3.inner pE = false ∧ kq0.inner pK = true := by
  decide +kernel

example : bruteContains exactGeo originPoint (mkLoop exactGeo originPoint #[cM01, cP1, cM12, cC]) pE =
    inQuad exactGeo cM01 cP1 cM12 cC pE :=
  cellLoop_contains_eq_inner_exact (by decide +kernel) (by decide +kernel) (by decide +kernel) (by decide +kernel)
    (by decide +kernel) (by decide +kernel) (by decide +kernel) (by decide +kernel) (by decide +kernel)

example : bruteContains exactGeo originPoint (mkLoop exactGeo originPoint #[cP0, cM01, cC, cM30]) pK = true :=
  (cellLoop_contains_iff_det_exact (by decide +kernel) (by decide +kernel) (by decide +kernel) (by decide +kernel)
    (by decide +kernel) (by decide +kernel) (by decide +kernel) (by decide +kernel) (by decide +kernel)).2
    (by decide +kernel)

/-- the vertex rule at all four vertices of `kq0` -/
example : bruteContains exactGeo originPoint (mkLoop exactGeo originPoint #[cP0, cM01, cC, cM30]) cC =
    angleContainsVertex exactGeo cM01 cC cM30 :=
  (cellLoop_contains_vertices_exact (by decide +kernel) (by decide +kernel) (by decide +kernel)).2.2.1

/-- separation: neighbours across an edge, and DIAGONAL neighbours (only the vertex `cC` in common): an edge plane
    of one of the two exact quadrilaterals separates them although the float vertices are not on common great
    circles -/
example : edgeSep kq0 kq1 = true ∧ edgeSep kq0 kq2 = true ∧ edgeSep kq1 kq3 = true ∧
    edgeSepAll [kq0, kq1, kq2, kq3] = true := by decide +kernel

/-- the structural lemmas: edge neighbours `kq0`, `kq1` (shared edge `cM01 cC`) and diagonal neighbours `kq0`,
    `kq2` (shared vertex `cC`, four orientations with a full cell of margin) need no search -/
example : edgeSep kq0 kq1 = true :=
  shared_edge_edgeSep_exact (a := cM01) (b := cC) (a' := cM01) (b' := cC) (by decide +kernel) (by decide +kernel)
    (by simp [Q4.edges, kq0]) (by simp [Q4.edges, kq1]) (by decide +kernel) (by decide +kernel)

example : edgeSep kq1 kq3 = true :=
  far_edgeSep_exact (e := (cM12, cC)) (by decide +kernel) (by simp [Q4.edges, kq1]) (by decide +kernel)

example : edgeSep kq0 kq2 = true :=
  diagonal_edgeSep_exact (by decide +kernel) (by decide +kernel) (by decide +kernel) (by decide +kernel)
    (by decide +kernel) (by decide +kernel) (by decide +kernel)

example : exactDecision cC cM01 pK ≠ 1 :=
  inner_side_exact (w0 := cP0) (w1 := cM01) (w2 := cC) (w3 := cM30) (by decide +kernel)
    (by decide +kernel) (by decide +kernel) (by decide +kernel) (by decide +kernel) (by decide +kernel)
    (by decide +kernel) (by decide +kernel) (by decide +kernel) (by decide +kernel) (by decide +kernel)
    (by decide +kernel) (by decide +kernel) (by decide +kernel)

example : ¬ (kq0.inner pE = true ∧ kq2.inner pE = true) :=
  edgeSep_disjoint_exact (by decide +kernel) (by decide +kernel) (by decide +kernel) (by decide +kernel)
    (by decide +kernel) (by decide +kernel)

example : ¬ (kq0.inner pE = true ∧ kq1.inner pE = true) :=
  shared_edge_disjoint_exact (a := cM01) (b := cC) (a' := cM01) (b' := cC) (by decide +kernel)
    (by decide +kernel) (by decide +kernel) (by simp [Q4.edges, kq0]) (by simp [Q4.edges, kq1])
    (by decide +kernel) (by decide +kernel)

/-- the family theorems on the four children (one face, one level, a 2 × 2 block): at most one child contains the
    multiple `pE` of their common vertex -/
example : FamilyDom originPoint [kq0, kq1, kq2, kq3] pE := by decide +kernel

example : containCount originPoint ([kq0, kq1, kq2, kq3].map (Q4.loop originPoint)) pE ≤ 1 :=
  cells_count_le_one_exact (by decide +kernel) (by decide +kernel)

end S2Proofs.C04
