/-
  C14 (Remove) — `ShapeIndex.Remove` in the regenerated protocol IR (work package c13remove).

  translator_c14 now also translates `Remove`: the list of its SHARED accesses in source order
  (`S2.Generated.ProtocolIR.remove`) and its early returns (`removeEarlyReturns`: number of instructions executed
  before the guard, the guard).  Locals, the loop that fills the local `removedShape` and calls of read-only helpers
  are checked to be local by the translator (anything else makes it fail) and are not instructions.
  `Remove` is a mutator like `Add` / `Reset`: the library requires external synchronisation for it (assumption of
  C14); what the obligations below pin is the ORDER of its accesses: `stale` is published by the last access, after
  the delete from `shapes` and after the append to `pendingRemovals`; a call that returns early has stored no status
  at all and has written nothing but the map `shapes` (the never-indexed shortcut of `S2.History.Index.remove`).
-/
import S2.Protocol
import S2.Generated.ProtocolIR
import S2Proofs.Properties.C14
namespace S2Proofs.C14
open S2.Protocol

/-- `Remove` publishes `stale` only after its writes, and that is its only status access -/
theorem remove_stores_status_last :
    S2.Generated.ProtocolIR.remove.getLast? = some (.storeStatus .stale) ∧
    S2.Generated.ProtocolIR.remove.dropLast.all (fun i => i == .writeShapes) = true := by decide

/-- the two early returns of `Remove` (shape not in the index; shape never indexed) happen before the append to
    `pendingRemovals` and before any status store: such a call has executed at most the delete from `shapes` -/
theorem remove_early_returns :
    S2.Generated.ProtocolIR.removeEarlyReturns = [(0, "s.shapes[id] == nil"), (1, "id >= s.pendingAdditionsPos")] ∧
    S2.Generated.ProtocolIR.removeEarlyReturns.all
      (fun r => (S2.Generated.ProtocolIR.remove.take r.1).all (fun i => i == .writeShapes) && decide (r.1 ≤ 1)) = true := by
  decide

/-- `Remove` is not a query program (it writes index fields without the mutex) -/
example : WellFormed S2.Generated.ProtocolIR.remove = false := by decide

end S2Proofs.C14
