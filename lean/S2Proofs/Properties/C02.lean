/-
  Property C02 — orientation and distance predicates return the sign of the exact quantity.

  Objects: `S2.Pred` (faithful model of s2/predicates.go), `S2.Exact` (exact integers at the common
  scale 2^1074: value(x) = toInt x / 2^1074).  The model is tied to the Go code by the oracle
  (ops `c02…`: every stage bit-exact).

  PROVED (all inputs, no size bounds):
   (1) exact stage = sign of the exact determinant                      exactSign_eq_sign_det, exactSign_unperturbed_eq_sign_det
   (2) exact+symbolic decision is 0 iff two arguments are equal          exactDecision_zero_iff
   (3) rotation invariance, swap negation (sorting + permSign)           exactDecision_rotate, exactDecision_swap12/23/13
   (4) simulation of simplicity for a triple                             sos_triple, sos_triple_degenerate, sos_last_case, sos_decision
   (5) distance comparison: exact, antisymmetric, non-zero               exactCompareDistances_true_distance, …
   (0) float-level model = exact-integer model on finite inputs          exactSign_eq_exactSignI, exactDecision_eq_exactDecisionI, …
   (6) each float stage is sound GIVEN its error bound                   …_given_error_bound, robustSign_given_error_bounds
  PARTIAL (stated, not proved):
   * sufficiency of the float error constants (maxDeterminantError, detErrorMultiplier, the cos / sin²
     error formulas, 3.046875·ε): hypotheses of the `…_given_error_bound` theorems; searched by the oracle.
   (`sos_global` — one perturbation per point serves all triples of a finite point set — is stated here as
     `def … : Prop` and PROVED in `Properties/C02_Global.lean`: `sos_global_holds`.)
-/
import S2Proofs.PredLemmas
import S2Proofs.F64Order

namespace S2Proofs.C02
open S2 S2.Exact S2.Pred S2Proofs.PredLemmas S2Proofs.F64Order

/-! ## (0) the float-level model computes the exact-integer model (finite inputs) -/

/-- `exactSign` on float vectors (sorting with the float `Cmp`) is `exactSignI` on the exact vectors. -/
theorem exactSign_eq_exactSignI (a b c : V3) (p : Bool) (ha : Fin3 a) (hb : Fin3 b) (hc : Fin3 c) :
    exactSign a b c p = exactSignI (ofV3 a) (ofV3 b) (ofV3 c) p := by
  -- on the three points the float comparison is the exact one
  have hagree : ∀ u v, Fin3 u → Fin3 v →
      (fun (u v : V3) => decide (V3.cmp u v > 0)) u v = (fun (u v : V3) => gtI (ofV3 u) (ofV3 v)) u v := by
    intro u v fu fv
    simp only [gtI, v3cmp_eq fu fv]
  have hsort := sort3_congr (fun (u v : V3) => decide (V3.cmp u v > 0)) (fun (u v : V3) => gtI (ofV3 u) (ofV3 v))
    a b c (hagree a b ha hb) (hagree b a hb ha) (hagree b c hb hc) (hagree c b hc hb)
      (hagree a c ha hc) (hagree c a hc ha)
  have hmap := sort3_map ofV3 (fun (u v : V3) => gtI (ofV3 u) (ofV3 v)) gtI a b c (fun _ _ => rfl)
  unfold exactSign
  rewrite [hsort, exactSignI_eq, hmap]
  generalize sort3 (fun (u v : V3) => gtI (ofV3 u) (ofV3 v)) a b c = t
  obtain ⟨x, y, z, s⟩ := t
  rfl

example : Fin3 ⟨F64.one, F64.zero false, F64.zero true⟩ := by decide +kernel

/-- The exact + symbolic layer of `RobustSign` on finite float points is `exactDecisionI` of the exact vectors
    (Go's `a == b` on points is equality of the exact vectors). -/
theorem exactDecision_eq_exactDecisionI (a b c : V3) (ha : Fin3 a) (hb : Fin3 b) (hc : Fin3 c) :
    exactDecision a b c = exactDecisionI (ofV3 a) (ofV3 b) (ofV3 c) := by
  unfold exactDecision exactDecisionI
  rw [exactSign_eq_exactSignI a b c true ha hb hc]
  simp only [Bool.or_eq_true, v3feq_iff ha hb, v3feq_iff hb hc, v3feq_iff hc ha, or_assoc]

/-! ## (1) the exact stage returns the sign of the exact determinant -/

/-- If the exact 3×3 determinant is non-zero, `exactSign` (with or without perturbation) returns its sign. -/
theorem exactSign_eq_sign_det (a b c : IV3) (p : Bool) (h : det3 a b c ≠ 0) :
    exactSignI a b c p = sgn (det3 a b c) := by
  have hs := sort3_det gtI a b c
  have hne : det3 (sort3 gtI a b c).1 (sort3 gtI a b c).2.1 (sort3 gtI a b c).2.2.1 ≠ 0 := by
    intro h0
    rw [h0] at hs
    have : sgn (det3 a b c) = 0 := by rw [← hs]; simp [sgn]
    exact h (sgn_eq_zero.mp this)
  rw [exactSignI_eq, exactSignSorted_of_det_ne p hne]; exact hs

example : det3 ⟨1, 0, 0⟩ ⟨0, 1, 0⟩ ⟨0, 0, 1⟩ ≠ 0 := by decide +kernel

/-- Without perturbation `exactSign` is the sign of the exact determinant for ALL inputs (0 iff coplanar). -/
theorem exactSign_unperturbed_eq_sign_det (a b c : IV3) : exactSignI a b c false = sgn (det3 a b c) := by
  have hs := sort3_det gtI a b c
  rw [exactSignI_eq]
  simpa [exactSignSorted, det3] using hs

/-! ## (2) zero iff two arguments are identical -/

/-- The exact + symbolic decision returns Indeterminate (0) if and only if two of the points are equal. -/
theorem exactDecision_zero_iff (a b c : IV3) : exactDecisionI a b c = 0 ↔ (a = b ∨ b = c ∨ c = a) := by
  unfold exactDecisionI
  constructor
  · intro h
    by_contra hne
    rw [if_neg hne] at h
    exact exactSignI_true_ne_zero a b c h
  · intro h; rw [if_pos h]

/-! ## (3) rotation invariance and swap negation, all inputs including degenerate ones -/

theorem exactSignI_rotate {a b c : IV3} (hab : a ≠ b) (hbc : b ≠ c) (hac : a ≠ c) (p : Bool) :
    exactSignI b c a p = exactSignI a b c p := by
  rw [exactSignI_eq, exactSignI_eq, sort3_rot gtI_strictTotal hab hbc hac]

theorem exactSignI_swap12 {a b c : IV3} (hab : a ≠ b) (hbc : b ≠ c) (hac : a ≠ c) (p : Bool) :
    exactSignI b a c p = -exactSignI a b c p := by
  rw [exactSignI_eq, exactSignI_eq, sort3_swap12 gtI_strictTotal hab hbc hac]
  simp [neg4]

theorem exactSignI_swap23 {a b c : IV3} (hab : a ≠ b) (hbc : b ≠ c) (hac : a ≠ c) (p : Bool) :
    exactSignI a c b p = -exactSignI a b c p := by
  rw [exactSignI_eq, exactSignI_eq, sort3_swap23 gtI_strictTotal hab hbc hac]
  simp [neg4]

/-- Rotating the arguments does not change the answer. -/
theorem exactDecision_rotate (a b c : IV3) : exactDecisionI b c a = exactDecisionI a b c := by
  unfold exactDecisionI
  by_cases h : a = b ∨ b = c ∨ c = a
  · have h' : b = c ∨ c = a ∨ a = b := by tauto
    rw [if_pos h, if_pos h']
  · have h' : ¬ (b = c ∨ c = a ∨ a = b) := by tauto
    rw [if_neg h, if_neg h']
    simp only [not_or] at h
    exact exactSignI_rotate h.1 h.2.1 (Ne.symm h.2.2) true

/-- Exchanging the first two arguments negates the answer. -/
theorem exactDecision_swap12 (a b c : IV3) : exactDecisionI b a c = -exactDecisionI a b c := by
  unfold exactDecisionI
  by_cases h : a = b ∨ b = c ∨ c = a
  · have h' : b = a ∨ a = c ∨ c = b := by
      rcases h with h | h | h
      · exact Or.inl h.symm
      · exact Or.inr (Or.inr h.symm)
      · exact Or.inr (Or.inl h.symm)
    rw [if_pos h, if_pos h']; rfl
  · have h' : ¬ (b = a ∨ a = c ∨ c = b) := by
      intro h'; apply h
      rcases h' with h' | h' | h'
      · exact Or.inl h'.symm
      · exact Or.inr (Or.inr h'.symm)
      · exact Or.inr (Or.inl h'.symm)
    rw [if_neg h, if_neg h']
    simp only [not_or] at h
    exact exactSignI_swap12 h.1 h.2.1 (Ne.symm h.2.2) true

/-- Exchanging the last two arguments negates the answer. -/
theorem exactDecision_swap23 (a b c : IV3) : exactDecisionI a c b = -exactDecisionI a b c := by
  unfold exactDecisionI
  by_cases h : a = b ∨ b = c ∨ c = a
  · have h' : a = c ∨ c = b ∨ b = a := by
      rcases h with h | h | h
      · exact Or.inr (Or.inr h.symm)
      · exact Or.inr (Or.inl h.symm)
      · exact Or.inl h.symm
    rw [if_pos h, if_pos h']; rfl
  · have h' : ¬ (a = c ∨ c = b ∨ b = a) := by
      intro h'; apply h
      rcases h' with h' | h' | h'
      · exact Or.inr (Or.inr h'.symm)
      · exact Or.inr (Or.inl h'.symm)
      · exact Or.inl h'.symm
    rw [if_neg h, if_neg h']
    simp only [not_or] at h
    exact exactSignI_swap23 h.1 h.2.1 (Ne.symm h.2.2) true

/-- Exchanging the first and last arguments negates the answer (`RobustSign(c,b,a) = -RobustSign(a,b,c)`). -/
theorem exactDecision_swap13 (a b c : IV3) : exactDecisionI c b a = -exactDecisionI a b c := by
  rw [exactDecision_swap12 b c a, exactDecision_rotate a b c]

example : exactDecisionI ⟨1, 0, 0⟩ ⟨2, 0, 0⟩ ⟨3, 0, 0⟩ = 1 ∧ exactDecisionI ⟨3, 0, 0⟩ ⟨2, 0, 0⟩ ⟨1, 0, 0⟩ = -1 := by decide +kernel

/-! ## (4) simulation of simplicity -/

/-- **Simulation of simplicity (one triple).**  Perturb
    `da.Z, da.Y, da.X, db.Z, db.Y, db.X, dc.Z, dc.Y, dc.X = ε^1, ε^2, ε^4, ε^8, ε^16, ε^32, ε^64, ε^128, ε^256`.
    There is ε₀ > 0 such that for all 0 < ε < ε₀ the sign of the genuinely perturbed determinant is what the
    exact stage of `exactSign` computes for (a, b, c) (the sign of the exact determinant if that is non-zero,
    otherwise the 13-case cascade `symbolicallyPerturbedSign`).  Holds for all a, b, c (the code calls it
    with a < b < c, which matters only for the consistency between different triples). -/
theorem sos_triple (a b c : IV3) :
    ∃ ε₀ : ℝ, 0 < ε₀ ∧ ∀ ε : ℝ, 0 < ε → ε < ε₀ → rsgn (pertDet a b c ε) = exactSignSorted a b c true := by
  obtain ⟨ε₀, h0, H⟩ := evalS_sign (sosCoeffs a b c)
  refine ⟨ε₀, h0, fun ε he he' => ?_⟩
  rw [pertDet_expansion, H ε he he', sgn_lead_sosCoeffs]

/-- The degenerate case: if the exact determinant is zero, the sign of the perturbed determinant is the
    answer of `symbolicallyPerturbedSign(a, b, c, b×c)`. -/
theorem sos_triple_degenerate (a b c : IV3) (h : det3 a b c = 0) :
    ∃ ε₀ : ℝ, 0 < ε₀ ∧ ∀ ε : ℝ, 0 < ε → ε < ε₀ →
      rsgn (pertDet a b c ε) = symbolicallyPerturbedSign a b c (b.cross c) := by
  obtain ⟨ε₀, h0, H⟩ := sos_triple a b c
  exact ⟨ε₀, h0, fun ε he he' => by rw [H ε he he', exactSignSorted_of_det_eq h]⟩

example : det3 ⟨1, 0, 0⟩ ⟨2, 0, 0⟩ ⟨3, 0, 0⟩ = 0 := by decide +kernel

/-- The code's claim about its last line: when the exact determinant and all twelve tested coefficients vanish,
    EVERY coefficient of the perturbed determinant below ε^84 vanishes — also the four the code does not test
    (ε^17, ε^32, ε^33, ε^34) — and the coefficient of ε^84 (`dc.Z·db.Y·da.X`) is the constant +1:
    the lowest-order non-zero coefficient is +1, which is what the final `return CounterClockwise` reports. -/
theorem sos_last_case (a b c : IV3) (hdet : det3 a b c = 0)
    (hall : ∀ t ∈ (spsTests a b c).take 12, t = 0) :
    lead (sosCoeffs a b c) = 1 ∧ symbolicallyPerturbedSign a b c (b.cross c) = 1 := by
  have hz : ∀ l : List ℤ, (∀ t ∈ l, t = 0) → leadL (l ++ [1]) = 1 := by
    intro l
    induction l with
    | nil => intro _; simp [leadL]
    | cons t r ih =>
      intro h
      have ht : t = 0 := h t (List.mem_cons_self)
      have hr := ih (fun u hu => h u (List.mem_cons_of_mem _ hu))
      simp only [List.cons_append, leadL, ht, ne_eq, not_true_eq_false, if_false]
      exact hr
  have hl : leadL (spsTests a b c) = 1 := hz _ hall
  refine ⟨by rw [lead_sosCoeffs_of_det_eq hdet, hl], ?_⟩
  rw [sps_eq_leadL, hl]; rfl

example : (∀ t ∈ (spsTests ⟨0, 0, 0⟩ ⟨0, 0, 1⟩ ⟨0, 0, 0⟩).take 12, t = 0) ∧ det3 ⟨0, 0, 0⟩ ⟨0, 0, 1⟩ ⟨0, 0, 0⟩ = 0 := by
  decide +kernel

/-- The whole exact decision for distinct points: `RobustSign`'s exact layer is `permSign` times the sign of the
    perturbed determinant of the SORTED points, i.e. the sign of the determinant of (a, b, c) in the given order
    in which each point carries the perturbation belonging to its rank among the three. -/
theorem sos_decision (a b c : IV3) (h : ¬ (a = b ∨ b = c ∨ c = a)) :
    ∃ ε₀ : ℝ, 0 < ε₀ ∧ ∀ ε : ℝ, 0 < ε → ε < ε₀ →
      exactDecisionI a b c = (sort3 gtI a b c).2.2.2 *
        rsgn (pertDet (sort3 gtI a b c).1 (sort3 gtI a b c).2.1 (sort3 gtI a b c).2.2.1 ε) := by
  obtain ⟨ε₀, h0, H⟩ := sos_triple (sort3 gtI a b c).1 (sort3 gtI a b c).2.1 (sort3 gtI a b c).2.2.1
  refine ⟨ε₀, h0, fun ε he he' => ?_⟩
  unfold exactDecisionI
  rw [if_neg h, exactSignI_eq, H ε he he']

example : ¬ ((⟨1, 0, 0⟩ : IV3) = ⟨2, 0, 0⟩ ∨ (⟨2, 0, 0⟩ : IV3) = ⟨3, 0, 0⟩ ∨ (⟨3, 0, 0⟩ : IV3) = ⟨1, 0, 0⟩) := by decide +kernel

/-- number of points of the list that are lexicographically smaller than `p` -/
def rankIn (pts : List IV3) (p : IV3) : ℕ := (pts.filter fun q => gtI p q).length

/-- the point `p` carrying the perturbation of rank `r`:  (dZ, dY, dX) = (ε^(8^r), ε^(2·8^r), ε^(4·8^r)) -/
def perturbRank (p : IV3) (r : ℕ) (ε : ℝ) : ℝ × ℝ × ℝ := perturb p ε (4 * 8 ^ r) (2 * 8 ^ r) (8 ^ r)

/-- PROVED in `Properties/C02_Global.lean` (`sos_global_holds`; statement kept here): global consistency of the symbolic perturbation.
    For every finite set of distinct points there is ONE perturbation per point (depending only on the rank
    of the point in the set) such that for all small ε the answers of the exact decision on ALL triples are
    the orientation signs of the genuinely perturbed points — hence no set of answers contradicts a real point
    configuration (in particular all Grassmann–Plücker relations on 5-tuples hold).
    `sos_triple` / `sos_decision` prove this for a single triple (ranks 0, 1, 2); the oracle checks the global
    statement on every generated 4- and 5-tuple (op `c02chiro`). -/
def sos_global : Prop :=
  ∀ pts : List IV3, pts.Nodup →
    ∃ ε₀ : ℝ, 0 < ε₀ ∧ ∀ ε : ℝ, 0 < ε → ε < ε₀ →
      ∀ a ∈ pts, ∀ b ∈ pts, ∀ c ∈ pts,
        exactDecisionI a b c =
          rsgn (detR (perturbRank a (rankIn pts a) ε) (perturbRank b (rankIn pts b) ε) (perturbRank c (rankIn pts c) ε))

/-! ## (5) distance predicates -/

/-- **`exactCompareDistances` is the exact comparison of the true spherical distances** (points projected
    onto the unit sphere): with `na = |a|`, `nb = |b|` it is the sign of `cos(BX) − cos(AX) = x·b/|b| − x·a/|a|`
    (the common positive factor 1/|x| is irrelevant), i.e. −1 iff AX < BX, +1 iff AX > BX, 0 iff AX = BX.
    Guard: a ≠ 0 and b ≠ 0 (`0 < na`, `0 < nb`); the zero vector has no projection. -/
theorem exactCompareDistances_true_distance (x a b : IV3) (na nb : ℝ) (hna : 0 < na) (hnb : 0 < nb)
    (ha : na ^ 2 = (a.norm2 : ℝ)) (hb : nb ^ 2 = (b.norm2 : ℝ)) :
    exactCompareDistances x a b = rsgn ((x.dot b : ℝ) / nb - (x.dot a : ℝ) / na) := by
  rw [← cos_compare_real (x.dot a) (x.dot b) na nb _ _ hna hnb ha hb]
  simp only [exactCompareDistances, sgn_eq_rsgn_cast]
  push_cast
  rfl

example : (0 : ℝ) < 5 ∧ (5 : ℝ) ^ 2 = (((⟨3, 4, 0⟩ : IV3).norm2 : ℤ) : ℝ) := by
  refine ⟨by norm_num, ?_⟩
  have : (⟨3, 4, 0⟩ : IV3).norm2 = 25 := by decide
  rw [this]; norm_num

/-- Comparing two distances from a common point is antisymmetric (exact + symbolic layer). -/
theorem exactDistancesDecision_antisymm (x a b : IV3) :
    exactDistancesDecisionI x b a = -exactDistancesDecisionI x a b := by
  unfold exactDistancesDecisionI
  rw [exactCompareDistances_antisymm x a b, symbolicI_antisymm a b]
  by_cases h : exactCompareDistances x a b = 0 <;> simp [h]

/-- … and non-zero for distinct points: it is 0 if and only if a = b. -/
theorem exactDistancesDecision_zero_iff (x a b : IV3) : exactDistancesDecisionI x a b = 0 ↔ a = b := by
  unfold exactDistancesDecisionI
  constructor
  · intro h
    by_cases h' : exactCompareDistances x a b = 0
    · simp only [h', ne_eq, not_true_eq_false, if_false] at h
      exact (symbolicI_eq_zero_iff a b).mp h
    · simp only [ne_eq, h', not_false_eq_true, if_true] at h
  · intro h; subst h
    have h0 : exactCompareDistances x a a = 0 := by
      have := exactCompareDistances_antisymm x a a
      omega
    simp [h0, (symbolicI_eq_zero_iff a a).mpr rfl]

/-- Whenever the true distances differ the answer is their exact comparison (the symbolic tie-break is
    consulted only for exactly equal distances). -/
theorem exactDistancesDecision_exact (x a b : IV3) (h : exactCompareDistances x a b ≠ 0) :
    exactDistancesDecisionI x a b = exactCompareDistances x a b := by
  simp [exactDistancesDecisionI, h]

example : exactCompareDistances ⟨1, 0, 0⟩ ⟨1, 1, 0⟩ ⟨0, 1, 0⟩ ≠ 0 := by decide +kernel

/-- The float-level exact + symbolic layer of `CompareDistances` is the exact-integer one (finite inputs). -/
theorem exactDistancesDecision_eq_I (x a b : V3) (ha : Fin3 a) (hb : Fin3 b) :
    exactDistancesDecision x a b = exactDistancesDecisionI (ofV3 x) (ofV3 a) (ofV3 b) := by
  unfold exactDistancesDecision
  by_cases h : V3.feq a b = true
  · rw [if_pos h]
    exact ((exactDistancesDecision_zero_iff _ _ _).mpr ((v3feq_iff ha hb).mp h)).symm
  · rw [if_neg h]
    unfold exactDistancesDecisionI symbolicCompareDistances symbolicCompareDistancesI
    rw [v3cmp_eq ha hb]
    by_cases h' : exactCompareDistances (ofV3 x) (ofV3 a) (ofV3 b) = 0 <;> simp [h']

/-- **`exactCompareDistance` is the exact comparison of the true distance XY with the chord-angle limit r**
    (squared chord length r2, so cos r = 1 − r2/2): the sign of `cos r − cos XY`, i.e. −1 iff XY < r,
    +1 iff XY > r, 0 iff equal.  Vectors and r2 are integers at scale S (value = integer / S). -/
theorem exactCompareDistance_true_distance (S : ℤ) (hS : 0 < S) (x y : IV3) (r2 : ℤ) (nx ny : ℝ)
    (hnx : 0 < nx) (hny : 0 < ny) (hx : nx ^ 2 = (x.norm2 : ℝ)) (hy : ny ^ 2 = (y.norm2 : ℝ)) :
    exactCompareDistanceS S x y r2 =
      rsgn (((2 * S - r2 : ℤ) : ℝ) / (2 * S) - (x.dot y : ℝ) / (nx * ny)) := by
  have hSR : (0 : ℝ) < 2 * (S : ℝ) := by have : (0 : ℝ) < S := Int.cast_pos.mpr hS; linarith
  have hA : (nx * ny) ^ 2 = (x.norm2 : ℝ) * (y.norm2 : ℝ) := by rw [mul_pow, hx, hy]
  have hB : (2 * (S : ℝ)) ^ 2 = 4 * S * S := by ring
  rw [← cos_compare_real (x.dot y) ((2 * S - r2 : ℤ) : ℝ) (nx * ny) (2 * S) _ _ (mul_pos hnx hny) hSR hA hB]
  simp only [exactCompareDistanceS, sgn_eq_rsgn_cast]
  push_cast
  have e : (4 : ℝ) * S * S * ((x.dot y : ℝ) * (x.dot y : ℝ)) = (x.dot y : ℝ) * (x.dot y : ℝ) * (4 * S * S) := by ring
  rw [e]

/-! ## (6) the float fast paths are sound GIVEN their error bounds

  The sufficiency of the constants themselves (`maxDeterminantError = 1.8274·ε`, `detErrorMultiplier`,
  the cos / sin² error formulas, `3.046875·ε`) is NOT proved: it is the hypothesis `hbound` below
  (PARTIAL; searched by the oracle: every stage, "non-zero ⇒ equals the exact sign"). -/

/-- Pure logic of every triage stage: if the float value `det` is within `err` of the true value `T/K`
    (integers at scale 2^1074: `|det·K − T| ≤ err·K`), then `threshold det err` is 0 or the sign of the true value.
    `hneg` (negating a float negates its exact value) holds for every finite float; it is a decidable
    side condition here because the bit-level lemma is not proved. -/
theorem threshold_given_error_bound (det err : F64) (T K : ℤ) (hK : 0 < K)
    (hd : Fin det) (he : Fin err) (hne : Fin (-err)) (hneg : toInt (-err) = -toInt err)
    (hbound : |toInt det * K - T| ≤ toInt err * K) :
    threshold det err = 0 ∨ threshold det err = sgn T := by
  have hb := abs_le.mp hbound
  unfold threshold
  split
  · rename_i h
    have h' := (gt_iff hd he).mp h
    have : 0 < (toInt det - toInt err) * K := mul_pos (sub_pos.mpr h') hK
    right; rw [sgn_pos (by nlinarith)]
  · split
    · rename_i h
      have h' := (lt_iff hd hne).mp h
      rw [hneg] at h'
      have : (toInt det + toInt err) * K < 0 := mul_neg_of_neg_of_pos (by linarith) hK
      right; rw [sgn_neg' (by nlinarith)]
    · left; rfl

/-- The same with a real-valued truth `t` (scaled by 2^1074), for the distance stages whose true value
    (a difference of cosines of normalised points) is irrational. -/
theorem threshold_given_error_bound_real (det err : F64) (t : ℝ)
    (hd : Fin det) (he : Fin err) (hne : Fin (-err)) (hneg : toInt (-err) = -toInt err)
    (hbound : |(toInt det : ℝ) - t| ≤ (toInt err : ℝ)) :
    threshold det err = 0 ∨ threshold det err = rsgn t := by
  have hb := abs_le.mp hbound
  unfold threshold
  split
  · rename_i h
    have h' : (toInt err : ℝ) < toInt det := Int.cast_lt.mpr ((gt_iff hd he).mp h)
    right; rw [rsgn_of_pos (by linarith)]
  · split
    · rename_i h
      have h' := (lt_iff hd hne).mp h
      rw [hneg] at h'
      have h'' : (toInt det : ℝ) < -(toInt err : ℝ) := by exact_mod_cast h'
      right; rw [rsgn_of_neg (by linarith)]
    · left; rfl

/-- `triageSign` returns 0 or the exact sign, GIVEN that the float determinant is within
    `maxDeterminantError` of the exact one (both sides scaled to integers: fl·2^(2·1074) vs det·2^(3·1074)). -/
theorem triageSign_given_error_bound (a b c : V3) (hfin : Fin ((a.cross b).dot c))
    (hbound : |toInt ((a.cross b).dot c) * ((scale : ℤ) ^ 2) - det3 (ofV3 a) (ofV3 b) (ofV3 c)|
                ≤ toInt maxDeterminantError * ((scale : ℤ) ^ 2)) :
    triageSign a b c = 0 ∨ triageSign a b c = detSign a b c := by
  have hK : (0 : ℤ) < (scale : ℤ) ^ 2 := by unfold scale; positivity
  obtain ⟨h1, h2, h3⟩ := maxDeterminantError_facts
  exact threshold_given_error_bound _ _ _ _ hK hfin h1 h2 h3 hbound

example :
    let a : V3 := ⟨F64.one, F64.zero false, F64.zero false⟩
    let b : V3 := ⟨F64.zero false, F64.one, F64.zero false⟩
    let c : V3 := ⟨F64.zero false, F64.zero false, F64.one⟩
    Fin ((a.cross b).dot c) ∧
    |toInt ((a.cross b).dot c) * ((scale : ℤ) ^ 2) - det3 (ofV3 a) (ofV3 b) (ofV3 c)|
      ≤ toInt maxDeterminantError * ((scale : ℤ) ^ 2) := by decide +kernel

/-- `stableSign` returns 0 or the exact sign, GIVEN that its float determinant is within its computed
    `maxErr = detErrorMultiplier·sqrt(|e1|²|e2|²)` of the exact determinant. -/
theorem stableSign_given_error_bound (a b c : V3)
    (hd : Fin (stableDetErr a b c).1) (he : Fin (stableDetErr a b c).2) (hne : Fin (-(stableDetErr a b c).2))
    (hneg : toInt (-(stableDetErr a b c).2) = -toInt (stableDetErr a b c).2)
    (hbound : |toInt (stableDetErr a b c).1 * ((scale : ℤ) ^ 2) - det3 (ofV3 a) (ofV3 b) (ofV3 c)|
                ≤ toInt (stableDetErr a b c).2 * ((scale : ℤ) ^ 2)) :
    stableSign a b c = 0 ∨ stableSign a b c = detSign a b c := by
  have hK : (0 : ℤ) < (scale : ℤ) ^ 2 := by unfold scale; positivity
  unfold stableSign
  split
  · left; rfl
  · exact threshold_given_error_bound _ _ _ _ hK hd he hne hneg hbound

/-- `triageCompareCosDistances` returns 0 or the true comparison, GIVEN that the float difference of
    cosines is within the computed error of the true difference `t = 2^1074·(cos AX − cos BX)`
    (result −1 means AX < BX, i.e. cos AX > cos BX). -/
theorem triageCompareCosDistances_given_error_bound (x a b : V3) (t : ℝ)
    (hd : Fin (cosDistancesDiffErr x a b).1) (he : Fin (cosDistancesDiffErr x a b).2)
    (hne : Fin (-(cosDistancesDiffErr x a b).2))
    (hneg : toInt (-(cosDistancesDiffErr x a b).2) = -toInt (cosDistancesDiffErr x a b).2)
    (hbound : |(toInt (cosDistancesDiffErr x a b).1 : ℝ) - t| ≤ (toInt (cosDistancesDiffErr x a b).2 : ℝ)) :
    triageCompareCosDistances x a b = 0 ∨ triageCompareCosDistances x a b = -rsgn t := by
  have h := threshold_given_error_bound_real _ _ t hd he hne hneg hbound
  show Int.neg (threshold (cosDistancesDiffErr x a b).1 (cosDistancesDiffErr x a b).2) = 0 ∨
    Int.neg (threshold (cosDistancesDiffErr x a b).1 (cosDistancesDiffErr x a b).2) = -rsgn t
  rcases h with h | h
  · left; rw [h]; rfl
  · right; rw [h]; rfl

/-- `triageCompareSin2Distances` returns 0 or the true comparison of sin², GIVEN its error bound
    (`t = 2^1074·(sin² AX − sin² BX)`). -/
theorem triageCompareSin2Distances_given_error_bound (x a b : V3) (t : ℝ)
    (hd : Fin (sin2DistancesDiffErr x a b).1) (he : Fin (sin2DistancesDiffErr x a b).2)
    (hne : Fin (-(sin2DistancesDiffErr x a b).2))
    (hneg : toInt (-(sin2DistancesDiffErr x a b).2) = -toInt (sin2DistancesDiffErr x a b).2)
    (hbound : |(toInt (sin2DistancesDiffErr x a b).1 : ℝ) - t| ≤ (toInt (sin2DistancesDiffErr x a b).2 : ℝ)) :
    triageCompareSin2Distances x a b = 0 ∨ triageCompareSin2Distances x a b = rsgn t :=
  threshold_given_error_bound_real _ _ t hd he hne hneg hbound

example :
    let x : V3 := ⟨F64.one, F64.zero false, F64.zero false⟩
    let a : V3 := ⟨F64.zero false, F64.one, F64.zero false⟩
    Fin (cosDistancesDiffErr x a a).1 ∧ Fin (cosDistancesDiffErr x a a).2 ∧ Fin (-(cosDistancesDiffErr x a a).2) ∧
    toInt (-(cosDistancesDiffErr x a a).2) = -toInt (cosDistancesDiffErr x a a).2 ∧
    Fin (sin2DistancesDiffErr x a a).1 ∧ Fin (sin2DistancesDiffErr x a a).2 ∧ Fin (-(sin2DistancesDiffErr x a a).2) ∧
    toInt (-(sin2DistancesDiffErr x a a).2) = -toInt (sin2DistancesDiffErr x a a).2 ∧
    Fin (stableDetErr x a a).1 ∧ Fin (stableDetErr x a a).2 ∧ Fin (-(stableDetErr x a a).2) ∧
    toInt (-(stableDetErr x a a).2) = -toInt (stableDetErr x a a).2 := by decide +kernel

/-- `triageSignDotProd` returns 0 or the exact sign of a·b, GIVEN that the float dot product is within
    `3.046875·ε` of the exact one. -/
theorem triageSignDotProd_given_error_bound (a b : V3) (hfin : Fin (a.dot b)) (habs : Fin (a.dot b).abs)
    (habsv : toInt (a.dot b).abs = |toInt (a.dot b)|)
    (hbound : |toInt (a.dot b) * (scale : ℤ) - (ofV3 a).dot (ofV3 b)| ≤ toInt sdpMaxError * (scale : ℤ)) :
    triageSignDotProd a b = 0 ∨ triageSignDotProd a b = dotSign a b := by
  have hK : (0 : ℤ) < (scale : ℤ) := by unfold scale; positivity
  have hE : Fin sdpMaxError := by decide +kernel
  have hz : Fin fzero ∧ toInt fzero = 0 := by decide +kernel
  have hb := abs_le.mp hbound
  unfold triageSignDotProd dotSign
  simp only
  split
  · left; rfl
  · rename_i h
    have h' : ¬ (toInt (a.dot b).abs ≤ toInt sdpMaxError) := fun hh => h ((le_iff habs hE).mpr hh)
    rw [habsv] at h'
    have h'' : toInt sdpMaxError < |toInt (a.dot b)| := not_le.mp h'
    right
    split
    · rename_i hg
      have hpos : 0 < toInt (a.dot b) := by have := (gt_iff hfin hz.1).mp hg; rw [hz.2] at this; exact this
      rw [abs_of_pos hpos] at h''
      have : 0 < (toInt (a.dot b) - toInt sdpMaxError) * (scale : ℤ) := mul_pos (sub_pos.mpr h'') hK
      rw [sgn_pos (by nlinarith)]
    · rename_i hg
      have hnp : ¬ (0 < toInt (a.dot b)) := fun hh => hg ((gt_iff hfin hz.1).mpr (by rw [hz.2]; exact hh))
      have hneg : toInt (a.dot b) < 0 := by
        rcases lt_trichotomy (toInt (a.dot b)) 0 with h0 | h0 | h0
        · exact h0
        · rw [h0] at h''; simp at h''
          have : Fin sdpMaxError ∧ 0 ≤ toInt sdpMaxError := by decide +kernel
          omega
        · exact absurd h0 hnp
      rw [abs_of_neg hneg] at h''
      have : (toInt (a.dot b) + toInt sdpMaxError) * (scale : ℤ) < 0 := mul_neg_of_neg_of_pos (by linarith) hK
      rw [sgn_neg' (by nlinarith)]

example :
    let a : V3 := ⟨F64.one, F64.zero false, F64.zero false⟩
    Fin (a.dot a) ∧ Fin (a.dot a).abs ∧ toInt (a.dot a).abs = |toInt (a.dot a)| ∧
    |toInt (a.dot a) * (scale : ℤ) - (ofV3 a).dot (ofV3 a)| ≤ toInt sdpMaxError * (scale : ℤ) := by decide +kernel

/-! ### the three-stage cascade -/

theorem exactDecision_of_det_ne (a b c : V3) (ha : Fin3 a) (hb : Fin3 b) (hc : Fin3 c)
    (h : detSign a b c ≠ 0) : exactDecision a b c = detSign a b c := by
  rw [exactDecision_eq_exactDecisionI a b c ha hb hc]
  have hdet : det3 (ofV3 a) (ofV3 b) (ofV3 c) ≠ 0 := fun h0 => h (by simp [detSign, h0, sgn])
  unfold exactDecisionI
  rw [if_neg (fun heq => hdet (det3_eq_zero_of_eq heq))]
  exact exactSign_eq_sign_det _ _ _ true hdet

/-- **The cascade is exact given the error bounds**: if `triageSign` and `stableSign` each return 0 or the
    exact sign (conclusions of the two `…_given_error_bound` theorems), then for all finite points
    `RobustSign` = the exact + symbolic decision — hence it has all the properties (1)–(4). -/
theorem robustSign_given_error_bounds (a b c : V3) (ha : Fin3 a) (hb : Fin3 b) (hc : Fin3 c)
    (htri : triageSign a b c = 0 ∨ triageSign a b c = detSign a b c)
    (hstab : stableSign a b c = 0 ∨ stableSign a b c = detSign a b c) :
    robustSign a b c = exactDecision a b c := by
  unfold robustSign robustSignS
  by_cases h1 : triageSign a b c = 0
  · simp only [h1, bne_self_eq_false, Bool.false_eq_true, if_false]
    unfold expensiveSignS
    by_cases heq : (V3.feq a b || V3.feq b c || V3.feq c a) = true
    · simp only [heq, if_true]; unfold exactDecision; rw [if_pos heq]
    · simp only [heq, if_false]
      by_cases h2 : stableSign a b c = 0
      · simp only [h2, bne_self_eq_false, Bool.false_eq_true, if_false]
        by_cases h3 : exactSign a b c false = 0
        · simp only [h3, bne_self_eq_false, Bool.false_eq_true, if_false]
          unfold exactDecision; rw [if_neg heq]
        · have hb3 : (exactSign a b c false != 0) = true := by simpa using h3
          simp only [hb3, if_true]
          have hu : exactSign a b c false = detSign a b c := by
            rw [exactSign_eq_exactSignI a b c false ha hb hc, exactSign_unperturbed_eq_sign_det]; rfl
          rw [hu] at h3 ⊢
          exact (exactDecision_of_det_ne a b c ha hb hc h3).symm
      · have hb2 : (stableSign a b c != 0) = true := by simpa using h2
        simp only [hb2, if_true]
        rcases hstab with h | h
        · exact absurd h h2
        · rw [h] at h2 ⊢; exact (exactDecision_of_det_ne a b c ha hb hc h2).symm
  · have hb1 : (triageSign a b c != 0) = true := by simpa using h1
    simp only [hb1, if_true]
    rcases htri with h | h
    · exact absurd h h1
    · rw [h] at h1 ⊢; exact (exactDecision_of_det_ne a b c ha hb hc h1).symm

example :
    let a : V3 := ⟨F64.one, F64.zero false, F64.zero false⟩
    let b : V3 := ⟨F64.zero false, F64.one, F64.zero false⟩
    let c : V3 := ⟨F64.zero false, F64.zero false, F64.one⟩
    Fin3 a ∧ Fin3 b ∧ Fin3 c ∧ (triageSign a b c = 0 ∨ triageSign a b c = detSign a b c) ∧
      (stableSign a b c = 0 ∨ stableSign a b c = detSign a b c) := by decide +kernel

end S2Proofs.C02
